import StepupModel.Lemmas.ResourcesFrame
import StepupModel.Lemmas.StableInst
import StepupModel.Lemmas.KFrame
import StepupModel.Lemmas.MetaSafeReach
/-!
# C12: the RUNNING steps never hold more than the resource table makes available; hold blocks RUN jobs

Model facts used.  A step holds its `step_resource` rows while its row is RUNNING, attached or not
(`RESOURCE_UNAVAILABLE` sums over `step.state = RUNNING`).  In the implementation a row becomes RUNNING in
one place only, `Scheduler.pop_next_job` (`step.set_state(state)` after `SELECT_NEXT_STEP`, which tests the
resources of a step without recorded hash); the executor never sets RUNNING: after a failed hash check it
calls `reset_for_rerun`, `delete_hash`, `set_state(PENDING)` (`Executor._reset_step_to_pending`) and the step
is dispatched again through the RUN path, resource test included.  `step_resource` rows are written in one
place, `Step.set_resources`, called by `define_step` for a new step and for a recycled one.

## Statements (all for a fixed `cfg.available`)

* `ResourcesOK s cfg` (goal 1): for every name with `avail` units in the table the RUNNING steps hold at
  most `avail`; no RUNNING step requires an undefined name.  `ResKeyed`: one resource row per name and step
  (the primary key of `step_resource`).
* Frame: `Lemmas/ResourcesFrame.lean` (`StableRes`: `StableG` without `set_state(RUNNING)` and without
  `set_resources`), instance `stableRes_within` ("what the RUNNING rows hold does not grow"),
  `exec_quiet_frame` (requests other than `define`, `pop`, `setState _ RUNNING` make no row RUNNING and
  change no resources of a RUNNING row), generic request theorem `exec_stableRes`.
* Side conditions on a request, each on the state it is issued in:
  `SetRunningOK` (a `setState k RUNNING` request is made on a step that passes the dispatch test; implied by
  `NoForeignRunning`: no such request at all; **weakest**: `setRunning_sharp`),
  `RecycleFits` (a full recycle of a RUNNING step puts in place a requirement that fits; implied by
  `NoRecycleWhileRunning`: `define` never recycles or re-creates a RUNNING step),
  `DeclKeyed` (`resources` is a dict), and the table does not change (`Guarded`).
* **`exec_resourcesOK`**, `step_resourcesOK`, `run_resourcesOK`, **`reachable_resourcesOK`**.
* The conditions are needed: `Witness.recycle_running_breaks` / `recycle_running_negation` (finding F7),
  `setState_running_negation`, `setState_running_undefined_negation`, `table_change_negation`,
  `duplicate_names_negation` (model only).  Replay files: `/verif/work/proofRes/counterexample_{1,2,3}.txt`.
* Hold: **`popNext_hold`** (state level), `hold_blocks_run_partial`, `check_bypasses_hold_partial`
  (reachable states, flag discipline as hypothesis; `Lemmas/ResourcesHold.lean` discharges it for the
  histories of the director); full statement `HoldBlocksRun`.

No property statements of `Props/` are changed here; `Props/C12.lean` has the per-dispatch facts.
-/
namespace StepupModel.K.Resources
open StepupModel.K StepupModel.Lemmas
open StepupModel.K.MetaSafe
open StepupModel.K.MetaAfter (AfterFrame)
set_option linter.unusedSimpArgs false
set_option linter.unusedVariables false

/-! ## Definitions -/

/-- Units of resource `name` in a list of `step_resource` rows (`SUM(units) WHERE name = ?`). -/
def unitsIn (name : String) (rs : List (String × Nat)) : Nat :=
  (rs.filter (·.1 = name)).foldl (fun a r => a + r.2) 0

/-- The row is a step whose command runs: it holds its resources. -/
def runs (n : Node) : Bool := decide (n.key.kind = .step ∧ n.sstate = .running)

/-- Units of `name` held by the RUNNING steps (attached or not), summed the way `RESOURCE_UNAVAILABLE`
sums them. -/
def used (s : KState) (name : String) : Nat :=
  (s.nodes.filter fun m => m.key.kind = .step ∧ m.sstate = .running).foldl
    (fun acc m => acc + unitsIn name m.resources) 0

/-- **C12, resources.**  For every resource name with `avail` units in the table of the scheduler, the
units required by the RUNNING steps sum to at most `avail`, and no RUNNING step requires an undefined
resource.  (`find?`: the lookup of `RESOURCE_UNAVAILABLE`; the table of the implementation has one row
per name, see `resourcesOK_mem`.) -/
def ResourcesOK (s : KState) (cfg : KConfig) : Prop :=
  (∀ name avail, cfg.available.find? (·.1 = name) = some (name, avail) → used s name ≤ avail) ∧
  (∀ n ∈ s.nodes, n.key.kind = .step → n.sstate = .running →
    ∀ r ∈ n.resources, (cfg.available.find? (·.1 = r.1)).isSome = true)

/-- The primary key `(node, name)` of `step_resource`: one row per name and step. -/
def ResKeyed (s : KState) : Prop := ∀ n ∈ s.nodes, (n.resources.map (·.1)).Nodup

/-! ## Sums -/

/-- What a row contributes to `used`. -/
def load (name : String) (n : Node) : Nat := if runs n = true then unitsIn name n.resources else 0

theorem foldl_add_filter {α : Type} (p : α → Bool) (f : α → Nat) : ∀ (l : List α) (a : Nat),
    (l.filter p).foldl (fun acc m => acc + f m) a = a + (l.map fun m => if p m = true then f m else 0).sum
  | [], a => by simp
  | x :: l, a => by
    by_cases hx : p x = true
    · simp only [List.filter_cons, hx, if_true, List.foldl_cons, List.map_cons, List.sum_cons]
      rw [foldl_add_filter p f l]; omega
    · have hx' : p x = false := by simpa using hx
      simp only [List.filter_cons, hx', List.map_cons, List.sum_cons]
      simp only [Bool.false_eq_true, if_false, Nat.zero_add]
      exact foldl_add_filter p f l a

theorem used_eq_sum (s : KState) (name : String) : used s name = (s.nodes.map (load name)).sum := by
  unfold used
  rw [foldl_add_filter]
  simp only [Nat.zero_add]
  congr 1

theorem sum_map_le {α : Type} {f g : α → Nat} : ∀ {l : List α}, (∀ n ∈ l, g n ≤ f n) → (l.map g).sum ≤ (l.map f).sum
  | [], _ => by simp
  | x :: l, h => by
    simp only [List.map_cons, List.sum_cons]
    have := h x List.mem_cons_self
    have := sum_map_le (l := l) fun n hn => h n (List.mem_cons_of_mem _ hn)
    omega

theorem sum_sublist_le {α : Type} (f : α → Nat) {l' l : List α} (h : l'.Sublist l) : (l'.map f).sum ≤ (l.map f).sum := by
  induction h with
  | slnil => simp
  | cons a _ ih => simp only [List.map_cons, List.sum_cons]; omega
  | cons_cons a _ ih => simp only [List.map_cons, List.sum_cons]; omega

/-- One row (the only one with its key) may grow by `c`, the others do not grow. -/
theorem sum_map_le_add {F G : Node → Nat} (k : Key) (c : Nat) : ∀ (l : List Node), (l.map (·.key)).Nodup →
    (∀ m ∈ l, m.key ≠ k → G m ≤ F m) → (∀ m ∈ l, m.key = k → G m ≤ F m + c) →
    (l.map G).sum ≤ (l.map F).sum + c
  | [], _, _, _ => by simp
  | a :: l, hn, h1, h2 => by
    simp only [List.map_cons, List.nodup_cons] at hn
    simp only [List.map_cons, List.sum_cons]
    by_cases ha : a.key = k
    · have hh := h2 a List.mem_cons_self ha
      have ht : (l.map G).sum ≤ (l.map F).sum := by
        refine sum_map_le fun m hm => h1 m (List.mem_cons_of_mem _ hm) ?_
        intro hmk
        exact hn.1 (List.mem_map.2 ⟨m, hm, hmk.trans ha.symm⟩)
      omega
    · have hh := h1 a List.mem_cons_self ha
      have ht := sum_map_le_add k c l hn.2 (fun m hm => h1 m (List.mem_cons_of_mem _ hm))
        (fun m hm => h2 m (List.mem_cons_of_mem _ hm))
      omega

/-- The one row of key `k` is exchanged, the others do not grow. -/
theorem sum_map_swap {F G : Node → Nat} (k : Key) : ∀ (l : List Node), (l.map (·.key)).Nodup →
    ∀ m0 ∈ l, m0.key = k → (∀ m ∈ l, m.key ≠ k → G m ≤ F m) → (l.map G).sum + F m0 ≤ (l.map F).sum + G m0
  | [], _, _, h, _, _ => by cases h
  | a :: l, hn, m0, hm0, hk0, h1 => by
    simp only [List.map_cons, List.nodup_cons] at hn
    simp only [List.map_cons, List.sum_cons]
    by_cases ha : a.key = k
    · have hnot : ∀ m ∈ l, m.key ≠ k := fun m hm hmk =>
        hn.1 (List.mem_map.2 ⟨m, hm, hmk.trans ha.symm⟩)
      have : m0 = a := by
        rcases List.mem_cons.1 hm0 with h | h
        · exact h
        · exact absurd hk0 (hnot m0 h)
      subst this
      have ht : (l.map G).sum ≤ (l.map F).sum :=
        sum_map_le fun m hm => h1 m (List.mem_cons_of_mem _ hm) (hnot m hm)
      omega
    · have hm0' : m0 ∈ l := by
        rcases List.mem_cons.1 hm0 with h | h
        · exact absurd (h ▸ hk0) ha
        · exact h
      have hh := h1 a List.mem_cons_self ha
      have ht := sum_map_swap k l hn.2 m0 hm0' hk0 (fun m hm => h1 m (List.mem_cons_of_mem _ hm))
      omega

/-- One row grows by at least `c`, no row shrinks. -/
theorem sum_map_ge_add {F G : Node → Nat} (c : Nat) : ∀ (l : List Node), ∀ m0 ∈ l, (∀ m ∈ l, F m ≤ G m) →
    F m0 + c ≤ G m0 → (l.map F).sum + c ≤ (l.map G).sum
  | [], _, h, _, _ => by cases h
  | a :: l, m0, hm0, h1, h2 => by
    simp only [List.map_cons, List.sum_cons]
    have ht : (l.map F).sum ≤ (l.map G).sum := sum_map_le fun m hm => h1 m (List.mem_cons_of_mem _ hm)
    rcases List.mem_cons.1 hm0 with h | h
    · subst h; omega
    · have := sum_map_ge_add c l m0 h (fun m hm => h1 m (List.mem_cons_of_mem _ hm)) h2
      have := h1 a List.mem_cons_self
      omega

theorem unitsIn_eq_zero {name : String} {rs : List (String × Nat)} (h : name ∉ rs.map (·.1)) : unitsIn name rs = 0 := by
  unfold unitsIn
  have : rs.filter (·.1 = name) = [] := by
    rw [List.filter_eq_nil_iff]
    intro r hr hh
    exact h (List.mem_map.2 ⟨r, hr, by simpa using hh⟩)
  rw [this]; rfl

theorem unitsIn_cons (name : String) (r : String × Nat) (rs : List (String × Nat)) :
    unitsIn name (r :: rs) = (if r.1 = name then r.2 else 0) + unitsIn name rs := by
  unfold unitsIn
  rw [foldl_add_filter, foldl_add_filter]
  simp only [List.map_cons, List.sum_cons, Nat.zero_add, decide_eq_true_eq]

/-- With one row per name, the sum over the rows of a name is the entry of that name. -/
theorem unitsIn_of_mem {name : String} {u : Nat} : ∀ {rs : List (String × Nat)}, (rs.map (·.1)).Nodup →
    (name, u) ∈ rs → unitsIn name rs = u
  | [], _, h => by cases h
  | r :: rs, hn, h => by
    simp only [List.map_cons, List.nodup_cons] at hn
    rw [unitsIn_cons]
    rcases List.mem_cons.1 h with rfl | h'
    · simp only [if_true]
      rw [unitsIn_eq_zero hn.1]; rfl
    · have hne : r.1 ≠ name := by
        intro e
        exact hn.1 (List.mem_map.2 ⟨(name, u), h', e.symm⟩)
      simp only [hne, if_false, Nat.zero_add]
      exact unitsIn_of_mem hn.2 h'


/-! ## The frame predicate -/

/-- What the requests that start no command and write no `step_resource` row keep, for any bound `U` on
the units held per name and any predicate `D` of the (key, resources) of the RUNNING rows: one row per
key, one resource row per name and step, the RUNNING steps hold at most `U`, every RUNNING row has `D`. -/
structure Within (U : String → Option Nat) (D : Key → List (String × Nat) → Prop) (s : KState) : Prop where
  keys : KeysUnique s
  keyed : ResKeyed s
  le : ∀ name a, U name = some a → used s name ≤ a
  dom : ∀ n ∈ s.nodes, runs n = true → D n.key n.resources

variable {U : String → Option Nat} {D : Key → List (String × Nat) → Prop}

theorem eq_of_find {s : KState} (hk : KeysUnique s) {k : Key} {n m : Node} (hf : s.find? k = some n)
    (hm : m ∈ s.nodes) (hmk : m.key = k) : m = n := by
  have := MetaSafe.find?_of_mem hk hm
  rw [hmk, hf] at this
  exact (Option.some.inj this).symm

/-- Row-wise rewriting that keeps keys, does not make a row hold more, and keeps `D` on what runs. -/
theorem within_map (s : KState) (g : Node → Node)
    (hg : ∀ n ∈ s.nodes, (g n).key = n.key ∧ ((n.resources.map (·.1)).Nodup → ((g n).resources.map (·.1)).Nodup) ∧
      (∀ name, load name (g n) ≤ load name n) ∧
      (runs (g n) = true → (runs n = true → D n.key n.resources) → D (g n).key (g n).resources))
    (h : Within U D s) : Within U D { s with nodes := s.nodes.map g } := by
  refine ⟨?_, ?_, ?_, ?_⟩
  · have : (s.nodes.map g).map (·.key) = s.nodes.map (·.key) := by
      rw [List.map_map]
      exact List.map_congr_left fun n hn => (hg n hn).1
    unfold KeysUnique
    rw [show ({ s with nodes := s.nodes.map g } : KState).nodes = s.nodes.map g from rfl, this]
    exact h.keys
  · intro n hn
    obtain ⟨m, hm, rfl⟩ := List.mem_map.1 hn
    exact (hg m hm).2.1 (h.keyed m hm)
  · intro name a ha
    rw [used_eq_sum]
    rw [show ({ s with nodes := s.nodes.map g } : KState).nodes = s.nodes.map g from rfl, List.map_map]
    refine Nat.le_trans (sum_map_le fun n hn => ?_) (used_eq_sum s name ▸ h.le name a ha)
    exact (hg n hn).2.2.1 name
  · intro n hn hr
    obtain ⟨m, hm, rfl⟩ := List.mem_map.1 hn
    exact (hg m hm).2.2.2 hr (h.dom m hm)

/-- The common case: key and resources stay, no row starts to run. -/
theorem within_map_same (s : KState) (g : Node → Node)
    (hg : ∀ n ∈ s.nodes, (g n).key = n.key ∧ (g n).resources = n.resources ∧ (runs (g n) = true → runs n = true))
    (h : Within U D s) : Within U D { s with nodes := s.nodes.map g } := by
  refine within_map s g (fun n hn => ?_) h
  obtain ⟨h1, h2, h3⟩ := hg n hn
  refine ⟨h1, fun hh => h2 ▸ hh, fun name => ?_, fun hr hd => ?_⟩
  · unfold load
    by_cases hr : runs (g n) = true
    · rw [if_pos hr, if_pos (h3 hr), h2]; exact Nat.le_refl _
    · rw [if_neg hr]; exact Nat.zero_le _
  · rw [h1, h2]; exact hd (h3 hr)

theorem within_nodes_eq {s s' : KState} (he : s'.nodes = s.nodes) (h : Within U D s) : Within U D s' := by
  refine ⟨?_, ?_, ?_, ?_⟩
  · unfold KeysUnique; rw [he]; exact h.keys
  · unfold ResKeyed; rw [he]; exact h.keyed
  · intro name a ha
    have : used s' name = used s name := by unfold used; rw [he]
    rw [this]; exact h.le name a ha
  · rw [he]; exact h.dom

theorem within_sublist {s : KState} {l : List Node} (hl : l.Sublist s.nodes) (h : Within U D s) :
    Within U D { s with nodes := l } := by
  refine ⟨?_, ?_, ?_, ?_⟩
  · exact List.Nodup.sublist (List.Sublist.map _ hl) h.keys
  · intro n hn; exact h.keyed n (hl.subset hn)
  · intro name a ha
    rw [used_eq_sum]
    exact Nat.le_trans (sum_sublist_le _ hl) (used_eq_sum s name ▸ h.le name a ha)
  · intro n hn; exact h.dom n (hl.subset hn)

theorem within_modifyWhere (s : KState) (p : Node → Bool) (f : Node → Node)
    (hf : ∀ n, (f n).key = n.key ∧ (f n).resources = n.resources ∧ (runs (f n) = true → runs n = true))
    (h : Within U D s) : Within U D (s.modifyWhere p f) := by
  refine within_map_same s (fun n => if p n then f n else n) (fun n _ => ?_) h
  by_cases hp : p n = true
  · simp only [hp, if_true]; exact hf n
  · simp only [hp]; exact ⟨rfl, rfl, id⟩

theorem within_modify (s : KState) (k : Key) (f : Node → Node)
    (hf : ∀ n, (f n).key = n.key ∧ (f n).resources = n.resources ∧ (runs (f n) = true → runs n = true))
    (h : Within U D s) : Within U D (s.modify k f) := by
  refine within_map_same s (fun n => if n.key = k then f n else n) (fun n _ => ?_) h
  by_cases hp : n.key = k
  · rw [if_pos hp]; exact hf n
  · rw [if_neg hp]; exact ⟨rfl, rfl, id⟩

/-- Replacing the row of `k` by a row with the same key and resources that runs only if it ran. -/
theorem within_replace (s : KState) (k : Key) (n n' : Node) (hf : s.find? k = some n)
    (hn : n'.key = n.key ∧ n'.resources = n.resources ∧ (runs n' = true → runs n = true))
    (h : Within U D s) : Within U D (s.modify k fun _ => n') := by
  refine within_map_same s (fun m => if m.key = k then n' else m) (fun m hm => ?_) h
  by_cases hp : m.key = k
  · have : m = n := eq_of_find h.keys hf hm hp
    subst this
    rw [if_pos hp]; exact hn
  · rw [if_neg hp]; exact ⟨rfl, rfl, id⟩

theorem runs_of_hard {a b : Node} (h : a.hard = b.hard) : runs a = runs b := by
  simp only [Node.hard, Prod.mk.injEq] at h
  unfold runs
  rw [h.1, h.2.2.2.2.2.1]

theorem fileRowWrite_frame {n n' : Node} {st : FileState} {nh : Option (Option Nat)}
    (h : fileRowWrite n st nh = .ok n') : n'.key = n.key ∧ n'.resources = n.resources ∧ (runs n' = true → runs n = true) := by
  unfold fileRowWrite at h
  dsimp only at h
  split at h
  · cases h
  · split at h
    · cases h
    · simp only [pure, Except.pure, Except.ok.injEq] at h
      subst h; exact ⟨rfl, rfl, id⟩

theorem stepRowWrite_cols {n n' : Node} {st : StepState} {d : Option Bool}
    (h : stepRowWrite n st d = .ok n') : n'.key = n.key ∧ n'.resources = n.resources ∧ n'.sstate = st := by
  unfold stepRowWrite at h
  dsimp only at h
  split at h
  · cases h
  · simp only [pure, Except.pure, Except.ok.injEq] at h
    subst h; exact ⟨rfl, rfl, rfl⟩

/-- **Frame.**  Every primitive write other than `Step.set_state(RUNNING)` and `Step.set_resources` keeps
`Within U D`: the RUNNING rows and what they hold do not grow. -/
theorem stableRes_within (U : String → Option Nat) (D : Key → List (String × Nat) → Prop) : StableRes (Within U D) := by
  refine
    { cache := ?_, detached := ?_, creator := ?_, handOverRow := ?_, fileWrite := ?_, fileInit := ?_,
      stepWrite := ?_, stepInit := ?_, setHash := ?_, deleteHash := ?_, bumpDefer := ?_, hold := ?_,
      release := ?_, recycled := ?_, addDep := ?_, filterDeps := ?_, markDyn := ?_, appendNode := ?_,
      removeNode := ?_, queueDelete := ?_, clearQueue := ?_ }
  · intro s p f hf hp
    exact within_modifyWhere s p f (fun n => ⟨by
      have := (hf n).1
      simp only [Node.hard, Prod.mk.injEq] at this
      exact this.1, (hf n).2, fun hr => by rw [← runs_of_hard (hf n).1]; exact hr⟩) hp
  · intro s k d hp; exact within_modify s k _ (fun _ => ⟨rfl, rfl, id⟩) hp
  · intro s k c d _ hp; exact within_modify s k _ (fun _ => ⟨rfl, rfl, id⟩) hp
  · intro s k tk hp; exact within_modify s k _ (fun _ => ⟨rfl, rfl, id⟩) hp
  · intro s k n n' st nh hf hw hp
    exact within_replace s k n n' hf (fileRowWrite_frame hw) hp
  · intro s k st _ _ hp; exact within_modify s k _ (fun _ => ⟨rfl, rfl, id⟩) hp
  · intro s k n n' st d hst hf hw hp
    obtain ⟨h1, h2, h3⟩ := stepRowWrite_cols hw
    refine within_replace s k n n' hf ⟨h1, h2, fun hr => ?_⟩ hp
    unfold runs at hr
    simp only [decide_eq_true_eq] at hr
    exact absurd (h3 ▸ hr.2) hst
  · intro s k i hp
    refine within_modify s k _ (fun n => ⟨rfl, rfl, fun hr => ?_⟩) hp
    unfold runs at hr
    simp at hr
  · intro s k h hp; exact within_modify s k _ (fun _ => ⟨rfl, rfl, id⟩) hp
  · intro s k hp
    refine within_modify s k _ (fun n => ?_) hp
    split
    · exact ⟨rfl, rfl, id⟩
    · exact ⟨rfl, rfl, id⟩
  · intro s k hp; exact within_modify s k _ (fun _ => ⟨rfl, rfl, id⟩) hp
  · intro s k hp; exact within_modify s k _ (fun _ => ⟨rfl, rfl, id⟩) hp
  · intro s k n _ _ hp; exact within_modify s k _ (fun _ => ⟨rfl, rfl, id⟩) hp
  · intro s k need shell hp; exact within_modify s k _ (fun _ => ⟨rfl, rfl, id⟩) hp
  · intro s src snk _ _ hp; exact within_nodes_eq (s := s) rfl hp
  · intro s p hp; exact within_nodes_eq (s := s) rfl hp
  · intro s src snk dyn hp; exact within_nodes_eq (s := s) rfl hp
  · intro s k c hfind hins hp
    have hk : KeysUnique (s.appendNode k c) :=
      (keysNodup_iff _).1 (stable_keysNodup.appendNode s k c hfind hins ((keysNodup_iff _).2 hp.keys))
    refine ⟨hk, ?_, ?_, ?_⟩
    · intro n hn
      unfold KState.appendNode at hn
      rcases List.mem_append.1 hn with hn | hn
      · exact hp.keyed n hn
      · simp only [List.mem_singleton] at hn; subst hn; exact List.nodup_nil
    · intro name a ha
      rw [used_eq_sum]
      unfold KState.appendNode
      simp only [List.map_append, List.sum_append, List.map_cons, List.map_nil, List.sum_cons, List.sum_nil]
      have := used_eq_sum s name ▸ hp.le name a ha
      have h0 : load name ({ key := k, creator := c, detached := s.creatorDetached c } : Node) = 0 := by
        unfold load runs; simp
      omega
    · intro n hn hr
      unfold KState.appendNode at hn
      rcases List.mem_append.1 hn with hn | hn
      · exact hp.dom n hn hr
      · simp only [List.mem_singleton] at hn; subst hn
        unfold runs at hr; simp at hr
  · intro s k _ hp; exact within_sublist List.filter_sublist hp
  · intro s path h hp; exact within_nodes_eq (s := s) rfl hp
  · intro s hp; exact within_nodes_eq (s := s) rfl hp


/-! ## The two writes that are not leaves -/

theorem runs_iff (n : Node) : runs n = true ↔ n.key.kind = .step ∧ n.sstate = .running := by
  unfold runs; simp

/-- `Step.set_resources` on a step that does not run, or with the rows the step has already. -/
theorem within_extras (s : KState) (sk : Key) (d : StepDecl) (hd : (d.resources.map (·.1)).Nodup)
    (hsame : ∀ m ∈ s.nodes, m.key = sk → runs m = true → d.resources = m.resources)
    (h : Within U D s) : Within U D (s.setStepExtras sk d) := by
  refine within_map s (fun m => if m.key = sk then { m with resources := d.resources, overrides := d.overrides } else m)
    (fun m hm => ?_) h
  by_cases hk : m.key = sk
  · rw [if_pos hk]
    have hr : runs ({ m with resources := d.resources, overrides := d.overrides } : Node) = runs m := rfl
    refine ⟨rfl, fun _ => hd, fun name => ?_, fun hrun hdm => ?_⟩
    · unfold load
      rw [hr]
      by_cases hrm : runs m = true
      · rw [if_pos hrm, if_pos hrm]
        show unitsIn name d.resources ≤ _
        rw [hsame m hm hk hrm]; exact Nat.le_refl _
      · rw [if_neg hrm, if_neg hrm]; exact Nat.le_refl _
    · rw [hr] at hrun
      show D m.key d.resources
      rw [hsame m hm hk hrun]; exact hdm hrun
  · rw [if_neg hk]
    exact ⟨rfl, id, fun _ => Nat.le_refl _, fun hr hd' => hd' hr⟩

theorem initStepRow_idle (t : KState) (k : Key) (i : StepInit) : ∀ m ∈ (t.initStepRow k i).nodes, m.key = k → runs m = false := by
  intro m hm hk
  unfold KState.initStepRow KState.modify at hm
  obtain ⟨m0, hm0, rfl⟩ := List.mem_map.1 hm
  by_cases h0 : m0.key = k
  · rw [if_pos h0]; unfold runs; simp
  · rw [if_neg h0] at hk; exact absurd hk h0

/-- The row of a step right after `Trellis.create` (fresh or partially recycled) is PENDING. -/
theorem create_step_idle {s s1 : KState} {k : Key} {c : Option Key} {i : StepInit}
    (h : s.create k c (.step i) = .ok s1) : ∀ m ∈ s1.nodes, m.key = k → runs m = false := by
  unfold KState.create at h
  cases hf : s.find? k with
  | some n =>
    simp only [hf] at h
    split at h
    · simp [throw, throwThe, MonadExceptOf.throw] at h
    · split at h
      · simp [throw, throwThe, MonadExceptOf.throw] at h
      · obtain ⟨s3, _, hs'⟩ := recycleCore_step_split s s1 k n c i h
        subst hs'
        exact initStepRow_idle s3 k i
  | none =>
    simp only [hf] at h
    split at h
    · simp only [KState.initRow, pure, Except.pure, Except.ok.injEq] at h
      subst h
      exact initStepRow_idle _ k i
    · simp [throw, throwThe, MonadExceptOf.throw] at h

/-! ## The table of the scheduler as bound -/

/-- `available_resource.units` of a name. -/
def capOf (cfg : KConfig) (name : String) : Option Nat := (cfg.available.find? (·.1 = name)).map (·.2)

/-- Every required name has a row in `available_resource`. -/
def DefinedIn (cfg : KConfig) (_ : Key) (rs : List (String × Nat)) : Prop :=
  ∀ r ∈ rs, (cfg.available.find? (·.1 = r.1)).isSome = true

theorem find_name {l : List (String × Nat)} {name : String} {e : String × Nat}
    (h : l.find? (·.1 = name) = some e) : e.1 = name := by
  simpa using List.find?_some h

theorem within_iff (s : KState) (cfg : KConfig) :
    Within (capOf cfg) (DefinedIn cfg) s ↔ KeysUnique s ∧ ResKeyed s ∧ ResourcesOK s cfg := by
  constructor
  · intro h
    refine ⟨h.keys, h.keyed, fun name avail hf => ?_, fun n hn hk hs => ?_⟩
    · exact h.le name avail (by unfold capOf; rw [hf]; rfl)
    · exact h.dom n hn ((runs_iff n).2 ⟨hk, hs⟩)
  · rintro ⟨h1, h2, h3, h4⟩
    refine ⟨h1, h2, fun name a ha => ?_, fun n hn hr => ?_⟩
    · unfold capOf at ha
      cases hf : cfg.available.find? (·.1 = name) with
      | none => simp [hf] at ha
      | some e =>
        obtain ⟨en, ea⟩ := e
        have hn : en = name := find_name hf
        subst hn
        simp only [hf, Option.map_some, Option.some.injEq] at ha
        subst ha
        exact h3 en ea hf
    · obtain ⟨hk, hs⟩ := (runs_iff n).1 hr
      exact h4 n hn hk hs

/-- The dispatch-time test, spelled out (`Props.C12.resources_fit` in these terms). -/
theorem fits_of_test {s : KState} {cfg : KConfig} {n : Node} (h : s.resourceUnavailable cfg n = false)
    {name : String} {units : Nat} (hr : (name, units) ∈ n.resources) :
    ∃ avail, cfg.available.find? (·.1 = name) = some (name, avail) ∧ used s name + units ≤ avail := by
  unfold KState.resourceUnavailable at h
  rw [List.any_eq_false] at h
  have := h (name, units) hr
  simp only at this
  cases hf : cfg.available.find? (·.1 = name) with
  | none => simp [hf] at this
  | some e =>
    obtain ⟨en, ea⟩ := e
    simp only [hf] at this
    have hn : en = name := find_name hf
    subst hn
    refine ⟨ea, rfl, ?_⟩
    have : ¬ (ea < used s en + units) := by simpa [used, unitsIn] using this
    omega

/-- `Step.set_state(RUNNING)` on a step that passes the resource test of the dispatch (or runs already,
or on a row that is no step). -/
theorem within_setRunning {s s' : KState} {cfg : KConfig} {k : Key} {n : Node} {d : Bool}
    (h : Within (capOf cfg) (DefinedIn cfg) s) (hf : s.find? k = some n)
    (hfit : n.key.kind = .step → n.sstate ≠ .running → s.resourceUnavailable cfg n = false)
    (hw : s.setStepState k .running d = .ok s') : Within (capOf cfg) (DefinedIn cfg) s' := by
  unfold KState.setStepState KState.writeStepState at hw
  simp only [hf, bind, Except.bind] at hw
  cases hrw : stepRowWrite n .running (some d) with
  | error e => simp [hrw] at hw
  | ok n' =>
    simp only [hrw, pure, Except.pure, Except.ok.injEq] at hw
    subst hw
    obtain ⟨c1, c2, c3⟩ := stepRowWrite_cols hrw
    have hmem := (find?_mem s k n hf)
    by_cases hstep : n.key.kind = .step
    · by_cases hrun : n.sstate = .running
      · -- runs already
        refine within_replace s k n n' hf ⟨c1, c2, fun _ => (runs_iff n).2 ⟨hstep, hrun⟩⟩ h
      · have htest := hfit hstep hrun
        have hn'run : runs n' = true := (runs_iff n').2 ⟨c1 ▸ hstep, c3⟩
        have hnrun : runs n = false := by
          cases hh : runs n with
          | false => rfl
          | true => exact absurd ((runs_iff n).1 hh).2 hrun
        have hnodes : (s.modify k fun _ => n').nodes = s.nodes.map fun m => if m.key = k then n' else m := rfl
        refine ⟨?_, ?_, ?_, ?_⟩
        · unfold KeysUnique
          rw [hnodes, List.map_map]
          have : s.nodes.map ((·.key) ∘ fun m => if m.key = k then n' else m) = s.nodes.map (·.key) := by
            refine List.map_congr_left fun m hm => ?_
            simp only [Function.comp]
            by_cases hp : m.key = k
            · rw [if_pos hp, c1, hmem.2, hp]
            · rw [if_neg hp]
          rw [this]; exact h.keys
        · intro m hm
          rw [hnodes] at hm
          obtain ⟨m0, hm0, rfl⟩ := List.mem_map.1 hm
          by_cases hp : m0.key = k
          · rw [if_pos hp, c2]; exact h.keyed n hmem.1
          · rw [if_neg hp]; exact h.keyed m0 hm0
        · intro name a ha
          rw [used_eq_sum, hnodes, List.map_map]
          have hsum := sum_map_le_add (F := load name) (G := (load name) ∘ fun m => if m.key = k then n' else m)
            k (unitsIn name n.resources) s.nodes h.keys
            (fun m hm hp => by simp only [Function.comp]; rw [if_neg hp]; exact Nat.le_refl _)
            (fun m hm hp => by
              simp only [Function.comp]; rw [if_pos hp]
              unfold load; rw [if_pos hn'run, c2]; exact Nat.le_add_left _ _)
          rw [← used_eq_sum] at hsum
          refine Nat.le_trans hsum ?_
          by_cases hin : name ∈ n.resources.map (·.1)
          · obtain ⟨r, hr, hr1⟩ := List.mem_map.1 hin
            obtain ⟨rn, ru⟩ := r
            simp only at hr1; subst hr1
            obtain ⟨avail, hfa, hle⟩ := fits_of_test htest hr
            rw [unitsIn_of_mem (h.keyed n hmem.1) hr]
            unfold capOf at ha
            rw [hfa] at ha
            simp only [Option.map_some, Option.some.injEq] at ha
            omega
          · rw [unitsIn_eq_zero hin]; exact h.le name a ha
        · intro m hm hr
          rw [hnodes] at hm
          obtain ⟨m0, hm0, rfl⟩ := List.mem_map.1 hm
          by_cases hp : m0.key = k
          · rw [if_pos hp] at hr ⊢
            rw [c2]
            intro r hr'
            obtain ⟨avail, hfa, _⟩ := fits_of_test htest (name := r.1) (units := r.2) hr'
            rw [hfa]; rfl
          · rw [if_neg hp] at hr ⊢; exact h.dom m0 hm0 hr
    · refine within_replace s k n n' hf ⟨c1, c2, fun hr => ?_⟩ h
      exact absurd (c1 ▸ ((runs_iff n').1 hr).1) hstep


theorem capOf_find {cfg : KConfig} {name : String} {a : Nat} (h : capOf cfg name = some a) :
    cfg.available.find? (·.1 = name) = some (name, a) := by
  unfold capOf at h
  cases hf : cfg.available.find? (·.1 = name) with
  | none => simp [hf] at h
  | some e =>
    obtain ⟨en, ea⟩ := e
    have hn : en = name := find_name hf
    subst hn
    simp only [hf, Option.map_some, Option.some.injEq] at h
    subst h; rfl

/-- `Step.set_resources` on a step that runs, with a requirement that fits in place of what it holds. -/
theorem within_extras_fits {s : KState} {cfg : KConfig} (sk : Key) (d : StepDecl)
    (hd : (d.resources.map (·.1)).Nodup)
    (hfit : ∀ m ∈ s.nodes, m.key = sk → runs m = true →
      (∀ name a, capOf cfg name = some a → used s name + unitsIn name d.resources ≤ a + unitsIn name m.resources) ∧
      DefinedIn cfg sk d.resources)
    (h : Within (capOf cfg) (DefinedIn cfg) s) : Within (capOf cfg) (DefinedIn cfg) (s.setStepExtras sk d) := by
  have hnodes : (s.setStepExtras sk d).nodes =
      s.nodes.map fun m => if m.key = sk then { m with resources := d.resources, overrides := d.overrides } else m := rfl
  have hrun : ∀ m : Node, runs ({ m with resources := d.resources, overrides := d.overrides } : Node) = runs m := fun _ => rfl
  refine ⟨?_, ?_, ?_, ?_⟩
  · unfold KeysUnique
    rw [hnodes, List.map_map]
    have : s.nodes.map ((·.key) ∘ fun m => if m.key = sk then { m with resources := d.resources, overrides := d.overrides } else m)
        = s.nodes.map (·.key) := by
      refine List.map_congr_left fun m _ => ?_
      simp only [Function.comp]
      split <;> rfl
    rw [this]; exact h.keys
  · intro m hm
    rw [hnodes] at hm
    obtain ⟨m0, hm0, rfl⟩ := List.mem_map.1 hm
    by_cases hp : m0.key = sk
    · rw [if_pos hp]; exact hd
    · rw [if_neg hp]; exact h.keyed m0 hm0
  · intro name a ha
    rw [used_eq_sum, hnodes, List.map_map]
    by_cases hex : ∃ m0 ∈ s.nodes, m0.key = sk ∧ runs m0 = true
    · obtain ⟨m0, hm0, hk0, hr0⟩ := hex
      have hsw := sum_map_swap (F := load name)
        (G := (load name) ∘ fun m => if m.key = sk then { m with resources := d.resources, overrides := d.overrides } else m)
        sk s.nodes h.keys m0 hm0 hk0
        (fun m _ hp => by simp only [Function.comp]; rw [if_neg hp]; exact Nat.le_refl _)
      simp only [Function.comp] at hsw ⊢
      rw [if_pos hk0] at hsw
      have h1 : load name m0 = unitsIn name m0.resources := by unfold load; rw [if_pos hr0]
      have h2 : load name ({ m0 with resources := d.resources, overrides := d.overrides } : Node) = unitsIn name d.resources := by
        unfold load; rw [hrun, if_pos hr0]
      rw [h1, h2, ← used_eq_sum] at hsw
      have := (hfit m0 hm0 hk0 hr0).1 name a ha
      omega
    · refine Nat.le_trans (sum_map_le fun m hm => ?_) (used_eq_sum s name ▸ h.le name a ha)
      simp only [Function.comp]
      by_cases hp : m.key = sk
      · rw [if_pos hp]
        have hnr : runs m = false := by
          cases hh : runs m with
          | false => rfl
          | true => exact absurd ⟨m, hm, hp, hh⟩ hex
        unfold load; rw [hrun, hnr]; exact Nat.le_refl _
      · rw [if_neg hp]; exact Nat.le_refl _
  · intro m hm hr
    rw [hnodes] at hm
    obtain ⟨m0, hm0, rfl⟩ := List.mem_map.1 hm
    by_cases hp : m0.key = sk
    · rw [if_pos hp] at hr ⊢
      rw [hrun] at hr
      exact hp ▸ (hfit m0 hm0 hp hr).2
    · rw [if_neg hp] at hr ⊢; exact h.dom m0 hm0 hr

/-! ## Requests -/

/-- What `pop_next_job` does after `_update_meta`: nothing, or one `Step.set_state` on a step that was
eligible, CHECKING when it has a recorded hash and RUNNING otherwise. -/
theorem popNext_split {s s' : KState} {cfg : KConfig} {choice : Option Key} {d : Dispatch}
    (h : s.popNext cfg choice = .ok (s', d)) :
    ∃ su, s.updateMeta cfg = .ok su ∧
      ((choice = none ∧ s' = su ∧ d = .none) ∨
       (∃ k n run, choice = some k ∧ n ∈ su.nodes ∧ n.key = k ∧ su.eligible cfg n = true ∧
          su.setStepState k (if n.hasHash = true then StepState.checking else StepState.running) = .ok s' ∧
          d = .job k n.hasHash run)) := by
  unfold KState.popNext at h
  simp only [bind, Except.bind] at h
  cases hu : s.updateMeta cfg with
  | error e => simp [hu] at h
  | ok su =>
    simp only [hu] at h
    refine ⟨su, rfl, ?_⟩
    cases choice with
    | none =>
      simp only at h
      split at h
      · simp only [pure, Except.pure, Except.ok.injEq, Prod.mk.injEq] at h
        exact .inl ⟨rfl, h.1.symm, h.2.symm⟩
      · cases h
    | some k =>
      simp only at h
      split at h
      · cases h
      · rename_i n hn
        have hmem := List.mem_of_find?_eq_some hn
        have hkey : n.key = k := by simpa using List.find?_some hn
        rw [List.mem_filter] at hmem
        split at h
        · cases h
        · split at h
          · cases h
          · cases hj : su.deriveJob k with
            | error e => simp [hj] at h
            | ok run =>
              simp only [hj] at h
              cases hs : su.setStepState k (if n.hasHash = true then StepState.checking else StepState.running) with
              | error e => simp [hs] at h
              | ok s2 =>
                simp only [hs, pure, Except.pure, Except.ok.injEq, Prod.mk.injEq] at h
                exact .inr ⟨k, n, run, rfl, hmem.1, hkey, hmem.2, h.1 ▸ hs, h.2.symm⟩

/-- **Requests, generic form.**  A predicate that is stable in the sense of `StableRes` is kept by every
accepted request, given the three kinds of write that `StableRes` leaves out: `Step.set_resources` in
`define_step` (`hr`: full recycle, `hc`: creation), the RUN dispatch of `pop_next_job` (`hrun`), and a
`setState _ RUNNING` request (`hset`). -/
theorem exec_stableRes {P : KState → Prop} (L : StableRes P) (cfg : KConfig) (r : Req) (s : KState) (res : KState × String)
    (hr : ∀ c d sk n s1 s3, r = .define c d → s.defineGuard cfg c (normDecl d) = .ok sk → s.find? sk = some n →
      n.detached = true → s.canRecycle sk (normDecl d) = true → s.reattach sk c = .ok s1 →
      s1.afterRecycle sk (normDecl d) n = .ok s3 → P s3 → P (s3.setStepExtras sk (normDecl d)))
    (hc : ∀ c d sk s1, r = .define c d → s.defineGuard cfg c (normDecl d) = .ok sk →
      s.create sk (some c) (.step { need := d.need, shell := d.shell, safe := d.safe }) = .ok s1 →
      P s1 → P (s1.setStepExtras sk (normDecl d)))
    (hrun : ∀ k su n s', r = .pop (some k) → s.updateMeta cfg = .ok su → P su → n ∈ su.nodes → n.key = k →
      su.eligible cfg n = true → n.hasHash = false → su.setStepState k .running = .ok s' → P s')
    (hset : ∀ k s', r = .setState k .running → s.setStepState k .running = .ok s' → P s')
    (hp : P s) (h : s.exec cfg r = .ok res) : P res.1 := by
  cases r with
  | define c d =>
    simp only [KState.exec] at h
    refine bind_ok_gen h (fun a => P a.1)
      (fun a ha => L.defineStep_preserves cfg c d s a
        (fun sk n s1 s3 e1 e2 e3 e4 e5 e6 => hr c d sk n s1 s3 rfl e1 e2 e3 e4 e5 e6)
        (fun sk s1 e1 e2 => hc c d sk s1 rfl e1 e2) hp ha) (fun r => P r.1) ?_
    intro a b ha hb; obtain ⟨st, chk⟩ := a
    simp only [pure, Except.pure, Except.ok.injEq] at hb; subst hb; exact ha
  | amend k inp env out vol conc =>
    simp only [KState.exec] at h
    refine bind_ok_gen h (fun a => P a.1) (fun a ha => L.amendStep_preserves cfg k inp env out vol conc s a hp ha)
      (fun r => P r.1) ?_
    intro a b ha hb; obtain ⟨st, chk⟩ := a
    simp only [pure, Except.pure, Except.ok.injEq] at hb; subst hb; exact ha
  | static c ps =>
    simp only [KState.exec] at h
    refine bind_ok_gen h (fun a => P a.1) (fun a ha => L.declareStaticFiles_preserves cfg c ps s a hp ha)
      (fun r => P r.1) ?_
    intro a b ha hb; obtain ⟨st, chk⟩ := a
    simp only [pure, Except.pure, Except.ok.injEq] at hb; subst hb; exact ha
  | tree c p =>
    simp only [KState.exec] at h
    refine bind_ok_gen h (fun a => P a.1) (fun a ha => L.registerStaticTree_preserves cfg c p s a hp ha)
      (fun r => P r.1) ?_
    intro a b ha hb; obtain ⟨st, chk⟩ := a
    simp only [pure, Except.pure, Except.ok.injEq] at hb; subst hb; exact ha
  | declStatic c ts fs ps =>
    simp only [KState.exec] at h
    refine bind_ok_gen h (fun a => P a.1) (fun a ha => L.declareStaticRequest_preserves cfg c ts fs ps s a hp ha)
      (fun r => P r.1) ?_
    intro a b ha hb; obtain ⟨st, chk⟩ := a
    simp only [pure, Except.pure, Except.ok.injEq] at hb; subst hb; exact ha
  | nglob k p ms => exact L.registerNglob_preserves k p ms s _ hp (StableRes.unitOut_ok h)
  | hashes u c => exact L.updateFileHashes_preserves u c s _ hp (StableRes.unitOut_ok h)
  | pop c =>
    simp only [KState.exec] at h
    refine bind_ok_gen h (fun a => P a.1) (fun a ha => ?_) (fun r => P r.1) ?_
    · obtain ⟨s', d⟩ := a
      obtain ⟨su, hu, hcase⟩ := popNext_split ha
      have hpu := L.updateMeta_preserves cfg s su hp hu
      rcases hcase with ⟨_, rfl, _⟩ | ⟨k, n, run, rfl, hn, hk, hel, hw, _⟩
      · exact hpu
      · cases hh : n.hasHash with
        | true =>
          rw [hh] at hw
          exact L.setStepState_preserves k .checking false (by decide) su s' hpu hw
        | false =>
          rw [hh] at hw
          exact hrun k su n s' rfl hu hpu hn hk hel hh hw
    · intro a b ha hb; obtain ⟨st, d⟩ := a
      simp only [pure, Except.pure, Except.ok.injEq] at hb; subst hb; exact ha
  | updateMeta => exact L.updateMeta_preserves cfg s _ hp (StableRes.unitOut_ok h)
  | resetRerun k => exact L.resetForRerun_preserves k s _ hp (StableRes.unitOut_ok h)
  | completed k nh wd =>
    simp only [KState.exec] at h
    refine bind_ok_gen h (fun a => P a.1) (fun a ha => L.markCompleted_preserves cfg k nh wd s a.1 a.2 hp ha)
      (fun r => P r.1) ?_
    intro a b ha hb; obtain ⟨st, d⟩ := a
    simp only [pure, Except.pure, Except.ok.injEq] at hb; subst hb; exact ha
  | setState k stt =>
    have hw := StableRes.unitOut_ok h
    by_cases hst : stt = .running
    · subst hst; exact hset k _ rfl hw
    · exact L.setStepState_preserves k stt false hst s _ hp hw
  | deleteHash k =>
    have := StableRes.unitOut_ok h
    simp only [pure, Except.pure, Except.ok.injEq] at this
    rw [← this]; exact L.deleteHash s k hp
  | markPending k => exact L.markStepPending'_preserves k s _ hp (StableRes.unitOut_ok h)
  | hold k => exact L.hold_preserves k s _ hp (StableRes.unitOut_ok h)
  | release k => exact L.release_preserves k s _ hp (StableRes.unitOut_ok h)
  | detach k => exact L.detach_preserves k s _ hp (StableRes.unitOut_ok h)
  | revertOptional => exact L.revertOptional_preserves s _ hp (StableRes.unitOut_ok h)
  | deleteDetached => exact L.deleteDetached_preserves s _ hp (StableRes.unitOut_ok h)
  | clearQueue =>
    have := StableRes.unitOut_ok h
    simp only [pure, Except.pure, Except.ok.injEq] at this
    rw [← this]; exact L.clearQueue s hp
  | resetInterrupted => exact L.resetInterrupted_preserves s _ hp (StableRes.unitOut_ok h)
  | rescanEnv => exact L.rescanEnvVars_preserves cfg s _ hp (StableRes.unitOut_ok h)
  | reconcile => exact L.reconcileTargets_preserves cfg s _ hp (StableRes.unitOut_ok h)
  | checkConsistency => exact L.checkConsistency_preserves s _ hp (StableRes.unitOut_ok h)


/-! ## The side conditions -/

/-- The `resources` argument of `define_step` is a dict: one entry per name (the primary key of
`step_resource`). -/
def DeclKeyed : Req → Prop
  | .define _ d => (d.resources.map (·.1)).Nodup
  | _ => True

/-- A `set_state(RUNNING)` outside the dispatch is made only on a step that passes the resource test of
the dispatch in the state it is made in (or runs already, or on a row that is no step). -/
def SetRunningOK (s : KState) (cfg : KConfig) : Req → Prop
  | .setState k .running =>
    ∀ n, s.find? k = some n → n.key.kind = .step → n.sstate ≠ .running → s.resourceUnavailable cfg n = false
  | _ => True

/-- The executor's protocol: no `set_state(RUNNING)` at all outside `pop_next_job`. -/
def NoForeignRunning : Req → Prop
  | .setState _ .running => False
  | _ => True

theorem NoForeignRunning.ok {r : Req} (h : NoForeignRunning r) (s : KState) (cfg : KConfig) : SetRunningOK s cfg r := by
  cases r with
  | setState k st => cases st <;> first | trivial | exact h.elim
  | _ => trivial

/-- `define_step` fully recycles (`try_recycle` + `set_resources`) a detached step whose command still runs
only with resources that fit: for every name of the table, what the RUNNING steps hold, with the new
requirement of the step in place of what it holds, stays within the available units; and the new
requirement names defined resources only. -/
def RecycleFits (s : KState) (cfg : KConfig) : Req → Prop
  | .define c d =>
    ∀ sk n, s.defineGuard cfg c (normDecl d) = .ok sk → s.find? sk = some n → n.detached = true →
      s.canRecycle sk (normDecl d) = true → n.sstate = .running →
      (∀ name avail, cfg.available.find? (·.1 = name) = some (name, avail) →
        used s name + unitsIn name d.resources ≤ avail + unitsIn name n.resources) ∧
      (∀ r ∈ d.resources, (cfg.available.find? (·.1 = r.1)).isSome = true)
  | _ => True

/-- The simple discipline (DESIGN.md, C12): `define_step` never recycles or re-creates a step whose row is
RUNNING.  (For `ResourcesOK` only the full recycle matters.  The partial recycle of a RUNNING step,
`Trellis.create` on its row, resets the row to PENDING: it keeps `ResourcesOK`, which from then on no longer
counts a command that is still running, finding F9.) -/
def NoRecycleWhileRunning (s : KState) (cfg : KConfig) : Req → Prop
  | .define c d => ∀ sk n, s.defineGuard cfg c (normDecl d) = .ok sk → s.find? sk = some n → n.sstate ≠ .running
  | _ => True

theorem NoRecycleWhileRunning.fits {s : KState} {cfg : KConfig} {r : Req} (h : NoRecycleWhileRunning s cfg r) :
    RecycleFits s cfg r := by
  cases r with
  | define c d => intro sk n hg hf _ _ hs; exact absurd hs (h sk n hg hf)
  | _ => trivial

theorem eligible_fit {s : KState} {cfg : KConfig} {n : Node} (h : s.eligible cfg n = true) :
    n.key.kind = .step ∧ (n.hasHash = true ∨ s.resourceUnavailable cfg n = false) := by
  unfold KState.eligible at h
  simp only [Bool.and_eq_true, Bool.or_eq_true, decide_eq_true_eq, Bool.not_eq_true'] at h
  exact ⟨h.1.1.1.1, h.2⟩

/-- The running rows of `s'` are running rows of `s` with the same key and resources. -/
def TraceOf (s : KState) (k : Key) (rs : List (String × Nat)) : Prop :=
  ∃ n ∈ s.nodes, n.key = k ∧ runs n = true ∧ n.resources = rs

theorem within_trace {s : KState} (hk : KeysUnique s) (hr : ResKeyed s) : Within (fun _ => none) (TraceOf s) s :=
  ⟨hk, hr, fun _ _ h => (by cases h), fun n hn hrun => ⟨n, hn, rfl, hrun, rfl⟩⟩

/-- **One request.**  For a fixed resource table, under the three side conditions, an accepted request
keeps `ResourcesOK` (together with the two structural facts it rests on: one row per key, one resource
row per name and step). -/
theorem exec_resourcesOK (cfg : KConfig) (r : Req) (s : KState) (res : KState × String)
    (hset : SetRunningOK s cfg r) (hrec : RecycleFits s cfg r) (hdict : DeclKeyed r)
    (hinv : KeysUnique s ∧ ResKeyed s ∧ ResourcesOK s cfg) (h : s.exec cfg r = .ok res) :
    KeysUnique res.1 ∧ ResKeyed res.1 ∧ ResourcesOK res.1 cfg := by
  rw [← within_iff] at hinv ⊢
  refine exec_stableRes (stableRes_within _ _) cfg r s res ?_ ?_ ?_ ?_ hinv h
  · intro c d sk n s1 s3 hr e1 e2 e3 e4 e5 e6 hp3
    subst hr
    refine within_extras_fits sk (normDecl d) hdict (fun m hm hmk hrun => ?_) hp3
    have h0 : Within (fun name => some (used s name)) (TraceOf s) s :=
      ⟨hinv.keys, hinv.keyed, fun name a ha => (by cases ha; exact Nat.le_refl _), fun n hn hrun => ⟨n, hn, rfl, hrun, rfl⟩⟩
    have ht : Within (fun name => some (used s name)) (TraceOf s) s3 :=
      (stableRes_within _ _).afterRecycle_preserves sk (normDecl d) n s1 s3
        ((stableRes_within _ _).reattach_preserves sk c s s1 h0 e5) e6
    obtain ⟨n0, hn0, hk0, hr0, hres⟩ := ht.dom m hm hrun
    have : n0 = n := eq_of_find hinv.keys e2 hn0 (hk0.trans hmk)
    subst this
    obtain ⟨f1, f2⟩ := hrec sk n0 e1 e2 e3 e4 ((runs_iff n0).1 hr0).2
    refine ⟨fun name a ha => ?_, f2⟩
    have := f1 name a (capOf_find ha)
    have := ht.le name _ rfl
    rw [← hres]
    show used s3 name + unitsIn name d.resources ≤ a + unitsIn name n0.resources
    omega
  · intro c d sk s1 hr e1 e2 hp1
    subst hr
    refine within_extras s1 sk (normDecl d) hdict (fun m hm hmk hrun => ?_) hp1
    rw [create_step_idle e2 m hm hmk] at hrun
    cases hrun
  · intro k su n s' hr hu hpu hn hk hel hh hw
    obtain ⟨hstep, hfit⟩ := eligible_fit hel
    refine within_setRunning hpu (k := k) (n := n) ?_ (fun _ _ => ?_) hw
    · rw [← hk]; exact MetaSafe.find?_of_mem hpu.keys hn
    · rcases hfit with h1 | h1
      · rw [hh] at h1; cases h1
      · exact h1
  · intro k s' hr hw
    subst hr
    cases hf : s.find? k with
    | none =>
      unfold KState.setStepState KState.writeStepState at hw
      simp only [hf, pure, Except.pure, Except.ok.injEq] at hw
      subst hw; exact hinv
    | some n => exact within_setRunning hinv hf (hset n hf) hw

/-- **`SetRunningOK` is the weakest condition on a `setState _ RUNNING` request**: if the invariant holds
before an accepted `setState k RUNNING` and `ResourcesOK` holds after it, the step passed the resource
test of the dispatch (or ran already, or `k` is no step). -/
theorem setRunning_sharp (cfg : KConfig) (k : Key) (s : KState) (res : KState × String)
    (hinv : KeysUnique s ∧ ResKeyed s ∧ ResourcesOK s cfg) (h : s.exec cfg (.setState k .running) = .ok res)
    (hok : ResourcesOK res.1 cfg) : SetRunningOK s cfg (.setState k .running) := by
  intro n hf hstep hnrun
  have hw := StableRes.unitOut_ok h
  unfold KState.setStepState KState.writeStepState at hw
  simp only [hf, bind, Except.bind] at hw
  cases hrw : stepRowWrite n .running (some false) with
  | error e => simp [hrw] at hw
  | ok n' =>
    simp only [hrw, pure, Except.pure, Except.ok.injEq] at hw
    obtain ⟨c1, c2, c3⟩ := stepRowWrite_cols hrw
    have hmem := find?_mem s k n hf
    have hnodes : res.1.nodes = s.nodes.map fun m => if m.key = k then n' else m := by rw [← hw]; rfl
    have hn' : n' ∈ res.1.nodes := by
      rw [hnodes]
      exact List.mem_map.2 ⟨n, hmem.1, by rw [if_pos hmem.2]⟩
    have hn'run : runs n' = true := (runs_iff n').2 ⟨c1 ▸ hstep, c3⟩
    have hnrun' : runs n = false := by
      cases hh : runs n with
      | false => rfl
      | true => exact absurd ((runs_iff n).1 hh).2 hnrun
    cases htest : s.resourceUnavailable cfg n with
    | false => rfl
    | true =>
      exfalso
      unfold KState.resourceUnavailable at htest
      rw [List.any_eq_true] at htest
      obtain ⟨⟨name, units⟩, hr, hbad⟩ := htest
      simp only at hbad
      cases hfa : cfg.available.find? (·.1 = name) with
      | none =>
        have := hok.2 n' hn' (c1 ▸ hstep) c3 (name, units) (c2 ▸ hr)
        simp only [hfa] at this
        cases this
      | some e =>
        obtain ⟨en, ea⟩ := e
        have hen : en = name := find_name hfa
        subst hen
        simp only [hfa] at hbad
        have hlt : ea < used s en + units := by simpa [used, unitsIn] using hbad
        have hle := hok.1 en ea hfa
        have hge : used s en + units ≤ used res.1 en := by
          rw [used_eq_sum, used_eq_sum, hnodes, List.map_map]
          refine sum_map_ge_add (F := load en) (G := (load en) ∘ fun m => if m.key = k then n' else m) units s.nodes n hmem.1
            (fun m hm => ?_) ?_
          · simp only [Function.comp]
            by_cases hp : m.key = k
            · have : m = n := eq_of_find hinv.1 hf hm hp
              subst this
              rw [if_pos hp]
              unfold load; rw [hnrun']; exact Nat.zero_le _
            · rw [if_neg hp]; exact Nat.le_refl _
          · simp only [Function.comp]
            rw [if_pos hmem.2]
            unfold load
            rw [hnrun', hn'run, c2, unitsIn_of_mem (hinv.2.1 n hmem.1) hr]
            simp
        omega

/-- One transaction, accepted or rolled back. -/
theorem step_resourcesOK (cfg : KConfig) (r : Req) (s : KState)
    (hset : SetRunningOK s cfg r) (hrec : RecycleFits s cfg r) (hdict : DeclKeyed r)
    (hinv : KeysUnique s ∧ ResKeyed s ∧ ResourcesOK s cfg) :
    KeysUnique (s.step cfg r) ∧ ResKeyed (s.step cfg r) ∧ ResourcesOK (s.step cfg r) cfg := by
  unfold KState.step
  cases h : s.exec cfg r with
  | error e => exact hinv
  | ok res => obtain ⟨s', out⟩ := res; exact exec_resourcesOK cfg r s (s', out) hset hrec hdict hinv h

theorem resourcesOK_congr {s : KState} {cfg cfg' : KConfig} (h : cfg.available = cfg'.available) :
    ResourcesOK s cfg ↔ ResourcesOK s cfg' := by
  unfold ResourcesOK; rw [h]

/-- A history that keeps the resource table `avail` and meets the three side conditions at every request,
each on the state it is issued in. -/
def Guarded (avail : List (String × Nat)) : KState → List (KConfig × Req) → Prop
  | _, [] => True
  | s, cr :: rest =>
    (cr.1.available = avail ∧ SetRunningOK s cr.1 cr.2 ∧ RecycleFits s cr.1 cr.2 ∧ DeclKeyed cr.2) ∧
      Guarded avail (s.step cr.1 cr.2) rest

/-- **Histories.** -/
theorem run_resourcesOK (cfg : KConfig) (h : List (KConfig × Req)) (s : KState)
    (hg : Guarded cfg.available s h) (hinv : KeysUnique s ∧ ResKeyed s ∧ ResourcesOK s cfg) :
    KeysUnique (s.run h) ∧ ResKeyed (s.run h) ∧ ResourcesOK (s.run h) cfg := by
  unfold KState.run
  induction h generalizing s with
  | nil => exact hinv
  | cons x xs ih =>
    simp only [List.foldl_cons]
    obtain ⟨⟨ha, h1, h2, h3⟩, hrest⟩ := hg
    refine ih _ hrest ?_
    have hinv' : KeysUnique s ∧ ResKeyed s ∧ ResourcesOK s x.1 := ⟨hinv.1, hinv.2.1, (resourcesOK_congr ha).2 hinv.2.2⟩
    obtain ⟨a, b, c⟩ := step_resourcesOK x.1 x.2 s h1 h2 h3 hinv'
    exact ⟨a, b, (resourcesOK_congr ha).1 c⟩

theorem init_resourcesOK (cfg : KConfig) : KeysUnique KState.init ∧ ResKeyed KState.init ∧ ResourcesOK KState.init cfg := by
  refine ⟨by simp [KeysUnique, KState.init], ?_, ?_, ?_⟩
  · intro n hn
    simp only [KState.init, List.mem_singleton] at hn
    subst hn; exact List.nodup_nil
  · intro name avail _
    show used KState.init name ≤ avail
    have : used KState.init name = 0 := by
      unfold used KState.init rootKey; rfl
    omega
  · intro n hn hk
    simp only [KState.init, List.mem_singleton] at hn
    subst hn
    cases hk

/-- **Reachable states.**  After every history from the empty workflow that keeps the resource table,
makes no `set_state(RUNNING)` outside the dispatch protocol (or only on steps that pass the dispatch
test), does not fully recycle a RUNNING step with other resources, and passes dicts as `resources`: the
RUNNING steps never hold together more units of any named resource than the table makes available, and no
RUNNING step requires an undefined resource. -/
theorem reachable_resourcesOK (cfg : KConfig) (h : List (KConfig × Req)) (hg : Guarded cfg.available KState.init h) :
    ResourcesOK (KState.init.run h) cfg :=
  (run_resourcesOK cfg h KState.init hg (init_resourcesOK cfg)).2.2


/-! ## The frame, stated on its own -/

/-- The requests that neither dispatch, nor set a state RUNNING, nor define a step. -/
def Quiet : Req → Prop
  | .define _ _ => False
  | .pop _ => False
  | .setState _ .running => False
  | _ => True

/-- **Frame.**  A request other than `define`, `pop` and `setState _ RUNNING` does not make the RUNNING
steps hold more of any name, and every row that runs after it ran before it, under the same key and
with the same resources. -/
theorem exec_quiet_frame (cfg : KConfig) (r : Req) (s : KState) (res : KState × String) (hq : Quiet r)
    (hk : KeysUnique s) (hr : ResKeyed s) (h : s.exec cfg r = .ok res) :
    (∀ name, used res.1 name ≤ used s name) ∧
    (∀ n' ∈ res.1.nodes, runs n' = true → ∃ n ∈ s.nodes, n.key = n'.key ∧ runs n = true ∧ n.resources = n'.resources) := by
  have h0 : Within (fun name => some (used s name)) (TraceOf s) s :=
    ⟨hk, hr, fun name a ha => (by cases ha; exact Nat.le_refl _), fun n hn hrun => ⟨n, hn, rfl, hrun, rfl⟩⟩
  have h1 : Within (fun name => some (used s name)) (TraceOf s) res.1 := by
    refine exec_stableRes (stableRes_within _ _) cfg r s res ?_ ?_ ?_ ?_ h0 h
    · intro c d _ _ _ _ e; subst e; exact hq.elim
    · intro c d _ _ e; subst e; exact hq.elim
    · intro k _ _ _ e; subst e; exact hq.elim
    · intro k _ e; subst e; exact hq.elim
  exact ⟨fun name => h1.le name _ rfl, h1.dom⟩

/-! ## A decision procedure, for the witnesses -/

/-- `ResourcesOK`, executable. -/
def resourcesOKB (s : KState) (cfg : KConfig) : Bool :=
  (cfg.available.all fun e => !decide (cfg.available.find? (·.1 = e.1) = some e) || decide (used s e.1 ≤ e.2)) &&
  s.nodes.all fun n => !runs n || n.resources.all fun r => (cfg.available.find? (·.1 = r.1)).isSome

theorem resourcesOKB_iff (s : KState) (cfg : KConfig) : resourcesOKB s cfg = true ↔ ResourcesOK s cfg := by
  unfold resourcesOKB ResourcesOK
  simp only [Bool.and_eq_true, List.all_eq_true, Bool.or_eq_true, Bool.not_eq_true', decide_eq_false_iff_not,
    decide_eq_true_eq]
  constructor
  · rintro ⟨h1, h2⟩
    refine ⟨fun name avail hf => ?_, fun n hn hk hs r hr => ?_⟩
    · have hmem := List.mem_of_find?_eq_some hf
      rcases h1 (name, avail) hmem with h | h
      · exact absurd hf h
      · exact h
    · rcases h2 n hn with h | h
      · have := (runs_iff n).2 ⟨hk, hs⟩
        rw [h] at this; cases this
      · exact h r hr
  · rintro ⟨h1, h2⟩
    refine ⟨fun e he => ?_, fun n hn => ?_⟩
    · by_cases hf : cfg.available.find? (·.1 = e.1) = some e
      · exact .inr (h1 e.1 e.2 hf)
      · exact .inl hf
    · cases hr : runs n with
      | false => exact .inl rfl
      | true =>
        obtain ⟨hk, hs⟩ := (runs_iff n).1 hr
        exact .inr (h2 n hn hk hs)

theorem not_resourcesOK {s : KState} {cfg : KConfig} (h : resourcesOKB s cfg = false) : ¬ ResourcesOK s cfg := by
  intro hh
  rw [(resourcesOKB_iff s cfg).2 hh] at h
  cases h

/-- The verdict on the state after a request (`none`: the request is rejected). -/
def verdictAfter (r : M (KState × String)) (cfg : KConfig) : Option Bool :=
  match r with | .ok res => some (resourcesOKB res.1 cfg) | .error _ => none

theorem verdictAfter_false {r : M (KState × String)} {cfg : KConfig} (h : verdictAfter r cfg = some false) :
    ∃ res, r = .ok res ∧ ¬ ResourcesOK res.1 cfg := by
  cases r with
  | error e => cases h
  | ok res => exact ⟨res, rfl, not_resourcesOK (Option.some.inj h)⟩

theorem verdictAfter_true {r : M (KState × String)} {cfg : KConfig} (h : verdictAfter r cfg = some true) :
    ∃ res, r = .ok res ∧ ResourcesOK res.1 cfg := by
  cases r with
  | error e => cases h
  | ok res => exact ⟨res, rfl, (resourcesOKB_iff _ _).1 (Option.some.inj h)⟩


/-! ## The side conditions are needed

Witness states are given explicitly (string functions such as `String.splitOn` in `stepLabel` do not reduce in
the kernel, so a history containing `define` cannot be evaluated by `decide`); each is the state the
history of the corresponding replay file reaches (`/verif/work/proofRes/counterexample_<n>.txt`, checked
with `harness/kreplay.py`: model and implementation agree on every request and on the final dump). -/

namespace Witness

def cfgA : KConfig := { available := [("a", 3)] }
def plan : Key := stepKey "./plan.py"
def sub : Key := stepKey "./sub.py"
def hog : Key := stepKey "hog"
def wait : Key := stepKey "wait"

/-- `counterexample_1.txt` before its last request: `a:3` available; `hog` (a:1) and `wait` (a:2) run; the
sub-plan that created `hog` has failed, so `hog` is detached and still RUNNING. -/
def f7State : KState :=
  { nodes := [
      { key := rootKey, creator := some rootKey },
      { key := plan, creator := some rootKey, sstate := .running, need := .plan, safe := true, safeNH := true,
        impliedNeed := .plan, ready := true, checkReady := false },
      { key := sub, creator := some plan, sstate := .failed, need := .plan, safe := true, checkSafe := true,
        safeNH := true, impliedNeed := .plan, ready := true, checkReady := false },
      { key := hog, creator := none, detached := true, sstate := .running, safe := true, checkSafe := true,
        safeNH := true, checkAfter := true, ready := true, checkReady := false, resources := [("a", 1)] },
      { key := fileKey "o1", creator := some hog, detached := true, fstate := .planned },
      { key := wait, creator := some plan, sstate := .running, safe := true, checkSafe := true, safeNH := true,
        ready := true, checkReady := false, resources := [("a", 2)] },
      { key := fileKey "o2", creator := some wait, fstate := .planned }],
    deps := [{ src := hog, snk := fileKey "o1" }, { src := wait, snk := fileKey "o2" }] }

def hogRow : Node :=
  { key := hog, creator := none, detached := true, sstate := .running, safe := true, checkSafe := true,
    safeNH := true, checkAfter := true, ready := true, checkReady := false, resources := [("a", 1)] }

/-- The plan defines `hog` again, same lists, with `a:2`. -/
def hogDecl : StepDecl := { cmd := "hog", out := ["o1"], resources := [("a", 2)] }

theorem f7_inv : KeysUnique f7State ∧ ResKeyed f7State ∧ ResourcesOK f7State cfgA :=
  ⟨by unfold KeysUnique; decide, by unfold ResKeyed; decide, (resourcesOKB_iff _ _).1 (by decide)⟩

def verdictAfterM (r : M KState) (cfg : KConfig) : Option Bool :=
  match r with | .ok s' => some (resourcesOKB s' cfg) | .error _ => none

set_option maxRecDepth 20000 in
theorem f7_recycle : verdictAfterM (f7State.recycleStep hog plan hogDecl hogRow) cfgA = some false := by decide

/-- **F7 on the model, at the level of the operation.**  `try_recycle` + `after_recycle` + `set_resources`
on the detached RUNNING step `hog` (a:1 -> a:2) next to `wait` (a:2): the result violates `ResourcesOK`
for `a:3` (the RUNNING steps hold 4 of 3). -/
theorem recycle_running_breaks :
    (KeysUnique f7State ∧ ResKeyed f7State ∧ ResourcesOK f7State cfgA) ∧
    f7State.find? hog = some hogRow ∧ hogRow.detached = true ∧ hogRow.sstate = .running ∧
    ∃ s', f7State.recycleStep hog plan hogDecl hogRow = .ok s' ∧ ¬ ResourcesOK s' cfgA := by
  refine ⟨f7_inv, rfl, rfl, rfl, ?_⟩
  have h := f7_recycle
  cases hr : f7State.recycleStep hog plan hogDecl hogRow with
  | error e => rw [hr] at h; cases h
  | ok s' => rw [hr] at h; exact ⟨s', rfl, not_resourcesOK (Option.some.inj h)⟩

theorem np_nil : normPaths ([] : List String) = [] := by simp [normPaths, sortStrs, dedupSorted]
theorem np_one (a : String) : normPaths [a] = [a] := by simp [normPaths, sortStrs, dedupSorted]
theorem nd_hog : normDecl hogDecl = hogDecl := by simp [normDecl, hogDecl, np_nil, np_one]

theorem f7_guard (hl : stepLabel "hog" "." = some "hog") : f7State.defineGuard cfgA plan hogDecl = .ok hog := by
  unfold KState.defineGuard
  simp [hogDecl, hl, plan, rootKey, stepKey, KConfig.forbiddenTarget, KState.raiseIfGlobMatch, KState.attachedGlobs, f7State,
    bind, Except.bind, pure, Except.pure, hog]

theorem f7_can : f7State.canRecycle hog hogDecl = true := by
  simp [KState.canRecycle, KState.initialPaths, f7State, KState.find?, KState.isDetached, sortStrs, hog, hogDecl,
    stepKey, fileKey, plan, sub, wait, rootKey, FileState.role?]

end Witness

/-- `define_step` in its full-recycle branch is `try_recycle` + `after_recycle` + `set_resources`. -/
theorem defineStep_recycle {s : KState} {cfg : KConfig} {c : Key} {d : StepDecl} {sk : Key} {n : Node}
    (hg : s.defineGuard cfg c (normDecl d) = .ok sk) (hf : s.find? sk = some n) (hd : n.detached = true)
    (hc : s.canRecycle sk (normDecl d) = true) :
    s.defineStep cfg c d = (s.recycleStep sk c (normDecl d) n >>= fun s1 => pure (s1, s1.unconfirmedTreeInputs sk)) := by
  unfold normDecl at hg hc ⊢
  unfold KState.defineStep
  simp only [bind, Except.bind, hg, hf, hd, hc, and_self, if_true]

open Witness in
/-- **`RecycleFits` (a fortiori `NoRecycleWhileRunning`) is needed (finding F7), at the level of requests.**  On `f7State` every other
side condition holds and the invariant holds; the request `define ./plan.py hog (a:2)` is accepted and
the RUNNING steps then hold 4 units of `a` of 3.  (`hl`: the one string computation of `define_step` that
the kernel cannot evaluate, `Step.adjust_label("hog", ".") = "hog"`; `#eval` and the replay confirm it.) -/
theorem recycle_running_negation (hl : stepLabel "hog" "." = some "hog") :
    (KeysUnique f7State ∧ ResKeyed f7State ∧ ResourcesOK f7State cfgA) ∧
    SetRunningOK f7State cfgA (.define plan hogDecl) ∧ DeclKeyed (.define plan hogDecl) ∧
    ¬ RecycleFits f7State cfgA (.define plan hogDecl) ∧
    ∃ res, f7State.exec cfgA (.define plan hogDecl) = .ok res ∧ ¬ ResourcesOK res.1 cfgA := by
  have hg : f7State.defineGuard cfgA plan (normDecl hogDecl) = .ok hog := by rw [nd_hog]; exact f7_guard hl
  have hc : f7State.canRecycle hog (normDecl hogDecl) = true := by rw [nd_hog]; exact f7_can
  refine ⟨f7_inv, trivial, by unfold DeclKeyed hogDecl; decide, ?_, ?_⟩
  · intro h
    have := (h hog hogRow hg rfl rfl hc rfl).1 "a" 3 rfl
    revert this; decide
  · obtain ⟨_, _, _, _, s', hs', hbad⟩ := recycle_running_breaks
    refine ⟨(s', StepupModel.Proto.hexList (s'.unconfirmedTreeInputs hog)), ?_, hbad⟩
    simp only [KState.exec]
    rw [defineStep_recycle hg (n := hogRow) rfl rfl hc, nd_hog, hs']
    rfl

namespace Witness

def stA : Key := stepKey "A"
def stB : Key := stepKey "B"
def stC : Key := stepKey "C"

/-- `counterexample_2.txt` before its two `set_state` requests: `a:3` available, `b` undefined; `A` (a:2)
runs; `B` (a:2) and `C` (b:1) are ready and PENDING, and `pop_next_job` hands out neither. -/
def s2State : KState :=
  { nodes := [
      { key := rootKey, creator := some rootKey },
      { key := plan, creator := some rootKey, sstate := .running, need := .plan, safe := true, safeNH := true,
        impliedNeed := .plan, ready := true, checkReady := false },
      { key := stA, creator := some plan, sstate := .running, safe := true, safeNH := true, ready := true,
        checkReady := false, resources := [("a", 2)] },
      { key := fileKey "oa", creator := some stA, fstate := .planned },
      { key := stB, creator := some plan, safe := true, safeNH := true, ready := true, checkReady := false,
        resources := [("a", 2)] },
      { key := fileKey "ob", creator := some stB, fstate := .planned },
      { key := stC, creator := some plan, safe := true, safeNH := true, ready := true, checkReady := false,
        resources := [("b", 1)] },
      { key := fileKey "oc", creator := some stC, fstate := .planned }],
    deps := [{ src := stA, snk := fileKey "oa" }, { src := stB, snk := fileKey "ob" }, { src := stC, snk := fileKey "oc" }] }

def rowB : Node :=
  { key := stB, creator := some plan, safe := true, safeNH := true, ready := true, checkReady := false,
    resources := [("a", 2)] }
def rowC : Node :=
  { key := stC, creator := some plan, safe := true, safeNH := true, ready := true, checkReady := false,
    resources := [("b", 1)] }

theorem s2_inv : KeysUnique s2State ∧ ResKeyed s2State ∧ ResourcesOK s2State cfgA :=
  ⟨by unfold KeysUnique; decide, by unfold ResKeyed; decide, (resourcesOKB_iff _ _).1 (by decide)⟩

/-- The dispatch refuses both steps: with `A` running nothing is eligible. -/
theorem s2_dispatch_refuses :
    (match s2State.popNext cfgA none with | .ok (_, .none) => true | _ => false) = true := by decide

end Witness

open Witness in
/-- **No `set_state(RUNNING)` outside the dispatch is needed.**  On `s2State` (invariant and the other side
conditions hold, and `pop_next_job` hands out nothing) the request `setState B RUNNING` is accepted,
`Step.set_state` does not re-test the resources, and the RUNNING steps then hold 4 units of `a` of 3. -/
theorem setState_running_negation :
    (KeysUnique s2State ∧ ResKeyed s2State ∧ ResourcesOK s2State cfgA) ∧
    RecycleFits s2State cfgA (.setState stB .running) ∧ DeclKeyed (.setState stB .running) ∧
    ¬ SetRunningOK s2State cfgA (.setState stB .running) ∧
    ∃ res, s2State.exec cfgA (.setState stB .running) = .ok res ∧ ¬ ResourcesOK res.1 cfgA := by
  refine ⟨s2_inv, trivial, trivial, ?_, verdictAfter_false (by decide)⟩
  intro h
  have := h rowB rfl rfl (by decide)
  revert this; decide

open Witness in
/-- The same for the second conjunct: `setState C RUNNING` leaves a RUNNING step that requires the undefined
resource `b`. -/
theorem setState_running_undefined_negation :
    ¬ SetRunningOK s2State cfgA (.setState stC .running) ∧
    ∃ res, s2State.exec cfgA (.setState stC .running) = .ok res ∧
      ∃ n ∈ res.1.nodes, n.key.kind = .step ∧ n.sstate = .running ∧ ∃ r ∈ n.resources, cfgA.available.find? (·.1 = r.1) = none := by
  refine ⟨?_, ?_⟩
  · intro h
    have := h rowC rfl rfl (by decide)
    revert this; decide
  · have hb : (match s2State.exec cfgA (.setState stC .running) with
        | .ok res => res.1.nodes.any fun n => decide (n.key.kind = .step) && decide (n.sstate = .running) &&
            n.resources.any fun r => (cfgA.available.find? (·.1 = r.1)).isNone
        | .error _ => false) = true := by decide
    cases hr : s2State.exec cfgA (.setState stC .running) with
    | error e => rw [hr] at hb; cases hb
    | ok res =>
      rw [hr] at hb
      simp only [List.any_eq_true, Bool.and_eq_true, decide_eq_true_eq, Option.isNone_iff_eq_none] at hb
      obtain ⟨n, hn, ⟨hk, hs⟩, r, hr', hnone⟩ := hb
      exact ⟨res, rfl, n, hn, hk, hs, r, hr', hnone⟩

namespace Witness
def cfgBig : KConfig := { available := [("a", 4)] }
end Witness

open Witness in
/-- **The resource table must not change.**  `ResourcesOK _ cfgA` (a:3) is not kept by a dispatch made under
another table (a:4): all side conditions on the request hold, `B` is handed out, 4 of 3. -/
theorem table_change_negation :
    (KeysUnique s2State ∧ ResKeyed s2State ∧ ResourcesOK s2State cfgA ∧ ResourcesOK s2State cfgBig) ∧
    cfgBig.available ≠ cfgA.available ∧
    ∃ res, s2State.exec cfgBig (.pop (some stB)) = .ok res ∧ ¬ ResourcesOK res.1 cfgA ∧ ResourcesOK res.1 cfgBig := by
  refine ⟨⟨s2_inv.1, s2_inv.2.1, s2_inv.2.2, (resourcesOKB_iff _ _).1 (by decide)⟩, by decide, ?_⟩
  have h1 : verdictAfter (s2State.exec cfgBig (.pop (some stB))) cfgA = some false := by decide
  have h2 : verdictAfter (s2State.exec cfgBig (.pop (some stB))) cfgBig = some true := by decide
  obtain ⟨res, hr, hbad⟩ := verdictAfter_false h1
  obtain ⟨res', hr', hgood⟩ := verdictAfter_true h2
  rw [hr] at hr'
  cases hr'
  exact ⟨res, hr, hbad, hgood⟩

namespace Witness

/-- After `define root ./plan.py`, `pop`, `define ./plan.py A` with `resources = [(a,2),(a,2)]`: a list
that is no dict (the protocol and the implementation cannot express it: `step_resource` has the primary
key `(node, name)`). -/
def dupState : KState :=
  { nodes := [
      { key := rootKey, creator := some rootKey },
      { key := plan, creator := some rootKey, sstate := .running, need := .plan, safe := true, checkSafe := true,
        safeNH := true, impliedNeed := .plan, ready := true, checkReady := false },
      { key := stA, creator := some plan, checkSafe := true, checkAfter := true,
        resources := [("a", 2), ("a", 2)] },
      { key := fileKey "oa", creator := some stA, fstate := .planned }],
    deps := [{ src := stA, snk := fileKey "oa" }] }

end Witness

open Witness in
/-- **`ResKeyed` / `DeclKeyed` is needed in the model** (not a finding: an artefact of `List` for a dict).
`RESOURCE_UNAVAILABLE` tests every row `(name, units)` of the step against the units in use, one at a time;
with two rows for one name each passes (0 + 2 <= 3) and the step is dispatched holding 4 of 3. -/
theorem duplicate_names_negation :
    KeysUnique dupState ∧ ¬ ResKeyed dupState ∧ ResourcesOK dupState cfgA ∧
    ∃ res, dupState.exec cfgA (.pop (some stA)) = .ok res ∧ ¬ ResourcesOK res.1 cfgA := by
  refine ⟨by unfold KeysUnique; decide, by unfold ResKeyed; decide, (resourcesOKB_iff _ _).1 (by decide),
    verdictAfter_false (by decide)⟩

/-! ## Hold -/

theorem ancOrSelf_struct {s s' : KState} (h : SameStruct s s') {a c : Node} (ha : AncOrSelf s' a c) :
    ∀ {c0 : Node}, structView c = structView c0 → ∃ a0, AncOrSelf s a0 c0 ∧ structView a = structView a0 := by
  induction ha with
  | refl => intro c0 e; exact ⟨c0, .refl c0, e⟩
  | up hc _ ih =>
    intro n0 e
    obtain ⟨c0, hc0, e2⟩ := stepCreator_view_some structView (fun _ _ x => x) h e hc
    obtain ⟨a0, ha0, e3⟩ := ih e2
    exact ⟨a0, .up hc0 ha0, e3⟩

theorem strictAnc_struct {s s' : KState} (h : SameStruct s s') {a n n0 : Node} (e : structView n = structView n0)
    (ha : StrictAnc s' a n) : ∃ a0, StrictAnc s a0 n0 ∧ structView a = structView a0 := by
  obtain ⟨c, hc, hac⟩ := ha
  obtain ⟨c0, hc0, e2⟩ := stepCreator_view_some structView (fun _ _ x => x) h e hc
  obtain ⟨a0, ha0, e3⟩ := ancOrSelf_struct h hac e2
  exact ⟨a0, ⟨c0, hc0, ha0⟩, e3⟩

/-- A creator step that lets its products start: RUNNING or SUCCEEDED, and not inside a hold block. -/
def Lets (a : Node) : Prop := (a.sstate = .running ∨ a.sstate = .succeeded) ∧ a.holding = 0

theorem active_iff (st : StepState) : st.active = true ↔ st = .running ∨ st = .succeeded := by
  unfold StepState.active; simp

/-- **C12, hold.**  What `pop_next_job` guarantees for the job it hands out, read on the database before the
call (one row per key, acyclic step-creator links, flag discipline of `_update_meta_safe`):

* a job that sets its step RUNNING (`checking = false`: the step has no recorded hash and its command is
  started) is handed out only if **every recursive step creator is RUNNING or SUCCEEDED and holds
  nothing**: no RUN job for a step below a holding creator, in particular not before the outermost
  `hold` of the declaring step is released;
* a job for a step below a creator with `holding > 0` is a hash CHECK (`checking = true`): the step has a
  recorded hash, its row becomes CHECKING (it holds no resources and runs no command), and every
  recursive step creator is RUNNING or SUCCEEDED. -/
theorem popNext_hold {s s' : KState} {cfg : KConfig} {k : Key} {chk run : Bool}
    (hk : KeysUnique s) (hwf : StepCreatorWF s) (hc : CacheInvSafeW s)
    (h : s.popNext cfg (some k) = .ok (s', .job k chk run)) :
    ∀ n ∈ s.nodes, n.key = k →
      (chk = false → ∀ a, StrictAnc s a n → Lets a) ∧
      (chk = true → (∀ a, StrictAnc s a n → a.sstate = .running ∨ a.sstate = .succeeded) ∧
        ∀ n' ∈ s'.nodes, n'.key = k → n'.sstate = .checking) := by
  intro n0 hn0 hk0
  obtain ⟨su, hu, hcase⟩ := popNext_split h
  rcases hcase with ⟨hcn, _, _⟩ | ⟨k', n, run', hk', hn, hkey, hel, hw, hd⟩
  · cases hcn
  · cases hk'
    simp only [Dispatch.job.injEq] at hd
    obtain ⟨_, hchk, _⟩ := hd
    obtain ⟨hcons, hwf', hku, _⟩ := updateMeta_safe_correct hk hwf hc hu
    obtain ⟨s1, s2, h1, h2, rfl⟩ := updateMeta_stages hu
    have hstruct : SameStruct s s2.updateMetaReady :=
      (updateMetaSafe_frame h1).struct.trans
        ((AfterFrame.sameSafe (MetaAfter.updateMetaAfter_frame s1 s2 cfg h2)).trans (sameSafe_updateMetaReady s2)).struct
    -- the row of `k` before the call and the row the decision is taken on
    obtain ⟨b, hb, eb⟩ := mem_of_map_eq structView hstruct hn
    have hbk : b.key = k := (structView_key eb).symm.trans hkey
    have : b = n0 := eq_of_find hk (MetaSafe.find?_of_mem hk hn0) hb (hbk.trans hk0.symm)
    subst this
    have hcre := eligible_creators hwf' hcons hn hel
    refine ⟨fun hf a ha => ?_, fun ht => ⟨fun a ha => ?_, fun n' hn' hk' => ?_⟩⟩
    · obtain ⟨a', ha', ea⟩ := strictAnc_struct hstruct.symm eb.symm ha
      rcases hcre with h3 | ⟨hh, _⟩
      · obtain ⟨x, y⟩ := h3 a' ha'
        unfold Lets
        rw [structView_sstate ea, structView_holding ea]
        exact ⟨(active_iff _).1 x, y⟩
      · rw [← hchk, hf] at hh; cases hh
    · obtain ⟨a', ha', ea⟩ := strictAnc_struct hstruct.symm eb.symm ha
      rw [structView_sstate ea]
      rcases hcre with h3 | ⟨_, h3⟩
      · exact (active_iff _).1 (h3 a' ha').1
      · exact (active_iff _).1 (h3 a' ha')
    · rw [hchk] at ht
      rw [ht] at hw
      simp only [if_true] at hw
      unfold KState.setStepState KState.writeStepState at hw
      cases hf : s2.updateMetaReady.find? k with
      | none =>
        have := MetaSafe.find?_of_mem hku hn
        rw [hkey, hf] at this; cases this
      | some m =>
        simp only [hf, bind, Except.bind] at hw
        cases hrw : stepRowWrite m .checking (some false) with
        | error e => simp [hrw] at hw
        | ok m' =>
          simp only [hrw, pure, Except.pure, Except.ok.injEq] at hw
          subst hw
          unfold KState.modify at hn'
          obtain ⟨x, hx, rfl⟩ := List.mem_map.1 hn'
          by_cases hxk : x.key = k
          · rw [if_pos hxk]; exact (stepRowWrite_cols hrw).2.2
          · rw [if_neg hxk] at hk'; exact absurd hk' hxk


/-- **Full statement (hold).**  After every history, `pop_next_job` sets a step RUNNING only if every
recursive step creator is RUNNING or SUCCEEDED and holds nothing.  (Not provable as it stands: it needs
the flag discipline of `_update_meta_safe`, which a `define` with `_safe = True` under a step creator
breaks, `SafeDisc.define_safe_under_step_breaks_discipline`.) -/
def HoldBlocksRun : Prop :=
  ∀ (h : List (KConfig × Req)) (cfg : KConfig) (k : Key) (s' : KState) (run : Bool),
    (KState.init.run h).popNext cfg (some k) = .ok (s', .job k false run) →
    ∀ n ∈ (KState.init.run h).nodes, n.key = k → ∀ a, StrictAnc (KState.init.run h) a n → Lets a

/-- **Hold, reachable states** (`_partial`: the flag discipline of `_update_meta_safe` is a hypothesis; it is a
theorem for the histories of the director, see `Lemmas/ResourcesHold.lean`).  One row per key and acyclic
step-creator links hold after every history. -/
theorem hold_blocks_run_partial (h : List (KConfig × Req)) (hc : CacheInvSafeW (KState.init.run h))
    {cfg : KConfig} {k : Key} {s' : KState} {run : Bool}
    (hp : (KState.init.run h).popNext cfg (some k) = .ok (s', .job k false run)) :
    ∀ n ∈ (KState.init.run h).nodes, n.key = k → ∀ a, StrictAnc (KState.init.run h) a n → Lets a :=
  fun n hn hk => (popNext_hold (keysUnique_reachable h) (stepCreatorWF_reachable h) hc hp n hn hk).1 rfl

/-- The CHECK side in reachable states: a job handed out for a step below a holding creator only checks
the hash; the row becomes CHECKING (no command, no resources). -/
theorem check_bypasses_hold_partial (h : List (KConfig × Req)) (hc : CacheInvSafeW (KState.init.run h))
    {cfg : KConfig} {k : Key} {s' : KState} {run : Bool}
    (hp : (KState.init.run h).popNext cfg (some k) = .ok (s', .job k true run)) :
    (∀ n ∈ (KState.init.run h).nodes, n.key = k → ∀ a, StrictAnc (KState.init.run h) a n →
      a.sstate = .running ∨ a.sstate = .succeeded) ∧
    (∀ n' ∈ s'.nodes, n'.key = k → runs n' = false) := by
  refine ⟨fun n hn hk => ((popNext_hold (keysUnique_reachable h) (stepCreatorWF_reachable h) hc hp n hn hk).2 rfl).1,
    fun n' hn' hk' => ?_⟩
  obtain ⟨su, hu, hcase⟩ := popNext_split hp
  rcases hcase with ⟨hcn, _, _⟩ | ⟨k', n, run', hk'', hn, hkey, hel, hw, hd⟩
  · cases hcn
  · cases hk''
    obtain ⟨b, hb, eb⟩ : ∃ b ∈ (KState.init.run h).nodes, b.key = k := by
      obtain ⟨s1, s2, h1, h2, rfl⟩ := updateMeta_stages hu
      have hstruct : SameStruct (KState.init.run h) s2.updateMetaReady :=
        (updateMetaSafe_frame h1).struct.trans
          ((AfterFrame.sameSafe (MetaAfter.updateMetaAfter_frame s1 s2 cfg h2)).trans (sameSafe_updateMetaReady s2)).struct
      obtain ⟨b, hb, eb⟩ := mem_of_map_eq structView hstruct hn
      exact ⟨b, hb, (structView_key eb).symm.trans hkey⟩
    have := ((popNext_hold (keysUnique_reachable h) (stepCreatorWF_reachable h) hc hp b hb eb).2 rfl).2 n' hn' hk'
    unfold runs
    rw [this]
    simp

/-! ## Non-vacuity -/

namespace Witness

/-- After `define root ./plan.py`, `pop`, `define ./plan.py A (a:2)`: the plan runs, `A` is new. -/
def runState : KState :=
  { nodes := [
      { key := rootKey, creator := some rootKey },
      { key := plan, creator := some rootKey, sstate := .running, need := .plan, safe := true, checkSafe := true,
        safeNH := true, impliedNeed := .plan, ready := true, checkReady := false },
      { key := stA, creator := some plan, checkSafe := true, checkAfter := true, resources := [("a", 2)] },
      { key := fileKey "oa", creator := some stA, fstate := .planned }],
    deps := [{ src := stA, snk := fileKey "oa" }] }

/-- The same after `hold ./plan.py`: inside a hold block of the plan (`Step.hold` flags the subtree). -/
def heldState : KState := runState.modify plan fun n => { n with holding := 1, checkAfter := true }

/-- The same, and `A` has a recorded hash. -/
def heldHashState : KState := heldState.modify stA fun n => { n with shash := some 7, hasHash := true }

def rankW (k : Key) : Nat := if k = plan then 0 else if k = stA then 1 else 2

end Witness

open Witness in
/-- The hypotheses of `exec_resourcesOK` are met by a RUN dispatch: `A` (a:2 of 3) is handed out and RUNNING. -/
example : ∃ res, runState.exec cfgA (.pop (some stA)) = .ok res ∧ used res.1 "a" = 2 ∧
    (KeysUnique res.1 ∧ ResKeyed res.1 ∧ ResourcesOK res.1 cfgA) := by
  have hinv : KeysUnique runState ∧ ResKeyed runState ∧ ResourcesOK runState cfgA :=
    ⟨by unfold KeysUnique; decide, by unfold ResKeyed; decide, (resourcesOKB_iff _ _).1 (by decide)⟩
  have hu : (match runState.exec cfgA (.pop (some stA)) with | .ok res => some (used res.1 "a") | .error _ => none) = some 2 := by
    decide
  cases hr : runState.exec cfgA (.pop (some stA)) with
  | error e => rw [hr] at hu; cases hu
  | ok res =>
    rw [hr] at hu
    exact ⟨res, rfl, Option.some.inj hu, exec_resourcesOK cfgA (.pop (some stA)) runState res trivial trivial trivial hinv hr⟩

open Witness in
/-- A guarded history from the empty workflow: the boot step, its dispatch, a hold, a state change other than
RUNNING. -/
example : Guarded cfgA.available KState.init
    [(cfgA, .define rootKey { cmd := "./plan.py", need := .plan, safe := true }), (cfgA, .pop (some plan)),
     (cfgA, .hold plan), (cfgA, .setState plan .succeeded)] := by
  refine ⟨⟨rfl, trivial, ?_, List.nodup_nil⟩, ⟨rfl, trivial, trivial, trivial⟩, ⟨rfl, trivial, trivial, trivial⟩,
    ⟨rfl, trivial, trivial, trivial⟩, trivial⟩
  intro sk n _ hf hd
  have hn := (find?_mem _ _ _ hf).1
  simp only [KState.init, List.mem_singleton] at hn
  subst hn
  cases hd

open Witness in
/-- `popNext_hold`, RUN job: no hold, `A` is handed out to run. -/
example : KeysUnique runState ∧ StepCreatorWF runState ∧ CacheInvSafeW runState ∧
    (match runState.popNext cfgA (some stA) with | .ok (_, .job _ false _) => true | _ => false) = true := by
  have hk : KeysUnique runState := by unfold KeysUnique; decide
  have hwf : StepCreatorWF runState := stepCreatorWF_of_rank rankW (by decide)
  exact ⟨hk, hwf, cacheInvSafeWB_sound hk (noSelfStep_of_wf hwf) (by decide), by decide⟩

open Witness in
/-- Inside the hold block nothing is handed out for `A` (the dispatch answers `none`; choosing `A` is rejected). -/
example : KeysUnique heldState ∧ StepCreatorWF heldState ∧ CacheInvSafeW heldState ∧
    (match heldState.popNext cfgA none with | .ok (_, .none) => true | _ => false) = true ∧
    (match heldState.popNext cfgA (some stA) with | .ok _ => true | .error _ => false) = false := by
  have hk : KeysUnique heldState := by unfold KeysUnique; decide
  have hwf : StepCreatorWF heldState := stepCreatorWF_of_rank rankW (by decide)
  exact ⟨hk, hwf, cacheInvSafeWB_sound hk (noSelfStep_of_wf hwf) (by decide), by decide, by decide⟩

open Witness in
/-- Inside the hold block a step with a recorded hash is handed out, as a CHECK job. -/
example : KeysUnique heldHashState ∧ StepCreatorWF heldHashState ∧ CacheInvSafeW heldHashState ∧
    (match heldHashState.popNext cfgA (some stA) with | .ok (_, .job _ true _) => true | _ => false) = true := by
  have hk : KeysUnique heldHashState := by unfold KeysUnique; decide
  have hwf : StepCreatorWF heldHashState := stepCreatorWF_of_rank rankW (by decide)
  exact ⟨hk, hwf, cacheInvSafeWB_sound hk (noSelfStep_of_wf hwf) (by decide), by decide⟩

end StepupModel.K.Resources
