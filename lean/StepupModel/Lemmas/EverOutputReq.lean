import StepupModel.Lemmas.EverOutputChain
/-!
# Product rows and their declarations: every request

`exec_inv`: every accepted request keeps `Inv O All A` (`Lemmas/EverOutputBase.lean`), provided the paths
a `define` or `amend` declares as outputs or volatile outputs are in `A`; the other requests are unconditional.
No property statements here.
-/
namespace StepupModel.K.Ever
open StepupModel.K.MetaAfter StepupModel.K.Discipline StepupModel.Lemmas
set_option linter.unusedSimpArgs false
set_option linter.unusedVariables false

/-! ## `reset_for_rerun`, `mark_completed` -/

theorem detachCreatedSteps_inv {O : Key → Prop} {A : String → Prop} (k : Key) : Preserves (Inv O All A) (fun s => s.detachCreatedSteps k) := by
  intro s s' hp h
  replace h : s.detachCreatedSteps k = .ok s' := h
  unfold KState.detachCreatedSteps at h
  exact foldlM_detach_inv _ s s' hp h

theorem detachProductsWhere_inv {O : Key → Prop} {A : String → Prop} (k : Key) (p : Node → Bool) :
    Preserves (Inv O All A) (fun s => s.detachProductsWhere k p) := by
  intro s s' hp h
  replace h : s.detachProductsWhere k p = .ok s' := h
  unfold KState.detachProductsWhere at h
  exact foldlM_detach_inv _ s s' hp h

theorem dropDynamicInputs_inv {O : Key → Prop} {A : String → Prop} (s : KState) (k : Key) (hp : Inv O All A s) : Inv O All A (s.dropDynamicInputs k) := by
  unfold KState.dropDynamicInputs
  refine inv_modify_core _ _ (fun _ => rfl) (deleteDeps_inv _ ?_)
  exact (flagDynamicSuppliers_soft (s0 := s) s k (SP.refl hp.keys)).2 |> hp.soft

theorem dropDynamicSink_inv {O : Key → Prop} {A : String → Prop} (step k : Key) : Preserves (Inv O All A) (fun s => s.dropDynamicSink step k) := by
  intro s s' hp h
  replace h : s.dropDynamicSink step k = .ok s' := h
  unfold KState.dropDynamicSink at h
  exact detach_inv k _ s' (deleteDeps_inv _ hp) h

/-- `Step.reset_for_rerun` -/
theorem resetForRerun_inv {O : Key → Prop} {A : String → Prop} (k : Key) : Preserves (Inv O All A) (fun s => s.resetForRerun k) := by
  intro s s' hp h
  replace h : s.resetForRerun k = .ok s' := h
  unfold KState.resetForRerun at h
  dsimp only at h
  refine bind_ok h (fun s2 h2 => ?_) ?_
  · exact foldlM_preserves (Inv O All A) _ _ (fun t => dropDynamicSink_inv k t) _ s2 (dropDynamicInputs_inv s k hp) h2
  · intro s2 s2' hp2 hh2
    refine bind_ok hh2 (fun s3 h3 => detachCreatedSteps_inv k s2 s3 hp2 h3) ?_
    intro s3 s3' hp3 hh3
    refine bind_ok hh3 (fun s4 h4 => detachProductsWhere_inv k _ s3 s4 hp3 h4) ?_
    intro s4 s4' hp4 hh4
    refine bind_ok hh4 (fun s5 h5 => detachProductsWhere_inv k _ s4 s5 hp4 h5) ?_
    exact Inv.of_soft (fun s0 => outdateBuilt_soft k)

theorem completeFailure_inv {O : Key → Prop} {A : String → Prop} (cfg : KConfig) (k : Key) (wd : Bool) :
    Preserves (Inv O All A) (fun s => s.completeFailure cfg k wd) := by
  intro s s' hp h
  replace h : s.completeFailure cfg k wd = .ok s' := h
  unfold KState.completeFailure at h
  refine bind_ok h (fun s1 h1 => Inv.of_soft (fun s0 => outdateBuiltProducts_soft k) s s1 hp h1) ?_
  intro s1 s1' hp1 hh1
  refine bind_ok hh1 (fun s2 h2 => ?_) ?_
  · have hb : Inv O All A (s1.bumpDeferCount k wd) := by
      unfold KState.bumpDeferCount
      split
      · exact inv_modify_core _ _ (fun _ => rfl) hp1
      · exact hp1
    unfold KState.writeFailureState at h2
    split at h2
    · exact Inv.of_soft (fun s0 => setStepState_soft k .pending _) _ s2 hb h2
    · exact Inv.of_soft (fun s0 => setStepState_soft k .failed false) _ s2 hb h2
  · intro s2 s2' hp2 hh2
    refine bind_ok hh2 (fun s3 h3 => ?_) ?_
    · unfold KState.detachCreatedIfFailed at h3
      split at h3
      · exact detachCreatedSteps_inv k s2 s3 hp2 h3
      · simp only [pure, Except.pure, Except.ok.injEq] at h3; subst h3; exact hp2
    · exact preserves_pure _ (fun s hs => (deleteHash_soft (s0 := s) s k (SP.refl hs.keys)).2 |> hs.soft)

theorem markCompleted_inv {O : Key → Prop} {A : String → Prop} (cfg : KConfig) (k : Key) (nh : Option Nat) (wd : Bool) (s s' : KState) (b : Bool)
    (hp : Inv O All A s) (h : s.markCompleted cfg k nh wd = .ok (s', b)) : Inv O All A s' := by
  unfold KState.markCompleted at h
  cases nh with
  | none =>
    simp only [bind, Except.bind] at h
    cases h1 : s.completeFailure cfg k wd with
    | error e => simp [h1] at h
    | ok s1 =>
      simp only [h1, pure, Except.pure, Except.ok.injEq, Prod.mk.injEq] at h
      obtain ⟨rfl, _⟩ := h
      exact completeFailure_inv cfg k wd s s1 hp h1
  | some hh =>
    simp only [bind, Except.bind] at h
    cases h1 : s.completeSuccess cfg k hh with
    | error e => simp [h1] at h
    | ok s1 =>
      simp only [h1, pure, Except.pure, Except.ok.injEq, Prod.mk.injEq] at h
      obtain ⟨rfl, _⟩ := h
      exact Inv.of_soft (fun s0 => completeSuccess_soft cfg k hh) s s1 hp h1

/-! ## `_update_meta`, `pop_next_job` -/

theorem Inv.frame {O : Key → Prop} {A : String → Prop} {s s' : KState} (h : Inv O All A s) (hf : AfterFrame s s') : Inv O All A s' := by
  refine h.keep ?_ (keysUnique_frame hf h.keys)
  have hrows : All₂ (KeepRow All) s.nodes s'.nodes := by
    refine all₂_of_map_eq eraseAfter ?_ _ _ hf.2.2.symm
    intro a b hab
    have h1 : a.key = b.key := eraseAfter_key hab
    have h2 : a.fstate = b.fstate := eraseAfter_fstate hab
    have h3 : a.creator = b.creator := by have := congrArg Node.creator hab; exact this
    have h4 : a.detached = b.detached := eraseAfter_detached hab
    exact ⟨h1.symm, by rw [h2], fun _ => ⟨.inl h3.symm, fun hd => .inl (by rw [h4]; exact hd)⟩⟩
  intro n' hn' _
  exact forall₂_mem_right hrows n' hn'

theorem updateMeta_inv {O : Key → Prop} {A : String → Prop} (cfg : KConfig) : Preserves (Inv O All A) (fun s => s.updateMeta cfg) := by
  intro s s' hp h
  replace h : s.updateMeta cfg = .ok s' := h
  unfold KState.updateMeta at h
  refine bind_ok h (fun s1 h1 => Inv.of_soft (fun s0 => updateMetaSafe_soft) s s1 hp h1) ?_
  intro s1 s1' hp1 hh1
  refine bind_ok hh1 (fun s2 h2 => hp1.frame (updateMetaAfter_frame s1 s2 cfg h2)) ?_
  exact preserves_pure _ (fun s hs => (updateMetaReady_soft (s0 := s) s (SP.refl hs.keys)).2 |> hs.soft)

theorem popNext_inv {O : Key → Prop} {A : String → Prop} (cfg : KConfig) (choice : Option Key) (s s' : KState) (d : Dispatch)
    (hp : Inv O All A s) (h : s.popNext cfg choice = .ok (s', d)) : Inv O All A s' := by
  unfold KState.popNext at h
  simp only [bind, Except.bind] at h
  cases hu : s.updateMeta cfg with
  | error e => simp [hu] at h
  | ok su =>
    simp only [hu] at h
    have hpu := updateMeta_inv cfg s su hp hu
    cases choice with
    | none =>
      simp only at h
      split at h
      · simp only [pure, Except.pure, Except.ok.injEq, Prod.mk.injEq] at h
        obtain ⟨rfl, _⟩ := h; exact hpu
      · cases h
    | some k =>
      simp only at h
      split at h
      · cases h
      · rename_i n hn
        split at h
        · cases h
        · split at h
          · cases h
          · cases hj : su.deriveJob k with
            | error e => simp [hj] at h
            | ok run =>
              simp only [hj] at h
              cases hs : su.setStepState k (if n.hasHash = true then StepState.checking else StepState.running) with
              | error e => simp [hs] at h
              | ok s2 =>
                simp only [hs, pure, Except.pure, Except.ok.injEq, Prod.mk.injEq] at h
                obtain ⟨rfl, _⟩ := h
                exact Inv.of_soft (fun s0 => setStepState_soft k _ false) su s2 hpu hs

/-! ## Cleanup -/

/-- Every row of `s'` has the cleanup columns of a row of `s`. -/
theorem Inv.cores_sub {O : Key → Prop} {A : String → Prop} {s s' : KState} (h : Inv O All A s) (hk : KeysUnique s')
    (hc : ∀ c ∈ s'.cores, c ∈ s.cores) : Inv O All A s' := by
  refine h.keep ?_ hk
  intro n' hn' _
  have : n'.core ∈ s.cores := hc _ (List.mem_map.2 ⟨n', hn', rfl⟩)
  obtain ⟨n, hn, hcore⟩ := List.mem_map.1 this
  have h1 : n.key = n'.key := congrArg (·.1) hcore
  have h2 : n.creator = n'.creator := congrArg (·.2.1) hcore
  have h3 : n.detached = n'.detached := congrArg (·.2.2.1) hcore
  have h4 : n.fstate = n'.fstate := congrArg (·.2.2.2.1) hcore
  exact ⟨n, hn, h1.symm, by rw [h4], fun _ => ⟨.inl h2.symm, fun hd => .inl (by rw [h3]; exact hd)⟩⟩

theorem deleteDetachedBase_inv {O : Key → Prop} {A : String → Prop} : Preserves (Inv O All A) (fun s => s.deleteDetachedBase) := by
  intro s s' hp h
  replace h : s.deleteDetachedBase = .ok s' := h
  obtain ⟨D, spec⟩ := deleteDetachedBase_spec s s' h
  refine hp.cores_sub (ku_of_kn (StableG.deleteDetachedBase_preserves stable_keysNodup s s' (kn_of_ku hp.keys) h)) ?_
  intro c hc
  rw [spec.cores] at hc
  exact (List.mem_filter.1 hc).1

theorem treeInner_inv {O : Key → Prop} {A : String → Prop} (f : Node) (st : KState) (r : ForInStep KState) (hp : Inv O All A st)
    (h : treeInner f st = .ok r) : Inv O All A r.value := by
  unfold treeInner at h
  split at h
  · refine bind_ok_gen h (Inv O All A) (fun a ha => detach_inv f.key st a hp ha) (fun r => Inv O All A r.value) ?_
    intro a r' ha hh
    simp only [pure, Except.pure, Except.ok.injEq] at hh; subst hh; exact ha
  · simp only [pure, Except.pure, Except.ok.injEq] at h; subst h; exact hp

theorem treeOuter_inv {O : Key → Prop} {A : String → Prop} (t : Node) (st : KState) (r : ForInStep KState) (hp : Inv O All A st)
    (h : treeOuter t st = .ok r) : Inv O All A r.value := by
  unfold treeOuter at h
  simp only at h
  refine bind_ok_gen h (Inv O All A) (fun a ha => ?_) (fun r => Inv O All A r.value) ?_
  · refine forIn_except_inv _ treeInner (Inv O All A) st a hp ?_ ha
    intro f _ b r' hb hf
    exact treeInner_inv f b r' hb hf
  · intro a r' ha hh
    simp only [pure, Except.pure, Except.ok.injEq] at hh; subst hh; exact ha

/-- `Workflow.delete_detached` -/
theorem deleteDetached_inv {O : Key → Prop} {A : String → Prop} : Preserves (Inv O All A) (fun s => s.deleteDetached) := by
  intro s s' hp h
  replace h : s.deleteDetached = .ok s' := h
  rw [deleteDetached_eq] at h
  refine bind_ok h (fun st hst => ?_) deleteDetachedBase_inv
  refine forIn_except_inv _ treeOuter (Inv O All A) s st hp ?_ hst
  intro t _ b r' hb hf
  exact treeOuter_inv t b r' hb hf

/-! ## Requests -/

/-- The paths a request declares as outputs or volatile outputs (after `sorted(set(...))`). -/
def ReqDeclares : Req → String → Prop
  | .define _ d, p => p ∈ normPaths d.out ++ normPaths d.vol
  | .amend _ _ _ out vol _, p => p ∈ normPaths out ++ normPaths vol
  | _, _ => False

/-- The node an `amend` request is addressed to. -/
def ReqAmends : Req → Key → Prop
  | .amend k _ _ _ _ _, x => x = k
  | _, _ => False

/-- **Every accepted request keeps the invariant**, when what it declares as a product is in `A`, every
step is in `O`, and so is the node of an `amend` (when it is a step or a tree: otherwise the request is
rejected). -/
theorem exec_inv {O : Key → Prop} {A : String → Prop} (cfg : KConfig) (r : Req) (s : KState) (res : KState × String)
    (hstep : ∀ c, c.kind = .step → O c) (ho : ∀ k, ReqAmends r k → OwnerKind k → O k)
    (hd : ∀ p, ReqDeclares r p → A p) (hp : Inv O All A s) (h : s.exec cfg r = .ok res) : Inv O All A res.1 := by
  cases r with
  | define c d =>
    simp only [KState.exec] at h
    refine bind_ok_gen h (fun a => Inv O All A a.1) (fun a ha => defineStep_inv cfg c d s a hstep
      (fun p hpm => hd p (List.mem_append_left _ hpm)) (fun p hpm => hd p (List.mem_append_right _ hpm)) hp ha)
      (fun r => Inv O All A r.1) ?_
    intro a b ha hb; obtain ⟨st, chk⟩ := a
    simp only [pure, Except.pure, Except.ok.injEq] at hb; subst hb; exact ha
  | amend k inp env out vol conc =>
    simp only [KState.exec] at h
    refine bind_ok_gen h (fun a => Inv O All A a.1) (fun a ha => amendStep_inv cfg k inp env out vol conc s a (ho k rfl)
      (fun p hpm => hd p (List.mem_append_left _ hpm)) (fun p hpm => hd p (List.mem_append_right _ hpm)) hp ha)
      (fun r => Inv O All A r.1) ?_
    intro a b ha hb; obtain ⟨st, chk⟩ := a
    simp only [pure, Except.pure, Except.ok.injEq] at hb; subst hb; exact ha
  | static c ps =>
    simp only [KState.exec] at h
    refine bind_ok_gen h (fun a => Inv O All A a.1) (fun a ha => declareStaticFiles_inv cfg c ps s a hp ha)
      (fun r => Inv O All A r.1) ?_
    intro a b ha hb; obtain ⟨st, chk⟩ := a
    simp only [pure, Except.pure, Except.ok.injEq] at hb; subst hb; exact ha
  | tree c p =>
    simp only [KState.exec] at h
    refine bind_ok_gen h (fun a => Inv O All A a.1) (fun a ha => registerStaticTree_inv cfg c p s a hp ha)
      (fun r => Inv O All A r.1) ?_
    intro a b ha hb; obtain ⟨st, chk⟩ := a
    simp only [pure, Except.pure, Except.ok.injEq] at hb; subst hb; exact ha
  | declStatic c ts fs ps =>
    simp only [KState.exec] at h
    refine bind_ok_gen h (fun a => Inv O All A a.1) (fun a ha => declareStaticRequest_inv cfg c ts fs ps s a hp ha)
      (fun r => Inv O All A r.1) ?_
    intro a b ha hb; obtain ⟨st, chk⟩ := a
    simp only [pure, Except.pure, Except.ok.injEq] at hb; subst hb; exact ha
  | nglob k p ms => exact Inv.of_soft (fun s0 => registerNglob_soft k p ms) s _ hp (StableG.unitOut_ok h)
  | hashes u c => exact Inv.of_soft (fun s0 => updateFileHashes_soft u c) s _ hp (StableG.unitOut_ok h)
  | pop c =>
    simp only [KState.exec] at h
    refine bind_ok_gen h (fun a => Inv O All A a.1) (fun a ha => popNext_inv cfg c s a.1 a.2 hp ha) (fun r => Inv O All A r.1) ?_
    intro a b ha hb; obtain ⟨st, d⟩ := a
    simp only [pure, Except.pure, Except.ok.injEq] at hb; subst hb; exact ha
  | updateMeta => exact updateMeta_inv cfg s _ hp (StableG.unitOut_ok h)
  | resetRerun k => exact resetForRerun_inv k s _ hp (StableG.unitOut_ok h)
  | completed k nh wd =>
    simp only [KState.exec] at h
    refine bind_ok_gen h (fun a => Inv O All A a.1) (fun a ha => markCompleted_inv cfg k nh wd s a.1 a.2 hp ha)
      (fun r => Inv O All A r.1) ?_
    intro a b ha hb; obtain ⟨st, d⟩ := a
    simp only [pure, Except.pure, Except.ok.injEq] at hb; subst hb; exact ha
  | setState k stt => exact Inv.of_soft (fun s0 => setStepState_soft k stt false) s _ hp (StableG.unitOut_ok h)
  | deleteHash k =>
    have := StableG.unitOut_ok h
    simp only [pure, Except.pure, Except.ok.injEq] at this
    rw [← this]; exact hp.soft (deleteHash_soft (s0 := s) s k (SP.refl hp.keys)).2
  | markPending k => exact Inv.of_soft (fun s0 => markStepPending'_soft k) s _ hp (StableG.unitOut_ok h)
  | hold k => exact Inv.of_soft (fun s0 => hold_soft k) s _ hp (StableG.unitOut_ok h)
  | release k => exact Inv.of_soft (fun s0 => release_soft k) s _ hp (StableG.unitOut_ok h)
  | detach k => exact detach_inv k s _ hp (StableG.unitOut_ok h)
  | revertOptional => exact Inv.of_soft (fun s0 => revertOptional_soft) s _ hp (StableG.unitOut_ok h)
  | deleteDetached => exact deleteDetached_inv s _ hp (StableG.unitOut_ok h)
  | clearQueue =>
    have := StableG.unitOut_ok h
    simp only [pure, Except.pure, Except.ok.injEq] at this
    rw [← this]; exact hp.nodes rfl
  | resetInterrupted => exact Inv.of_soft (fun s0 => resetInterrupted_soft) s _ hp (StableG.unitOut_ok h)
  | rescanEnv => exact Inv.of_soft (fun s0 => rescanEnvVars_soft cfg) s _ hp (StableG.unitOut_ok h)
  | reconcile => exact Inv.of_soft (fun s0 => reconcileTargets_soft cfg) s _ hp (StableG.unitOut_ok h)
  | checkConsistency => exact Inv.of_soft (fun s0 => checkConsistency_soft) s _ hp (StableG.unitOut_ok h)

end StepupModel.K.Ever
