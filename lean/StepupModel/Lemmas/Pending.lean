import StepupModel.P.Pending
/-!
# Lemmas about the attribution model (`P/Pending.lean`)

The heart is the analysis of the `UNION ALL` walk: when `pend_blocker` has one row per step
(its primary key), a step is produced at level `n` exactly when following the primary blockers
upwards from it reaches a root after exactly `n` hops (`mem_level`).  That makes the levels
pairwise disjoint and duplicate free, bounds their number by the number of steps, and so gives
termination without any assumption on cycles.
-/
namespace StepupModel.P.Pending
open StepupModel.Generated.Report

/-! ## `dedup` -/

theorem mem_dedup {α} [DecidableEq α] (l : List α) (x : α) : x ∈ dedup l ↔ x ∈ l := by
  induction l with
  | nil => simp [dedup]
  | cons y ys ih =>
    have hstep : dedup (y :: ys) = if y ∈ dedup ys then dedup ys else y :: dedup ys := rfl
    rw [hstep]
    by_cases hy : y ∈ dedup ys
    · simp only [hy, if_true, List.mem_cons]
      constructor
      · intro h; exact Or.inr (ih.mp h)
      · rintro (rfl | h)
        · exact hy
        · exact ih.mpr h
    · simp only [hy, if_false, List.mem_cons, ih]

theorem nodup_dedup {α} [DecidableEq α] (l : List α) : (dedup l).Nodup := by
  induction l with
  | nil => simp [dedup]
  | cons y ys ih =>
    have hstep : dedup (y :: ys) = if y ∈ dedup ys then dedup ys else y :: dedup ys := rfl
    rw [hstep]
    by_cases hy : y ∈ dedup ys
    · simpa [hy] using ih
    · simp only [hy, if_false]
      exact List.nodup_cons.mpr ⟨hy, ih⟩

/-! ## Counting -/

/-- Pigeonhole: a duplicate free list whose elements all lie in `u` is not longer than `u`. -/
theorem nodup_length_le {α} [DecidableEq α] : ∀ (l u : List α), l.Nodup → (∀ x ∈ l, x ∈ u) → l.length ≤ u.length := by
  intro l
  induction l with
  | nil => intro u _ _; simp
  | cons x xs ih =>
    intro u hnd hsub
    have hx : x ∈ u := hsub x (List.mem_cons_self ..)
    have hnd' := List.nodup_cons.mp hnd
    have hsub' : ∀ y ∈ xs, y ∈ u.erase x := by
      intro y hy
      have hne : y ≠ x := fun h => hnd'.1 (h ▸ hy)
      exact (List.mem_erase_of_ne hne).mpr (hsub y (List.mem_cons_of_mem _ hy))
    have := ih (u.erase x) hnd'.2 hsub'
    have hlen := List.length_erase_of_mem hx
    have hpos : 0 < u.length := List.length_pos_of_mem hx
    simp only [List.length_cons]
    omega

/-! ## The primary blocker as a partial function -/

/-- `pend_blocker` has `dst_step` as primary key. -/
def UniqueDst (B : List Blk) : Prop := (B.map (·.dst)).Nodup

/-- The row of step `i`. -/
def parent? (B : List Blk) (i : Nat) : Option Blk := B.find? (·.dst = i)

theorem mem_of_parent {B : List Blk} {i : Nat} {b : Blk} (h : parent? B i = some b) : b ∈ B ∧ b.dst = i := by
  unfold parent? at h
  exact ⟨List.mem_of_find?_eq_some h, by simpa using List.find?_some h⟩

theorem parent_of_mem {B : List Blk} (hB : UniqueDst B) {b : Blk} (hb : b ∈ B) : parent? B b.dst = some b := by
  unfold parent?
  induction B with
  | nil => cases hb
  | cons c cs ih =>
    have hnd : c.dst ∉ cs.map (·.dst) ∧ (cs.map (·.dst)).Nodup := by
      simpa [UniqueDst] using hB
    rcases List.mem_cons.mp hb with rfl | hmem
    · simp
    · have hne : c.dst ≠ b.dst := by
        intro h
        exact hnd.1 (h ▸ List.mem_map_of_mem hmem)
      simp only [List.find?_cons, hne, decide_false]
      exact ih hnd.2 hmem

theorem eq_of_dst_eq {B : List Blk} (hB : UniqueDst B) {a b : Blk} (ha : a ∈ B) (hb : b ∈ B)
    (h : a.dst = b.dst) : a = b := by
  have h1 := parent_of_mem hB ha
  have h2 := parent_of_mem hB hb
  rw [h] at h1
  rw [h1] at h2
  exact Option.some.inj h2

/-- Follow the primary blockers upwards from step `i`: `some root` when a root-kind blocker is
reached after exactly `n` step-to-step hops. -/
def climb (B : List Blk) : Nat → Nat → Option (Nat × Nat)
  | 0, i =>
    match parent? B i with
    | some b => if b.kind ≠ blockStep then some (b.kind, b.src) else none
    | none => none
  | n + 1, i =>
    match parent? B i with
    | some b => if b.kind = blockStep then climb B n b.src else none
    | none => none

theorem climb_unique (B : List Blk) : ∀ (n m i : Nat) (r r' : Nat × Nat),
    climb B n i = some r → climb B m i = some r' → n = m ∧ r = r' := by
  intro n
  induction n with
  | zero =>
    intro m i r r' h1 h2
    cases m with
    | zero => rw [h1] at h2; exact ⟨rfl, Option.some.inj h2⟩
    | succ m =>
      simp only [climb] at h1 h2
      cases hp : parent? B i with
      | none => simp [hp] at h1
      | some b =>
        simp only [hp] at h1 h2
        by_cases hk : b.kind = blockStep <;> simp [hk] at h1 h2
  | succ n ih =>
    intro m i r r' h1 h2
    cases m with
    | zero =>
      simp only [climb] at h1 h2
      cases hp : parent? B i with
      | none => simp [hp] at h1
      | some b =>
        simp only [hp] at h1 h2
        by_cases hk : b.kind = blockStep <;> simp [hk] at h1 h2
    | succ m =>
      simp only [climb] at h1 h2
      cases hp : parent? B i with
      | none => simp [hp] at h1
      | some b =>
        simp only [hp] at h1 h2
        by_cases hk : b.kind = blockStep
        · simp only [hk, if_true] at h1 h2
          obtain ⟨hnm, hr⟩ := ih m b.src r r' h1 h2
          exact ⟨by omega, hr⟩
        · simp [hk] at h1

/-! ## Levels of the walk -/

theorem mem_seeds {B : List Blk} {w : WRow} :
    w ∈ seeds B ↔ ∃ b ∈ B, b.kind ≠ blockStep ∧ w = { i := b.dst, rk := b.kind, rid := b.src } := by
  unfold seeds
  simp only [List.mem_map, List.mem_filter, decide_eq_true_eq]
  constructor
  · rintro ⟨b, ⟨hb, hk⟩, rfl⟩; exact ⟨b, hb, hk, rfl⟩
  · rintro ⟨b, hb, hk, rfl⟩; exact ⟨b, ⟨hb, hk⟩, rfl⟩

theorem mem_children {B : List Blk} {v w : WRow} :
    w ∈ children B v ↔ ∃ b ∈ B, b.kind = blockStep ∧ b.src = v.i ∧ w = { i := b.dst, rk := v.rk, rid := v.rid } := by
  unfold children
  simp only [List.mem_map, List.mem_filter, decide_eq_true_eq]
  constructor
  · rintro ⟨b, ⟨hb, hk, hs⟩, rfl⟩; exact ⟨b, hb, hk, hs, rfl⟩
  · rintro ⟨b, hb, hk, hs, rfl⟩; exact ⟨b, ⟨hb, hk, hs⟩, rfl⟩

/-- A row is produced at level `n` exactly when its step reaches its root after `n` hops. -/
theorem mem_level {B : List Blk} (hB : UniqueDst B) : ∀ (n : Nat) (w : WRow),
    w ∈ level B n ↔ climb B n w.i = some (w.rk, w.rid) := by
  intro n
  induction n with
  | zero =>
    intro w
    simp only [level, climb]
    rw [mem_seeds]
    constructor
    · rintro ⟨b, hb, hk, rfl⟩
      simp [parent_of_mem hB hb, hk]
    · intro h
      cases hp : parent? B w.i with
      | none => simp [hp] at h
      | some b =>
        simp only [hp] at h
        obtain ⟨hb, hd⟩ := mem_of_parent hp
        by_cases hk : b.kind = blockStep
        · simp [hk] at h
        · simp only [ne_eq, hk, not_false_eq_true, if_true, Option.some.injEq, Prod.mk.injEq] at h
          refine ⟨b, hb, hk, ?_⟩
          cases w; simp_all
  | succ n ih =>
    intro w
    simp only [level, climb, next, List.mem_flatMap]
    constructor
    · rintro ⟨v, hv, hw⟩
      obtain ⟨b, hb, hk, hs, rfl⟩ := mem_children.mp hw
      have := (ih v).mp hv
      simp [parent_of_mem hB hb, hk, hs, this]
    · intro h
      cases hp : parent? B w.i with
      | none => simp [hp] at h
      | some b =>
        simp only [hp] at h
        obtain ⟨hb, hd⟩ := mem_of_parent hp
        by_cases hk : b.kind = blockStep
        · simp only [hk, if_true] at h
          refine ⟨{ i := b.src, rk := w.rk, rid := w.rid }, (ih _).mpr h, ?_⟩
          refine mem_children.mpr ⟨b, hb, hk, rfl, ?_⟩
          cases w; simp_all
        · simp [hk] at h

theorem level_ids_subset {B : List Blk} (hB : UniqueDst B) (n : Nat) (w : WRow) (hw : w ∈ level B n) :
    w.i ∈ B.map (·.dst) := by
  have h := (mem_level hB n w).mp hw
  cases n with
  | zero =>
    simp only [climb] at h
    cases hp : parent? B w.i with
    | none => simp [hp] at h
    | some b =>
      obtain ⟨hb, hd⟩ := mem_of_parent hp
      exact hd ▸ List.mem_map_of_mem hb
  | succ n =>
    simp only [climb] at h
    cases hp : parent? B w.i with
    | none => simp [hp] at h
    | some b =>
      obtain ⟨hb, hd⟩ := mem_of_parent hp
      exact hd ▸ List.mem_map_of_mem hb

/-- Rows of two different levels belong to different steps. -/
theorem level_disjoint {B : List Blk} (hB : UniqueDst B) {n m : Nat} (hnm : n ≠ m) {x y : WRow}
    (hx : x ∈ level B n) (hy : y ∈ level B m) : x.i ≠ y.i := by
  intro h
  have h1 := (mem_level hB n x).mp hx
  have h2 := (mem_level hB m y).mp hy
  rw [h] at h1
  exact hnm (climb_unique B n m y.i _ _ h1 h2).1

/-- Within one level no step occurs twice. -/
theorem level_pairwise {B : List Blk} (hB : UniqueDst B) : ∀ n, (level B n).Pairwise (fun a b => a.i ≠ b.i) := by
  have hBp : B.Pairwise (fun a b => a.dst ≠ b.dst) := by
    have : (B.map (·.dst)).Pairwise (· ≠ ·) := hB
    exact List.pairwise_map.mp this
  intro n
  induction n with
  | zero =>
    simp only [level, seeds]
    rw [List.pairwise_map]
    exact (hBp.filter _).imp (fun h => h)
  | succ n ih =>
    simp only [level, next]
    rw [List.pairwise_flatMap]
    refine ⟨?_, ?_⟩
    · intro v _
      simp only [children]
      rw [List.pairwise_map]
      exact (hBp.filter _).imp (fun h => h)
    · refine ih.imp ?_
      intro v1 v2 hne x hx y hy hxy
      obtain ⟨b1, hb1, _, hs1, rfl⟩ := mem_children.mp hx
      obtain ⟨b2, hb2, _, hs2, rfl⟩ := mem_children.mp hy
      have : b1 = b2 := eq_of_dst_eq hB hb1 hb2 hxy
      subst this
      exact hne (hs1.symm.trans hs2)

/-! ## All levels together; termination -/

/-- The rows of the first `k` levels. -/
def levelsUpTo (B : List Blk) (k : Nat) : List WRow := (List.range k).flatMap (level B)

theorem levelsUpTo_pairwise {B : List Blk} (hB : UniqueDst B) (k : Nat) :
    (levelsUpTo B k).Pairwise (fun a b => a.i ≠ b.i) := by
  unfold levelsUpTo
  rw [List.pairwise_flatMap]
  refine ⟨fun n _ => level_pairwise hB n, ?_⟩
  have : (List.range k).Pairwise (· ≠ ·) := List.nodup_range
  exact this.imp (fun hne x hx y hy => level_disjoint hB hne hx hy)

theorem levelsUpTo_ids_nodup {B : List Blk} (hB : UniqueDst B) (k : Nat) :
    ((levelsUpTo B k).map (·.i)).Nodup := by
  have := levelsUpTo_pairwise hB k
  exact List.pairwise_map.mpr this

theorem levelsUpTo_ids_subset {B : List Blk} (hB : UniqueDst B) (k : Nat) :
    ∀ x ∈ (levelsUpTo B k).map (·.i), x ∈ B.map (·.dst) := by
  intro x hx
  obtain ⟨w, hw, rfl⟩ := List.mem_map.mp hx
  unfold levelsUpTo at hw
  obtain ⟨n, _, hwn⟩ := List.mem_flatMap.mp hw
  exact level_ids_subset hB n w hwn

theorem level_empty_succ (B : List Blk) (n : Nat) (h : level B n = []) : level B (n + 1) = [] := by
  simp [level, next, h]

theorem level_empty_add (B : List Blk) (n j : Nat) (h : level B n = []) : level B (n + j) = [] := by
  induction j with
  | zero => exact h
  | succ j ih => exact level_empty_succ B (n + j) ih

theorem levelsUpTo_succ (B : List Blk) (k : Nat) : levelsUpTo B (k + 1) = levelsUpTo B k ++ level B k := by
  unfold levelsUpTo
  rw [List.range_succ, List.flatMap_append]
  simp

/-- If the first `k` levels are all non-empty they contain at least `k` rows. -/
theorem levelsUpTo_length_ge (B : List Blk) : ∀ k, (∀ n < k, level B n ≠ []) → k ≤ (levelsUpTo B k).length := by
  intro k
  induction k with
  | zero => intro _; simp
  | succ k ih =>
    intro h
    have h1 := ih (fun n hn => h n (by omega))
    have h2 : 0 < (level B k).length := List.length_pos_iff.mpr (h k (by omega))
    rw [levelsUpTo_succ, List.length_append]
    omega

/-- Some level among the first `|B| + 1` is empty: the walk has at most `|B|` non-empty levels. -/
theorem exists_empty_level {B : List Blk} (hB : UniqueDst B) : ∃ k, k ≤ B.length ∧ level B k = [] := by
  apply Classical.byContradiction
  intro hno
  have hall : ∀ n < B.length + 1, level B n ≠ [] := by
    intro n hn he
    exact hno ⟨n, by omega, he⟩
  have h1 := levelsUpTo_length_ge B (B.length + 1) hall
  have h2 := nodup_length_le _ _ (levelsUpTo_ids_nodup hB (B.length + 1)) (levelsUpTo_ids_subset hB (B.length + 1))
  simp only [List.length_map] at h2
  omega

/-- The loop of the recursive CTE, started at level `n`, returns the rows of the levels `n, n+1, ..`
up to an empty one, provided the fuel covers them. -/
theorem walkFrom_levels (B : List Blk) : ∀ (fuel n j : Nat), j ≤ fuel → level B (n + j) = [] →
    walkFrom B fuel (level B n) = some ((List.range' n j).flatMap (level B)) := by
  intro fuel
  induction fuel with
  | zero =>
    intro n j hj he
    have : j = 0 := by omega
    subst this
    simp only [Nat.add_zero] at he
    simp [he, walkFrom]
  | succ fuel ih =>
    intro n j hj he
    cases hl : level B n with
    | nil =>
      have hz : ∀ m ∈ List.range' n j, level B m = [] := by
        intro m hm
        have hm' := List.mem_range'_1.mp hm
        have : m = n + (m - n) := by omega
        rw [this]
        exact level_empty_add B n _ hl
      have : (List.range' n j).flatMap (level B) = [] := by
        rw [List.flatMap_eq_nil_iff]
        exact hz
      simp [walkFrom, this]
    | cons w ws =>
      cases j with
      | zero => simp only [Nat.add_zero] at he; rw [he] at hl; cases hl
      | succ j =>
        have hnext : next B (w :: ws) = level B (n + 1) := by simp [level, hl]
        have he' : level B (n + 1 + j) = [] := by
          have : n + 1 + j = n + (j + 1) := by omega
          rw [this]; exact he
        have := ih (n + 1) j (by omega) he'
        simp only [walkFrom, hnext, this, Option.map_some, List.range'_succ, List.flatMap_cons, hl]

theorem range'_zero_eq_range (k : Nat) : List.range' 0 k = List.range k := by
  simp [List.range_eq_range']

/-- The walk terminates (within the fuel `|B| + 1`) and returns the rows of all levels. -/
theorem walk_eq_levels {B : List Blk} (hB : UniqueDst B) :
    ∃ k, k ≤ B.length ∧ level B k = [] ∧ walk B = some (levelsUpTo B k) := by
  obtain ⟨k, hk, he⟩ := exists_empty_level hB
  refine ⟨k, hk, he, ?_⟩
  unfold walk levelsUpTo
  have := walkFrom_levels B (B.length + 1) 0 k (by omega) (by simpa using he)
  simp only [level] at this
  rw [this, range'_zero_eq_range]

/-- A step is attributed (occurs in the walk) exactly when its chain of primary blockers ends in a root. -/
theorem mem_walk_iff {B : List Blk} (hB : UniqueDst B) {rows : List WRow} (h : walk B = some rows) (w : WRow) :
    w ∈ rows ↔ ∃ n, climb B n w.i = some (w.rk, w.rid) := by
  obtain ⟨k, _, he, hw⟩ := walk_eq_levels hB
  rw [h] at hw
  have hrows : rows = levelsUpTo B k := Option.some.inj hw
  subst hrows
  unfold levelsUpTo
  simp only [List.mem_flatMap, List.mem_range]
  constructor
  · rintro ⟨n, _, hn⟩; exact ⟨n, (mem_level hB n w).mp hn⟩
  · rintro ⟨n, hn⟩
    have hmem := (mem_level hB n w).mpr hn
    refine ⟨n, ?_, hmem⟩
    apply Classical.byContradiction
    intro hge
    have : level B n = [] := by
      have : n = k + (n - k) := by omega
      rw [this]; exact level_empty_add B k _ he
    rw [this] at hmem
    cases hmem

/-! ## Counting the partition -/

theorem filter_mem_length {α} [DecidableEq α] (l u : List α) (hl : l.Nodup) (hu : u.Nodup) (hsub : ∀ x ∈ l, x ∈ u) :
    (u.filter (fun x => decide (x ∈ l))).length = l.length := by
  apply Nat.le_antisymm
  · apply nodup_length_le _ _ (hu.filter _)
    intro x hx
    simpa using (List.mem_filter.mp hx).2
  · apply nodup_length_le _ _ hl
    intro x hx
    exact List.mem_filter.mpr ⟨hsub x hx, by simpa using hx⟩

theorem filter_length_add {α} (p : α → Bool) (l : List α) :
    (l.filter p).length + (l.filter (fun x => !p x)).length = l.length := by
  induction l with
  | nil => simp
  | cons x xs ih =>
    by_cases h : p x <;> simp [h] <;> omega

theorem length_filter_map {α β} (f : α → β) (p : β → Bool) (l : List α) :
    ((l.map f).filter p).length = (l.filter (fun a => p (f a))).length := by
  induction l with
  | nil => simp
  | cons x xs ih =>
    by_cases h : p (f x) <;> simp [h, ih]

/-! ## The choice of the primary blocker -/

theorem before_iff (a c : Cand) : a.before c = true ↔
    a.kind < c.kind ∨ (a.kind = c.kind ∧ (a.label < c.label ∨ (a.label = c.label ∧ a.src < c.src))) := by
  simp [Cand.before]

theorem before_irrefl (a : Cand) : a.before a = false := by
  apply Bool.eq_false_iff.mpr
  rw [ne_eq, before_iff]
  rintro (h | ⟨_, h | ⟨_, h⟩⟩)
  · omega
  · exact String.lt_irrefl _ h
  · omega

theorem before_trans {a b c : Cand} (h1 : a.before b = true) (h2 : b.before c = true) : a.before c = true := by
  rw [before_iff] at *
  rcases h1 with h1 | ⟨k1, h1⟩
  · rcases h2 with h2 | ⟨k2, _⟩
    · exact Or.inl (by omega)
    · exact Or.inl (by omega)
  · rcases h2 with h2 | ⟨k2, h2⟩
    · exact Or.inl (by omega)
    · refine Or.inr ⟨k1.trans k2, ?_⟩
      rcases h1 with h1 | ⟨l1, h1⟩
      · rcases h2 with h2 | ⟨l2, _⟩
        · exact Or.inl (String.lt_trans h1 h2)
        · exact Or.inl (l2 ▸ h1)
      · rcases h2 with h2 | ⟨l2, h2⟩
        · exact Or.inl (l1 ▸ h2)
        · exact Or.inr ⟨l1.trans l2, by omega⟩

theorem pick_eq_none {l : List Cand} : pick l = none ↔ l = [] := by
  cases l with
  | nil => simp [pick]
  | cons c cs =>
    simp only [pick]
    cases pick cs with
    | none => simp
    | some a => by_cases h : c.before a <;> simp [h]

/-- The picked row is one of the candidates and no candidate sorts strictly before it. -/
theorem pick_spec : ∀ {l : List Cand} {c : Cand}, pick l = some c → c ∈ l ∧ ∀ a ∈ l, a.before c = false := by
  intro l
  induction l with
  | nil => intro c h; simp [pick] at h
  | cons x xs ih =>
    intro c h
    simp only [pick] at h
    cases hp : pick xs with
    | none =>
      simp only [hp, Option.some.injEq] at h
      subst h
      have : xs = [] := pick_eq_none.mp hp
      subst this
      exact ⟨List.mem_cons_self .., by intro a ha; simp at ha; subst ha; exact before_irrefl _⟩
    | some m =>
      simp only [hp] at h
      obtain ⟨hm, hmin⟩ := ih hp
      by_cases hb : x.before m
      · simp only [hb, if_true, Option.some.injEq] at h
        subst h
        refine ⟨List.mem_cons_self .., ?_⟩
        intro a ha
        rcases List.mem_cons.mp ha with rfl | ha
        · exact before_irrefl _
        · apply Bool.eq_false_iff.mpr
          intro hax
          have := before_trans hax hb
          rw [hmin a ha] at this
          cases this
      · simp only [hb, Bool.false_eq_true, if_false, Option.some.injEq] at h
        subst h
        refine ⟨List.mem_cons_of_mem _ hm, ?_⟩
        intro a ha
        rcases List.mem_cons.mp ha with rfl | ha
        · simpa using hb
        · exact hmin a ha

theorem filterMap_dst {l : List Nat} {f : Nat → Option Blk} (h : ∀ d ∈ l, ∃ b, f d = some b ∧ b.dst = d) :
    (l.filterMap f).map (·.dst) = l := by
  induction l with
  | nil => simp
  | cons d ds ih =>
    obtain ⟨b, hb, hd⟩ := h d (List.mem_cons_self ..)
    have := ih (fun d' hd' => h d' (List.mem_cons_of_mem _ hd'))
    simp [hb, hd, this]

theorem primary_dst (cs : List Cand) : (primary cs).map (·.dst) = dsts cs := by
  unfold primary
  apply filterMap_dst
  intro d hd
  have hd' : d ∈ cs.map (·.dst) := (mem_dedup _ _).mp hd
  obtain ⟨c, hc, rfl⟩ := List.mem_map.mp hd'
  cases hp : pick (cs.filter (·.dst = c.dst)) with
  | none =>
    have := pick_eq_none.mp hp
    have hmem : c ∈ cs.filter (·.dst = c.dst) := List.mem_filter.mpr ⟨hc, by simp⟩
    rw [this] at hmem
    cases hmem
  | some m => exact ⟨_, rfl, rfl⟩

theorem mem_primary {cs : List Cand} {b : Blk} (hb : b ∈ primary cs) :
    ∃ c ∈ cs, c.dst = b.dst ∧ c.kind = b.kind ∧ c.src = b.src ∧ ∀ a ∈ cs, a.dst = b.dst → a.before c = false := by
  unfold primary at hb
  obtain ⟨d, _, hd⟩ := List.mem_filterMap.mp hb
  cases hp : pick (cs.filter (·.dst = d)) with
  | none => simp [hp] at hd
  | some c =>
    simp only [hp, Option.map_some, Option.some.injEq] at hd
    subst hd
    obtain ⟨hc, hmin⟩ := pick_spec hp
    obtain ⟨hc1, hc2⟩ := List.mem_filter.mp hc
    refine ⟨c, hc1, by simpa using hc2, rfl, rfl, ?_⟩
    intro a ha had
    exact hmin a (List.mem_filter.mpr ⟨ha, by simpa using had⟩)

theorem runnable_dst (ids : List Nat) (prim : List Blk) :
    (runnable ids prim).map (·.dst) = ids.filter (fun i => !(prim.any (·.dst = i))) := by
  unfold runnable
  simp [List.map_map, Function.comp_def]

/-- `pend_blocker` holds exactly one row for every step of U. -/
theorem pendBlocker_unique {ids : List Nat} {cs : List Cand} (hids : ids.Nodup) (hsub : ∀ c ∈ cs, c.dst ∈ ids) :
    UniqueDst (pendBlocker ids cs) ∧ ∀ i, i ∈ (pendBlocker ids cs).map (·.dst) ↔ i ∈ ids := by
  have hprim := primary_dst cs
  have hrun := runnable_dst ids (primary cs)
  have hany : ∀ i, (primary cs).any (·.dst = i) = true ↔ i ∈ dsts cs := by
    intro i
    rw [← hprim]
    simp only [List.any_eq_true, List.mem_map, decide_eq_true_eq]
  constructor
  · unfold UniqueDst pendBlocker
    rw [List.map_append, hprim, hrun, List.nodup_append]
    refine ⟨nodup_dedup _, hids.filter _, ?_⟩
    intro a ha b hb hab
    subst hab
    have h2 := (List.mem_filter.mp hb).2
    have := (hany a).mpr ha
    simp [this] at h2
  · intro i
    unfold pendBlocker
    rw [List.map_append, hprim, hrun, List.mem_append, List.mem_filter]
    constructor
    · rintro (h | h)
      · have := (mem_dedup _ _).mp h
        obtain ⟨c, hc, rfl⟩ := List.mem_map.mp this
        exact hsub c hc
      · exact h.1
    · intro hi
      by_cases hd : i ∈ dsts cs
      · exact Or.inl hd
      · refine Or.inr ⟨hi, ?_⟩
        have : (primary cs).any (·.dst = i) = false := by
          apply Bool.eq_false_iff.mpr
          intro h
          exact hd ((hany i).mp h)
        simp [this]

theorem any_eq_decide_mem (rows : List WRow) (x : Nat) :
    (rows.any fun w => decide (w.i = x)) = decide (x ∈ rows.map (fun w : WRow => w.i)) := by
  rw [Bool.eq_iff_iff]
  simp only [List.any_eq_true, decide_eq_true_eq, List.mem_map]

/-! ## Sums over root kinds -/

theorem sum_map_zero {α} (l : List α) (f : α → Nat) (h : ∀ a ∈ l, f a = 0) : (l.map f).sum = 0 := by
  induction l with
  | nil => simp
  | cons a as ih =>
    simp only [List.map_cons, List.sum_cons, h a (List.mem_cons_self ..), Nat.zero_add]
    exact ih (fun b hb => h b (List.mem_cons_of_mem _ hb))

theorem sum_indicator (ks : List Nat) (x : Nat) (hnd : ks.Nodup) (hx : x ∈ ks) :
    (ks.map fun k => if x = k then 1 else 0).sum = 1 := by
  induction ks with
  | nil => cases hx
  | cons k ks ih =>
    have hnd' := List.nodup_cons.mp hnd
    simp only [List.map_cons, List.sum_cons]
    by_cases hk : x = k
    · subst hk
      have : (ks.map fun k => if x = k then 1 else 0).sum = 0 := by
        apply sum_map_zero
        intro k' hk'
        have : x ≠ k' := fun h => hnd'.1 (h ▸ hk')
        simp [this]
      simp [this]
    · have hx' : x ∈ ks := by
        rcases List.mem_cons.mp hx with h | h
        · exact absurd h hk
        · exact h
      simp [hk, ih hnd'.2 hx']

theorem climb_root_row (B : List Blk) : ∀ (n i k r : Nat), climb B n i = some (k, r) →
    ∃ b ∈ B, b.kind = k ∧ b.src = r ∧ b.kind ≠ blockStep := by
  intro n
  induction n with
  | zero =>
    intro i k r h
    simp only [climb] at h
    cases hp : parent? B i with
    | none => simp [hp] at h
    | some b =>
      simp only [hp] at h
      by_cases hk : b.kind = blockStep
      · simp [hk] at h
      · simp only [ne_eq, hk, not_false_eq_true, if_true, Option.some.injEq, Prod.mk.injEq] at h
        exact ⟨b, (mem_of_parent hp).1, h.1, h.2, hk⟩
  | succ n ih =>
    intro i k r h
    simp only [climb] at h
    cases hp : parent? B i with
    | none => simp [hp] at h
    | some b =>
      simp only [hp] at h
      by_cases hk : b.kind = blockStep
      · simp only [hk, if_true] at h
        exact ih _ _ _ h
      · simp [hk] at h

/-! ## Well-formed base relations and the table computed from them -/

/-- The candidates point into the universe (what the joins with `pend_step` guarantee). -/
def WF (b : Base) : Prop :=
  b.ids.Nodup ∧ (∀ fb ∈ b.fileBlock, fb.2 ∈ b.ids) ∧ (∀ r ∈ b.resBlock, r.step ∈ b.ids) ∧
    (∀ u ∈ b.unsafeAnc, u.dst ∈ b.ids)

theorem stepBlock_dst (b : Base) (hw : WF b) : ∀ e ∈ stepBlock b, e.2 ∈ b.ids := by
  intro e he
  unfold stepBlock at he
  have := (mem_dedup _ _).mp he
  rcases List.mem_append.mp this with h | h
  · obtain ⟨fb, hfb, hin⟩ := List.mem_flatMap.mp h
    obtain ⟨p, _, rfl⟩ := List.mem_map.mp hin
    exact hw.2.1 fb hfb
  · obtain ⟨u, hu, rfl⟩ := List.mem_map.mp h
    exact hw.2.2.2 u (List.mem_filter.mp hu).1

theorem cands_dst (b : Base) (hw : WF b) : ∀ c ∈ cands b, c.dst ∈ b.ids := by
  intro c hc
  unfold cands at hc
  simp only [List.mem_append, List.mem_flatMap, List.mem_map, List.mem_filter] at hc
  rcases hc with (((((⟨fb, hfb, df, _, rfl⟩ | ⟨r, hr, rfl⟩) | ⟨fb, hfb, p, _, rfl⟩) | ⟨u, ⟨hu, _⟩, rfl⟩) |
    ⟨s, ⟨hs, _⟩, rfl⟩) | ⟨u, ⟨hu, _⟩, rfl⟩) | ⟨e, he, rfl⟩
  · exact hw.2.1 fb hfb
  · exact hw.2.2.1 r hr
  · exact hw.2.1 fb hfb
  · exact hw.2.2.2 u hu
  · exact List.mem_map_of_mem hs
  · exact hw.2.2.2 u hu
  · exact stepBlock_dst b hw e he

/-- `pend_blocker` as computed from the base relations. -/
def blockerOf (b : Base) : List Blk := pendBlocker b.ids (cands b)

/-- The root kinds in priority order (regenerated values). -/
def rootKinds : List Nat := [rootFile, rootResource, rootFailed, rootDeferred, rootOther, rootRunnable]

theorem cands_kind (b : Base) : ∀ c ∈ cands b, c.kind ∈ rootKinds ∨ c.kind = blockStep := by
  intro c hc
  unfold cands at hc
  simp only [List.mem_append, List.mem_flatMap, List.mem_map, List.mem_filter] at hc
  rcases hc with (((((⟨_, _, _, _, rfl⟩ | ⟨_, _, rfl⟩) | ⟨_, _, _, _, rfl⟩) | ⟨_, _, rfl⟩) |
    ⟨_, _, rfl⟩) | ⟨_, _, rfl⟩) | ⟨_, _, rfl⟩ <;> simp [rootKinds]

theorem blockerOf_kind (b : Base) : ∀ x ∈ blockerOf b, x.kind ∈ rootKinds ∨ x.kind = blockStep := by
  intro x hx
  unfold blockerOf pendBlocker at hx
  rcases List.mem_append.mp hx with hp | hr
  · obtain ⟨c, hc, _, hk, _⟩ := mem_primary hp
    rw [← hk]; exact cands_kind b c hc
  · unfold runnable at hr
    obtain ⟨i, _, rfl⟩ := List.mem_map.mp hr
    left; simp [rootKinds]

/-! ## Sums under sorting and filtering -/

theorem sum_insertBy {α} (lt : α → α → Bool) (f : α → Nat) (x : α) (l : List α) :
    ((insertBy lt x l).map f).sum = f x + (l.map f).sum := by
  induction l with
  | nil => simp [insertBy]
  | cons y ys ih =>
    simp only [insertBy]
    split
    · simp only [List.map_cons, List.sum_cons, ih]; omega
    · simp

theorem sum_sortBy {α} (lt : α → α → Bool) (f : α → Nat) (l : List α) :
    ((sortBy lt l).map f).sum = (l.map f).sum := by
  induction l with
  | nil => simp [sortBy]
  | cons x xs ih =>
    have : sortBy lt (x :: xs) = insertBy lt x (sortBy lt xs) := rfl
    rw [this, sum_insertBy, ih]
    simp

theorem sum_filter_le {α} (p : α → Bool) (f : α → Nat) (l : List α) :
    ((l.filter p).map f).sum ≤ (l.map f).sum := by
  induction l with
  | nil => simp
  | cons x xs ih =>
    by_cases h : p x <;> simp [h] <;> omega

end StepupModel.P.Pending
