import StepupModel.B.Windows
/-!
Helper lemmas about the association lists of `B/Windows.lean` (no property statements).
-/
namespace StepupModel.B.Windows

theorem lookup_dropOlder (t : Table) (oldest k v : Nat) (h : lookup t k = some v) (hv : oldest ≤ v) :
    lookup (dropOlder t oldest) k = some v := by
  induction t with
  | nil => simp [lookup] at h
  | cons a as ih =>
    obtain ⟨ak, av⟩ := a
    simp only [lookup] at h
    by_cases hk : ak = k
    · simp only [hk, if_true, Option.some.injEq] at h
      subst h
      have : ¬ av < oldest := by omega
      simp only [dropOlder, this, if_false, lookup, hk, if_true]
    · simp only [hk, if_false] at h
      by_cases hold : av < oldest
      · simp only [dropOlder, hold, if_true]; exact ih h
      · simp only [dropOlder, hold, if_false, lookup, hk]; exact ih h

theorem lookup_erase_ne (t : Table) (i k : Nat) (h : k ≠ i) : lookup (erase t i) k = lookup t k := by
  induction t with
  | nil => rfl
  | cons a as ih =>
    obtain ⟨ak, av⟩ := a
    by_cases ha : ak = i
    · have hk : ¬ ak = k := fun e => h (e ▸ ha)
      simp only [erase, ha, if_true, lookup]
      have hik : ¬ i = k := fun e => h e.symm
      simp only [hik, if_false]
      exact ih
    · by_cases hk : ak = k
      · subst hk
        simp only [erase, ha, if_false, lookup, if_true]
      · simp only [erase, ha, if_false, lookup, hk]; exact ih

theorem lookup_erase_self (t : Table) (i : Nat) : lookup (erase t i) i = none := by
  induction t with
  | nil => rfl
  | cons a as ih =>
    obtain ⟨ak, av⟩ := a
    by_cases ha : ak = i
    · simp only [erase, ha, if_true]; exact ih
    · simp only [erase, ha, if_false, lookup]; exact ih

theorem lookup_append (t u : Table) (k : Nat) :
    lookup (t ++ u) k = match lookup t k with | some v => some v | none => lookup u k := by
  induction t with
  | nil => rfl
  | cons a as ih =>
    obtain ⟨ak, av⟩ := a
    by_cases hk : ak = k
    · simp only [List.cons_append, lookup, hk, if_true]
    · simp only [List.cons_append, lookup, hk, if_false]; exact ih

theorem lookup_set_self (t : Table) (i v : Nat) : lookup (set t i v) i = some v := by
  unfold set
  rw [lookup_append, lookup_erase_self]
  simp [lookup]

theorem lookup_set_ne (t : Table) (i v k : Nat) (h : k ≠ i) : lookup (set t i v) k = lookup t k := by
  unfold set
  rw [lookup_append, lookup_erase_ne t i k h]
  cases lookup t k with
  | some w => rfl
  | none =>
    have : ¬ i = k := fun e => h e.symm
    simp [lookup, this]

theorem mem_of_lookup (t : Table) (k v : Nat) (h : lookup t k = some v) : (k, v) ∈ t := by
  induction t with
  | nil => simp [lookup] at h
  | cons a as ih =>
    obtain ⟨ak, av⟩ := a
    simp only [lookup] at h
    by_cases hk : ak = k
    · simp only [hk, if_true, Option.some.injEq] at h
      subst h; subst hk
      exact List.mem_cons_self
    · simp only [hk, if_false] at h
      exact List.mem_cons_of_mem _ (ih h)

theorem minTime_le (t : Table) (m : Nat) (h : minTime t = some m) : ∀ e ∈ t, m ≤ e.2 := by
  induction t generalizing m with
  | nil => intro e he; cases he
  | cons a as ih =>
    obtain ⟨ak, av⟩ := a
    intro e he
    simp only [minTime] at h
    cases hm : minTime as with
    | none =>
      simp only [hm, Option.some.injEq] at h
      subst h
      rcases List.mem_cons.mp he with rfl | he'
      · exact Nat.le_refl _
      · cases as with
        | nil => cases he'
        | cons b bs =>
          obtain ⟨bk, bv⟩ := b
          simp only [minTime] at hm
          cases hmb : minTime bs <;> simp [hmb] at hm
    | some m' =>
      simp only [hm, Option.some.injEq] at h
      rcases List.mem_cons.mp he with rfl | he'
      · subst h
        by_cases hle : av ≤ m'
        · simp [hle]
        · simp only [hle, if_false]; omega
      · have := ih m' hm e he'
        subst h
        by_cases hle : av ≤ m'
        · simp only [hle, if_true]; omega
        · simpa [hle] using this

theorem minTime_some_of_mem (t : Table) (e : Nat × Nat) (h : e ∈ t) : ∃ m, minTime t = some m := by
  cases t with
  | nil => cases h
  | cons a as =>
    obtain ⟨ak, av⟩ := a
    simp only [minTime]
    cases minTime as with
    | none => exact ⟨_, rfl⟩
    | some m' => exact ⟨_, rfl⟩

end StepupModel.B.Windows
