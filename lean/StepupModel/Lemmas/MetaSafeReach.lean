import StepupModel.Lemmas.MetaSafe
import StepupModel.Lemmas.MetaAfter
import StepupModel.Lemmas.ReachAcy
/-!
# `_update_meta_safe` in the pipeline of `_update_meta` / `pop_next_job` and in reachable states

Continues `Lemmas/MetaSafe.lean` (same namespace).

* `updateMeta_safe_correct`, `updateMeta_no_hang`: the two later stages of `_update_meta` do not write
  what the safe columns depend on (`SameSafe`), so the conclusions of `updateMetaSafe_spec` hold for the
  state on which `SELECT_NEXT_STEP` runs.
* **`popNext_job_creators`**: a step handed out by `pop_next_job` has every recursive step creator
  RUNNING or SUCCEEDED and holding nothing, or it has a recorded hash and every recursive step creator
  is RUNNING or SUCCEEDED.
* Reachable states.  `Lemmas/Reach.lean` gives `Forest` and `AttachedWF` after every history, which
  covers the creator links among attached rows only; the walks of `FILL_SAFE_UPDATE` also start at
  detached steps.  `Lemmas/ReachAcy.lean` (with `ReachAcySkel`, `ReachAcyLift`) adds the missing half:
  `CreatorAcyclic` after every history, which needs the guard of `Node.reattach`.  Hence
  **`stepCreatorWF_reachable`**, **`updateMetaSafe_reachable_no_hang`** (no `hang`, unconditionally),
  **`updateMeta_reachable_no_hang`**, **`updateMetaSafe_reachable`** (under the flag discipline: frame,
  flags, local equations, value of the specification), **`popNext_job_creators_reachable`**.
  `stepCreatorWF_of_forest` records how the two halves (`AttachedWF`, `DetachedStepWF`) combine.
-/
namespace StepupModel.K.MetaSafe
open StepupModel.K.MetaAfter (AfterFrame eraseAfter)

/-! ## The later stages of `_update_meta` -/

theorem safeView_of_eraseAfter {a b : Node} (h : eraseAfter a = eraseAfter b) : safeView a = safeView b := by
  have h1 := congrArg Node.key h
  have h2 := congrArg Node.creator h
  have h3 := congrArg Node.sstate h
  have h4 := congrArg Node.holding h
  have h5 := congrArg Node.safe h
  have h6 := congrArg Node.safeNH h
  simp only [eraseAfter] at h1 h2 h3 h4 h5 h6
  unfold safeView
  rw [h1, h2, h3, h4, h5, h6]

theorem AfterFrame.sameSafe {s s' : KState} (h : AfterFrame s s') : SameSafe s s' :=
  map_eq_of_pointwise eraseAfter safeView (fun _ _ => safeView_of_eraseAfter) _ _ h.2.2

theorem sameSafe_updateMetaReady (s : KState) : SameSafe s s.updateMetaReady := by
  unfold SameSafe KState.updateMetaReady KState.modifyWhere
  simp only [List.map_map]
  apply List.map_congr_left
  intro n _
  simp only [Function.comp]
  split <;> rfl

/-- The stages of `_update_meta`. -/
theorem updateMeta_stages {s su : KState} {cfg : KConfig} (h : s.updateMeta cfg = .ok su) :
    ∃ s1 s2, s.updateMetaSafe = .ok s1 ∧ s1.updateMetaAfter cfg = .ok s2 ∧ su = s2.updateMetaReady := by
  unfold KState.updateMeta at h
  simp only [bind, Except.bind] at h
  cases h1 : s.updateMetaSafe with
  | error e => simp [h1] at h
  | ok s1 =>
    simp only [h1] at h
    cases h2 : s1.updateMetaAfter cfg with
    | error e => simp [h2] at h
    | ok s2 =>
      simp only [h2, pure, Except.pure, Except.ok.injEq] at h
      exact ⟨s1, s2, rfl, h2, h.symm⟩

/-- **`_update_meta` as a whole, safe columns.**  One row per key, acyclic step-creator links, the flag
discipline in its weakest form: in the state on which `SELECT_NEXT_STEP` runs every step satisfies
both local equations, equals the specification, and the links are still acyclic. -/
theorem updateMeta_safe_correct {s su : KState} {cfg : KConfig} (hk : KeysUnique s) (hwf : StepCreatorWF s)
    (hc : CacheInvSafeW s) (h : s.updateMeta cfg = .ok su) :
    SafeConsistent su ∧ StepCreatorWF su ∧ KeysUnique su ∧
      (∀ n ∈ su.nodes, n.key.kind = .step → n.safe = safeSpec su n ∧ n.safeNH = safeNHSpec su n) := by
  obtain ⟨s1, s2, h1, h2, rfl⟩ := updateMeta_stages h
  have hcons1 := updateMetaSafe_correct hk (noSelfStep_of_wf hwf) hc h1
  have hst1 := (updateMetaSafe_frame h1).struct
  have hsafe : SameSafe s1 s2.updateMetaReady :=
    (AfterFrame.sameSafe (MetaAfter.updateMetaAfter_frame s1 s2 cfg h2)).trans (sameSafe_updateMetaReady s2)
  have hcons := safeConsistent_safe hsafe hcons1
  have hstruct : SameStruct s s2.updateMetaReady := hst1.trans hsafe.struct
  have hwf' := stepCreatorWF_struct hstruct hwf
  exact ⟨hcons, hwf', keysUnique_struct hstruct hk, safeConsistent_unique hwf' hcons⟩

/-- `_update_meta` ends when the step-creator links and the dependency table are acyclic. -/
theorem updateMeta_no_hang {s : KState} (cfg : KConfig) (hk : KeysUnique s) (hwf : StepCreatorWF s)
    (hac : Acyclic s) : ∃ su, s.updateMeta cfg = .ok su := by
  obtain ⟨s1, h1⟩ := updateMetaSafe_no_hang hk hwf
  exact MetaAfter.updateMeta_no_after_hang s s1 cfg hac h1

/-- **Dispatch.**  A step handed out by `pop_next_job` (one row per key, acyclic step-creator links,
flag discipline before the call) has every recursive step creator RUNNING or SUCCEEDED and holding
nothing; or it has a recorded hash (the job only checks it: `checking = true`) and every recursive
step creator is RUNNING or SUCCEEDED.  The creators are those of the state right after
`_update_meta`, which has the creator links, states and hold counters of the state before. -/
theorem popNext_job_creators {s s' : KState} {cfg : KConfig} {k : Key} {d : Dispatch}
    (hk : KeysUnique s) (hwf : StepCreatorWF s) (hc : CacheInvSafeW s)
    (h : s.popNext cfg (some k) = .ok (s', d)) :
    ∃ su n, s.updateMeta cfg = .ok su ∧ SameStruct s su ∧ n ∈ su.nodes ∧ n.key = k ∧
      ((∀ a, StrictAnc su a n → a.sstate.active = true ∧ a.holding = 0) ∨
       (n.hasHash = true ∧ (∃ run, d = .job k true run) ∧ ∀ a, StrictAnc su a n → a.sstate.active = true)) := by
  obtain ⟨su, n, hu, hn, hkey, hel, run, hd⟩ := MetaAfter.popNext_job_eligible s s' cfg k d h
  obtain ⟨hcons, hwf', _, _⟩ := updateMeta_safe_correct hk hwf hc hu
  obtain ⟨s1, s2, h1, h2, rfl⟩ := updateMeta_stages hu
  have hstruct : SameStruct s s2.updateMetaReady :=
    (updateMetaSafe_frame h1).struct.trans
      ((AfterFrame.sameSafe (MetaAfter.updateMetaAfter_frame s1 s2 cfg h2)).trans (sameSafe_updateMetaReady s2)).struct
  refine ⟨_, n, hu, hstruct, hn, hkey, ?_⟩
  rcases eligible_creators hwf' hcons hn hel with h3 | ⟨hh, h3⟩
  · exact .inl h3
  · exact .inr ⟨hh, ⟨run, by rw [hd, hh]⟩, h3⟩

/-! ## Reachable states -/

/-- The step-creator links among detached steps have no cycle.  (`Lemmas/Reach.lean` proves the
attached half, `AttachedWF`, for every history; this half follows from `Lemmas/ReachAcy.lean`.) -/
def DetachedStepWF (s : KState) : Prop :=
  WellFounded fun c k => StepLink s c k ∧ ∃ n ∈ s.nodes, n.key = k ∧ n.detached = true

/-- Attached and detached steps do not mix along creator links (`CreatorOK`), so the two halves give
the whole. -/
theorem stepCreatorWF_of_forest {s : KState} (hf : Forest s) (ha : AttachedWF s) (hd : DetachedStepWF s) :
    StepCreatorWF s := by
  obtain ⟨hk0, _, hroot, hii, hiii⟩ := hf
  have hk : KeysUnique s := (keysNodup_iff s).1 hk0
  -- the two restricted relations
  have accA : ∀ k, (∀ n ∈ s.nodes, n.key = k → n.detached = false) → Acc (StepLink s) k := by
    intro k
    refine ha.induction (C := fun k => (∀ n ∈ s.nodes, n.key = k → n.detached = false) → Acc (StepLink s) k) k ?_
    intro k ih hatt
    refine Acc.intro k ?_
    intro c hl
    obtain ⟨n, cn, hn, hnk, hst, hsc, hck⟩ := id hl
    obtain ⟨c1, c2, c3⟩ := stepCreator_some hsc
    have hnd := hatt n hn hnk
    have hroot' : n.key ≠ rootKey := by
      intro he
      rw [hnk] at he
      rw [he] at hst
      cases hst
    obtain ⟨c', cn', hc', hf', hcd⟩ := hii n hn hroot' hnd
    rw [c3] at hc'
    have hcc : c' = cn.key := (Option.some.inj hc').symm
    subst hcc
    have hcn : cn' = cn := by
      have := find?_of_mem hk c1
      rw [this] at hf'
      exact (Option.some.inj hf').symm
    subst hcn
    refine ih c ⟨by rw [← hnk]; exact hroot', n, ?_, hnd, by rw [c3, hck]⟩ ?_
    · rw [← hnk]; exact find?_of_mem hk hn
    · intro m hm hmk
      have : m = cn' := node_uniq hk hm c1 (by rw [hmk, hck])
      rw [this]; exact hcd
  have accD : ∀ k, (∃ n ∈ s.nodes, n.key = k ∧ n.detached = true) → Acc (StepLink s) k := by
    intro k
    refine hd.induction (C := fun k => (∃ n ∈ s.nodes, n.key = k ∧ n.detached = true) → Acc (StepLink s) k) k ?_
    intro k ih hdet
    refine Acc.intro k ?_
    intro c hl
    obtain ⟨n, cn, hn, hnk, hst, hsc, hck⟩ := id hl
    obtain ⟨c1, c2, c3⟩ := stepCreator_some hsc
    obtain ⟨m, hm, hmk, hmd⟩ := hdet
    have hmn : m = n := node_uniq hk hm hn (by rw [hmk, hnk])
    subst hmn
    have hcd := hiii m hm hmd cn.key c3 cn (find?_of_mem hk c1)
    exact ih c ⟨hl, m, hm, hmk, hmd⟩ ⟨cn, c1, hck, hcd⟩
  refine WellFounded.intro fun k => ?_
  by_cases hex : ∃ n ∈ s.nodes, n.key = k ∧ n.detached = true
  · exact accD k hex
  · refine accA k ?_
    intro n hn hnk
    cases hdn : n.detached with
    | false => rfl
    | true => exact absurd ⟨n, hn, hnk, hdn⟩ hex

/-- Step-creator links are creator links. -/
theorem stepCreatorWF_of_acyclic {s : KState} (h : CreatorAcyclic s) : StepCreatorWF s := by
  refine Subrelation.wf ?_ h
  intro c k hl
  obtain ⟨n, cn, hn, hk, hst, hsc, hck⟩ := hl
  obtain ⟨_, _, h3⟩ := stepCreator_some hsc
  have hkr : k.kind ≠ Kind.root := by
    rw [hst]; intro hh; cases hh
  exact ⟨hkr, n, hn, hk, by rw [h3, hck]⟩

/-- **After every history of accepted and rejected requests the step-creator links have no cycle**,
among attached and detached steps alike. -/
theorem stepCreatorWF_reachable (h : List (KConfig × Req)) : StepCreatorWF (KState.init.run h) :=
  stepCreatorWF_of_acyclic (creatorAcyclic_reachable h)

theorem detachedStepWF_reachable (h : List (KConfig × Req)) : DetachedStepWF (KState.init.run h) :=
  Subrelation.wf (fun {_ _} hl => hl.1) (stepCreatorWF_reachable h)

theorem keysUnique_reachable (h : List (KConfig × Req)) : KeysUnique (KState.init.run h) :=
  keysNodup_reachable h

/-- **Termination in reachable states**: `_update_meta_safe` never hangs after any history. -/
theorem updateMetaSafe_reachable_no_hang (h : List (KConfig × Req)) :
    ∃ s', (KState.init.run h).updateMetaSafe = .ok s' :=
  updateMetaSafe_no_hang (keysUnique_reachable h) (stepCreatorWF_reachable h)

/-- `_update_meta` as a whole never hangs after any history (creator links and dependency table are
both acyclic). -/
theorem updateMeta_reachable_no_hang (h : List (KConfig × Req)) (cfg : KConfig) :
    ∃ su, (KState.init.run h).updateMeta cfg = .ok su :=
  updateMeta_no_hang cfg (keysUnique_reachable h) (stepCreatorWF_reachable h) (acyclic_reachable h)

/-- **Reachable states.**  After every history whose cache obeys the flag discipline (weakest form),
`_update_meta_safe` ends, changes only its three columns, clears all flags, and leaves in every step
row the value of the specification. -/
theorem updateMetaSafe_reachable (h : List (KConfig × Req)) (hc : CacheInvSafeW (KState.init.run h)) :
    ∃ s', (KState.init.run h).updateMetaSafe = .ok s' ∧ SafeFrame (KState.init.run h) s' ∧
      (∀ n ∈ s'.nodes, n.key.kind = .step →
        n.checkSafe = false ∧ SafeLocal s' n ∧ SafeNHLocal s' n ∧ n.safe = safeSpec s' n ∧ n.safeNH = safeNHSpec s' n) := by
  have hwf := stepCreatorWF_reachable h
  have hk := keysUnique_reachable h
  obtain ⟨s', h1, h2, h3⟩ := updateMetaSafe_spec hk hwf hc
  obtain ⟨h4, _⟩ := updateMetaSafe_eq_spec hk hwf hc h1
  refine ⟨s', h1, h2, fun n hn hst => ?_⟩
  obtain ⟨a, b, c⟩ := h3 n hn hst
  obtain ⟨d, e⟩ := h4 n hn hst
  exact ⟨a, b, c, d, e⟩

/-- **Dispatch in reachable states.**  After a history whose cache obeys the flag discipline, a step
handed out by `pop_next_job` has every recursive step creator RUNNING or SUCCEEDED and holding nothing,
or it has a recorded hash, is only checked, and every recursive step creator is RUNNING or SUCCEEDED. -/
theorem popNext_job_creators_reachable (h : List (KConfig × Req)) (hc : CacheInvSafeW (KState.init.run h))
    {s' : KState} {cfg : KConfig} {k : Key} {d : Dispatch}
    (hp : (KState.init.run h).popNext cfg (some k) = .ok (s', d)) :
    ∃ su n, (KState.init.run h).updateMeta cfg = .ok su ∧ SameStruct (KState.init.run h) su ∧ n ∈ su.nodes ∧ n.key = k ∧
      ((∀ a, StrictAnc su a n → a.sstate.active = true ∧ a.holding = 0) ∨
       (n.hasHash = true ∧ (∃ run, d = .job k true run) ∧ ∀ a, StrictAnc su a n → a.sstate.active = true)) :=
  popNext_job_creators (keysUnique_reachable h) (stepCreatorWF_reachable h) hc hp

/-! Non-vacuity: the empty workflow. -/

example : ∃ s', (KState.init.run []).updateMetaSafe = .ok s' := updateMetaSafe_reachable_no_hang []

end StepupModel.K.MetaSafe
