import StepupModel.Lemmas.ReachDesc
/-!
# Lifting a predicate of the creator forest through every kernel request

`SkStable Q` lists what a predicate `Q` of the list of `(key, creator, detached)` triples has to
survive: the seven ways the kernel rewrites the creator forest (`detach` of an attached or of a
detached row, `reattach`, the recycling and the fresh branch of `Trellis.create`, the hand-over of
`register_static_tree`, one pass of `delete_detached`), each under the guards the code provides at
that point.  Every operation of the kernel model is then shown to keep `Q s.skel`, up to
`KState.exec`, `KState.step`, `KState.run`.  The operations that do not write `creator`/`detached` are covered by
the frame lemma of `Lemmas/ReachFrame.lean`; the composite ones are the proofs of
`Lemmas/Stable.lean` with the new leaves.  `detach` of the root needs no side condition: the CHECKs
of the `node` table (`creatorAllowed`) reject the write, so the request is rejected as a whole.
No property statements here.  (The section "Composite operations" is re-synced with
`Lemmas/Stable.lean` by `notes/reach_regen.py` when the kernel model changes.)
-/
namespace StepupModel.K
open StepupModel.Lemmas Sk
set_option linter.unusedSimpArgs false
set_option linter.unusedVariables false

structure SkStable (Q : List Tri → Prop) : Prop where
  /-- `Q` contains the local invariant of the creator forest -/
  ok : ∀ l, Q l → Sk.OK l
  /-- `Node.detach` of an attached row: the link is cut, the flag goes to the recursive products -/
  detachAtt : ∀ (l : List Tri) (k ck : Key) (D : Key → Bool), Q l → k ≠ rootKey → (k, some ck, false) ∈ l →
    (∀ x, D x = true ↔ Desc (setRow k none true l) k x) → Q (setD D true (setRow k none true l))
  /-- `Node.detach` of a detached row: the link is cut -/
  detachDet : ∀ (l : List Tri) (k : Key) (ck : Option Key), Q l → (k, ck, true) ∈ l → Q (setRow k none true l)
  /-- `Node.reattach` of a detached row to an existing creator of an accepted kind: the row and its
  recursive products get the flag of the creator -/
  reattach : ∀ (l : List Tri) (k : Key) (ck : Option Key) (c : Key) (d : Bool) (D : Key → Bool), Q l →
    (k, ck, true) ∈ l → c ≠ k → Has l c → creatorKindOk k.kind c.kind = true → (d = false ↔ Att l c) →
    (∀ x, D x = true ↔ Desc (setRow k (some c) d l) k x) → Q (setD D d (setRow k (some c) d l))
  /-- the recycling branch of `Trellis.create`: new creator and flag, old products cut loose -/
  recycle : ∀ (l : List Tri) (k : Key) (ck newc : Option Key) (d : Bool), Q l → (k, ck, true) ∈ l →
    FitsRow l k newc d → (∀ c, newc = some c → creatorKindOk k.kind c.kind = true) →
    Q (cut k (setRow k newc d l))
  /-- the fresh branch of `Trellis.create` -/
  append : ∀ (l : List Tri) (k : Key) (newc : Option Key) (d : Bool), Q l → ¬ Has l k →
    (∀ c, newc = some c → Has l c ∧ creatorKindOk k.kind c.kind = true) →
    (d = false ↔ ∃ c, newc = some c ∧ Att l c) → Q (l ++ [(k, newc, d)])
  /-- `register_static_tree` takes over attached files for its attached tree -/
  hand : ∀ (l : List Tri) (tk : Key) (hs : List Key), Q l → Att l tk → tk.kind = .st →
    (∀ h ∈ hs, h.kind = .file) → (∀ t ∈ l, t.1 ∈ hs → t.2.2 = false) → Q (hand tk hs l)
  /-- one pass of `Trellis.delete_detached`: detached rows without products go -/
  filter : ∀ (l : List Tri) (D : Key → Bool), Q l → (∀ t ∈ l, D t.1 = true → t.2.2 = true) →
    (∀ t ∈ l, D t.1 = true → ∀ u ∈ l, u.2.1 = some t.1 → u.1 = t.1) → Q (l.filter fun t => !D t.1)

/-- The state predicate that goes with `Q`. -/
def PQ (Q : List Tri → Prop) (s : KState) : Prop := Q s.skel

namespace SkStable
variable {Q : List Tri → Prop}

theorem nodup (L : SkStable Q) {s : KState} (hp : PQ Q s) : Sk.Nodup s.skel := (L.ok _ hp).nodup

theorem pq_of_skel {s s' : KState} (h : s'.skel = s.skel) (hp : PQ Q s) : PQ Q s' := by
  unfold PQ at *
  rw [h]; exact hp

/-- Operations that leave the creator forest alone keep `PQ Q`. -/
theorem toFrame (L : SkStable Q) : FrameL (PQ Q) where
  cache s p f hf hp := pq_of_skel ((frameL_skel s.skel (L.nodup hp)).cache s p f hf rfl) hp
  fileWrite s k n n' st nh hf hw hp := pq_of_skel ((frameL_skel s.skel (L.nodup hp)).fileWrite s k n n' st nh hf hw rfl) hp
  fileInit s k st h1 h2 hp := pq_of_skel ((frameL_skel s.skel (L.nodup hp)).fileInit s k st h1 h2 rfl) hp
  stepWrite s k n n' st d hf hw hp := pq_of_skel ((frameL_skel s.skel (L.nodup hp)).stepWrite s k n n' st d hf hw rfl) hp
  stepInit s k i hp := pq_of_skel ((frameL_skel s.skel (L.nodup hp)).stepInit s k i rfl) hp
  setHash s k h hp := pq_of_skel ((frameL_skel s.skel (L.nodup hp)).setHash s k h rfl) hp
  deleteHash s k hp := pq_of_skel ((frameL_skel s.skel (L.nodup hp)).deleteHash s k rfl) hp
  bumpDefer s k hp := pq_of_skel ((frameL_skel s.skel (L.nodup hp)).bumpDefer s k rfl) hp
  hold s k hp := pq_of_skel ((frameL_skel s.skel (L.nodup hp)).hold s k rfl) hp
  release s k n hf hne hp := pq_of_skel ((frameL_skel s.skel (L.nodup hp)).release s k n hf hne rfl) hp
  recycled s k need shell hp := pq_of_skel ((frameL_skel s.skel (L.nodup hp)).recycled s k need shell rfl) hp
  addDep s src snk h1 h2 hp := hp
  filterDeps s p hp := hp
  markDyn s src snk dyn hp := hp
  queueDelete s path h hp := hp
  clearQueue s hp := hp

/-- The frame lemma in the form used below: an operation that keeps "the forest is `X`" keeps it. -/
theorem skel_eq_of_frame {f : KState → M KState} (hF : ∀ X, Sk.Nodup X → Preserves (fun s => s.skel = X) f)
    {s s' : KState} (hn : Sk.Nodup s.skel) (h : f s = .ok s') : s'.skel = s.skel :=
  hF s.skel hn s s' rfl h

/-! ### `detach` -/

theorem detachFlags_skel {s s' : KState} (k : Key) (hn : Sk.Nodup s.skel) (h : s.detachFlags k = .ok s') :
    s'.skel = s.skel :=
  (frameL_skel s.skel hn).detachFlags_preserves k s s' rfl h

theorem lostProduct_skel {s s' : KState} (old : Option Key) (hn : Sk.Nodup s.skel) (h : s.lostProduct old = .ok s') :
    s'.skel = s.skel :=
  (frameL_skel s.skel hn).lostProduct_preserves old s s' rfl h

theorem flagIfStep_skel {s s' : KState} (k : Key) (hn : Sk.Nodup s.skel) (h : s.flagIfStep k = .ok s') :
    s'.skel = s.skel :=
  (frameL_skel s.skel hn).flagIfStep_preserves k s s' rfl h

/-- The forest after `Node.detach` (without the flags of `Step.detach`). -/
theorem detachCore_skel {s s' : KState} {k : Key} {n : Node} (hf : s.find? k = some n)
    (h : s.detachCore k n = .ok s') :
    (n.creator = none ∧ s'.skel = s.skel) ∨
    (∃ ck, n.creator = some ck ∧ n.detached = true ∧ s'.skel = setRow k none true s.skel) ∨
    (∃ ck D, n.creator = some ck ∧ n.detached = false ∧ k ≠ rootKey ∧
      (∀ x, D x = true ↔ Desc (setRow k none true s.skel) k x) ∧
      s'.skel = setD D true (setRow k none true s.skel)) := by
  unfold KState.detachCore at h
  cases hc : n.creator with
  | none =>
    simp only [hc, Option.isSome_none, Bool.false_eq_true, if_false, pure, Except.pure, Except.ok.injEq] at h
    subst h; exact Or.inl ⟨rfl, rfl⟩
  | some ck =>
    simp only [hc, Option.isSome_some, if_true] at h
    right
    cases h1 : s.setCreator k none true with
    | error e => simp [h1, bind, Except.bind] at h
    | ok s1 =>
      simp only [h1, bind, Except.bind, pure, Except.pure, Except.ok.injEq] at h
      obtain ⟨hs1, hall⟩ := skel_setCreator h1
      have hk : k ≠ rootKey := fun hk => (creatorAllowed_none hall).2 (by rw [hk]; rfl)
      cases hd : n.detached with
      | true =>
        simp only [hd, Bool.not_true, Bool.false_eq_true, if_false] at h
        subst h
        exact Or.inl ⟨ck, rfl, rfl, hs1⟩
      | false =>
        simp only [hd, Bool.not_false, if_true] at h
        subst h
        refine Or.inr ⟨ck, fun x => (s1.descendants k).contains x, rfl, rfl, hk, ?_, ?_⟩
        · intro x; rw [descendants_contains, hs1]
        · rw [skel_setDetachedRec, hs1]

theorem detachCore_pq (L : SkStable Q) (k : Key) (n : Node) (s s' : KState) (hf : s.find? k = some n)
    (hp : PQ Q s) (h : s.detachCore k n = .ok s') : PQ Q s' := by
  unfold PQ at *
  have hrow := find?_row hf
  rcases detachCore_skel hf h with ⟨_, h1⟩ | ⟨ck, hc, hd, h1⟩ | ⟨ck, D, hc, hd, hk, hD, h1⟩
  · rw [h1]; exact hp
  · rw [h1]; rw [hd] at hrow; exact L.detachDet _ k _ hp hrow
  · rw [h1]; rw [hc, hd] at hrow; exact L.detachAtt _ k ck D hp hk hrow hD

/-- `Node.detach` (+ `Step.detach`); on the root the write is rejected. -/
theorem detach_preserves (L : SkStable Q) (k : Key) : Preserves (PQ Q) (fun s => s.detach k) := by
  intro s s' hp h
  replace h : s.detach k = .ok s' := h
  unfold KState.detach at h
  cases hf : s.find? k with
  | none => simp [hf] at h
  | some n =>
    simp only [hf] at h
    refine bind_ok h (fun s1 h1 => L.detachCore_pq k n s s1 hf hp h1) ?_
    exact L.toFrame.detachFlags_preserves k

/-- `Node.detach` of a detached row only cuts its link. -/
theorem detach_det_skel {s s' : KState} {k : Key} {c : Option Key} (hn : Sk.Nodup s.skel)
    (hrow : (k, c, true) ∈ s.skel) (h : s.detach k = .ok s') : s'.skel = setRow k none true s.skel := by
  unfold KState.detach at h
  obtain ⟨n, hf, hcr, hdet⟩ := find?_of_row hn hrow
  simp only [hf] at h
  cases h1 : s.detachCore k n with
  | error e => simp [h1, bind, Except.bind] at h
  | ok s1 =>
    simp only [h1, bind, Except.bind] at h
    have hs1 : s1.skel = setRow k none true s.skel := by
      rcases detachCore_skel hf h1 with ⟨hc, h2⟩ | ⟨ck, _, _, h2⟩ | ⟨ck, D, _, hd, _, _, _⟩
      · rw [h2]
        unfold setRow
        symm
        conv => rhs; rw [← List.map_id s.skel]
        apply List.map_congr_left
        intro t ht
        by_cases htk : t.1 = k
        · rw [if_pos htk]
          have := Sk.uniq hn ht hrow htk
          rw [this, ← hcr, hc]; rfl
        · rw [if_neg htk]; rfl
      · exact h2
      · rw [hdet] at hd; cases hd
    have hn1 : Sk.Nodup s1.skel := by rw [hs1]; exact nodup_map _ (setRow_key k none true) hn
    rw [detachFlags_skel k hn1 h, hs1]

/-- The products of a detached row are detached. -/
theorem products_detached {l : List Tri} (h : Sk.OK l) {k : Key} {ck : Option Key} (hrow : (k, ck, true) ∈ l) :
    ∀ t ∈ l, t.2.1 = some k → t.1 ≠ k → t.2.2 = true := by
  have hnk : ¬ Att l k := not_att_of_detached h hrow
  intro t ht hc hne
  have hroot : t.1 ≠ rootKey := by
    intro hr
    have := Sk.uniq h.nodup ht h.root hr
    rw [this] at hc
    simp only [Option.some.injEq] at hc
    exact hne (hr.trans hc)
  cases hd : t.2.2 with
  | true => rfl
  | false =>
    obtain ⟨c, hc', hac⟩ := (h.loc t ht hroot).1 hd
    rw [hc] at hc'
    simp only [Option.some.injEq] at hc'
    subst hc'; exact absurd hac hnk

theorem map_id_of {l : List Tri} (g : Tri → Tri) (hg : ∀ t ∈ l, g t = t) : l.map g = l := by
  conv => rhs; rw [← List.map_id l]
  apply List.map_congr_left
  intro t ht; rw [hg t ht]; rfl

/-- Detaching, one after the other, rows that are detached already: each loses its creator. -/
theorem foldlM_detach_det_skel (ps : List Node) (u u' : KState) (hn : Sk.Nodup u.skel)
    (hdet : ∀ p ∈ ps, ∃ c, (p.key, c, true) ∈ u.skel)
    (h : ps.foldlM (fun s p => s.detach p.key) u = .ok u') :
    u'.skel = u.skel.map (fun t => if (ps.map (·.key)).contains t.1 then (t.1, none, true) else t) := by
  induction ps generalizing u with
  | nil =>
    simp only [List.foldlM_nil, pure, Except.pure, Except.ok.injEq] at h
    subst h
    symm
    apply map_id_of
    intro t _
    simp
  | cons p ps ih =>
    simp only [List.foldlM_cons, bind, Except.bind] at h
    cases hx : u.detach p.key with
    | error e => simp [hx] at h
    | ok u1 =>
      simp only [hx] at h
      obtain ⟨c, hc⟩ := hdet p List.mem_cons_self
      have hu1 : u1.skel = setRow p.key none true u.skel := detach_det_skel hn hc hx
      have hn1 : Sk.Nodup u1.skel := by rw [hu1]; exact nodup_map _ (setRow_key _ none true) hn
      have hdet1 : ∀ q ∈ ps, ∃ c, (q.key, c, true) ∈ u1.skel := by
        intro q hq
        obtain ⟨c', hc'⟩ := hdet q (List.mem_cons_of_mem _ hq)
        rw [hu1]
        by_cases hqp : q.key = p.key
        · rw [hqp]; exact ⟨none, mem_setRow_self none true ⟨_, hc, rfl⟩⟩
        · exact ⟨c', mem_setRow_of_ne none true hc' hqp⟩
      rw [ih u1 hn1 hdet1 h, hu1]
      unfold setRow
      rw [List.map_map]
      apply List.map_congr_left
      intro t _
      simp only [Function.comp, List.map_cons, List.contains_cons]
      by_cases hx : t.1 = p.key
      · simp [hx]
      · have : (t.1 == p.key) = false := by simpa using hx
        simp only [hx, if_false, this, Bool.false_or]

/-- `detachProducts k` on a state in which the products of `k` are detached already. -/
theorem detachProducts_skel {u u' : KState} {k : Key} (hn : Sk.Nodup u.skel)
    (hdet : ∀ t ∈ u.skel, t.2.1 = some k → t.1 ≠ k → t.2.2 = true)
    (h : u.detachProducts k = .ok u') : u'.skel = cut k u.skel := by
  unfold KState.detachProducts at h
  have hmem : ∀ p, p ∈ u.products k ↔ p ∈ u.nodes ∧ p.creator = some k ∧ p.key ≠ k := by
    intro p
    unfold KState.products
    rw [List.mem_filter]
    simp only [decide_eq_true_eq]
  rw [foldlM_detach_det_skel (u.products k) u u' hn ?_ h]
  · unfold cut
    apply List.map_congr_left
    intro t ht
    have hiff : (List.map (fun x => x.key) (u.products k)).contains t.1 = true ↔ (t.2.1 = some k ∧ t.1 ≠ k) := by
      rw [List.contains_iff_mem, List.mem_map]
      constructor
      · rintro ⟨p, hp, hpk⟩
        obtain ⟨hp1, hp2, hp3⟩ := (hmem p).1 hp
        have := Sk.uniq hn (mem_skel_of_mem hp1) ht hpk
        rw [← this]
        exact ⟨hp2, hp3⟩
      · rintro ⟨h1, h2⟩
        obtain ⟨n, hn', rfl⟩ := List.mem_map.1 ht
        exact ⟨n, (hmem n).2 ⟨hn', h1, h2⟩, rfl⟩
    by_cases hc : t.2.1 = some k ∧ t.1 ≠ k
    · rw [if_pos (hiff.2 hc), if_pos hc]
    · have : ¬ (List.map (fun x => x.key) (u.products k)).contains t.1 = true := fun h' => hc (hiff.1 h')
      rw [if_neg this, if_neg hc]
  · intro p hp
    obtain ⟨hp1, hp2, hp3⟩ := (hmem p).1 hp
    have := hdet _ (mem_skel_of_mem hp1) hp2 hp3
    refine ⟨p.creator, ?_⟩
    have hm := mem_skel_of_mem hp1
    unfold Node.tri at hm this
    simp only at this
    rw [this] at hm
    exact hm

/-! ### `reattach` -/

/-- A new creator accepted for a detached row, with the flag that goes with it: another, existing
row of an accepted kind (the root row is never detached, so its own rule does not apply). -/
theorem allowed_some_of_detached {s : KState} (hok : Sk.OK s.skel) {k c : Key} {ck : Option Key} {d : Bool}
    (hrow : (k, ck, true) ∈ s.skel) (hall : s.creatorAllowed k (some c) d = true) (hd : d = false ↔ Att s.skel c) :
    c ≠ k ∧ Has s.skel c ∧ creatorKindOk k.kind c.kind = true := by
  rcases creatorAllowed_some hall with ⟨_, hck, hdf⟩ | ⟨_, h1, h2, h3⟩
  · exact absurd (hck ▸ hd.1 hdf) (not_att_of_detached hok hrow)
  · exact ⟨h1, h2, h3⟩

theorem reattachCore_pq (L : SkStable Q) (k c : Key) (n : Node) (s s' : KState) (hf : s.find? k = some n)
    (hd : n.detached = true) (hp : PQ Q s) (h : s.reattachCore k c n = .ok s') : PQ Q s' := by
  have hn := L.nodup hp
  have hok := L.ok _ hp
  have hrow := find?_row hf
  rw [hd] at hrow
  unfold KState.reattachCore at h
  dsimp only at h
  cases h1 : s.setCreator k (some c) (s.isDetached c) with
  | error e => simp [h1, bind, Except.bind] at h
  | ok s1 =>
    simp only [h1, bind, Except.bind] at h
    obtain ⟨hs1, hall⟩ := skel_setCreator h1
    obtain ⟨hck, hhas, hkind⟩ := allowed_some_of_detached hok hrow hall (isDetached_false_iff hn c)
    have hn1 : Sk.Nodup s1.skel := by rw [hs1]; exact nodup_map _ (setRow_key _ _ _) hn
    cases h2 : s1.lostProduct n.creator with
    | error e => simp [h2] at h
    | ok s2 =>
      simp only [h2] at h
      have hs2 : s2.skel = setRow k (some c) (s.isDetached c) s.skel := (lostProduct_skel _ hn1 h2).trans hs1
      have hn3 : Sk.Nodup (s2.setDetachedRec k (s.isDetached c)).skel := by
        rw [skel_setDetachedRec]; exact nodup_map _ (setD_key _ _) (by rw [hs2]; exact nodup_map _ (setRow_key _ _ _) hn)
      unfold PQ
      rw [flagIfStep_skel k hn3 h, skel_setDetachedRec, hs2]
      refine L.reattach _ k _ c _ _ hp hrow hck hhas hkind (isDetached_false_iff hn c) ?_
      intro x
      rw [descendants_contains, hs2]

theorem reattach_preserves (L : SkStable Q) (k c : Key) : Preserves (PQ Q) (fun s => s.reattach k c) := by
  intro s s' hp h
  replace h : s.reattach k c = .ok s' := h
  unfold KState.reattach at h
  cases hf : s.find? k with
  | none => simp [hf] at h
  | some n =>
    simp only [hf] at h
    split at h
    · cases h
    · rename_i hdet
      split at h
      · cases h
      · exact L.reattachCore_pq k c n s s' hf (by simpa using hdet) hp h

/-! ### `Trellis.create` -/

/-- What `Trellis.create` does to the creator forest: a fresh row, or a recycled one. -/
def CreateSpec (l l' : List Tri) (k : Key) (creator : Option Key) (d : Bool) : Prop :=
  (d = false ↔ ∃ c, creator = some c ∧ Att l c) ∧
  (∀ c, creator = some c → Has l c ∧ creatorKindOk k.kind c.kind = true) ∧
  ((¬ Has l k ∧ l' = l ++ [(k, creator, d)]) ∨
   (∃ ck, (k, ck, true) ∈ l ∧ FitsRow l k creator d ∧ l' = cut k (setRow k creator d l)))

theorem fitsRow_of_allowed {s : KState} (hok : Sk.OK s.skel) {k : Key} {ck creator : Option Key}
    (hrow : (k, ck, true) ∈ s.skel) (hall : s.creatorAllowed k creator (s.creatorDetached creator) = true) :
    FitsRow s.skel k creator (s.creatorDetached creator) ∧
      (∀ c, creator = some c → Has s.skel c ∧ creatorKindOk k.kind c.kind = true) := by
  have hn := hok.nodup
  have key : ∀ c, creator = some c → c ≠ k ∧ Has s.skel c ∧ creatorKindOk k.kind c.kind = true := by
    intro c hc
    subst hc
    exact allowed_some_of_detached hok hrow hall (isDetached_false_iff hn c)
  exact ⟨⟨fun c hc => ⟨(key c hc).1, (key c hc).2.1⟩, creatorDetached_false_iff hn creator⟩,
    fun c hc => ⟨(key c hc).2.1, (key c hc).2.2⟩⟩

theorem recycleCore_skel (L : SkStable Q) {s s' : KState} {k : Key} {n : Node} {creator : Option Key} {init : Init}
    (hi : InitOK init) (hp : PQ Q s) (hf : s.find? k = some n) (hd : n.detached = true)
    (h : s.recycleCore k n creator init = .ok s') :
    CreateSpec s.skel s'.skel k creator (s.creatorDetached creator) := by
  have hn := L.nodup hp
  have hok := L.ok _ hp
  have hrow := find?_row hf
  rw [hd] at hrow
  unfold KState.recycleCore at h
  cases h1 : s.setCreator k creator (s.creatorDetached creator) with
  | error e => simp [h1, bind, Except.bind] at h
  | ok s1 =>
    simp only [h1, bind, Except.bind] at h
    obtain ⟨hs1, hall⟩ := skel_setCreator h1
    obtain ⟨hfits, hkind⟩ := fitsRow_of_allowed hok hrow hall
    have hn1 : Sk.Nodup s1.skel := by rw [hs1]; exact nodup_map _ (setRow_key _ _ _) hn
    cases h2 : s1.lostProduct n.creator with
    | error e => simp [h2] at h
    | ok s2 =>
      simp only [h2] at h
      have hs2 : s2.skel = s1.skel := lostProduct_skel _ hn1 h2
      cases h3 : (s2.deleteDeps fun dp => decide (dp.snk = k)).detachProducts k with
      | error e => simp [h3] at h
      | ok s3 =>
        simp only [h3] at h
        have hsd : (s2.deleteDeps fun dp => decide (dp.snk = k)).skel = setRow k creator (s.creatorDetached creator) s.skel := by
          rw [skel_deleteDeps, hs2, hs1]
        have hs3 : s3.skel = cut k (setRow k creator (s.creatorDetached creator) s.skel) := by
          rw [← hsd]
          refine detachProducts_skel (by rw [hsd, ← hs1]; exact hn1) ?_ h3
          rw [hsd]
          intro t ht hc hne
          rcases mem_setRow ht with ⟨rfl, _⟩ | ⟨hm, _⟩
          · exact absurd rfl hne
          · exact products_detached hok hrow t hm hc hne
        have hn3 : Sk.Nodup s3.skel := by
          rw [hs3]; exact nodup_map _ (cut_key k) (nodup_map _ (setRow_key _ _ _) hn)
        have hs' : s'.skel = s3.skel := (frameL_skel s3.skel hn3).initRow_preserves k init true hi s3 s' rfl h
        exact ⟨hfits.2, hkind, Or.inr ⟨_, hrow, hfits, by rw [hs', hs3]⟩⟩

theorem create_skel (L : SkStable Q) {s s' : KState} {k : Key} {creator : Option Key} {init : Init}
    (hi : InitOK init) (hp : PQ Q s) (h : s.create k creator init = .ok s') :
    CreateSpec s.skel s'.skel k creator (s.creatorDetached creator) := by
  have hn := L.nodup hp
  unfold KState.create at h
  cases hf : s.find? k with
  | some n =>
    simp only [hf] at h
    split at h
    · cases h
    · rename_i hdet
      split at h
      · cases h
      · exact L.recycleCore_skel hi hp hf (by simpa using hdet) h
  | none =>
    simp only [hf] at h
    split at h
    · rename_i hins
      have hna : Sk.Nodup (s.appendNode k creator).skel := by
        rw [(skNodup_iff _)]
        exact stable_keysNodup.appendNode s k creator hf hins ((skNodup_iff s).1 hn)
      have hs' : s'.skel = (s.appendNode k creator).skel :=
        (frameL_skel _ hna).initRow_preserves k init false hi _ s' rfl h
      refine ⟨creatorDetached_false_iff hn creator, ?_, Or.inl ⟨(find?_none_iff s k).1 hf, by rw [hs', skel_appendNode]⟩⟩
      intro c hc
      subst hc
      exact insertAllowed_some hins
    · cases h

theorem q_of_createSpec (L : SkStable Q) {l l' : List Tri} {k : Key} {creator : Option Key} {d : Bool}
    (hq : Q l) (h : CreateSpec l l' k creator d) : Q l' := by
  obtain ⟨hd, hk, h3⟩ := h
  rcases h3 with ⟨hfresh, rfl⟩ | ⟨ck, hrow, hfits, rfl⟩
  · exact L.append l k creator d hq hfresh hk hd
  · exact L.recycle l k ck creator d hq hrow hfits (fun c hc => (hk c hc).2)

/-- The flags after `Trellis.create`: only the created row may have changed. -/
theorem att_of_createSpec {l l' : List Tri} (hok : Sk.OK l) {k : Key} {creator : Option Key} {d : Bool}
    (h : CreateSpec l l' k creator d) :
    (∀ x, x ≠ k → (Att l' x ↔ Att l x)) ∧ (Att l' k ↔ ∃ c, creator = some c ∧ Att l c) := by
  obtain ⟨hd, hk, h3⟩ := h
  rcases h3 with ⟨hfresh, rfl⟩ | ⟨ck, hrow, hfits, rfl⟩
  · refine ⟨fun x hx => att_append_ne creator d hx, ?_⟩
    rw [← hd]
    unfold Att
    constructor
    · rintro ⟨t, ht, htk, htd⟩
      simp only [List.mem_append, List.mem_singleton] at ht
      rcases ht with ht | rfl
      · exact absurd ⟨t, ht, htk⟩ hfresh
      · exact htd
    · intro hd'
      exact ⟨(k, creator, d), List.mem_append_right _ (List.mem_singleton.2 rfl), rfl, hd'⟩
  · obtain ⟨_, h2, h3⟩ := ok_recycle hok hrow hfits
    exact ⟨h2, by rw [← hd]; exact h3⟩

theorem create_preserves (L : SkStable Q) (k : Key) (creator : Option Key) (init : Init) (hi : InitOK init) :
    Preserves (PQ Q) (fun s => s.create k creator init) := by
  intro s s' hp h
  exact L.q_of_createSpec hp (L.create_skel hi hp h)

/-! ### `register_static_tree`: the hand-over -/

theorem mapM_ok_mem {α β : Type} (f : α → M β) (l : List α) (r : List β) (h : l.mapM f = .ok r) :
    ∀ y ∈ r, ∃ x ∈ l, f x = .ok y := by
  induction l generalizing r with
  | nil =>
    simp only [List.mapM_nil, pure, Except.pure, Except.ok.injEq] at h
    subst h; intro y hy; cases hy
  | cons a as ih =>
    rw [List.mapM_cons] at h
    simp only [bind, Except.bind] at h
    cases ha : f a with
    | error e => simp [ha] at h
    | ok b =>
      simp only [ha] at h
      cases has : List.mapM f as with
      | error e => simp [has] at h
      | ok bs =>
        simp only [has, pure, Except.pure, Except.ok.injEq] at h
        subst h
        intro y hy
        simp only [List.mem_cons] at hy
        rcases hy with rfl | hy
        · exact ⟨a, List.mem_cons_self, ha⟩
        · obtain ⟨x, hx, hfx⟩ := ih bs has y hy
          exact ⟨x, List.mem_cons_of_mem _ hx, hfx⟩

theorem treeGuard_spec {s : KState} {creator : Key} {path : String} {hs : List Key}
    (h : s.treeGuard creator path = .ok (some hs)) :
    ∀ k ∈ hs, ∃ n ∈ s.nodes, n.key = k ∧ n.key.kind = .file ∧ n.detached = false ∧ n.creator = some creator := by
  unfold KState.treeGuard at h
  simp only [bind, Except.bind] at h
  cases ho : s.owningTree path with
  | error e => simp [ho] at h
  | ok ot =>
    simp only [ho] at h
    have key : ∀ (hs : List Key), ((List.mapM
                (fun (n : Node) =>
                  if n.fstate.role? ≠ some FileRole.static then (graphErr "tree contains product" : M Key)
                  else if n.creator ≠ some creator then graphErr "tree contains file of other creator" else pure n.key)
                ((List.filter
              (fun n => decide (n.key.kind = Kind.file ∧ (!n.detached) = true ∧ n.key.label.startsWith path = true))
              s.nodes).mergeSort fun a b => decide (a.key.label ≤ b.key.label))) = .ok hs) →
        ∀ k ∈ hs, ∃ n ∈ s.nodes, n.key = k ∧ n.key.kind = .file ∧ n.detached = false ∧ n.creator = some creator := by
      intro hs hm k hk
      obtain ⟨n, hn, hfn⟩ := mapM_ok_mem _ _ _ hm k hk
      rw [List.mem_mergeSort, List.mem_filter] at hn
      obtain ⟨hn1, hn2⟩ := hn
      simp only [decide_eq_true_eq, Bool.not_eq_true'] at hn2
      split at hfn
      · simp [graphErr] at hfn
      · split at hfn
        · simp [graphErr] at hfn
        · rename_i hcr
          simp only [pure, Except.pure, Except.ok.injEq] at hfn
          exact ⟨n, hn1, hfn, hn2.1, hn2.2.1, by simpa using hcr⟩
    cases ot with
    | some t =>
      dsimp only at h
      split at h
      · simp [pure, Except.pure] at h
      · split at h
        · simp [graphErr] at h
        · simp [graphErr] at h
    | none =>
      dsimp only at h
      split at h
      · simp [graphErr] at h
      · cases hm : (List.mapM
                (fun (n : Node) =>
                  if n.fstate.role? ≠ some FileRole.static then (graphErr "tree contains product" : M Key)
                  else if n.creator ≠ some creator then graphErr "tree contains file of other creator" else pure n.key)
                ((List.filter
              (fun n => decide (n.key.kind = Kind.file ∧ (!n.detached) = true ∧ n.key.label.startsWith path = true))
              s.nodes).mergeSort fun a b => decide (a.key.label ≤ b.key.label))) with
        | error e => rw [hm] at h; simp at h
        | ok hs' =>
          rw [hm] at h
          simp only [pure, Except.pure, Except.ok.injEq, Option.some.injEq] at h
          subst h
          exact key hs' hm

theorem hand_nil (tk : Key) (l : List Tri) : Sk.hand tk [] l = l := by
  unfold Sk.hand
  apply map_id_of
  intro t _
  simp

/-- Creating the tree node and handing the attached files of its creator over to it. -/
theorem treeCreateHandOver_pq (L : SkStable Q) {s s1 : KState} {creator : Key} {path : String} {hs : List Key}
    (hp : PQ Q s) (hg : s.treeGuard creator path = .ok (some hs))
    (h1 : s.create (treeKey path) (some creator) .tree = .ok s1) : PQ Q (s1.handOver (treeKey path) hs) := by
  have hp1 : PQ Q s1 := L.create_preserves _ _ .tree trivial s s1 hp h1
  unfold PQ at *
  rw [skel_handOver]
  cases hs with
  | nil => rw [hand_nil]; exact hp1
  | cons h0 hs0 =>
    have hok := L.ok _ hp
    have hspec := treeGuard_spec hg
    have hcs := L.create_skel (init := .tree) trivial hp h1
    obtain ⟨hatt_ne, hatt_k⟩ := att_of_createSpec hok hcs
    -- the rows handed over are attached files of `creator`
    have hrows : ∀ h ∈ h0 :: hs0, h.kind = .file ∧ (h, some creator, false) ∈ s.skel := by
      intro h hh
      obtain ⟨n, hn, hk, hkind, hdet, hcr⟩ := hspec h hh
      refine ⟨hk ▸ hkind, ?_⟩
      have := mem_skel_of_mem hn
      unfold Node.tri at this
      rw [hk, hdet, hcr] at this
      exact this
    -- so `creator` is attached
    have hcreator : Att s.skel creator := by
      obtain ⟨hkind, hrow⟩ := hrows h0 List.mem_cons_self
      have hroot : h0 ≠ rootKey := by
        intro hr; rw [hr] at hkind; cases hkind
      obtain ⟨c, hc, hac⟩ := (hok.loc _ hrow hroot).1 rfl
      simp only [Option.some.injEq] at hc
      subst hc; exact hac
    have htk : Att s1.skel (treeKey path) := hatt_k.2 ⟨creator, rfl, hcreator⟩
    refine L.hand _ _ _ hp1 htk rfl (fun h hh => (hrows h hh).1) ?_
    intro t ht hth
    obtain ⟨hkind, hrow⟩ := hrows t.1 hth
    have hne : t.1 ≠ treeKey path := by
      intro he; rw [he] at hkind; cases hkind
    have hat : Att s1.skel t.1 := (hatt_ne t.1 hne).2 ⟨_, hrow, rfl, rfl⟩
    exact (att_iff_of_mem (L.nodup hp1) ht).1 hat

/-! ### `Trellis.delete_detached`: one pass -/

theorem deletePass_preserves (L : SkStable Q) (s : KState) (r : KState × List Key × Bool) (hp : PQ Q s)
    (h : s.deletePass = .ok r) : PQ Q r.1 := by
  obtain ⟨s', cs, b⟩ := r
  unfold PQ at *
  have hn := L.nodup hp
  rw [skel_deletePass h]
  refine L.filter s.skel (fun x => (s.cands.map (·.key)).contains x) hp ?_ ?_
  · intro t ht hD
    rw [List.contains_iff_mem, List.mem_map] at hD
    obtain ⟨a, ha, hak⟩ := hD
    obtain ⟨ham, _, hdet, _⟩ := mem_cands s a ha
    have := Sk.uniq hn (mem_skel_of_mem ham) ht hak
    rw [← this]; exact hdet
  · intro t ht hD u hu huc
    rw [List.contains_iff_mem, List.mem_map] at hD
    obtain ⟨a, ha, hak⟩ := hD
    have hprod := mem_cands_products s a ha
    obtain ⟨m, hm, rfl⟩ := List.mem_map.1 hu
    have := hprod m.core (List.mem_map.2 ⟨m, hm, rfl⟩)
    cases hdec : decide (m.tri.1 = t.1) with
    | true => exact of_decide_eq_true hdec
    | false =>
      exfalso
      apply this
      refine ⟨?_, ?_⟩
      · show m.creator = some a.key
        rw [hak]; exact huc
      · show m.key ≠ a.key
        rw [hak]; exact of_decide_eq_false hdec

/-! ## Composite operations (the proofs of `Lemmas/Stable.lean` with the new leaves) -/

theorem detachCreatedSteps_preserves (L : SkStable Q) (k : Key) : Preserves (PQ Q) (fun s => s.detachCreatedSteps k) := by
  intro s s' hp h
  replace h : s.detachCreatedSteps k = .ok s' := h
  unfold KState.detachCreatedSteps at h
  exact foldlM_preserves (PQ Q) _ _ (fun (p : Node) => L.detach_preserves p.key) s s' hp h

theorem detachProductsWhere_preserves (L : SkStable Q) (k : Key) (p : Node → Bool) :
    Preserves (PQ Q) (fun s => s.detachProductsWhere k p) := by
  intro s s' hp h
  replace h : s.detachProductsWhere k p = .ok s' := h
  unfold KState.detachProductsWhere at h
  exact foldlM_preserves (PQ Q) _ _ (fun (n : Node) => L.detach_preserves n.key) s s' hp h

theorem dropDynamicSink_preserves (L : SkStable Q) (step k : Key) : Preserves (PQ Q) (fun s => s.dropDynamicSink step k) := by
  intro s s' hp h
  replace h : s.dropDynamicSink step k = .ok s' := h
  unfold KState.dropDynamicSink at h
  exact L.detach_preserves k _ s' (L.toFrame.deleteDeps s _ hp) h

/-- `Step.reset_for_rerun` preserves every stable predicate. -/
theorem resetForRerun_preserves (L : SkStable Q) (k : Key) : Preserves (PQ Q) (fun s => s.resetForRerun k) := by
  intro s s' hp h
  replace h : s.resetForRerun k = .ok s' := h
  unfold KState.resetForRerun at h
  dsimp only at h
  refine bind_ok h (fun s2 h2 => ?_) ?_
  · exact foldlM_preserves (PQ Q) _ _ (fun t => L.dropDynamicSink_preserves k t) _ s2
      (L.toFrame.dropDynamicInputs s k hp) h2
  · intro s2 s2' hp2 hh2
    refine bind_ok hh2 (fun s3 h3 => L.detachCreatedSteps_preserves k s2 s3 hp2 h3) ?_
    intro s3 s3' hp3 hh3
    refine bind_ok hh3 (fun s4 h4 => L.detachProductsWhere_preserves k _ s3 s4 hp3 h4) ?_
    intro s4 s4' hp4 hh4
    refine bind_ok hh4 (fun s5 h5 => L.detachProductsWhere_preserves k _ s4 s5 hp4 h5) ?_
    exact L.toFrame.outdateBuilt_preserves k

theorem completeFailure_preserves (L : SkStable Q) (cfg : KConfig) (k : Key) (wd : Bool) :
    Preserves (PQ Q) (fun s => s.completeFailure cfg k wd) := by
  intro s s' hp h
  replace h : s.completeFailure cfg k wd = .ok s' := h
  unfold KState.completeFailure at h
  refine bind_ok h (fun s1 h1 => L.toFrame.outdateBuiltProducts_preserves k s s1 hp h1) ?_
  intro s1 s1' hp1 hh1
  refine bind_ok hh1 (fun s2 h2 => ?_) ?_
  · have hb : (PQ Q) (s1.bumpDeferCount k wd) := by
      unfold KState.bumpDeferCount
      split
      · exact L.toFrame.bumpDefer _ _ hp1
      · exact hp1
    unfold KState.writeFailureState at h2
    split at h2
    · exact L.toFrame.setStepState_preserves k .pending _ _ s2 hb h2
    · exact L.toFrame.setStepState_preserves k .failed false _ s2 hb h2
  · intro s2 s2' hp2 hh2
    refine bind_ok hh2 (fun s3 h3 => ?_) ?_
    · unfold KState.detachCreatedIfFailed at h3
      split at h3
      · exact L.detachCreatedSteps_preserves k s2 s3 hp2 h3
      · simp only [pure, Except.pure, Except.ok.injEq] at h3; subst h3; exact hp2
    · exact preserves_pure _ (fun s hs => L.toFrame.deleteHash s k hs)

/-- `Step.mark_completed` preserves every stable predicate (both outcomes, with or without a
deferral). -/
theorem markCompleted_preserves (L : SkStable Q) (cfg : KConfig) (k : Key) (nh : Option Nat) (wd : Bool) (s s' : KState) (b : Bool)
    (hp : (PQ Q) s) (h : s.markCompleted cfg k nh wd = .ok (s', b)) : (PQ Q) s' := by
  unfold KState.markCompleted at h
  cases nh with
  | none =>
    simp only [bind, Except.bind] at h
    cases h1 : s.completeFailure cfg k wd with
    | error e => simp [h1] at h
    | ok s1 =>
      simp only [h1, pure, Except.pure, Except.ok.injEq, Prod.mk.injEq] at h
      obtain ⟨rfl, _⟩ := h
      exact L.completeFailure_preserves cfg k wd s s1 hp h1
  | some hh =>
    simp only [bind, Except.bind] at h
    cases h1 : s.completeSuccess cfg k hh with
    | error e => simp [h1] at h
    | ok s1 =>
      simp only [h1, pure, Except.pure, Except.ok.injEq, Prod.mk.injEq] at h
      obtain ⟨rfl, _⟩ := h
      exact L.toFrame.completeSuccess_preserves cfg k hh s s1 hp h1

theorem detachProducts_preserves (L : SkStable Q) (k : Key) : Preserves (PQ Q) (fun s => s.detachProducts k) := by
  intro s s' hp h
  replace h : s.detachProducts k = .ok s' := h
  unfold KState.detachProducts at h
  exact foldlM_preserves (PQ Q) _ _ (fun (p : Node) => L.detach_preserves p.key) s s' hp h

theorem declareFile_preserves (L : SkStable Q) (cfg : KConfig) (creator : Key) (p : String) (st : FileState) :
    Preserves (PQ Q) (fun s => s.declareFile cfg creator p st) := by
  intro s s' hp h
  replace h : s.declareFile cfg creator p st = .ok s' := h
  unfold KState.declareFile at h
  refine bind_ok_gen h (fun _ => Generated.Enums.declarableStates.contains st = true) ?_ (PQ Q) ?_
  · intro _ hg
    unfold KState.declareFileGuard at hg
    by_cases hd : Generated.Enums.declarableStates.contains st = true
    · exact hd
    · rw [if_neg hd] at hg; cases hg
  · intro _ s2 hd hh
    refine bind_ok hh (fun s1 h1 => ?_) (L.toFrame.volatileSinkCheck_preserves p st)
    exact L.create_preserves _ _ (.file st) (declarable_noHash hd) s s1 hp h1

theorem declareAll_preserves (L : SkStable Q) (cfg : KConfig) (todo : List (Key × String)) (st : FileState) :
    Preserves (PQ Q) (fun s => s.declareAll cfg todo st) := by
  intro s s' hp h
  replace h : s.declareAll cfg todo st = .ok s' := h
  unfold KState.declareAll at h
  exact foldlM_preserves (PQ Q) (fun (acc : KState) (dp : Key × String) => acc.declareFile cfg dp.1 dp.2 st) todo
    (fun dp => L.declareFile_preserves cfg dp.1 dp.2 st) s s' hp h

theorem declareStaticFiles_preserves (L : SkStable Q) (cfg : KConfig) (creator : Key) (paths : List String) (s : KState)
    (r : KState × List String) (hp : (PQ Q) s) (h : s.declareStaticFiles cfg creator paths = .ok r) : (PQ Q) r.1 := by
  unfold KState.declareStaticFiles at h
  refine bind_ok_gen h (fun _ => True) (fun _ _ => trivial) (fun r => (PQ Q) r.1) ?_
  intro todo r1 _ hh
  refine bind_ok_gen hh (PQ Q) (fun a ha => L.declareAll_preserves cfg todo _ s a hp ha) (fun r => (PQ Q) r.1) ?_
  intro a b ha hb
  simp only [pure, Except.pure, Except.ok.injEq] at hb
  subst hb; exact ha

theorem registerTreeBody_preserves (L : SkStable Q) (cfg : KConfig) (creator : Key) (path : String) (g : Option (List Key)) (s : KState)
    (r : KState × List String) (hp : PQ Q s) (hg : s.treeGuard creator path = .ok g)
    (h : s.registerTreeBody cfg creator path g = .ok r) : PQ Q r.1 := by
  cases g with
  | none =>
    simp only [KState.registerTreeBody, pure, Except.pure, Except.ok.injEq] at h
    subst h; exact hp
  | some hs =>
    simp only [KState.registerTreeBody] at h
    refine bind_ok_gen h (fun s1 => PQ Q (s1.handOver (treeKey path) hs))
      (fun s1 h1 => L.treeCreateHandOver_pq hp hg h1) (fun r => PQ Q r.1) ?_
    intro s1 r1 hp1 hh
    exact L.declareStaticFiles_preserves cfg _ _ _ r1 hp1 hh

theorem registerStaticTree_preserves (L : SkStable Q) (cfg : KConfig) (creator : Key) (path : String) (s : KState)
    (r : KState × List String) (hp : PQ Q s) (h : s.registerStaticTree cfg creator path = .ok r) : PQ Q r.1 := by
  unfold KState.registerStaticTree at h
  refine bind_ok_gen h (fun _ => True) (fun _ _ => trivial) (fun r => PQ Q r.1) ?_
  intro _ r1 _ hh
  refine bind_ok_gen hh (fun g => s.treeGuard creator (addSlash path) = .ok g) (fun g hg => hg) (fun r => PQ Q r.1) ?_
  intro g r2 hg hh2
  exact L.registerTreeBody_preserves cfg creator _ g s r2 hp hg hh2

theorem adoptByTree_preserves (L : SkStable Q) (cfg : KConfig) (path : String) (t : Key) (s : KState) (r : KState × FileState × Bool)
    (hp : (PQ Q) s) (h : s.adoptByTree cfg path t = .ok r) : (PQ Q) r.1 := by
  unfold KState.adoptByTree at h
  refine bind_ok_gen h (fun _ => True) (fun _ _ => trivial) (fun r => (PQ Q) r.1) ?_
  intro _ r1 _ hh
  refine bind_ok_gen hh (PQ Q)
    (fun s1 h1 => L.create_preserves _ _ (.file .unconfirmed) (Or.inr (Or.inl rfl)) s s1 hp h1) (fun r => (PQ Q) r.1) ?_
  intro s1 r2 hp1 hh2
  simp only [pure, Except.pure, Except.ok.injEq] at hh2
  subst hh2; exact hp1

theorem placeholder_preserves (L : SkStable Q) (path : String) (s : KState) (r : KState × FileState × Bool)
    (hp : (PQ Q) s) (h : s.placeholder path = .ok r) : (PQ Q) r.1 := by
  unfold KState.placeholder at h
  refine bind_ok_gen h (PQ Q)
    (fun s1 h1 => L.create_preserves _ _ (.file .undeclared) (Or.inl rfl) s s1 hp h1) (fun r => (PQ Q) r.1) ?_
  intro s1 r2 hp1 hh2
  simp only [pure, Except.pure, Except.ok.injEq] at hh2
  subst hh2; exact hp1

theorem resolveWith_preserves (L : SkStable Q) (cfg : KConfig) (path : String) (tree : Option Key) (node : Option Node) (s : KState)
    (r : KState × FileState × Bool) (hp : (PQ Q) s) (h : s.resolveWith cfg path tree node = .ok r) : (PQ Q) r.1 := by
  cases tree with
  | some t =>
    simp only [KState.resolveWith] at h
    exact L.adoptByTree_preserves cfg path t s r hp h
  | none =>
    cases node with
    | none =>
      simp only [KState.resolveWith] at h
      split at h
      · simp [bind, Except.bind, throw, throwThe, MonadExceptOf.throw] at h
      · exact L.placeholder_preserves path s r hp h
    | some n =>
      simp only [KState.resolveWith] at h
      split at h
      · exact L.placeholder_preserves path s r hp h
      · refine bind_ok_gen h (fun _ => True) (fun _ _ => trivial) (fun r => (PQ Q) r.1) ?_
        intro _ r1 _ hh
        simp only [pure, Except.pure, Except.ok.injEq] at hh
        subst hh; exact hp

theorem resolveNode_preserves (L : SkStable Q) (cfg : KConfig) (path : String) (s : KState) (r : KState × FileState × Bool)
    (hp : (PQ Q) s) (h : s.resolveNode cfg path = .ok r) : (PQ Q) r.1 := by
  unfold KState.resolveNode at h
  refine bind_ok_gen h (fun _ => True) (fun _ _ => trivial) (fun r => (PQ Q) r.1) ?_
  intro tree r1 _ hh
  exact L.resolveWith_preserves cfg path tree _ s r1 hp hh

theorem resolveSupply_preserves (L : SkStable Q) (cfg : KConfig) (step : Key) (path : String) (rn : Bool) (s : KState)
    (r : KState × Supply) (hp : (PQ Q) s) (h : s.resolveSupply cfg step path rn = .ok r) : (PQ Q) r.1 := by
  unfold KState.resolveSupply at h
  refine bind_ok_gen h (fun a => (PQ Q) a.1) (fun a ha => L.resolveNode_preserves cfg path s a hp ha)
    (fun r => (PQ Q) r.1) ?_
  intro a r1 ha hh
  obtain ⟨s1, state, detached⟩ := a
  simp only at hh
  split at hh
  · simp [graphErr, bind, Except.bind] at hh
  · simp only [pure, Except.pure, bind, Except.bind, Except.ok.injEq] at hh
    subst hh; exact ha

theorem resolveAll_preserves (L : SkStable Q) (cfg : KConfig) (step : Key) (paths : List String) (rn : Bool) (s : KState)
    (r : KState × List Supply) (hp : (PQ Q) s) (h : s.resolveAll cfg step paths rn = .ok r) : (PQ Q) r.1 := by
  unfold KState.resolveAll at h
  refine foldlM_inv (fun (a : KState × List Supply) => (PQ Q) a.1) _ paths ?_ (s, []) r hp h
  intro a x b ha hb
  refine bind_ok_gen hb (fun c => (PQ Q) c.1) (fun c hc => L.resolveSupply_preserves cfg step x rn a.1 c ha hc)
    (fun r => (PQ Q) r.1) ?_
  intro c d hc hd
  obtain ⟨s', i⟩ := c
  simp only [pure, Except.pure, Except.ok.injEq] at hd
  subst hd; exact hc

theorem supplyFiles_preserves (L : SkStable Q) (cfg : KConfig) (step : Key) (paths : List String) (rn : Bool) (s : KState)
    (r : KState × List Supply) (hp : (PQ Q) s) (h : s.supplyFiles cfg step paths rn = .ok r) : (PQ Q) r.1 := by
  unfold KState.supplyFiles at h
  refine bind_ok_gen h (fun a => (PQ Q) a.1) (fun a ha => L.resolveAll_preserves cfg step paths rn s a hp ha)
    (fun r => (PQ Q) r.1) ?_
  intro a r1 ha hh
  obtain ⟨s1, infos⟩ := a
  simp only at hh
  split at hh
  · simp [bind, Except.bind, throw, throwThe, MonadExceptOf.throw] at hh
  · simp only [pure, Except.pure, bind, Except.bind] at hh
    refine bind_ok_gen hh (PQ Q) (fun s2 h2 => L.toFrame.insertNewEdges_preserves step infos s1 s2 ha h2) (fun r => (PQ Q) r.1) ?_
    intro s2 r2 hp2 hh2
    simp only [pure, Except.pure, Except.ok.injEq] at hh2
    subst hh2; exact hp2

theorem declareProduct_preserves (L : SkStable Q) (cfg : KConfig) (step : Key) (p : String) (st : FileState) :
    Preserves (PQ Q) (fun s => s.declareProduct cfg step p st) := by
  intro s s' hp h
  replace h : s.declareProduct cfg step p st = .ok s' := h
  unfold KState.declareProduct at h
  exact bind_ok h (fun s1 h1 => L.declareFile_preserves cfg step p st s s1 hp h1) (L.toFrame.addSourceChecked_preserves _ _)

theorem declareProducts_preserves (L : SkStable Q) (cfg : KConfig) (step : Key) (ps : List String) (st : FileState) :
    Preserves (PQ Q) (fun s => s.declareProducts cfg step ps st) := by
  intro s s' hp h
  replace h : s.declareProducts cfg step ps st = .ok s' := h
  unfold KState.declareProducts at h
  exact foldlM_preserves (PQ Q) (fun (acc : KState) (p : String) => acc.declareProduct cfg step p st) ps
    (fun p => L.declareProduct_preserves cfg step p st) s s' hp h

theorem recycleStep_preserves (L : SkStable Q) (sk creator : Key) (d : StepDecl) (n : Node) :
    Preserves (PQ Q) (fun s => s.recycleStep sk creator d n) := by
  intro s s' hp h
  replace h : s.recycleStep sk creator d n = .ok s' := h
  unfold KState.recycleStep at h
  refine bind_ok h (fun s1 h1 => L.reattach_preserves sk creator s s1 hp h1) ?_
  intro s1 s1' hp1 hh
  refine bind_ok hh (fun s3 h3 => L.toFrame.afterRecycle_preserves sk d n s1 s3 hp1 h3) ?_
  intro s3 s3' hp3 h4
  simp only [pure, Except.pure, Except.ok.injEq] at h4
  subst h4
  exact L.toFrame.setStepExtras _ _ _ hp3

theorem createStep_preserves (L : SkStable Q) (cfg : KConfig) (sk creator : Key) (d : StepDecl) (s : KState)
    (r : KState × List String) (hp : (PQ Q) s) (h : s.createStep cfg sk creator d = .ok r) : (PQ Q) r.1 := by
  unfold KState.createStep at h
  refine bind_ok_gen h (PQ Q) (fun s1 h1 => L.create_preserves _ _ (.step _) trivial s s1 hp h1) (fun r => (PQ Q) r.1) ?_
  intro s1 r1 hp1 hh
  have hp2 : (PQ Q) (s1.setStepExtras sk d) := L.toFrame.setStepExtras _ _ _ hp1
  refine bind_ok_gen hh (fun a => (PQ Q) a.1) (fun a ha => L.supplyFiles_preserves cfg sk d.inp true _ a hp2 ha)
    (fun r => (PQ Q) r.1) ?_
  intro a r2 ha hh2
  obtain ⟨s3, infos⟩ := a
  simp only at hh2
  have hp4 : (PQ Q) (s3.modify sk fun n => addEnvDeps cfg n d.env) := by
    refine L.toFrame.cacheAt _ _ _ (fun n => ?_) ha
    unfold addEnvDeps
    generalize d.env = names
    induction names generalizing n with
    | nil => rfl
    | cons x xs ih => simp only [List.foldl_cons]; exact (ih _).trans rfl
  refine bind_ok_gen hh2 (PQ Q) (fun s5 h5 => L.declareProducts_preserves cfg sk d.out .planned _ s5 hp4 h5)
    (fun r => (PQ Q) r.1) ?_
  intro s5 r3 hp5 hh3
  refine bind_ok_gen hh3 (PQ Q) (fun s6 h6 => L.declareProducts_preserves cfg sk d.vol .volatile _ s6 hp5 h6)
    (fun r => (PQ Q) r.1) ?_
  intro s6 r4 hp6 hh4
  simp only [pure, Except.pure, Except.ok.injEq] at hh4
  subst hh4; exact hp6

theorem defineStep_preserves (L : SkStable Q) (cfg : KConfig) (creator : Key) (d : StepDecl) (s : KState)
    (r : KState × List String) (hp : (PQ Q) s) (h : s.defineStep cfg creator d = .ok r) : (PQ Q) r.1 := by
  unfold KState.defineStep at h
  refine bind_ok_gen h (fun _ => True) (fun _ _ => trivial) (fun r => (PQ Q) r.1) ?_
  intro sk r1 _ hh
  split at hh
  · split at hh
    · refine bind_ok_gen hh (PQ Q) (fun s1 h1 => L.recycleStep_preserves sk creator _ _ s s1 hp h1) (fun r => (PQ Q) r.1) ?_
      intro s1 r2 hp1 hh2
      simp only [pure, Except.pure, Except.ok.injEq] at hh2
      subst hh2; exact hp1
    · refine bind_ok_gen hh (fun _ => True) (fun _ _ => trivial) (fun r => (PQ Q) r.1) ?_
      intro _ r2 _ hh2
      exact L.createStep_preserves cfg sk creator _ s r2 hp hh2
  · refine bind_ok_gen hh (fun _ => True) (fun _ _ => trivial) (fun r => (PQ Q) r.1) ?_
    intro _ r2 _ hh2
    exact L.createStep_preserves cfg sk creator _ s r2 hp hh2

theorem amendProducts_preserves (L : SkStable Q) (cfg : KConfig) (step : Key) (infos : List Supply) (env out vol : List String)
    (conc : List Key) (s1 : KState) (r : KState × AmendResult) (ha : (PQ Q) s1)
    (hh : s1.amendProducts cfg step infos env out vol conc = .ok r) : (PQ Q) r.1 := by
  unfold KState.amendProducts at hh
  have hp2 : (PQ Q) (s1.amendEnv cfg step env) := L.toFrame.amendEnv _ _ _ _ ha
  refine bind_ok_gen hh (fun _ => True) (fun _ _ => trivial) (fun r => (PQ Q) r.1) ?_
  intro out' r2 _ hh2
  refine bind_ok_gen hh2 (fun _ => True) (fun _ _ => trivial) (fun r => (PQ Q) r.1) ?_
  intro vol' r3 _ hh3
  refine bind_ok_gen hh3 (fun _ => True) (fun _ _ => trivial) (fun r => (PQ Q) r.1) ?_
  intro _ r4 _ hh4
  refine bind_ok_gen hh4 (fun _ => True) (fun _ _ => trivial) (fun r => (PQ Q) r.1) ?_
  intro _ r5 _ hh5
  refine bind_ok_gen hh5 (PQ Q) (fun s3 h3 => L.declareProducts_preserves cfg step out' .planned _ s3 hp2 h3)
    (fun r => (PQ Q) r.1) ?_
  intro s3 r6 hp3 hh6
  refine bind_ok_gen hh6 (PQ Q) (fun s4 h4 => L.declareProducts_preserves cfg step vol' .volatile _ s4 hp3 h4)
    (fun r => (PQ Q) r.1) ?_
  intro s4 r7 hp4 hh7
  simp only [pure, Except.pure, Except.ok.injEq] at hh7
  subst hh7
  exact L.toFrame.markDynamic _ _ hp4

theorem amendStep_preserves (L : SkStable Q) (cfg : KConfig) (step : Key) (inp env out vol : List String) (conc : List Key)
    (s : KState) (r : KState × AmendResult) (hp : (PQ Q) s)
    (h : s.amendStep cfg step inp env out vol conc = .ok r) : (PQ Q) r.1 := by
  unfold KState.amendStep at h
  refine bind_ok_gen h (fun _ => True) (fun _ _ => trivial) (fun r => (PQ Q) r.1) ?_
  intro _ r0 _ h0
  refine bind_ok_gen h0 (fun a => (PQ Q) a.1) (fun a ha => L.supplyFiles_preserves cfg step _ false s a hp ha)
    (fun r => (PQ Q) r.1) ?_
  intro a r1 ha hh
  obtain ⟨s1, infos⟩ := a
  exact L.amendProducts_preserves cfg step infos env out vol conc s1 r1 ha hh

theorem registerTrees_preserves (L : SkStable Q) (cfg : KConfig) (creator : Key) (trees : List String) (s : KState)
    (r : KState × List String) (hp : (PQ Q) s) (h : s.registerTrees cfg creator trees = .ok r) : (PQ Q) r.1 := by
  unfold KState.registerTrees at h
  refine foldlM_inv (fun (a : KState × List String) => (PQ Q) a.1) _ trees ?_ (s, []) r hp h
  intro a x b ha hb
  refine bind_ok_gen hb (fun c => (PQ Q) c.1) (fun c hc => L.registerStaticTree_preserves cfg creator x a.1 c ha hc)
    (fun r => (PQ Q) r.1) ?_
  intro c d hc hd
  obtain ⟨s', chk⟩ := c
  simp only [pure, Except.pure, Except.ok.injEq] at hd
  subst hd; exact hc

theorem declareStaticRequest_preserves (L : SkStable Q) (cfg : KConfig) (creator : Key) (trees files : List String)
    (patterns : List (String × List String)) (s : KState) (r : KState × List String) (hp : (PQ Q) s)
    (h : s.declareStaticRequest cfg creator trees files patterns = .ok r) : (PQ Q) r.1 := by
  unfold KState.declareStaticRequest at h
  refine bind_ok_gen h (fun a => (PQ Q) a.1) (fun a ha => L.registerTrees_preserves cfg creator trees s a hp ha)
    (fun r => (PQ Q) r.1) ?_
  intro a r1 ha hh
  obtain ⟨s1, chk1⟩ := a
  simp only at hh
  refine bind_ok_gen hh (fun a => (PQ Q) a.1) (fun a h2 => L.declareStaticFiles_preserves cfg creator files s1 a ha h2)
    (fun r => (PQ Q) r.1) ?_
  intro a2 r2 ha2 hh2
  obtain ⟨s2, chk2⟩ := a2
  simp only at hh2
  refine bind_ok_gen hh2 (PQ Q) (fun s3 h3 => L.toFrame.registerNglobs_preserves creator patterns s2 s3 ha2 h3)
    (fun r => (PQ Q) r.1) ?_
  intro s3 r3 hp3 hh3
  simp only [pure, Except.pure, Except.ok.injEq] at hh3
  subst hh3; exact hp3

theorem baseBody_preserves (L : SkStable Q) (x : Nat) (b : KState × List Key) (r : ForInStep (KState × List Key))
    (hp : (PQ Q) b.1) (h : baseBody x b = .ok r) : (PQ Q) r.value.1 := by
  unfold baseBody at h
  refine bind_ok_gen h (fun a => (PQ Q) a.1) (fun a ha => L.deletePass_preserves b.1 a hp ha) (fun r => (PQ Q) r.value.1) ?_
  intro a r' ha hh
  obtain ⟨st', cs, some_⟩ := a
  simp only at hh
  split at hh
  · simp only [pure, Except.pure, Except.ok.injEq] at hh; subst hh; exact ha
  · simp only [pure, Except.pure, Except.ok.injEq] at hh; subst hh; exact ha

/-- `Trellis.delete_detached` preserves every stable predicate. -/
theorem deleteDetachedBase_preserves (L : SkStable Q) : Preserves (PQ Q) (fun s => s.deleteDetachedBase) := by
  intro s s' hp h
  replace h : s.deleteDetachedBase = .ok s' := h
  rw [deleteDetachedBase_eq] at h
  refine bind_ok_gen h (fun a => (PQ Q) a.1) (fun a ha => ?_) (PQ Q) ?_
  · refine forIn_except_inv _ baseBody (fun b => (PQ Q) b.1) (s, []) a hp ?_ ha
    intro x _ b r' hb hf
    exact L.baseBody_preserves x b r' hb hf
  · intro a s2 ha hh
    refine bind_ok_gen hh (PQ Q) (fun a2 ha2 => ?_) (PQ Q) ?_
    · refine forIn_except_inv a.2 lostBody (PQ Q) a.1 a2 ha ?_ ha2
      intro c _ b r' hb hf
      exact L.toFrame.lostBody_preserves c b r' hb hf
    · intro a2 b2 ha2 hb2
      simp only [pure, Except.pure, Except.ok.injEq] at hb2; subst hb2; exact ha2

theorem treeInner_preserves (L : SkStable Q) (f : Node) (st : KState) (r : ForInStep KState) (hp : (PQ Q) st)
    (h : treeInner f st = .ok r) : (PQ Q) r.value := by
  unfold treeInner at h
  split at h
  · refine bind_ok_gen h (PQ Q) (fun a ha => L.detach_preserves f.key st a hp ha) (fun r => (PQ Q) r.value) ?_
    intro a r' ha hh
    simp only [pure, Except.pure, Except.ok.injEq] at hh; subst hh; exact ha
  · simp only [pure, Except.pure, Except.ok.injEq] at h; subst h; exact hp

theorem treeOuter_preserves (L : SkStable Q) (t : Node) (st : KState) (r : ForInStep KState) (hp : (PQ Q) st)
    (h : treeOuter t st = .ok r) : (PQ Q) r.value := by
  unfold treeOuter at h
  simp only at h
  refine bind_ok_gen h (PQ Q) (fun a ha => ?_) (fun r => (PQ Q) r.value) ?_
  · refine forIn_except_inv _ treeInner (PQ Q) st a hp ?_ ha
    intro f _ b r' hb hf
    exact L.treeInner_preserves f b r' hb hf
  · intro a r' ha hh
    simp only [pure, Except.pure, Except.ok.injEq] at hh; subst hh; exact ha

/-- `Workflow.delete_detached` preserves every stable predicate. -/
theorem deleteDetached_preserves (L : SkStable Q) : Preserves (PQ Q) (fun s => s.deleteDetached) := by
  intro s s' hp h
  replace h : s.deleteDetached = .ok s' := h
  rw [deleteDetached_eq] at h
  refine bind_ok h (fun st hst => ?_) L.deleteDetachedBase_preserves
  refine forIn_except_inv _ treeOuter (PQ Q) s st hp ?_ hst
  intro t _ b r' hb hf
  exact L.treeOuter_preserves t b r' hb hf

end SkStable

/-! ## Requests and histories -/

/-- Every accepted kernel request keeps `PQ Q`. -/
theorem exec_skStable {Q : List Tri → Prop} (L : SkStable Q) (cfg : KConfig) (r : Req) (s : KState)
    (res : KState × String) (hp : PQ Q s) (h : s.exec cfg r = .ok res) : PQ Q res.1 := by
  cases r with
  | define c d =>
    simp only [KState.exec] at h
    refine bind_ok_gen h (fun a => PQ Q a.1) (fun a ha => L.defineStep_preserves cfg c d s a hp ha) (fun r => PQ Q r.1) ?_
    intro a b ha hb; obtain ⟨st, chk⟩ := a
    simp only [pure, Except.pure, Except.ok.injEq] at hb; subst hb; exact ha
  | amend k inp env out vol conc =>
    simp only [KState.exec] at h
    refine bind_ok_gen h (fun a => PQ Q a.1) (fun a ha => L.amendStep_preserves cfg k inp env out vol conc s a hp ha)
      (fun r => PQ Q r.1) ?_
    intro a b ha hb; obtain ⟨st, chk⟩ := a
    simp only [pure, Except.pure, Except.ok.injEq] at hb; subst hb; exact ha
  | static c ps =>
    simp only [KState.exec] at h
    refine bind_ok_gen h (fun a => PQ Q a.1) (fun a ha => L.declareStaticFiles_preserves cfg c ps s a hp ha)
      (fun r => PQ Q r.1) ?_
    intro a b ha hb; obtain ⟨st, chk⟩ := a
    simp only [pure, Except.pure, Except.ok.injEq] at hb; subst hb; exact ha
  | tree c p =>
    simp only [KState.exec] at h
    refine bind_ok_gen h (fun a => PQ Q a.1) (fun a ha => L.registerStaticTree_preserves cfg c p s a hp ha)
      (fun r => PQ Q r.1) ?_
    intro a b ha hb; obtain ⟨st, chk⟩ := a
    simp only [pure, Except.pure, Except.ok.injEq] at hb; subst hb; exact ha
  | declStatic c ts fs ps =>
    simp only [KState.exec] at h
    refine bind_ok_gen h (fun a => PQ Q a.1) (fun a ha => L.declareStaticRequest_preserves cfg c ts fs ps s a hp ha)
      (fun r => PQ Q r.1) ?_
    intro a b ha hb; obtain ⟨st, chk⟩ := a
    simp only [pure, Except.pure, Except.ok.injEq] at hb; subst hb; exact ha
  | nglob k p ms => exact L.toFrame.registerNglob_preserves k p ms s _ hp (StableG.unitOut_ok h)
  | hashes u c => exact L.toFrame.updateFileHashes_preserves u c s _ hp (StableG.unitOut_ok h)
  | pop c =>
    simp only [KState.exec] at h
    refine bind_ok_gen h (fun a => PQ Q a.1) (fun a ha => L.toFrame.popNext_preserves cfg c s a.1 a.2 hp ha) (fun r => PQ Q r.1) ?_
    intro a b ha hb; obtain ⟨st, d⟩ := a
    simp only [pure, Except.pure, Except.ok.injEq] at hb; subst hb; exact ha
  | updateMeta => exact L.toFrame.updateMeta_preserves cfg s _ hp (StableG.unitOut_ok h)
  | resetRerun k => exact L.resetForRerun_preserves k s _ hp (StableG.unitOut_ok h)
  | completed k nh wd =>
    simp only [KState.exec] at h
    refine bind_ok_gen h (fun a => PQ Q a.1) (fun a ha => L.markCompleted_preserves cfg k nh wd s a.1 a.2 hp ha)
      (fun r => PQ Q r.1) ?_
    intro a b ha hb; obtain ⟨st, d⟩ := a
    simp only [pure, Except.pure, Except.ok.injEq] at hb; subst hb; exact ha
  | setState k stt => exact L.toFrame.setStepState_preserves k stt false s _ hp (StableG.unitOut_ok h)
  | deleteHash k =>
    have := StableG.unitOut_ok h
    simp only [pure, Except.pure, Except.ok.injEq] at this
    rw [← this]; exact L.toFrame.deleteHash s k hp
  | markPending k => exact L.toFrame.markStepPending'_preserves k s _ hp (StableG.unitOut_ok h)
  | hold k => exact L.toFrame.hold_preserves k s _ hp (StableG.unitOut_ok h)
  | release k => exact L.toFrame.release_preserves k s _ hp (StableG.unitOut_ok h)
  | detach k => exact L.detach_preserves k s _ hp (StableG.unitOut_ok h)
  | revertOptional => exact L.toFrame.revertOptional_preserves s _ hp (StableG.unitOut_ok h)
  | deleteDetached => exact L.deleteDetached_preserves s _ hp (StableG.unitOut_ok h)
  | clearQueue =>
    have := StableG.unitOut_ok h
    simp only [pure, Except.pure, Except.ok.injEq] at this
    rw [← this]; exact L.toFrame.clearQueue s hp
  | resetInterrupted => exact L.toFrame.resetInterrupted_preserves s _ hp (StableG.unitOut_ok h)
  | rescanEnv => exact L.toFrame.rescanEnvVars_preserves cfg s _ hp (StableG.unitOut_ok h)
  | reconcile => exact L.toFrame.reconcileTargets_preserves cfg s _ hp (StableG.unitOut_ok h)
  | checkConsistency => exact L.toFrame.checkConsistency_preserves s _ hp (StableG.unitOut_ok h)

/-- One transaction, accepted or rolled back. -/
theorem step_skStable {Q : List Tri → Prop} (L : SkStable Q) (cfg : KConfig) (r : Req) (s : KState)
    (hp : PQ Q s) : PQ Q (s.step cfg r) := by
  unfold KState.step
  cases h : s.exec cfg r with
  | error e => exact hp
  | ok res => obtain ⟨s', out⟩ := res; exact exec_skStable L cfg r s (s', out) hp h

/-- Every history of accepted and rejected requests. -/
theorem run_skStable {Q : List Tri → Prop} (L : SkStable Q) (h : List (KConfig × Req)) (s : KState) (hp : PQ Q s) :
    PQ Q (s.run h) := by
  unfold KState.run
  induction h generalizing s with
  | nil => exact hp
  | cons x xs ih =>
    simp only [List.foldl_cons]
    exact ih _ (step_skStable L x.1 x.2 s hp)

end StepupModel.K
