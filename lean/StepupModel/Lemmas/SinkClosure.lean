import StepupModel.K.Workflow
/-!
# Chains of dependency edges and the recursive-sink computation

`Path deps a b` is a non-empty chain of rows of the dependency table from `a` to `b`;
`AcyclicDeps deps` says that no node reaches itself.  `KState.sinkClosure` (`RECURSE_SINKS`, the
query behind `Workflow._supply_files` and `Node.check_sources_acyclic`) is shown to list exactly the
start node and what it reaches (`mem_sinkClosure_iff`): sound because a pass only adds the sink of
an edge whose source is already listed, complete because a pass that adds nothing certifies that
the list is closed under the edges and at most `deps.length` passes can add something (every
productive pass lowers the number of edges whose sink is still missing).  The last section is the
graph argument for a checked insertion (`acyclic_append`) and for the batched check of
`_supply_files` (`notDownstream_append`).  No property statements here.
-/
namespace StepupModel.K

/-- `a → b` is a row of the dependency table. -/
def Edge (deps : List Dep) (a b : Key) : Prop := ∃ d ∈ deps, d.src = a ∧ d.snk = b

/-- A non-empty chain of dependency edges from `a` to `b`. -/
inductive Path (deps : List Dep) : Key → Key → Prop
  | single {a b : Key} : Edge deps a b → Path deps a b
  | cons {a b c : Key} : Edge deps a b → Path deps b c → Path deps a c

/-- The dependency table has no cycle. -/
def AcyclicDeps (deps : List Dep) : Prop := ∀ k, ¬ Path deps k k


theorem Path.trans {deps : List Dep} {a b c : Key} (h1 : Path deps a b) (h2 : Path deps b c) : Path deps a c := by
  induction h1 with
  | single e => exact .cons e h2
  | cons e _ ih => exact .cons e (ih h2)

theorem Path.snoc {deps : List Dep} {a b c : Key} (h1 : Path deps a b) (e : Edge deps b c) : Path deps a c :=
  h1.trans (.single e)

theorem Edge.mono {l l' : List Dep} (h : ∀ d ∈ l, ∃ d' ∈ l', d'.src = d.src ∧ d'.snk = d.snk) {a b : Key}
    (e : Edge l a b) : Edge l' a b := by
  obtain ⟨d, hd, h1, h2⟩ := e
  obtain ⟨d', hd', h1', h2'⟩ := h d hd
  exact ⟨d', hd', h1'.trans h1, h2'.trans h2⟩

theorem Path.mono {l l' : List Dep} (h : ∀ d ∈ l, ∃ d' ∈ l', d'.src = d.src ∧ d'.snk = d.snk) {a b : Key}
    (p : Path l a b) : Path l' a b := by
  induction p with
  | single e => exact .single (e.mono h)
  | cons e _ ih => exact .cons (e.mono h) ih

/-! ## The closure computation on the edge list -/

/-- The inner step of `RECURSE_SINKS`. -/
def closeStep (acc : List Key) (d : Dep) : List Key :=
  if acc.contains d.src ∧ !acc.contains d.snk then acc ++ [d.snk] else acc

def closePass (deps : List Dep) (acc : List Key) : List Key := deps.foldl closeStep acc

def closure (deps : List Dep) (k : Key) : List Key :=
  (List.range (deps.length + 1)).foldl (fun acc _ => closePass deps acc) [k]

theorem sinkClosure_eq (s : KState) (k : Key) : s.sinkClosure k = closure s.deps k := rfl

theorem closeStep_pos {acc : List Key} {d : Dep} (h1 : d.src ∈ acc) (h2 : d.snk ∉ acc) :
    closeStep acc d = acc ++ [d.snk] := by
  unfold closeStep
  rw [if_pos]
  simp [h1, h2]

theorem closeStep_neg {acc : List Key} {d : Dep} (h : ¬ (d.src ∈ acc ∧ d.snk ∉ acc)) :
    closeStep acc d = acc := by
  unfold closeStep
  rw [if_neg]
  intro hc
  apply h
  simpa using hc

theorem closeStep_cases (acc : List Key) (d : Dep) :
    (d.src ∈ acc ∧ d.snk ∉ acc ∧ closeStep acc d = acc ++ [d.snk]) ∨
    (¬ (d.src ∈ acc ∧ d.snk ∉ acc) ∧ closeStep acc d = acc) := by
  by_cases h : d.src ∈ acc ∧ d.snk ∉ acc
  · exact .inl ⟨h.1, h.2, closeStep_pos h.1 h.2⟩
  · exact .inr ⟨h, closeStep_neg h⟩

/-- A pass only appends. -/
theorem foldl_closeStep_append (l : List Dep) (acc : List Key) : ∃ ext, l.foldl closeStep acc = acc ++ ext := by
  induction l generalizing acc with
  | nil => exact ⟨[], by simp⟩
  | cons d l ih =>
    simp only [List.foldl_cons]
    rcases closeStep_cases acc d with ⟨_, _, h⟩ | ⟨_, h⟩
    · rw [h]
      obtain ⟨ext, he⟩ := ih (acc ++ [d.snk])
      exact ⟨[d.snk] ++ ext, by rw [he, List.append_assoc]⟩
    · rw [h]; exact ih acc

theorem foldl_closeStep_mem (l : List Dep) (acc : List Key) {x : Key} (hx : x ∈ acc) : x ∈ l.foldl closeStep acc := by
  obtain ⟨ext, he⟩ := foldl_closeStep_append l acc
  rw [he]; exact List.mem_append_left _ hx

theorem foldl_closeStep_length (l : List Dep) (acc : List Key) : acc.length ≤ (l.foldl closeStep acc).length := by
  obtain ⟨ext, he⟩ := foldl_closeStep_append l acc
  rw [he, List.length_append]; omega

/-- Any invariant of the accumulator that survives the addition of the sink of an edge whose source
is already in survives a pass. -/
theorem foldl_closeStep_inv (I : List Key → Prop) (l : List Dep)
    (hstep : ∀ acc d, d ∈ l → I acc → d.src ∈ acc → d.snk ∉ acc → I (acc ++ [d.snk]))
    (acc : List Key) (h : I acc) : I (l.foldl closeStep acc) := by
  induction l generalizing acc with
  | nil => exact h
  | cons d l ih =>
    simp only [List.foldl_cons]
    have hstep' : ∀ acc d, d ∈ l → I acc → d.src ∈ acc → d.snk ∉ acc → I (acc ++ [d.snk]) :=
      fun acc d' hd' => hstep acc d' (List.mem_cons_of_mem _ hd')
    rcases closeStep_cases acc d with ⟨h1, h2, h3⟩ | ⟨_, h3⟩
    · rw [h3]; exact ih hstep' _ (hstep acc d (List.mem_cons_self) h h1 h2)
    · rw [h3]; exact ih hstep' _ h

/-- `acc` is closed under the edges of `l`. -/
def ClosedUnder (l : List Dep) (acc : List Key) : Prop := ∀ d ∈ l, d.src ∈ acc → d.snk ∈ acc

/-- A pass that adds nothing certifies closedness. -/
theorem closed_of_length_eq (l : List Dep) (acc : List Key) (h : (l.foldl closeStep acc).length = acc.length) :
    ClosedUnder l acc := by
  induction l generalizing acc with
  | nil => intro d hd; cases hd
  | cons d l ih =>
    simp only [List.foldl_cons] at h
    rcases closeStep_cases acc d with ⟨_, _, h3⟩ | ⟨h1, h3⟩
    · rw [h3] at h
      have := foldl_closeStep_length l (acc ++ [d.snk])
      rw [h, List.length_append] at this
      simp only [List.length_cons, List.length_nil] at this
      omega
    · rw [h3] at h
      intro d' hd' hsrc
      rcases List.mem_cons.1 hd' with rfl | hd'
      · exact Classical.byContradiction fun hn => h1 ⟨hsrc, hn⟩
      · exact ih acc h d' hd' hsrc

theorem pass_of_closed (l : List Dep) (acc : List Key) (h : ClosedUnder l acc) : l.foldl closeStep acc = acc := by
  induction l with
  | nil => rfl
  | cons d l ih =>
    simp only [List.foldl_cons]
    have : closeStep acc d = acc := closeStep_neg fun hc => hc.2 (h d List.mem_cons_self hc.1)
    rw [this]
    exact ih fun d' hd' => h d' (List.mem_cons_of_mem _ hd')

/-- The number of edges whose sink is still missing. -/
def missing (deps : List Dep) (acc : List Key) : Nat := deps.countP fun d => !acc.contains d.snk

theorem countP_lt_of_imp {α : Type} (p q : α → Bool) (l : List α) (himp : ∀ x ∈ l, p x = true → q x = true)
    (x : α) (hx : x ∈ l) (hq : q x = true) (hp : p x = false) : l.countP p < l.countP q := by
  induction l with
  | nil => cases hx
  | cons y l ih =>
    have hle : l.countP p ≤ l.countP q :=
      List.countP_mono_left fun z hz => himp z (List.mem_cons_of_mem _ hz)
    rcases List.mem_cons.1 hx with rfl | hx'
    · rw [List.countP_cons_of_pos hq, List.countP_cons_of_neg (by simp [hp])]
      omega
    · have := ih (fun z hz => himp z (List.mem_cons_of_mem _ hz)) hx'
      by_cases hpy : p y = true
      · rw [List.countP_cons_of_pos hpy, List.countP_cons_of_pos (himp y List.mem_cons_self hpy)]
        omega
      · rw [List.countP_cons_of_neg hpy]
        by_cases hqy : q y = true
        · rw [List.countP_cons_of_pos hqy]; omega
        · rw [List.countP_cons_of_neg hqy]; exact this

theorem missing_append_le (deps : List Dep) (acc ext : List Key) : missing deps (acc ++ ext) ≤ missing deps acc := by
  unfold missing
  apply List.countP_mono_left
  intro d _ h
  simp only [Bool.not_eq_true', List.contains_eq_mem, List.mem_append, decide_eq_false_iff_not, not_or] at h ⊢
  exact h.1

theorem missing_snoc_lt (deps : List Dep) (acc : List Key) (d : Dep) (hd : d ∈ deps) (h2 : d.snk ∉ acc) :
    missing deps (acc ++ [d.snk]) < missing deps acc := by
  unfold missing
  refine countP_lt_of_imp _ _ deps ?_ d hd ?_ ?_
  · intro d' _ h
    simp only [Bool.not_eq_true', List.contains_eq_mem, List.mem_append, decide_eq_false_iff_not, not_or] at h ⊢
    exact h.1
  · simp [h2]
  · simp

/-- Over a pass, the measure does not grow, and it drops when the pass adds something. -/
theorem missing_pass (deps l : List Dep) (hl : ∀ d ∈ l, d ∈ deps) (acc : List Key) :
    missing deps (l.foldl closeStep acc) ≤ missing deps acc ∧
    ((l.foldl closeStep acc).length ≠ acc.length → missing deps (l.foldl closeStep acc) < missing deps acc) := by
  induction l generalizing acc with
  | nil => exact ⟨Nat.le_refl _, fun h => absurd rfl h⟩
  | cons d l ih =>
    simp only [List.foldl_cons]
    have hl' : ∀ d ∈ l, d ∈ deps := fun d' hd' => hl d' (List.mem_cons_of_mem _ hd')
    rcases closeStep_cases acc d with ⟨_, h2, h3⟩ | ⟨_, h3⟩
    · rw [h3]
      have h4 := missing_snoc_lt deps acc d (hl d List.mem_cons_self) h2
      have h5 := (ih hl' (acc ++ [d.snk])).1
      exact ⟨by omega, fun _ => by omega⟩
    · rw [h3]; exact ih hl' acc

theorem missing_le (deps : List Dep) (acc : List Key) : missing deps acc ≤ deps.length := List.countP_le_length

/-- Iterating the pass. -/
def closeIter (deps : List Dep) : Nat → List Key → List Key
  | 0, acc => acc
  | n + 1, acc => closePass deps (closeIter deps n acc)

theorem foldl_range_eq_iter (deps : List Dep) (n : Nat) (acc : List Key) :
    (List.range n).foldl (fun acc _ => closePass deps acc) acc = closeIter deps n acc := by
  induction n with
  | zero => rfl
  | succ n ih => rw [List.range_succ, List.foldl_append]; simp only [List.foldl_cons, List.foldl_nil, ih]; rfl

theorem closure_eq_iter (deps : List Dep) (k : Key) : closure deps k = closeIter deps (deps.length + 1) [k] :=
  foldl_range_eq_iter deps _ _

/-- Either the iteration has reached a fixed point, or every pass so far was productive. -/
theorem closeIter_progress (deps : List Dep) (n : Nat) (acc : List Key) :
    ClosedUnder deps (closeIter deps n acc) ∨ missing deps (closeIter deps n acc) + n ≤ missing deps acc := by
  induction n with
  | zero => exact .inr (Nat.le_refl _)
  | succ n ih =>
    simp only [closeIter]
    rcases ih with hc | hm
    · left; unfold closePass; rw [pass_of_closed deps _ hc]; exact hc
    · by_cases hlen : (closePass deps (closeIter deps n acc)).length = (closeIter deps n acc).length
      · left
        have hc := closed_of_length_eq deps _ hlen
        unfold closePass; rw [pass_of_closed deps _ hc]; exact hc
      · right
        have := (missing_pass deps deps (fun _ h => h) (closeIter deps n acc)).2 hlen
        unfold closePass
        omega

theorem closure_closed (deps : List Dep) (k : Key) : ClosedUnder deps (closure deps k) := by
  rw [closure_eq_iter]
  rcases closeIter_progress deps (deps.length + 1) [k] with h | h
  · exact h
  · have := missing_le deps [k]
    omega

theorem closeIter_mem (deps : List Dep) (n : Nat) (acc : List Key) {x : Key} (hx : x ∈ acc) :
    x ∈ closeIter deps n acc := by
  induction n with
  | zero => exact hx
  | succ n ih => exact foldl_closeStep_mem deps _ ih

theorem self_mem_closure (deps : List Dep) (k : Key) : k ∈ closure deps k := by
  rw [closure_eq_iter]; exact closeIter_mem deps _ _ (List.mem_singleton.2 rfl)

theorem closeIter_inv (I : List Key → Prop) (deps : List Dep)
    (hstep : ∀ acc d, d ∈ deps → I acc → d.src ∈ acc → d.snk ∉ acc → I (acc ++ [d.snk]))
    (n : Nat) (acc : List Key) (h : I acc) : I (closeIter deps n acc) := by
  induction n with
  | zero => exact h
  | succ n ih => exact foldl_closeStep_inv I deps hstep _ ih

/-- Soundness: everything the closure lists is the start or reachable from it. -/
theorem closure_sound (deps : List Dep) (k b : Key) (h : b ∈ closure deps k) : b = k ∨ Path deps k b := by
  rw [closure_eq_iter] at h
  refine closeIter_inv (fun acc => ∀ x ∈ acc, x = k ∨ Path deps k x) deps ?_ _ [k] ?_ b h
  · intro acc d hd hI hsrc _ x hx
    rcases List.mem_append.1 hx with hx | hx
    · exact hI x hx
    · rw [List.mem_singleton.1 hx]
      right
      have e : Edge deps d.src d.snk := ⟨d, hd, rfl, rfl⟩
      rcases hI d.src hsrc with h | h
      · rw [h] at e; exact .single e
      · exact h.snoc e
  · intro x hx; exact .inl (List.mem_singleton.1 hx)

theorem closed_path {deps : List Dep} {acc : List Key} (hc : ClosedUnder deps acc) {a b : Key} (p : Path deps a b)
    (ha : a ∈ acc) : b ∈ acc := by
  induction p with
  | single e => obtain ⟨d, hd, rfl, rfl⟩ := e; exact hc d hd ha
  | cons e _ ih => obtain ⟨d, hd, rfl, rfl⟩ := e; exact ih (hc d hd ha)

/-- Completeness: `deps.length + 1` passes reach everything reachable. -/
theorem closure_complete (deps : List Dep) (k b : Key) (h : b = k ∨ Path deps k b) : b ∈ closure deps k := by
  rcases h with rfl | h
  · exact self_mem_closure deps b
  · exact closed_path (closure_closed deps k) h (self_mem_closure deps k)

theorem mem_closure_iff (deps : List Dep) (a b : Key) : b ∈ closure deps a ↔ b = a ∨ Path deps a b :=
  ⟨closure_sound deps a b, closure_complete deps a b⟩

/-- **`RECURSE_SINKS` computes exactly the reflexive-transitive sinks.** -/
theorem mem_sinkClosure_iff (s : KState) (a b : Key) : b ∈ s.sinkClosure a ↔ b = a ∨ Path s.deps a b :=
  mem_closure_iff s.deps a b

/-! ## Inserting an edge after the cycle check -/

/-- A chain that exists after the insertion of `src → snk` either existed before or runs through
the new edge: then its start reaches `src` and `snk` reaches its end in the old table. -/
theorem path_append_edge {deps : List Dep} {e : Dep} {a b : Key} (p : Path (deps ++ [e]) a b) :
    Path deps a b ∨ ((a = e.src ∨ Path deps a e.src) ∧ (b = e.snk ∨ Path deps e.snk b)) := by
  have split : ∀ {x y : Key}, Edge (deps ++ [e]) x y → Edge deps x y ∨ (x = e.src ∧ y = e.snk) := by
    intro x y ed
    obtain ⟨d, hd, h1, h2⟩ := ed
    rcases List.mem_append.1 hd with hd | hd
    · exact .inl ⟨d, hd, h1, h2⟩
    · rw [List.mem_singleton.1 hd] at h1 h2; exact .inr ⟨h1.symm, h2.symm⟩
  induction p with
  | single ed =>
    rcases split ed with h | ⟨h1, h2⟩
    · exact .inl (.single h)
    · exact .inr ⟨.inl h1, .inl h2⟩
  | cons ed _ ih =>
    rcases split ed with h | ⟨h1, h2⟩
    · rcases ih with ih | ⟨ih1, ih2⟩
      · exact .inl (.cons h ih)
      · refine .inr ⟨.inr ?_, ih2⟩
        rcases ih1 with ih1 | ih1
        · rw [← ih1]; exact .single h
        · exact .cons h ih1
    · refine .inr ⟨.inl h1, ?_⟩
      rcases ih with ih | ⟨_, ih2⟩
      · rw [← h2]; exact .inr ih
      · exact ih2

/-- What the cycle check establishes: `src` is not among the recursive sinks of `snk`. -/
def NotDownstream (deps : List Dep) (snk src : Key) : Prop := ¬ (src = snk ∨ Path deps snk src)

theorem notDownstream_iff (deps : List Dep) (snk src : Key) :
    NotDownstream deps snk src ↔ (closure deps snk).contains src = false := by
  unfold NotDownstream
  rw [← mem_closure_iff]
  simp

/-- **One checked insertion keeps the table acyclic.** -/
theorem acyclic_append (deps : List Dep) (src snk : Key) (dyn : Bool) (hac : AcyclicDeps deps)
    (hg : NotDownstream deps snk src) : AcyclicDeps (deps ++ [({ src := src, snk := snk, dyn := dyn } : Dep)]) := by
  intro k p
  rcases path_append_edge p with p | ⟨h1, h2⟩
  · exact hac k p
  · apply hg
    simp only at h1 h2
    rcases h1 with rfl | h1
    · rcases h2 with h2 | h2
      · exact .inl h2
      · exact .inr h2
    · rcases h2 with rfl | h2
      · exact .inr h1
      · exact .inr (h2.trans h1)

/-- The recursive sinks of `snk` are not changed by a checked insertion of an edge into `snk`:
this is why `_supply_files` may check all new inputs once, before inserting any of them. -/
theorem notDownstream_append (deps : List Dep) (snk f g : Key) (dyn : Bool)
    (hf : NotDownstream deps snk f) (hg : NotDownstream deps snk g) :
    NotDownstream (deps ++ [({ src := f, snk := snk, dyn := dyn } : Dep)]) snk g := by
  intro h
  rcases h with h | p
  · exact hg (.inl h)
  · rcases path_append_edge p with p | ⟨h1, _⟩
    · exact hg (.inr p)
    · simp only at h1
      rcases h1 with h1 | h1
      · exact hf (.inl h1.symm)
      · exact hf (.inr h1)

/-- Deleting rows and rewriting the `dynamic` flag cannot create a cycle. -/
theorem acyclic_of_subedges {l l' : List Dep} (h : ∀ d ∈ l', ∃ d' ∈ l, d'.src = d.src ∧ d'.snk = d.snk)
    (hac : AcyclicDeps l) : AcyclicDeps l' := fun k p => hac k (p.mono h)

end StepupModel.K
