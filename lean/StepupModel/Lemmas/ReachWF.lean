import StepupModel.Lemmas.ReachSkel
import StepupModel.K.Prim
/-!
# Every attached row reaches the root: the global half of the creator-forest invariant

`Sk.OK` (`Lemmas/ReachSkel.lean`) is local: it allows a cycle of attached rows next to the root.
`Sk.AR l` says that every attached row is reachable from the root through creator links
(`Sk.Reach`), which under `Sk.OK` is the same as "the creator links among attached rows are
well-founded".  This file shows that the seven rewrites of the kernel keep it, under the guards of
`Lemmas/ReachLift.lean`; the hand-over of `register_static_tree` needs one more fact, `Sk.NFC`:
no row is created by a file (the creator-kind triggers), so the files handed over have no
products.  No `KState` here.
-/
namespace StepupModel.K
set_option linter.unusedVariables false
namespace Sk

/-- Reachable from the root through creator links. -/
inductive Reach (l : List Tri) : Key → Prop
  | root : Reach l rootKey
  | step (x c : Key) (d : Bool) : (x, some c, d) ∈ l → Reach l c → Reach l x

/-- Every attached row is reachable from the root. -/
def AR (l : List Tri) : Prop := ∀ x, Att l x → Reach l x

/-- No row is created by a file. -/
def NFC (l : List Tri) : Prop := ∀ t ∈ l, ∀ c, t.2.1 = some c → c.kind ≠ .file

/-- A row reachable from the root is attached. -/
theorem att_of_reach {l : List Tri} (h : OK l) {x : Key} (hr : Reach l x) : Att l x := by
  induction hr with
  | root => exact ⟨_, h.root, rfl, rfl⟩
  | step x c d hm _ ih =>
    by_cases hx : x = rootKey
    · rw [hx]; exact ⟨_, h.root, rfl, rfl⟩
    · have := (h.loc _ hm hx).2 ⟨c, rfl, ih⟩
      exact ⟨_, hm, rfl, this⟩

/-- Reachability moves along with a set `S` of rows that are left alone and closed under "creator
of". -/
theorem reach_transfer {l l' : List Tri} (S : Key → Prop)
    (hrow : ∀ x c d, S x → (x, some c, d) ∈ l → (x, some c, d) ∈ l')
    (hcl : ∀ x c d, S x → (x, some c, d) ∈ l → Reach l c → S c) {x : Key} (hr : Reach l x) (hs : S x) :
    Reach l' x := by
  induction hr with
  | root => exact Reach.root
  | step x c d hm hc ih => exact Reach.step x c d (hrow x c d hs hm) (ih (hcl x c d hs hm hc))

/-- If the attached rows are left alone, what was reachable stays reachable. -/
theorem reach_of_att_rows {l l' : List Tri} (h : OK l)
    (hrow : ∀ x c d, Att l x → (x, some c, d) ∈ l → (x, some c, d) ∈ l') {x : Key} (hr : Reach l x) : Reach l' x :=
  reach_transfer (Att l) hrow (fun _ _ _ _ _ hc => att_of_reach h hc) hr (att_of_reach h hr)

theorem mem_setD_of_mem {l : List Tri} (D : Key → Bool) (d : Bool) {x : Key} {c : Option Key} {d' : Bool}
    (h : (x, c, d') ∈ l) : (x, c, if D x = true then d else d') ∈ setD D d l := by
  unfold setD
  refine List.mem_map.2 ⟨_, h, ?_⟩
  by_cases hD : D x = true
  · simp [hD]
  · simp [hD]

theorem mem_setD_of_not {l : List Tri} {D : Key → Bool} (d : Bool) {t : Tri} (h : t ∈ l) (hD : D t.1 = false) :
    t ∈ setD D d l := by
  unfold setD
  exact List.mem_map.2 ⟨t, h, by simp [hD]⟩

/-- After the update of the row of `k`, its recursive products are `k` itself or old ones. -/
theorem desc_setRow_sub {l : List Tri} {k : Key} {newc : Option Key} {d : Bool} {y : Key}
    (h : Desc (setRow k newc d l) k y) : y = k ∨ Desc l k y := by
  induction h with
  | direct x d' hm hne =>
    rcases mem_setRow hm with ⟨he, _⟩ | ⟨hm', _⟩
    · simp only [Prod.mk.injEq] at he; exact Or.inl he.1
    · exact Or.inr (Desc.direct x d' hm' hne)
  | trans x c d' hm _ hne ih =>
    rcases mem_setRow hm with ⟨he, _⟩ | ⟨hm', _⟩
    · simp only [Prod.mk.injEq] at he; exact Or.inl he.1
    · rcases ih with rfl | ih
      · exact Or.inr (Desc.direct x d' hm' hne)
      · exact Or.inr (Desc.trans x c d' hm' ih hne)

/-! ### `detach` -/

theorem ar_detachAtt {l : List Tri} (h : OK l) (har : AR l) {k : Key} (D : Key → Bool)
    (hD : ∀ x, D x = true ↔ Desc (setRow k none true l) k x) (hhas : Has l k) :
    AR (setD D true (setRow k none true l)) := by
  intro x hx
  rw [att_setD] at hx
  rcases hx with ⟨_, _, h3⟩ | ⟨hDx, hax⟩
  · cases h3
  · have hxk : x ≠ k := by
      intro he
      rw [he, att_setRow_self none true hhas] at hax
      cases hax
    have hal : Att l x := (att_setRow_ne none true hxk).1 hax
    refine reach_transfer (fun y => y ≠ k ∧ D y = false) ?_ ?_ (har x hal) ⟨hxk, hDx⟩
    · intro y c d ⟨hyk, hDy⟩ hm
      exact mem_setD_of_not true (mem_setRow_of_ne none true hm hyk) hDy
    · intro y c d ⟨hyk, hDy⟩ hm _
      by_cases hyc : y = c
      · rw [← hyc]; exact ⟨hyk, hDy⟩
      · have hm1 : (y, some c, d) ∈ setRow k none true l := mem_setRow_of_ne none true hm hyk
        have hnd : ¬ Desc (setRow k none true l) k y := by
          intro hd; rw [(hD y).2 hd] at hDy; cases hDy
        refine ⟨?_, ?_⟩
        · intro hck
          exact hnd (hck ▸ Desc.direct y d (hck ▸ hm1) (hck ▸ hyc))
        · cases hDc : D c with
          | false => rfl
          | true => exact absurd (Desc.trans y c d hm1 ((hD c).1 hDc) hyc) hnd

theorem ar_detachDet {l : List Tri} (h : OK l) (har : AR l) {k : Key} {ck : Option Key} (hrow : (k, ck, true) ∈ l) :
    AR (setRow k none true l) := by
  have hnk := not_att_of_detached h hrow
  intro x hx
  have hxk : x ≠ k := by
    intro he
    rw [he, att_setRow_self none true ⟨_, hrow, rfl⟩] at hx
    cases hx
  refine reach_of_att_rows h ?_ (har x ((att_setRow_ne none true hxk).1 hx))
  intro y c d hay hm
  exact mem_setRow_of_ne none true hm (fun he => hnk (he ▸ hay))

/-! ### `reattach` -/

theorem ar_reattach {l : List Tri} (h : OK l) (har : AR l) {k : Key} {ck : Option Key} (hrow : (k, ck, true) ∈ l)
    {c : Key} {d : Bool} (hd : d = false ↔ Att l c) (D : Key → Bool)
    (hD : ∀ x, D x = true ↔ Desc (setRow k (some c) d l) k x) :
    AR (setD D d (setRow k (some c) d l)) := by
  have hnk := not_att_of_detached h hrow
  have hhas : Has l k := ⟨_, hrow, rfl⟩
  -- whatever is overwritten was not attached
  have hnot : ∀ y, Att l y → y ≠ k ∧ D y = false := by
    intro y hay
    refine ⟨fun he => hnk (he ▸ hay), ?_⟩
    cases hDy : D y with
    | false => rfl
    | true =>
      rcases desc_setRow_sub ((hD y).1 hDy) with he | hdesc
      · exact absurd (he ▸ hay) hnk
      · exact absurd hay (desc_not_att h.nodup h.root h.loc hnk hdesc)
  have htrans : ∀ x, Reach l x → Reach (setD D d (setRow k (some c) d l)) x := by
    intro x hr
    refine reach_of_att_rows h ?_ hr
    intro y c' d' hay hm
    obtain ⟨hyk, hDy⟩ := hnot y hay
    exact mem_setD_of_not d (mem_setRow_of_ne (some c) d hm hyk) hDy
  have hkrow : (k, some c, d) ∈ setD D d (setRow k (some c) d l) := by
    have := mem_setD_of_mem D d (mem_setRow_self (some c) d hhas)
    simpa using this
  have hreachk : d = false → Reach (setD D d (setRow k (some c) d l)) k := by
    intro hdf
    exact Reach.step k c d hkrow (htrans c (har c (hd.1 hdf)))
  -- a recursive product of `k`: through `k`
  have hdescR : ∀ y, Desc (setRow k (some c) d l) k y → d = false → Reach (setD D d (setRow k (some c) d l)) y := by
    intro y hdesc hdf
    induction hdesc with
    | direct x d' hm hne =>
      exact Reach.step x k _ (mem_setD_of_mem D d hm) (hreachk hdf)
    | trans x c' d' hm _ hne ih =>
      exact Reach.step x c' _ (mem_setD_of_mem D d hm) ih
  intro x hx
  rw [att_setD] at hx
  rcases hx with ⟨hDx, _, hdf⟩ | ⟨hDx, hax⟩
  · exact hdescR x ((hD x).1 hDx) hdf
  · by_cases hxk : x = k
    · rw [hxk] at hax ⊢
      exact hreachk ((att_setRow_self (some c) d hhas).1 hax)
    · exact htrans x (har x ((att_setRow_ne (some c) d hxk).1 hax))

/-! ### `Trellis.create` -/

theorem mem_cut_of_not {l : List Tri} {k : Key} {t : Tri} (h : t ∈ l) (hc : ¬ (t.2.1 = some k ∧ t.1 ≠ k)) :
    t ∈ cut k l := by
  unfold cut
  exact List.mem_map.2 ⟨t, h, by rw [if_neg hc]⟩

theorem ar_recycle {l : List Tri} (h : OK l) (har : AR l) {k : Key} {ck : Option Key} (hrow : (k, ck, true) ∈ l)
    {newc : Option Key} {d : Bool} (hf : FitsRow l k newc d) : AR (cut k (setRow k newc d l)) := by
  have hnk := not_att_of_detached h hrow
  have hhas : Has l k := ⟨_, hrow, rfl⟩
  obtain ⟨_, hatt_ne, hatt_k⟩ := ok_recycle h hrow hf
  have htrans : ∀ x, Reach l x → Reach (cut k (setRow k newc d l)) x := by
    intro x hr
    refine reach_of_att_rows h ?_ hr
    intro y c' d' hay hm
    have hyk : y ≠ k := fun he => hnk (he ▸ hay)
    refine mem_cut_of_not (mem_setRow_of_ne newc d hm hyk) ?_
    rintro ⟨h1, _⟩
    simp only [Option.some.injEq] at h1
    -- `y` would be an attached product of the detached `k`
    have hd' : d' = false := (att_iff_of_mem h.nodup hm).1 hay
    have hyroot : y ≠ rootKey := by
      intro hr'
      have := uniq h.nodup hm h.root hr'
      simp only [Prod.mk.injEq, Option.some.injEq] at this
      exact hyk (hr'.trans (this.2.1.symm.trans h1))
    obtain ⟨c2, hc2, hac2⟩ := (h.loc _ hm hyroot).1 hd'
    simp only [Option.some.injEq] at hc2
    rw [← hc2, h1] at hac2
    exact hnk hac2
  intro x hx
  by_cases hxk : x = k
  · rw [hxk] at hx ⊢
    have hdf := hatt_k.1 hx
    obtain ⟨c, hc, hac⟩ := hf.2.1 hdf
    have hkrow : (k, newc, d) ∈ cut k (setRow k newc d l) :=
      mem_cut_of_not (mem_setRow_self newc d hhas) (fun hh => hh.2 rfl)
    subst hc
    exact Reach.step k c d hkrow (htrans c (har c hac))
  · exact htrans x (har x ((hatt_ne x hxk).1 hx))

theorem ar_append {l : List Tri} (h : OK l) (har : AR l) {k : Key} (hfresh : ¬ Has l k) {newc : Option Key} {d : Bool}
    (hd : d = false ↔ ∃ c, newc = some c ∧ Att l c) : AR (l ++ [(k, newc, d)]) := by
  have htrans : ∀ x, Reach l x → Reach (l ++ [(k, newc, d)]) x := by
    intro x hr
    exact reach_of_att_rows h (fun _ _ _ _ hm => List.mem_append_left _ hm) hr
  intro x hx
  by_cases hxk : x = k
  · rw [hxk] at hx ⊢
    obtain ⟨t, ht, htk, htd⟩ := hx
    simp only [List.mem_append, List.mem_singleton] at ht
    rcases ht with ht | rfl
    · exact absurd ⟨t, ht, htk⟩ hfresh
    · obtain ⟨c, hc, hac⟩ := hd.1 htd
      have hkrow : (k, newc, d) ∈ l ++ [(k, newc, d)] := List.mem_append_right _ (List.mem_singleton.2 rfl)
      subst hc
      exact Reach.step k c d hkrow (htrans c (har c hac))
  · exact htrans x (har x ((att_append_ne newc d hxk).1 hx))

/-! ### The hand-over -/

theorem ar_hand {l : List Tri} (h : OK l) (har : AR l) (hnfc : NFC l) {tk : Key} (htk : Att l tk) (hkind : tk.kind = .st)
    {hs : List Key} (hfile : ∀ x ∈ hs, x.kind = .file) : AR (hand tk hs l) := by
  have hmem : ∀ t ∈ l, hs.contains t.1 = false → t ∈ hand tk hs l := by
    intro t ht hc
    unfold hand
    have hneg : ¬ hs.contains t.1 = true := by rw [hc]; simp
    exact List.mem_map.2 ⟨t, ht, by rw [if_neg hneg]⟩
  have htrans : ∀ x, Reach l x → ¬ x ∈ hs → Reach (hand tk hs l) x := by
    intro x hr hx
    refine reach_transfer (fun y => ¬ y ∈ hs) ?_ ?_ hr hx
    · intro y c d hy hm
      refine hmem _ hm ?_
      cases hc : hs.contains y with
      | false => rfl
      | true => exact absurd (List.contains_iff_mem.1 hc) hy
    · intro y c d _ hm _ hc
      exact hnfc _ hm c rfl (hfile c hc)
  have htkn : ¬ tk ∈ hs := by
    intro hc
    have := hfile tk hc
    rw [hkind] at this; cases this
  intro x hx
  have hal : Att l x := (att_hand tk hs x).1 hx
  by_cases hxs : x ∈ hs
  · obtain ⟨t, ht, htx, htd⟩ := hal
    have hrow : (x, some tk, false) ∈ hand tk hs l := by
      unfold hand
      refine List.mem_map.2 ⟨t, ht, ?_⟩
      have : hs.contains t.1 = true := by rw [htx]; exact List.contains_iff_mem.2 hxs
      rw [if_pos this, htx, htd]
    exact Reach.step x tk false hrow (htrans tk (har tk htk) htkn)
  · exact htrans x (har x hal) hxs

/-! ### Deleting rows -/

theorem ar_filter {l : List Tri} (h : OK l) (har : AR l) (D : Key → Bool)
    (hdet : ∀ t ∈ l, D t.1 = true → t.2.2 = true) : AR (l.filter fun t => !D t.1) := by
  intro x hx
  obtain ⟨t, ht, htx, htd⟩ := hx
  have hal : Att l x := ⟨t, (List.mem_filter.1 ht).1, htx, htd⟩
  refine reach_of_att_rows h ?_ (har x hal)
  intro y c d hay hm
  refine List.mem_filter.2 ⟨hm, ?_⟩
  cases hD : D y with
  | false => rfl
  | true =>
    have := hdet _ hm hD
    have hd' : d = false := (att_iff_of_mem h.nodup hm).1 hay
    simp only at this
    rw [hd'] at this; cases this

/-! ### No row is created by a file -/

theorem kindOk_not_file {a b : Kind} (h : creatorKindOk a b = true) : b ≠ .file := by
  intro hb; subst hb
  cases a <;> simp [creatorKindOk] at h

theorem nfc_setRow {l : List Tri} (h : NFC l) {k : Key} {newc : Option Key} {d : Bool}
    (hk : ∀ c, newc = some c → c.kind ≠ .file) : NFC (setRow k newc d l) := by
  intro t ht c hc
  rcases mem_setRow ht with ⟨rfl, _⟩ | ⟨hm, _⟩
  · exact hk c hc
  · exact h t hm c hc

theorem nfc_setD {l : List Tri} (h : NFC l) (D : Key → Bool) (d : Bool) : NFC (setD D d l) := by
  intro t ht c hc
  unfold setD at ht
  obtain ⟨u, hu, rfl⟩ := List.mem_map.1 ht
  refine h u hu c ?_
  by_cases hD : D u.1 = true
  · simpa [hD] using hc
  · simpa [hD] using hc

theorem nfc_cut {l : List Tri} (h : NFC l) (k : Key) : NFC (cut k l) := by
  intro t ht c hc
  unfold cut at ht
  obtain ⟨u, hu, rfl⟩ := List.mem_map.1 ht
  by_cases hcc : u.2.1 = some k ∧ u.1 ≠ k
  · rw [if_pos hcc] at hc; cases hc
  · rw [if_neg hcc] at hc; exact h u hu c hc

theorem nfc_append {l : List Tri} (h : NFC l) {k : Key} {newc : Option Key} {d : Bool}
    (hk : ∀ c, newc = some c → c.kind ≠ .file) : NFC (l ++ [(k, newc, d)]) := by
  intro t ht c hc
  simp only [List.mem_append, List.mem_singleton] at ht
  rcases ht with ht | rfl
  · exact h t ht c hc
  · exact hk c hc

theorem nfc_hand {l : List Tri} (h : NFC l) {tk : Key} (hkind : tk.kind = .st) (hs : List Key) : NFC (hand tk hs l) := by
  intro t ht c hc
  unfold hand at ht
  obtain ⟨u, hu, rfl⟩ := List.mem_map.1 ht
  by_cases hcc : hs.contains u.1 = true
  · rw [if_pos hcc] at hc
    simp only [Option.some.injEq] at hc
    rw [← hc, hkind]; intro hh; cases hh
  · rw [if_neg hcc] at hc; exact h u hu c hc

theorem nfc_filter {l : List Tri} (h : NFC l) (p : Tri → Bool) : NFC (l.filter p) :=
  fun t ht c hc => h t (List.mem_filter.1 ht).1 c hc

/-! ### Well-foundedness -/

/-- Under the local invariant, "every attached row reaches the root" says that the creator links
among attached rows are well-founded. -/
theorem ar_iff_wf {l : List Tri} (h : OK l) :
    AR l ↔ WellFounded (fun c x => x ≠ rootKey ∧ (x, some c, false) ∈ l) := by
  constructor
  · intro har
    have hacc : ∀ x, Reach l x → Acc (fun c x => x ≠ rootKey ∧ (x, some c, false) ∈ l) x := by
      intro x hr
      induction hr with
      | root => exact Acc.intro _ (fun c hR => absurd rfl hR.1)
      | step x c d hm _ ih =>
        refine Acc.intro _ (fun c' hR => ?_)
        have := uniq h.nodup hR.2 hm rfl
        simp only [Prod.mk.injEq, Option.some.injEq, true_and] at this
        rw [this.1]; exact ih
    refine WellFounded.intro (fun x => Acc.intro x (fun c hR => ?_))
    exact (hacc x (har x ⟨_, hR.2, rfl, rfl⟩)).inv hR
  · intro hwf x
    refine hwf.induction (C := fun x => Att l x → Reach l x) x ?_
    intro x ih hax
    by_cases hx : x = rootKey
    · rw [hx]; exact Reach.root
    · obtain ⟨t, ht, htx, htd⟩ := hax
      obtain ⟨tk, tc, td⟩ := t
      simp only at htx htd
      subst htx htd
      obtain ⟨c, hc, hac⟩ := (h.loc _ ht hx).1 rfl
      simp only at hc
      subst hc
      exact Reach.step tk c false ht (ih c ⟨hx, ht⟩ hac)

end Sk
end StepupModel.K
