import StepupModel.Lemmas.OwnershipEdgeTop
/-!
# C08 (O5), third part: "the edge creator -> product exists", the invariant and its leaves

`EdgeInv X s`: every file row in a product state (PLANNED, BUILT, OUTDATED, VOLATILE) that has a creator is
the sink of a dependency row whose source is that creator; `X` are the keys that are exempt (`Trellis.create`
rewrites the row of its key before it deletes the edges into it and before `add_source` inserts the new edge;
`reset_for_rerun` deletes the edge `step -> amended output` before it detaches the output).  The statement
does not mention `detached`: a detached step keeps its detached products with their edges, which is what makes
the re-attachment of a recycled subtree (`try_recycle`) harmless.  `EK X s` adds "one row per key".

`leafEK`: the invariant is stable under the context-free writes (`ELeaf`); `midEK`: under the propagation
(`mark_step_pending`, by `Lemmas/DisciplineSoft.lean`: a soft write keeps edges, keys, creators and roles);
`createFile_EK`, `declareProduct_EK`, `topEK`: `Trellis.create` of a file row and the declaration of a product.
No property statements here.
-/
namespace StepupModel.K.OwnE
open StepupModel.K.MetaAfter StepupModel.K.Discipline StepupModel.Lemmas StepupModel.K.Ever
set_option linter.unusedSimpArgs false
set_option linter.unusedVariables false

/-- No key is exempt. -/
def NoX (_ : Key) : Prop := False

/-- The invariant (see the header); `X` are the exempt keys. -/
def EdgeInv (X : Key → Prop) (s : KState) : Prop :=
  ∀ f ∈ s.nodes, f.key.kind = .file → ¬ X f.key → IsProduct f.fstate → ∀ c, f.creator = some c →
    ∃ d ∈ s.deps, d.src = c ∧ d.snk = f.key

/-- **The monotonicity lemma**: a product row with a creator comes from such a row with the same key and
creator, and the edge from the creator into such a row survives. -/
theorem EdgeInv.mono {X : Key → Prop} {s s' : KState} (h : EdgeInv X s)
    (hr : ∀ f' ∈ s'.nodes, f'.key.kind = .file → ¬ X f'.key → IsProduct f'.fstate → ∀ c, f'.creator = some c →
      ∃ f ∈ s.nodes, f.key = f'.key ∧ IsProduct f.fstate ∧ f.creator = some c)
    (hd : ∀ d ∈ s.deps, ∀ f ∈ s.nodes, f.key.kind = .file → ¬ X f.key → IsProduct f.fstate →
      f.creator = some d.src → d.snk = f.key → ∃ d' ∈ s'.deps, d'.src = d.src ∧ d'.snk = d.snk) :
    EdgeInv X s' := by
  intro f' hf' hkind hx hp c hc
  obtain ⟨f, hf, hk, hpf, hcf⟩ := hr f' hf' hkind hx hp c hc
  obtain ⟨d, hd1, hsrc, hsnk⟩ := h f hf (hk ▸ hkind) (hk ▸ hx) hpf c hcf
  obtain ⟨d', hd', h1, h2⟩ := hd d hd1 f hf (hk ▸ hkind) (hk ▸ hx) hpf (hsrc ▸ hcf) hsnk
  exact ⟨d', hd', h1.trans hsrc, h2.trans (hsnk.trans hk)⟩

/-- More exemptions. -/
theorem EdgeInv.weaken {X X' : Key → Prop} {s : KState} (h : EdgeInv X s) (hX : ∀ k, X k → X' k) : EdgeInv X' s :=
  fun f hf hk hx => h f hf hk (fun hxx => hx (hX _ hxx))

/-- Fewer exemptions, when the rows of the keys claimed again have their edge. -/
theorem EdgeInv.unexempt {X X' : Key → Prop} {s : KState} (h : EdgeInv X' s)
    (hk : ∀ f ∈ s.nodes, f.key.kind = .file → X' f.key → ¬ X f.key → IsProduct f.fstate → ∀ c, f.creator = some c →
      ∃ d ∈ s.deps, d.src = c ∧ d.snk = f.key) : EdgeInv X s := by
  intro f hf hkind hx hp c hc
  by_cases hx' : X' f.key
  · exact hk f hf hkind hx' hx hp c hc
  · exact h f hf hkind hx' hp c hc

theorem EdgeInv.congr {X : Key → Prop} {s s' : KState} (h : EdgeInv X s) (hn : s'.nodes = s.nodes) (hd : s'.deps = s.deps) :
    EdgeInv X s' :=
  h.mono (fun f' hf' _ _ hp c hc => ⟨f', hn ▸ hf', rfl, hp, hc⟩) (fun d hd1 _ _ _ _ _ _ _ => ⟨d, hd ▸ hd1, rfl, rfl⟩)

/-- The rows keep key, creator and file state (or come from such rows), the edges stay. -/
theorem EdgeInv.rowsSame {X : Key → Prop} {s s' : KState} (h : EdgeInv X s) (hd : s'.deps = s.deps)
    (hr : ∀ f' ∈ s'.nodes, ∃ f ∈ s.nodes, f'.key = f.key ∧ f'.creator = f.creator ∧ f'.fstate = f.fstate) :
    EdgeInv X s' := by
  refine h.mono ?_ (fun d hd1 _ _ _ _ _ _ _ => ⟨d, hd ▸ hd1, rfl, rfl⟩)
  intro f' hf' _ _ hp c hc
  obtain ⟨f, hf, h1, h2, h3⟩ := hr f' hf'
  exact ⟨f, hf, h1.symm, h3 ▸ hp, h2 ▸ hc⟩

theorem mem_modify {s : KState} {k : Key} {g : Node → Node} {f' : Node} (h : f' ∈ (s.modify k g).nodes) :
    ∃ m ∈ s.nodes, f' = if m.key = k then g m else m := by
  unfold KState.modify at h
  obtain ⟨m, hm, rfl⟩ := List.mem_map.1 h
  exact ⟨m, hm, rfl⟩

theorem mem_modifyWhere {s : KState} {p : Node → Bool} {g : Node → Node} {f' : Node} (h : f' ∈ (s.modifyWhere p g).nodes) :
    ∃ m ∈ s.nodes, f' = if p m then g m else m := by
  unfold KState.modifyWhere at h
  obtain ⟨m, hm, rfl⟩ := List.mem_map.1 h
  exact ⟨m, hm, rfl⟩

/-- A row-by-row rewrite that keeps key, creator and file state. -/
theorem EdgeInv.modifySame {X : Key → Prop} {s : KState} (h : EdgeInv X s) (k : Key) (g : Node → Node)
    (hg : ∀ n, (g n).key = n.key ∧ (g n).creator = n.creator ∧ (g n).fstate = n.fstate) : EdgeInv X (s.modify k g) := by
  refine h.rowsSame rfl fun f' hf' => ?_
  obtain ⟨m, hm, rfl⟩ := mem_modify hf'
  refine ⟨m, hm, ?_⟩
  split
  · exact hg m
  · exact ⟨rfl, rfl, rfl⟩

/-- The row of `k` is replaced by a row with the key, creator and file state of the row found for `k`. -/
theorem EdgeInv.replaceSame {X : Key → Prop} {s : KState} (h : EdgeInv X s) {k : Key} {n n' : Node} (hf : s.find? k = some n)
    (h1 : n'.key = n.key) (h2 : n'.creator = n.creator) (h3 : n'.fstate = n.fstate) :
    EdgeInv X (s.modify k fun _ => n') := by
  refine h.rowsSame rfl fun f' hf' => ?_
  obtain ⟨m, hm, rfl⟩ := mem_modify hf'
  split
  · exact ⟨n, find_mem hf, h1, h2, h3⟩
  · exact ⟨m, hm, rfl, rfl, rfl⟩

/-- Any rewrite of the rows of an exempt key that keeps the key. -/
theorem EdgeInv.modifyExempt {X : Key → Prop} {s : KState} (h : EdgeInv X s) (k : Key) (g : Node → Node) (hX : X k)
    (hkey : ∀ n, n.key = k → (g n).key = k) : EdgeInv X (s.modify k g) := by
  refine h.mono ?_ (fun d hd1 _ _ _ _ _ _ _ => ⟨d, hd1, rfl, rfl⟩)
  intro f' hf' _ hx hp c hc
  obtain ⟨m, hm, rfl⟩ := mem_modify hf'
  by_cases hmk : m.key = k
  · rw [if_pos hmk] at hx
    exact absurd (by rw [hkey m hmk]; exact hX) hx
  · rw [if_neg hmk] at hp hc ⊢
    exact ⟨m, hm, rfl, hp, hc⟩

/-- `DELETE FROM dependency`: no deleted row is the edge from the creator into a claimed product row. -/
theorem EdgeInv.filterOf {X : Key → Prop} {s : KState} (h : EdgeInv X s) (p : Dep → Bool)
    (hq : ∀ d ∈ s.deps, p d = true → ∀ f ∈ s.nodes, f.key.kind = .file → ¬ X f.key → IsProduct f.fstate →
      f.creator = some d.src → d.snk = f.key → False) :
    EdgeInv X { s with deps := s.deps.filter fun d => !p d } := by
  refine h.mono (fun f' hf' _ _ hp c hc => ⟨f', hf', rfl, hp, hc⟩) ?_
  intro d hd f hf hk hx hp hc hsnk
  refine ⟨d, List.mem_filter.2 ⟨hd, ?_⟩, rfl, rfl⟩
  cases hpd : p d with
  | false => rfl
  | true => exact (hq d hd hpd f hf hk hx hp hc hsnk).elim

/-- **The invariant is stable under the context-free writes.** -/
theorem leafE (X : Key → Prop) : ELeaf (EdgeInv X) where
  cache := fun s p f hf hp => by
    refine hp.rowsSame rfl fun f' hf' => ?_
    obtain ⟨m, hm, rfl⟩ := mem_modifyWhere hf'
    refine ⟨m, hm, ?_⟩
    split
    · have h := hf m
      unfold Node.hard at h
      simp only [Prod.mk.injEq] at h
      exact ⟨h.1, h.2.1, h.2.2.2.1⟩
    · exact ⟨rfl, rfl, rfl⟩
  detached := fun s k d hp => hp.modifySame k _ (fun _ => ⟨rfl, rfl, rfl⟩)
  creator := fun s k c d _ hc hp => by
    refine hp.mono ?_ (fun d hd1 _ _ _ _ _ _ _ => ⟨d, hd1, rfl, rfl⟩)
    intro f' hf' hkind _ hpr c' hc'
    obtain ⟨m, hm, rfl⟩ := mem_modify hf'
    by_cases hmk : m.key = k
    · rw [if_pos hmk] at hkind hc'
      rcases hc with hc | hc
      · rw [hc] at hc'; cases hc'
      · exact absurd (hmk ▸ hkind) hc
    · rw [if_neg hmk] at hpr hc' ⊢
      exact ⟨m, hm, rfl, hpr, hc'⟩
  stepWrite := fun s k n n' st d hf hw hp => by
    have hrow : n'.key = n.key ∧ n'.fstate = n.fstate ∧ n'.creator = n.creator := by
      unfold stepRowWrite at hw
      dsimp only at hw
      split at hw
      · cases hw
      · simp only [pure, Except.pure, Except.ok.injEq] at hw
        subst hw
        exact ⟨rfl, rfl, rfl⟩
    exact hp.replaceSame hf hrow.1 hrow.2.2 hrow.2.1
  stepInit := fun s k i hp => by
    unfold KState.initStepRow
    exact hp.modifySame k _ (fun _ => ⟨rfl, rfl, rfl⟩)
  setHash := fun s k h hp => by
    unfold KState.setHash
    exact hp.modifySame k _ (fun _ => ⟨rfl, rfl, rfl⟩)
  deleteHash := fun s k hp => by
    unfold KState.deleteHash
    refine hp.modifySame k _ (fun n => ?_)
    split <;> exact ⟨rfl, rfl, rfl⟩
  bumpDefer := fun s k hp => hp.modifySame k _ (fun _ => ⟨rfl, rfl, rfl⟩)
  hold := fun s k hp => hp.modifySame k _ (fun _ => ⟨rfl, rfl, rfl⟩)
  release := fun s k n _ _ hp => hp.modifySame k _ (fun _ => ⟨rfl, rfl, rfl⟩)
  recycled := fun s k need shell hp => hp.modifySame k _ (fun _ => ⟨rfl, rfl, rfl⟩)
  addDep := fun s a b _ _ hp =>
    hp.mono (fun f' hf' _ _ hpr c hc => ⟨f', hf', rfl, hpr, hc⟩)
      (fun d hd1 _ _ _ _ _ _ _ => ⟨d, List.mem_append_left _ hd1, rfl, rfl⟩)
  filterDeps := fun s p hq hp => by
    refine hp.filterOf p ?_
    intro d hd hpd f _ hk _ _ _ hsnk
    exact hq d hd hpd (hsnk ▸ hk)
  markDyn := fun s a b dyn hp => by
    refine hp.mono (fun f' hf' _ _ hpr c hc => ⟨f', hf', rfl, hpr, hc⟩) ?_
    intro d hd1 _ _ _ _ _ _ _
    refine ⟨_, List.mem_map.2 ⟨d, hd1, rfl⟩, ?_, ?_⟩ <;> split <;> rfl
  appendNode := fun s k c _ _ hp => by
    refine hp.mono ?_ (fun d hd1 _ _ _ _ _ _ _ => ⟨d, hd1, rfl, rfl⟩)
    intro f' hf' _ _ hpr c' hc'
    unfold KState.appendNode at hf'
    simp only [List.mem_append, List.mem_singleton] at hf'
    rcases hf' with hf' | rfl
    · exact ⟨f', hf', rfl, hpr, hc'⟩
    · exact absurd hpr (by show ¬ IsProduct FileState.undeclared; decide)
  queueDelete := fun s path h hp => hp.congr rfl rfl
  clearQueue := fun s hp => hp.congr rfl rfl

/-! ## With one row per key -/

/-- The invariant with "one row per key". -/
def EK (X : Key → Prop) (s : KState) : Prop := EdgeInv X s ∧ KeysNodup s

theorem EK.keys {X : Key → Prop} {s : KState} (h : EK X s) : KeysUnique s := ku_of_kn h.2

theorem EK.weaken {X X' : Key → Prop} {s : KState} (h : EK X s) (hX : ∀ k, X k → X' k) : EK X' s :=
  ⟨h.1.weaken hX, h.2⟩

/-- An `ELeaf` predicate together with a `Stable` one. -/
theorem ELeaf.and {P Q : KState → Prop} (hP : ELeaf P) (hQ : Stable Q) : ELeaf (fun s => P s ∧ Q s) where
  cache := fun s p f hf h => ⟨hP.cache s p f hf h.1, hQ.cache s p f hf h.2⟩
  detached := fun s k d h => ⟨hP.detached s k d h.1, hQ.detached s k d h.2⟩
  creator := fun s k c d ha hc h => ⟨hP.creator s k c d ha hc h.1, hQ.creator s k c d ha h.2⟩
  stepWrite := fun s k n n' st d hf hw h => ⟨hP.stepWrite s k n n' st d hf hw h.1, hQ.stepWrite s k n n' st d hf hw h.2⟩
  stepInit := fun s k i h => ⟨hP.stepInit s k i h.1, hQ.stepInit s k i h.2⟩
  setHash := fun s k x h => ⟨hP.setHash s k x h.1, hQ.setHash s k x h.2⟩
  deleteHash := fun s k h => ⟨hP.deleteHash s k h.1, hQ.deleteHash s k h.2⟩
  bumpDefer := fun s k h => ⟨hP.bumpDefer s k h.1, hQ.bumpDefer s k h.2⟩
  hold := fun s k h => ⟨hP.hold s k h.1, hQ.hold s k trivial h.2⟩
  release := fun s k n hf hn h => ⟨hP.release s k n hf hn h.1, hQ.release s k n hf hn h.2⟩
  recycled := fun s k need shell h => ⟨hP.recycled s k need shell h.1, hQ.recycled s k need shell h.2⟩
  addDep := fun s a b hno hk h => ⟨hP.addDep s a b hno hk h.1, hQ.addDep s a b hno hk h.2⟩
  filterDeps := fun s p hq h => ⟨hP.filterDeps s p hq h.1, hQ.filterDeps s p h.2⟩
  markDyn := fun s a b dyn h => ⟨hP.markDyn s a b dyn h.1, hQ.markDyn s a b dyn h.2⟩
  appendNode := fun s k c hf hi h => ⟨hP.appendNode s k c hf hi h.1, hQ.appendNode s k c hf hi h.2⟩
  queueDelete := fun s path x h => ⟨hP.queueDelete s path x h.1, hQ.queueDelete s path x h.2⟩
  clearQueue := fun s h => ⟨hP.clearQueue s h.1, hQ.clearQueue s h.2⟩

theorem leafEK (X : Key → Prop) : ELeaf (EK X) := (leafE X).and stable_keysNodup

/-- A soft write (`Lemmas/DisciplineBase.lean`: same edges; rows keep key, creator, role) keeps the invariant. -/
theorem EdgeInv.soft {X : Key → Prop} {s s' : KState} (h : EdgeInv X s) (hr : SoftRel s s') : EdgeInv X s' := by
  refine h.mono ?_ (fun d hd1 _ _ _ _ _ _ _ => ⟨d, hr.deps ▸ hd1, rfl, rfl⟩)
  intro f' hf' _ _ hp c hc
  obtain ⟨f, hf, h1, _, ⟨h3, h4⟩, _⟩ := forall₂_mem_right hr.rows f' hf'
  exact ⟨f, hf, h1.symm, (isProduct_of_role h4).1 hp, h3 ▸ hc⟩

/-- An operation that is soft in the sense of `Lemmas/DisciplineSoft.lean` keeps the invariant. -/
theorem EK.of_soft {X : Key → Prop} {f : KState → M KState} (hf : ∀ s0, Preserves (SP s0) f) : Preserves (EK X) f := by
  intro s s' hp h
  have hsp := hf s s s' (SP.refl hp.keys) h
  exact ⟨hp.1.soft hsp.2, kn_of_ku hsp.keys⟩

theorem EK.soft {X : Key → Prop} {s s' : KState} (h : EK X s) (hr : SoftRel s s') : EK X s' :=
  ⟨h.1.soft hr, kn_of_ku (hr.keysUnique h.keys)⟩

theorem midEK (X : Key → Prop) : EMid (EK X) :=
  ⟨leafEK X, fun fuel k => EK.of_soft (fun s0 => markStepPending_soft fuel k)⟩

/-- `DELETE FROM dependency` with its flags, for rows that are not the edge from the creator into a claimed
product row. -/
theorem EK.deleteDeps_of {X : Key → Prop} {s : KState} (hp : EK X s) (p : Dep → Bool)
    (hq : ∀ d ∈ s.deps, p d = true → ∀ f ∈ s.nodes, f.key.kind = .file → ¬ X f.key → IsProduct f.fstate →
      f.creator = some d.src → d.snk = f.key → False) : EK X (s.deleteDeps p) := by
  unfold KState.deleteDeps
  generalize (s.deps.filter p) = gone
  have base : EK X ({ s with deps := s.deps.filter fun d => !p d } : KState) :=
    ⟨hp.1.filterOf p hq, stable_keysNodup.filterDeps s p hp.2⟩
  generalize ({ s with deps := s.deps.filter fun d => !p d } : KState) = s0 at base
  induction gone generalizing s0 with
  | nil => exact base
  | cons d ds ih =>
    simp only [List.foldl_cons]
    apply ih
    exact (leafEK X).flagDepEndpoints _ _ _ base

/-- The deleted rows end in exempt keys. -/
theorem EK.deleteDeps_exempt {X : Key → Prop} {s : KState} (hp : EK X s) (p : Dep → Bool)
    (hq : ∀ d ∈ s.deps, p d = true → X d.snk) : EK X (s.deleteDeps p) :=
  hp.deleteDeps_of p fun d hd hpd f _ _ hx _ _ hsnk => hx (hsnk ▸ hq d hd hpd)

/-! ## `Trellis.create` of a file row -/

/-- **What `Trellis.create` does** (one row per key): the row of `k` exists with the new creator (or none), and
the last thing done is `initialize_row` on a state that has the row (`SuccOut.create_post` without its
hypothesis on dangling edges, and without its statement on the edges). -/
theorem create_post' {s s' : KState} {k : Key} {creator : Option Key} {init : Init} (hku : KeysUnique s)
    (h : s.create k creator init = .ok s') :
    CInv k creator s s' ∧ ∃ (t : KState) (e : Bool), (t.find? k).isSome = true ∧ t.initRow k init e = .ok s' := by
  have hkn := kn_of_ku hku
  unfold KState.create at h
  cases hf : s.find? k with
  | some n =>
    simp only [hf] at h
    split at h
    · cases h
    · split at h
      · cases h
      · unfold KState.recycleCore at h
        simp only [bind, Except.bind] at h
        cases h1 : s.setCreator k creator (s.creatorDetached creator) with
        | error e => simp [h1] at h
        | ok s1 =>
          simp only [h1] at h
          cases h2 : s1.lostProduct n.creator with
          | error e => simp [h2] at h
          | ok s2 =>
            simp only [h2] at h
            cases h3 : (s2.deleteDeps fun dp => dp.snk = k).detachProducts k with
            | error e => simp [h3] at h
            | ok s3 =>
              simp only [h3] at h
              have hallow : s.creatorAllowed k creator (s.creatorDetached creator) = true := by
                unfold KState.setCreator at h1
                split at h1
                · assumption
                · cases h1
              have c1 : CInv k creator s s1 := by
                unfold KState.setCreator at h1
                rw [if_pos hallow] at h1
                simp only [pure, Except.pure, Except.ok.injEq] at h1
                subst h1
                have c0 : CInv k creator s (s.modify k fun n => { n with creator := creator }) := by
                  refine ⟨keep_modify s k _ (fun _ hm => hm), ?_, ?_⟩
                  · intro nk hnk
                    rw [find?_modify_k (fun n => { n with creator := creator }) (fun _ hm => hm), hf] at hnk
                    simp only [Option.map_some, Option.some.injEq] at hnk
                    rw [← hnk]; exact .inl rfl
                  · rw [find?_modify_k (fun n => { n with creator := creator }) (fun _ hm => hm), hf]; rfl
                exact c0.rel (structRel_setDetachedRow _ k _)
              have c2 := c1.soft (lostProduct_rel h2)
              have c3a := c2.rel (structRel_deleteDeps s2 fun dp => dp.snk = k)
              have r3 : StructRel (s2.deleteDeps fun dp => dp.snk = k) s3 := by
                unfold KState.detachProducts at h3
                exact structRel_foldl_detach _ _ _ h3
              have c3 := c3a.rel r3
              have hk1 := StableG.setCreator_preserves stable_keysNodup k creator _ s s1 hkn h1
              have hk2 := StableG.lostProduct_preserves stable_keysNodup n.creator s1 s2 hk1 h2
              have hk3a := StableG.deleteDeps stable_keysNodup s2 (fun dp => dp.snk = k) hk2
              have hk3 := StableG.detachProducts_preserves stable_keysNodup k _ s3 hk3a h3
              obtain ⟨c4, _, _⟩ := initRow_cinv (ku_of_kn hk3) c3 h
              exact ⟨c4, s3, true, c3.has, h⟩
  | none =>
    simp only [hf] at h
    split at h
    · rename_i hins
      have cA : CInv k creator s (s.appendNode k creator) := by
        obtain ⟨nk, hnk, hcr⟩ := find?_append_self creator hf
        refine ⟨keep_of_rowChange (rowChange_append s k creator), ?_, by rw [hnk]; rfl⟩
        intro nk' hnk'
        rw [hnk] at hnk'; cases hnk'; exact .inl hcr
      have hkA := stable_keysNodup.appendNode s k creator hf hins hkn
      obtain ⟨c4, _, _⟩ := initRow_cinv (ku_of_kn hkA) cA h
      exact ⟨c4, _, false, cA.has, h⟩
    · cases h

/-- `UPDATE file SET state` on the row of an exempt key. -/
theorem writeFile_exempt {X : Key → Prop} {s s' : KState} {k : Key} {st : FileState} {nh : Option (Option Nat)}
    (hp : EdgeInv X s) (hX : X k) (h : s.writeFile k st nh = .ok s') : EdgeInv X s' := by
  unfold KState.writeFile at h
  cases hf : s.find? k with
  | none => simp [hf, pure, Except.pure] at h; subst h; exact hp
  | some n =>
    simp only [hf, bind, Except.bind] at h
    cases hw : fileRowWrite n st nh with
    | error e => simp [hw] at h
    | ok n' =>
      simp only [hw, pure, Except.pure, Except.ok.injEq] at h
      obtain ⟨_, h2, _, _⟩ := SuccOut.fileRowWrite_cols hw
      have hmod : EdgeInv X (s.modify k fun _ => n') :=
        hp.modifyExempt k _ hX (fun _ _ => h2.trans (find?_key s k n hf))
      subst h
      split
      · exact (leafE X).flagReadySinks _ _ hmod
      · exact hmod

/-- `File.initialize_row` on the row of an exempt key. -/
theorem initFileRow_EK {X : Key → Prop} {t t' : KState} {k : Key} {st : FileState} {e : Bool} (hp : EK X t) (hX : X k)
    (hst : NoHashState st) (h : t.initFileRow k st e = .ok t') : EK X t' := by
  unfold KState.initFileRow at h
  simp only [bind, Except.bind] at h
  cases h1 : t.writeInitialFile k (t.keptState k st e) e with
  | error err => simp [h1] at h
  | ok t1 =>
    simp only [h1] at h
    have hk1 : KeysNodup t1 := by
      refine stable_keysNodup.writeInitialFile_preserves k _ e ?_ t t1 hp.2 h1
      intro hex
      subst hex
      rw [keptState_fresh]
      exact hst
    have hp1 : EdgeInv X t1 := by
      unfold KState.writeInitialFile at h1
      split at h1
      · exact writeFile_exempt hp.1 hX h1
      · split at h1
        · cases h1
        · simp only [pure, Except.pure, Except.ok.injEq] at h1
          subst h1
          exact (leafE X).flagReadySinks _ _ (hp.1.modifyExempt k _ hX (fun _ hn => hn))
    split at h
    · exact EK.of_soft (fun s0 => markFileOutdated_soft k) t1 t' ⟨hp1, hk1⟩ h
    · simp only [pure, Except.pure, Except.ok.injEq] at h; subst h; exact ⟨hp1, hk1⟩

/-- `Trellis.create` of a file row, the key exempt. -/
theorem createFile_exempt {X : Key → Prop} (k : Key) (creator : Option Key) (st : FileState) (hX : X k) (hst : NoHashState st) :
    Preserves (EK X) (fun s => s.create k creator (.file st)) := by
  intro s s' hp h
  replace h : s.create k creator (.file st) = .ok s' := h
  have L := leafEK X
  unfold KState.create at h
  cases hf : s.find? k with
  | some n =>
    simp only [hf] at h
    split at h
    · cases h
    · split at h
      · cases h
      · unfold KState.recycleCore at h
        refine bind_ok h (fun s1 h1 => ?_) ?_
        · refine ⟨?_, StableG.setCreator_preserves stable_keysNodup k creator _ s s1 hp.2 h1⟩
          unfold KState.setCreator at h1
          split at h1
          · simp only [pure, Except.pure, Except.ok.injEq] at h1
            subst h1
            exact (leafE X).setDetachedRow _ _ _ (hp.1.modifyExempt k _ hX (fun _ hn => hn))
          · cases h1
        · intro s1 s1' hp1 hh1
          refine bind_ok hh1 (fun s2 h2 => L.lostProduct_preserves n.creator s1 s2 hp1 h2) ?_
          intro s2 s2' hp2 hh2
          refine bind_ok hh2 (fun s3 h3 => L.detachProducts_preserves k _ s3
            (hp2.deleteDeps_exempt _ (fun d _ hd => by rw [of_decide_eq_true hd]; exact hX)) h3) ?_
          intro s3 s3' hp3 hh3
          exact initFileRow_EK hp3 hX hst hh3
  | none =>
    simp only [hf] at h
    split at h
    · rename_i hins
      exact initFileRow_EK (L.appendNode s k creator hf hins hp) hX hst h
    · cases h

/-- The row of `k` after `create k creator (.file st)`: its creator is `creator` or none, its state is `st` or
the BUILT/OUTDATED memory of a recycled row when UNDECLARED or PLANNED was requested. -/
theorem createFile_row {s s' : KState} {k : Key} {creator : Option Key} {st : FileState} (hku : KeysUnique s)
    (hst : st ≠ .built) (h : s.create k creator (.file st) = .ok s') :
    ∀ f, s'.find? k = some f → (f.creator = creator ∨ f.creator = none) ∧ SuccOut.KeptLike st f.fstate := by
  intro f hf
  obtain ⟨hcinv, t, e, hrow, hinit⟩ := create_post' hku h
  obtain ⟨x, hx, hlike⟩ := SuccOut.initFileRow_fstate hrow hst hinit
  refine ⟨hcinv.cr f hf, ?_⟩
  unfold KState.fstateOf at hx
  rw [hf] at hx
  simp only [Option.map_some, Option.some.injEq] at hx
  rw [hx]; exact hlike

/-- **`Trellis.create` of a file row for a static declaration (UNCONFIRMED) or a placeholder (UNDECLARED, no
creator) keeps the invariant**: the row is in no product state, or has no creator. -/
theorem createFile_EK (k : Key) (hk : k.kind = .file) (creator : Option Key) (st : FileState)
    (hst : st = .unconfirmed ∨ (st = .undeclared ∧ creator = none)) :
    Preserves (EK NoX) (fun s => s.create k creator (.file st)) := by
  intro s s' hp h
  replace h : s.create k creator (.file st) = .ok s' := h
  have hnh : NoHashState st := by
    rcases hst with rfl | ⟨rfl, _⟩
    · exact .inr (.inl rfl)
    · exact .inl rfl
  have hX : EK (fun x => x = k) s' :=
    createFile_exempt (X := fun x => x = k) k creator st rfl hnh s s' (hp.weaken fun _ hx => hx.elim) h
  refine ⟨hX.1.unexempt ?_, hX.2⟩
  intro f hf _ hxk _ hprod c hc
  have hfind : s'.find? k = some f := hxk ▸ find?_of_mem hX.keys hf
  have hne : st ≠ .built := by rcases hst with rfl | ⟨rfl, _⟩ <;> decide
  obtain ⟨hcr, hlike⟩ := createFile_row hp.keys hne h f hfind
  exfalso
  rcases hst with hst | ⟨hst, hcn⟩
  · rcases hlike with hl | ⟨hl, _⟩
    · rw [hl, hst] at hprod; revert hprod; decide
    · rw [hst] at hl; rcases hl with hl | hl <;> cases hl
  · rw [hcn] at hcr
    rcases hcr with hcr | hcr <;> (rw [hcr] at hc; cases hc)

/-! ## The declaration of a product -/

/-- **`_declare_file` + `file.add_source(step)`** for an output (PLANNED) or a volatile output: the row is
rewritten with the step as creator, the edges into it are deleted, the edge from the step is inserted. -/
theorem declareProduct_EK (cfg : KConfig) (step : Key) (p : String) (st : FileState)
    (hst : st = .planned ∨ st = .volatile) : Preserves (EK NoX) (fun s => s.declareProduct cfg step p st) := by
  intro s s' hp h
  replace h : s.declareProduct cfg step p st = .ok s' := h
  have hkeys := stable_keysNodup.declareProduct_preserves cfg step p st s s' hp.2 h
  refine ⟨?_, hkeys⟩
  unfold KState.declareProduct at h
  simp only [bind, Except.bind] at h
  cases h1 : s.declareFile cfg step p st with
  | error e => simp [h1] at h
  | ok s1 =>
    simp only [h1] at h
    have hnh : NoHashState st := by rcases hst with rfl | rfl <;> simp [NoHashState]
    have hcreate : s.create (fileKey p) (some step) (.file st) = .ok s1 := by
      unfold KState.declareFile at h1
      simp only [bind, Except.bind] at h1
      cases hg : s.declareFileGuard cfg step p st with
      | error e => simp [hg] at h1
      | ok u =>
        simp only [hg] at h1
        cases hc : s.create (fileKey p) (some step) (.file st) with
        | error e => simp [hc] at h1
        | ok s0 =>
          simp only [hc] at h1
          unfold KState.volatileSinkCheck at h1
          split at h1
          · simp [graphErr] at h1
          · simp only [pure, Except.pure, Except.ok.injEq] at h1; subst h1; rfl
    have hp1 : EK (fun x => x = fileKey p) s1 :=
      createFile_exempt (X := fun x => x = fileKey p) (fileKey p) (some step) st rfl hnh s s1 (hp.weaken fun _ hx => hx.elim) hcreate
    have hne : st ≠ .built := by rcases hst with rfl | rfl <;> decide
    have hrow := createFile_row hp.keys hne hcreate
    -- the edge
    unfold KState.addSourceChecked at h
    split at h
    · simp [bind, Except.bind, throw, throwThe, MonadExceptOf.throw] at h
    · simp only [pure, Except.pure, bind, Except.bind] at h
      unfold KState.insertDep at h
      simp only [bind, Except.bind, pure, Except.pure] at h
      split at h
      · cases h
      · split at h
        · cases h
        · simp only [Except.ok.injEq] at h
          subst h
          refine (leafE NoX).flagDepEndpoints _ step (fileKey p) ?_
          have hadd : EdgeInv (fun x => x = fileKey p)
              ({ s1 with deps := s1.deps ++ [({ src := step, snk := fileKey p } : Dep)] } : KState) :=
            hp1.1.mono (fun f' hf' _ _ hpr c hc => ⟨f', hf', rfl, hpr, hc⟩)
              (fun d hd1 _ _ _ _ _ _ _ => ⟨d, List.mem_append_left _ hd1, rfl, rfl⟩)
          refine hadd.unexempt ?_
          intro f hf _ hxk _ _ c hc
          have hfind : s1.find? (fileKey p) = some f := hxk ▸ find?_of_mem hp1.keys hf
          rcases (hrow f hfind).1 with hcr | hcr
          · rw [hcr] at hc
            refine ⟨{ src := step, snk := fileKey p }, List.mem_append_right _ (List.mem_singleton.2 rfl), ?_, hxk.symm⟩
            exact Option.some.inj hc
          · rw [hcr] at hc; cases hc

theorem topEK : ETop (EK NoX) :=
  ⟨midEK NoX, fun p creator st hst => createFile_EK (fileKey p) rfl creator st hst,
    fun cfg step p st hst => declareProduct_EK cfg step p st hst⟩

end StepupModel.K.OwnE
