import StepupModel.Lemmas.EverOutputReq
import StepupModel.Lemmas.Norm
/-!
# `EverOutput`: a file row is a product only of what some step declared

History-indexed statements over `KState.run` (all requests of `K/Request.lean`, accepted or rejected):

* `reachable_productOwned` (state invariant): after every history, a file row in a product state
  (PLANNED, BUILT, OUTDATED, VOLATILE) has a creator that is a step or a static tree, or it has no creator and is
  detached; `reachable_productOwnedByStep_partial`: the creator is a step when no `amend` request of the history
  is addressed to a static tree (`AmendsSteps`; the model accepts such a request, the director cannot make it).
* `ever_output`: after every history `h`, the label of every file row in a product state is
  `DeclaredAsProduct h`: some request of `h` that was accepted on the state reached by the requests before it
  is a `define` or an `amend` with that path among its (normalised) outputs or volatile outputs.
* `undeclared_is_detached` (clause I3 of C09): after every history an UNDECLARED file row is detached
  (and has no creator).
* `cleanup_queues_only_declared` (for C06): what the cleanup pass of `finalize` (`revert_optional_steps`, then
  `delete_detached`) adds to `to_be_deleted` on a reachable state is a directory key or a path that was declared
  as a product earlier in the history.

The proof is the invariant `Inv All A` of `Lemmas/EverOutputBase.lean` with `A := DeclaredAsProduct h`, which
every accepted request keeps (`exec_inv`, `Lemmas/EverOutputReq.lean`).
-/
namespace StepupModel.K.Ever
open StepupModel.K.MetaAfter StepupModel.K.Discipline StepupModel.Lemmas
set_option linter.unusedSimpArgs false
set_option linter.unusedVariables false

/-- Some request of `h` that was accepted (`exec` returned `.ok` on the state reached by the requests before
it) is a `define c d` with `path ∈ normPaths d.out ++ normPaths d.vol`, or an `amend k _ _ out vol _` with
`path ∈ normPaths out ++ normPaths vol`. -/
def DeclaredAsProduct (h : List (KConfig × Req)) (path : String) : Prop :=
  ∃ pre cfg r post, h = pre ++ (cfg, r) :: post ∧ (∃ res, (KState.init.run pre).exec cfg r = .ok res) ∧
    ReqDeclares r path

/-- The same, for a history that starts in `s` (recursive form). -/
def DeclaredFrom : KState → List (KConfig × Req) → String → Prop
  | _, [], _ => False
  | s, cr :: rest, p => ((∃ res, s.exec cr.1 cr.2 = .ok res) ∧ ReqDeclares cr.2 p) ∨ DeclaredFrom (s.step cr.1 cr.2) rest p

theorem run_append (s : KState) (a b : List (KConfig × Req)) : s.run (a ++ b) = (s.run a).run b := by
  unfold KState.run; rw [List.foldl_append]

theorem run_cons (s : KState) (cr : KConfig × Req) (rest : List (KConfig × Req)) :
    s.run (cr :: rest) = (s.step cr.1 cr.2).run rest := rfl

theorem declaredFrom_iff (s : KState) (h : List (KConfig × Req)) (p : String) :
    DeclaredFrom s h p ↔ ∃ pre cfg r post, h = pre ++ (cfg, r) :: post ∧ (∃ res, (s.run pre).exec cfg r = .ok res) ∧
      ReqDeclares r p := by
  induction h generalizing s with
  | nil =>
    constructor
    · intro hh; exact hh.elim
    · rintro ⟨pre, cfg, r, post, he, _⟩
      cases pre <;> cases he
  | cons cr rest ih =>
    constructor
    · intro hh
      rcases hh with ⟨hok, hd⟩ | hh
      · exact ⟨[], cr.1, cr.2, rest, rfl, hok, hd⟩
      · obtain ⟨pre, cfg, r, post, he, hok, hd⟩ := (ih _).1 hh
        exact ⟨cr :: pre, cfg, r, post, by rw [he]; rfl, by rw [run_cons]; exact hok, hd⟩
    · rintro ⟨pre, cfg, r, post, he, hok, hd⟩
      cases pre with
      | nil =>
        simp only [List.nil_append, List.cons.injEq] at he
        obtain ⟨rfl, rfl⟩ := he
        exact .inl ⟨hok, hd⟩
      | cons x pre =>
        simp only [List.cons_append, List.cons.injEq] at he
        obtain ⟨rfl, rfl⟩ := he
        exact .inr ((ih _).2 ⟨pre, cfg, r, post, rfl, by rw [run_cons] at hok; exact hok, hd⟩)

theorem declaredAsProduct_iff (h : List (KConfig × Req)) (p : String) :
    DeclaredAsProduct h p ↔ DeclaredFrom KState.init h p := (declaredFrom_iff KState.init h p).symm

/-- The `amend` requests of a history whose node is a step or a static tree are addressed to nodes of `O`. -/
def AmendOK (O : Key → Prop) (h : List (KConfig × Req)) : Prop :=
  ∀ cr ∈ h, ∀ k, ReqAmends cr.2 k → OwnerKind k → O k

/-- One transaction: accepted (then what it declares is allowed) or rolled back. -/
theorem step_inv {O : Key → Prop} {A : String → Prop} (cfg : KConfig) (r : Req) (s : KState)
    (hstep : ∀ c, c.kind = .step → O c) (ho : ∀ k, ReqAmends r k → OwnerKind k → O k) (hp : Inv O All A s) :
    Inv O All (fun p => A p ∨ ((∃ res, s.exec cfg r = .ok res) ∧ ReqDeclares r p)) (s.step cfg r) := by
  unfold KState.step
  cases h : s.exec cfg r with
  | error e => exact hp.mono (fun _ _ hx => hx) (fun _ ha => .inl ha)
  | ok res =>
    obtain ⟨s', out⟩ := res
    refine exec_inv cfg r s (s', out) hstep ho (fun p hd => .inr ⟨⟨_, rfl⟩, hd⟩)
      (hp.mono (fun _ _ hx => hx) (fun _ ha => .inl ha)) h

/-- The invariant along a history, with the declarations of the history added to `A`. -/
theorem run_inv {O : Key → Prop} {A : String → Prop} (h : List (KConfig × Req)) (s : KState)
    (hstep : ∀ c, c.kind = .step → O c) (ho : AmendOK O h) (hp : Inv O All A s) :
    Inv O All (fun p => A p ∨ DeclaredFrom s h p) (s.run h) := by
  induction h generalizing s A with
  | nil => exact hp.mono (fun _ _ hx => hx) (fun _ ha => .inl ha)
  | cons cr rest ih =>
    rw [run_cons]
    refine (ih _ (fun x hx => ho x (List.mem_cons_of_mem _ hx))
      (step_inv cr.1 cr.2 s hstep (ho cr List.mem_cons_self) hp)).mono (fun _ _ hx => hx) ?_
    intro p hh
    rcases hh with (ha | hd) | hr
    · exact .inl ha
    · exact .inr (.inl hd)
    · exact .inr (.inr hr)

theorem init_inv (O : Key → Prop) : Inv O All (fun _ => False) KState.init := by
  refine ⟨by unfold KeysUnique KState.init; simp, ?_, ?_, ?_⟩ <;>
  · intro n hn hk
    simp only [KState.init, List.mem_singleton] at hn
    subst hn
    cases hk

/-- The invariant after every history whose `amend` requests are addressed to nodes of `O`. -/
theorem reachable_invO {O : Key → Prop} (h : List (KConfig × Req)) (hstep : ∀ c, c.kind = .step → O c)
    (ho : AmendOK O h) : Inv O All (DeclaredAsProduct h) (KState.init.run h) := by
  refine (run_inv h KState.init hstep ho (init_inv O)).mono (fun _ _ hx => hx) ?_
  intro p hh
  rcases hh with hf | hd
  · exact hf.elim
  · exact (declaredAsProduct_iff h p).2 hd

/-- **The invariant after every history.** -/
theorem reachable_inv (h : List (KConfig × Req)) : Inv OwnerKind All (DeclaredAsProduct h) (KState.init.run h) :=
  reachable_invO h (fun _ hc => .inl hc) (fun _ _ _ _ hk => hk)

/-- Every `amend` request of the history is addressed to something that is not a static tree (the
director only ever amends the step that is running: `DirectorHandler.amend` looks the node up as a `Step`). -/
def AmendsSteps (h : List (KConfig × Req)) : Prop := ∀ cr ∈ h, ∀ k, ReqAmends cr.2 k → k.kind ≠ .st

theorem reachable_inv_steps (h : List (KConfig × Req)) (ha : AmendsSteps h) :
    Inv (fun c => c.kind = .step) All (DeclaredAsProduct h) (KState.init.run h) := by
  refine reachable_invO h (fun _ hc => hc) ?_
  intro cr hcr k hk hown
  rcases hown with hs | hs
  · exact hs
  · exact absurd hs (ha cr hcr k hk)

/-! ## The statements -/

/-- Goal 1, the state invariant: a file row in a product state is owned by a step (or a static tree: the
schema lets a tree be the creator of a file and the source of an edge into it, and `amend_step` does not
look at the kind of the node it is asked to amend), or it is an orphan: no creator, detached. -/
def ProductOwned (s : KState) : Prop :=
  ∀ n ∈ s.nodes, n.key.kind = .file → IsProduct n.fstate →
    (∃ c, n.creator = some c ∧ (c.kind = .step ∨ c.kind = .st)) ∨ (n.creator = none ∧ n.detached = true)

/-- **`ProductOwned` holds after every history** of accepted and rejected requests. -/
theorem reachable_productOwned (h : List (KConfig × Req)) : ProductOwned (KState.init.run h) := by
  intro n hn hk hp
  have hI := reachable_inv h
  cases hc : n.creator with
  | some c => exact .inl ⟨c, rfl, hI.own n hn hk trivial hp c hc⟩
  | none =>
    refine .inr ⟨rfl, ?_⟩
    cases hd : n.detached with
    | true => rfl
    | false =>
      have hne : n.key ≠ rootKey := by intro he; rw [he] at hk; cases hk
      obtain ⟨c, cn, hcc, _⟩ := (creatorOK_reachable h).2.1 n hn hne hd
      rw [hc] at hcc; cases hcc

/-- The sharper form: the owner is a step. -/
def ProductOwnedByStep (s : KState) : Prop :=
  ∀ n ∈ s.nodes, n.key.kind = .file → IsProduct n.fstate →
    (∃ c, n.creator = some c ∧ c.kind = .step) ∨ (n.creator = none ∧ n.detached = true)

/-- `ProductOwnedByStep` after every history that amends steps only (`AmendsSteps`).  Without the
hypothesis the model accepts `define root plan; tree plan t; amend st:t/ out=[x]` and ends with the PLANNED
row `x` created by the tree `t/` (`#eval`; the protocol of the harness cannot even express that request, its
`amend` resolves the node with `find(Step, label)`). -/
theorem reachable_productOwnedByStep_partial (h : List (KConfig × Req)) (ha : AmendsSteps h) :
    ProductOwnedByStep (KState.init.run h) := by
  intro n hn hk hp
  have hI := reachable_inv_steps h ha
  cases hc : n.creator with
  | some c => exact .inl ⟨c, rfl, hI.own n hn hk trivial hp c hc⟩
  | none =>
    refine .inr ⟨rfl, ?_⟩
    cases hd : n.detached with
    | true => rfl
    | false =>
      have hne : n.key ≠ rootKey := by intro he; rw [he] at hk; cases hk
      obtain ⟨c, cn, hcc, _⟩ := (creatorOK_reachable h).2.1 n hn hne hd
      rw [hc] at hcc; cases hcc

/-- **`EverOutput`.**  After every history `h`, a file row is in a product state (PLANNED, BUILT, OUTDATED,
VOLATILE) only if its path was declared as an output or a volatile output by an accepted `define` or `amend`
request of `h`. -/
theorem ever_output (h : List (KConfig × Req)) :
    ∀ n ∈ (KState.init.run h).nodes, n.key.kind = .file →
      (n.fstate.role? = some .output ∨ n.fstate.role? = some .volatile) → DeclaredAsProduct h n.key.label :=
  fun n hn hk hp => (reachable_inv h).prod n hn hk hp

/-- The same with the states spelled out. -/
theorem ever_output_states (h : List (KConfig × Req)) :
    ∀ n ∈ (KState.init.run h).nodes, n.key.kind = .file →
      (n.fstate = .planned ∨ n.fstate = .built ∨ n.fstate = .outdated ∨ n.fstate = .volatile) →
      DeclaredAsProduct h n.key.label :=
  fun n hn hk hp => ever_output h n hn hk ((isProduct_iff n.fstate).2 hp)

/-- **Clause I3 of C09: a file without any declaration is detached** (and has no creator), after every
history. -/
theorem undeclared_is_detached (h : List (KConfig × Req)) :
    ∀ n ∈ (KState.init.run h).nodes, n.key.kind = .file → n.fstate = .undeclared → n.detached = true :=
  fun n hn hk hu => ((reachable_inv h).und n hn hk trivial hu).1

theorem undeclared_has_no_creator (h : List (KConfig × Req)) :
    ∀ n ∈ (KState.init.run h).nodes, n.key.kind = .file → n.fstate = .undeclared → n.creator = none :=
  fun n hn hk hu => ((reachable_inv h).und n hn hk trivial hu).2

/-! ## Cleanup (for C06) -/

/-- What `revert_optional_steps` queues for a row of a reachable state was declared as a product. -/
theorem revertEntry_declared (h : List (KConfig × Req)) (n : Node) (e : String × Option Nat)
    (hn : n ∈ (KState.init.run h).nodes) (he : RevertEntryOf n e) : DeclaredAsProduct h e.1 := by
  obtain ⟨h1, h2, h3, _⟩ := he
  rw [h2]
  refine ever_output_states h n hn h1 ?_
  rcases h3 with g | g | g
  · exact .inr (.inr (.inr g))
  · exact .inr (.inl g)
  · exact .inr (.inr (.inl g))

/-- What `before_delete` queues (`FileEntryOf`, i.e. `OutputEntryOf` of `Props/C06.lean`) for a row of the
state between the two halves of the cleanup pass was declared as a product. -/
theorem fileEntry_declared (h : List (KConfig × Req)) (s1 : KState) (hr : (KState.init.run h).revertOptional = .ok s1)
    (n : Node) (e : String × Option Nat) (hn : n ∈ s1.nodes) (he : FileEntryOf n.core e) : DeclaredAsProduct h e.1 := by
  have hI : Inv OwnerKind All (DeclaredAsProduct h) s1 := Inv.of_soft (fun s0 => revertOptional_soft) _ s1 (reachable_inv h) hr
  obtain ⟨h1, h2, h3, _⟩ := he
  rw [h2]
  refine hI.prod n hn h1 ((isProduct_iff n.fstate).2 ?_)
  rcases h3 with g | g | g
  · exact .inr (.inr (.inr g))
  · exact .inr (.inl g)
  · exact .inr (.inr (.inl g))

/-- **Corollary for C06.**  The cleanup pass of `finalize` (`revert_optional_steps`, then `delete_detached`)
on the state reached by any history: whatever is in `to_be_deleted` afterwards was there before, or is a
directory key, or is a path that an accepted `define` / `amend` of the history declared as an output or a
volatile output. -/
theorem cleanup_queues_only_declared (h : List (KConfig × Req)) (s1 s2 : KState)
    (h1 : (KState.init.run h).revertOptional = .ok s1) (h2 : s1.deleteDetached = .ok s2) :
    ∀ e ∈ s2.toBeDeleted, e ∈ (KState.init.run h).toBeDeleted ∨ IsDirEntry e ∨ DeclaredAsProduct h e.1 := by
  intro e he
  obtain ⟨st, q, hb⟩ := deleteDetached_split s1 s2 h2
  obtain ⟨D, spec⟩ := deleteDetachedBase_spec st s2 hb
  rcases spec.queue e he with g1 | g2 | ⟨c, hc, _, _, hfe⟩
  · rw [q.2] at g1
    rcases (revertOptional_spec _ s1 h1).queue e g1 with k1 | k2 | ⟨n, hn, hre, _⟩
    · exact .inl k1
    · exact .inr (.inl k2)
    · exact .inr (.inr (revertEntry_declared h n e hn hre))
  · exact .inr (.inl g2)
  · obtain ⟨n, hn, rfl⟩ := List.mem_map.1 hc
    have hv : n.fview ∈ s1.fviews := q.1 ▸ mem_fviews st n hn
    obtain ⟨m, hm, hmv⟩ := List.mem_map.1 hv
    have hk : m.key = n.key := congrArg (fun v => v.1) hmv
    have hst : m.fstate = n.fstate := congrArg (fun v => v.2.1) hmv
    obtain ⟨g1, g2, g3, g4, g5⟩ := hfe
    have g1' : n.key.kind = .file := g1
    have g2' : e.1 = n.key.label := g2
    have g3' : n.fstate = .volatile ∨ n.fstate = .built ∨ n.fstate = .outdated := g3
    refine .inr (.inr (fileEntry_declared h s1 h1 m e hm ⟨?_, ?_, ?_, ?_, ?_⟩))
    · show m.key.kind = .file
      rw [hk]; exact g1'
    · show e.1 = m.key.label
      rw [hk]; exact g2'
    · show m.fstate = .volatile ∨ m.fstate = .built ∨ m.fstate = .outdated
      rw [hst]; exact g3'
    · show e.2 = none ↔ m.fstate = .volatile
      rw [hst]; exact g4
    · show ∀ hh, e.2 = some hh → m.fhash = some hh
      have hh : m.fhash = n.fhash := congrArg (fun v => v.2.2) hmv
      rw [hh]; exact g5

/-- The declared paths without the normalisation (`sorted(set(...))` keeps the elements). -/
theorem reqDeclares_define (c : Key) (d : StepDecl) (p : String) :
    ReqDeclares (.define c d) p ↔ p ∈ d.out ∨ p ∈ d.vol := by
  show p ∈ normPaths d.out ++ normPaths d.vol ↔ _
  rw [List.mem_append, mem_normPaths, mem_normPaths]

theorem reqDeclares_amend (k : Key) (inp env out vol : List String) (conc : List Key) (p : String) :
    ReqDeclares (.amend k inp env out vol conc) p ↔ p ∈ out ∨ p ∈ vol := by
  show p ∈ normPaths out ++ normPaths vol ↔ _
  rw [List.mem_append, mem_normPaths, mem_normPaths]

/-! ## Non-vacuity -/

/-- A state with an owned output, an orphaned volatile output and a placeholder. -/
def exampleState : KState :=
  { nodes := [
      { key := rootKey, creator := some rootKey },
      { key := stepKey "s", creator := some rootKey },
      { key := fileKey "o", creator := some (stepKey "s"), fstate := .planned },
      { key := fileKey "v", creator := none, detached := true, fstate := .volatile },
      { key := fileKey "i", creator := none, detached := true, fstate := .undeclared }],
    deps := [{ src := stepKey "s", snk := fileKey "o" }] }

/-- The invariant is satisfiable by a state with product rows, for a proper set of labels. -/
example : Inv (fun c => c.kind = .step) All (fun p => p = "o" ∨ p = "v") exampleState := by
  refine ⟨by unfold KeysUnique; decide, ?_, ?_, ?_⟩
  · intro n hn hk hp
    simp only [exampleState, List.mem_cons, List.not_mem_nil, or_false] at hn
    rcases hn with rfl | rfl | rfl | rfl | rfl
    · cases hk
    · cases hk
    · exact .inl rfl
    · exact .inr rfl
    · exact absurd hp (by decide)
  · intro n hn hk _ hp c hc
    simp only [exampleState, List.mem_cons, List.not_mem_nil, or_false] at hn
    rcases hn with rfl | rfl | rfl | rfl | rfl
    · cases hk
    · cases hk
    · cases hc; rfl
    · cases hc
    · cases hc
  · intro n hn hk _ hu
    simp only [exampleState, List.mem_cons, List.not_mem_nil, or_false] at hn
    rcases hn with rfl | rfl | rfl | rfl | rfl
    · cases hk
    · cases hk
    · cases hu
    · cases hu
    · exact ⟨rfl, rfl⟩

/-- ... and it is not trivially true: a product row whose label is not allowed breaks it. -/
example : ¬ Inv OwnerKind All (fun p => p = "v") exampleState := by
  intro h
  have := h.prod { key := fileKey "o", creator := some (stepKey "s"), fstate := .planned }
    (by simp [exampleState]) rfl (.inl rfl)
  exact absurd this (by decide)

/-- The hypotheses of the cleanup corollary are satisfiable. -/
example : ∃ s1 s2, (KState.init.run []).revertOptional = .ok s1 ∧ s1.deleteDetached = .ok s2 := ⟨_, _, rfl, rfl⟩

/-- `DeclaredAsProduct` is not trivially true ... -/
example : ¬ DeclaredAsProduct [] "o" := by
  rintro ⟨pre, cfg, r, post, he, _⟩
  cases pre <;> cases he

example : ¬ DeclaredAsProduct [({}, .clearQueue), ({}, .static rootKey ["o"])] "o" := by
  rw [declaredAsProduct_iff]
  rintro (⟨_, h⟩ | ⟨_, h⟩ | h) <;> exact h

/-- ... nor trivially false: an accepted `define` with the output `o` declares `o` (`hacc`: that the request
is accepted on the empty workflow needs `Step.adjust_label`, `str.endswith`, `str.startswith`, which the kernel
cannot evaluate; `#eval` gives the rows `root`, `step:c`, `file:o` PLANNED). -/
example (hacc : ∃ res, KState.init.exec {} (.define rootKey { cmd := "c", out := ["o"] }) = .ok res) :
    DeclaredAsProduct [({}, .define rootKey { cmd := "c", out := ["o"] })] "o" :=
  ⟨[], {}, _, [], rfl, hacc, by
    show "o" ∈ normPaths ["o"] ++ normPaths []
    have : normPaths ["o"] = ["o"] := by simp [normPaths, sortStrs, dedupSorted]
    rw [this]; exact List.mem_append_left _ List.mem_cons_self⟩

end StepupModel.K.Ever
