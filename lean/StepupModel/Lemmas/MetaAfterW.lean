import StepupModel.Lemmas.MetaAfter
/-!
# `_update_meta_after` under the flag discipline the code really maintains

`CacheInvAfter` (every unflagged attached step is locally correct) is false on ordinary histories:
inserting an edge `f → use` flags `use` but not the producer `gen` of `f`, whose local equation now
mentions `use`.  The code is right all the same, because the first round of the loop writes ALL work
items and propagates from all of them, so `gen` is in the second work set.  The discipline that is
needed is `CacheInvAfterW`: an unflagged attached step is locally correct OR one of its attached
consumer steps is flagged.  The main results of `Lemmas/MetaAfter.lean` are re-proved under it
(`..._weak`); `cacheInvAfter_imp_weak` shows that they imply the old ones.
-/
namespace StepupModel.K.MetaAfter

/-- The weak flag discipline: an unflagged attached step satisfies its local equation, or one of its
(attached) consumer steps is flagged. -/
def CacheInvAfterW (s : KState) (cfg : KConfig) : Prop :=
  ∀ n ∈ s.nodes, n.key.kind = .step → n.detached = false → n.checkAfter = false →
    AfterLocal s cfg n ∨ ∃ m ∈ s.consumerSteps n.key, m.checkAfter = true

theorem cacheInvAfter_imp_weak {s : KState} {cfg : KConfig} (h : CacheInvAfter s cfg) : CacheInvAfterW s cfg :=
  fun n hn h1 h2 h3 => .inl (h n hn h1 h2 h3)

/-! ## The loop -/

/-- In the first round every work item that has a row is written. -/
theorem written_first {s : KState} {cfg : KConfig} {work : List Key} {k : Key} {n : Node}
    (hk : k ∈ work) (hf : s.find? k = some n) : k ∈ (s.afterUpdates cfg work true).map (·.1) := by
  cases hv : s.afterValues cfg n with
  | mk nd tl =>
    refine List.mem_map.2 ⟨(k, nd, tl), ?_, rfl⟩
    unfold KState.afterUpdates
    refine List.mem_filterMap.2 ⟨k, hk, ?_⟩
    rw [hf]
    simp only [hv]
    rw [if_pos (Or.inl trivial)]

/-- The invariant with which a round may start: outside the work set, a step is locally correct or
has a consumer that this round writes. -/
def LoopInvW (s : KState) (cfg : KConfig) (work : List Key) (first : Bool) : Prop :=
  ∀ n ∈ s.nodes, n.key.kind = .step → n.detached = false → n.key ∉ work →
    AfterLocal s cfg n ∨ ∃ m ∈ s.consumerSteps n.key, m.key ∈ (s.afterUpdates cfg work first).map (·.1)

theorem loopInv_imp_weak {s : KState} {cfg : KConfig} {work : List Key} {first : Bool}
    (h : LoopInv s cfg work) : LoopInvW s cfg work first :=
  fun n hn h1 h2 h3 => .inl (h n hn h1 h2 h3)

/-- **One round, from the weak invariant**: afterwards the strong invariant holds. -/
theorem round_inv_weak (s : KState) (cfg : KConfig) (work : List Key) (first : Bool) (hk : KeysUnique s)
    (hI : LoopInvW s cfg work first) :
    LoopInv (s.applyAfterUpdates (s.afterUpdates cfg work first)) cfg
      ((s.applyAfterUpdates (s.afterUpdates cfg work first)).propagateAfter
        ((s.afterUpdates cfg work first).map (·.1))) := by
  unfold LoopInvW at hI
  generalize hu : s.afterUpdates cfg work first = u at hI
  rw [applyAfterUpdates_eq]
  have hfr : AfterFrame s { s with nodes := s.nodes.map (applyG u) } := frame_mapNodes s _ (applyG_erase u)
  have hfind : ∀ k, ({ s with nodes := s.nodes.map (applyG u) } : KState).find? k = (s.find? k).map (applyG u) :=
    find?_mapNodes s _ (applyG_key u)
  intro n' hn' hstep hatt hnw
  obtain ⟨n, hn, rfl⟩ := List.mem_map.1 hn'
  have hkey := applyG_key u n
  have hstep0 : n.key.kind = .step := by rw [← hkey]; exact hstep
  have hatt0 : n.detached = false := by rw [← eraseAfter_detached (applyG_erase u n)]; exact hatt
  have hself := find?_of_mem hk hn
  by_cases hA : ∃ m ∈ s.consumerSteps n.key, m.key ∈ u.map (·.1)
  · exfalso
    apply hnw
    obtain ⟨m, hm, hw⟩ := hA
    obtain ⟨f, hf, c, hc, hfm, _, _⟩ := mem_consumerSteps.1 hm
    rw [mem_propagateAfter]
    refine ⟨⟨m.key, hw, f, ?_, ?_⟩, applyG u n, ?_, hstep, hatt⟩
    · rw [hkey]; exact mem_sinksOf.1 hf
    · rw [find_key hfm]; exact mem_sinksOf.1 hc
    · rw [hfind, hkey, hself]; rfl
  · have hB : ∀ m ∈ s.consumerSteps n.key, m.key ∉ u.map (·.1) := fun m hm hw => hA ⟨m, hm, hw⟩
    have hval : ({ s with nodes := s.nodes.map (applyG u) } : KState).afterValues cfg (applyG u n) =
        s.afterValues cfg n := by
      apply afterValues_frame hfr cfg (applyG_erase u n)
      intro m hm m' hm'
      obtain ⟨f, hf, c, hc, hfm, _, _⟩ := mem_consumerSteps.1 hm
      have hmm : s.find? m.key = some m := by rw [find_key hfm]; exact hfm
      rw [hfind, hmm] at hm'
      simp only [Option.map_some, Option.some.injEq] at hm'
      rw [← hm', applyG_not_written (hB m hm)]
      exact ⟨rfl, rfl⟩
    unfold AfterLocal
    rw [hval]
    by_cases hw : n.key ∈ u.map (·.1)
    · obtain ⟨need, tail, hmem, heq⟩ := applyG_written hw
      rw [heq]
      simp only
      rw [← hu] at hmem
      obtain ⟨_, n0, hf0, hv⟩ := mem_afterUpdates hmem
      rw [hself] at hf0
      cases hf0
      exact hv
    · rw [applyG_not_written hw]
      by_cases hin : n.key ∈ work
      · rw [← hu] at hw
        exact not_written_local hin hself hw
      · rcases hI n hn hstep0 hatt0 hin with h | ⟨m, hm, hmw⟩
        · exact h
        · exact absurd hmw (hB m hm)

/-- **The loop from the weak invariant.** -/
theorem afterLoop_correct_weak (cfg : KConfig) (fuel : Nat) (s s' : KState) (work : List Key) (first : Bool)
    (hk : KeysUnique s) (hI : LoopInvW s cfg work first) (h : KState.afterLoop cfg fuel s work first = some s') :
    AfterConsistent s' cfg ∧ AfterFrame s s' := by
  have hnil : work = [] → AfterConsistent s cfg := by
    intro he n hn h1 h2
    subst he
    rcases hI n hn h1 h2 List.not_mem_nil with h | ⟨m, _, hm⟩
    · exact h
    · simp [KState.afterUpdates] at hm
  cases fuel with
  | zero =>
    unfold KState.afterLoop at h
    split at h
    · rename_i he
      simp only [Option.some.injEq] at h; subst h
      exact ⟨hnil (List.isEmpty_iff.1 he), AfterFrame.refl _⟩
    · cases h
  | succ fuel =>
    unfold KState.afterLoop at h
    split at h
    · rename_i he
      simp only [Option.some.injEq] at h; subst h
      exact ⟨hnil (List.isEmpty_iff.1 he), AfterFrame.refl _⟩
    · have := afterLoop_correct cfg fuel _ s' _ false (keysUnique_applyAfterUpdates s _ hk)
        (round_inv_weak s cfg work first hk hI) h
      exact ⟨this.1, (frame_applyAfterUpdates s _).trans this.2⟩

/-- The initial work set and the weak discipline give the weak invariant of the first round. -/
theorem loopInvW_initial {s : KState} {cfg : KConfig} (hc : CacheInvAfterW s cfg) :
    LoopInvW s cfg ((s.nodes.filter fun n => n.key.kind = .step ∧ !n.detached ∧ n.checkAfter).map (·.key)) true := by
  intro n hn h1 h2 hnw
  have hunfl : n.checkAfter = false := by
    cases hf : n.checkAfter with
    | false => rfl
    | true =>
      exfalso; apply hnw
      exact List.mem_map.2 ⟨n, List.mem_filter.2 ⟨hn, by simp [h1, h2, hf]⟩, rfl⟩
  rcases hc n hn h1 h2 hunfl with h | ⟨m, hm, hflag⟩
  · exact .inl h
  · right
    obtain ⟨hfm, hs, hd⟩ := consumer_find hm
    refine ⟨m, hm, written_first ?_ hfm⟩
    exact List.mem_map.2 ⟨m, List.mem_filter.2 ⟨find_mem hfm, by simp [hs, hd, hflag]⟩, rfl⟩

/-- **Worklist correctness of `_update_meta_after` under the weak flag discipline.** -/
theorem updateMetaAfter_correct_weak (s s' : KState) (cfg : KConfig) (hk : KeysUnique s)
    (hc : CacheInvAfterW s cfg) (h : s.updateMetaAfter cfg = .ok s') :
    AfterConsistent s' cfg ∧ (∀ n ∈ s'.nodes, n.key.kind = .step → n.checkAfter = false) ∧ AfterFrame s s' := by
  unfold KState.updateMetaAfter at h
  split at h
  · rename_i hno
    simp only [pure, Except.pure, Except.ok.injEq] at h; subst h
    have hflag : ∀ n ∈ s.nodes, n.key.kind = .step → n.checkAfter = false := by
      intro n hn hs
      cases hf : n.checkAfter with
      | false => rfl
      | true =>
        have : (s.nodes.any fun n => n.key.kind = .step ∧ n.checkAfter) = true :=
          List.any_eq_true.2 ⟨n, hn, by simp [hs, hf]⟩
        rw [this] at hno; cases hno
    refine ⟨fun n hn h1 h2 => ?_, hflag, AfterFrame.refl _⟩
    rcases hc n hn h1 h2 (hflag n hn h1) with h | ⟨m, hm, hmf⟩
    · exact h
    · obtain ⟨hfm, hs, _⟩ := consumer_find hm
      rw [hflag m (find_mem hfm) hs] at hmf; cases hmf
  · dsimp only at h
    split at h
    · rename_i st hst
      simp only [pure, Except.pure, Except.ok.injEq] at h; subst h
      obtain ⟨hcons, hfr⟩ := afterLoop_correct_weak cfg _ s st _ _ hk (loopInvW_initial hc) hst
      have hg : ∀ n : Node, eraseAfter (if (decide (n.key.kind = Kind.step)) = true then { n with checkAfter := false } else n)
          = eraseAfter n := by
        intro n; split <;> rfl
      refine ⟨?_, ?_, hfr.trans ?_⟩
      · refine afterConsistent_mapNodes st cfg _ hg ?_ ?_ hcons
        · intro n; split <;> rfl
        · intro n; split <;> rfl
      · intro n hn hs
        unfold KState.modifyWhere at hn
        obtain ⟨m, _, rfl⟩ := List.mem_map.1 hn
        by_cases hm : m.key.kind = Kind.step
        · simp only [hm, decide_true, if_true]
        · simp only [hm, decide_false, Bool.false_eq_true, if_false] at hs
      · exact frame_mapNodes st _ hg
    · cases h

/-! ## Uniqueness, incremental = from scratch -/

theorem updateMetaAfter_unique_solution_weak (s s' t : KState) (cfg : KConfig) (hk : KeysUnique s)
    (hc : CacheInvAfterW s cfg) (h : s.updateMetaAfter cfg = .ok s')
    (hft : AfterFrame s t) (ht : AfterConsistent t cfg) :
    ∀ n ∈ s'.nodes, ∀ m ∈ t.nodes, m.key = n.key → n.key.kind = .step → n.detached = false →
      n.impliedNeed = m.impliedNeed ∧ n.tail = m.tail := by
  obtain ⟨h1, _, h3⟩ := updateMetaAfter_correct_weak s s' cfg hk hc h
  intro n hn m hm hkey hstep hatt
  have := afterConsistent_unique_general s' t cfg (keysUnique_frame h3 hk) (h3.symm.trans hft) h1 ht
    n hn m hm hkey hstep hatt
  exact ⟨this.1.symm, this.2.symm⟩

/-- The equation of states needs of the run only that its result is consistent and unflagged. -/
theorem eq_recomputeAfter_of_consistent (s s' : KState) (cfg : KConfig) (hac : Acyclic s) (hk : KeysUnique s)
    (h : s.updateMetaAfter cfg = .ok s') (hcons' : AfterConsistent s' cfg)
    (hflag' : ∀ n ∈ s'.nodes, n.key.kind = .step → n.checkAfter = false) : recomputeAfter s cfg = .ok s' := by
  obtain ⟨t, ht, hft, hcons⟩ := recomputeAfter_spec s cfg hac hk
  have hfr' := updateMetaAfter_frame s s' cfg h
  have hk' := keysUnique_frame hfr' hk
  have hkt := keysUnique_frame hft hk
  have huniq := afterConsistent_unique_general s' t cfg hk' (hfr'.symm.trans hft) hcons' hcons
  have hkeep' := updateMetaAfter_keeps s s' cfg hk h
  have hfrF := frame_flagAll s
  obtain ⟨_, hflagt, _⟩ := updateMetaAfter_correct (flagAll s) t cfg (keysUnique_frame hfrF hk)
    (cacheInv_flagAll s cfg) ht
  have hkeept : Keeps s t :=
    (keeps_flagAll s).trans (updateMetaAfter_keeps (flagAll s) t cfg (keysUnique_frame hfrF hk) ht)
  have hnodes : s'.nodes = t.nodes := by
    apply nodes_eq_of_erase
    · rw [hfr'.2.2, hft.2.2]
    · intro a ha b hb hab
      obtain ⟨n, hn, _⟩ := find?_frame_some hfr'.symm (find?_of_mem hk' ha)
      obtain ⟨a', ha', ra⟩ := hkeep' _ _ hn
      rw [find?_of_mem hk' ha] at ha'; cases ha'
      obtain ⟨b', hb', rb⟩ := hkeept _ _ hn
      rw [hab, find?_of_mem hkt hb] at hb'; cases hb'
      have hkey : n.key = a.key := (eraseAfter_key ra.1).symm
      have hdet : n.detached = a.detached := (eraseAfter_detached ra.1).symm
      by_cases hs : n.key.kind = .step
      · have hca : a.checkAfter = b.checkAfter := by
          rw [hflag' a ha (hkey ▸ hs), hflagt b hb (hab ▸ hkey ▸ hs)]
        by_cases hd : n.detached = false
        · have := huniq a ha b hb hab.symm (hkey ▸ hs) (hdet ▸ hd)
          exact eq_of_eraseAfter (ra.1.trans rb.1.symm) this.1.symm this.2.symm hca
        · have h1 := ra.2.1 (fun hh => hd hh.2)
          have h2 := rb.2.1 (fun hh => hd hh.2)
          exact eq_of_eraseAfter (ra.1.trans rb.1.symm) (h1.1.trans h2.1.symm) (h1.2.trans h2.2.symm) hca
      · have h1 := ra.2.1 (fun hh => hs hh.1)
        have h2 := rb.2.1 (fun hh => hs hh.1)
        exact eq_of_eraseAfter (ra.1.trans rb.1.symm) (h1.1.trans h2.1.symm) (h1.2.trans h2.2.symm)
          ((ra.2.2 hs).trans (rb.2.2 hs).symm)
  rw [ht]
  congr 1
  cases s'; cases t
  simp only [KState.mk.injEq]
  exact ⟨hnodes.symm, hft.1.trans hfr'.1.symm, hft.2.1.trans hfr'.2.1.symm⟩

/-- **Incremental = from scratch, as states, under the weak flag discipline.** -/
theorem updateMetaAfter_eq_recomputeAfter_weak (s s' : KState) (cfg : KConfig) (hac : Acyclic s)
    (hk : KeysUnique s) (hc : CacheInvAfterW s cfg) (h : s.updateMetaAfter cfg = .ok s') :
    recomputeAfter s cfg = .ok s' := by
  obtain ⟨h1, h2, _⟩ := updateMetaAfter_correct_weak s s' cfg hk hc h
  exact eq_recomputeAfter_of_consistent s s' cfg hac hk h h1 h2

/-! ## The rest of `_update_meta`, the dispatch decision, reachable states -/

theorem consumer_mapNodes {s : KState} {g : Node → Node} (hg : ∀ n, afterView (g n) = afterView n)
    {k : Key} {m : Node} (hm : m ∈ s.consumerSteps k) :
    g m ∈ ({ s with nodes := s.nodes.map g } : KState).consumerSteps k := by
  obtain ⟨f, hf, c, hc, hfm, h1, h2⟩ := mem_consumerSteps.1 hm
  refine mem_consumerSteps.2 ⟨f, hf, c, hc, ?_, ?_, ?_⟩
  · rw [find?_mapNodes s g (fun n => view_key (hg n)), hfm]; rfl
  · rw [view_key (hg m)]; exact h1
  · rw [view_detached (hg m)]; exact h2

theorem cacheInvW_mapNodes_view (s : KState) (cfg : KConfig) (g : Node → Node)
    (hg : ∀ n, afterView (g n) = afterView n) (h1 : ∀ n, (g n).impliedNeed = n.impliedNeed)
    (h2 : ∀ n, (g n).tail = n.tail) (h3 : ∀ n, (g n).checkAfter = n.checkAfter) (h : CacheInvAfterW s cfg) :
    CacheInvAfterW { s with nodes := s.nodes.map g } cfg := by
  intro n' hn' hstep hatt hflag
  obtain ⟨n, hn, rfl⟩ := List.mem_map.1 hn'
  rw [afterLocal_mapNodes_view s cfg g hg h1 h2]
  rcases h n hn (by rw [← view_key (hg n)]; exact hstep) (by rw [← view_detached (hg n)]; exact hatt)
      (by rw [← h3 n]; exact hflag) with h | ⟨m, hm, hmf⟩
  · exact .inl h
  · right
    refine ⟨g m, ?_, by rw [h3 m]; exact hmf⟩
    rw [view_key (hg n)]
    exact consumer_mapNodes hg hm

theorem cacheInvW_modifyWhere (s : KState) (cfg : KConfig) (p : Node → Bool) {f : Node → Node}
    (hf : AfterNeutral f) (h : CacheInvAfterW s cfg) : CacheInvAfterW (s.modifyWhere p f) cfg := by
  rw [modifyWhere_eq]
  have hg := hf.ite p
  exact cacheInvW_mapNodes_view s cfg _ (fun n => (hg n).1) (fun n => (hg n).2.1) (fun n => (hg n).2.2.1)
    (fun n => (hg n).2.2.2) h

/-- `_update_meta_safe` is the identity or two neutral row updates. -/
theorem updateMetaSafe_shape (s s1 : KState) (h : s.updateMetaSafe = .ok s1) :
    s1 = s ∨ ∃ p1 f1 p2 f2, AfterNeutral f1 ∧ AfterNeutral f2 ∧ s1 = (s.modifyWhere p1 f1).modifyWhere p2 f2 := by
  unfold KState.updateMetaSafe at h
  dsimp only at h
  split at h
  · simp only [pure, Except.pure, Except.ok.injEq] at h; exact .inl h.symm
  · split at h
    · cases h
    · simp only [pure, Except.pure, Except.ok.injEq] at h
      rename_i rows _
      refine .inr ⟨_, _, _, _, ?_, ?_, h.symm⟩
      · intro n
        dsimp only
        split <;> exact ⟨rfl, rfl, rfl, rfl⟩
      · exact fun n => ⟨rfl, rfl, rfl, rfl⟩

theorem updateMetaSafe_weak (s s1 : KState) (cfg : KConfig) (h : s.updateMetaSafe = .ok s1)
    (hc : CacheInvAfterW s cfg) : CacheInvAfterW s1 cfg := by
  rcases updateMetaSafe_shape s s1 h with rfl | ⟨p1, f1, p2, f2, hf1, hf2, rfl⟩
  · exact hc
  · exact cacheInvW_modifyWhere _ cfg _ hf2 (cacheInvW_modifyWhere _ cfg _ hf1 hc)

/-- **`_update_meta` as a whole, under the weak flag discipline.** -/
theorem updateMeta_correct_weak (s s' : KState) (cfg : KConfig) (hk : KeysUnique s) (hc : CacheInvAfterW s cfg)
    (h : s.updateMeta cfg = .ok s') :
    AfterConsistent s' cfg ∧ (∀ n ∈ s'.nodes, n.key.kind = .step → n.checkAfter = false) ∧ ViewFrame s s' := by
  unfold KState.updateMeta at h
  simp only [bind, Except.bind] at h
  cases h1 : s.updateMetaSafe with
  | error e => simp [h1] at h
  | ok s1 =>
    simp only [h1] at h
    obtain ⟨hv1, _⟩ := updateMetaSafe_neutral s s1 h1
    have hc1 := updateMetaSafe_weak s s1 cfg h1 hc
    cases h2 : s1.updateMetaAfter cfg with
    | error e => simp [h2] at h
    | ok s2 =>
      simp only [h2, pure, Except.pure, Except.ok.injEq] at h
      subst h
      obtain ⟨a, b, c⟩ := updateMetaAfter_correct_weak s1 s2 cfg (keysUnique_view hv1 hk) hc1 h2
      unfold KState.updateMetaReady
      exact ⟨afterConsistent_modifyWhere _ cfg _ (updateMetaReady_neutral s2) a,
        flags_modifyWhere _ _ (updateMetaReady_neutral s2) b,
        (hv1.trans c.view).trans (view_modifyWhere _ _ (updateMetaReady_neutral s2))⟩

/-- **Every dispatched job has a reason, under the weak flag discipline.** -/
theorem popNext_job_has_reason_weak (s s' : KState) (cfg : KConfig) (k : Key) (d : Dispatch)
    (hk : KeysUnique s) (hac : Acyclic s) (hc : CacheInvAfterW s cfg)
    (h : s.popNext cfg (some k) = .ok (s', d)) :
    ∃ s1 n p, s.updateMeta cfg = .ok s1 ∧ AfterConsistent s1 cfg ∧ n ∈ s1.nodes ∧ n.key = k ∧
      Feeds s1 n p ∧ cfg.threshold.rank < (ownNeed s1 cfg p).rank ∧
      (ownNeed s1 cfg p = p.need ∨ (ownNeed s1 cfg p = .target ∧ TargetHit s1 cfg p)) := by
  obtain ⟨s1, n, hu, hn, hkey, hel, _⟩ := popNext_job_eligible s s' cfg k d h
  obtain ⟨hcons, _, hv⟩ := updateMeta_correct_weak s s1 cfg hk hc hu
  have hac1 : Acyclic s1 := by intro x p; rw [hv.1] at p; exact hac x p
  obtain ⟨p, hp, hlt, hown⟩ := dispatched_has_reason hac1 hcons hn hel
  exact ⟨s1, n, p, hu, hcons, hn, hkey, hp, hlt, hown⟩

/-- In every reachable state that obeys the weak flag discipline, `_update_meta_after` succeeds and
establishes all local equations. -/
theorem updateMetaAfter_reachable_correct_weak (h : List (KConfig × Req)) (cfg : KConfig)
    (hc : CacheInvAfterW (KState.init.run h) cfg) :
    ∃ s', (KState.init.run h).updateMetaAfter cfg = .ok s' ∧ AfterConsistent s' cfg ∧
      (∀ n ∈ s'.nodes, n.key.kind = .step → n.checkAfter = false) ∧ AfterFrame (KState.init.run h) s' := by
  obtain ⟨s', hs'⟩ := updateMetaAfter_reachable_no_hang h cfg
  exact ⟨s', hs', updateMetaAfter_correct_weak _ s' cfg (keysUnique_reachable h) hc hs'⟩

/-! ## Executable form -/

def cacheInvAfterWB (s : KState) (cfg : KConfig) : Bool :=
  s.nodes.all fun n => !(decide (n.key.kind = .step) && !n.detached && !n.checkAfter) ||
    (afterLocalB s cfg n || (s.consumerSteps n.key).any (·.checkAfter))

theorem cacheInvAfterWB_iff (s : KState) (cfg : KConfig) : cacheInvAfterWB s cfg = true ↔ CacheInvAfterW s cfg := by
  unfold cacheInvAfterWB CacheInvAfterW
  rw [List.all_eq_true]
  have hdisj : ∀ n : Node, (afterLocalB s cfg n || (s.consumerSteps n.key).any (·.checkAfter)) = true ↔
      (AfterLocal s cfg n ∨ ∃ m ∈ s.consumerSteps n.key, m.checkAfter = true) := by
    intro n
    rw [Bool.or_eq_true, afterLocalB_iff, List.any_eq_true]
  constructor
  · intro h n hn hs hd hf
    have := h n hn
    simp only [hs, hd, hf, decide_true, Bool.not_false, Bool.and_self, Bool.not_true, Bool.false_or] at this
    exact (hdisj n).1 this
  · intro h n hn
    by_cases hc : n.key.kind = .step ∧ n.detached = false ∧ n.checkAfter = false
    · simp only [hc.1, hc.2.1, hc.2.2, decide_true, Bool.not_false, Bool.and_self, Bool.not_true, Bool.false_or]
      exact (hdisj n).2 (h n hn hc.1 hc.2.1 hc.2.2)
    · have : (decide (n.key.kind = .step) && !n.detached && !n.checkAfter) = false := by
        cases hd : n.detached with
        | true => simp
        | false =>
          cases hf : n.checkAfter with
          | true => simp
          | false =>
            have : ¬ n.key.kind = .step := fun hs => hc ⟨hs, hd, hf⟩
            simp [this]
      rw [this]; rfl

/-! ## The `define use` situation -/

/-- `gen → d/c.txt` was consistent and unflagged; then `use` was defined with input `d/c.txt`: the
new edge flags its endpoint `use` only.  `gen` is unflagged and its local equation fails (it now has
the DEFAULT consumer `use`). -/
def useState : KState :=
  { nodes := [
      { key := rootKey, creator := some rootKey },
      { key := stepKey "gen", creator := some rootKey, need := .optional, impliedNeed := .optional, tail := 1,
        checkAfter := false },
      { key := fileKey "d/c.txt", creator := some (stepKey "gen"), fstate := .built, fhash := some 1 },
      { key := stepKey "use", creator := some rootKey, need := .default, checkAfter := true }],
    deps := [
      { src := stepKey "gen", snk := fileKey "d/c.txt" }, { src := fileKey "d/c.txt", snk := stepKey "use" }] }

/-- The strict discipline fails, the weak one holds, and the run repairs `gen` in its second round. -/
example : KeysUnique useState ∧ Acyclic useState ∧ ¬ CacheInvAfter useState {} ∧ CacheInvAfterW useState {} ∧
    ((useState.updateMetaAfter {}).toOption.map exCols) =
      some [("gen", .default, 2, false), ("use", .default, 1, false)] := by
  refine ⟨by unfold KeysUnique; decide, (acyclicB_iff _).1 (by decide), ?_, ?_, by decide⟩
  · intro h; exact absurd ((cacheInvAfterB_iff _ _).2 h) (by decide)
  · exact (cacheInvAfterWB_iff _ _).1 (by decide)

/-- The weak discipline is still needed: `staleState` violates it too. -/
example : ¬ CacheInvAfterW staleState {} := by
  intro h; exact absurd ((cacheInvAfterWB_iff _ _).2 h) (by decide)

end StepupModel.K.MetaAfter
