import StepupModel.Lemmas.DisciplineReattach
/-!
# The structural invariant through `Trellis.create`, `Node.reattach`, `INSERT INTO dependency`

`Keep k s s'`: every row but those of `k` keeps key and role, its creator is kept or cut, no row is
lost, no dependency row is added.  This is what the operations that (re)create the node `k` do to the
rest of the state; `struct_of_keep` turns it into the preservation of `Struct`.
-/
namespace StepupModel.K.Discipline
open StepupModel.K.MetaAfter StepupModel.Lemmas StepupModel.K.Sk
set_option linter.unusedSimpArgs false
set_option linter.unusedVariables false

theorem optRel_structRow_refl (o : Option Node) : OptRel StructRow o o := by
  cases o with
  | none => trivial
  | some n => exact StructRow.refl n

theorem optRel_structRow_trans {a b c : Option Node} (h1 : OptRel StructRow a b) (h2 : OptRel StructRow b c) :
    OptRel StructRow a c := by
  cases a <;> cases b <;> cases c <;> first | trivial | exact h1.elim | exact h2.elim | exact StructRow.trans _ _ _ h1 h2

/-- Everything but the rows of `k` is kept (up to cut creator links and soft changes). -/
structure Keep (k : Key) (s s' : KState) : Prop where
  find : ∀ c, c ≠ k → OptRel StructRow (s.find? c) (s'.find? c)
  mem : ∀ n' ∈ s'.nodes, n'.key ≠ k → ∃ n ∈ s.nodes, StructRow n n'
  deps : ∀ d ∈ s'.deps, d ∈ s.deps

theorem Keep.refl (k : Key) (s : KState) : Keep k s s :=
  ⟨fun c _ => optRel_structRow_refl _, fun n' hn' _ => ⟨n', hn', StructRow.refl n'⟩, fun _ h => h⟩

theorem Keep.trans {k : Key} {a b c : KState} (h1 : Keep k a b) (h2 : Keep k b c) : Keep k a c := by
  refine ⟨fun x hx => optRel_structRow_trans (h1.find x hx) (h2.find x hx), ?_, fun d hd => h1.deps d (h2.deps d hd)⟩
  intro n' hn' hk
  obtain ⟨m, hm, hr2⟩ := h2.mem n' hn' hk
  obtain ⟨n, hn, hr1⟩ := h1.mem m hm (by rw [← hr2.1]; exact hk)
  exact ⟨n, hn, StructRow.trans _ _ _ hr1 hr2⟩

theorem keep_of_rel (k : Key) {s s' : KState} (h : StructRel s s') : Keep k s s' :=
  ⟨fun c _ => h.find? c, fun n' hn' _ => forall₂_mem_right h.rows n' hn', h.deps⟩

theorem keep_of_rowChange {k : Key} {s s' : KState} (h : RowChange k s s') : Keep k s s' := by
  refine ⟨fun c hc => ?_, fun n' hn' hk => ⟨n', h.mem n' hn' hk, StructRow.refl n'⟩, fun d hd => by rw [h.deps] at hd; exact hd⟩
  rw [h.find c hc]; exact optRel_structRow_refl _

theorem keep_modify (s : KState) (k : Key) (f : Node → Node) (hf : ∀ n, n.key = k → (f n).key = k) :
    Keep k s (s.modify k f) := keep_of_rowChange (rowChange_modify' s k f hf)

/-- **Preservation of the structural invariant** by an operation that keeps everything but `k`. -/
theorem struct_of_keep {k : Key} {s s' : KState} (hS : Struct s) (hkeep : Keep k s s') (hkeys : KeysUnique s')
    (hkroot : k.kind ≠ .root)
    (hkown : ∀ d ∈ s'.deps, d.src.kind = .step → d.snk = k →
      ∀ f, s'.find? k = some f → (∀ c, f.creator = some c → c = d.src) ∧ f.fstate.role? ≠ some .static)
    (hkkind : k.kind = .step → ∀ nk, s'.find? k = some nk → ∀ c, nk.creator = some c → c.kind = .step ∨ c = rootKey)
    (hkhas : (s.find? k).isSome = true → (s'.find? k).isSome = true) : Struct s' := by
  refine ⟨hkeys, ?_, ?_, ?_, fun d hd => hS.dkinds d (hkeep.deps d hd), ?_, ?_⟩
  · intro d hd hsrc f' hf'
    by_cases hsk : d.snk = k
    · exact hkown d hd hsrc hsk f' (hsk ▸ hf')
    · have hrel := hkeep.find d.snk hsk
      rw [hf'] at hrel
      cases hf : s.find? d.snk with
      | none => rw [hf] at hrel; exact hrel.elim
      | some f =>
        rw [hf] at hrel
        obtain ⟨hown, hrole⟩ := hS.own d (hkeep.deps d hd) hsrc f hf
        refine ⟨fun c hc => ?_, by rw [hrel.2.1]; exact hrole⟩
        rcases hrel.2.2 with hcr | hcr
        · exact hown c (hcr ▸ hc)
        · rw [hcr.1] at hc; cases hc
  · intro n' hn' hs c hc
    by_cases hnk : n'.key = k
    · exact hkkind (hnk ▸ hs) n' (by rw [← hnk]; exact find?_of_mem hkeys hn') c hc
    · obtain ⟨n, hn, hr⟩ := hkeep.mem n' hn' hnk
      rcases hr.2.2 with hcr | hcr
      · exact hS.kinds n hn (hr.1 ▸ hs) c (hcr ▸ hc)
      · rw [hcr.1] at hc; cases hc
  · intro n' hn' hk
    have hnk : n'.key ≠ k := by intro he; rw [← he, hk] at hkroot; exact hkroot rfl
    obtain ⟨n, hn, hr⟩ := hkeep.mem n' hn' hnk
    rcases hr.2.2 with hcr | hcr
    · rw [hcr]; exact hS.root n hn (hr.1 ▸ hk)
    · exact absurd (hr.1 ▸ hk) hcr.2
  · intro d hd
    have hc := hS.closed d (hkeep.deps d hd)
    have key : ∀ x, (s.find? x).isSome = true → (s'.find? x).isSome = true := by
      intro x hx
      by_cases hxk : x = k
      · subst hxk; exact hkhas hx
      · have hrel := hkeep.find x hxk
        cases h1 : s.find? x with
        | none => rw [h1] at hx; cases hx
        | some a =>
          rw [h1] at hrel
          cases h2 : s'.find? x with
          | none => rw [h2] at hrel; exact hrel.elim
          | some b => rfl
    exact ⟨key _ hc.1, key _ hc.2⟩
  · intro n' hn' hr
    have hnk : n'.key ≠ k := by intro he; rw [← he] at hkroot; exact hkroot hr
    obtain ⟨n, hn, hrow⟩ := hkeep.mem n' hn' hnk
    rw [hrow.1]; exact hS.roots n hn (hrow.1 ▸ hr)

/-! ## `Trellis.create` -/

theorem find?_modify_k {s : KState} {k : Key} (f : Node → Node) (hf : ∀ m, m.key = k → (f m).key = k) :
    (s.modify k f).find? k = (s.find? k).map f := by
  cases h : s.find? k with
  | some n => rw [find?_modify_self f hf h]; rfl
  | none =>
    have e : s.modify k f = { s with nodes := s.nodes.map fun m => if m.key = k then f m else m } := rfl
    rw [e, find?_mapNodes s _ (fun m => by
      by_cases hm : m.key = k
      · rw [if_pos hm, hf m hm, hm]
      · rw [if_neg hm]) k, h]
    rfl

/-- What is tracked through `create k creator _`: the rest is kept, the row of `k` exists and has the
new creator (or none). -/
structure CInv (k : Key) (creator : Option Key) (s0 t : KState) : Prop where
  keep : Keep k s0 t
  cr : ∀ nk, t.find? k = some nk → nk.creator = creator ∨ nk.creator = none
  has : (t.find? k).isSome = true

theorem CInv.rel {k : Key} {creator : Option Key} {s0 t t' : KState} (h : CInv k creator s0 t) (hr : StructRel t t') :
    CInv k creator s0 t' := by
  refine ⟨h.keep.trans (keep_of_rel k hr), ?_, ?_⟩
  · intro nk hnk
    have hrel := hr.find? k
    rw [hnk] at hrel
    cases hf : t.find? k with
    | none => rw [hf] at hrel; exact hrel.elim
    | some m =>
      rw [hf] at hrel
      rcases hrel.2.2 with hc | hc
      · rw [hc]; exact h.cr m hf
      · exact .inr hc.1
  · have hrel := hr.find? k
    have := h.has
    cases hf : t.find? k with
    | none => rw [hf] at this; cases this
    | some m =>
      rw [hf] at hrel
      cases hf' : t'.find? k with
      | none => rw [hf'] at hrel; exact hrel.elim
      | some m' => rfl

theorem CInv.modify {k : Key} {creator : Option Key} {s0 t : KState} (h : CInv k creator s0 t) (f : Node → Node)
    (hk : ∀ m, m.key = k → (f m).key = k) (hc : ∀ m, t.find? k = some m → (f m).creator = m.creator) :
    CInv k creator s0 (t.modify k f) := by
  refine ⟨h.keep.trans (keep_modify t k f hk), ?_, ?_⟩
  · intro nk hnk
    rw [find?_modify_k f hk] at hnk
    cases hf : t.find? k with
    | none => rw [hf] at hnk; cases hnk
    | some m =>
      rw [hf] at hnk
      simp only [Option.map_some, Option.some.injEq] at hnk
      rw [← hnk, hc m hf]; exact h.cr m hf
  · rw [find?_modify_k f hk]
    have := h.has
    cases hf : t.find? k with
    | none => rw [hf] at this; cases this
    | some m => rfl

theorem CInv.soft {k : Key} {creator : Option Key} {s0 t t' : KState} (h : CInv k creator s0 t) (hr : SoftRel t t') :
    CInv k creator s0 t' := h.rel hr.struct

theorem fileRowWrite_creator {n n' : Node} {st : FileState} {nh : Option (Option Nat)}
    (h : fileRowWrite n st nh = .ok n') : n'.creator = n.creator ∧ n'.fstate = st := by
  unfold fileRowWrite at h
  simp only at h
  split at h
  · cases h
  · split at h
    · cases h
    · simp only [pure, Except.pure, Except.ok.injEq] at h
      subst h; exact ⟨rfl, rfl⟩

theorem keptState_role (s : KState) (k : Key) (st : FileState) (existed : Bool) (hst : st = .planned ∨ st = .volatile) :
    (s.keptState k st existed).role? ≠ some .static := by
  unfold KState.keptState
  cases hf : (s.find? k).map (·.fstate) with
  | none => rcases hst with rfl | rfl <;> simp [FileState.role?]
  | some o =>
    simp only
    split
    · rename_i hh
      rcases hh.2.2 with ho | ho <;> rw [ho] <;> simp [FileState.role?]
    · rcases hst with rfl | rfl <;> simp [FileState.role?]

theorem role_soft {u u' : KState} {k : Key} {ρ : Option FileRole} (hr : SoftRel u u')
    (h : ∀ nk, u.find? k = some nk → nk.fstate.role? = ρ) : ∀ nk, u'.find? k = some nk → nk.fstate.role? = ρ := by
  intro nk hnk
  have hrel := hr.find? k
  rw [hnk] at hrel
  cases hf : u.find? k with
  | none => rw [hf] at hrel; exact hrel.elim
  | some a =>
    rw [hf] at hrel
    rw [hrel.2.2.1.2]; exact h a hf

/-- `initialize_row` under the tracking invariant; for a declared output or volatile file the row ends
in a state that is not static. -/
theorem initRow_cinv {k : Key} {creator : Option Key} {s0 t t' : KState} {init : Init} {existed : Bool}
    (hku : KeysUnique t) (h : CInv k creator s0 t) (hi : t.initRow k init existed = .ok t') :
    CInv k creator s0 t' ∧ (∀ d ∈ t'.deps, d ∈ t.deps) ∧
      (∀ st, init = .file st → (st = .planned ∨ st = .volatile) →
        ∀ nk, t'.find? k = some nk → nk.fstate.role? ≠ some .static) := by
  unfold KState.initRow at hi
  cases init with
  | root =>
    simp only [pure, Except.pure, Except.ok.injEq] at hi; subst hi
    exact ⟨h, fun _ hd => hd, fun st he => by cases he⟩
  | tree =>
    simp only [pure, Except.pure, Except.ok.injEq] at hi; subst hi
    exact ⟨h, fun _ hd => hd, fun st he => by cases he⟩
  | step i =>
    simp only [pure, Except.pure, Except.ok.injEq] at hi; subst hi
    unfold KState.initStepRow
    exact ⟨h.modify _ (fun _ hm => hm) (fun _ _ => rfl), fun _ hd => hd, fun st he => by cases he⟩
  | file st0 =>
    simp only at hi
    unfold KState.initFileRow at hi
    simp only [bind, Except.bind] at hi
    cases h1 : t.writeInitialFile k (t.keptState k st0 existed) existed with
    | error e => simp [h1] at hi
    | ok t1 =>
      simp only [h1] at hi
      have hflag : ∀ u : KState, SoftRel u (u.flagReadySinks k) := by
        intro u
        unfold KState.flagReadySinks
        exact softRel_modifyWhere _ _ (softFn_rfl (fun _ => rfl) (fun _ => rfl) (fun _ => rfl) (fun _ => rfl)
          (fun _ => rfl) (fun _ => rfl) (fun _ => rfl) (fun _ => rfl))
      have hw1 : CInv k creator s0 t1 ∧ t1.deps = t.deps ∧ KeysUnique t1 ∧
          ∀ nk, t1.find? k = some nk → nk.fstate.role? = (t.keptState k st0 existed).role? := by
        unfold KState.writeInitialFile at h1
        split at h1
        · unfold KState.setFileState KState.writeFile at h1
          cases hfk : t.find? k with
          | none => have := h.has; rw [hfk] at this; cases this
          | some m =>
            simp only [hfk, bind, Except.bind] at h1
            cases hwr : fileRowWrite m (t.keptState k st0 existed) none with
            | error e => simp [hwr] at h1
            | ok m' =>
              simp only [hwr, pure, Except.pure, Except.ok.injEq] at h1
              have hm'k : m'.key = k := by rw [fileRowWrite_key m m' _ _ hwr]; exact find_key hfk
              have hcm := h.modify (fun _ => m') (fun _ _ => hm'k) (fun x hx => by
                rw [hfk] at hx; cases hx; exact (fileRowWrite_creator hwr).1)
              have hku1 := keysUnique_modify k (fun _ => m') (fun _ _ => hm'k) hku
              have hst1 : ∀ nk, (t.modify k fun _ => m').find? k = some nk →
                  nk.fstate.role? = (t.keptState k st0 existed).role? := by
                intro nk hnk
                rw [find?_modify_k (fun _ => m') (fun _ _ => hm'k), hfk] at hnk
                simp only [Option.map_some, Option.some.injEq] at hnk
                rw [← hnk, (fileRowWrite_creator hwr).2]
              subst h1
              split
              · exact ⟨hcm.soft (hflag _), (hflag _).deps, (hflag _).keysUnique hku1, role_soft (hflag _) hst1⟩
              · exact ⟨hcm, rfl, hku1, hst1⟩
        · split at h1
          · cases h1
          · simp only [pure, Except.pure, Except.ok.injEq] at h1
            subst h1
            have hcm := h.modify (fun n => { n with fstate := t.keptState k st0 existed, fhash := none })
              (fun _ hm => hm) (fun _ _ => rfl)
            have hku1 := keysUnique_modify k (fun n => { n with fstate := t.keptState k st0 existed, fhash := none })
              (fun _ hm => hm) hku
            have hst1 : ∀ nk, (t.modify k fun n => { n with fstate := t.keptState k st0 existed, fhash := none }).find? k =
                some nk → nk.fstate.role? = (t.keptState k st0 existed).role? := by
              intro nk hnk
              rw [find?_modify_k (fun n => { n with fstate := t.keptState k st0 existed, fhash := none })
                (fun _ hm => hm)] at hnk
              cases hfk : t.find? k with
              | none => rw [hfk] at hnk; cases hnk
              | some m =>
                rw [hfk] at hnk
                simp only [Option.map_some, Option.some.injEq] at hnk
                rw [← hnk]
            exact ⟨hcm.soft (hflag _), (hflag _).deps, (hflag _).keysUnique hku1, role_soft (hflag _) hst1⟩
      obtain ⟨hc1, hd1, hk1, hr1⟩ := hw1
      have hfin : ∀ u, SoftRel t1 u → CInv k creator s0 u ∧ (∀ d ∈ u.deps, d ∈ t.deps) ∧
          (∀ st, Init.file st0 = .file st → (st = .planned ∨ st = .volatile) →
            ∀ nk, u.find? k = some nk → nk.fstate.role? ≠ some .static) := by
        intro u hu
        refine ⟨hc1.soft hu, fun d hd => by rw [hu.deps, hd1] at hd; exact hd, ?_⟩
        intro st he hst nk hnk
        have hst0 : st0 = st := by injection he
        subst hst0
        rw [role_soft hu hr1 nk hnk]
        exact keptState_role t k st0 existed hst
      split at hi
      · exact hfin t' (markFileOutdated_soft (s0 := t1) k t1 t' (SP.refl hk1) hi).2
      · simp only [pure, Except.pure, Except.ok.injEq] at hi; subst hi
        exact hfin t1 (SoftRel.refl t1)

theorem find?_append_self {s : KState} {k : Key} (c : Option Key) (h : s.find? k = none) :
    ∃ nk, (s.appendNode k c).find? k = some nk ∧ nk.creator = c := by
  refine ⟨{ key := k, creator := c, detached := s.creatorDetached c }, ?_, rfl⟩
  unfold KState.appendNode KState.find? at *
  simp only [List.find?_append, h, Option.none_or, List.find?_cons, decide_true]

theorem structRel_foldl_detach (L : List Node) : ∀ s s' : KState,
    L.foldlM (fun st (p : Node) => st.detach p.key) s = .ok s' → StructRel s s' := by
  intro s s' h
  exact foldlM_mem (fun st => StructRel s st) (fun st (p : Node) => st.detach p.key) L
    (fun st p st' _ hst hd => hst.trans (structRel_detach hd)) s s' (StructRel.refl s) h

theorem creatorKind_of_find {s : KState} (hS : Struct s) {k ck : Key} {cn : Node} (hk : k.kind = .step)
    (hf : s.find? ck = some cn) (hok : creatorKindOk k.kind cn.key.kind = true) : ck.kind = .step ∨ ck = rootKey := by
  have hck : cn.key = ck := find_key hf
  rw [hk, hck] at hok
  unfold creatorKindOk at hok
  cases hkk : ck.kind with
  | step => exact .inl rfl
  | root => exact .inr (hck ▸ hS.roots cn (find_mem hf) (hck ▸ hkk))
  | file => rw [hkk] at hok; cases hok
  | st => rw [hkk] at hok; cases hok

/-- **What `Trellis.create` does to the structure**: the rest is kept, the row of `k` exists with the new
creator, no dependency row ends in `k`, a declared output or volatile file is not static. -/
theorem create_spec {s s' : KState} {k : Key} {creator : Option Key} {init : Init} (hS : Struct s)
    (hi : InitOK init) (h : s.create k creator init = .ok s') :
    CInv k creator s s' ∧ (∀ d ∈ s'.deps, d ∈ s.deps ∧ d.snk ≠ k) ∧
      (∀ st, init = .file st → (st = .planned ∨ st = .volatile) →
        ∀ nk, s'.find? k = some nk → nk.fstate.role? ≠ some .static) ∧
      (k.kind = .step → ∀ ck, creator = some ck → ck.kind = .step ∨ ck = rootKey) := by
  have hkn := kn_of_ku hS.keys
  unfold KState.create at h
  cases hf : s.find? k with
  | some n =>
    simp only [hf] at h
    split at h
    · cases h
    · split at h
      · cases h
      · unfold KState.recycleCore at h
        simp only [bind, Except.bind] at h
        cases h1 : s.setCreator k creator (s.creatorDetached creator) with
        | error e => simp [h1] at h
        | ok s1 =>
          simp only [h1] at h
          cases h2 : s1.lostProduct n.creator with
          | error e => simp [h2] at h
          | ok s2 =>
            simp only [h2] at h
            cases h3 : (s2.deleteDeps fun dp => dp.snk = k).detachProducts k with
            | error e => simp [h3] at h
            | ok s3 =>
              simp only [h3] at h
              -- the tracking invariant along the four steps
              have hallow : s.creatorAllowed k creator (s.creatorDetached creator) = true := by
                unfold KState.setCreator at h1
                split at h1
                · assumption
                · cases h1
              have c1 : CInv k creator s s1 := by
                unfold KState.setCreator at h1
                rw [if_pos hallow] at h1
                simp only [pure, Except.pure, Except.ok.injEq] at h1
                subst h1
                have c0 : CInv k creator s (s.modify k fun n => { n with creator := creator }) := by
                  refine ⟨keep_modify s k _ (fun _ hm => hm), ?_, ?_⟩
                  · intro nk hnk
                    rw [find?_modify_k (fun n => { n with creator := creator }) (fun _ hm => hm), hf] at hnk
                    simp only [Option.map_some, Option.some.injEq] at hnk
                    rw [← hnk]; exact .inl rfl
                  · rw [find?_modify_k (fun n => { n with creator := creator }) (fun _ hm => hm), hf]; rfl
                exact c0.rel (structRel_setDetachedRow _ k _)
              have c2 := c1.soft (lostProduct_rel h2)
              have c3a := c2.rel (structRel_deleteDeps s2 fun dp => dp.snk = k)
              have r3 : StructRel (s2.deleteDeps fun dp => dp.snk = k) s3 := by
                unfold KState.detachProducts at h3
                exact structRel_foldl_detach _ _ _ h3
              have c3 := c3a.rel r3
              have hk1 := StableG.setCreator_preserves stable_keysNodup k creator _ s s1 hkn h1
              have hk2 := StableG.lostProduct_preserves stable_keysNodup n.creator s1 s2 hk1 h2
              have hk3a := StableG.deleteDeps stable_keysNodup s2 (fun dp => dp.snk = k) hk2
              have hk3 := StableG.detachProducts_preserves stable_keysNodup k _ s3 hk3a h3
              obtain ⟨c4, hd4, hrole⟩ := initRow_cinv (ku_of_kn hk3) c3 h
              refine ⟨c4, ?_, hrole, ?_⟩
              · intro d hd
                have hd3 := r3.deps d (hd4 d hd)
                rw [deps_deleteDeps] at hd3
                obtain ⟨hd2, hp⟩ := List.mem_filter.1 hd3
                refine ⟨?_, by simpa using hp⟩
                have e2 : s2.deps = s.deps := by
                  rw [(lostProduct_rel h2).deps]
                  exact (ur_setCreator (X := fun x => x = k) rfl h1).2
                rw [e2] at hd2; exact hd2
              · intro hks ck hck
                subst hck
                unfold KState.creatorAllowed at hallow
                have hkr : ¬ k.kind = .root := by rw [hks]; intro hh; cases hh
                rw [if_neg hkr] at hallow
                simp only at hallow
                cases hfc : s.find? ck with
                | none => simp [hfc] at hallow
                | some cn =>
                  simp only [hfc, Bool.and_eq_true, decide_eq_true_eq] at hallow
                  exact creatorKind_of_find hS hks hfc hallow.1
  | none =>
    simp only [hf] at h
    split at h
    · rename_i hins
      have cA : CInv k creator s (s.appendNode k creator) := by
        obtain ⟨nk, hnk, hcr⟩ := find?_append_self creator hf
        refine ⟨keep_of_rowChange (rowChange_append s k creator), ?_, by rw [hnk]; rfl⟩
        intro nk' hnk'
        rw [hnk] at hnk'; cases hnk'; exact .inl hcr
      have hkA := stable_keysNodup.appendNode s k creator hf hins hkn
      obtain ⟨c4, hd4, hrole⟩ := initRow_cinv (ku_of_kn hkA) cA h
      refine ⟨c4, ?_, hrole, ?_⟩
      · intro d hd
        have hd0 : d ∈ s.deps := hd4 d hd
        refine ⟨hd0, fun hsk => ?_⟩
        have := (hS.closed d hd0).2
        rw [hsk, hf] at this; cases this
      · intro hks ck hck
        subst hck
        unfold KState.insertAllowed at hins
        simp only at hins
        cases hfc : s.find? ck with
        | none => simp [hfc] at hins
        | some cn =>
          simp only [hfc] at hins
          exact creatorKind_of_find hS hks hfc hins
    · cases h

/-- **`Trellis.create` preserves the structural invariant.** -/
theorem create_struct {s s' : KState} {k : Key} {creator : Option Key} {init : Init} (hS : Struct s)
    (hi : InitOK init) (hkroot : k.kind ≠ .root) (h : s.create k creator init = .ok s') : Struct s' := by
  obtain ⟨hc, hdeps, _, hkind⟩ := create_spec hS hi h
  have hkeys := ku_of_kn (StableG.create_preserves stable_keysNodup k creator init hi s s' (kn_of_ku hS.keys) h)
  refine struct_of_keep hS hc.keep hkeys hkroot ?_ ?_ (fun _ => hc.has)
  · intro d hd _ hsk
    exact absurd hsk (hdeps d hd).2
  · intro hks nk hnk c hcc
    rcases hc.cr nk hnk with hx | hx
    · exact hkind hks c (hx ▸ hcc)
    · rw [hx] at hcc; cases hcc

end StepupModel.K.Discipline
