import StepupModel.Lemmas.KProp
/-!
Helper lemmas for the restart after a kill (`Props/C05.lean`): what the raw state writes of
`reset_interrupted_steps` do to the observations, the row-level facts that the propagation
(`markStepPending`) keeps (`detached`, `_holding`), and "no BUILT file behind a PENDING step is
created by marking steps pending".  No property statements here.
-/
namespace StepupModel.K

theorem bind_eq_ok {α β : Type} {x : M α} {f : α → M β} {b : β} (h : (x >>= f) = .ok b) :
    ∃ a, x = .ok a ∧ f a = .ok b := by
  cases hx : x with
  | error e => simp [hx, bind, Except.bind] at h
  | ok a => exact ⟨a, rfl, by simpa [hx, bind, Except.bind] using h⟩

/-- Two rows of a list with pairwise different keys that share a key are the same row. -/
theorem eq_of_nodup_keys {l : List Node} (hnodup : (l.map (·.key)).Nodup) {n m : Node} (hn : n ∈ l)
    (hm : m ∈ l) (hk : n.key = m.key) : n = m := by
  induction l with
  | nil => cases hn
  | cons a as ih =>
    simp only [List.map_cons, List.nodup_cons] at hnodup
    rcases List.mem_cons.mp hn with rfl | hn'
    · rcases List.mem_cons.mp hm with rfl | hm'
      · rfl
      · exact absurd (List.mem_map.mpr ⟨m, hm', hk.symm⟩) hnodup.1
    · rcases List.mem_cons.mp hm with rfl | hm'
      · exact absurd (List.mem_map.mpr ⟨n, hn', hk⟩) hnodup.1
      · exact ih hnodup.2 hn' hm'

/-! ## More observations -/

/-- `detached` flag of the row with key `q`. -/
def KState.detachedOf (s : KState) (q : Key) : Option Bool := (s.find? q).map (·.detached)

/-- `_holding` counter of the row with key `q`. -/
def KState.holdingOf (s : KState) (q : Key) : Option Nat := (s.find? q).map (·.holding)

/-- `creator` of the row with key `q` (`none`: no row; `some none`: NULL creator). -/
def KState.creatorOf (s : KState) (q : Key) : Option (Option Key) := (s.find? q).map (·.creator)

theorem mem_nodes_of_find? {s : KState} {k : Key} {n : Node} (h : s.find? k = some n) : n ∈ s.nodes := by
  unfold KState.find? at h
  exact List.mem_of_find?_eq_some h

/-! ## Row-level effect of the two state writes -/

theorem fileRowWrite_keeps (n n' : Node) (st : FileState) (nh : Option (Option Nat))
    (h : fileRowWrite n st nh = .ok n') :
    n'.detached = n.detached ∧ n'.holding = n.holding ∧ n'.creator = n.creator ∧ n'.sstate = n.sstate := by
  unfold fileRowWrite at h
  dsimp only at h
  split at h
  · cases h
  · split at h
    · cases h
    · simp only [pure, Except.pure, Except.ok.injEq] at h
      subst h
      exact ⟨rfl, rfl, rfl, rfl⟩

theorem stepRowWrite_keeps (n n' : Node) (st : StepState) (d : Option Bool)
    (h : stepRowWrite n st d = .ok n') :
    n'.detached = n.detached ∧ n'.creator = n.creator ∧ n'.fstate = n.fstate ∧
      n'.holding = (if st ≠ .running then 0 else n.holding) := by
  unfold stepRowWrite at h
  dsimp only at h
  split at h
  · cases h
  · simp only [pure, Except.pure, Except.ok.injEq] at h
    subst h
    exact ⟨rfl, rfl, rfl, rfl⟩

/-- What a row-wise rewrite that keeps some columns does to the row found under `q`. -/
def RowRel (R : Node → Node → Prop) (s s' : KState) (q : Key) : Prop :=
  (s.find? q = none → s'.find? q = none) ∧ (∀ n, s.find? q = some n → ∃ n', s'.find? q = some n' ∧ R n n')

theorem rowRel_of_map (R : Node → Node → Prop) (s s' : KState) (q : Key) (g : Node → Node)
    (hg : ∀ n, R n (g n)) (h : s'.find? q = (s.find? q).map g) : RowRel R s s' q := by
  constructor
  · intro hn; rw [h, hn]; rfl
  · intro n hn; exact ⟨g n, by rw [h, hn]; rfl, hg n⟩

theorem rowRel_trans {R : Node → Node → Prop} (hR : ∀ a b c, R a b → R b c → R a c) {s s1 s2 : KState} {q : Key}
    (h1 : RowRel R s s1 q) (h2 : RowRel R s1 s2 q) : RowRel R s s2 q := by
  constructor
  · intro hn; exact h2.1 (h1.1 hn)
  · intro n hn
    obtain ⟨n1, hn1, r1⟩ := h1.2 n hn
    obtain ⟨n2, hn2, r2⟩ := h2.2 n1 hn1
    exact ⟨n2, hn2, hR _ _ _ r1 r2⟩

/-- Columns that `UPDATE file SET state` (with its triggers) never changes. -/
def FileWriteRel (n n' : Node) : Prop :=
  n'.detached = n.detached ∧ n'.holding = n.holding ∧ n'.creator = n.creator ∧ n'.sstate = n.sstate

/-- The row found under `q` after `UPDATE file SET state` on `k`. -/
theorem writeFile_find (s s' : KState) (k : Key) (st : FileState) (nh : Option (Option Nat))
    (h : s.writeFile k st nh = .ok s') (q : Key) : RowRel FileWriteRel s s' q := by
  unfold KState.writeFile at h
  cases hf : s.find? k with
  | none =>
    simp only [hf, pure, Except.pure, Except.ok.injEq] at h
    subst h
    exact rowRel_of_map _ s s q id (fun _ => ⟨rfl, rfl, rfl, rfl⟩) (by simp)
  | some n =>
    simp only [hf, bind, Except.bind] at h
    cases hw : fileRowWrite n st nh with
    | error e => simp [hw] at h
    | ok n' =>
      simp only [hw, pure, Except.pure, Except.ok.injEq] at h
      obtain ⟨_, h2, _, _⟩ := fileRowWrite_ok n n' st nh hw
      obtain ⟨k1, k2, k3, k4⟩ := fileRowWrite_keeps n n' st nh hw
      have hk : n.key = k := find?_key s k n hf
      have hkey : ∀ m : Node, m.key = k → ((fun _ => n') m).key = k := fun _ _ => by simp [h2, hk]
      have hmod : RowRel FileWriteRel s (s.modify k fun _ => n') q := by
        by_cases hq : q = k
        · subst hq
          constructor
          · intro hn; rw [hf] at hn; cases hn
          · intro m hm
            rw [hf] at hm
            cases hm
            exact ⟨n', by rw [find?_modify_self s q _ hkey, hf]; rfl, k1, k2, k3, k4⟩
        · exact rowRel_of_map _ _ _ q id (fun _ => ⟨rfl, rfl, rfl, rfl⟩)
            (by rw [find?_modify_ne s k q _ hkey hq]; simp)
      have htrans : ∀ a b c, FileWriteRel a b → FileWriteRel b c → FileWriteRel a c :=
        fun a b c h1 h2 => ⟨h2.1.trans h1.1, h2.2.1.trans h1.2.1, h2.2.2.1.trans h1.2.2.1, h2.2.2.2.trans h1.2.2.2⟩
      split at h
      · subst h
        obtain ⟨g2, hg2, hfind2⟩ := find?_flagReadySinks (s.modify k fun _ => n') k q
        refine rowRel_trans htrans hmod (rowRel_of_map _ _ _ q g2 ?_ hfind2)
        intro m
        rcases hg2 m with e | e <;> rw [e] <;> exact ⟨rfl, rfl, rfl, rfl⟩
      · subst h
        exact hmod

/-- Columns that `UPDATE step SET state = st` keeps, and what it does to `_holding`. -/
def StepWriteRel (st : StepState) (n n' : Node) : Prop :=
  n'.detached = n.detached ∧ n'.creator = n.creator ∧ (n'.holding = n.holding ∨ (st ≠ .running ∧ n'.holding = 0))

/-- The row found under `q` after `UPDATE step SET state` on `k`. -/
theorem writeStepState_find (s s' : KState) (k : Key) (st : StepState) (d : Option Bool)
    (h : s.writeStepState k st d = .ok s') (q : Key) : RowRel (StepWriteRel st) s s' q := by
  unfold KState.writeStepState at h
  cases hf : s.find? k with
  | none =>
    simp only [hf, pure, Except.pure, Except.ok.injEq] at h
    subst h
    exact rowRel_of_map _ s s q id (fun _ => ⟨rfl, rfl, Or.inl rfl⟩) (by simp)
  | some n =>
    simp only [hf, bind, Except.bind] at h
    cases hw : stepRowWrite n st d with
    | error e => simp [hw] at h
    | ok n' =>
      simp only [hw, pure, Except.pure, Except.ok.injEq] at h
      subst h
      obtain ⟨_, h2, _, _⟩ := stepRowWrite_ok n n' st d hw
      obtain ⟨k1, k2, _, k4⟩ := stepRowWrite_keeps n n' st d hw
      have hk : n.key = k := find?_key s k n hf
      have hkey : ∀ m : Node, m.key = k → ((fun _ => n') m).key = k := fun _ _ => by simp [h2, hk]
      by_cases hq : q = k
      · subst hq
        constructor
        · intro hn; rw [hf] at hn; cases hn
        · intro m hm
          rw [hf] at hm
          cases hm
          refine ⟨n', by rw [find?_modify_self s q _ hkey, hf]; rfl, k1, k2, ?_⟩
          by_cases hr : st = .running
          · left; rw [k4]; simp [hr]
          · right; exact ⟨hr, by rw [k4]; simp [hr]⟩
      · exact rowRel_of_map _ _ _ q id (fun _ => ⟨rfl, rfl, Or.inl rfl⟩)
          (by rw [find?_modify_ne s k q _ hkey hq]; simp)

theorem rowRel_proj {β : Type} {R : Node → Node → Prop} (π : Node → β) (hπ : ∀ n n', R n n' → π n' = π n)
    {s s' : KState} {q : Key} (h : RowRel R s s' q) : (s'.find? q).map π = (s.find? q).map π := by
  cases hq : s.find? q with
  | none => rw [h.1 hq]
  | some n =>
    obtain ⟨n', hn', r⟩ := h.2 n hq
    rw [hn']; simp [hπ n n' r]

theorem writeFile_detachedOf (s s' : KState) (k : Key) (st : FileState) (nh : Option (Option Nat))
    (h : s.writeFile k st nh = .ok s') (q : Key) : s'.detachedOf q = s.detachedOf q :=
  rowRel_proj (·.detached) (fun _ _ r => r.1) (writeFile_find s s' k st nh h q)

theorem writeFile_holdingOf (s s' : KState) (k : Key) (st : FileState) (nh : Option (Option Nat))
    (h : s.writeFile k st nh = .ok s') (q : Key) : s'.holdingOf q = s.holdingOf q :=
  rowRel_proj (·.holding) (fun _ _ r => r.2.1) (writeFile_find s s' k st nh h q)

theorem writeFile_creatorOf (s s' : KState) (k : Key) (st : FileState) (nh : Option (Option Nat))
    (h : s.writeFile k st nh = .ok s') (q : Key) : s'.creatorOf q = s.creatorOf q :=
  rowRel_proj (·.creator) (fun _ _ r => r.2.2.1) (writeFile_find s s' k st nh h q)

theorem writeStepState_detachedOf (s s' : KState) (k : Key) (st : StepState) (d : Option Bool)
    (h : s.writeStepState k st d = .ok s') (q : Key) : s'.detachedOf q = s.detachedOf q :=
  rowRel_proj (·.detached) (fun _ _ r => r.1) (writeStepState_find s s' k st d h q)

theorem writeStepState_creatorOf (s s' : KState) (k : Key) (st : StepState) (d : Option Bool)
    (h : s.writeStepState k st d = .ok s') (q : Key) : s'.creatorOf q = s.creatorOf q :=
  rowRel_proj (·.creator) (fun _ _ r => r.2.1) (writeStepState_find s s' k st d h q)

/-- A state write leaves a zero `_holding` zero. -/
theorem writeStepState_holding_zero (s s' : KState) (k : Key) (st : StepState) (d : Option Bool)
    (h : s.writeStepState k st d = .ok s') (q : Key)
    (h0 : ∀ n, s.find? q = some n → n.holding = 0) : ∀ n, s'.find? q = some n → n.holding = 0 := by
  have hr := writeStepState_find s s' k st d h q
  intro n' hn'
  cases hq : s.find? q with
  | none => rw [hr.1 hq] at hn'; cases hn'
  | some n =>
    obtain ⟨n1, hn1, r⟩ := hr.2 n hq
    rw [hn1] at hn'
    cases hn'
    rcases r.2.2 with e | ⟨_, e⟩
    · rw [e]; exact h0 n hq
    · exact e

/-- The row written by a state write that does not write RUNNING has `_holding = 0`. -/
theorem writeStepState_self_holding (s s' : KState) (k : Key) (st : StepState) (d : Option Bool)
    (hst : st ≠ .running) (h : s.writeStepState k st d = .ok s') :
    ∀ n, s'.find? k = some n → n.holding = 0 := by
  unfold KState.writeStepState at h
  intro n' hn'
  cases hf : s.find? k with
  | none =>
    simp only [hf, pure, Except.pure, Except.ok.injEq] at h
    subst h
    rw [hf] at hn'; cases hn'
  | some n =>
    simp only [hf, bind, Except.bind] at h
    cases hw : stepRowWrite n st d with
    | error e => simp [hw] at h
    | ok n1 =>
      simp only [hw, pure, Except.pure, Except.ok.injEq] at h
      subst h
      obtain ⟨_, h2, _, _⟩ := stepRowWrite_ok n n1 st d hw
      obtain ⟨_, _, _, k4⟩ := stepRowWrite_keeps n n1 st d hw
      have hk : n.key = k := find?_key s k n hf
      have hkey : ∀ m : Node, m.key = k → ((fun _ => n1) m).key = k := fun _ _ => by simp [h2, hk]
      rw [find?_modify_self s k _ hkey, hf] at hn'
      simp only [Option.map_some, Option.some.injEq] at hn'
      subst hn'
      rw [k4]; simp [hst]

/-! ## Invariants of the propagation -/

theorem propInv_detachedOf (q : Key) (v : Option Bool) : PropInv (fun s => s.detachedOf q = v) where
  file := fun s s' f hs _ _ h => by
    rw [setFileState_eq] at h
    rw [writeFile_detachedOf s s' f _ _ h q]; exact hs
  step := fun s s' t _ hs _ _ _ h => by
    rw [setStepState_eq] at h
    rw [writeStepState_detachedOf s s' t _ _ h q]; exact hs

theorem propInv_creatorOf (q : Key) (v : Option (Option Key)) : PropInv (fun s => s.creatorOf q = v) where
  file := fun s s' f hs _ _ h => by
    rw [setFileState_eq] at h
    rw [writeFile_creatorOf s s' f _ _ h q]; exact hs
  step := fun s s' t _ hs _ _ _ h => by
    rw [setStepState_eq] at h
    rw [writeStepState_creatorOf s s' t _ _ h q]; exact hs

theorem propInv_holdingZero (q : Key) : PropInv (fun s => ∀ n, s.find? q = some n → n.holding = 0) where
  file := fun s s' f hs _ _ h => by
    rw [setFileState_eq] at h
    intro n' hn'
    have := writeFile_holdingOf s s' f _ _ h q
    unfold KState.holdingOf at this
    rw [hn'] at this
    cases hq : s.find? q with
    | none => simp [hq] at this
    | some n =>
      simp only [hq, Option.map_some, Option.some.injEq] at this
      rw [this]; exact hs n hq
  step := fun s s' t _ hs _ _ _ h => by
    rw [setStepState_eq] at h
    exact writeStepState_holding_zero s s' t _ _ h q hs

/-- A step is not in state `x` and does not get there (`x` any state but PENDING). -/
theorem propInv_stepNot (q : Key) (x : StepState) (hx : x ≠ .pending) :
    PropInv (fun s => s.sstateOf q ≠ some x) where
  file := fun s s' f hs _ _ h => by
    rw [setFileState_eq] at h
    rw [(writeFile_effect s s' f _ _ h).2.1 q]; exact hs
  step := fun s s' t _ hs _ _ _ h => by
    rw [setStepState_eq] at h
    rw [(writeStepState_effect s s' t _ _ h).1 q]
    by_cases hq : q = t
    · subst hq
      cases hc : s.sstateOf q with
      | none => simp
      | some y => simp; exact fun e => hx e.symm
    · simp [hq, hs]

/-! ## Folds of raw state writes (`UPDATE step SET state = ? WHERE state = ?`) -/

/-- Effect of writing the state `x` on every row of a list, one `UPDATE` per key. -/
theorem foldlM_writeStepState (x : StepState) (l : List Node) :
    ∀ (s s' : KState), l.foldlM (fun st n => st.writeStepState n.key x none) s = .ok s' →
      (∀ q, s'.sstateOf q = if q ∈ l.map (·.key) then (s.sstateOf q).map (fun _ => x) else s.sstateOf q) ∧
      (∀ q, s'.fstateOf q = s.fstateOf q) ∧ (∀ q, s'.detachedOf q = s.detachedOf q) ∧ s'.deps = s.deps := by
  induction l with
  | nil =>
    intro s s' h
    simp only [List.foldlM_nil, pure, Except.pure, Except.ok.injEq] at h
    subst h
    exact ⟨fun q => by simp, fun _ => rfl, fun _ => rfl, rfl⟩
  | cons a as ih =>
    intro s s' h
    simp only [List.foldlM_cons, bind, Except.bind] at h
    cases hw : s.writeStepState a.key x none with
    | error e => simp [hw] at h
    | ok s1 =>
      simp only [hw] at h
      obtain ⟨hs1, hf1, hd1⟩ := writeStepState_effect s s1 a.key x none hw
      have hdet1 := writeStepState_detachedOf s s1 a.key x none hw
      obtain ⟨hs2, hf2, hdet2, hd2⟩ := ih s1 s' h
      refine ⟨fun q => ?_, fun q => (hf2 q).trans (hf1 q), fun q => (hdet2 q).trans (hdet1 q), hd2.trans hd1⟩
      rw [hs2 q, hs1 q]
      by_cases hqa : q = a.key
      · subst hqa
        by_cases hmem : a.key ∈ as.map (·.key)
        · cases s.sstateOf a.key <;> simp [hmem]
        · simp [hmem]
      · have : (q ∈ (a :: as).map (·.key)) ↔ (q ∈ as.map (·.key)) := by
          simp only [List.map_cons, List.mem_cons]
          constructor
          · rintro (h1 | h1)
            · exact absurd h1 hqa
            · exact h1
          · exact Or.inr
        simp only [hqa, if_false, this]

/-- Every row that such a fold writes (with a state other than RUNNING) ends with `_holding = 0`,
and rows with `_holding = 0` keep it. -/
theorem foldlM_writeStepState_holding (x : StepState) (hx : x ≠ .running) (l : List Node) (q : Key) :
    ∀ (s s' : KState), l.foldlM (fun st n => st.writeStepState n.key x none) s = .ok s' →
      (q ∈ l.map (·.key) ∨ ∀ n, s.find? q = some n → n.holding = 0) →
      ∀ n, s'.find? q = some n → n.holding = 0 := by
  induction l with
  | nil =>
    intro s s' h h0
    simp only [List.foldlM_nil, pure, Except.pure, Except.ok.injEq] at h
    subst h
    rcases h0 with h0 | h0
    · simp at h0
    · exact h0
  | cons a as ih =>
    intro s s' h h0
    simp only [List.foldlM_cons, bind, Except.bind] at h
    cases hw : s.writeStepState a.key x none with
    | error e => simp [hw] at h
    | ok s1 =>
      simp only [hw] at h
      apply ih s1 s' h
      by_cases hqa : q = a.key
      · right
        subst hqa
        exact writeStepState_self_holding s s1 a.key x none hx hw
      · rcases h0 with h0 | h0
        · left
          simp only [List.map_cons, List.mem_cons] at h0
          rcases h0 with h0 | h0
          · exact absurd h0 hqa
          · exact h0
        · right
          exact writeStepState_holding_zero s s1 a.key x none hw q h0

/-! ## No BUILT file behind a PENDING step is created by the propagation -/

/-- A BUILT file at the end of a dependency edge from a step that is PENDING. -/
def PendingBuilt (s : KState) (d : Dep) : Prop :=
  d ∈ s.deps ∧ d.snk.kind = .file ∧ s.fstateOf d.snk = some .built ∧ s.sstateOf d.src = some .pending

/-- Marking steps pending never leaves a BUILT file behind a step it made PENDING: every BUILT
file behind a PENDING step afterwards was one before. -/
theorem markStepPending_pendingBuilt_mono :
    ∀ (fuel : Nat) (s s' : KState) (k : Key), markStepPending fuel s k = .ok s' →
      ∀ d, PendingBuilt s' d → PendingBuilt s d := by
  intro fuel
  induction fuel with
  | zero => intro s s' k h; rw [markStepPending_zero] at h; cases h
  | succ fuel ih =>
    have hfold : ∀ (l : List Key) (s s' : KState), l.foldlM (markStepPending fuel) s = .ok s' →
        ∀ d, PendingBuilt s' d → PendingBuilt s d := by
      intro l s s' h
      exact foldlM_keeps (fun b => ∀ d, PendingBuilt b d → PendingBuilt s d) _ l
        (fun b a b' _ hb hr d hd => hb d (ih b b' a hr d hd)) s s' (fun _ hd => hd) h
    have hout : ∀ (s s' : KState) (f : Key), outdateStep (markStepPending fuel) s f = .ok s' →
        ∀ d, PendingBuilt s' d → PendingBuilt s d := by
      intro s s' f h d hd
      unfold outdateStep at h
      cases hf : s.find? f with
      | none =>
        simp only [hf, pure, Except.pure, Except.ok.injEq] at h
        exact h ▸ hd
      | some fn =>
        simp only [hf] at h
        split at h
        · simp only [bind, Except.bind] at h
          cases hw : s.setFileState f .outdated with
          | error e => simp [hw] at h
          | ok s1 =>
            simp only [hw] at h
            rw [setFileState_eq] at hw
            obtain ⟨hfs, hss, hdeps⟩ := writeFile_effect s s1 f _ _ hw
            obtain ⟨hmem, hkind, hb, h1⟩ := hfold _ s1 s' h d hd
            refine ⟨hdeps ▸ hmem, hkind, ?_, by rw [← hss]; exact h1⟩
            rw [hfs d.snk] at hb
            by_cases hq : d.snk = f
            · rw [hq] at hb
              simp only [if_true] at hb
              cases hc : s.fstateOf f with
              | none => simp [hc] at hb
              | some y => simp [hc] at hb
            · simpa [hq] using hb
        · simp only [pure, Except.pure, Except.ok.injEq] at h
          exact h ▸ hd
    intro s s' k h d hd
    have hall := h
    rw [markStepPending_succ] at h
    cases hf : s.find? k with
    | none => simp only [hf, Except.ok.injEq] at h; exact h ▸ hd
    | some n =>
      simp only [hf] at h
      split at h
      · simp only [Except.ok.injEq] at h; exact h ▸ hd
      · rename_i hnrc
        cases hw : s.setStepState k .pending with
        | error e => simp [hw, Except.bind] at h
        | ok s1 =>
          simp only [hw, Except.bind] at h
          rw [setStepState_eq] at hw
          obtain ⟨hss, hfs, hdeps⟩ := writeStepState_effect s s1 k _ _ hw
          have hst : s.sstateOf k = some n.sstate := by simp [KState.sstateOf, hf]
          by_cases hdone : n.sstate = .succeeded ∨ n.sstate = .failed
          · simp only [hdone, if_true] at h
            have hd1 : PendingBuilt s1 d :=
              foldlM_keeps (fun b => ∀ d, PendingBuilt b d → PendingBuilt s1 d) _ _
                (fun b a b' _ hb hr d hd => hb d (hout b b' a hr d hd)) s1 s' (fun _ hd => hd) h d hd
            by_cases hsrc : d.src = k
            · exfalso
              obtain ⟨hmem, hkind, hb, _⟩ := hd
              have hdeps' : s'.deps = s.deps := markStepPending_deps (fuel + 1) s s' k hall
              have hmem0 : d ∈ s.deps := hdeps' ▸ hmem
              exact markStepPending_sinks_notBuilt (fuel + 1) s s' k n.sstate hst hdone hall d.snk
                (hsrc ▸ mem_sinksOf s d hmem0) hkind hb
            · obtain ⟨hmem, hkind, hb, h1⟩ := hd1
              have hsame : s1.sstateOf d.src = s.sstateOf d.src := by rw [hss d.src]; simp [hsrc]
              exact ⟨hdeps ▸ hmem, hkind, by rw [← hfs]; exact hb, hsame ▸ h1⟩
          · simp only [hdone, if_false, Except.ok.injEq] at h
            subst h
            obtain ⟨hmem, hkind, hb, h1⟩ := hd
            refine ⟨hdeps ▸ hmem, hkind, by rw [← hfs]; exact hb, ?_⟩
            by_cases hsrc : d.src = k
            · rw [hsrc, hst]
              -- not RUNNING, CHECKING, SUCCEEDED, FAILED: the step was PENDING already
              cases hx : n.sstate with
              | pending => rfl
              | running => exact absurd (Or.inl hx) hnrc
              | checking => exact absurd (Or.inr hx) hnrc
              | succeeded => exact absurd (Or.inl hx) hdone
              | failed => exact absurd (Or.inr hx) hdone
            · have hsame : s1.sstateOf d.src = s.sstateOf d.src := by rw [hss d.src]; simp [hsrc]
              exact hsame ▸ h1

/-- `foldlM_each` with the membership of the elements available to both hypotheses. -/
theorem foldlM_each_mem {α β : Type} (R : α → β → Prop) (f : β → α → M β) (l : List α)
    (hest : ∀ b a b', a ∈ l → f b a = .ok b' → R a b')
    (hstab : ∀ b a a' b', a' ∈ l → R a b → f b a' = .ok b' → R a b') (b b' : β)
    (h : l.foldlM f b = .ok b') : ∀ a ∈ l, R a b' := by
  induction l generalizing b with
  | nil => intro a ha; cases ha
  | cons x xs ih =>
    simp only [List.foldlM_cons, bind, Except.bind] at h
    cases hfx : f b x with
    | error e => simp [hfx] at h
    | ok b1 =>
      simp only [hfx] at h
      intro a ha
      rcases List.mem_cons.mp ha with rfl | hmem
      · exact foldlM_keeps (R a) f xs
          (fun b0 a0 b0' ha0 hb0 hr => hstab b0 a a0 b0' (List.mem_cons_of_mem _ ha0) hb0 hr) b1 b'
          (hest b a b1 List.mem_cons_self hfx) h
      · exact ih (fun b0 a0 b0' ha0 => hest b0 a0 b0' (List.mem_cons_of_mem _ ha0))
          (fun b0 a0 a0' b0' ha0' => hstab b0 a0 a0' b0' (List.mem_cons_of_mem _ ha0')) b1 h a hmem

/-! ## Folds of `mark_step_pending` over a list of rows -/

theorem foldlM_markStepPending_inv {Q : KState → Prop} (hQ : PropInv Q) (l : List Node) (s s' : KState)
    (hs : Q s) (h : l.foldlM (fun st n => st.markStepPending n.key) s = .ok s') : Q s' :=
  foldlM_keeps Q _ l (fun b a b' _ hb hr => markStepPending_inv hQ b.fuel b b' a.key hb hr) s s' hs h

theorem foldlM_markStepPending_pendingBuilt (l : List Node) (s s' : KState)
    (h : l.foldlM (fun st n => st.markStepPending n.key) s = .ok s') :
    ∀ d, PendingBuilt s' d → PendingBuilt s d :=
  foldlM_keeps (fun b => ∀ d, PendingBuilt b d → PendingBuilt s d) _ l
    (fun b a b' _ hb hr d hd => hb d (markStepPending_pendingBuilt_mono b.fuel b b' a.key hr d hd)) s s'
    (fun _ hd => hd) h

/-- Every row of the list is `NotDone` (PENDING unless RUNNING / CHECKING) after the fold. -/
theorem foldlM_markStepPending_notDone (l : List Node) (s s' : KState)
    (h : l.foldlM (fun st n => st.markStepPending n.key) s = .ok s') : ∀ n ∈ l, NotDone s' n.key :=
  foldlM_each (fun (n : Node) (b : KState) => NotDone b n.key) _ l
    (fun b a b' hr => markStepPending_notDone b.fuel b b' a.key hr)
    (fun b a a' b' hb hr => markStepPending_inv (propInv_notDone a.key) b.fuel b b' a'.key hb hr) s s' h

/-! ## `mark_file_outdated` -/

theorem markFileOutdated_self (s s' : KState) (f : Key) (h : s.markFileOutdated f = .ok s') :
    s'.fstateOf f ≠ some .built := by
  unfold KState.markFileOutdated at h
  cases hf : s.find? f with
  | none =>
    simp only [hf, pure, Except.pure, Except.ok.injEq] at h
    subst h
    simp [KState.fstateOf, hf]
  | some n =>
    simp only [hf] at h
    split at h
    · simp only [bind, Except.bind] at h
      cases hw : s.setFileState f .outdated with
      | error e => simp [hw] at h
      | ok s1 =>
        simp only [hw] at h
        have h1 : s1.fstateOf f ≠ some .built := by
          rw [setFileState_eq] at hw
          rw [(writeFile_effect s s1 f _ _ hw).1 f]
          simp [KState.fstateOf, hf]
        exact markConsumersPending_inv (propInv_notBuilt f) s1 s' f h1 h
    · split at h
      · rename_i ho
        simp only [pure, Except.pure, Except.ok.injEq] at h
        subst h
        simp [KState.fstateOf, hf, ho]
      · cases h

/-- `mark_file_outdated` keeps every invariant of the propagation. -/
theorem markFileOutdated_inv {Q : KState → Prop} (hQ : PropInv Q) (s s' : KState) (f : Key) (hk : f.kind = .file)
    (hs : Q s) (h : s.markFileOutdated f = .ok s') : Q s' := by
  unfold KState.markFileOutdated at h
  cases hf : s.find? f with
  | none =>
    simp only [hf, pure, Except.pure, Except.ok.injEq] at h
    exact h ▸ hs
  | some n =>
    simp only [hf] at h
    split at h
    · rename_i hb
      simp only [bind, Except.bind] at h
      cases hw : s.setFileState f .outdated with
      | error e => simp [hw] at h
      | ok s1 =>
        simp only [hw] at h
        have h1 : Q s1 := hQ.file s s1 f hs (by simp [KState.fstateOf, hf, hb]) hk hw
        exact markConsumersPending_inv hQ s1 s' f h1 h
    · split at h
      · simp only [pure, Except.pure, Except.ok.injEq] at h
        exact h ▸ hs
      · cases h

/-! ## Writes that touch neither a file state nor a step state -/

/-- `(file state, step state)` of the row with key `q`. -/
def KState.statesOf (s : KState) (q : Key) : Option (FileState × StepState) :=
  (s.find? q).map fun n => (n.fstate, n.sstate)

theorem fstateOf_of_statesOf {s s' : KState} {q : Key} (h : s'.statesOf q = s.statesOf q) :
    s'.fstateOf q = s.fstateOf q := by
  unfold KState.statesOf at h
  unfold KState.fstateOf
  cases h1 : s'.find? q <;> cases h2 : s.find? q <;> simp_all

theorem sstateOf_of_statesOf {s s' : KState} {q : Key} (h : s'.statesOf q = s.statesOf q) :
    s'.sstateOf q = s.sstateOf q := by
  unfold KState.statesOf at h
  unfold KState.sstateOf
  cases h1 : s'.find? q <;> cases h2 : s.find? q <;> simp_all

theorem statesOf_modify (s : KState) (k q : Key) (f : Node → Node) (hkey : ∀ n, (f n).key = n.key)
    (hf : ∀ n, (f n).fstate = n.fstate) (hs : ∀ n, (f n).sstate = n.sstate) :
    (s.modify k f).statesOf q = s.statesOf q :=
  find?_modify_proj s k f (fun n => (n.fstate, n.sstate)) q hkey (fun n => by simp [hf, hs])

theorem statesOf_modifyWhere (s : KState) (p : Node → Bool) (q : Key) (f : Node → Node)
    (hkey : ∀ n, (f n).key = n.key) (hf : ∀ n, (f n).fstate = n.fstate) (hs : ∀ n, (f n).sstate = n.sstate) :
    (s.modifyWhere p f).statesOf q = s.statesOf q :=
  find?_modifyWhere_proj s p f (fun n => (n.fstate, n.sstate)) q hkey (fun n => by simp [hf, hs])

theorem statesOf_flagReadySinks (s : KState) (k q : Key) : (s.flagReadySinks k).statesOf q = s.statesOf q := by
  unfold KState.flagReadySinks
  exact statesOf_modifyWhere s _ q _ (fun _ => rfl) (fun _ => rfl) (fun _ => rfl)

theorem statesOf_setDetachedRow (s : KState) (k : Key) (d : Bool) (q : Key) :
    (s.setDetachedRow k d).statesOf q = s.statesOf q := by
  unfold KState.setDetachedRow
  cases s.find? k with
  | none => rfl
  | some n =>
    simp only
    split
    · rw [statesOf_flagReadySinks]; exact statesOf_modify s k q _ (fun _ => rfl) (fun _ => rfl) (fun _ => rfl)
    · exact statesOf_modify s k q _ (fun _ => rfl) (fun _ => rfl) (fun _ => rfl)

theorem statesOf_setDetachedRec (s : KState) (k : Key) (d : Bool) (q : Key) :
    (s.setDetachedRec k d).statesOf q = s.statesOf q := by
  unfold KState.setDetachedRec
  generalize s.descendants k = l
  induction l generalizing s with
  | nil => rfl
  | cons a as ih => simp only [List.foldl_cons]; rw [ih]; exact statesOf_setDetachedRow s a d q

theorem statesOf_setCreator (s s' : KState) (k : Key) (c : Option Key) (d : Bool) (q : Key)
    (h : s.setCreator k c d = .ok s') : s'.statesOf q = s.statesOf q := by
  unfold KState.setCreator at h
  split at h
  · simp only [pure, Except.pure, Except.ok.injEq] at h
    subst h
    rw [statesOf_setDetachedRow]
    exact statesOf_modify s k q _ (fun _ => rfl) (fun _ => rfl) (fun _ => rfl)
  · cases h

theorem statesOf_flagChecksWithProducts (s s' : KState) (k q : Key) (h : s.flagChecksWithProducts k = .ok s') :
    s'.statesOf q = s.statesOf q := by
  unfold KState.flagChecksWithProducts at h
  split at h
  · cases h
  · simp only [pure, Except.pure, Except.ok.injEq] at h
    subst h
    exact statesOf_modifyWhere s _ q _ (fun _ => rfl) (fun _ => rfl) (fun _ => rfl)

theorem statesOf_flagCheckAfterSources (s s' : KState) (k q : Key) (h : s.flagCheckAfterSources k = .ok s') :
    s'.statesOf q = s.statesOf q := by
  unfold KState.flagCheckAfterSources at h
  split at h
  · cases h
  · simp only [pure, Except.pure, Except.ok.injEq] at h
    subst h
    exact statesOf_modifyWhere s _ q _ (fun _ => rfl) (fun _ => rfl) (fun _ => rfl)

theorem statesOf_detach (s s' : KState) (k q : Key) (h : s.detach k = .ok s') : s'.statesOf q = s.statesOf q := by
  unfold KState.detach at h
  cases hf : s.find? k with
  | none => simp [hf] at h
  | some n =>
    simp only [hf, bind, Except.bind] at h
    cases hc : s.detachCore k n with
    | error e => simp [hc] at h
    | ok s1 =>
      simp only [hc] at h
      have h1 : s1.statesOf q = s.statesOf q := by
        unfold KState.detachCore at hc
        split at hc
        · simp only [bind, Except.bind] at hc
          cases hs : s.setCreator k none true with
          | error e => simp [hs] at hc
          | ok s0 =>
            simp only [hs, pure, Except.pure, Except.ok.injEq] at hc
            subst hc
            have := statesOf_setCreator s s0 k none true q hs
            split
            · rw [statesOf_setDetachedRec]; exact this
            · exact this
        · simp only [pure, Except.pure, Except.ok.injEq] at hc
          subst hc; rfl
      have h2 : s'.statesOf q = s1.statesOf q := by
        unfold KState.detachFlags at h
        split at h
        · simp only [bind, Except.bind] at h
          cases hfl : s1.flagChecksWithProducts k with
          | error e => simp [hfl] at h
          | ok s2 =>
            simp only [hfl] at h
            rw [statesOf_flagCheckAfterSources s2 s' k q h, statesOf_flagChecksWithProducts s1 s2 k q hfl]
        · simp only [pure, Except.pure, Except.ok.injEq] at h
          subst h; rfl
      exact h2.trans h1

theorem statesOf_foldlM_detach (l : List Node) (s s' : KState) (q : Key)
    (h : l.foldlM (fun st p => st.detach p.key) s = .ok s') : s'.statesOf q = s.statesOf q :=
  foldlM_keeps (fun b => b.statesOf q = s.statesOf q) _ l
    (fun b a b' _ hb hr => (statesOf_detach b b' a.key q hr).trans hb) s s' rfl h

theorem statesOf_deleteHash (s : KState) (k q : Key) : (s.deleteHash k).statesOf q = s.statesOf q := by
  unfold KState.deleteHash
  exact statesOf_modify s k q _ (fun n => by by_cases h : n.shash.isSome <;> simp [h])
    (fun n => by by_cases h : n.shash.isSome <;> simp [h]) (fun n => by by_cases h : n.shash.isSome <;> simp [h])

theorem fstateOf_modify (s : KState) (k q : Key) (f : Node → Node) (hkey : ∀ n, (f n).key = n.key)
    (hf : ∀ n, (f n).fstate = n.fstate) : (s.modify k f).fstateOf q = s.fstateOf q :=
  find?_modify_proj s k f (·.fstate) q hkey hf

theorem sstateOf_modify (s : KState) (k q : Key) (f : Node → Node) (hkey : ∀ n, (f n).key = n.key)
    (hf : ∀ n, (f n).sstate = n.sstate) : (s.modify k f).sstateOf q = s.sstateOf q :=
  find?_modify_proj s k f (·.sstate) q hkey hf

theorem fstateOf_foldlM_detach (l : List Node) (s s' : KState) (q : Key)
    (h : l.foldlM (fun st p => st.detach p.key) s = .ok s') : s'.fstateOf q = s.fstateOf q :=
  fstateOf_of_statesOf (statesOf_foldlM_detach l s s' q h)

theorem sstateOf_foldlM_detach (l : List Node) (s s' : KState) (q : Key)
    (h : l.foldlM (fun st p => st.detach p.key) s = .ok s') : s'.sstateOf q = s.sstateOf q :=
  sstateOf_of_statesOf (statesOf_foldlM_detach l s s' q h)

theorem fstateOf_deleteHash (s : KState) (k q : Key) : (s.deleteHash k).fstateOf q = s.fstateOf q :=
  fstateOf_of_statesOf (statesOf_deleteHash s k q)

theorem sstateOf_deleteHash (s : KState) (k q : Key) : (s.deleteHash k).sstateOf q = s.sstateOf q :=
  sstateOf_of_statesOf (statesOf_deleteHash s k q)

end StepupModel.K
