import StepupModel.B.JobLoop
/-! Invariants of the `Builder.job_loop` model (`B/JobLoop.lean`) over every event sequence. -/
namespace StepupModel.B.JobLoop

/-! ## Frame facts of the helper functions -/

theorem retire_frame (s : JL) (j : Job) :
    (retire s j).running = s.running ∧ (retire s j).njob = s.njob ∧ (retire s j).queue = s.queue ∧
    (retire s j).claimed = s.claimed ∧ (retire s j).offers = s.offers ∧ (retire s j).status = s.status ∧
    (retire s j).started = s.started ∧ (retire s j).polls = s.polls ∧ (retire s j).promoted = s.promoted ∧
    (retire s j).inflight = s.inflight ∧ (retire s j).draining = s.draining ∧ (retire s j).done = s.done := by
  cases j <;> simp [retire]

theorem handleDone_frame (l : List (Job × Bool)) : ∀ (s : JL),
    (handleDone s l).1.running = s.running ∧ (handleDone s l).1.njob = s.njob ∧
    (handleDone s l).1.queue = s.queue ∧ (handleDone s l).1.claimed = s.claimed ∧
    (handleDone s l).1.offers = s.offers ∧ (handleDone s l).1.status = s.status ∧
    (handleDone s l).1.started = s.started ∧ (handleDone s l).1.polls = s.polls ∧
    (handleDone s l).1.promoted = s.promoted ∧ (handleDone s l).1.inflight = s.inflight := by
  induction l with
  | nil => intro s; simp [handleDone]
  | cons a rest ih =>
    intro s
    obtain ⟨j, ok⟩ := a
    cases ok
    · simp [handleDone]
    · have h := ih (retire s j)
      have f := retire_frame s j
      simp only [handleDone, Bool.not_true, Bool.false_eq_true, if_false]
      simp only [f] at h
      exact h

theorem handleDone_done (l : List (Job × Bool)) : ∀ (s : JL),
    (handleDone s l).2 = false → (handleDone s l).1.done = [] ∧ (l = [] → (handleDone s l).1.wake = s.wake) := by
  induction l with
  | nil => intro s _; simp [handleDone]
  | cons a rest ih =>
    intro s
    obtain ⟨j, ok⟩ := a
    cases ok
    · simp [handleDone]
    · simp only [handleDone, Bool.not_true, Bool.false_eq_true, if_false]
      intro h; exact ⟨(ih _ h).1, by simp⟩

theorem handleDone_draining (l : List (Job × Bool)) : ∀ (s : JL),
    s.draining = true → (handleDone s l).1.draining = true := by
  induction l with
  | nil => intro s h; simpa [handleDone] using h
  | cons a rest ih =>
    intro s h
    obtain ⟨j, ok⟩ := a
    cases ok
    · simp [handleDone]
    · simp only [handleDone, Bool.not_true, Bool.false_eq_true, if_false]
      exact ih _ (by rw [(retire_frame s j).2.2.2.2.2.2.2.2.2.2.1]; exact h)

theorem handleDone_raise_draining (l : List (Job × Bool)) : ∀ (s : JL),
    (handleDone s l).2 = true → (handleDone s l).1.draining = true := by
  induction l with
  | nil => intro s; simp [handleDone]
  | cons a rest ih =>
    intro s
    obtain ⟨j, ok⟩ := a
    cases ok
    · simp [handleDone]
    · simp only [handleDone, Bool.not_true, Bool.false_eq_true, if_false]; exact ih _

theorem popHash_frame (l : List Nat) : ∀ (s : JL),
    (popHash s l).1.running = s.running ∧ (popHash s l).1.njob = s.njob ∧ (popHash s l).1.done = s.done ∧
    (popHash s l).1.offers = s.offers ∧ (popHash s l).1.status = s.status ∧
    (popHash s l).1.started = s.started ∧ (popHash s l).1.handled = s.handled ∧
    (popHash s l).1.retired = s.retired ∧ (popHash s l).1.wake = s.wake ∧
    (popHash s l).1.draining = s.draining ∧ (popHash s l).1.polls = s.polls := by
  induction l with
  | nil => intro s; simp [popHash]
  | cons i rest ih =>
    intro s
    simp only [popHash]
    split
    · exact ih s
    · simp

theorem submit_frame (s : JL) (p : Nat) :
    (submit s p).1.running = s.running ∧ (submit s p).1.njob = s.njob ∧ (submit s p).1.done = s.done ∧
    (submit s p).1.status = s.status ∧ (submit s p).1.started = s.started ∧
    (submit s p).1.handled = s.handled ∧ (submit s p).1.retired = s.retired ∧
    (submit s p).1.draining = s.draining ∧ (submit s p).1.claimed = s.claimed ∧
    (submit s p).1.promoted = s.promoted := by
  unfold submit; split <;> simp

theorem popHash_none (l : List Nat) : ∀ (s : JL), (popHash s l).2 = none →
    (popHash s l).1.queue = [] ∧ (popHash s l).1.claimed = s.claimed := by
  induction l with
  | nil => intro s _; simp [popHash]
  | cons i rest ih =>
    intro s
    simp only [popHash]
    split
    · exact ih s
    · simp

/-! ## The job limit -/

theorem iter_running (s : JL) (h : s.running.length ≤ s.njob) :
    (iter s).1.running.length ≤ (iter s).1.njob ∧ (iter s).1.njob = s.njob := by
  unfold iter
  have hf := handleDone_frame s.done.reverse s
  generalize handleDone s s.done.reverse = r at hf
  obtain ⟨s1, b⟩ := r
  obtain ⟨hr, hn, -⟩ := hf
  simp only at hr hn
  cases b
  · simp only
    split
    · rename_i hlt
      have hp := popHash_frame s1.queue s1
      generalize popHash s1 s1.queue = q at hp
      obtain ⟨s2, o⟩ := q
      obtain ⟨hr2, hn2, -⟩ := hp
      simp only at hr2 hn2
      cases o with
      | some i => simp [startJob, hr2, hn2, hn]; omega
      | none =>
        simp only
        split
        · simp [startJob, hr2, hn2, hn]; omega
        · unfold tail; simp only; split
          · simp [hr2, hn2, hn, hr]; omega
          · split <;> simp [hr2, hn2, hn, hr] <;> omega
    · unfold tail; split
      · simp [hn, hr]; omega
      · split <;> simp [hn, hr] <;> omega
  · simp [hr, hn]; omega

theorem settleN_running (fuel : Nat) : ∀ (s : JL), s.running.length ≤ s.njob →
    (settleN fuel s).running.length ≤ (settleN fuel s).njob ∧ (settleN fuel s).njob = s.njob := by
  induction fuel with
  | zero => intro s h; simp [settleN, h]
  | succ n ih =>
    intro s h
    have hi := iter_running s h
    simp only [settleN]
    generalize iter s = r at hi
    obtain ⟨s1, c⟩ := r
    cases c
    · have := ih s1 hi.1
      simp only at hi ⊢
      exact ⟨this.1, this.2.trans hi.2⟩
    all_goals (simp only at hi ⊢; exact hi)

theorem resolveFor_frame (s : JL) (j : Job) :
    (resolveFor s j).running = s.running ∧ (resolveFor s j).njob = s.njob ∧ (resolveFor s j).done = s.done ∧
    (resolveFor s j).status = s.status ∧ (resolveFor s j).started = s.started ∧
    (resolveFor s j).handled = s.handled ∧ (resolveFor s j).retired = s.retired ∧
    (resolveFor s j).draining = s.draining ∧ (resolveFor s j).wake = s.wake ∧
    (resolveFor s j).offers = s.offers ∧ (resolveFor s j).queue = s.queue ∧
    (resolveFor s j).claimed = s.claimed := by
  cases j with
  | step i => simp [resolveFor]
  | hash i =>
    simp only [resolveFor]
    split
    · simp [resolve]
    · split <;> simp [resolve]

theorem moveDone_running (s : JL) (j : Job) (ok : Bool) (h : s.running.length ≤ s.njob) :
    (moveDone s j ok).running.length ≤ (moveDone s j ok).njob ∧ (moveDone s j ok).njob = s.njob := by
  unfold moveDone
  split
  · simp only [List.length_erase]; split <;> simp <;> omega
  · simp [h]

theorem apply_running (s : JL) (e : Ev) (h : s.running.length ≤ s.njob) :
    (apply s e).running.length ≤ (apply s e).njob ∧ (apply s e).njob = s.njob := by
  cases e with
  | start => simp only [apply]; split <;> simp [h]
  | offer j => simp [apply, h]
  | submit p => have := submit_frame s p; simp only [apply]; rw [this.1, this.2.1]; exact ⟨h, rfl⟩
  | promote p =>
    have := submit_frame s p
    simp only [apply]
    generalize submit s p = r at this
    obtain ⟨t, i⟩ := r
    simp only at this ⊢
    split <;> simp [this.1, this.2.1, h]
  | fin j =>
    simp only [apply]
    have hr := resolveFor_frame s j
    have := moveDone_running (resolveFor s j) j true (by rw [hr.1, hr.2.1]; exact h)
    exact ⟨this.1, this.2.trans hr.2.1⟩
  | fail j =>
    cases j with
    | step i => simp only [apply]; exact moveDone_running s _ false h
    | hash i => simp [apply, h]

theorem settle_running (s : JL) (f : Bool) (h : s.running.length ≤ s.njob) :
    (settle s f).running.length ≤ (settle s f).njob ∧ (settle s f).njob = s.njob := by
  unfold settle
  split
  · split
    · simpa using settleN_running (s.njob + 4) s h
    · split
      · have := settleN_running (s.njob + 4) { s with wake := false } h
        simpa using this
      · simp [h]
  · simp [h]

theorem step_running (s : JL) (e : Ev) (h : s.running.length ≤ s.njob) :
    (step s e).running.length ≤ (step s e).njob ∧ (step s e).njob = s.njob := by
  unfold step
  have ha := apply_running s e h
  have := settle_running (apply s e) (decide (e = .start ∧ (s.status = .idle ∨ s.status = .returned))) ha.1
  exact ⟨this.1, this.2.trans ha.2⟩

theorem run_running (njob : Nat) (evs : List Ev) :
    (run njob evs).running.length ≤ njob ∧ (run njob evs).njob = njob := by
  unfold run
  suffices h : ∀ (s : JL), s.running.length ≤ s.njob →
      (evs.foldl step s).running.length ≤ s.njob ∧ (evs.foldl step s).njob = s.njob by
    simpa using h { njob := njob } (by simp)
  induction evs with
  | nil => intro s h; simp [h]
  | cons e rest ih =>
    intro s h
    have hs := step_running s e h
    have := ih (step s e) hs.1
    simp only [List.foldl_cons]
    rw [hs.2] at this
    exact this

end StepupModel.B.JobLoop
