import StepupModel.Lemmas.Reach
import StepupModel.Lemmas.ReachAcyLift
/-!
# Creator links have no cycle after every history, detached rows included

`Lemmas/Reach.lean` shows `ForestWF` after every history: the local invariant of
`_check_consistency` and well-founded creator links among *attached* rows.  This file adds the
detached rows: `Sk.TreeAcy` (`Sk.Tree` and `Sk.Acy` of `Lemmas/ReachAcySkel.lean`) is kept by the seven
rewrites of the kernel, `reattach` under its guard (`skStableG_treeAcy`), hence by every request and
every history (`Lemmas/ReachAcyLift.lean`): **`creatorAcyclic_reachable`**.  The guard is needed:
`acy_not_skStable` re-attaches a detached row below its own detached product.
-/
namespace StepupModel.K
open StepupModel.Lemmas Sk
set_option linter.unusedSimpArgs false

/-- `Sk.Tree` and: no cycle of creator links among all rows. -/
def Sk.TreeAcy (l : List Tri) : Prop := Sk.Tree l ∧ Sk.Acy l

theorem kindOk_not_root {a b : Kind} (h : creatorKindOk a b = true) : a ≠ .root := by
  cases a <;> cases b <;> simp [creatorKindOk] at h ⊢

/-- The guard of `reattach`, read on an acyclic forest. -/
theorem not_below_of_guard {l : List Tri} (hok : Sk.OK l) (ha : Sk.Acy l) {k c : Key} {ck : Option Key}
    (hrow : (k, ck, true) ∈ l) (hkind : creatorKindOk k.kind c.kind = true) (hg : Sk.createdBy l k c = false) :
    ¬ Sk.Below (Sk.Link l) k c := by
  intro hb
  have := createdBy_complete hok.nodup ha (kindOk_not_root hkind) ⟨_, hrow, rfl⟩ hb
  rw [hg] at this; cases this

/-- The creator forest stays a forest, detached part included, under the seven rewrites of the
kernel (`reattach` with its guard). -/
theorem skStableG_treeAcy : SkStableG Sk.TreeAcy where
  ok _ h := h.1.1
  detachAtt l k ck D hq hk hrow hD := ⟨skStable_tree.detachAtt l k ck D hq.1 hk hrow hD, acy_detachAtt hq.2 k D⟩
  detachDet l k ck hq hrow := ⟨skStable_tree.detachDet l k ck hq.1 hrow, acy_detachDet hq.2 k⟩
  reattach l k ck c d D hq hrow hck hhas hkind hd hg hD :=
    ⟨skStable_tree.reattach l k ck c d D hq.1 hrow hck hhas hkind hd hD,
      acy_reattach hq.2 (not_below_of_guard hq.1.1 hq.2 hrow hkind hg) d D⟩
  recycle l k ck newc d hq hrow hfits hkind :=
    ⟨skStable_tree.recycle l k ck newc d hq.1 hrow hfits hkind, acy_recycle hq.2 hfits⟩
  append l k newc d hq hfresh hk hd :=
    ⟨skStable_tree.append l k newc d hq.1 hfresh hk hd, acy_append hq.2 hq.1.1.exist hfresh (fun c hc => (hk c hc).1)⟩
  hand l tk hs hq htk hkind hfile hatt :=
    ⟨skStable_tree.hand l tk hs hq.1 htk hkind hfile hatt, acy_hand hq.2 hq.1.2.2 hkind hfile⟩
  filter l D hq hdet hleaf := ⟨skStable_tree.filter l D hq.1 hdet hleaf, acy_filter hq.2 _⟩

theorem init_acy : Sk.Acy KState.init.skel := by
  have e : KState.init.skel = [(rootKey, some rootKey, false)] := rfl
  refine WellFounded.intro fun x => Acc.intro x fun a h => ?_
  obtain ⟨hk, d, hm⟩ := h
  rw [e] at hm
  simp only [List.mem_singleton, Prod.mk.injEq] at hm
  rw [hm.1] at hk
  exact absurd rfl hk

theorem init_treeAcy : Sk.TreeAcy KState.init.skel := ⟨init_tree, init_acy⟩

/-- The creator links of a state have no cycle: "`c` is the creator of the row `k`", over all rows
that are not of kind root (the root is its own creator), attached or not, is well-founded. -/
def CreatorAcyclic (s : KState) : Prop :=
  WellFounded fun c k => k.kind ≠ .root ∧ ∃ n ∈ s.nodes, n.key = k ∧ n.creator = some c

theorem creatorAcyclic_iff (s : KState) : CreatorAcyclic s ↔ Sk.Acy s.skel := by
  unfold CreatorAcyclic Sk.Acy
  have : (fun c k => k.kind ≠ Kind.root ∧ ∃ n ∈ s.nodes, n.key = k ∧ n.creator = some c) = Sk.Link s.skel := by
    funext c k
    unfold Sk.Link KState.skel
    apply propext
    constructor
    · rintro ⟨hk, n, hn, rfl, hc⟩
      refine ⟨hk, n.detached, List.mem_map.2 ⟨n, hn, ?_⟩⟩
      unfold Node.tri; rw [hc]
    · rintro ⟨hk, d, hm⟩
      obtain ⟨n, hn, he⟩ := List.mem_map.1 hm
      unfold Node.tri at he
      simp only [Prod.mk.injEq] at he
      exact ⟨hk, n, hn, he.1, he.2.1⟩
  rw [this]

/-- The whole invariant of the creator forest: `ForestWF` and no cycle among all rows. -/
def ForestAcy (s : KState) : Prop := ForestWF s ∧ CreatorAcyclic s

theorem forestAcy_iff (s : KState) : ForestAcy s ↔ PQ Sk.TreeAcy s := by
  unfold ForestAcy PQ Sk.TreeAcy
  rw [forestWF_iff, creatorAcyclic_iff]
  exact Iff.rfl

theorem init_forestAcy : ForestAcy KState.init := (forestAcy_iff _).2 init_treeAcy

/-- Every accepted request keeps the whole invariant. -/
theorem exec_forestAcy (cfg : KConfig) (r : Req) (s : KState) (res : KState × String)
    (hp : ForestAcy s) (h : s.exec cfg r = .ok res) : ForestAcy res.1 :=
  (forestAcy_iff _).2 (exec_skStableG skStableG_treeAcy cfg r s res ((forestAcy_iff _).1 hp) h)

theorem step_forestAcy (cfg : KConfig) (r : Req) (s : KState) (hp : ForestAcy s) : ForestAcy (s.step cfg r) :=
  (forestAcy_iff _).2 (step_skStableG skStableG_treeAcy cfg r s ((forestAcy_iff _).1 hp))

theorem run_forestAcy (h : List (KConfig × Req)) (s : KState) (hp : ForestAcy s) : ForestAcy (s.run h) :=
  (forestAcy_iff _).2 (run_skStableG skStableG_treeAcy h s ((forestAcy_iff _).1 hp))

/-- After every history of accepted and rejected requests. -/
theorem forestAcy_reachable (h : List (KConfig × Req)) : ForestAcy (KState.init.run h) :=
  run_forestAcy h KState.init init_forestAcy

/-- **After every history the creator links have no cycle, among attached and detached rows alike.** -/
theorem creatorAcyclic_reachable (h : List (KConfig × Req)) : CreatorAcyclic (KState.init.run h) :=
  (forestAcy_reachable h).2

/-- `Node.reattach` keeps it (its guard is what does it). -/
theorem reattach_forestAcy (k c : Key) : Preserves ForestAcy (fun s => s.reattach k c) :=
  fun s s' hp h => (forestAcy_iff _).2 (skStableG_treeAcy.reattach_preserves k c s s' ((forestAcy_iff _).1 hp) h)

/-! ## The guard is needed -/

/-- A detached step `x` with a detached product `y`. -/
def acyWitness : List Tri :=
  [(rootKey, some rootKey, false), (stepKey "x", none, true), (stepKey "y", some (stepKey "x"), true)]

/-- Without the guard `reattach` does not keep the forest acyclic: no predicate that implies `Sk.Acy`
and holds of `acyWitness` is `SkStable` in the sense of `Lemmas/ReachLift.lean`. -/
theorem acy_not_skStable (Q : List Tri → Prop) (hq : Q acyWitness) (himp : ∀ l, Q l → Sk.Acy l) : ¬ SkStable Q := by
  intro L
  have hrow : (stepKey "x", (none : Option Key), true) ∈ acyWitness := by decide
  have h := L.reattach acyWitness (stepKey "x") none (stepKey "y") true
    (fun z => decide (z = stepKey "x" ∨ z = stepKey "y")) hq hrow
    (by decide) ⟨_, List.mem_cons_of_mem _ (List.mem_cons_of_mem _ List.mem_cons_self), rfl⟩
    (by decide) ?_ ?_
  · have hacy := himp _ h
    have hxy : Sk.Link (setD (fun z => decide (z = stepKey "x" ∨ z = stepKey "y")) true
        (setRow (stepKey "x") (some (stepKey "y")) true acyWitness)) (stepKey "y") (stepKey "x") :=
      ⟨by decide, true, by decide⟩
    have hyx : Sk.Link (setD (fun z => decide (z = stepKey "x" ∨ z = stepKey "y")) true
        (setRow (stepKey "x") (some (stepKey "y")) true acyWitness)) (stepKey "x") (stepKey "y") :=
      ⟨by decide, true, by decide⟩
    exact Sk.wf_irrefl' hacy.transGen (stepKey "x") (.tail (.single hyx) hxy)
  · constructor
    · intro h; cases h
    · rintro ⟨t, ht, htk, htd⟩
      have : t = (stepKey "y", some (stepKey "x"), true) := by
        simp only [acyWitness, List.mem_cons, List.not_mem_nil, or_false] at ht
        rcases ht with rfl | rfl | rfl
        · exact absurd htk (by decide)
        · exact absurd htk (by decide)
        · rfl
      rw [this] at htd; cases htd
  · have e : setRow (stepKey "x") (some (stepKey "y")) true acyWitness =
        [(rootKey, some rootKey, false), (stepKey "x", some (stepKey "y"), true), (stepKey "y", some (stepKey "x"), true)] := by
      decide
    rw [e]
    intro z
    simp only [decide_eq_true_eq]
    constructor
    · rintro (rfl | rfl)
      · exact Desc.trans _ (stepKey "y") true (by decide) (Desc.direct _ true (by decide) (by decide)) (by decide)
      · exact Desc.direct _ true (by decide) (by decide)
    · intro hd
      obtain ⟨c, d, hm, hne, _⟩ := hd.row
      simp only [List.mem_cons, List.not_mem_nil, or_false, Prod.mk.injEq, Option.some.injEq] at hm
      rcases hm with ⟨h1, h2, _⟩ | ⟨h1, _, _⟩ | ⟨h1, _, _⟩
      · exact absurd (h1.trans h2.symm) hne
      · exact .inl h1
      · exact .inr h1

end StepupModel.K
