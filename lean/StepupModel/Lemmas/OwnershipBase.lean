import StepupModel.Lemmas.Reach
import StepupModel.Lemmas.EverOutput
/-!
# C08 ownership invariants: the predicates of the oracle and their form on the creator forest

`koracles.ownership_invariants` decides, on a snapshot of the database:

* (O1) `TreesDisjoint`: no attached static tree's label is a prefix of another attached static tree's label;
* (O3) `FilesOwned`: every attached file row has a role and an existing creator;
* (O4) `TreeOwnsBeneath`: an attached file whose label starts with the label of an attached static tree has
  one of those trees as creator;
* (O5) `ProductsOwned`: an attached product is created by a step and its only step source is its creator.

O1 and O4 only read the `(key, creator, detached)` triples of the rows, i.e. the creator forest
(`KState.skel`, `Lemmas/ReachSkel.lean`); `DisjSk` and `TobSk` are their forms on the list of triples, and the
lemmas of this file say what each of the rewrites of the forest does to them.  The predicates come in a form
that is relative to the set of rows regarded as attached (`...On A`): the side condition of a recycling
`define` is the same predicate for "attached, or a recursive product of the recycled step".
No property statements here.
-/
namespace StepupModel.K.Own
open StepupModel.K StepupModel.Lemmas StepupModel.K.Sk
set_option linter.unusedSimpArgs false
set_option linter.unusedVariables false

/-! ## The oracle's predicates -/

/-- The row counts as attached. -/
def att (n : Node) : Bool := !n.detached

/-- (O1) relative to the rows selected by `A`. -/
def TreesDisjointOn (A : Node → Bool) (s : KState) : Prop :=
  ∀ a ∈ s.nodes, ∀ b ∈ s.nodes, a.key.kind = .st → A a = true → b.key.kind = .st → A b = true →
    a.key ≠ b.key → b.key.label.startsWith a.key.label = false

/-- (O4) relative to the rows selected by `A`: if some selected tree lies above the selected file, then the
creator of the file is one of the selected trees above it. -/
def TreeOwnsBeneathOn (A : Node → Bool) (s : KState) : Prop :=
  ∀ f ∈ s.nodes, f.key.kind = .file → A f = true → ∀ c, f.creator = some c →
    (∃ t ∈ s.nodes, t.key.kind = .st ∧ A t = true ∧ f.key.label.startsWith t.key.label = true) →
    ∃ t ∈ s.nodes, t.key.kind = .st ∧ A t = true ∧ f.key.label.startsWith t.key.label = true ∧ t.key = c

/-- **(O1)** no attached static tree's label is a prefix of the label of another attached static tree. -/
def TreesDisjoint (s : KState) : Prop := TreesDisjointOn att s

/-- **(O4)** an attached file under an attached static tree is created by one of the attached trees above it. -/
def TreeOwnsBeneath (s : KState) : Prop := TreeOwnsBeneathOn att s

/-- **(O3)** every attached file row has a role and an existing creator. -/
def FilesOwned (s : KState) : Prop :=
  ∀ f ∈ s.nodes, f.key.kind = .file → f.detached = false →
    f.fstate.role? ≠ none ∧ ∃ c, f.creator = some c ∧ s.has c = true

instance (A : Node → Bool) (s : KState) : Decidable (TreesDisjointOn A s) := by
  unfold TreesDisjointOn; exact inferInstance
instance (A : Node → Bool) (s : KState) : Decidable (TreeOwnsBeneathOn A s) := by
  unfold TreeOwnsBeneathOn; exact inferInstance
instance (s : KState) : Decidable (TreesDisjoint s) := by unfold TreesDisjoint; exact inferInstance
instance (s : KState) : Decidable (TreeOwnsBeneath s) := by unfold TreeOwnsBeneath; exact inferInstance
instance (s : KState) : Decidable (FilesOwned s) := by unfold FilesOwned; exact inferInstance

/-! ## (O3) after every history -/

/-- **(O3) holds after every history**, unconditionally: an attached node has an existing creator (creator
forest, `Lemmas/Reach.lean`) and a file without a role is detached (I3, `Lemmas/EverOutput.lean`). -/
theorem filesOwned_after_every_history (h : List (KConfig × Req)) : FilesOwned (KState.init.run h) := by
  intro f hf hk hd
  have hfo := forest_reachable h
  refine ⟨?_, ?_⟩
  · intro hr
    have hu : f.fstate = .undeclared := (Ever.undeclared_iff_role _).2 hr
    have := Ever.undeclared_is_detached h f hf hk hu
    rw [hd] at this; cases this
  · have hroot : f.key ≠ rootKey := by
      intro he; rw [he] at hk; cases hk
    obtain ⟨c, cn, hc, hcn, _⟩ := hfo.2.2.2.1 f hf hroot hd
    refine ⟨c, hc, ?_⟩
    unfold KState.has; rw [hcn]; rfl

/-! ## The forms on the creator forest -/

/-- (O1) on the triples, relative to the keys selected by `A`. -/
def DisjSkOn (A : Tri → Prop) (l : List Tri) : Prop :=
  ∀ a ∈ l, ∀ b ∈ l, a.1.kind = .st → A a → b.1.kind = .st → A b → a.1 ≠ b.1 →
    b.1.label.startsWith a.1.label = false

/-- (O4) on the triples: the creator of a selected file under a selected tree is a tree above the file (that it
is selected follows from the local invariant of the forest). -/
def TobSkOn (A : Tri → Prop) (l : List Tri) : Prop :=
  ∀ f ∈ l, f.1.kind = .file → A f → ∀ c, f.2.1 = some c →
    (∃ u ∈ l, u.1.kind = .st ∧ A u ∧ f.1.label.startsWith u.1.label = true) →
    c.kind = .st ∧ f.1.label.startsWith c.label = true

def attT (t : Tri) : Prop := t.2.2 = false

abbrev DisjSk (l : List Tri) : Prop := DisjSkOn attT l
abbrev TobSk (l : List Tri) : Prop := TobSkOn attT l

/-- The invariant that is carried: the local invariant of the creator forest with (O1) and (O4). -/
def OwnSk (l : List Tri) : Prop := Sk.OK l ∧ DisjSk l ∧ TobSk l

/-- The invariant on states. -/
def Own (s : KState) : Prop := OwnSk s.skel

theorem mem_skel {s : KState} {t : Tri} : t ∈ s.skel ↔ ∃ n ∈ s.nodes, n.tri = t := by
  unfold KState.skel; exact List.mem_map

/-- **(O1) from the invariant.** -/
theorem treesDisjoint_of_own {s : KState} (h : Own s) : TreesDisjoint s := by
  intro a ha b hb hka haa hkb hab hne
  exact h.2.1 a.tri (mem_skel.2 ⟨a, ha, rfl⟩) b.tri (mem_skel.2 ⟨b, hb, rfl⟩) hka
    (by simpa [att, attT, Node.tri] using haa) hkb (by simpa [att, attT, Node.tri] using hab) hne

/-- **(O4) from the invariant.** -/
theorem treeOwnsBeneath_of_own {s : KState} (h : Own s) : TreeOwnsBeneath s := by
  intro f hf hk hfa c hc hex
  obtain ⟨hok, _, htob⟩ := h
  have hfd : f.detached = false := by simpa [att] using hfa
  have hft : f.tri ∈ s.skel := mem_skel.2 ⟨f, hf, rfl⟩
  obtain ⟨hck, hpre⟩ := htob f.tri hft hk hfd c hc (by
    obtain ⟨t, ht, htk, hta, htp⟩ := hex
    exact ⟨t.tri, mem_skel.2 ⟨t, ht, rfl⟩, htk, by simpa [att, attT, Node.tri] using hta, htp⟩)
  -- the creator is an attached row
  have hroot : f.tri.1 ≠ rootKey := by
    intro he; have : f.key.kind = .root := by rw [show f.key = rootKey from he]; rfl
    rw [hk] at this; cases this
  obtain ⟨c', hc', u, hu, huk, hud⟩ := (hok.loc f.tri hft hroot).1 hfd
  have : c' = c := by
    have h1 : f.tri.2.1 = some c := hc
    rw [h1] at hc'; exact (Option.some.inj hc').symm
  subst this
  obtain ⟨n, hn, rfl⟩ := mem_skel.1 hu
  have hnk : n.key = c' := huk
  exact ⟨n, hn, by rw [hnk]; exact hck, by simpa [att, Node.tri] using hud, by rw [hnk]; exact hpre, hnk⟩

/-! ## Monotonicity: rewrites that attach nothing -/

/-- Every attached file or tree row of `l'` is a row of `l`. -/
def AttSub (l' l : List Tri) : Prop :=
  ∀ t ∈ l', (t.1.kind = .st ∨ t.1.kind = .file) → t.2.2 = false → t ∈ l

theorem AttSub.refl (l : List Tri) : AttSub l l := fun _ h _ _ => h

theorem disjSk_mono {l l' : List Tri} (hs : AttSub l' l) (h : DisjSk l) : DisjSk l' := by
  intro a ha b hb hka haa hkb hab hne
  exact h a (hs a ha (.inl hka) haa) b (hs b hb (.inl hkb) hab) hka haa hkb hab hne

theorem tobSk_mono {l l' : List Tri} (hs : AttSub l' l) (h : TobSk l) : TobSk l' := by
  intro f hf hk hfa c hc hex
  obtain ⟨u, hu, huk, hua, hup⟩ := hex
  exact h f (hs f hf (.inr hk) hfa) hk hfa c hc ⟨u, hs u hu (.inl huk) hua, huk, hua, hup⟩

/-- The forest part is given, the ownership part follows by monotonicity. -/
theorem ownSk_mono {l l' : List Tri} (hok : Sk.OK l') (hs : AttSub l' l) (h : OwnSk l) : OwnSk l' :=
  ⟨hok, disjSk_mono hs h.2.1, tobSk_mono hs h.2.2⟩

theorem attSub_setRow_det (k : Key) (c : Option Key) (l : List Tri) : AttSub (setRow k c true l) l := by
  intro t ht _ hd
  rcases mem_setRow ht with ⟨rfl, _⟩ | ⟨hm, _⟩
  · cases hd
  · exact hm

theorem attSub_setD_det (D : Key → Bool) (l : List Tri) : AttSub (setD D true l) l := by
  intro t ht _ hd
  unfold setD at ht
  obtain ⟨u, hu, rfl⟩ := List.mem_map.1 ht
  by_cases hD : D u.1 = true
  · rw [if_pos hD] at hd; cases hd
  · rw [if_neg hD]; exact hu

theorem AttSub.trans {a b c : List Tri} (h1 : AttSub a b) (h2 : AttSub b c) : AttSub a c :=
  fun t ht hk hd => h2 t (h1 t ht hk hd) hk hd

theorem attSub_filter (p : Tri → Bool) (l : List Tri) : AttSub (l.filter p) l :=
  fun t ht _ _ => (List.mem_filter.1 ht).1

theorem attSub_cut (k : Key) (l : List Tri) : AttSub (cut k l) l := by
  intro t ht _ hd
  unfold cut at ht
  obtain ⟨u, hu, rfl⟩ := List.mem_map.1 ht
  by_cases hc : u.2.1 = some k ∧ u.1 ≠ k
  · rw [if_pos hc] at hd; cases hd
  · rw [if_neg hc]; exact hu

end StepupModel.K.Own
