import StepupModel.Lemmas.BuildSettle
import StepupModel.Lemmas.BuildDispatch
/-!
# One build phase (`B/Build.lean`): the RUNNING steps are the steps of tasks in `running_tasks` (C12)

`run_inFlightLink`: from a kernel state in which no step is RUNNING, along every legal event sequence in which
the final transaction of every job is accepted and leaves the step of the job not RUNNING (`FinishOK`;
`finishOK_of_settling`: it does when it ends with `mark_completed` or `set_state(st ≠ RUNNING)` of that step,
as all endings of a job in `executor.py` do), every step whose row is RUNNING is the step of a job that was
dispatched to run its command and whose task is in `running_tasks` at that moment.  With `run_jobLimit`: the
steps whose command runs are the steps of at most `njob` tasks.
-/
namespace StepupModel.B.Build
open StepupModel.K StepupModel.K.Resources StepupModel.B.JobLoop

/-- A pass starts at most one task, at the end of `running_tasks`, and logs it. -/
theorem iter_running_spec (s : JL) :
    ((iter s).1.running = s.running ∧ (iter s).1.started = s.started) ∨
    ∃ j, (iter s).1.running = s.running ++ [j] ∧ (iter s).1.started = s.started ++ [j] := by
  unfold iter
  have hf := handleDone_frame s.done.reverse s
  generalize handleDone s s.done.reverse = r at hf
  obtain ⟨s1, b⟩ := r
  obtain ⟨hr, -, -, -, -, -, hs, -⟩ := hf
  simp only at hr hs
  cases b
  · simp only
    split
    · have hp := popHash_frame s1.queue s1
      generalize popHash s1 s1.queue = q at hp
      obtain ⟨s2, o⟩ := q
      obtain ⟨p1, -, -, -, -, p6, -⟩ := hp
      simp only at p1 p6
      cases o with
      | some i => exact .inr ⟨.hash i, by simp [startJob, p1, hr], by simp [startJob, p6, hs]⟩
      | none =>
        simp only
        split
        · rename_i j _
          exact .inr ⟨.step j, by simp [startJob, p1, hr], by simp [startJob, p6, hs]⟩
        · have t := tail_frame { s2 with polls := s2.polls + 1 }
          exact .inl ⟨by rw [t.2.1]; exact p1.trans hr, by rw [t.2.2.2.1]; exact p6.trans hs⟩
    · have t := tail_frame s1
      exact .inl ⟨t.2.1.trans hr, t.2.2.2.1.trans hs⟩
  · exact .inl ⟨hr, hs⟩

theorem iterK_running (s s' : Sys) (c : Option Key) (ctl : Ctl) (h : iterK s c = some (s', ctl)) :
    (s'.jl.running = s.jl.running ∧ s'.jl.started = s.jl.started) ∨
    ∃ j, s'.jl.running = s.jl.running ++ [j] ∧ s'.jl.started = s.jl.started ++ [j] := by
  obtain ⟨-, h2⟩ := iterK_sim s s' c ctl h
  rw [← h2]
  exact iter_running_spec { s.jl with offers := answer s c }

/-- An event of the job loop other than the end of task `j` keeps `j` in `running_tasks`. -/
theorem apply_keeps (jl : JL) (e : JobLoop.Ev) (j : Job) (h1 : e ≠ .fin j) (h2 : e ≠ .fail j)
    (hj : j ∈ jl.running) : j ∈ (JobLoop.apply jl e).running := by
  cases e with
  | start => simp only [JobLoop.apply]; split <;> exact hj
  | offer x => exact hj
  | submit p => show j ∈ (submit jl p).1.running; rw [(submit_frame jl p).1]; exact hj
  | promote p =>
    have f := submit_frame jl p
    simp only [JobLoop.apply]
    generalize submit jl p = r at f
    obtain ⟨t, i⟩ := r
    simp only at f ⊢
    split <;> (simp only [f.1]; exact hj)
  | fin j' =>
    have hne : j ≠ j' := fun hh => h1 (by rw [hh])
    simp only [JobLoop.apply]
    unfold moveDone
    have f := (resolveFor_frame jl j').1
    split
    · simp only [f]; exact (List.mem_erase_of_ne hne).2 hj
    · rw [f]; exact hj
  | fail j' =>
    have hne : j ≠ j' := fun hh => h2 (by rw [hh])
    cases j' with
    | step i =>
      simp only [JobLoop.apply]
      unfold moveDone
      split
      · exact (List.mem_erase_of_ne hne).2 hj
      · exact hj
    | hash i => exact hj

/-- The keys of the steps dispatched to run their command whose task is in `running_tasks`. -/
def Sys.flightKeys (s : Sys) (x : Key) : Prop :=
  ∃ a ∈ s.assigned, a.2.1 = x ∧ a.2.2 = false ∧ Job.step a.1 ∈ s.jl.running

/-- Every step whose row is RUNNING is the step of a RUN job whose task is in `running_tasks`. -/
def InFlightLink (s : Sys) : Prop := RunsIn s.flightKeys s.k

/-- The final transaction of a job is accepted and leaves the step of the job not RUNNING. -/
def FinishOK (s : Sys) : Ev → Prop
  | .finish j rs => s.jl.running.contains (.step j) = true →
      ∃ k', txn s.k s.cfg rs = some k' ∧ ∀ a ∈ s.assigned, a.1 = j → RunsIn (fun x => x ≠ a.2.1) k'
  | _ => True

theorem txn_append (cfg : KConfig) (pre : List Req) (r : Req) : ∀ (k k' : KState),
    txn k cfg (pre ++ [r]) = some k' → ∃ k1 o, txn k cfg pre = some k1 ∧ k1.exec cfg r = .ok (k', o) := by
  induction pre with
  | nil =>
    intro k k' h
    simp only [List.nil_append, txn] at h
    split at h
    · rename_i k2 o he
      simp only [Option.some.injEq] at h; subst h
      exact ⟨k, o, rfl, he⟩
    · cases h
  | cons q rest ih =>
    intro k k' h
    simp only [List.cons_append, txn] at h ⊢
    split at h
    · rename_i k2 o he
      exact ih k2 k' h
    · cases h

/-- `FinishOK` holds for an accepted final transaction that ends as the executor ends a job. -/
theorem finishOK_of_settling (s : Sys) (j : Nat) (pre : List Req) (r : Req) (k' : KState)
    (hacc : txn s.k s.cfg (pre ++ [r]) = some k') (hs : ∀ a ∈ s.assigned, a.1 = j → Settling a.2.1 r) :
    FinishOK s (.finish j (pre ++ [r])) := by
  intro _
  refine ⟨k', hacc, fun a ha hj => ?_⟩
  obtain ⟨k1, o, -, he⟩ := txn_append s.cfg pre r s.k k' hacc
  exact exec_settles (hs a ha hj) he

theorem flightKeys_mono {s t : Sys} (ha : ∀ a ∈ s.assigned, a ∈ t.assigned)
    (hr : ∀ x, Job.step x ∈ s.jl.running → Job.step x ∈ t.jl.running) (x : Key) (h : s.flightKeys x) :
    t.flightKeys x := by
  obtain ⟨a, ham, h1, h2, h3⟩ := h
  exact ⟨a, ha a ham, h1, h2, hr _ h3⟩

theorem applyEv_inFlight (s : Sys) (e : Ev) (hl : e.legal) (hf : FinishOK s e) (h : InFlightLink s) :
    InFlightLink (applyEv s e) := by
  -- an event of the job loop that ends no step task, with any kernel state that keeps the RUNNING rows
  have keep : ∀ (je : JobLoop.Ev) (k' : KState), (∀ x, je ≠ .fin (.step x)) → (∀ x, je ≠ .fail (.step x)) →
      RunsIn s.flightKeys k' → InFlightLink { s with k := k', jl := JobLoop.apply s.jl je } := by
    intro je k' n1 n2 hk
    exact runsIn_mono (flightKeys_mono (s := s) (t := { s with k := k', jl := JobLoop.apply s.jl je }) (fun a ha => ha)
      (fun x hj => apply_keeps s.jl je _ (n1 x) (n2 x) hj)) hk
  cases e with
  | start => exact keep .start s.k (fun _ => by simp) (fun _ => by simp) h
  | pass c =>
    simp only [applyEv]
    split
    · cases hi : iterK s c with
      | none => exact h
      | some r =>
        obtain ⟨s', ctl⟩ := r
        have hl' : InFlightLink s' → InFlightLink (land s' ctl) := by intro hh; cases ctl <;> exact hh
        apply hl'
        obtain ⟨-, -, -, -, hs⟩ := iterK_spec s s' c ctl hi
        have hrun := iterK_running s s' c ctl hi
        have hmono : ∀ x, Job.step x ∈ s.jl.running → Job.step x ∈ s'.jl.running := by
          intro x hx
          rcases hrun with ⟨hr, -⟩ | ⟨j, hr, -⟩
          · rw [hr]; exact hx
          · rw [hr]; exact List.mem_append_left _ hx
        unfold InFlightLink
        rcases hs with ⟨hk, ha, -, -, -⟩ | ⟨-, hpop, ha, -, -⟩ | ⟨-, key, chk, run, hpop, ha, hst, -⟩
        · rw [hk]
          exact runsIn_mono (flightKeys_mono (fun a h' => by rw [ha]; exact h') hmono) h
        · refine runsIn_mono (fun x hx => ?_) (popNext_runsIn hpop h)
          rcases hx with hx | ⟨_, hx⟩
          · exact flightKeys_mono (fun a h' => by rw [ha]; exact h') hmono x hx
          · cases hx
        · refine runsIn_mono (fun x hx => ?_) (popNext_runsIn hpop h)
          rcases hx with hx | ⟨run', hx⟩
          · exact flightKeys_mono (fun a h' => by rw [ha]; exact List.mem_append_left _ h') hmono x hx
          · simp only [Dispatch.job.injEq] at hx
            obtain ⟨rfl, rfl, -⟩ := hx
            refine ⟨_, by rw [ha]; exact List.mem_append_right _ (List.mem_singleton.2 rfl), rfl, rfl, ?_⟩
            rcases hrun with ⟨-, hs2⟩ | ⟨j, hr, hs2⟩
            · rw [hs2] at hst
              have := congrArg List.length hst
              simp at this
            · rw [hs2] at hst
              have hj := List.append_cancel_left hst
              simp only [List.cons.injEq, and_true] at hj
              subst hj
              rw [hr]; exact List.mem_append_right _ (List.mem_singleton.2 rfl)
    · exact h
  | rpc j r =>
    simp only [applyEv]
    split
    · split
      · rename_i k' o he
        have hk := exec_runsIn s.cfg r s.k (k', o) hl h he
        split
        · exact hk
        · exact hk
      · exact h
    · exact h
  | finish j rs =>
    simp only [applyEv]
    split
    · rename_i hc
      obtain ⟨k1, hacc, hset⟩ := hf hc
      rw [hacc]
      simp only
      have hk1 : RunsIn s.flightKeys k1 := txn_runsIn s.cfg rs s.k k1 hl h hacc
      intro n hn hr
      obtain ⟨a, ha, h1, h2, h3⟩ := hk1 n hn hr
      have hne : a.1 ≠ j := by
        intro hj
        exact hset a ha hj n hn hr h1.symm
      refine ⟨a, ha, h1, h2, ?_⟩
      show Job.step a.1 ∈ (JobLoop.apply s.jl (.fin (.step j))).running
      exact apply_keeps s.jl _ _ (by simpa using Ne.symm hne) (by simp) h3
    · exact h
  | submit p => exact keep (.submit p) s.k (fun _ => by simp) (fun _ => by simp) h
  | promote p => exact keep (.promote p) s.k (fun _ => by simp) (fun _ => by simp) h
  | hashFin i r =>
    simp only [applyEv]
    split
    · refine keep (.fin (.hash i)) _ (fun _ => by simp) (fun _ => by simp) ?_
      cases r with
      | none => exact h
      | some r => exact step_runsIn s.cfg r s.k hl h
    · exact h
  | drain => exact h
  | undrain => simp only [applyEv]; split <;> exact h
  | external r =>
    simp only [applyEv]
    split
    · exact h
    · exact step_runsIn s.cfg r s.k hl h

theorem step_inFlight (s : Sys) (e : Ev) (hl : e.legal) (hf : FinishOK s e) (h : InFlightLink s) :
    InFlightLink (step s e) := by
  have := applyEv_inFlight s e hl hf h
  unfold step unpark; split
  · exact this
  · exact this

/-- `FinishOK` on every event of a sequence, each in the state in which it happens. -/
def FinishOKAlong : Sys → List Ev → Prop
  | _, [] => True
  | s, e :: rest => FinishOK s e ∧ FinishOKAlong (step s e) rest

/-- **C12, the commands that run are the commands of tasks in `running_tasks`.**  From a kernel state in
which no step is RUNNING, for every job limit, configuration and legal event sequence in which every final
transaction is accepted and settles its step: every step whose row is RUNNING is the step of a job handed
out to run its command whose task is in `running_tasks` (of which there are at most `njob`:
`run_jobLimit`). -/
theorem run_inFlightLink (k0 : KState) (cfg : KConfig) (njob : Nat) (evs : List Ev)
    (h0 : ∀ n ∈ k0.nodes, runs n = false) (hl : ∀ e ∈ evs, e.legal) (hf : FinishOKAlong (init k0 cfg njob) evs) :
    InFlightLink (run k0 cfg njob evs) := by
  unfold run
  suffices h : ∀ s : Sys, (∀ e ∈ evs, e.legal) → FinishOKAlong s evs → InFlightLink s →
      InFlightLink (evs.foldl step s) from
    h _ hl hf (fun n hn hr => by rw [h0 n hn] at hr; cases hr)
  clear hl hf h0
  induction evs with
  | nil => intro s _ _ h; exact h
  | cons e rest ih =>
    intro s hl hf h
    exact ih (step s e) (fun e' he => hl e' (List.mem_cons_of_mem _ he)) hf.2
      (step_inFlight s e (hl e List.mem_cons_self) hf.1 h)

end StepupModel.B.Build
