import StepupModel.B.Cleanup
/-!
# Helper lemmas about the file-system side of cleanup (`B/Cleanup.lean`)

A removal pass (`remove_deletable_files`, `stepup clean`) keeps the invariant `RmInv`: the file
system is the initial one minus exactly the reported paths, and every report is justified.
No property statements here.
-/
namespace StepupModel.B
open StepupModel.K

/-- The file system `fs0` without the paths in `ev`. -/
def erasedBy (fs0 : FS) (ev : List String) : FS := fs0.filter (fun e => !ev.contains e.1)

theorem erasedBy_nil (fs0 : FS) : erasedBy fs0 [] = fs0 := by
  unfold erasedBy
  exact List.filter_eq_self.2 (fun _ _ => rfl)

theorem erase_erasedBy (fs0 : FS) (ev : List String) (p : String) :
    (erasedBy fs0 ev).erase p = erasedBy fs0 (ev ++ [p]) := by
  unfold erasedBy FS.erase
  rw [List.filter_filter]
  apply List.filter_congr
  intro e _
  by_cases h : e.1 = p <;> simp [h]

theorem find?_filter_key (l : FS) (P : String → Bool) (p : String) :
    (l.filter (fun e => P e.1)).find? (·.1 = p) = if P p then l.find? (·.1 = p) else none := by
  induction l with
  | nil => simp
  | cons a as ih =>
    by_cases hP : P a.1 = true
    · simp only [List.filter_cons, hP, if_true, List.find?_cons]
      by_cases ha : a.1 = p
      · subst ha
        simp only [decide_true, hP, if_true]
      · simp only [ha, decide_false]; exact ih
    · simp only [List.filter_cons, hP, Bool.false_eq_true, if_false, List.find?_cons]
      by_cases ha : a.1 = p
      · subst ha
        simp only [hP, Bool.false_eq_true, if_false] at ih ⊢
        exact ih
      · simp only [ha, decide_false]; exact ih

theorem lookup_erasedBy (fs0 : FS) (ev : List String) (p : String) :
    (erasedBy fs0 ev).lookup p = if ev.contains p then none else fs0.lookup p := by
  unfold erasedBy FS.lookup
  rw [find?_filter_key fs0 (fun q => !ev.contains q) p]
  cases h : ev.contains p <;> simp

theorem mem_erasedBy_of_append (fs0 : FS) (ev ev' : List String) (e : String × Entry)
    (h : e ∈ erasedBy fs0 (ev ++ ev')) : e ∈ erasedBy fs0 ev := by
  unfold erasedBy at h ⊢
  rw [List.mem_filter] at h ⊢
  refine ⟨h.1, ?_⟩
  have := h.2
  simp only [Bool.not_eq_true', List.contains_eq_mem, List.mem_append, decide_eq_false_iff_not, not_or] at this ⊢
  exact this.1


/-- Why a regular file was removed: it was queued, and either without a recorded hash (volatile
output) or with a record that equals the content on disk. -/
def FileJust (queue : List (String × Option Nat)) (fs0 : FS) (p : String) : Prop :=
  ∃ r c, (p, r) ∈ queue ∧ isDirKey p = false ∧ fs0.lookup p = some (.file c) ∧ (r = none ∨ r = some c)

/-- Why a directory was removed: it was a directory, and nothing is left below it. -/
def DirJust (fs0 cur : FS) (d : String) : Prop :=
  fs0.lookup d = some .dir ∧ ∀ e ∈ cur, isUnder d e.1 = false

/-- Invariant of a removal pass: `cur` is `fs0` minus exactly the reported paths `ev`, and every
reported path is justified (`J` for regular files; emptiness for directories). -/
structure RmInv (J : String → Prop) (fs0 cur : FS) (ev : List String) : Prop where
  cur_eq : cur = erasedBy fs0 ev
  just : ∀ p ∈ ev, J p ∨ DirJust fs0 cur p

theorem dirJust_erase (fs0 cur : FS) (d q : String) (h : DirJust fs0 cur d) : DirJust fs0 (cur.erase q) d :=
  ⟨h.1, fun e he => h.2 e (List.mem_filter.1 he).1⟩

theorem rmInv_erase_file (J : String → Prop) (fs0 cur : FS) (ev : List String) (p : String)
    (h : RmInv J fs0 cur ev) (hj : J p) : RmInv J fs0 (cur.erase p) (ev ++ [p]) where
  cur_eq := by rw [h.cur_eq, erase_erasedBy]
  just := by
    intro q hq
    simp only [List.mem_append, List.mem_singleton] at hq
    rcases hq with hq | rfl
    · rcases h.just q hq with h1 | h2
      · exact Or.inl h1
      · exact Or.inr (dirJust_erase _ _ _ _ h2)
    · exact Or.inl hj

theorem removeOne_spec (queue : List (String × Option Nat)) (fs0 cur : FS) (ev : List String) (p : String)
    (r : Option Nat) (hq : (p, r) ∈ queue) (hnd : isDirKey p = false) (h : RmInv (FileJust queue fs0) fs0 cur ev) :
    RmInv (FileJust queue fs0) fs0 (removeOne cur p r).1 (if (removeOne cur p r).2 then ev ++ [p] else ev) := by
  unfold removeOne
  by_cases hd : removeDecision r (cur.refreshed p) = true
  · simp only [hd, if_true]
    unfold FS.unlink
    cases hl : cur.lookup p with
    | none => simpa using h
    | some e =>
      cases e with
      | dir => simpa using h
      | file c =>
        simp only [if_true]
        refine rmInv_erase_file (FileJust queue fs0) fs0 cur ev p h ⟨r, c, hq, hnd, ?_, ?_⟩
        · have := hl
          rw [h.cur_eq, lookup_erasedBy] at this
          split at this
          · cases this
          · exact this
        · cases r with
          | none => exact Or.inl rfl
          | some v =>
            right
            unfold removeDecision FS.refreshed at hd
            simp only [hl] at hd
            have : c = v := by simpa using hd
            rw [this]
  · have hd' : removeDecision r (cur.refreshed p) = false := by simpa using hd
    simp only [hd', Bool.false_eq_true, if_false]
    exact h

theorem removeFiles_spec (queue : List (String × Option Nat)) (fs0 : FS) (files : List (String × Option Nat))
    (hsub : ∀ e ∈ files, e ∈ queue ∧ isDirKey e.1 = false) (cur : FS) (ev : List String) (h : RmInv (FileJust queue fs0) fs0 cur ev) :
    RmInv (FileJust queue fs0) fs0 (removeFiles files cur ev).1 (removeFiles files cur ev).2 := by
  induction files generalizing cur ev with
  | nil => exact h
  | cons a rest ih =>
    obtain ⟨p, r⟩ := a
    unfold removeFiles
    simp only
    have h1 := removeOne_spec queue fs0 cur ev p r (hsub (p, r) (by simp)).1 (hsub (p, r) (by simp)).2 h
    exact ih (fun e he => hsub e (by simp [he])) _ _ h1

theorem rmInv_erase_dir (J : String → Prop) (fs0 cur : FS) (ev : List String) (d : String)
    (h : RmInv J fs0 cur ev) (he : cur.isEmptyDir d = true) : RmInv J fs0 (cur.erase d) (ev ++ [d]) := by
  unfold FS.isEmptyDir at he
  simp only [Bool.and_eq_true, decide_eq_true_eq, Bool.not_eq_true', List.any_eq_false] at he
  have hd0 : fs0.lookup d = some .dir := by
    have := he.1
    rw [h.cur_eq, lookup_erasedBy] at this
    split at this
    · cases this
    · exact this
  exact
    { cur_eq := by rw [h.cur_eq, erase_erasedBy]
      just := by
        intro q hq
        simp only [List.mem_append, List.mem_singleton] at hq
        rcases hq with hq | rfl
        · rcases h.just q hq with h1 | h2
          · exact Or.inl h1
          · exact Or.inr (dirJust_erase _ _ _ _ h2)
        · refine Or.inr ⟨hd0, ?_⟩
          intro e hmem
          have := he.2 e (List.mem_filter.1 hmem).1
          simpa using this }

theorem pruneDirs_spec (J : String → Prop) (fs0 : FS) (fuel : Nat) (stack : List String)
    (cur : FS) (ev : List String) (h : RmInv J fs0 cur ev) :
    RmInv J fs0 (pruneDirs fuel stack cur ev).1 (pruneDirs fuel stack cur ev).2 := by
  induction fuel generalizing stack cur ev with
  | zero => unfold pruneDirs; exact h
  | succ fuel ih =>
    cases stack with
    | nil => unfold pruneDirs; exact h
    | cons d rest =>
      unfold pruneDirs
      by_cases he : cur.isEmptyDir d = true
      · simp only [he, if_true]
        apply ih
        exact rmInv_erase_dir J fs0 cur ev d h he
      · have he' : cur.isEmptyDir d = false := by simpa using he
        simp only [he', Bool.false_eq_true, if_false]
        exact ih rest cur ev h

/-- `remove_deletable_files`: the file system afterwards is the one before minus exactly the
reported paths; every reported path was a queued regular file whose content equals its record
(or that has no record: volatile), or a directory with nothing left below it. -/
theorem removeDeletable_spec (queue : List (String × Option Nat)) (fs : FS) :
    RmInv (FileJust queue fs) fs (removeDeletable queue fs).1 (removeDeletable queue fs).2 := by
  unfold removeDeletable
  simp only
  have hsub : ∀ e ∈ (queue.filter fun e => !isDirKey e.1).mergeSort (fun a b => decide (b.1 ≤ a.1)),
      e ∈ queue ∧ isDirKey e.1 = false := by
    intro e he
    rw [List.mem_mergeSort] at he
    exact ⟨(List.mem_filter.1 he).1, by simpa using (List.mem_filter.1 he).2⟩
  have h0 : RmInv (FileJust queue fs) fs fs [] := ⟨(erasedBy_nil fs).symm, fun p hp => by simp at hp⟩
  have h1 := removeFiles_spec queue fs _ hsub fs [] h0
  exact pruneDirs_spec _ fs _ _ _ _ h1


/-! ## `stepup clean` -/

/-- Why `stepup clean` removed a regular file: a file row with this label passes the row filter
(state and, unless `--all`, detachment), and unless `--unsafe` is given the row is volatile or
its recorded hash equals the content on disk. -/
def CleanJust (s : KState) (all unsafe_ : Bool) (fs0 : FS) (p : String) : Prop :=
  ∃ n ∈ s.nodes, n.key.kind = .file ∧ n.key.label = p ∧ cleanRowSelected n.fstate n.detached (!all) = true ∧
    ∃ c, fs0.lookup p = some (.file c) ∧ (unsafe_ = true ∨ n.fstate = .volatile ∨ n.fhash = some c)

/-- A selected row stems from a file row of the database that passes the row filter. -/
def RowOf (s : KState) (detachedOnly : Bool) (r : CleanRow) : Prop :=
  ∃ n ∈ s.nodes, n.key.kind = .file ∧ cleanRowSelected n.fstate n.detached detachedOnly = true ∧
    r.label = n.key.label ∧ r.state = n.fstate ∧ r.hash = n.fhash

theorem cleanSelect_rows (s : KState) (paths : List String) (only : Bool) (r : CleanRow)
    (h : r ∈ cleanSelect s paths only) : RowOf s only r := by
  unfold cleanSelect at h
  simp only at h
  rw [List.mem_mergeSort, List.mem_map] at h
  obtain ⟨n, hn, rfl⟩ := h
  rw [List.mem_filter, decide_eq_true_eq] at hn
  exact ⟨n, hn.1, hn.2.1, hn.2.2.2, rfl, rfl, rfl⟩

theorem cleanLoop_spec (s : KState) (all unsafe_ commit : Bool) (fs0 : FS) (rows : List CleanRow)
    (hrows : ∀ r ∈ rows, RowOf s (!all) r) (cur : FS) (ev parents : List String)
    (h : RmInv (CleanJust s all unsafe_ fs0) fs0 cur ev) :
    RmInv (CleanJust s all unsafe_ fs0) fs0 (cleanLoop rows cur ev parents (!unsafe_) commit).1
        (cleanLoop rows cur ev parents (!unsafe_) commit).2.1 ∧
      (commit = false → (cleanLoop rows cur ev parents (!unsafe_) commit).2.1 = ev ∧
        (cleanLoop rows cur ev parents (!unsafe_) commit).1 = cur ∧
        (cleanLoop rows cur ev parents (!unsafe_) commit).2.2.1 = parents) := by
  induction rows generalizing cur ev parents with
  | nil => unfold cleanLoop; exact ⟨h, fun _ => ⟨rfl, rfl, rfl⟩⟩
  | cons r rest ih =>
    unfold cleanLoop
    have hrest : ∀ r' ∈ rest, RowOf s (!all) r' := fun r' hr' => hrows r' (by simp [hr'])
    cases hdec : cleanDecide r.state r.hash (cur.lookup r.label) (!unsafe_) commit with
    | crash => exact ⟨h, fun _ => ⟨rfl, rfl, rfl⟩⟩
    | gone => exact ih hrest cur ev parents h
    | skip => exact ih hrest cur ev parents h
    | dry => exact ih hrest cur ev parents h
    | remove =>
      simp only
      -- the decision `remove` is only taken with --commit, on a regular file that is unchanged,
      -- volatile, or in unsafe mode
      unfold cleanDecide at hdec
      cases hl : cur.lookup r.label with
      | none => simp [hl] at hdec
      | some e =>
        cases e with
        | dir =>
          simp only [hl] at hdec
          split at hdec
          · split at hdec <;> cases hdec
          · cases hdec
        | file c =>
          simp only [hl] at hdec
          have hcommit : commit = true := by
            cases commit with
            | true => rfl
            | false =>
              split at hdec
              · cases hdec
              · simp at hdec
          have hsafe : ¬ ((!unsafe_) = true ∧ (r.state ≠ .volatile ∧ r.hash ≠ some c)) := by
            intro hc
            rw [if_pos hc] at hdec
            cases hdec
          obtain ⟨n, hn, hk, hsel, hlab, hst, hh⟩ := hrows r (by simp)
          have hfs0 : fs0.lookup r.label = some (.file c) := by
            have := hl
            rw [h.cur_eq, lookup_erasedBy] at this
            split at this
            · cases this
            · exact this
          have hj : CleanJust s all unsafe_ fs0 r.label := by
            refine ⟨n, hn, hk, hlab.symm, hsel, c, hfs0, ?_⟩
            cases hu : unsafe_ with
            | true => exact Or.inl rfl
            | false =>
              right
              by_cases hv : r.state = .volatile
              · exact Or.inl (hst ▸ hv)
              · right
                rw [← hh]
                refine Classical.byContradiction fun hne => hsafe ⟨by simp [hu], hv, hne⟩
          have h' := rmInv_erase_file _ fs0 cur ev r.label h hj
          refine ⟨(ih hrest _ _ _ h').1, fun hc => ?_⟩
          rw [hcommit] at hc
          cases hc

theorem climb_spec (J : String → Prop) (fs0 : FS) (fuel : Nat) (d : String) (cur : FS) (ev : List String)
    (h : RmInv J fs0 cur ev) : RmInv J fs0 (climb fuel d cur ev).1 (climb fuel d cur ev).2 := by
  induction fuel generalizing d cur ev with
  | zero => unfold climb; exact h
  | succ fuel ih =>
    unfold climb
    by_cases hc : d ≠ "." ∧ d ≠ "/" ∧ cur.isEmptyDir d = true
    · rw [if_pos hc]
      exact ih _ _ _ (rmInv_erase_dir J fs0 cur ev d h hc.2.2)
    · rw [if_neg hc]
      exact h

theorem climbAll_spec (J : String → Prop) (fs0 : FS) (dirs : List String) (cur : FS) (ev : List String)
    (h : RmInv J fs0 cur ev) : RmInv J fs0 (climbAll dirs cur ev).1 (climbAll dirs cur ev).2 := by
  induction dirs generalizing cur ev with
  | nil => unfold climbAll; exact h
  | cons d rest ih =>
    unfold climbAll
    simp only
    exact ih _ _ (climb_spec J fs0 _ d cur ev h)

theorem climbAll_nil (cur : FS) (ev : List String) : climbAll [] cur ev = (cur, ev) := by
  unfold climbAll; rfl

/-- `clean.clean`: the file system afterwards is the one before minus exactly the reported paths;
every reported regular file is justified by `CleanJust`, every reported directory was empty;
without `--commit` nothing is removed. -/
theorem cleanRun_spec (s : KState) (paths : List String) (all unsafe_ commit : Bool) (fs : FS) :
    RmInv (CleanJust s all unsafe_ fs) fs (cleanRun s paths all unsafe_ commit fs).1
        (cleanRun s paths all unsafe_ commit fs).2.1 ∧
      (commit = false → (cleanRun s paths all unsafe_ commit fs).1 = fs ∧
        (cleanRun s paths all unsafe_ commit fs).2.1 = []) := by
  have h0 : RmInv (CleanJust s all unsafe_ fs) fs fs [] := ⟨(erasedBy_nil fs).symm, fun p hp => by simp at hp⟩
  have hl := cleanLoop_spec s all unsafe_ commit fs (cleanSelect s paths (!all))
    (fun r hr => cleanSelect_rows s paths (!all) r hr) fs [] [] h0
  unfold cleanRun
  simp only
  generalize cleanLoop (cleanSelect s paths (!all)) fs [] [] (!unsafe_) commit = res at hl
  obtain ⟨fs1, ev1, parents, crashed⟩ := res
  simp only at hl ⊢
  cases crashed with
  | true =>
    simp only [if_true]
    exact ⟨hl.1, fun hc => ⟨(hl.2 hc).2.1, (hl.2 hc).1⟩⟩
  | false =>
    simp only [Bool.false_eq_true, if_false]
    refine ⟨climbAll_spec _ fs _ fs1 ev1 hl.1, fun hc => ?_⟩
    obtain ⟨e1, e2, e3⟩ := hl.2 hc
    subst e1 e2 e3
    have : normPaths ([] : List String) = [] := by
      unfold normPaths sortStrs
      simp [dedupSorted]
    rw [this, climbAll_nil]
    exact ⟨rfl, rfl⟩

end StepupModel.B
