import StepupModel.P.Path
/-! Helper lemmas for C20 (statements of the property live in `Props/C20.lean`). -/
namespace StepupModel.P.Path

/-! ## `split` and `join` on `/` -/

def SlashFree (c : Str) : Prop := slash ∉ c

theorem splitSlash_ne_nil (s : Str) : splitSlash s ≠ [] := by
  induction s with
  | nil => simp [splitSlash]
  | cons c cs ih =>
    unfold splitSlash
    split
    · simp
    · split <;> simp

theorem splitSlash_append_slash (a b : Str) :
    splitSlash (a ++ slash :: b) = splitSlash a ++ splitSlash b := by
  induction a with
  | nil => simp [splitSlash]
  | cons c cs ih =>
    by_cases hc : c = slash
    · simp [splitSlash, hc, ih]
    · simp only [List.cons_append, splitSlash, hc, if_false, ih]
      cases h : splitSlash cs with
      | nil => exact absurd h (splitSlash_ne_nil cs)
      | cons x xs => simp

theorem splitSlash_slashFree {c : Str} (h : SlashFree c) : splitSlash c = [c] := by
  induction c with
  | nil => simp [splitSlash]
  | cons x xs ih =>
    have hx : x ≠ slash := by intro e; apply h; simp [e]
    have hxs : SlashFree xs := by intro e; apply h; simp [e]
    simp [splitSlash, hx, ih hxs]

theorem splitSlash_joinSlash {cs : List Str} (hne : cs ≠ []) (h : ∀ c ∈ cs, SlashFree c) :
    splitSlash (joinSlash cs) = cs := by
  induction cs with
  | nil => exact absurd rfl hne
  | cons c rest ih =>
    cases rest with
    | nil => simpa [joinSlash] using splitSlash_slashFree (h c (by simp))
    | cons d ds =>
      simp only [joinSlash, splitSlash_append_slash]
      rw [ih (by simp) (fun x hx => h x (by simp [hx])), splitSlash_slashFree (h c (by simp))]
      simp

theorem mem_splitSlash_slashFree {s c : Str} (h : c ∈ splitSlash s) : SlashFree c := by
  induction s generalizing c with
  | nil => simp [splitSlash] at h; subst h; simp [SlashFree]
  | cons x xs ih =>
    unfold splitSlash at h
    split at h
    · rcases List.mem_cons.mp h with rfl | h
      · simp [SlashFree]
      · exact ih h
    · rename_i hx
      split at h
      · simp at h; subst h; simp [SlashFree]; exact fun e => hx e.symm
      · rename_i hd tl heq
        rcases List.mem_cons.mp h with rfl | h
        · have := ih (c := hd) (by simp [heq])
          intro e; rcases List.mem_cons.mp e with e | e
          · exact hx e.symm
          · exact this e
        · exact ih (by simp [heq, h])

/-! ## The component loop of `normpath` -/

/-- A proper name: not empty, not `.`, not `..`. -/
def Name (c : Str) : Prop := c ≠ [] ∧ c ≠ dot ∧ c ≠ dotdot
/-- A normalized absolute component list. -/
def Clean (l : List Str) : Prop := ∀ c ∈ l, Name c
/-- What a stack of the relative loop may contain. -/
def NoDot (l : List Str) : Prop := ∀ c ∈ l, c ≠ [] ∧ c ≠ dot
/-- A normalized relative component list: some `..` followed by names. -/
def RelNormal (l : List Str) : Prop := ∃ k names, l = List.replicate k dotdot ++ names ∧ Clean names

/-- Run the loop from a given (reversed) stack. -/
def run (ab : Bool) (st : List Str) (l : List Str) : List Str := l.foldl (normStep ab) st

theorem run_nil (ab st) : run ab st [] = st := rfl
theorem run_cons (ab st c l) : run ab st (c :: l) = run ab (normStep ab st c) l := rfl
theorem run_append (ab st a b) : run ab st (a ++ b) = run ab (run ab st a) b := by
  simp [run, List.foldl_append]
theorem normComps_eq (ab l) : normComps ab l = (run ab [] l).reverse := rfl

theorem normStep_empty (ab st) : normStep ab st [] = st := by simp [normStep]
theorem normStep_dot (ab st) : normStep ab st dot = st := by simp [normStep]
theorem normStep_name {ab st c} (h : Name c) : normStep ab st c = c :: st := by
  obtain ⟨h1, h2, h3⟩ := h
  simp [normStep, h1, h2, h3]
theorem dotdot_ne_nil : dotdot ≠ [] := by decide
theorem dotdot_ne_dot : dotdot ≠ dot := by decide
theorem normStep_dotdot_nil (ab) : normStep ab [] dotdot = if ab then [] else [dotdot] := by
  simp [normStep, dotdot_ne_nil, dotdot_ne_dot]
theorem normStep_dotdot_cons (ab t r) :
    normStep ab (t :: r) dotdot = if t = dotdot then dotdot :: t :: r else r := by
  simp [normStep, dotdot_ne_nil, dotdot_ne_dot]

theorem Clean.nil : Clean [] := by intro c h; cases h
theorem Clean.cons {c l} (hc : Name c) (hl : Clean l) : Clean (c :: l) := by
  intro x hx; rcases List.mem_cons.mp hx with rfl | hx
  · exact hc
  · exact hl x hx
theorem Clean.tail {c l} (h : Clean (c :: l)) : Clean l := fun x hx => h x (List.mem_cons_of_mem _ hx)
theorem Clean.head {c l} (h : Clean (c :: l)) : Name c := h c (by simp)
theorem Clean.append {a b} (ha : Clean a) (hb : Clean b) : Clean (a ++ b) := by
  intro x hx; rcases List.mem_append.mp hx with h | h
  · exact ha x h
  · exact hb x h
theorem Clean.reverse {a} (ha : Clean a) : Clean a.reverse := fun x hx => ha x (List.mem_reverse.mp hx)
theorem Clean.left {a b} (h : Clean (a ++ b)) : Clean a := fun x hx => h x (List.mem_append_left _ hx)
theorem Clean.right {a b} (h : Clean (a ++ b)) : Clean b := fun x hx => h x (List.mem_append_right _ hx)

theorem normStep_clean {st c} (h : Clean st) : Clean (normStep true st c) := by
  unfold normStep
  split
  · exact h
  · rename_i h1
    split
    · rename_i h2
      exact Clean.cons ⟨fun e => h1 (Or.inl e), fun e => h1 (Or.inr e), h2⟩ h
    · cases st with
      | nil => simpa using Clean.nil
      | cons t r =>
        have ht : t ≠ dotdot := (h.head).2.2
        simp [ht]; exact h.tail

theorem run_clean {st} (l) (h : Clean st) : Clean (run true st l) := by
  induction l generalizing st with
  | nil => exact h
  | cons c l ih => exact ih (normStep_clean h)

theorem run_push {ab st l} (h : Clean l) : run ab st l = l.reverse ++ st := by
  induction l generalizing st with
  | nil => rfl
  | cons c l ih => rw [run_cons, normStep_name h.head, ih h.tail]; simp

theorem normComps_clean (l) : Clean (normComps true l) := (run_clean l Clean.nil).reverse

theorem normComps_of_clean {ab l} (h : Clean l) : normComps ab l = l := by
  simp [normComps_eq, run_push h]

theorem normComps_idem_abs (l) : normComps true (normComps true l) = normComps true l :=
  normComps_of_clean (normComps_clean l)

theorem run_normComps_abs (st l) (h : Clean l) : run true st l = l.reverse ++ st := run_push h

/-- Normalizing a prefix first does not change the result (absolute loop). -/
theorem normComps_append_abs (a b) :
    normComps true (a ++ b) = normComps true (normComps true a ++ b) := by
  simp only [normComps_eq, run_append]
  rw [run_push (ab := true) (st := []) (run_clean a Clean.nil).reverse]
  simp

/-- `..` undoes names. -/
theorem run_pop {st l} (h : Clean l) :
    run true (l.reverse ++ st) (List.replicate l.length dotdot) = st := by
  induction l generalizing st with
  | nil => rfl
  | cons c l ih =>
    have : (c :: l).reverse ++ st = l.reverse ++ (c :: st) := by simp
    rw [this, List.length_cons, List.replicate_succ', run_append, ih h.tail]
    simp [run, normStep_dotdot_cons, h.head.2.2]

theorem run_updown {st o d} (ho : Clean o) (hd : Clean d) :
    run true st (o ++ (List.replicate o.length dotdot ++ d)) = d.reverse ++ st := by
  rw [run_append, run_append, run_push ho, run_pop ho, run_push hd]

/-- Relative path round trip on component lists: from `o`, the segments of `relSegs o d` lead to `d`. -/
theorem run_relSegs {st o d} (ho : Clean o) (hd : Clean d) :
    run true st (o ++ relSegs o d) = d.reverse ++ st := by
  induction o generalizing st d with
  | nil => simpa [relSegs] using run_push hd
  | cons x os ih =>
    cases d with
    | nil => simpa [relSegs] using run_updown (st := st) ho Clean.nil
    | cons y ds =>
      by_cases hxy : x = y
      · subst hxy
        simp only [relSegs, if_true, List.cons_append, run_cons, normStep_name ho.head]
        rw [ih ho.tail hd.tail]; simp
      · simp only [relSegs, hxy, if_false]
        exact run_updown (st := st) ho hd

theorem relSegs_roundtrip {o d} (ho : Clean o) (hd : Clean d) :
    normComps true (o ++ relSegs o d) = d := by
  simp [normComps_eq, run_relSegs ho hd]

theorem relSegs_prefix (o n : List Str) (hn : Clean n) (ho : Clean o) : relSegs o (o ++ n) = n := by
  induction o with
  | nil => cases n <;> simp [relSegs]
  | cons x os ih => simp [relSegs, ih ho.tail]

theorem relSegs_relNormal {o d} (hd : Clean d) : RelNormal (relSegs o d) := by
  induction o generalizing d with
  | nil => exact ⟨0, d, by cases d <;> simp [relSegs], hd⟩
  | cons x os ih =>
    cases d with
    | nil => exact ⟨(x :: os).length, [], by simp [relSegs], Clean.nil⟩
    | cons y ds =>
      by_cases hxy : x = y
      · simp only [relSegs, hxy, if_true]; exact ih hd.tail
      · simp only [relSegs, hxy, if_false]; exact ⟨_, _, rfl, hd⟩

/-! ### The relative loop -/

theorem normStep_noDot {st c} (h : NoDot st) : NoDot (normStep false st c) := by
  unfold normStep
  split
  · exact h
  · rename_i h1
    split
    · intro x hx; rcases List.mem_cons.mp hx with rfl | hx
      · exact ⟨fun e => h1 (Or.inl e), fun e => h1 (Or.inr e)⟩
      · exact h x hx
    · cases st with
      | nil => intro x hx; simp at hx; subst hx; exact ⟨dotdot_ne_nil, dotdot_ne_dot⟩
      | cons t r =>
        by_cases ht : t = dotdot
        · simp only [ht, if_true]
          intro x hx; rcases List.mem_cons.mp hx with rfl | hx
          · exact ⟨dotdot_ne_nil, dotdot_ne_dot⟩
          · exact h x (by simpa [ht] using hx)
        · simp only [ht, if_false]; exact fun x hx => h x (List.mem_cons_of_mem _ hx)

theorem run_noDot {st} (l) (h : NoDot st) : NoDot (run false st l) := by
  induction l generalizing st with
  | nil => exact h
  | cons c l ih => exact ih (normStep_noDot h)

/-- One step of the absolute loop on top of a replayed relative stack. -/
theorem step_over_rel {S R c} (hR : NoDot R) :
    normStep true (run true S R.reverse) c = run true S (normStep false R c).reverse := by
  by_cases h1 : c = [] ∨ c = dot
  · rcases h1 with rfl | rfl <;> simp [normStep_empty, normStep_dot]
  · by_cases h2 : c = dotdot
    · subst h2
      cases R with
      | nil => simp [normStep_dotdot_nil, run]
      | cons t r =>
        rw [normStep_dotdot_cons]
        by_cases ht : t = dotdot
        · simp only [ht, if_true, List.reverse_cons, run_append]; rfl
        · have htn : Name t := ⟨(hR t (by simp)).1, (hR t (by simp)).2, ht⟩
          simp only [ht, if_false, List.reverse_cons, run_append]
          simp [run, normStep_name htn, normStep_dotdot_cons, ht]
    · have hn : Name c := ⟨fun e => h1 (Or.inl e), fun e => h1 (Or.inr e), h2⟩
      rw [normStep_name hn, normStep_name hn, List.reverse_cons, run_append]
      simp [run, normStep_name hn]

theorem run_over_rel {S R} (xs : List Str) (hR : NoDot R) :
    run true (run true S R.reverse) xs = run true S (run false R xs).reverse := by
  induction xs generalizing R with
  | nil => rfl
  | cons c xs ih => rw [run_cons, step_over_rel hR, ih (normStep_noDot hR), run_cons]

/-- Normalizing a relative path first does not change where it leads from any directory. -/
theorem run_normComps_rel (S xs : List Str) : run true S (normComps false xs) = run true S xs := by
  have := run_over_rel (S := S) (R := []) xs (by intro x hx; cases hx)
  simpa [normComps_eq, run] using this.symm

def RelStack (st : List Str) : Prop := ∃ k ns, st = ns ++ List.replicate k dotdot ∧ Clean ns

theorem normStep_relStack {st c} (h : RelStack st) : RelStack (normStep false st c) := by
  obtain ⟨k, ns, rfl, hns⟩ := h
  by_cases h1 : c = [] ∨ c = dot
  · rcases h1 with rfl | rfl
    · rw [normStep_empty]; exact ⟨k, ns, rfl, hns⟩
    · rw [normStep_dot]; exact ⟨k, ns, rfl, hns⟩
  · by_cases h2 : c = dotdot
    · subst h2
      cases ns with
      | nil =>
        cases k with
        | zero => exact ⟨1, [], by simp [normStep_dotdot_nil], Clean.nil⟩
        | succ k =>
          refine ⟨k + 2, [], ?_, Clean.nil⟩
          simp [List.replicate_succ, normStep_dotdot_cons]
      | cons n ns =>
        refine ⟨k, ns, ?_, hns.tail⟩
        simp [normStep_dotdot_cons, hns.head.2.2]
    · have hn : Name c := ⟨fun e => h1 (Or.inl e), fun e => h1 (Or.inr e), h2⟩
      rw [normStep_name hn]
      exact ⟨k, c :: ns, by simp, Clean.cons hn hns⟩

theorem run_relStack {st} (l) (h : RelStack st) : RelStack (run false st l) := by
  induction l generalizing st with
  | nil => exact h
  | cons c l ih => exact ih (normStep_relStack h)

theorem normComps_relNormal (l) : RelNormal (normComps false l) := by
  obtain ⟨k, ns, h, hns⟩ := run_relStack (st := []) l ⟨0, [], rfl, Clean.nil⟩
  exact ⟨k, ns.reverse, by simp [normComps_eq, h], hns.reverse⟩

theorem run_dotdots (k : Nat) : run false [] (List.replicate k dotdot) = List.replicate k dotdot := by
  induction k with
  | zero => rfl
  | succ k ih =>
    rw [List.replicate_succ', run_append, ih]
    cases k with
    | zero => simp [run, normStep_dotdot_nil]
    | succ k =>
      have hc : ∀ n, dotdot :: List.replicate n dotdot = List.replicate n dotdot ++ [dotdot] :=
        fun n => by rw [← List.replicate_succ, List.replicate_succ']
      simp only [run, List.foldl_cons, List.foldl_nil, List.replicate_succ, normStep_dotdot_cons, if_true]
      rw [List.cons_append, ← hc]

theorem normComps_of_relNormal {l} (h : RelNormal l) : normComps false l = l := by
  obtain ⟨k, ns, rfl, hns⟩ := h
  simp [normComps_eq, run_append, run_dotdots, run_push hns]

theorem normComps_idem (ab l) : normComps ab (normComps ab l) = normComps ab l := by
  cases ab
  · exact normComps_of_relNormal (normComps_relNormal l)
  · exact normComps_idem_abs l

/-! ## Roots -/

theorem splitroot_fst_le (s : Str) : (splitroot s).1 ≤ 2 := by
  fun_cases splitroot s <;> simp

theorem splitroot_eq (s : Str) : s = slashes (splitroot s).1 ++ (splitroot s).2 := by
  fun_cases splitroot s <;> simp_all [slashes, List.replicate]

theorem isabs_eq (s : Str) : isabs s = (rootK s != 0) := by
  unfold rootK; fun_cases splitroot s <;> simp_all [isabs]

theorem splitroot_rel {s : Str} (h : isabs s = false) : splitroot s = (0, s) := by
  fun_cases splitroot s <;> simp_all [isabs]

theorem splitroot_append {a x : Str} (h : isabs x = false ∨ (splitroot a).2 ≠ []) :
    splitroot (a ++ x) = ((splitroot a).1, (splitroot a).2 ++ x) := by
  fun_cases splitroot a <;> simp_all [splitroot, isabs]
  all_goals (cases x <;> simp_all)

theorem tail_ne_nil {a : Str} (h1 : a ≠ []) (h2 : endsSlash a = false) : (splitroot a).2 ≠ [] := by
  fun_cases splitroot a <;> simp_all [endsSlash]

theorem endsSlash_append_singleton (a : Str) : endsSlash (a ++ [slash]) = true := by
  simp [endsSlash]

theorem endsSlash_iff {a : Str} : endsSlash a = true ↔ ∃ a', a = a' ++ [slash] := by
  constructor
  · intro h
    unfold endsSlash at h
    cases hl : a.getLast? with
    | none => simp [hl] at h
    | some c =>
      simp only [hl, beq_iff_eq] at h
      subst h
      exact List.getLast?_eq_some_iff.mp hl
  · rintro ⟨a', rfl⟩; exact endsSlash_append_singleton a'

theorem endsSlash_append {a b : Str} (hb : b ≠ []) : endsSlash (a ++ b) = endsSlash b := by
  cases hl : b.getLast? with
  | none => simp at hl; exact absurd hl hb
  | some c => simp [endsSlash, List.getLast?_append, hl]

/-! ## Components of strings -/

theorem nonEmpty_append (a b : List Str) : nonEmpty (a ++ b) = nonEmpty a ++ nonEmpty b := by
  simp [nonEmpty]

theorem nonEmpty_of_noEmpty {l : List Str} (h : ∀ c ∈ l, c ≠ []) : nonEmpty l = l := by
  simp only [nonEmpty, List.filter_eq_self]; intro c hc; simpa using h c hc

theorem nonEmpty_of_clean {l : List Str} (h : Clean l) : nonEmpty l = l :=
  nonEmpty_of_noEmpty fun c hc => (h c hc).1

theorem run_nonEmpty (ab st) (l : List Str) : run ab st (nonEmpty l) = run ab st l := by
  induction l generalizing st with
  | nil => rfl
  | cons c l ih =>
    by_cases hc : c = []
    · subst hc; simp only [nonEmpty, ne_eq, not_true_eq_false, decide_false, Bool.false_eq_true,
        not_false_eq_true, List.filter_cons_of_neg, run_cons, normStep_empty]; exact ih st
    · simp only [nonEmpty, ne_eq, hc, not_false_eq_true, decide_true, List.filter_cons_of_pos, run_cons]
      exact ih _

theorem normComps_nonEmpty (ab) (l : List Str) : normComps ab (nonEmpty l) = normComps ab l := by
  simp [normComps_eq, run_nonEmpty]

theorem parseNorm_eq (s : Str) : parseNorm s = (rootK s, normComps (isabs s) (comps s)) := by
  simp only [parseNorm, comps, normComps_nonEmpty, isabs_eq, rootK]

theorem comps_slashFree {s c : Str} (h : c ∈ comps s) : SlashFree c := by
  simp only [comps, nonEmpty, List.mem_filter] at h
  exact mem_splitSlash_slashFree h.1

theorem comps_ne_nil {s c : Str} (h : c ∈ comps s) : c ≠ [] := by
  simp only [comps, nonEmpty, List.mem_filter] at h
  simpa using h.2

theorem mem_normStep {ab st c x} (h : x ∈ normStep ab st c) : x ∈ st ∨ x = c := by
  unfold normStep at h
  split at h
  · exact Or.inl h
  · split at h
    · rcases List.mem_cons.mp h with rfl | h
      · exact Or.inr rfl
      · exact Or.inl h
    · rename_i h2
      have hc : c = dotdot := by simpa using h2
      cases st with
      | nil =>
        cases ab <;> simp at h
        exact Or.inr (h.trans hc.symm)
      | cons t r =>
        simp only at h
        split at h
        · rcases List.mem_cons.mp h with rfl | h
          · exact Or.inr hc.symm
          · exact Or.inl h
        · exact Or.inl (List.mem_cons_of_mem _ h)

theorem mem_run {ab st} {l : List Str} {x} (h : x ∈ run ab st l) : x ∈ st ∨ x ∈ l := by
  induction l generalizing st with
  | nil => exact Or.inl h
  | cons c l ih =>
    rcases ih h with h | h
    · rcases mem_normStep h with h | rfl
      · exact Or.inl h
      · exact Or.inr (by simp)
    · exact Or.inr (List.mem_cons_of_mem _ h)

theorem mem_normComps {ab} {l : List Str} {x} (h : x ∈ normComps ab l) : x ∈ l := by
  rw [normComps_eq, List.mem_reverse] at h
  rcases mem_run h with h | h
  · cases h
  · exact h

/-! ## `join` -/

theorem join_abs {a b : Str} (h : isabs b = true) : join a b = b := by simp [join, h]

theorem comps_nil : comps [] = [] := by decide
theorem rootK_nil : rootK [] = 0 := by decide

theorem join_nil_left {b : Str} : join [] b = b := by
  unfold join; split <;> simp

theorem join_ends {a b : Str} (h : isabs b = false) (he : endsSlash a = true) : join a b = a ++ b := by
  simp [join, h, he]

theorem join_plain {a b : Str} (h : isabs b = false) (ha : a ≠ []) (he : endsSlash a = false) :
    join a b = a ++ slash :: b := by
  simp [join, h, he, ha]

theorem rootK_join {a b : Str} (h : isabs b = false) : rootK (join a b) = rootK a := by
  by_cases ha : a = []
  · subst ha; rw [join_nil_left]; simp [rootK, splitroot_rel h]; rfl
  · by_cases he : endsSlash a = true
    · rw [join_ends h he]; unfold rootK
      rw [splitroot_append (Or.inl h)]
    · have he : endsSlash a = false := by simpa using he
      rw [join_plain h ha he]; unfold rootK
      rw [splitroot_append (Or.inr (tail_ne_nil ha he))]

theorem comps_join {a b : Str} (h : isabs b = false) : comps (join a b) = comps a ++ comps b := by
  by_cases ha : a = []
  · subst ha; rw [join_nil_left]; simp [comps_nil]
  · by_cases he : endsSlash a = true
    · rw [join_ends h he]
      unfold comps
      rw [splitroot_append (Or.inl h)]
      by_cases ht : (splitroot a).2 = []
      · simp [ht, nonEmpty, splitSlash, splitroot_rel h]
      · have he2 : endsSlash (splitroot a).2 = true := by
          have := splitroot_eq a
          rw [this, endsSlash_append ht] at he; exact he
        obtain ⟨t', ht'⟩ := endsSlash_iff.mp he2
        rw [ht', List.append_assoc, List.singleton_append, splitSlash_append_slash,
          ← List.append_nil (t' ++ [slash]), List.append_assoc, List.singleton_append,
          splitSlash_append_slash, splitroot_rel h]
        simp [nonEmpty, splitSlash]
    · have he : endsSlash a = false := by simpa using he
      rw [join_plain h ha he]
      unfold comps
      rw [splitroot_append (Or.inr (tail_ne_nil ha he)), splitSlash_append_slash,
        nonEmpty_append, splitroot_rel h]

theorem isabs_join_left {a b : Str} (h : isabs a = true) : isabs (join a b) = true := by
  by_cases hb : isabs b = true
  · rw [join_abs hb]; exact hb
  · have hb : isabs b = false := by simpa using hb
    rw [isabs_eq, rootK_join hb, ← isabs_eq]; exact h

/-! ## Rendering normal forms and parsing them again -/

/-- A root marker with a normalized component list. -/
def Normal (k : Nat) (l : List Str) : Prop :=
  k ≤ 2 ∧ (∀ c ∈ l, SlashFree c) ∧ (if k = 0 then RelNormal l else Clean l)

theorem dotdot_slashFree : SlashFree dotdot := by simp [SlashFree, dotdot, slash]
theorem dot_slashFree : SlashFree dot := by simp [SlashFree, dot, slash]

theorem RelNormal.ne_nil {l} (h : RelNormal l) : ∀ c ∈ l, c ≠ [] := by
  obtain ⟨k, ns, rfl, hns⟩ := h
  intro c hc
  rcases List.mem_append.mp hc with hc | hc
  · rw [(List.mem_replicate.mp hc).2]; exact dotdot_ne_nil
  · exact (hns c hc).1

theorem Normal.good {k l} (h : Normal k l) : ∀ c ∈ l, SlashFree c ∧ c ≠ [] := by
  obtain ⟨_, h2, h3⟩ := h
  intro c hc
  refine ⟨h2 c hc, ?_⟩
  by_cases hk : k = 0
  · simp only [hk, if_true] at h3; exact h3.ne_nil c hc
  · simp only [hk, if_false] at h3; exact (h3 c hc).1

theorem joinSlash_rel {l : List Str} (h : ∀ c ∈ l, SlashFree c ∧ c ≠ []) : isabs (joinSlash l) = false := by
  cases l with
  | nil => rfl
  | cons c cs =>
    obtain ⟨h1, h2⟩ := h c (by simp)
    cases c with
    | nil => exact absurd rfl h2
    | cons x xs =>
      have hx : x ≠ slash := by intro e; apply h1; simp [e]
      cases cs <;> simp [joinSlash, isabs, hx]

theorem joinSlash_eq_nil {l : List Str} (h : ∀ c ∈ l, SlashFree c ∧ c ≠ []) :
    joinSlash l = [] ↔ l = [] := by
  cases l with
  | nil => simp [joinSlash]
  | cons c cs =>
    have := (h c (by simp)).2
    cases cs <;> simp [joinSlash, this]

theorem splitroot_render {k : Nat} {l : List Str} (hk : k ≤ 2) (h : ∀ c ∈ l, SlashFree c ∧ c ≠ []) :
    splitroot (render k l) = (k, if k = 0 ∧ l = [] then dot else joinSlash l) := by
  have hj := joinSlash_rel h
  unfold render
  match k, hk with
  | 0, _ =>
    simp only [slashes, List.replicate, List.nil_append, joinSlash_eq_nil h, true_and]
    by_cases hl : l = []
    · simp [hl]; decide
    · simp only [hl, if_false]; exact splitroot_rel hj
  | 1, _ =>
    have : splitroot ([slash] ++ joinSlash l) = (1, joinSlash l) := by
      rw [splitroot_append (Or.inl hj)]; simp [splitroot]
    simpa [slashes, List.replicate] using this
  | 2, _ =>
    have : splitroot ([slash, slash] ++ joinSlash l) = (2, joinSlash l) := by
      rw [splitroot_append (Or.inl hj)]; simp [splitroot]
    simpa [slashes, List.replicate] using this

theorem rootK_render {k : Nat} {l : List Str} (hk : k ≤ 2) (h : ∀ c ∈ l, SlashFree c ∧ c ≠ []) :
    rootK (render k l) = k := by simp [rootK, splitroot_render hk h]

theorem comps_render {k : Nat} {l : List Str} (hk : k ≤ 2) (h : ∀ c ∈ l, SlashFree c ∧ c ≠ []) :
    comps (render k l) = if k = 0 ∧ l = [] then [dot] else l := by
  unfold comps
  rw [splitroot_render hk h]
  by_cases hkl : k = 0 ∧ l = []
  · simp only [hkl, and_self, if_true]; decide
  · simp only [hkl, if_false]
    by_cases hl : l = []
    · subst hl; decide
    · rw [splitSlash_joinSlash hl (fun c hc => (h c hc).1)]
      exact nonEmpty_of_noEmpty fun c hc => (h c hc).2

theorem parseNorm_normal (s : Str) : Normal (parseNorm s).1 (parseNorm s).2 := by
  rw [parseNorm_eq]
  refine ⟨splitroot_fst_le s, fun c hc => comps_slashFree (mem_normComps hc), ?_⟩
  by_cases hk : rootK s = 0
  · have : isabs s = false := by simp [isabs_eq, hk]
    simp only [hk, if_true, this]; exact normComps_relNormal _
  · have : isabs s = true := by simp [isabs_eq, hk]
    simp only [hk, if_false, this]; exact normComps_clean _

theorem parseNorm_render {k : Nat} {l : List Str} (h : Normal k l) : parseNorm (render k l) = (k, l) := by
  have hg := h.good
  obtain ⟨hk, _, h3⟩ := h
  rw [parseNorm_eq, isabs_eq, rootK_render hk hg, comps_render hk hg]
  by_cases hk0 : k = 0
  · subst hk0
    simp only [if_true, true_and] at h3 ⊢
    by_cases hl : l = []
    · subst hl; decide
    · simp only [hl, if_false]
      show (0, normComps false l) = (0, l)
      rw [normComps_of_relNormal h3]
  · simp only [hk0, if_false, false_and] at h3 ⊢
    have : (k != 0) = true := by simp [hk0]
    rw [this, normComps_of_clean h3]

theorem normpath_eq_render (s : Str) : normpath s = render (parseNorm s).1 (parseNorm s).2 := rfl

theorem parseNorm_normpath (s : Str) : parseNorm (normpath s) = parseNorm s := by
  rw [normpath_eq_render, parseNorm_render (parseNorm_normal s)]

theorem normpath_idem (s : Str) : normpath (normpath s) = normpath s := by
  rw [normpath_eq_render (normpath s), parseNorm_normpath]; rfl

theorem rootK_normpath (s : Str) : rootK (normpath s) = rootK s := by
  have := congrArg Prod.fst (parseNorm_normpath s)
  simpa [parseNorm_eq] using this

theorem isabs_normpath (s : Str) : isabs (normpath s) = isabs s := by
  rw [isabs_eq, isabs_eq, rootK_normpath]

/-! ## Components of normalized strings -/

theorem normpath_eq (s : Str) : normpath s = render (rootK s) (normComps (isabs s) (comps s)) := by
  rw [normpath_eq_render, parseNorm_eq]

theorem comps_normpath_abs {s : Str} (h : isabs s = true) : comps (normpath s) = normComps true (comps s) := by
  have hn := parseNorm_normal s
  rw [normpath_eq_render, comps_render hn.1 hn.good]
  have hk : (parseNorm s).1 ≠ 0 := by
    rw [parseNorm_eq]; simpa [isabs_eq] using h
  simp only [hk, false_and, if_false]
  rw [parseNorm_eq, h]

/-- Normalizing a relative path first does not change where it leads (string level). -/
theorem run_comps_normpath_rel (S : List Str) {s : Str} (h : isabs s = false) :
    run true S (comps (normpath s)) = run true S (comps s) := by
  have hn := parseNorm_normal s
  rw [normpath_eq_render, comps_render hn.1 hn.good]
  have hk : (parseNorm s).1 = 0 := by
    rw [parseNorm_eq]; simpa [isabs_eq] using h
  have h2 : (parseNorm s).2 = normComps false (comps s) := by rw [parseNorm_eq, h]
  by_cases hl : (parseNorm s).2 = []
  · simp only [hk, hl, and_self, if_true]
    rw [← run_normComps_rel S (comps s), ← h2, hl]
    simp [run, normStep_dot]
  · simp only [hl, and_false, if_false]
    rw [h2, run_normComps_rel]

theorem abspath_abs {cwd s : Str} (h : isabs s = true) : abspath cwd s = normpath s := by
  simp [abspath, h]

theorem abspath_eq (cwd s : Str) : abspath cwd s = normpath (join cwd s) := by
  unfold abspath
  by_cases h : isabs s = true
  · simp [h, join_abs h]
  · simp [h]

theorem isabs_join_rel {a b : Str} (ha : isabs a = false) (hb : isabs b = false) : isabs (join a b) = false := by
  rw [isabs_eq, rootK_join hb, ← isabs_eq]; exact ha

/-! ## Lexical resolution -/

theorem resolve_abs {base p : Str} (hp : isabs p = true) : resolve base p = normComps true (comps p) := by
  rw [resolve, join_abs hp, parseNorm_eq, hp]

theorem resolve_rel {base p : Str} (hb : isabs base = true) (hp : isabs p = false) :
    resolve base p = normComps true (comps base ++ comps p) := by
  rw [resolve, parseNorm_eq, isabs_join_left hb, comps_join hp]

theorem resolve_abs_eq {base p : Str} (hp : isabs p = true) : resolve base p = (parseNorm p).2 := by
  rw [resolve, join_abs hp]

/-! ## `relpathTo` -/

theorem mem_relSegs {o d : List Str} {c : Str} (h : c ∈ relSegs o d) : c = dotdot ∨ c ∈ d := by
  induction o generalizing d with
  | nil =>
    cases d <;> simp [relSegs] at h
    exact Or.inr (by simpa using h)
  | cons x os ih =>
    cases d with
    | nil => simp [relSegs] at h; exact Or.inl h
    | cons y ds =>
      by_cases hxy : x = y
      · simp only [relSegs, hxy, if_true] at h
        rcases ih h with h | h
        · exact Or.inl h
        · exact Or.inr (List.mem_cons_of_mem _ h)
      · simp only [relSegs, hxy, if_false, List.mem_append, List.mem_replicate] at h
        rcases h with h | h
        · exact Or.inl h.2
        · exact Or.inr h

theorem relSegs_good {o d : List Str} (hd : ∀ c ∈ d, SlashFree c ∧ c ≠ []) :
    ∀ c ∈ relSegs o d, SlashFree c ∧ c ≠ [] := by
  intro c hc
  rcases mem_relSegs hc with rfl | h
  · exact ⟨dotdot_slashFree, dotdot_ne_nil⟩
  · exact hd c h

theorem isabs_dot : isabs dot = false := by decide

theorem isabs_renderRel {segs : List Str} (h : ∀ c ∈ segs, SlashFree c ∧ c ≠ []) :
    isabs (renderRel segs) = false := by
  unfold renderRel; split
  · exact isabs_dot
  · exact joinSlash_rel h

theorem comps_renderRel {segs : List Str} (h : ∀ c ∈ segs, SlashFree c ∧ c ≠ []) :
    comps (renderRel segs) = if segs = [] then [dot] else segs := by
  have := comps_render (k := 0) (l := segs) (by omega) h
  simpa [render, renderRel, slashes, joinSlash_eq_nil h] using this

theorem run_comps_renderRel (ab S) {segs : List Str} (h : ∀ c ∈ segs, SlashFree c ∧ c ≠ []) :
    run ab S (comps (renderRel segs)) = run ab S segs := by
  rw [comps_renderRel h]
  split
  · rename_i hs; subst hs; simp [run, normStep_dot]
  · rfl

theorem renderRel_eq_render {segs : List Str} (h : ∀ c ∈ segs, SlashFree c ∧ c ≠ []) :
    renderRel segs = render 0 segs := by
  simp [renderRel, render, slashes, joinSlash_eq_nil h]

/-- Clean, slash-free component list of an absolute string. -/
theorem ncomps_good (s : Str) : ∀ c ∈ normComps true (comps s), SlashFree c ∧ c ≠ [] :=
  fun c hc => ⟨comps_slashFree (mem_normComps hc), (normComps_clean _ c hc).1⟩

/-- The explicit form of `relpathTo` on absolute arguments with the same root marker. -/
theorem relpathTo_same {cwd origin dest : Str} (ho : isabs origin = true) (hd : isabs dest = true)
    (hk : rootK origin = rootK dest) :
    relpathTo cwd origin dest =
      renderRel (relSegs (normComps true (comps origin)) (normComps true (comps dest))) := by
  unfold relpathTo
  simp only [abspath_abs ho, abspath_abs hd, rootK_normpath, hk, ne_eq, not_true_eq_false, if_false,
    comps_normpath_abs ho, comps_normpath_abs hd]

theorem relpathTo_diff {cwd origin dest : Str} (ho : isabs origin = true) (hd : isabs dest = true)
    (hk : rootK origin ≠ rootK dest) : relpathTo cwd origin dest = normpath dest := by
  unfold relpathTo
  simp only [abspath_abs ho, abspath_abs hd, rootK_normpath, ne_eq, hk, not_false_eq_true, if_true]

/-- String-level relative path round trip: the result of `relpathTo`, interpreted in the origin
directory, designates the destination. -/
theorem resolve_relpathTo {cwd origin dest : Str} (ho : isabs origin = true) (hd : isabs dest = true) :
    resolve origin (relpathTo cwd origin dest) = (parseNorm dest).2 := by
  by_cases hk : rootK origin = rootK dest
  · rw [relpathTo_same ho hd hk]
    have hg := relSegs_good (o := normComps true (comps origin)) (ncomps_good dest)
    rw [resolve_rel ho (isabs_renderRel hg), normComps_eq, run_append, run_comps_renderRel _ _ hg,
      ← run_nonEmpty true [] (comps origin)]
    have h1 : run true [] (nonEmpty (comps origin)) = (normComps true (comps origin)).reverse := by
      rw [run_nonEmpty, normComps_eq, List.reverse_reverse]
    rw [h1]
    have h2 := run_relSegs (st := []) (normComps_clean (comps origin)) (normComps_clean (comps dest))
    rw [run_append, run_push (normComps_clean (comps origin))] at h2
    rw [List.append_nil] at h2
    rw [h2, parseNorm_eq, hd]; simp
  · rw [relpathTo_diff ho hd hk, resolve_abs_eq (by rw [isabs_normpath]; exact hd), parseNorm_normpath]

theorem isabs_relpathTo_same {cwd origin dest : Str} (ho : isabs origin = true) (hd : isabs dest = true)
    (hk : rootK origin = rootK dest) : isabs (relpathTo cwd origin dest) = false := by
  rw [relpathTo_same ho hd hk]
  exact isabs_renderRel (relSegs_good (ncomps_good dest))

theorem normpath_relpathTo {cwd origin dest : Str} (ho : isabs origin = true) (hd : isabs dest = true) :
    normpath (relpathTo cwd origin dest) = relpathTo cwd origin dest := by
  by_cases hk : rootK origin = rootK dest
  · rw [relpathTo_same ho hd hk]
    have hg := relSegs_good (o := normComps true (comps origin)) (ncomps_good dest)
    have hN : Normal 0 (relSegs (normComps true (comps origin)) (normComps true (comps dest))) :=
      ⟨by omega, fun c hc => (hg c hc).1, by simpa using relSegs_relNormal (normComps_clean _)⟩
    rw [renderRel_eq_render hg, normpath_eq_render, parseNorm_render hN]
  · rw [relpathTo_diff ho hd hk, normpath_idem]

/-- The meaning of a path does not change when the base directory is normalized, or when only a
part of it is. -/
theorem resolve_base_normpath {A wd x : Str} (hA : isabs A = true) :
    resolve (join A (normpath wd)) x = resolve (join A wd) x := by
  by_cases hx : isabs x = true
  · rw [resolve_abs hx, resolve_abs hx]
  · have hx : isabs x = false := by simpa using hx
    rw [resolve_rel (isabs_join_left hA) hx, resolve_rel (isabs_join_left hA) hx]
    by_cases hwd : isabs wd = true
    · have hwd1 : isabs (normpath wd) = true := by rw [isabs_normpath]; exact hwd
      rw [join_abs hwd, join_abs hwd1, comps_normpath_abs hwd, ← normComps_append_abs]
    · have hwd : isabs wd = false := by simpa using hwd
      have hwd1 : isabs (normpath wd) = false := by rw [isabs_normpath]; exact hwd
      rw [comps_join hwd, comps_join hwd1]
      simp only [normComps_eq, run_append, run_comps_normpath_rel _ hwd]

theorem resolve_normpath_base {B x : Str} (hB : isabs B = true) : resolve (normpath B) x = resolve B x := by
  have := resolve_base_normpath (A := [slash]) (wd := B) (x := x) rfl
  rwa [join_abs hB, join_abs (by rw [isabs_normpath]; exact hB)] at this

/-! ## Canonical root-relative paths are fixed points of `translate` -/

theorem normpath_dot : normpath dot = dot := by decide
theorem comps_dot : comps dot = [dot] := by decide

theorem run_comps_dot (ab S) : run ab S (comps dot) = S := by
  rw [comps_dot, run_cons, normStep_dot, run_nil]

theorem run_root_relSegs {root : Str} {d : List Str} (hd : Clean d) :
    run true (run true [] (comps root)) (relSegs (normComps true (comps root)) d) = d.reverse := by
  have h2 := run_relSegs (st := []) (normComps_clean (comps root)) hd
  rw [run_append, run_push (normComps_clean (comps root)), List.append_nil, List.append_nil] at h2
  rw [← h2, normComps_eq, List.reverse_reverse]

theorem translate_relSegs {cwd root : Str} (hroot : isabs root = true) {d : List Str} (hd : Clean d)
    (hsf : ∀ c ∈ d, SlashFree c) :
    translate cwd root dot (renderRel (relSegs (normComps true (comps root)) d)) dot =
      renderRel (relSegs (normComps true (comps root)) d) := by
  have hg := relSegs_good (o := normComps true (comps root)) (d := d) (fun c hc => ⟨hsf c hc, (hd c hc).1⟩)
  have hq : isabs (renderRel (relSegs (normComps true (comps root)) d)) = false := isabs_renderRel hg
  have hN : Normal 0 (relSegs (normComps true (comps root)) d) :=
    ⟨by omega, fun c hc => (hg c hc).1, by simpa using relSegs_relNormal hd⟩
  have hqn : normpath (renderRel (relSegs (normComps true (comps root)) d)) =
      renderRel (relSegs (normComps true (comps root)) d) := by
    rw [renderRel_eq_render hg, normpath_eq_render, parseNorm_render hN]
  have hj : isabs (join dot (renderRel (relSegs (normComps true (comps root)) d))) = false :=
    isabs_join_rel isabs_dot hq
  have hA : isabs (join root dot) = true := isabs_join_left hroot
  have hX : isabs (join (join root dot) (join dot (renderRel (relSegs (normComps true (comps root)) d)))) = true :=
    isabs_join_left hA
  have hXn := (isabs_normpath _).trans hX
  simp only [translate, hqn, hq, normpath_dot, isabs_dot, Bool.false_eq_true, if_false]
  rw [relpathTo_same hroot hXn (by rw [rootK_normpath, rootK_join hj, rootK_join isabs_dot])]
  congr 2
  rw [comps_normpath_abs hX, normComps_idem_abs, comps_join hj, comps_join isabs_dot, comps_join hq,
    normComps_eq]
  simp only [run_append, run_comps_dot, run_comps_renderRel _ _ hg]
  rw [run_root_relSegs hd, List.reverse_reverse]

/-! ## Affixes -/

/-- A path without affixes of its own: not empty, no trailing slash, no leading `./`. -/
def Plain (q : Str) : Prop := q ≠ [] ∧ endsSlash q = false ∧ dotSlash.isPrefixOf q = false

theorem getAffixes_shape (p : Str) :
    ((getAffixes p).1 = [] ∨ (getAffixes p).1 = dotSlash) ∧
    ((getAffixes p).2 = [] ∨ (getAffixes p).2 = [slash]) := by
  constructor
  · by_cases h1 : dotSlash.isPrefixOf (if endsSlash p then p.dropLast else p) = true <;>
      simp [getAffixes, h1]
  · by_cases h1 : endsSlash p = true <;> simp [getAffixes, h1]

theorem dotSlash_prefix_append (q : Str) : dotSlash.isPrefixOf (dotSlash ++ q) = true := by
  simp [dotSlash, List.isPrefixOf]

theorem dotSlash_not_prefix {q : Str} (h : q = [] ∨ isabs q = true) : dotSlash.isPrefixOf q = false := by
  match q, h with
  | [], _ => rfl
  | c :: r, h =>
    have hc : c = slash := by simpa [isabs] using h
    subst hc; simp [dotSlash, List.isPrefixOf, slash]

theorem getAffixes_lead_abs {p : Str} (h : isabs p = true) : (getAffixes p).1 = [] := by
  have h1 : dotSlash.isPrefixOf (if endsSlash p then p.dropLast else p) = false := by
    apply dotSlash_not_prefix
    split
    · match p, h with
      | [c], _ => exact Or.inl rfl
      | c :: d :: r, h => exact Or.inr (by simpa [isabs, List.dropLast] using h)
    · exact Or.inr h
  simp [getAffixes, h1]

theorem apply_plain {q l t : Str} (hq : Plain q) (hl : l = [] ∨ l = dotSlash) (ht : t = [] ∨ t = [slash])
    (habs : isabs q = true → l = []) :
    applyAffixes q l t = .ok (l ++ q ++ t) ∧ getAffixes (l ++ q ++ t) = (l, t) := by
  obtain ⟨hne, hend, hpre⟩ := hq
  have hds : dotSlash ≠ [] := by decide
  have hend2 : endsSlash (dotSlash ++ q) = false := by rw [endsSlash_append hne]; exact hend
  rcases hl with rfl | rfl <;> rcases ht with rfl | rfl
  · simp [applyAffixes, getAffixes, hend, hpre]
  · simp [applyAffixes, getAffixes, hend, hpre, endsSlash_append_singleton]
  · have hq : isabs q = false := by
      cases h : isabs q with
      | false => rfl
      | true => exact absurd (habs h) hds
    simp [applyAffixes, getAffixes, hds, hq, hpre, hend2, dotSlash_prefix_append]
  · have hq : isabs q = false := by
      cases h : isabs q with
      | false => rfl
      | true => exact absurd (habs h) hds
    have : endsSlash (dotSlash ++ (q ++ [slash])) = true := by
      rw [← List.append_assoc]; exact endsSlash_append_singleton _
    simp [applyAffixes, getAffixes, hds, hq, hpre, hend2, dotSlash_prefix_append, this]
theorem endsSlash_slashFree {c : Str} (h : SlashFree c) : endsSlash c = false := by
  cases he : endsSlash c with
  | false => rfl
  | true =>
    obtain ⟨a, rfl⟩ := endsSlash_iff.mp he
    exact absurd (by simp) h

theorem endsSlash_joinSlash {l : List Str} (h : ∀ c ∈ l, SlashFree c ∧ c ≠ []) :
    endsSlash (joinSlash l) = false := by
  induction l with
  | nil => rfl
  | cons c cs ih =>
    cases cs with
    | nil => exact endsSlash_slashFree (h c (by simp)).1
    | cons d ds =>
      have hg : ∀ x ∈ d :: ds, SlashFree x ∧ x ≠ [] := fun x hx => h x (List.mem_cons_of_mem _ hx)
      have hJ : joinSlash (d :: ds) ≠ [] := by rw [Ne, joinSlash_eq_nil hg]; simp
      have : joinSlash (c :: d :: ds) = (c ++ [slash]) ++ joinSlash (d :: ds) := by simp [joinSlash]
      rw [this, endsSlash_append hJ]; exact ih hg

theorem dotSlash_not_prefix_comp {c : Str} (h1 : c ≠ []) (h2 : c ≠ dot) (h3 : SlashFree c) (x : Str)
    (hx : x = [] ∨ ∃ y, x = slash :: y) : dotSlash.isPrefixOf (c ++ x) = false := by
  match c, h1 with
  | [a], _ =>
    have ha : a ≠ 46 := by intro e; apply h2; simp [e, dot]
    rcases hx with rfl | ⟨y, rfl⟩ <;> simp [dotSlash, List.isPrefixOf, Ne.symm ha]
  | a :: b :: r, _ =>
    have hb : b ≠ 47 := by intro e; apply h3; simp [e, slash]
    simp [dotSlash, List.isPrefixOf, Ne.symm hb]

theorem RelNormal.head_ne_dot {c : Str} {cs : List Str} (h : RelNormal (c :: cs)) : c ≠ dot := by
  obtain ⟨k, ns, hl, hns⟩ := h
  cases k with
  | zero => simp at hl; subst hl; exact hns.head.2.1
  | succ k => simp [List.replicate_succ] at hl; rw [hl.1]; exact dotdot_ne_dot

/-- A normalized path other than a bare root has no affixes of its own. -/
theorem normal_plain {q : Str} (hn : normpath q = q) (hr : isabs q = true → normComps true (comps q) ≠ []) :
    Plain q := by
  have hN := parseNorm_normal q
  have hg := hN.good
  have hk : (parseNorm q).1 = rootK q := by rw [parseNorm_eq]
  have hq : q = render (rootK q) (parseNorm q).2 := by
    conv => lhs; rw [← hn, normpath_eq_render, hk]
  by_cases hl : (parseNorm q).2 = []
  · have hq0 : isabs q = false := by
      cases h : isabs q with
      | false => rfl
      | true => exfalso; apply hr h; rw [parseNorm_eq, h] at hl; exact hl
    have : rootK q = 0 := by simpa [isabs_eq] using hq0
    rw [hq, this, hl]; exact ⟨by decide, by decide, by decide⟩
  · have hJ : joinSlash (parseNorm q).2 ≠ [] := by rw [Ne, joinSlash_eq_nil hg]; exact hl
    have hq2 : q = slashes (rootK q) ++ joinSlash (parseNorm q).2 := by
      conv => lhs; rw [hq]
      simp [render, hJ]
    refine ⟨?_, ?_, ?_⟩
    · rw [hq2]; simp [hJ]
    · rw [hq2, endsSlash_append hJ]; exact endsSlash_joinSlash hg
    · by_cases hq0 : isabs q = true
      · exact dotSlash_not_prefix (Or.inr hq0)
      · have hk0 : rootK q = 0 := by simpa [isabs_eq] using hq0
        have h3 := hN.2.2
        rw [hk, hk0] at h3
        simp only [if_true] at h3
        rw [hq2, hk0]
        simp only [slashes, List.replicate, List.nil_append]
        match hm : (parseNorm q).2, hl with
        | c :: cs, _ =>
          rw [hm] at h3 hg
          have hc := hg c (by simp)
          cases cs with
          | nil =>
            have := dotSlash_not_prefix_comp hc.2 h3.head_ne_dot hc.1 [] (Or.inl rfl)
            simpa [joinSlash] using this
          | cons d ds =>
            exact dotSlash_not_prefix_comp hc.2 h3.head_ne_dot hc.1 _ (Or.inr ⟨_, rfl⟩)


theorem dotSlash_append_eq_join {q : Str} (hq : isabs q = false) : dotSlash ++ q = join dot q := by
  rw [join_plain hq (by decide) (by decide)]; rfl

theorem resolve_dotSlash {base q : Str} (hb : isabs base = true) (hq : isabs q = false) :
    resolve base (dotSlash ++ q) = resolve base q := by
  rw [dotSlash_append_eq_join hq, resolve_rel hb (isabs_join_rel isabs_dot hq), resolve_rel hb hq,
    comps_join hq, normComps_eq, normComps_eq]
  simp only [run_append, run_comps_dot]

theorem trailing_eq_join {q : Str} (hne : q ≠ []) (he : endsSlash q = false) : q ++ [slash] = join q [] := by
  rw [join_plain rfl hne he]

theorem resolve_trailing {base q : Str} (hb : isabs base = true) (hne : q ≠ []) (he : endsSlash q = false) :
    resolve base (q ++ [slash]) = resolve base q := by
  have h1 : rootK (q ++ [slash]) = rootK q := by rw [trailing_eq_join hne he, rootK_join rfl]
  have h2 : comps (q ++ [slash]) = comps q := by
    rw [trailing_eq_join hne he, comps_join rfl, comps_nil, List.append_nil]
  have h3 : isabs (q ++ [slash]) = isabs q := by rw [isabs_eq, isabs_eq, h1]
  by_cases hq : isabs q = true
  · rw [resolve_abs (h3.trans hq), resolve_abs hq, h2]
  · have hq : isabs q = false := by simpa using hq
    rw [resolve_rel hb (h3.trans hq), resolve_rel hb hq, h2]

/-- Affixes put around a plain path do not change what it designates. -/
theorem resolve_affixes {base q l t : Str} (hb : isabs base = true) (hq : Plain q)
    (hl : l = [] ∨ l = dotSlash) (ht : t = [] ∨ t = [slash]) (habs : isabs q = true → l = []) :
    resolve base (l ++ q ++ t) = resolve base q := by
  obtain ⟨hne, hend, _⟩ := hq
  have hds : dotSlash ≠ [] := by decide
  rcases hl with rfl | rfl
  · rcases ht with rfl | rfl
    · simp
    · simpa using resolve_trailing hb hne hend
  · have hq : isabs q = false := by
      cases h : isabs q with
      | false => rfl
      | true => exact absurd (habs h) hds
    rcases ht with rfl | rfl
    · simpa using resolve_dotSlash hb hq
    · rw [resolve_trailing hb (by simp [hds]) (by rw [endsSlash_append hne]; exact hend)]
      exact resolve_dotSlash hb hq

/-- `_keep_affixes` around a transform whose result is plain: the affixes of the argument are put
back and can be read off again. -/
theorem keepAffixes_plain (f : Str → Str) (p : Str) (hplain : Plain (f p))
    (habs : isabs (f p) = true → isabs p = true) :
    keepAffixes f p = .ok ((getAffixes p).1 ++ f p ++ (getAffixes p).2) ∧
    getAffixes ((getAffixes p).1 ++ f p ++ (getAffixes p).2) = getAffixes p :=
  apply_plain hplain (getAffixes_shape p).1 (getAffixes_shape p).2
    (fun h => getAffixes_lead_abs (habs h))

theorem isabs_translate_rel {cwd root here p wd : Str} (hroot : isabs root = true)
    (hhere : isabs here = false) (hp : isabs p = false) (hwd : isabs wd = false) :
    isabs (translate cwd root here p wd) = false := by
  have hp1 : isabs (normpath p) = false := by rw [isabs_normpath]; exact hp
  have hwd1 : isabs (normpath wd) = false := by rw [isabs_normpath]; exact hwd
  have hj := isabs_join_rel hwd1 hp1
  simp only [translate, hp1, hwd1, Bool.false_eq_true, if_false]
  exact isabs_relpathTo_same hroot (by rw [isabs_normpath]; exact isabs_join_left (isabs_join_left hroot))
    (by rw [rootK_normpath, rootK_join hj, rootK_join hhere])

theorem isabs_translateBack_rel {cwd root here p wd : Str} (hroot : isabs root = true)
    (hhere : isabs here = false) (hp : isabs p = false) (hwd : isabs wd = false) :
    isabs (translateBack cwd root here p wd) = false := by
  have hp1 : isabs (normpath p) = false := by rw [isabs_normpath]; exact hp
  have hwd1 : isabs (normpath wd) = false := by rw [isabs_normpath]; exact hwd
  simp only [translateBack, hp1, Bool.false_eq_true, if_false]
  exact isabs_relpathTo_same (isabs_join_left (isabs_join_left hroot)) (isabs_join_left hroot)
    (by rw [rootK_join hwd1, rootK_join hhere, rootK_join hp1])

theorem applyAffixes_error_iff (p l t : Str) :
    (∃ n, applyAffixes p l t = .error n) ↔
      (l ≠ [] ∧ (l ≠ dotSlash ∨ isabs p = true ∨ dotSlash.isPrefixOf p = true)) ∨
      (t ≠ [] ∧ (t ≠ [slash] ∨ endsSlash (l ++ p) = true)) := by
  unfold applyAffixes
  by_cases hl : l = [] <;> by_cases ht : t = [] <;> by_cases h1 : l = dotSlash <;>
    by_cases h2 : t = [slash] <;> by_cases h3 : isabs p = true <;>
    by_cases h4 : dotSlash.isPrefixOf p = true <;> by_cases h5 : endsSlash (l ++ p) = true <;>
    simp_all

theorem applyAffixes_ok (p l t r : Str) (h : applyAffixes p l t = .ok r) : r = l ++ p ++ t := by
  unfold applyAffixes at h
  by_cases hl : l = [] <;> by_cases ht : t = [] <;> by_cases h1 : l = dotSlash <;>
    by_cases h2 : t = [slash] <;> by_cases h3 : isabs p = true <;>
    by_cases h4 : dotSlash.isPrefixOf p = true <;> by_cases h5 : endsSlash (l ++ p) = true <;>
    simp_all

/-! ## Arguments relative to the current directory -/

theorem isabs_abspath {cwd s : Str} (hc : isabs cwd = true) : isabs (abspath cwd s) = true := by
  rw [abspath_eq, isabs_normpath]; exact isabs_join_left hc

theorem abspath_idem {cwd s : Str} (hc : isabs cwd = true) : abspath cwd (abspath cwd s) = abspath cwd s := by
  rw [abspath_abs (isabs_abspath hc), abspath_eq, normpath_idem]

theorem relpathTo_abspath {cwd o d : Str} (hc : isabs cwd = true) :
    relpathTo cwd o d = relpathTo cwd (abspath cwd o) (abspath cwd d) := by
  simp only [relpathTo, abspath_idem hc]

/-- `relpathTo` with arguments relative to `cwd`: the result, interpreted in `cwd/origin`,
designates `cwd/dest`. -/
theorem resolve_relpathTo_gen {cwd o d : Str} (hc : isabs cwd = true) :
    resolve (join cwd o) (relpathTo cwd o d) = resolve cwd d := by
  rw [relpathTo_abspath hc, ← resolve_normpath_base (isabs_join_left hc), ← abspath_eq,
    resolve_relpathTo (isabs_abspath hc) (isabs_abspath hc), abspath_eq, parseNorm_normpath]
  rfl

theorem resolve_join_dot {A x : Str} (hA : isabs A = true) : resolve (join A dot) x = resolve A x := by
  by_cases hx : isabs x = true
  · rw [resolve_abs hx, resolve_abs hx]
  · have hx : isabs x = false := by simpa using hx
    rw [resolve_rel (isabs_join_left hA) hx, resolve_rel hA hx, comps_join isabs_dot, normComps_eq, normComps_eq]
    simp only [run_append, run_comps_dot]

theorem resolve_self_eq_dot {A : Str} (hA : isabs A = true) : resolve A A = resolve A dot := by
  rw [resolve_abs hA, resolve_rel hA isabs_dot, normComps_eq, normComps_eq]
  simp only [run_append, run_comps_dot]

theorem resolve_dot_eq {A : Str} (hA : isabs A = true) : resolve A dot = (parseNorm A).2 := by
  rw [← resolve_self_eq_dot hA, resolve_abs_eq hA]

/-- Only the location of the base directory matters. -/
theorem resolve_base_congr {A A' wd p : Str} (hA : isabs A = true) (hA' : isabs A' = true)
    (h : (parseNorm A).2 = (parseNorm A').2) : resolve (join A wd) p = resolve (join A' wd) p := by
  rw [parseNorm_eq, parseNorm_eq, hA, hA'] at h
  simp only at h
  by_cases hp : isabs p = true
  · rw [resolve_abs hp, resolve_abs hp]
  · have hp : isabs p = false := by simpa using hp
    by_cases hwd : isabs wd = true
    · rw [join_abs hwd, join_abs hwd]
    · have hwd : isabs wd = false := by simpa using hwd
      rw [resolve_rel (isabs_join_left hA) hp, resolve_rel (isabs_join_left hA') hp, comps_join hwd,
        comps_join hwd, List.append_assoc, List.append_assoc, normComps_append_abs, h, ← normComps_append_abs]

end StepupModel.P.Path
