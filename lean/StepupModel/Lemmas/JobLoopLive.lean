import StepupModel.Lemmas.JobLoopInv
/-! `Builder.job_loop` model: completions are reported once; the inner loop terminates within
`njob + 4` passes; a parked loop has nothing it could start (no lost wake-up). -/
namespace StepupModel.B.JobLoop

/-! ## Completions reported to the scheduler -/

/-- `record_job_completed(i)` was called at most as often as a task of step job `i` was handled,
and exactly as often while no task has raised. -/
def Reported (s : JL) : Prop :=
  ∀ i, s.retired.count i ≤ s.handled.count (.step i) ∧
    (s.draining = false → s.retired.count i = s.handled.count (.step i))

theorem retire_reported (s : JL) (j : Job) (h : Reported s) : Reported (retire s j) := by
  intro i
  obtain ⟨h1, h2⟩ := h i
  cases j with
  | step k =>
    simp only [retire, List.count_append, List.count_cons, List.count_nil]
    by_cases hk : k = i
    · subst hk; simp; exact ⟨h1, h2⟩
    · have a : (k == i) = false := by simpa using hk
      have b : (Job.step k == Job.step i) = false := by simpa using hk
      simp [a, b]; exact ⟨h1, h2⟩
  | hash k =>
    simp only [retire, List.count_append, List.count_cons, List.count_nil]
    have b : (Job.hash k == Job.step i) = false := by simp
    simp [b]; exact ⟨h1, h2⟩

theorem handleDone_reported (l : List (Job × Bool)) : ∀ (s : JL), Reported s → Reported (handleDone s l).1 := by
  induction l with
  | nil => intro s h; simpa [handleDone, Reported] using h
  | cons a rest ih =>
    intro s h
    obtain ⟨j, ok⟩ := a
    cases ok
    · intro i
      obtain ⟨h1, -⟩ := h i
      simp only [handleDone, Bool.not_false, if_true, List.count_append]
      exact ⟨by omega, by simp⟩
    · simp only [handleDone, Bool.not_true, Bool.false_eq_true, if_false]
      exact ih _ (retire_reported s j h)

theorem reported_of_eq {s t : JL} (h : Reported s) (h1 : t.retired = s.retired) (h2 : t.handled = s.handled)
    (h3 : t.draining = s.draining) : Reported t := by
  intro i; rw [h1, h2, h3]; exact h i

theorem handleDone_frame2 (l : List (Job × Bool)) (s : JL) : (handleDone s l).1.njob = s.njob :=
  (handleDone_frame l s).2.1

theorem iter_reported (s : JL) (h : Reported s) : Reported (iter s).1 := by
  unfold iter
  have hd := handleDone_reported s.done.reverse s h
  generalize handleDone s s.done.reverse = r at hd
  obtain ⟨s1, b⟩ := r
  simp only at hd
  cases b
  · simp only
    split
    · have hp := popHash_frame s1.queue s1
      generalize popHash s1 s1.queue = q at hp
      obtain ⟨s2, o⟩ := q
      obtain ⟨-, -, -, -, -, -, p7, p8, -, p10, -⟩ := hp
      simp only at p7 p8 p10
      cases o with
      | some i => exact reported_of_eq hd (by simp [startJob, p8]) (by simp [startJob, p7]) (by simp [startJob, p10])
      | none =>
        simp only
        split
        · exact reported_of_eq hd (by simp [startJob, p8]) (by simp [startJob, p7]) (by simp [startJob, p10])
        · have t := tail_frame { s2 with polls := s2.polls + 1 }
          exact reported_of_eq hd (by rw [t.2.2.2.2.2.1]; exact p8) (by rw [t.2.2.2.2.1]; exact p7)
            (by rw [t.2.2.2.2.2.2.1]; exact p10)
    · have t := tail_frame s1
      exact reported_of_eq hd t.2.2.2.2.2.1 t.2.2.2.2.1 t.2.2.2.2.2.2.1
  · exact hd

theorem settleN_reported (fuel : Nat) : ∀ (s : JL), Reported s → Reported (settleN fuel s) := by
  induction fuel with
  | zero => intro s h; exact h
  | succ n ih =>
    intro s h
    have hi := iter_reported s h
    simp only [settleN]
    generalize iter s = r at hi
    obtain ⟨s1, c⟩ := r
    cases c
    · exact ih s1 hi
    all_goals exact hi

theorem moveDone_frame (s : JL) (j : Job) (ok : Bool) :
    (moveDone s j ok).retired = s.retired ∧ (moveDone s j ok).handled = s.handled ∧
    (moveDone s j ok).draining = s.draining ∧ (moveDone s j ok).status = s.status ∧
    (moveDone s j ok).offers = s.offers ∧ (moveDone s j ok).queue = s.queue ∧
    (moveDone s j ok).claimed = s.claimed ∧ (moveDone s j ok).njob = s.njob := by
  unfold moveDone; split <;> simp

theorem apply_reported (s : JL) (e : Ev) (h : Reported s) : Reported (apply s e) := by
  cases e with
  | start => simp only [apply]; split <;> exact h
  | offer j => exact h
  | submit p =>
    have f := submit_frame s p
    exact reported_of_eq h f.2.2.2.2.2.2.1 f.2.2.2.2.2.1 f.2.2.2.2.2.2.2.1
  | promote p =>
    have f := submit_frame s p
    simp only [apply]
    generalize submit s p = r at f
    obtain ⟨t, i⟩ := r
    simp only at f ⊢
    split
    · exact reported_of_eq h f.2.2.2.2.2.2.1 f.2.2.2.2.2.1 f.2.2.2.2.2.2.2.1
    · exact reported_of_eq h f.2.2.2.2.2.2.1 f.2.2.2.2.2.1 f.2.2.2.2.2.2.2.1
  | fin j =>
    simp only [apply]
    have f := resolveFor_frame s j
    have m := moveDone_frame (resolveFor s j) j true
    exact reported_of_eq h (m.1.trans f.2.2.2.2.2.2.1) (m.2.1.trans f.2.2.2.2.2.1) (m.2.2.1.trans f.2.2.2.2.2.2.2.1)
  | fail j =>
    cases j with
    | step i =>
      have m := moveDone_frame s (.step i) false
      exact reported_of_eq h m.1 m.2.1 m.2.2.1
    | hash i => exact h

theorem settle_reported (s : JL) (f : Bool) (h : Reported s) : Reported (settle s f) := by
  unfold settle
  split
  · split
    · exact settleN_reported _ _ h
    · split
      · exact settleN_reported _ _ (reported_of_eq h rfl rfl rfl)
      · exact h
  · exact h

theorem run_reported (njob : Nat) (evs : List Ev) : Reported (run njob evs) := by
  unfold run
  suffices h : ∀ (s : JL), Reported s → Reported (evs.foldl step s) from h _ (by intro i; simp)
  induction evs with
  | nil => intro s h; exact h
  | cons e rest ih => intro s h; exact ih _ (settle_reported _ _ (apply_reported s e h))

/-! ## Termination of the inner loop and "no lost wake-up" -/

/-- Bound on the number of further passes that do not park. -/
def mu (s : JL) : Nat :=
  (s.njob - s.running.length) + (if s.wake then 1 else 0) + (if s.done = [] then 0 else 2)

theorem mu_le (s : JL) : mu s ≤ s.njob + 3 := by
  unfold mu; split <;> split <;> omega

/-- A parked loop: the wake event is clear, and if a slot is free the scheduler has no job on offer
and every queued hash job has already been claimed by a promoted runner. -/
def Parked (s : JL) : Prop :=
  s.wake = false ∧ (s.running.length < s.njob → s.offers = [] ∧ ∀ i ∈ s.queue, i ∈ s.claimed)

theorem handleDone_wake (l : List (Job × Bool)) (s : JL) (h : (handleDone s l).2 = false) :
    (handleDone s l).1.done = [] ∧ (l = [] → (handleDone s l).1.wake = s.wake) := handleDone_done l s h

theorem tail_again (s : JL) (h : (tail s).2 = .again) :
    s.wake = true ∧ (tail s).1 = { s with wake := false } := by
  unfold tail at h ⊢
  split
  · rename_i hc; rw [if_pos hc] at h; simp at h
  · rename_i hc
    rw [if_neg hc] at h
    split
    · rename_i hw; exact ⟨hw, rfl⟩
    · rename_i hw; rw [if_neg hw] at h; simp at h

theorem tail_wait (s : JL) (h : (tail s).2 = .wait) : s.wake = false ∧ (tail s).1 = s := by
  unfold tail at h ⊢
  split
  · rename_i hc; rw [if_pos hc] at h; simp at h
  · rename_i hc
    rw [if_neg hc] at h
    split
    · rename_i hw; rw [if_pos hw] at h; simp at h
    · rename_i hw; exact ⟨by simpa using hw, rfl⟩

theorem iter_again_mu (s : JL) (h : (iter s).2 = .again) : mu (iter s).1 < mu s := by
  unfold iter at h ⊢
  have hf := handleDone_frame s.done.reverse s
  have hw := handleDone_done s.done.reverse s
  generalize handleDone s s.done.reverse = r at hf hw h
  obtain ⟨s1, b⟩ := r
  obtain ⟨hr, hn, -⟩ := hf
  simp only at hr hn
  cases b
  · obtain ⟨hd, hwk⟩ := hw rfl
    simp only at hd hwk h ⊢
    -- the state after `handle_done_tasks` is not further from parking than before
    have base : mu s1 ≤ mu s := by
      unfold mu
      rw [hr, hn, hd]
      by_cases he : s.done = []
      · have : s1.wake = s.wake := hwk (by simp [he])
        rw [this, he]; simp
      · simp only [he, if_false, if_true]
        split <;> split <;> omega
    split
    · rename_i hlt
      rw [if_pos hlt] at h
      have hp := popHash_frame s1.queue s1
      generalize popHash s1 s1.queue = q at hp h
      obtain ⟨s2, o⟩ := q
      obtain ⟨p1, p2, p3, -, -, -, -, -, p9, -⟩ := hp
      simp only at p1 p2 p3 p9
      have e2 : mu s2 = mu s1 := by unfold mu; rw [p1, p2, p3, p9]
      cases o with
      | some i =>
        have : mu (startJob s2 (.hash i)) < mu s2 := by
          unfold mu startJob; simp only [List.length_append, List.length_cons, List.length_nil]
          rw [p1, p2]; omega
        simp only; omega
      | none =>
        simp only at h ⊢
        split
        · have : mu (startJob { s2 with polls := s2.polls + 1, offers := s2.offers.tail } (.step ‹Nat›)) < mu s2 := by
            unfold mu startJob; simp only [List.length_append, List.length_cons, List.length_nil]
            rw [p1, p2]; omega
          simp only; omega
        · rename_i heq
          rw [heq] at h
          obtain ⟨tw, te⟩ := tail_again _ h
          rw [te]
          have : mu { s2 with polls := s2.polls + 1, wake := false } < mu s2 := by
            simp only at tw
            unfold mu; simp only [tw]; simp
          simpa using Nat.lt_of_lt_of_le this (by omega)
    · rename_i hlt
      rw [if_neg hlt] at h
      obtain ⟨tw, te⟩ := tail_again _ h
      rw [te]
      have : mu { s1 with wake := false } < mu s1 := by unfold mu; simp only [tw]; simp
      omega
  · simp at h

theorem popHash_none_claimed (l : List Nat) : ∀ (s : JL), (popHash s l).2 = none →
    (popHash s l).1.queue = [] := fun s h => (popHash_none l s h).1

theorem iter_wait_parked (s : JL) (h : (iter s).2 = .wait) : Parked (iter s).1 := by
  unfold iter at h ⊢
  generalize handleDone s s.done.reverse = r at h
  obtain ⟨s1, b⟩ := r
  cases b
  · simp only at h ⊢
    split
    · rename_i hlt
      rw [if_pos hlt] at h
      have hq := popHash_none s1.queue s1
      have hp := popHash_frame s1.queue s1
      generalize popHash s1 s1.queue = q at hp hq h
      obtain ⟨s2, o⟩ := q
      cases o with
      | some i => simp at h
      | none =>
        simp only at h ⊢
        obtain ⟨hq1, -⟩ := hq rfl
        simp only at hq1
        split at h
        · simp at h
        · rename_i heq
          obtain ⟨tw, te⟩ := tail_wait _ h
          rw [te]
          refine ⟨tw, fun _ => ⟨List.head?_eq_none_iff.mp heq, ?_⟩⟩
          simp [hq1]
    · rename_i hlt
      rw [if_neg hlt] at h
      obtain ⟨tw, te⟩ := tail_wait _ h
      rw [te]
      exact ⟨tw, fun hl => absurd hl hlt⟩
  · simp at h

/-- With more fuel than `mu`, the loop does not run out of fuel: it parks with nothing to start,
returns or raises. -/
theorem settleN_parked (fuel : Nat) : ∀ (s : JL), mu s < fuel → s.status = .waiting →
    ((settleN fuel s).status = .waiting → Parked (settleN fuel s)) := by
  induction fuel with
  | zero => intro s h; omega
  | succ n ih =>
    intro s hm hw
    have hst := iter_status s
    have hmu := iter_again_mu s
    have hpk := iter_wait_parked s
    simp only [settleN]
    generalize iter s = r at hst hmu hpk
    obtain ⟨s1, c⟩ := r
    cases c
    · exact ih s1 (by have := hmu rfl; simp only at this; omega) (hst.trans hw)
    · intro _; exact hpk rfl
    · simp
    · simp

/-- The fuel of `settle` is never exhausted: more fuel gives the same result. -/
theorem settleN_fuel_enough (fuel : Nat) : ∀ (s : JL) (k : Nat), mu s < fuel →
    settleN (fuel + k) s = settleN fuel s := by
  induction fuel with
  | zero => intro s k h; omega
  | succ n ih =>
    intro s k hm
    have hmu := iter_again_mu s
    rw [show n + 1 + k = (n + k) + 1 by omega]
    simp only [settleN]
    generalize iter s = r at hmu
    obtain ⟨s1, c⟩ := r
    cases c
    · exact ih s1 k (by have := hmu rfl; simp only at this; omega)
    all_goals rfl

def ParkedInv (s : JL) : Prop := s.status = .waiting → Parked s

theorem submit_parked (s : JL) (p : Nat) (_h : Parked s) (hw : (submit s p).1.wake = false) :
    (submit s p).1 = s := by
  unfold submit at hw ⊢
  split
  · rfl
  · rename_i hn; rw [hn] at hw; simp at hw

theorem apply_parked (s : JL) (e : Ev) (hs : s.status = .waiting) (h : Parked s)
    (hw : (apply s e).wake = false) : Parked (apply s e) ∧ (apply s e).status = .waiting := by
  cases e with
  | start => simp only [apply, hs]; simp; exact ⟨h, hs⟩
  | offer j => simp [apply] at hw
  | submit p =>
    simp only [apply] at hw ⊢
    rw [submit_parked s p h hw]; exact ⟨h, hs⟩
  | promote p =>
    simp only [apply] at hw ⊢
    have hsub : (submit s p).1.wake = false := by
      generalize submit s p = r at hw
      obtain ⟨t, i⟩ := r
      simp only at hw ⊢
      split at hw <;> simpa using hw
    have he := submit_parked s p h hsub
    generalize submit s p = r at he
    obtain ⟨t, i⟩ := r
    simp only at he ⊢
    subst he
    split
    · exact ⟨h, hs⟩
    · refine ⟨⟨h.1, fun hl => ?_⟩, hs⟩
      obtain ⟨ho, hq⟩ := h.2 hl
      exact ⟨ho, fun x hx => List.mem_cons_of_mem _ (hq x hx)⟩
  | fin j =>
    simp only [apply] at hw ⊢
    have f := resolveFor_frame s j
    have hp : Parked (resolveFor s j) := by
      obtain ⟨f1, f2, -, -, -, -, -, -, f9, f10, f11, f12⟩ := f
      refine ⟨f9.trans h.1, fun hl => ?_⟩
      rw [f1, f2] at hl
      rw [f10, f11, f12]; exact h.2 hl
    unfold moveDone at hw ⊢
    split
    · rename_i hc; rw [if_pos hc] at hw; simp at hw
    · exact ⟨hp, f.2.2.2.1.trans hs⟩
  | fail j =>
    cases j with
    | step i =>
      simp only [apply] at hw ⊢
      unfold moveDone at hw ⊢
      split
      · rename_i hc; rw [if_pos hc] at hw; simp at hw
      · exact ⟨h, hs⟩
    | hash i => exact ⟨h, hs⟩

theorem apply_status_waiting (s : JL) (e : Ev) (hs : s.status ≠ .waiting)
    (h : (apply s e).status = .waiting) : e = .start ∧ (s.status = .idle ∨ s.status = .returned) := by
  cases e with
  | start => simp only [apply] at h; split at h <;> simp_all
  | offer j => simp [apply] at h; exact absurd h hs
  | submit p => simp only [apply] at h; rw [(submit_frame s p).2.2.2.1] at h; exact absurd h hs
  | promote p =>
    have f := submit_frame s p
    simp only [apply] at h
    generalize submit s p = r at f h
    obtain ⟨t, i⟩ := r
    simp only at f h
    split at h <;> simp_all
  | fin j =>
    simp only [apply] at h
    rw [(moveDone_frame _ _ _).2.2.2.1, (resolveFor_frame s j).2.2.2.1] at h; exact absurd h hs
  | fail j =>
    cases j with
    | step i => simp only [apply] at h; rw [(moveDone_frame _ _ _).2.2.2.1] at h; exact absurd h hs
    | hash i => simp [apply] at h; exact absurd h hs

theorem step_parkedInv (s : JL) (e : Ev) (h : ParkedInv s) : ParkedInv (step s e) := by
  intro hst
  unfold step settle at hst ⊢
  split at hst
  · rename_i hwait
    rw [if_pos hwait] at ⊢
    by_cases hs : s.status = .waiting
    · have hfresh : decide (e = .start ∧ (s.status = .idle ∨ s.status = .returned)) = false := by
        simp [hs]
      rw [hfresh] at hst ⊢
      simp only [Bool.false_eq_true, if_false] at hst ⊢
      split
      · rename_i hw
        rw [if_pos hw] at hst
        exact settleN_parked _ _ (by have := mu_le { apply s e with wake := false }; simp only at this; omega)
          hwait hst
      · rename_i hw
        exact (apply_parked s e hs (h hs) (by simpa using hw)).1
    · have hfresh := apply_status_waiting s e hs hwait
      have : decide (e = .start ∧ (s.status = .idle ∨ s.status = .returned)) = true := by simpa using hfresh
      rw [this] at hst ⊢
      simp only [if_true] at hst ⊢
      exact settleN_parked _ _ (by have := mu_le (apply s e); omega) hwait hst
  · rename_i hwait
    exact absurd hst hwait

theorem run_parkedInv (njob : Nat) (evs : List Ev) : ParkedInv (run njob evs) := by
  unfold run
  suffices h : ∀ (s : JL), ParkedInv s → ParkedInv (evs.foldl step s) from h _ (by intro h; simp at h)
  induction evs with
  | nil => intro s h; exact h
  | cons e rest ih => intro s h; exact ih _ (step_parkedInv s e h)

end StepupModel.B.JobLoop

namespace StepupModel.B.JobLoop

theorem popHash_none_all_claimed (l : List Nat) : ∀ (s : JL), (popHash s l).2 = none → ∀ i ∈ l, i ∈ s.claimed := by
  induction l with
  | nil => intro s _ i hi; simp at hi
  | cons a rest ih =>
    intro s
    simp only [popHash]
    split
    · rename_i hc
      intro h i hi
      rcases List.mem_cons.mp hi with rfl | hr
      · simpa using hc
      · exact ih s h i hr
    · simp

/-- The pass in which `job_loop` returns has asked the scheduler for a job and got none, with no
task running, no task left to retire and no unclaimed hash job queued (for `njob ≥ 1`, which
`ServeConfig` enforces). -/
theorem iter_ret_polled (s : JL) (hn : 1 ≤ s.njob) (h : (iter s).2 = .ret) :
    (iter s).1.polls = s.polls + 1 ∧ s.offers = [] ∧ s.running = [] ∧ (∀ i ∈ s.queue, i ∈ s.claimed) := by
  have hret := iter_ret s h
  unfold iter at h hret ⊢
  have hf := handleDone_frame s.done.reverse s
  generalize handleDone s s.done.reverse = r at h hret hf
  obtain ⟨s1, b⟩ := r
  obtain ⟨hr, hnj, hq, hc, ho, -, -, hp, -⟩ := hf
  simp only at hr hnj hq hc ho hp
  cases b
  · simp only at h hret ⊢
    by_cases hlt : s1.running.length < s1.njob
    · rw [if_pos hlt] at h hret ⊢
      have hpn := popHash_none_all_claimed s1.queue s1
      have hpf := popHash_frame s1.queue s1
      generalize popHash s1 s1.queue = q at h hret hpn hpf
      obtain ⟨s2, o⟩ := q
      cases o with
      | some i => simp at h
      | none =>
        simp only at h hret ⊢
        obtain ⟨p1, -, -, p4, -, -, -, -, -, -, p11⟩ := hpf
        simp only at p1 p4 p11
        split at h
        · simp at h
        · rename_i heq
          simp only [heq] at hret ⊢
          have t := tail_frame { s2 with polls := s2.polls + 1 }
          have hrun : s2.running = [] := by have := hret.1; rw [t.2.1] at this; exact this
          refine ⟨?_, ?_, ?_, ?_⟩
          · unfold tail; split
            · simp [p11, hp]
            · split <;> simp [p11, hp]
          · rw [← ho, ← p4]; exact List.head?_eq_none_iff.mp heq
          · rw [← hr, ← p1]; exact hrun
          · intro i hi; rw [← hc]; exact hpn rfl i (by rw [hq]; exact hi)
    · exfalso
      rw [if_neg hlt] at hret
      have t := tail_frame s1
      have : s1.running = [] := by have := hret.1; rw [t.2.1] at this; exact this
      rw [this] at hlt; simp at hlt; omega
  · simp at h

end StepupModel.B.JobLoop
