import StepupModel.Lemmas.Acyclic
import StepupModel.Lemmas.StableInst

/-!
# `_update_meta_after`: the worklist for `_implied_need` / `_tail_time` is correct

Everything lives in `namespace StepupModel.K.MetaAfter`.

* Definitions: `AfterLocal` (the cached pair of one step equals `afterValues` now), `AfterConsistent`
  (all attached steps), `CacheInvAfter` (the flag discipline: unflagged attached steps are locally
  correct), `KeysUnique`, `AfterFrame` (two states differ at most in `_implied_need`, `_tail_time`,
  `_check_after`), `ViewFrame` (they agree on what `afterValues` reads besides the cached pairs).
* `afterValues_eq_core`: `afterValues` is a function of the declared need, the regular outputs and the
  cached pairs of the consumers; `afterValues_view` / `afterValues_frame`: the congruence.
* `mem_propagateAfter`, `consumer_written_propagates`: two hops up is dual to two hops down.
* `round_inv`, `afterLoop_correct`, **`updateMetaAfter_correct`**: worklist correctness;
  `updateMetaAfter_frame` (unconditional frame), `updateMetaAfter_keeps` / `updateMetaAfter_untouched`
  (only attached steps get a new pair, only steps lose the flag).
* `afterLoop_terminates`, **`updateMetaAfter_no_hang`**: no `hang` on an acyclic table.
* `acyclic_induction`, `afterConsistent_unique`, **`afterConsistent_unique_general`** (uniqueness of
  the solution; acyclicity is not needed, the tail time is a measure), `recomputeAfter_spec`
  (existence on acyclic tables), `updateMetaAfter_unique_solution(_general)`,
  **`updateMetaAfter_eq_recomputeAfter`** (incremental = from scratch, as an equation of states).
* Need: `implied_ge_declared`, `implied_ge_consumer`, `implied_optional`, `implied_cause`,
  **`implied_closed_form`** (`_implied_need` = maximum of the own needs of the step and of all attached
  steps it transitively feeds), `optional_not_dispatched`, `dispatched_has_reason`.
* Pipeline: `updateMeta_correct`, `updateMeta_no_after_hang`, `popNext_job_eligible`,
  **`popNext_job_has_reason`**; reachable states: `updateMetaAfter_reachable_no_hang`,
  `updateMetaAfter_reachable_correct`.
* Executable forms `afterConsistentB`, `cacheInvAfterB` with their `_iff` lemmas.
* Examples at the end: the hypotheses are satisfiable, and each one is needed.

`CacheInvAfter` is a hypothesis throughout: that the writers of the model flag every step whose
local equation they may break is a separate invariant (the two stale-`_implied_need` defects were
violations of exactly this).
-/
namespace StepupModel.K.MetaAfter

/-! ## Definitions -/

/-- The cached pair of one step equals what `UPDATE_CHECK_AFTER` would compute for it now. -/
def AfterLocal (s : KState) (cfg : KConfig) (n : Node) : Prop :=
  (n.impliedNeed, n.tail) = s.afterValues cfg n

/-- Every attached step satisfies its local equation. -/
def AfterConsistent (s : KState) (cfg : KConfig) : Prop :=
  ∀ n ∈ s.nodes, n.key.kind = .step → n.detached = false → AfterLocal s cfg n

/-- The flag discipline: an attached step whose cached pair may be stale is flagged. -/
def CacheInvAfter (s : KState) (cfg : KConfig) : Prop :=
  ∀ n ∈ s.nodes, n.key.kind = .step → n.detached = false → n.checkAfter = false → AfterLocal s cfg n

/-- One row per key. -/
def KeysUnique (s : KState) : Prop := (s.nodes.map (·.key)).Nodup

/-- The row without the three columns that `_update_meta_after` writes. -/
def eraseAfter (n : Node) : Node := { n with impliedNeed := .default, tail := 0, checkAfter := false }

/-- `s'` differs from `s` at most in `_implied_need`, `_tail_time`, `_check_after` of its rows
(same rows in the same order, same dependency table, same deletion queue). -/
def AfterFrame (s s' : KState) : Prop :=
  s'.deps = s.deps ∧ s'.toBeDeleted = s.toBeDeleted ∧
  s'.nodes.map eraseAfter = s.nodes.map eraseAfter

theorem AfterFrame.refl (s : KState) : AfterFrame s s := ⟨rfl, rfl, rfl⟩

theorem AfterFrame.trans {a b c : KState} (h1 : AfterFrame a b) (h2 : AfterFrame b c) : AfterFrame a c :=
  ⟨h2.1.trans h1.1, h2.2.1.trans h1.2.1, h2.2.2.trans h1.2.2⟩

theorem AfterFrame.symm {a b : KState} (h : AfterFrame a b) : AfterFrame b a :=
  ⟨h.1.symm, h.2.1.symm, h.2.2.symm⟩

/-! ## Rows that agree up to the cached columns -/

theorem eraseAfter_key {n m : Node} (h : eraseAfter n = eraseAfter m) : n.key = m.key := by have := congrArg Node.key h; exact this
theorem eraseAfter_detached {n m : Node} (h : eraseAfter n = eraseAfter m) : n.detached = m.detached := by
  have := congrArg Node.detached h; exact this
theorem eraseAfter_fstate {n m : Node} (h : eraseAfter n = eraseAfter m) : n.fstate = m.fstate := by
  have := congrArg Node.fstate h; exact this
theorem eraseAfter_need {n m : Node} (h : eraseAfter n = eraseAfter m) : n.need = m.need := by
  have := congrArg Node.need h; exact this

/-- A row is determined by its erased form and the three cached columns. -/
theorem eq_of_eraseAfter {n m : Node} (h : eraseAfter n = eraseAfter m) (h1 : n.impliedNeed = m.impliedNeed)
    (h2 : n.tail = m.tail) (h3 : n.checkAfter = m.checkAfter) : n = m := by
  cases n; cases m
  simp only [eraseAfter, Node.mk.injEq] at h
  simp only at h1 h2 h3
  simp only [Node.mk.injEq]
  simp only [h, h1, h2, h3, and_self]

/-! ## `find?` -/

theorem find_key {s : KState} {k : Key} {n : Node} (h : s.find? k = some n) : n.key = k := by
  have := List.find?_some h
  simpa using this

theorem find_mem {s : KState} {k : Key} {n : Node} (h : s.find? k = some n) : n ∈ s.nodes :=
  List.mem_of_find?_eq_some h

theorem find?_list_of_mem {l : List Node} (hn : (l.map (·.key)).Nodup) {n : Node} (h : n ∈ l) :
    l.find? (·.key = n.key) = some n := by
  induction l with
  | nil => cases h
  | cons a l ih =>
    simp only [List.map_cons, List.nodup_cons] at hn
    by_cases ha : a.key = n.key
    · rw [List.find?_cons_of_pos (by simpa using ha)]
      rcases List.mem_cons.1 h with rfl | h'
      · rfl
      · exact absurd (ha ▸ List.mem_map.2 ⟨n, h', rfl⟩) hn.1
    · rw [List.find?_cons_of_neg (by simpa using ha)]
      rcases List.mem_cons.1 h with rfl | h'
      · exact absurd rfl ha
      · exact ih hn.2 h'

theorem find?_of_mem {s : KState} (hk : KeysUnique s) {n : Node} (h : n ∈ s.nodes) : s.find? n.key = some n :=
  find?_list_of_mem hk h

theorem find?_frame {s s' : KState} (hf : AfterFrame s s') (k : Key) :
    (s'.find? k).map eraseAfter = (s.find? k).map eraseAfter := by
  have h1 : ∀ (l : List Node), (l.find? (·.key = k)).map eraseAfter =
      (l.map eraseAfter).find? (·.key = k) := by
    intro l; rw [List.find?_map]; rfl
  unfold KState.find?
  rw [h1, h1, hf.2.2]

theorem find?_frame_some {s s' : KState} (hf : AfterFrame s s') {k : Key} {n : Node} (h : s.find? k = some n) :
    ∃ n', s'.find? k = some n' ∧ eraseAfter n' = eraseAfter n := by
  have := find?_frame hf k
  rw [h] at this
  cases h' : s'.find? k with
  | none => rw [h'] at this; cases this
  | some n' => rw [h'] at this; exact ⟨n', rfl, by simpa using this⟩

theorem find?_frame_none {s s' : KState} (hf : AfterFrame s s') {k : Key} (h : s.find? k = none) :
    s'.find? k = none := by
  have := find?_frame hf k
  rw [h] at this
  cases h' : s'.find? k with
  | none => rfl
  | some n' => rw [h'] at this; cases this

theorem keysUnique_frame {s s' : KState} (hf : AfterFrame s s') (hk : KeysUnique s) : KeysUnique s' := by
  have h : ∀ (l : List Node), l.map (·.key) = (l.map eraseAfter).map (·.key) := by
    intro l; rw [List.map_map]; rfl
  unfold KeysUnique at *
  rw [h, hf.2.2, ← h]; exact hk

/-- Corresponding rows of two framed states (unique keys): same key, same erased form. -/
theorem frame_rows {s s' : KState} (hf : AfterFrame s s') (hk : KeysUnique s) {n n' : Node}
    (hn : n ∈ s.nodes) (hn' : n' ∈ s'.nodes) (hkey : n'.key = n.key) : eraseAfter n' = eraseAfter n := by
  obtain ⟨m, hm, he⟩ := find?_frame_some hf (find?_of_mem hk hn)
  have := find?_of_mem (keysUnique_frame hf hk) hn'
  rw [hkey, hm] at this
  cases this; exact he

/-! ## Pointwise rewriting of the rows -/

theorem frame_mapNodes (s : KState) (g : Node → Node) (hg : ∀ n, eraseAfter (g n) = eraseAfter n) :
    AfterFrame s { s with nodes := s.nodes.map g } := by
  refine ⟨rfl, rfl, ?_⟩
  simp only [List.map_map]
  exact List.map_congr_left fun n _ => hg n

theorem find?_mapNodes (s : KState) (g : Node → Node) (hg : ∀ n, (g n).key = n.key) (k : Key) :
    ({ s with nodes := s.nodes.map g } : KState).find? k = (s.find? k).map g := by
  unfold KState.find?
  simp only
  rw [List.find?_map]
  congr 2
  funext n
  simp only [Function.comp, hg]

/-! ## The columns that `afterValues` reads besides the cached pairs -/

/-- Key, `detached`, file state and declared need of a row. -/
def afterView (n : Node) : Key × Bool × FileState × Need := (n.key, n.detached, n.fstate, n.need)

/-- Same dependency table, and the rows agree, in order, on `afterView`. -/
def ViewFrame (s s' : KState) : Prop :=
  s'.deps = s.deps ∧ s'.nodes.map afterView = s.nodes.map afterView

theorem view_key {n m : Node} (h : afterView n = afterView m) : n.key = m.key := by
  have := congrArg (·.1) h; exact this
theorem view_detached {n m : Node} (h : afterView n = afterView m) : n.detached = m.detached := by
  have := congrArg (·.2.1) h; exact this
theorem view_fstate {n m : Node} (h : afterView n = afterView m) : n.fstate = m.fstate := by
  have := congrArg (·.2.2.1) h; exact this
theorem view_need {n m : Node} (h : afterView n = afterView m) : n.need = m.need := by
  have := congrArg (·.2.2.2) h; exact this

theorem eraseAfter_view {n m : Node} (h : eraseAfter n = eraseAfter m) : afterView n = afterView m := by
  have := congrArg afterView h; exact this

theorem AfterFrame.view {s s' : KState} (h : AfterFrame s s') : ViewFrame s s' := by
  refine ⟨h.1, ?_⟩
  have := congrArg (List.map afterView) h.2.2
  simp only [List.map_map] at this
  exact this

theorem ViewFrame.refl (s : KState) : ViewFrame s s := ⟨rfl, rfl⟩

theorem ViewFrame.trans {a b c : KState} (h1 : ViewFrame a b) (h2 : ViewFrame b c) : ViewFrame a c :=
  ⟨h2.1.trans h1.1, h2.2.trans h1.2⟩

theorem find?_view {s s' : KState} (hf : ViewFrame s s') (k : Key) :
    (s'.find? k).map afterView = (s.find? k).map afterView := by
  have h1 : ∀ (l : List Node), (l.find? (·.key = k)).map afterView =
      (l.map afterView).find? (fun v => v.1 = k) := by
    intro l; rw [List.find?_map]; rfl
  unfold KState.find?
  rw [h1, h1, hf.2]

theorem find?_view_some {s s' : KState} (hf : ViewFrame s s') {k : Key} {n : Node} (h : s.find? k = some n) :
    ∃ n', s'.find? k = some n' ∧ afterView n' = afterView n := by
  have := find?_view hf k
  rw [h] at this
  cases h' : s'.find? k with
  | none => rw [h'] at this; cases this
  | some n' => rw [h'] at this; exact ⟨n', rfl, by simpa using this⟩

theorem find?_view_none {s s' : KState} (hf : ViewFrame s s') {k : Key} (h : s.find? k = none) :
    s'.find? k = none := by
  have := find?_view hf k
  rw [h] at this
  cases h' : s'.find? k with
  | none => rfl
  | some n' => rw [h'] at this; cases this

theorem keysUnique_view {s s' : KState} (hf : ViewFrame s s') (hk : KeysUnique s) : KeysUnique s' := by
  have h : ∀ (l : List Node), l.map (·.key) = (l.map afterView).map (·.1) := by
    intro l; rw [List.map_map]; rfl
  unfold KeysUnique at *
  rw [h, hf.2, ← h]; exact hk

theorem view_mapNodes (s : KState) (g : Node → Node) (hg : ∀ n, afterView (g n) = afterView n) :
    ViewFrame s { s with nodes := s.nodes.map g } := by
  refine ⟨rfl, ?_⟩
  simp only [List.map_map]
  exact List.map_congr_left fun n _ => hg n

/-! ## What `afterValues` reads -/

/-- `UPDATE_CHECK_AFTER` for one step as a function of its declared need, its regular outputs and
the cached pairs of its consumers. -/
def afterCore (cfg : KConfig) (need : Need) (outs : List String) (cons : List (Need × Nat)) : Need × Nat :=
  let targetTerm : Need :=
    if outs.any cfg.targets.contains then .target
    else if need = .default ∧ outs.any (fun o => cfg.targetDirs.any fun d => underDir d o) then .target
    else .optional
  (cons.foldl (fun acc m => acc.max m.1) (need.max targetTerm), 1 + cons.foldl (fun acc m => Nat.max acc m.2) 0)

/-- The cached pairs of the consumers of `k`, in the order of the join. -/
def consumerPairs (s : KState) (k : Key) : List (Need × Nat) :=
  (s.consumerSteps k).map fun m => (m.impliedNeed, m.tail)

theorem afterValues_eq_core (s : KState) (cfg : KConfig) (n : Node) :
    s.afterValues cfg n = afterCore cfg n.need (s.regularOutputs n.key) (consumerPairs s n.key) := by
  unfold KState.afterValues afterCore consumerPairs
  simp only [List.foldl_map]

theorem filterMap_congr' {α β : Type} {f g : α → Option β} {l : List α} (h : ∀ x ∈ l, f x = g x) :
    l.filterMap f = l.filterMap g := by
  induction l with
  | nil => rfl
  | cons a l ih =>
    simp only [List.filterMap_cons, h a List.mem_cons_self]
    rw [ih fun x hx => h x (List.mem_cons_of_mem _ hx)]

theorem regularOutputs_view {s s' : KState} (hf : ViewFrame s s') (k : Key) :
    s'.regularOutputs k = s.regularOutputs k := by
  unfold KState.regularOutputs KState.sinksOf
  rw [hf.1]
  apply filterMap_congr'
  intro c _
  cases h : s.find? c with
  | none => rw [find?_view_none hf h]
  | some n =>
    obtain ⟨n', hn', he⟩ := find?_view_some hf h
    rw [hn']
    simp only [view_key he, view_fstate he, view_detached he]

theorem regularOutputs_frame {s s' : KState} (hf : AfterFrame s s') (k : Key) :
    s'.regularOutputs k = s.regularOutputs k := regularOutputs_view hf.view k

theorem mem_consumerSteps {s : KState} {k : Key} {m : Node} :
    m ∈ s.consumerSteps k ↔ ∃ f ∈ s.sinksOf k, ∃ c ∈ s.sinksOf f,
      s.find? c = some m ∧ m.key.kind = .step ∧ m.detached = false := by
  unfold KState.consumerSteps
  rw [List.mem_filterMap]
  constructor
  · rintro ⟨c, hc, h⟩
    obtain ⟨f, hf, hc⟩ := List.mem_flatMap.1 hc
    refine ⟨f, hf, c, hc, ?_⟩
    cases hm : s.find? c with
    | none => rw [hm] at h; cases h
    | some m' =>
      rw [hm] at h
      simp only at h
      split at h
      · rename_i hh
        cases h
        exact ⟨rfl, hh.1, by simpa using hh.2⟩
      · cases h
  · rintro ⟨f, hf, c, hc, hm, h1, h2⟩
    refine ⟨c, List.mem_flatMap.2 ⟨f, hf, hc⟩, ?_⟩
    rw [hm]
    simp only [h1, h2, Bool.not_false, and_self, if_true]

/-- The consumer pairs agree as soon as the attached consumer steps carry the same cached pair. -/
theorem consumerPairs_view {s s' : KState} (hf : ViewFrame s s') (k : Key)
    (h : ∀ m ∈ s.consumerSteps k, ∀ m', s'.find? m.key = some m' →
      m'.impliedNeed = m.impliedNeed ∧ m'.tail = m.tail) :
    consumerPairs s' k = consumerPairs s k := by
  unfold consumerPairs
  have hmem := @mem_consumerSteps s k
  unfold KState.consumerSteps at hmem ⊢
  rw [List.map_filterMap, List.map_filterMap]
  unfold KState.sinksOf at hmem ⊢
  rw [hf.1]
  apply filterMap_congr'
  intro c hc
  obtain ⟨f, hf1, hc1⟩ := List.mem_flatMap.1 hc
  cases hm : s.find? c with
  | none => rw [find?_view_none hf hm]
  | some m =>
    obtain ⟨m', hm', he⟩ := find?_view_some hf hm
    rw [hm']
    simp only [view_key he, view_detached he]
    by_cases hh : m.key.kind = Kind.step ∧ (!m.detached) = true
    · rw [if_pos hh, if_pos hh]
      have hmc : m ∈ List.filterMap (fun c => match s.find? c with
          | some m => if m.key.kind = Kind.step ∧ (!m.detached) = true then some m else none
          | none => none)
          (List.flatMap (fun k => List.map (fun x => x.snk) (List.filter (fun x => decide (x.src = k)) s.deps))
            (List.map (fun x => x.snk) (List.filter (fun x => decide (x.src = k)) s.deps))) :=
        hmem.2 ⟨f, hf1, c, hc1, hm, hh.1, by simpa using hh.2⟩
      have := h m hmc m' (by rw [find_key hm]; exact hm')
      simp only [Option.map_some, this.1, this.2]
    · rw [if_neg hh, if_neg hh]

theorem afterValues_view {s s' : KState} (hf : ViewFrame s s') (cfg : KConfig) {n n' : Node}
    (he : afterView n' = afterView n)
    (h : ∀ m ∈ s.consumerSteps n.key, ∀ m', s'.find? m.key = some m' →
      m'.impliedNeed = m.impliedNeed ∧ m'.tail = m.tail) :
    s'.afterValues cfg n' = s.afterValues cfg n := by
  rw [afterValues_eq_core, afterValues_eq_core, view_need he, view_key he,
    regularOutputs_view hf, consumerPairs_view hf _ h]

theorem consumerPairs_frame {s s' : KState} (hf : AfterFrame s s') (k : Key)
    (h : ∀ m ∈ s.consumerSteps k, ∀ m', s'.find? m.key = some m' →
      m'.impliedNeed = m.impliedNeed ∧ m'.tail = m.tail) :
    consumerPairs s' k = consumerPairs s k := consumerPairs_view hf.view k h

theorem afterValues_frame {s s' : KState} (hf : AfterFrame s s') (cfg : KConfig) {n n' : Node}
    (he : eraseAfter n' = eraseAfter n)
    (h : ∀ m ∈ s.consumerSteps n.key, ∀ m', s'.find? m.key = some m' →
      m'.impliedNeed = m.impliedNeed ∧ m'.tail = m.tail) :
    s'.afterValues cfg n' = s.afterValues cfg n := afterValues_view hf.view cfg (eraseAfter_view he) h

/-! ## Two hops down, two hops up -/

theorem mem_sinksOf {s : KState} {a b : Key} : b ∈ s.sinksOf a ↔ Edge s.deps a b := by
  unfold KState.sinksOf Edge
  simp only [List.mem_map, List.mem_filter, decide_eq_true_eq]
  constructor
  · rintro ⟨d, ⟨hd, h1⟩, h2⟩; exact ⟨d, hd, h1, h2⟩
  · rintro ⟨d, hd, h1, h2⟩; exact ⟨d, ⟨hd, h1⟩, h2⟩

theorem mem_sourcesOf {s : KState} {a b : Key} : a ∈ s.sourcesOf b ↔ Edge s.deps a b := by
  unfold KState.sourcesOf Edge
  simp only [List.mem_map, List.mem_filter, decide_eq_true_eq]
  constructor
  · rintro ⟨d, ⟨hd, h1⟩, h2⟩; exact ⟨d, hd, h2, h1⟩
  · rintro ⟨d, hd, h1, h2⟩; exact ⟨d, ⟨hd, h2⟩, h1⟩

theorem mem_dedupKeys {l : List Key} {x : Key} : x ∈ dedupKeys l ↔ x ∈ l := by
  induction l with
  | nil => simp [dedupKeys]
  | cons k ks ih =>
    unfold dedupKeys
    by_cases hc : ks.contains k = true
    · rw [if_pos hc, ih, List.mem_cons]
      constructor
      · exact Or.inr
      · rintro (rfl | h)
        · simpa using hc
        · exact h
    · rw [if_neg hc, List.mem_cons, List.mem_cons, ih]

/-- `PROPAGATE_CHECK_AFTER` lists exactly the attached steps with a two-edge chain into a changed key. -/
theorem mem_propagateAfter {s : KState} {changed : List Key} {k : Key} :
    k ∈ s.propagateAfter changed ↔
      (∃ c ∈ changed, ∃ f, Edge s.deps k f ∧ Edge s.deps f c) ∧
      ∃ n, s.find? k = some n ∧ n.key.kind = .step ∧ n.detached = false := by
  unfold KState.propagateAfter
  simp only [List.mem_filter, mem_dedupKeys, List.mem_flatMap, mem_sourcesOf]
  constructor
  · rintro ⟨⟨f, ⟨c, hc, hfc⟩, hkf⟩, hn⟩
    refine ⟨⟨c, hc, f, hkf, hfc⟩, ?_⟩
    cases hm : s.find? k with
    | none => rw [hm] at hn; simp at hn
    | some n =>
      rw [hm] at hn
      simp only [Bool.not_eq_eq_eq_not, Bool.not_true, decide_eq_true_eq] at hn
      exact ⟨n, rfl, hn.1, hn.2⟩
  · rintro ⟨⟨c, hc, f, hkf, hfc⟩, n, hn, h1, h2⟩
    refine ⟨⟨f, ⟨c, hc, hfc⟩, hkf⟩, ?_⟩
    rw [hn]
    simp [h1, h2]

/-- The duality behind the worklist: a written consumer puts the producer on the next work set. -/
theorem consumer_written_propagates {s : KState} {n m : Node} {changed : List Key}
    (hn : s.find? n.key = some n) (hs : n.key.kind = .step) (hd : n.detached = false)
    (hm : m ∈ s.consumerSteps n.key) (hw : m.key ∈ changed) : n.key ∈ s.propagateAfter changed := by
  obtain ⟨f, hf, c, hc, hfind, _, _⟩ := mem_consumerSteps.1 hm
  rw [mem_propagateAfter]
  refine ⟨⟨m.key, hw, f, mem_sinksOf.1 hf, ?_⟩, n, hn, hs, hd⟩
  rw [find_key hfind]; exact mem_sinksOf.1 hc

/-! ## One round -/

/-- The row function of `applyAfterUpdates`. -/
def applyG (u : List (Key × Need × Nat)) (n : Node) : Node :=
  if u.any (·.1 = n.key) then
    match u.find? (·.1 = n.key) with
    | some (_, need, tail) => { n with impliedNeed := need, tail := tail }
    | none => n
  else n

theorem applyAfterUpdates_eq (s : KState) (u : List (Key × Need × Nat)) :
    s.applyAfterUpdates u = { s with nodes := s.nodes.map (applyG u) } := rfl

theorem applyG_erase (u : List (Key × Need × Nat)) (n : Node) : eraseAfter (applyG u n) = eraseAfter n := by
  unfold applyG
  split
  · split
    · rfl
    · rfl
  · rfl

theorem applyG_key (u : List (Key × Need × Nat)) (n : Node) : (applyG u n).key = n.key :=
  eraseAfter_key (applyG_erase u n)

theorem applyG_not_written {u : List (Key × Need × Nat)} {n : Node} (h : n.key ∉ u.map (·.1)) :
    applyG u n = n := by
  unfold applyG
  rw [if_neg]
  intro hc
  apply h
  rw [List.any_eq_true] at hc
  obtain ⟨e, he, h1⟩ := hc
  exact List.mem_map.2 ⟨e, he, by simpa using h1⟩

theorem applyG_written {u : List (Key × Need × Nat)} {n : Node} (h : n.key ∈ u.map (·.1)) :
    ∃ need tail, (n.key, need, tail) ∈ u ∧ applyG u n = { n with impliedNeed := need, tail := tail } := by
  obtain ⟨e, he, h1⟩ := List.mem_map.1 h
  have hany : u.any (·.1 = n.key) = true := List.any_eq_true.2 ⟨e, he, by simpa using h1⟩
  unfold applyG
  rw [if_pos hany]
  cases hf : u.find? (·.1 = n.key) with
  | none =>
    have := List.find?_eq_none.1 hf e he
    exact absurd (by simpa using h1) this
  | some e' =>
    obtain ⟨k', need, tail⟩ := e'
    have hk' : k' = n.key := by simpa using List.find?_some hf
    refine ⟨need, tail, ?_, rfl⟩
    rw [← hk']; exact List.mem_of_find?_eq_some hf

theorem mem_afterUpdates {s : KState} {cfg : KConfig} {work : List Key} {first : Bool} {k : Key} {need : Need}
    {tail : Nat} (h : (k, need, tail) ∈ s.afterUpdates cfg work first) :
    k ∈ work ∧ ∃ n, s.find? k = some n ∧ (need, tail) = s.afterValues cfg n := by
  unfold KState.afterUpdates at h
  obtain ⟨k', hk', h⟩ := List.mem_filterMap.1 h
  cases hf : s.find? k' with
  | none => rw [hf] at h; cases h
  | some n =>
    rw [hf] at h
    simp only at h
    cases hv : s.afterValues cfg n with
    | mk nd tl =>
      rw [hv] at h
      simp only at h
      split at h
      · simp only [Option.some.injEq, Prod.mk.injEq] at h
        obtain ⟨rfl, rfl, rfl⟩ := h
        exact ⟨hk', n, hf, hv.symm⟩
      · cases h

theorem not_written_local {s : KState} {cfg : KConfig} {work : List Key} {first : Bool} {k : Key} {n : Node}
    (hk : k ∈ work) (hf : s.find? k = some n) (hn : k ∉ (s.afterUpdates cfg work first).map (·.1)) :
    (n.impliedNeed, n.tail) = s.afterValues cfg n := by
  cases hv : s.afterValues cfg n with
  | mk nd tl =>
    by_cases hc : first = true ∨ nd ≠ n.impliedNeed ∨ tl ≠ n.tail
    · exfalso
      apply hn
      refine List.mem_map.2 ⟨(k, nd, tl), ?_, rfl⟩
      unfold KState.afterUpdates
      refine List.mem_filterMap.2 ⟨k, hk, ?_⟩
      rw [hf]
      simp only [hv]
      rw [if_pos hc]
    · have h1 : nd = n.impliedNeed := Classical.byContradiction fun h => hc (.inr (.inl h))
      have h2 : tl = n.tail := Classical.byContradiction fun h => hc (.inr (.inr h))
      rw [h1, h2]

/-- The loop invariant: every attached step outside the work set satisfies its local equation. -/
def LoopInv (s : KState) (cfg : KConfig) (work : List Key) : Prop :=
  ∀ n ∈ s.nodes, n.key.kind = .step → n.detached = false → n.key ∉ work → AfterLocal s cfg n

/-- **One round of the worklist keeps the invariant.** -/
theorem round_inv (s : KState) (cfg : KConfig) (work : List Key) (first : Bool) (hk : KeysUnique s)
    (hI : LoopInv s cfg work) :
    LoopInv (s.applyAfterUpdates (s.afterUpdates cfg work first)) cfg
      ((s.applyAfterUpdates (s.afterUpdates cfg work first)).propagateAfter
        ((s.afterUpdates cfg work first).map (·.1))) := by
  generalize hu : s.afterUpdates cfg work first = u
  rw [applyAfterUpdates_eq]
  have hfr : AfterFrame s { s with nodes := s.nodes.map (applyG u) } := frame_mapNodes s _ (applyG_erase u)
  have hfind : ∀ k, ({ s with nodes := s.nodes.map (applyG u) } : KState).find? k = (s.find? k).map (applyG u) :=
    find?_mapNodes s _ (applyG_key u)
  intro n' hn' hstep hatt hnw
  obtain ⟨n, hn, rfl⟩ := List.mem_map.1 hn'
  have hkey := applyG_key u n
  have hstep0 : n.key.kind = .step := by rw [← hkey]; exact hstep
  have hatt0 : n.detached = false := by rw [← eraseAfter_detached (applyG_erase u n)]; exact hatt
  have hself := find?_of_mem hk hn
  by_cases hA : ∃ m ∈ s.consumerSteps n.key, m.key ∈ u.map (·.1)
  · exfalso
    apply hnw
    obtain ⟨m, hm, hw⟩ := hA
    obtain ⟨f, hf, c, hc, hfm, _, _⟩ := mem_consumerSteps.1 hm
    rw [mem_propagateAfter]
    refine ⟨⟨m.key, hw, f, ?_, ?_⟩, applyG u n, ?_, hstep, hatt⟩
    · rw [hkey]; exact mem_sinksOf.1 hf
    · rw [find_key hfm]; exact mem_sinksOf.1 hc
    · rw [hfind, hkey, hself]; rfl
  · have hB : ∀ m ∈ s.consumerSteps n.key, m.key ∉ u.map (·.1) := fun m hm hw => hA ⟨m, hm, hw⟩
    have hval : ({ s with nodes := s.nodes.map (applyG u) } : KState).afterValues cfg (applyG u n) =
        s.afterValues cfg n := by
      apply afterValues_frame hfr cfg (applyG_erase u n)
      intro m hm m' hm'
      obtain ⟨f, hf, c, hc, hfm, _, _⟩ := mem_consumerSteps.1 hm
      have hmm : s.find? m.key = some m := by rw [find_key hfm]; exact hfm
      rw [hfind, hmm] at hm'
      simp only [Option.map_some, Option.some.injEq] at hm'
      rw [← hm', applyG_not_written (hB m hm)]
      exact ⟨rfl, rfl⟩
    unfold AfterLocal
    rw [hval]
    by_cases hw : n.key ∈ u.map (·.1)
    · obtain ⟨need, tail, hmem, heq⟩ := applyG_written hw
      rw [heq]
      simp only
      rw [← hu] at hmem
      obtain ⟨_, n0, hf0, hv⟩ := mem_afterUpdates hmem
      rw [hself] at hf0
      cases hf0
      exact hv
    · rw [applyG_not_written hw]
      by_cases hin : n.key ∈ work
      · rw [← hu] at hw
        exact not_written_local hin hself hw
      · exact hI n hn hstep0 hatt0 hin


theorem keysUnique_applyAfterUpdates (s : KState) (u : List (Key × Need × Nat)) (hk : KeysUnique s) :
    KeysUnique (s.applyAfterUpdates u) := by
  rw [applyAfterUpdates_eq]
  exact keysUnique_frame (frame_mapNodes s _ (applyG_erase u)) hk

theorem frame_applyAfterUpdates (s : KState) (u : List (Key × Need × Nat)) :
    AfterFrame s (s.applyAfterUpdates u) := by
  rw [applyAfterUpdates_eq]
  exact frame_mapNodes s _ (applyG_erase u)

theorem loopInv_nil {s : KState} {cfg : KConfig} (h : LoopInv s cfg []) : AfterConsistent s cfg :=
  fun n hn h1 h2 => h n hn h1 h2 List.not_mem_nil

/-- **The loop**: from the invariant, whatever the fuel, a result satisfies every local equation and
differs from the start only in the cached columns. -/
theorem afterLoop_correct (cfg : KConfig) (fuel : Nat) (s s' : KState) (work : List Key) (first : Bool)
    (hk : KeysUnique s) (hI : LoopInv s cfg work) (h : KState.afterLoop cfg fuel s work first = some s') :
    AfterConsistent s' cfg ∧ AfterFrame s s' := by
  induction fuel generalizing s work first with
  | zero =>
    unfold KState.afterLoop at h
    split at h
    · rename_i he
      simp only [Option.some.injEq] at h; subst h
      rw [List.isEmpty_iff] at he; subst he
      exact ⟨loopInv_nil hI, AfterFrame.refl _⟩
    · cases h
  | succ fuel ih =>
    unfold KState.afterLoop at h
    split at h
    · rename_i he
      simp only [Option.some.injEq] at h; subst h
      rw [List.isEmpty_iff] at he; subst he
      exact ⟨loopInv_nil hI, AfterFrame.refl _⟩
    · have := ih _ _ _ (keysUnique_applyAfterUpdates s _ hk) (round_inv s cfg work first hk hI) h
      exact ⟨this.1, (frame_applyAfterUpdates s _).trans this.2⟩

/-- Rewriting rows without touching what `afterValues` reads keeps every local equation. -/
theorem afterLocal_mapNodes_view (s : KState) (cfg : KConfig) (g : Node → Node)
    (hg : ∀ n, afterView (g n) = afterView n) (h1 : ∀ n, (g n).impliedNeed = n.impliedNeed)
    (h2 : ∀ n, (g n).tail = n.tail) (n : Node) :
    AfterLocal { s with nodes := s.nodes.map g } cfg (g n) ↔ AfterLocal s cfg n := by
  have hfr := view_mapNodes s g hg
  have hfind := find?_mapNodes s g (fun n => view_key (hg n))
  have hval : ({ s with nodes := s.nodes.map g } : KState).afterValues cfg (g n) = s.afterValues cfg n := by
    apply afterValues_view hfr cfg (hg n)
    intro m hm m' hm'
    obtain ⟨f, hf, c, hc, hfm, _, _⟩ := mem_consumerSteps.1 hm
    have hmm : s.find? m.key = some m := by rw [find_key hfm]; exact hfm
    rw [hfind, hmm] at hm'
    simp only [Option.map_some, Option.some.injEq] at hm'
    rw [← hm']
    exact ⟨h1 m, h2 m⟩
  unfold AfterLocal
  rw [hval, h1, h2]

theorem afterConsistent_mapNodes_view (s : KState) (cfg : KConfig) (g : Node → Node)
    (hg : ∀ n, afterView (g n) = afterView n) (h1 : ∀ n, (g n).impliedNeed = n.impliedNeed)
    (h2 : ∀ n, (g n).tail = n.tail) (h : AfterConsistent s cfg) :
    AfterConsistent { s with nodes := s.nodes.map g } cfg := by
  intro n' hn' hstep hatt
  obtain ⟨n, hn, rfl⟩ := List.mem_map.1 hn'
  rw [afterLocal_mapNodes_view s cfg g hg h1 h2]
  refine h n hn ?_ ?_
  · rw [← view_key (hg n)]; exact hstep
  · rw [← view_detached (hg n)]; exact hatt

theorem cacheInv_mapNodes_view (s : KState) (cfg : KConfig) (g : Node → Node)
    (hg : ∀ n, afterView (g n) = afterView n) (h1 : ∀ n, (g n).impliedNeed = n.impliedNeed)
    (h2 : ∀ n, (g n).tail = n.tail) (h3 : ∀ n, (g n).checkAfter = n.checkAfter) (h : CacheInvAfter s cfg) :
    CacheInvAfter { s with nodes := s.nodes.map g } cfg := by
  intro n' hn' hstep hatt hflag
  obtain ⟨n, hn, rfl⟩ := List.mem_map.1 hn'
  rw [afterLocal_mapNodes_view s cfg g hg h1 h2]
  refine h n hn ?_ ?_ ?_
  · rw [← view_key (hg n)]; exact hstep
  · rw [← view_detached (hg n)]; exact hatt
  · rw [← h3 n]; exact hflag

/-- Rewriting rows without touching anything but `_check_after` keeps every local equation. -/
theorem afterConsistent_mapNodes (s : KState) (cfg : KConfig) (g : Node → Node)
    (hg : ∀ n, eraseAfter (g n) = eraseAfter n) (h1 : ∀ n, (g n).impliedNeed = n.impliedNeed)
    (h2 : ∀ n, (g n).tail = n.tail) (h : AfterConsistent s cfg) :
    AfterConsistent { s with nodes := s.nodes.map g } cfg :=
  afterConsistent_mapNodes_view s cfg g (fun n => eraseAfter_view (hg n)) h1 h2 h

/-- **Worklist correctness of `_update_meta_after`.**  If every attached step that is not flagged
`_check_after` satisfies its local equation and keys are unique, then after a successful run every
attached step satisfies its local equation, no step is flagged, and nothing but the three cached
columns has changed. -/
theorem updateMetaAfter_correct (s s' : KState) (cfg : KConfig) (hk : KeysUnique s) (hc : CacheInvAfter s cfg)
    (h : s.updateMetaAfter cfg = .ok s') :
    AfterConsistent s' cfg ∧ (∀ n ∈ s'.nodes, n.key.kind = .step → n.checkAfter = false) ∧ AfterFrame s s' := by
  unfold KState.updateMetaAfter at h
  split at h
  · rename_i hno
    simp only [pure, Except.pure, Except.ok.injEq] at h; subst h
    have hflag : ∀ n ∈ s.nodes, n.key.kind = .step → n.checkAfter = false := by
      intro n hn hs
      cases hf : n.checkAfter with
      | false => rfl
      | true =>
        have : (s.nodes.any fun n => n.key.kind = .step ∧ n.checkAfter) = true :=
          List.any_eq_true.2 ⟨n, hn, by simp [hs, hf]⟩
        rw [this] at hno; cases hno
    exact ⟨fun n hn h1 h2 => hc n hn h1 h2 (hflag n hn h1), hflag, AfterFrame.refl _⟩
  · dsimp only at h
    split at h
    · rename_i st hst
      simp only [pure, Except.pure, Except.ok.injEq] at h; subst h
      have hI : LoopInv s cfg ((s.nodes.filter fun n => n.key.kind = .step ∧ !n.detached ∧ n.checkAfter).map (·.key)) := by
        intro n hn h1 h2 hnw
        apply hc n hn h1 h2
        cases hf : n.checkAfter with
        | false => rfl
        | true =>
          exfalso; apply hnw
          exact List.mem_map.2 ⟨n, List.mem_filter.2 ⟨hn, by simp [h1, h2, hf]⟩, rfl⟩
      obtain ⟨hcons, hfr⟩ := afterLoop_correct cfg _ s st _ _ hk hI hst
      have hg : ∀ n : Node, eraseAfter (if (decide (n.key.kind = Kind.step)) = true then { n with checkAfter := false } else n)
          = eraseAfter n := by
        intro n; split <;> rfl
      refine ⟨?_, ?_, hfr.trans ?_⟩
      · refine afterConsistent_mapNodes st cfg _ hg ?_ ?_ hcons
        · intro n; split <;> rfl
        · intro n; split <;> rfl
      · intro n hn hs
        unfold KState.modifyWhere at hn
        obtain ⟨m, _, rfl⟩ := List.mem_map.1 hn
        by_cases hm : m.key.kind = Kind.step
        · simp only [hm, decide_true, if_true]
        · simp only [hm, decide_false, Bool.false_eq_true, if_false] at hs
      · exact frame_mapNodes st _ hg
    · cases h


/-! ## Termination on acyclic graphs -/

theorem length_le_of_nodup_subset {l l' : List Key} (hn : l.Nodup) (hs : ∀ x ∈ l, x ∈ l') :
    l.length ≤ l'.length := by
  induction l generalizing l' with
  | nil => exact Nat.zero_le _
  | cons a t ih =>
    rw [List.nodup_cons] at hn
    have ha : a ∈ l' := hs a List.mem_cons_self
    have ht : ∀ x ∈ t, x ∈ l'.erase a := by
      intro x hx
      have hne : x ≠ a := fun h => hn.1 (h ▸ hx)
      exact (List.mem_erase_of_ne hne).2 (hs x (List.mem_cons_of_mem _ hx))
    have h1 := ih hn.2 ht
    rw [List.length_erase_of_mem ha] at h1
    have h2 : 0 < l'.length := List.length_pos_of_mem ha
    simp only [List.length_cons]
    omega

/-- In an acyclic table the members of a chain (every element reaches all later ones) are distinct. -/
theorem chain_nodup {deps : List Dep} (hac : AcyclicDeps deps) {c : List Key} (h : c.Pairwise (Path deps)) :
    c.Nodup :=
  List.Pairwise.imp (fun {a b} (p : Path deps a b) (hab : a = b) => hac a (hab ▸ p)) h

/-- Every key of the work set heads a chain of `r + 1` row keys. -/
def WorkDepth (deps : List Dep) (keys : List Key) (r : Nat) (work : List Key) : Prop :=
  ∀ k ∈ work, ∃ c : List Key, c.length = r ∧ (k :: c).Pairwise (Path deps) ∧ ∀ x ∈ k :: c, x ∈ keys

theorem workDepth_bound {deps : List Dep} {keys : List Key} {r : Nat} {work : List Key}
    (hac : AcyclicDeps deps) (h : WorkDepth deps keys r work) (hne : work ≠ []) : r + 1 ≤ keys.length := by
  cases work with
  | nil => exact absurd rfl hne
  | cons k w =>
    obtain ⟨c, hc, hp, hsub⟩ := h k List.mem_cons_self
    have := length_le_of_nodup_subset (chain_nodup hac hp) hsub
    simp only [List.length_cons, hc] at this
    exact this

theorem keys_applyAfterUpdates (s : KState) (u : List (Key × Need × Nat)) :
    (s.applyAfterUpdates u).nodes.map (·.key) = s.nodes.map (·.key) := by
  rw [applyAfterUpdates_eq]
  simp only [List.map_map]
  exact List.map_congr_left fun n _ => applyG_key u n

/-- The work set of the next round sits two edges above the current one. -/
theorem workDepth_round (s : KState) (cfg : KConfig) (work : List Key) (first : Bool) (r : Nat)
    (h : WorkDepth s.deps (s.nodes.map (·.key)) r work) :
    WorkDepth s.deps (s.nodes.map (·.key)) (r + 1)
      ((s.applyAfterUpdates (s.afterUpdates cfg work first)).propagateAfter
        ((s.afterUpdates cfg work first).map (·.1))) := by
  intro k' hk'
  obtain ⟨⟨c, hc, f, e1, e2⟩, n, hn, _, _⟩ := mem_propagateAfter.1 hk'
  rw [(frame_applyAfterUpdates s _).1] at e1 e2
  obtain ⟨e, he, rfl⟩ := List.mem_map.1 hc
  obtain ⟨k, need, tail⟩ := e
  obtain ⟨hkw, _⟩ := mem_afterUpdates he
  obtain ⟨ch, hlen, hp, hsub⟩ := h k hkw
  have p : Path s.deps k' k := .cons e1 (.single e2)
  refine ⟨k :: ch, by simp [hlen], ?_, ?_⟩
  · rw [List.pairwise_cons]
    refine ⟨?_, hp⟩
    intro x hx
    rcases List.mem_cons.1 hx with rfl | hx
    · exact p
    · exact p.trans ((List.pairwise_cons.1 hp).1 x hx)
  · intro x hx
    rcases List.mem_cons.1 hx with rfl | hx
    · rw [← keys_applyAfterUpdates s (s.afterUpdates cfg work first)]
      exact List.mem_map.2 ⟨n, find_mem hn, find_key hn⟩
    · exact hsub x hx

/-- **The loop cannot run out of fuel on an acyclic table** once `#rows ≤ round + fuel`. -/
theorem afterLoop_terminates (cfg : KConfig) (fuel : Nat) (s : KState) (work : List Key) (first : Bool) (r : Nat)
    (hac : Acyclic s) (hd : WorkDepth s.deps (s.nodes.map (·.key)) r work) (hfuel : s.nodes.length ≤ r + fuel) :
    ∃ s', KState.afterLoop cfg fuel s work first = some s' := by
  induction fuel generalizing s work first r with
  | zero =>
    unfold KState.afterLoop
    by_cases he : work.isEmpty = true
    · rw [if_pos he]; exact ⟨s, rfl⟩
    · exfalso
      have := workDepth_bound hac hd (fun h => he (by rw [h]; rfl))
      rw [List.length_map] at this
      omega
  | succ fuel ih =>
    unfold KState.afterLoop
    by_cases he : work.isEmpty = true
    · rw [if_pos he]; exact ⟨s, rfl⟩
    · rw [if_neg he]
      have hfr := frame_applyAfterUpdates s (s.afterUpdates cfg work first)
      have hkeys := keys_applyAfterUpdates s (s.afterUpdates cfg work first)
      have hlen : (s.applyAfterUpdates (s.afterUpdates cfg work first)).nodes.length = s.nodes.length := by
        have := congrArg List.length hkeys
        simpa using this
      apply ih _ _ _ (r + 1)
      · intro k p; rw [hfr.1] at p; exact hac k p
      · rw [hfr.1, hkeys]; exact workDepth_round s cfg work first r hd
      · rw [hlen]; omega

/-- **`_update_meta_after` never hangs on an acyclic dependency table** (the fuel `#rows + 2` of
the model is never exhausted; unique keys are not needed for this). -/
theorem updateMetaAfter_no_hang (s : KState) (cfg : KConfig) (hac : Acyclic s) :
    ∃ s', s.updateMetaAfter cfg = .ok s' := by
  unfold KState.updateMetaAfter
  split
  · exact ⟨s, rfl⟩
  · have hd : WorkDepth s.deps (s.nodes.map (·.key)) 0
        ((s.nodes.filter fun n => n.key.kind = .step ∧ !n.detached ∧ n.checkAfter).map (·.key)) := by
      intro k hk
      obtain ⟨n, hn, rfl⟩ := List.mem_map.1 hk
      refine ⟨[], rfl, List.pairwise_singleton _ _, ?_⟩
      intro x hx
      rw [List.mem_singleton.1 hx]
      exact List.mem_map.2 ⟨n, (List.mem_filter.1 hn).1, rfl⟩
    obtain ⟨st, hst⟩ := afterLoop_terminates cfg (s.nodes.length + 2) s _ true 0 hac hd (by omega)
    dsimp only
    rw [hst]
    exact ⟨_, rfl⟩

theorem updateMetaAfter_ne_hang (s : KState) (cfg : KConfig) (hac : Acyclic s) :
    s.updateMetaAfter cfg ≠ .error .hang := by
  obtain ⟨s', h⟩ := updateMetaAfter_no_hang s cfg hac
  rw [h]; intro hh; cases hh


/-! ## Induction against the dependency direction, uniqueness of the solution -/

theorem path_end_mem {deps : List Dep} {a b : Key} (p : Path deps a b) : b ∈ deps.map (·.snk) := by
  induction p with
  | single e => obtain ⟨d, hd, _, h2⟩ := e; exact List.mem_map.2 ⟨d, hd, h2⟩
  | cons _ _ ih => exact ih

/-- All chains below `k` have at most `n` members. -/
def Bounded (deps : List Dep) (n : Nat) (k : Key) : Prop :=
  ∀ c : List Key, (k :: c).Pairwise (Path deps) → c.length ≤ n

theorem bounded_all {deps : List Dep} (hac : AcyclicDeps deps) (k : Key) : Bounded deps deps.length k := by
  intro c hc
  rw [List.pairwise_cons] at hc
  have := length_le_of_nodup_subset (l' := deps.map (·.snk)) (chain_nodup hac hc.2)
    (fun x hx => path_end_mem (hc.1 x hx))
  rw [List.length_map] at this
  exact this

/-- **Well-founded induction along an acyclic dependency table**: to prove `P` of every key it is
enough to prove it of `k` from `P` of everything `k` reaches. -/
theorem acyclic_induction {deps : List Dep} (hac : AcyclicDeps deps) (P : Key → Prop)
    (h : ∀ k, (∀ m, Path deps k m → P m) → P k) : ∀ k, P k := by
  have key : ∀ n k, Bounded deps n k → P k := by
    intro n
    induction n with
    | zero =>
      intro k hb
      apply h
      intro m p
      have := hb [m] (List.pairwise_cons.2 ⟨fun x hx => by rw [List.mem_singleton.1 hx]; exact p,
        List.pairwise_singleton _ _⟩)
      simp at this
    | succ n ih =>
      intro k hb
      apply h
      intro m p
      apply ih
      intro c hc
      have := hb (m :: c) (List.pairwise_cons.2 ⟨fun x hx => by
        rcases List.mem_cons.1 hx with rfl | hx
        · exact p
        · exact p.trans ((List.pairwise_cons.1 hc).1 x hx), hc⟩)
      simp only [List.length_cons] at this
      omega
  intro k
  exact key deps.length k (bounded_all hac k)

/-- A consumer step is reached from the producer by two edges. -/
theorem consumer_path {s : KState} {k : Key} {m : Node} (hm : m ∈ s.consumerSteps k) : Path s.deps k m.key := by
  obtain ⟨f, hf, c, hc, hfm, _, _⟩ := mem_consumerSteps.1 hm
  rw [find_key hfm]
  exact .cons (mem_sinksOf.1 hf) (.single (mem_sinksOf.1 hc))

theorem consumer_find {s : KState} {k : Key} {m : Node} (hm : m ∈ s.consumerSteps k) :
    s.find? m.key = some m ∧ m.key.kind = .step ∧ m.detached = false := by
  obtain ⟨f, hf, c, hc, hfm, h1, h2⟩ := mem_consumerSteps.1 hm
  refine ⟨?_, h1, h2⟩
  rw [find_key hfm]; exact hfm

/-- **On an acyclic table the local equations have at most one solution**: two states that differ
at most in the cached columns and both satisfy every local equation carry the same
`_implied_need` and `_tail_time` on every attached step. -/
theorem afterConsistent_unique (s t : KState) (cfg : KConfig) (hac : Acyclic s) (hk : KeysUnique s)
    (hf : AfterFrame s t) (hs : AfterConsistent s cfg) (ht : AfterConsistent t cfg) :
    ∀ n ∈ s.nodes, ∀ n' ∈ t.nodes, n'.key = n.key → n.key.kind = .step → n.detached = false →
      n'.impliedNeed = n.impliedNeed ∧ n'.tail = n.tail := by
  have main : ∀ k, ∀ n ∈ s.nodes, ∀ n' ∈ t.nodes, n.key = k → n'.key = k → n.key.kind = .step →
      n.detached = false → n'.impliedNeed = n.impliedNeed ∧ n'.tail = n.tail := by
    apply acyclic_induction hac
    intro k ih n hn n' hn' hnk hn'k hstep hatt
    have he : eraseAfter n' = eraseAfter n := frame_rows hf hk hn hn' (hn'k.trans hnk.symm)
    have e1 := hs n hn hstep hatt
    have e2 := ht n' hn' (by rw [eraseAfter_key he]; exact hstep) (by rw [eraseAfter_detached he]; exact hatt)
    unfold AfterLocal at e1 e2
    have hval : t.afterValues cfg n' = s.afterValues cfg n := by
      apply afterValues_frame hf cfg he
      intro m hm m' hm'
      obtain ⟨hfm, h1, h2⟩ := consumer_find hm
      exact ih m.key (hnk ▸ consumer_path hm) m (find_mem hfm) m' (find_mem hm') rfl (find_key hm') h1 h2
    rw [hval, ← e1] at e2
    simp only [Prod.mk.injEq] at e2
    exact e2
  intro n hn n' hn' hkey hstep hatt
  exact main n.key n hn n' hn' rfl hkey hstep hatt

/-- Flag every step: the state on which `_update_meta_after` recomputes everything from scratch. -/
def flagAll (s : KState) : KState :=
  { s with nodes := s.nodes.map fun n => if n.key.kind = .step then { n with checkAfter := true } else n }

theorem flagAll_erase (n : Node) :
    eraseAfter (if n.key.kind = .step then { n with checkAfter := true } else n) = eraseAfter n := by
  split <;> rfl

theorem frame_flagAll (s : KState) : AfterFrame s (flagAll s) := frame_mapNodes s _ flagAll_erase

theorem cacheInv_flagAll (s : KState) (cfg : KConfig) : CacheInvAfter (flagAll s) cfg := by
  intro n hn hstep _ hflag
  exfalso
  obtain ⟨m, _, rfl⟩ := List.mem_map.1 hn
  by_cases hm : m.key.kind = .step
  · rw [if_pos hm] at hflag; cases hflag
  · rw [if_neg hm] at hstep; exact hm hstep

/-- The from-scratch computation: flag every step, then run `_update_meta_after`. -/
def recomputeAfter (s : KState) (cfg : KConfig) : M KState := (flagAll s).updateMetaAfter cfg

/-- **Existence**: on an acyclic table with unique keys the from-scratch computation succeeds and
its result satisfies every local equation. -/
theorem recomputeAfter_spec (s : KState) (cfg : KConfig) (hac : Acyclic s) (hk : KeysUnique s) :
    ∃ t, recomputeAfter s cfg = .ok t ∧ AfterFrame s t ∧ AfterConsistent t cfg := by
  have hfr := frame_flagAll s
  have hac' : Acyclic (flagAll s) := hac
  obtain ⟨t, ht⟩ := updateMetaAfter_no_hang (flagAll s) cfg hac'
  obtain ⟨h1, _, h3⟩ := updateMetaAfter_correct (flagAll s) t cfg (keysUnique_frame hfr hk) (cacheInv_flagAll s cfg) ht
  exact ⟨t, ht, hfr.trans h3, h1⟩

/-- **The cached columns after `_update_meta_after` are THE solution of the local equations**: they
agree, on every attached step, with every other assignment of the cached columns that satisfies all
local equations. -/
theorem updateMetaAfter_unique_solution (s s' t : KState) (cfg : KConfig) (hac : Acyclic s) (hk : KeysUnique s)
    (hc : CacheInvAfter s cfg) (h : s.updateMetaAfter cfg = .ok s')
    (hft : AfterFrame s t) (ht : AfterConsistent t cfg) :
    ∀ n ∈ s'.nodes, ∀ m ∈ t.nodes, m.key = n.key → n.key.kind = .step → n.detached = false →
      n.impliedNeed = m.impliedNeed ∧ n.tail = m.tail := by
  obtain ⟨h1, _, h3⟩ := updateMetaAfter_correct s s' cfg hk hc h
  have hac' : Acyclic s' := by intro k p; rw [h3.1] at p; exact hac k p
  intro n hn m hm hkey hstep hatt
  have := afterConsistent_unique s' t cfg hac' (keysUnique_frame h3 hk) (h3.symm.trans hft) h1 ht n hn m hm hkey hstep hatt
  exact ⟨this.1.symm, this.2.symm⟩

/-- **Incremental = from scratch**: under the flag discipline, on an acyclic table with unique keys,
the flag-driven worklist leaves on every attached step the values that a full recomputation
yields (and that recomputation exists). -/
theorem updateMetaAfter_eq_recompute (s s' : KState) (cfg : KConfig) (hac : Acyclic s) (hk : KeysUnique s)
    (hc : CacheInvAfter s cfg) (h : s.updateMetaAfter cfg = .ok s') :
    ∃ t, recomputeAfter s cfg = .ok t ∧
      ∀ n ∈ s'.nodes, ∀ m ∈ t.nodes, m.key = n.key → n.key.kind = .step → n.detached = false →
        n.impliedNeed = m.impliedNeed ∧ n.tail = m.tail := by
  obtain ⟨t, ht, hft, hcons⟩ := recomputeAfter_spec s cfg hac hk
  exact ⟨t, ht, updateMetaAfter_unique_solution s s' t cfg hac hk hc h hft hcons⟩


/-! ## What the local equations say about need ("exactly the needed steps are executed") -/

theorem max_rank_left (a b : Need) : a.rank ≤ (a.max b).rank := by
  unfold Need.max; split <;> omega

theorem max_rank_right (a b : Need) : b.rank ≤ (a.max b).rank := by
  unfold Need.max; split <;> omega

theorem max_eq_or (a b : Need) : a.max b = a ∨ a.max b = b := by
  unfold Need.max; split
  · exact .inr rfl
  · exact .inl rfl

theorem foldl_need_ge_init (l : List (Need × Nat)) (init : Need) :
    init.rank ≤ (l.foldl (fun acc m => acc.max m.1) init).rank := by
  induction l generalizing init with
  | nil => exact Nat.le_refl _
  | cons x xs ih => exact Nat.le_trans (max_rank_left init x.1) (ih _)

theorem foldl_need_ge_mem (l : List (Need × Nat)) (init : Need) (m : Need × Nat) (hm : m ∈ l) :
    m.1.rank ≤ (l.foldl (fun acc m => acc.max m.1) init).rank := by
  induction l generalizing init with
  | nil => cases hm
  | cons x xs ih =>
    rcases List.mem_cons.1 hm with rfl | hm
    · exact Nat.le_trans (max_rank_right init m.1) (foldl_need_ge_init xs _)
    · exact ih _ hm

theorem foldl_need_eq_or (l : List (Need × Nat)) (init : Need) :
    l.foldl (fun acc m => acc.max m.1) init = init ∨ ∃ m ∈ l, l.foldl (fun acc m => acc.max m.1) init = m.1 := by
  induction l generalizing init with
  | nil => exact .inl rfl
  | cons x xs ih =>
    simp only [List.foldl_cons]
    rcases ih (init.max x.1) with h | ⟨m, hm, h⟩
    · rcases max_eq_or init x.1 with h' | h'
      · left; rw [h, h']
      · right; exact ⟨x, List.mem_cons_self, by rw [h, h']⟩
    · right; exact ⟨m, List.mem_cons_of_mem _ hm, h⟩

theorem foldl_tail_ge_mem (l : List (Need × Nat)) (init : Nat) (m : Need × Nat) (hm : m ∈ l) :
    m.2 ≤ l.foldl (fun acc m => Nat.max acc m.2) init := by
  have ge_init : ∀ (l : List (Need × Nat)) (init : Nat), init ≤ l.foldl (fun acc m => Nat.max acc m.2) init := by
    intro l
    induction l with
    | nil => intro init; exact Nat.le_refl _
    | cons x xs ih => intro init; exact Nat.le_trans (Nat.le_max_left _ _) (ih _)
  induction l generalizing init with
  | nil => cases hm
  | cons x xs ih =>
    rcases List.mem_cons.1 hm with rfl | hm
    · exact Nat.le_trans (Nat.le_max_right _ _) (ge_init xs _)
    · exact ih _ hm

/-- The elevation a step gets from the targets of the build. -/
def targetTerm (cfg : KConfig) (need : Need) (outs : List String) : Need :=
  if outs.any cfg.targets.contains then .target
  else if need = .default ∧ outs.any (fun o => cfg.targetDirs.any fun d => underDir d o) then .target
  else .optional

/-- A regular output is an exact target, or the step is DEFAULT and an output lies under a target directory. -/
def TargetHit (s : KState) (cfg : KConfig) (n : Node) : Prop :=
  (s.regularOutputs n.key).any cfg.targets.contains = true ∨
  (n.need = .default ∧ (s.regularOutputs n.key).any (fun o => cfg.targetDirs.any fun d => underDir d o) = true)

/-- The need a step has on its own account: declared, or TARGET when it produces a target. -/
def ownNeed (s : KState) (cfg : KConfig) (n : Node) : Need :=
  n.need.max (targetTerm cfg n.need (s.regularOutputs n.key))

theorem afterCore_fst (cfg : KConfig) (need : Need) (outs : List String) (cons : List (Need × Nat)) :
    (afterCore cfg need outs cons).1 = cons.foldl (fun acc m => acc.max m.1) (need.max (targetTerm cfg need outs)) := rfl

theorem afterCore_snd (cfg : KConfig) (need : Need) (outs : List String) (cons : List (Need × Nat)) :
    (afterCore cfg need outs cons).2 = 1 + cons.foldl (fun acc m => Nat.max acc m.2) 0 := rfl

theorem afterLocal_need {s : KState} {cfg : KConfig} {n : Node} (h : AfterLocal s cfg n) :
    n.impliedNeed = (consumerPairs s n.key).foldl (fun acc m => acc.max m.1) (ownNeed s cfg n) := by
  have := congrArg Prod.fst h
  rw [afterValues_eq_core, afterCore_fst] at this
  exact this

theorem afterLocal_tail {s : KState} {cfg : KConfig} {n : Node} (h : AfterLocal s cfg n) :
    n.tail = 1 + (consumerPairs s n.key).foldl (fun acc m => Nat.max acc m.2) 0 := by
  have := congrArg Prod.snd h
  rw [afterValues_eq_core, afterCore_snd] at this
  exact this

theorem ownNeed_cases (s : KState) (cfg : KConfig) (n : Node) :
    ownNeed s cfg n = n.need ∨ (ownNeed s cfg n = .target ∧ TargetHit s cfg n) := by
  unfold ownNeed
  rcases max_eq_or n.need (targetTerm cfg n.need (s.regularOutputs n.key)) with h | h
  · exact .inl h
  · rw [h]
    unfold targetTerm TargetHit
    by_cases h1 : (s.regularOutputs n.key).any cfg.targets.contains = true
    · rw [if_pos h1]; exact .inr ⟨rfl, .inl h1⟩
    · rw [if_neg h1]
      by_cases h2 : n.need = .default ∧
          (s.regularOutputs n.key).any (fun o => cfg.targetDirs.any fun d => underDir d o) = true
      · rw [if_pos h2]; exact .inr ⟨rfl, .inr h2⟩
      · rw [if_neg h2]
        left
        have hm : n.need.max .optional = n.need := by
          unfold Need.max
          rw [if_neg]
          exact Nat.not_lt_zero _
        unfold targetTerm at h
        rw [if_neg h1, if_neg h2] at h
        exact h.symm.trans hm

/-- (a) The implied need is never below the step's own need, in particular the declared one. -/
theorem implied_ge_own {s : KState} {cfg : KConfig} {n : Node} (h : AfterLocal s cfg n) :
    (ownNeed s cfg n).rank ≤ n.impliedNeed.rank := by
  rw [afterLocal_need h]; exact foldl_need_ge_init _ _

theorem implied_ge_declared {s : KState} {cfg : KConfig} {n : Node} (h : AfterLocal s cfg n) :
    n.need.rank ≤ n.impliedNeed.rank :=
  Nat.le_trans (max_rank_left _ _) (implied_ge_own h)

/-- A step that produces an exact target is at least TARGET. -/
theorem implied_ge_target {s : KState} {cfg : KConfig} {n : Node} (h : AfterLocal s cfg n)
    (ht : (s.regularOutputs n.key).any cfg.targets.contains = true) : Need.target.rank ≤ n.impliedNeed.rank := by
  refine Nat.le_trans ?_ (implied_ge_own h)
  unfold ownNeed targetTerm
  rw [if_pos ht]
  exact max_rank_right _ _

/-- (b) Need propagates against the dependency direction: at least the implied need of every attached
consumer step. -/
theorem implied_ge_consumer {s : KState} {cfg : KConfig} {n m : Node} (h : AfterLocal s cfg n)
    (hm : m ∈ s.consumerSteps n.key) : m.impliedNeed.rank ≤ n.impliedNeed.rank := by
  rw [afterLocal_need h]
  exact foldl_need_ge_mem _ _ (m.impliedNeed, m.tail) (List.mem_map.2 ⟨m, hm, rfl⟩)

/-- (b), in terms of the tables: `n → f → c` with `c` an attached step. -/
theorem implied_ge_consumer' {s : KState} {cfg : KConfig} {n m : Node} {f c : Key} (h : AfterLocal s cfg n)
    (hf : f ∈ s.sinksOf n.key) (hc : c ∈ s.sinksOf f) (hm : s.find? c = some m)
    (hk : m.key.kind = .step) (hd : m.detached = false) : m.impliedNeed.rank ≤ n.impliedNeed.rank :=
  implied_ge_consumer h (mem_consumerSteps.2 ⟨f, hf, c, hc, hm, hk, hd⟩)

/-- The tail time strictly exceeds that of every attached consumer step. -/
theorem tail_gt_consumer {s : KState} {cfg : KConfig} {n m : Node} (h : AfterLocal s cfg n)
    (hm : m ∈ s.consumerSteps n.key) : m.tail < n.tail := by
  rw [afterLocal_tail h]
  have := foldl_tail_ge_mem (consumerPairs s n.key) 0 (m.impliedNeed, m.tail) (List.mem_map.2 ⟨m, hm, rfl⟩)
  simp only at this
  omega

/-- No need without a reason: the implied need is the step's own need or that of some attached consumer. -/
theorem implied_cause {s : KState} {cfg : KConfig} {n : Node} (h : AfterLocal s cfg n) :
    n.impliedNeed = ownNeed s cfg n ∨ ∃ m ∈ s.consumerSteps n.key, m.impliedNeed = n.impliedNeed := by
  rw [afterLocal_need h]
  rcases foldl_need_eq_or (consumerPairs s n.key) (ownNeed s cfg n) with h' | ⟨p, hp, h'⟩
  · exact .inl h'
  · right
    obtain ⟨m, hm, rfl⟩ := List.mem_map.1 hp
    exact ⟨m, hm, h'.symm⟩

/-- (c) An OPTIONAL step without an exact-target output whose attached consumers are all implied
OPTIONAL is implied OPTIONAL. -/
theorem implied_optional {s : KState} {cfg : KConfig} {n : Node} (h : AfterLocal s cfg n)
    (hn : n.need = .optional) (hno : (s.regularOutputs n.key).any cfg.targets.contains = false)
    (hcons : ∀ m ∈ s.consumerSteps n.key, m.impliedNeed = .optional) : n.impliedNeed = .optional := by
  have hown : ownNeed s cfg n = .optional := by
    unfold ownNeed targetTerm
    rw [hno, hn]
    simp [Need.max, Need.rank]
  rcases implied_cause h with h' | ⟨m, hm, h'⟩
  · rw [h', hown]
  · rw [← h', hcons m hm]

/-- Only needed steps are dispatched (restated from `KState.eligible`). -/
theorem eligible_needed {s : KState} {cfg : KConfig} {n : Node} (h : s.eligible cfg n = true) :
    n.key.kind = .step ∧ n.detached = false ∧ cfg.threshold.rank < n.impliedNeed.rank := by
  unfold KState.eligible at h
  simp only [Bool.and_eq_true, decide_eq_true_eq, Bool.not_eq_eq_eq_not, Bool.not_true] at h
  exact ⟨h.1.1.1.1, h.1.2, h.1.1.2⟩

/-- ... so the step of (c) is never dispatched. -/
theorem optional_not_dispatched {s : KState} {cfg : KConfig} {n : Node} (h : AfterLocal s cfg n)
    (hn : n.need = .optional) (hno : (s.regularOutputs n.key).any cfg.targets.contains = false)
    (hcons : ∀ m ∈ s.consumerSteps n.key, m.impliedNeed = .optional) : s.eligible cfg n = false := by
  cases he : s.eligible cfg n with
  | false => rfl
  | true =>
    have := (eligible_needed he).2.2
    rw [implied_optional h hn hno hcons] at this
    simp [Need.rank] at this

/-! ### The closed form on acyclic tables -/

/-- `p` is `n` or an attached step that transitively consumes outputs of `n` through attached steps. -/
inductive Feeds (s : KState) : Node → Node → Prop
  | refl (n : Node) : Feeds s n n
  | step {n m p : Node} : m ∈ s.consumerSteps n.key → Feeds s m p → Feeds s n p

theorem Feeds.attached {s : KState} {n p : Node} (h : Feeds s n p) (hn : n ∈ s.nodes)
    (hs : n.key.kind = .step) (hd : n.detached = false) :
    p ∈ s.nodes ∧ p.key.kind = .step ∧ p.detached = false := by
  induction h with
  | refl => exact ⟨hn, hs, hd⟩
  | step hm _ ih =>
    obtain ⟨hfm, h1, h2⟩ := consumer_find hm
    exact ih (find_mem hfm) h1 h2

/-- Lower bound: the implied need dominates the own need of everything the step feeds. -/
theorem implied_ge_feeds {s : KState} {cfg : KConfig} (hc : AfterConsistent s cfg) {n p : Node}
    (h : Feeds s n p) (hn : n ∈ s.nodes) (hs : n.key.kind = .step) (hd : n.detached = false) :
    p.impliedNeed.rank ≤ n.impliedNeed.rank ∧ (ownNeed s cfg p).rank ≤ n.impliedNeed.rank := by
  induction h with
  | refl => exact ⟨Nat.le_refl _, implied_ge_own (hc _ hn hs hd)⟩
  | step hm _ ih =>
    obtain ⟨hfm, h1, h2⟩ := consumer_find hm
    have := ih (find_mem hfm) h1 h2
    have hle := implied_ge_consumer (hc _ hn hs hd) hm
    exact ⟨Nat.le_trans this.1 hle, Nat.le_trans this.2 hle⟩

/-- Attainment: on an acyclic table the implied need IS the own need of the step or of some step it feeds. -/
theorem implied_attained {s : KState} {cfg : KConfig} (hac : Acyclic s) (hc : AfterConsistent s cfg)
    {n : Node} (hn : n ∈ s.nodes) (hs : n.key.kind = .step) (hd : n.detached = false) :
    ∃ p, Feeds s n p ∧ ownNeed s cfg p = n.impliedNeed := by
  have main : ∀ k, ∀ n ∈ s.nodes, n.key = k → n.key.kind = .step → n.detached = false →
      ∃ p, Feeds s n p ∧ ownNeed s cfg p = n.impliedNeed := by
    apply acyclic_induction hac
    intro k ih n hn hk hs hd
    rcases implied_cause (hc n hn hs hd) with h | ⟨m, hm, h⟩
    · exact ⟨n, .refl n, h.symm⟩
    · obtain ⟨hfm, h1, h2⟩ := consumer_find hm
      obtain ⟨p, hp, hown⟩ := ih m.key (hk ▸ consumer_path hm) m (find_mem hfm) rfl h1 h2
      exact ⟨p, .step hm hp, hown.trans h⟩
  exact main n.key n hn rfl hs hd

/-- **Closed form of `_implied_need`** on an acyclic table: the maximum of the own needs (declared,
or TARGET for producers of targets) of the step and of all attached steps it transitively feeds. -/
theorem implied_closed_form {s : KState} {cfg : KConfig} (hac : Acyclic s) (hc : AfterConsistent s cfg)
    {n : Node} (hn : n ∈ s.nodes) (hs : n.key.kind = .step) (hd : n.detached = false) :
    (∀ p, Feeds s n p → (ownNeed s cfg p).rank ≤ n.impliedNeed.rank) ∧
    ∃ p, Feeds s n p ∧ ownNeed s cfg p = n.impliedNeed :=
  ⟨fun _ hp => (implied_ge_feeds hc hp hn hs hd).2, implied_attained hac hc hn hs hd⟩

/-- A dispatched step is, or transitively feeds, an attached step whose own need (declared need,
or TARGET because it produces a target) exceeds the threshold of the build. -/
theorem dispatched_has_reason {s : KState} {cfg : KConfig} (hac : Acyclic s) (hc : AfterConsistent s cfg)
    {n : Node} (hn : n ∈ s.nodes) (h : s.eligible cfg n = true) :
    ∃ p, Feeds s n p ∧ cfg.threshold.rank < (ownNeed s cfg p).rank ∧
      (ownNeed s cfg p = p.need ∨ (ownNeed s cfg p = .target ∧ TargetHit s cfg p)) := by
  obtain ⟨hs, hd, hlt⟩ := eligible_needed h
  obtain ⟨p, hp, hown⟩ := implied_attained hac hc hn hs hd
  exact ⟨p, hp, by rw [hown]; exact hlt, ownNeed_cases s cfg p⟩

/-- Conversely, a step that feeds a step whose own need exceeds the threshold passes the need test
of the dispatcher. -/
theorem reason_passes_threshold {s : KState} {cfg : KConfig} (hc : AfterConsistent s cfg)
    {n p : Node} (hn : n ∈ s.nodes) (hs : n.key.kind = .step) (hd : n.detached = false)
    (hp : Feeds s n p) (hlt : cfg.threshold.rank < (ownNeed s cfg p).rank) :
    cfg.threshold.rank < n.impliedNeed.rank :=
  Nat.lt_of_lt_of_le hlt (implied_ge_feeds hc hp hn hs hd).2


/-! ## Uniqueness without acyclicity: the tail time is a measure -/

/-- **The local equations have at most one solution on any dependency table** (the tail time of a
solution strictly decreases along the consumer relation, which makes that relation well founded). -/
theorem afterConsistent_unique_general (s t : KState) (cfg : KConfig) (hk : KeysUnique s)
    (hf : AfterFrame s t) (hs : AfterConsistent s cfg) (ht : AfterConsistent t cfg) :
    ∀ n ∈ s.nodes, ∀ n' ∈ t.nodes, n'.key = n.key → n.key.kind = .step → n.detached = false →
      n'.impliedNeed = n.impliedNeed ∧ n'.tail = n.tail := by
  have main : ∀ b, ∀ n ∈ s.nodes, n.tail < b → ∀ n' ∈ t.nodes, n'.key = n.key → n.key.kind = .step →
      n.detached = false → n'.impliedNeed = n.impliedNeed ∧ n'.tail = n.tail := by
    intro b
    induction b with
    | zero => intro n _ hb; exact absurd hb (Nat.not_lt_zero _)
    | succ b ih =>
      intro n hn hb n' hn' hkey hstep hatt
      have he : eraseAfter n' = eraseAfter n := frame_rows hf hk hn hn' hkey
      have e1 := hs n hn hstep hatt
      have e2 := ht n' hn' (by rw [eraseAfter_key he]; exact hstep) (by rw [eraseAfter_detached he]; exact hatt)
      have hval : t.afterValues cfg n' = s.afterValues cfg n := by
        apply afterValues_frame hf cfg he
        intro m hm m' hm'
        obtain ⟨hfm, h1, h2⟩ := consumer_find hm
        have hlt := tail_gt_consumer e1 hm
        exact ih m (find_mem hfm) (by omega) m' (find_mem hm') (find_key hm') h1 h2
      unfold AfterLocal at e1 e2
      rw [hval, ← e1] at e2
      simp only [Prod.mk.injEq] at e2
      exact e2
  intro n hn n' hn' hkey hstep hatt
  exact main (n.tail + 1) n hn (Nat.lt_succ_self _) n' hn' hkey hstep hatt

theorem feeds_tail_le {s : KState} {cfg : KConfig} (hc : AfterConsistent s cfg) {n p : Node}
    (h : Feeds s n p) (hn : n ∈ s.nodes) (hs : n.key.kind = .step) (hd : n.detached = false) :
    p.tail ≤ n.tail := by
  induction h with
  | refl => exact Nat.le_refl _
  | step hm _ ih =>
    obtain ⟨hfm, h1, h2⟩ := consumer_find hm
    have := ih (find_mem hfm) h1 h2
    have hlt := tail_gt_consumer (hc _ hn hs hd) hm
    omega

/-- A solution exists only if the attached steps do not consume each other's outputs in a circle. -/
theorem afterConsistent_no_consumer_cycle {s : KState} {cfg : KConfig} (hc : AfterConsistent s cfg)
    {n m : Node} (hn : n ∈ s.nodes) (hs : n.key.kind = .step) (hd : n.detached = false)
    (hm : m ∈ s.consumerSteps n.key) : ¬ Feeds s m n := by
  intro hf
  obtain ⟨hfm, h1, h2⟩ := consumer_find hm
  have := feeds_tail_le hc hf (find_mem hfm) h1 h2
  have hlt := tail_gt_consumer (hc n hn hs hd) hm
  omega

/-- The cached columns after `_update_meta_after` agree with any solution of the local equations,
acyclic table or not. -/
theorem updateMetaAfter_unique_solution_general (s s' t : KState) (cfg : KConfig) (hk : KeysUnique s)
    (hc : CacheInvAfter s cfg) (h : s.updateMetaAfter cfg = .ok s')
    (hft : AfterFrame s t) (ht : AfterConsistent t cfg) :
    ∀ n ∈ s'.nodes, ∀ m ∈ t.nodes, m.key = n.key → n.key.kind = .step → n.detached = false →
      n.impliedNeed = m.impliedNeed ∧ n.tail = m.tail := by
  obtain ⟨h1, _, h3⟩ := updateMetaAfter_correct s s' cfg hk hc h
  intro n hn m hm hkey hstep hatt
  have := afterConsistent_unique_general s' t cfg (keysUnique_frame h3 hk) (h3.symm.trans hft) h1 ht
    n hn m hm hkey hstep hatt
  exact ⟨this.1.symm, this.2.symm⟩

/-! ## The rest of `_update_meta`, and the dispatch decision -/

/-- A row function that touches nothing `afterValues` reads, nor the cached pair, nor the flag. -/
def AfterNeutral (f : Node → Node) : Prop :=
  ∀ n, afterView (f n) = afterView n ∧ (f n).impliedNeed = n.impliedNeed ∧ (f n).tail = n.tail ∧
    (f n).checkAfter = n.checkAfter

theorem AfterNeutral.ite {f : Node → Node} (hf : AfterNeutral f) (p : Node → Bool) :
    AfterNeutral fun n => if p n then f n else n := by
  intro n
  by_cases hp : p n = true
  · simp only [hp, if_true]; exact hf n
  · simp only [hp]; exact ⟨rfl, rfl, rfl, rfl⟩

theorem modifyWhere_eq (s : KState) (p : Node → Bool) (f : Node → Node) :
    s.modifyWhere p f = { s with nodes := s.nodes.map fun n => if p n then f n else n } := rfl

theorem view_modifyWhere (s : KState) (p : Node → Bool) {f : Node → Node} (hf : AfterNeutral f) :
    ViewFrame s (s.modifyWhere p f) := by
  rw [modifyWhere_eq]
  exact view_mapNodes s _ fun n => ((hf.ite p) n).1

theorem cacheInv_modifyWhere (s : KState) (cfg : KConfig) (p : Node → Bool) {f : Node → Node}
    (hf : AfterNeutral f) (h : CacheInvAfter s cfg) : CacheInvAfter (s.modifyWhere p f) cfg := by
  rw [modifyWhere_eq]
  have hg := hf.ite p
  exact cacheInv_mapNodes_view s cfg _ (fun n => (hg n).1) (fun n => (hg n).2.1) (fun n => (hg n).2.2.1)
    (fun n => (hg n).2.2.2) h

theorem afterConsistent_modifyWhere (s : KState) (cfg : KConfig) (p : Node → Bool) {f : Node → Node}
    (hf : AfterNeutral f) (h : AfterConsistent s cfg) : AfterConsistent (s.modifyWhere p f) cfg := by
  rw [modifyWhere_eq]
  have hg := hf.ite p
  exact afterConsistent_mapNodes_view s cfg _ (fun n => (hg n).1) (fun n => (hg n).2.1) (fun n => (hg n).2.2.1) h

theorem flags_modifyWhere (s : KState) (p : Node → Bool) {f : Node → Node} (hf : AfterNeutral f)
    (h : ∀ n ∈ s.nodes, n.key.kind = .step → n.checkAfter = false) :
    ∀ n ∈ (s.modifyWhere p f).nodes, n.key.kind = .step → n.checkAfter = false := by
  rw [modifyWhere_eq]
  have hg := hf.ite p
  intro n' hn' hs
  obtain ⟨n, hn, rfl⟩ := List.mem_map.1 hn'
  rw [(hg n).2.2.2]
  exact h n hn (by rw [← view_key (hg n).1]; exact hs)

/-- `_update_meta_safe` writes `_safe`, `_safe_ignoring_hold`, `_check_safe` only. -/
theorem updateMetaSafe_neutral (s s1 : KState) (h : s.updateMetaSafe = .ok s1) :
    ViewFrame s s1 ∧ ∀ cfg, CacheInvAfter s cfg → CacheInvAfter s1 cfg := by
  unfold KState.updateMetaSafe at h
  dsimp only at h
  split at h
  · simp only [pure, Except.pure, Except.ok.injEq] at h; subst h
    exact ⟨ViewFrame.refl _, fun _ hc => hc⟩
  · split at h
    · cases h
    · simp only [pure, Except.pure, Except.ok.injEq] at h
      subst h
      rename_i rows _
      have hf1 : AfterNeutral fun (n : Node) =>
          match (rows.filter (·.key = n.key)).foldl (fun best r => match best with
            | none => some r
            | some b => if b.depth < r.depth then some r else some b) none with
          | some r => { n with safe := r.safe, safeNH := r.safeNH }
          | none => n := by
        intro n
        dsimp only
        split <;> exact ⟨rfl, rfl, rfl, rfl⟩
      have hf2 : AfterNeutral fun (n : Node) => { n with checkSafe := false } := fun n => ⟨rfl, rfl, rfl, rfl⟩
      exact ⟨(view_modifyWhere _ _ hf1).trans (view_modifyWhere _ _ hf2),
        fun cfg hc => cacheInv_modifyWhere _ cfg _ hf2 (cacheInv_modifyWhere _ cfg _ hf1 hc)⟩

theorem updateMetaReady_neutral (s : KState) :
    AfterNeutral fun (n : Node) => { n with ready := s.computeReady n.key, checkReady := false } :=
  fun _ => ⟨rfl, rfl, rfl, rfl⟩

/-- **`_update_meta` as a whole**: under the flag discipline and with unique keys, a successful
`_update_meta` leaves every attached step with its local equation satisfied and no step flagged. -/
theorem updateMeta_correct (s s' : KState) (cfg : KConfig) (hk : KeysUnique s) (hc : CacheInvAfter s cfg)
    (h : s.updateMeta cfg = .ok s') :
    AfterConsistent s' cfg ∧ (∀ n ∈ s'.nodes, n.key.kind = .step → n.checkAfter = false) ∧ ViewFrame s s' := by
  unfold KState.updateMeta at h
  simp only [bind, Except.bind] at h
  cases h1 : s.updateMetaSafe with
  | error e => simp [h1] at h
  | ok s1 =>
    simp only [h1] at h
    obtain ⟨hv1, hc1⟩ := updateMetaSafe_neutral s s1 h1
    cases h2 : s1.updateMetaAfter cfg with
    | error e => simp [h2] at h
    | ok s2 =>
      simp only [h2, pure, Except.pure, Except.ok.injEq] at h
      subst h
      obtain ⟨a, b, c⟩ := updateMetaAfter_correct s1 s2 cfg (keysUnique_view hv1 hk) (hc1 cfg hc) h2
      unfold KState.updateMetaReady
      exact ⟨afterConsistent_modifyWhere _ cfg _ (updateMetaReady_neutral s2) a,
        flags_modifyWhere _ _ (updateMetaReady_neutral s2) b,
        (hv1.trans c.view).trans (view_modifyWhere _ _ (updateMetaReady_neutral s2))⟩

/-- On an acyclic table `_update_meta` can only fail in `_update_meta_safe`. -/
theorem updateMeta_no_after_hang (s s1 : KState) (cfg : KConfig) (hac : Acyclic s)
    (h1 : s.updateMetaSafe = .ok s1) : ∃ s', s.updateMeta cfg = .ok s' := by
  obtain ⟨hv1, _⟩ := updateMetaSafe_neutral s s1 h1
  have hac1 : Acyclic s1 := by intro k p; rw [hv1.1] at p; exact hac k p
  obtain ⟨s2, h2⟩ := updateMetaAfter_no_hang s1 cfg hac1
  refine ⟨s2.updateMetaReady, ?_⟩
  unfold KState.updateMeta
  simp only [bind, Except.bind, h1, h2]
  rfl

/-- What `pop_next_job` hands out was eligible on the state right after `_update_meta`. -/
theorem popNext_job_eligible (s s' : KState) (cfg : KConfig) (k : Key) (d : Dispatch)
    (h : s.popNext cfg (some k) = .ok (s', d)) :
    ∃ s1 n, s.updateMeta cfg = .ok s1 ∧ n ∈ s1.nodes ∧ n.key = k ∧ s1.eligible cfg n = true ∧
      ∃ run, d = .job k n.hasHash run := by
  unfold KState.popNext at h
  simp only [bind, Except.bind] at h
  cases hu : s.updateMeta cfg with
  | error e => simp [hu] at h
  | ok su =>
    simp only [hu] at h
    split at h
    · cases h
    · rename_i n hn
      have hmem := List.mem_of_find?_eq_some hn
      have hkey : n.key = k := by simpa using List.find?_some hn
      rw [List.mem_filter] at hmem
      split at h
      · cases h
      · split at h
        · cases h
        · cases hj : su.deriveJob k with
          | error e => simp [hj] at h
          | ok run =>
            simp only [hj] at h
            cases hs : su.setStepState k (if n.hasHash = true then StepState.checking else StepState.running) with
            | error e => simp [hs] at h
            | ok s2 =>
              simp only [hs, pure, Except.pure, Except.ok.injEq, Prod.mk.injEq] at h
              exact ⟨su, n, rfl, hmem.1, hkey, hmem.2, run, h.2.symm⟩

/-- **Every dispatched job has a reason.**  Under the flag discipline, on an acyclic table with
unique keys: the step handed out by `pop_next_job` is, or transitively feeds through attached steps,
an attached step whose own need (declared, or TARGET because it produces a target of the build)
exceeds the threshold of the build; all read off the state on which the decision is taken. -/
theorem popNext_job_has_reason (s s' : KState) (cfg : KConfig) (k : Key) (d : Dispatch)
    (hk : KeysUnique s) (hac : Acyclic s) (hc : CacheInvAfter s cfg)
    (h : s.popNext cfg (some k) = .ok (s', d)) :
    ∃ s1 n p, s.updateMeta cfg = .ok s1 ∧ AfterConsistent s1 cfg ∧ n ∈ s1.nodes ∧ n.key = k ∧
      Feeds s1 n p ∧ cfg.threshold.rank < (ownNeed s1 cfg p).rank ∧
      (ownNeed s1 cfg p = p.need ∨ (ownNeed s1 cfg p = .target ∧ TargetHit s1 cfg p)) := by
  obtain ⟨s1, n, hu, hn, hkey, hel, _⟩ := popNext_job_eligible s s' cfg k d h
  obtain ⟨hcons, _, hv⟩ := updateMeta_correct s s1 cfg hk hc hu
  have hac1 : Acyclic s1 := by intro x p; rw [hv.1] at p; exact hac x p
  obtain ⟨p, hp, hlt, hown⟩ := dispatched_has_reason hac1 hcons hn hel
  exact ⟨s1, n, p, hu, hcons, hn, hkey, hp, hlt, hown⟩

/-! ## Reachable states -/

/-- In every reachable state `_update_meta_after` terminates. -/
theorem updateMetaAfter_reachable_no_hang (h : List (KConfig × Req)) (cfg : KConfig) :
    ∃ s', (KState.init.run h).updateMetaAfter cfg = .ok s' :=
  updateMetaAfter_no_hang _ cfg (acyclic_reachable h)

theorem keysUnique_reachable (h : List (KConfig × Req)) : KeysUnique (KState.init.run h) :=
  keysNodup_reachable h

/-- In every reachable state that obeys the flag discipline, `_update_meta_after` succeeds and
establishes all local equations. -/
theorem updateMetaAfter_reachable_correct (h : List (KConfig × Req)) (cfg : KConfig)
    (hc : CacheInvAfter (KState.init.run h) cfg) :
    ∃ s', (KState.init.run h).updateMetaAfter cfg = .ok s' ∧ AfterConsistent s' cfg ∧
      (∀ n ∈ s'.nodes, n.key.kind = .step → n.checkAfter = false) ∧ AfterFrame (KState.init.run h) s' := by
  obtain ⟨s', hs'⟩ := updateMetaAfter_reachable_no_hang h cfg
  exact ⟨s', hs', updateMetaAfter_correct _ s' cfg (keysUnique_reachable h) hc hs'⟩


/-! ## Rows the worklist does not write, and "incremental = from scratch" as an equation of states -/

/-- `n'` is `n` up to the cached columns; the cached pair is kept unless `n` is an attached step, and
the flag is kept unless `n` is a step. -/
def RowKeep (n n' : Node) : Prop :=
  eraseAfter n' = eraseAfter n ∧
  (¬ (n.key.kind = .step ∧ n.detached = false) → n'.impliedNeed = n.impliedNeed ∧ n'.tail = n.tail) ∧
  (n.key.kind ≠ .step → n'.checkAfter = n.checkAfter)

theorem RowKeep.refl (n : Node) : RowKeep n n := ⟨rfl, fun _ => ⟨rfl, rfl⟩, fun _ => rfl⟩

theorem RowKeep.trans {a b c : Node} (h1 : RowKeep a b) (h2 : RowKeep b c) : RowKeep a c := by
  have hk := eraseAfter_key h1.1
  have hd := eraseAfter_detached h1.1
  refine ⟨h2.1.trans h1.1, ?_, ?_⟩
  · intro h
    have := h2.2.1 (by rw [hk, hd]; exact h)
    exact ⟨this.1.trans (h1.2.1 h).1, this.2.trans (h1.2.1 h).2⟩
  · intro h
    exact (h2.2.2 (by rw [hk]; exact h)).trans (h1.2.2 h)

/-- Row by row (through `find?`), `s'` keeps what `RowKeep` says. -/
def Keeps (s s' : KState) : Prop := ∀ k n, s.find? k = some n → ∃ n', s'.find? k = some n' ∧ RowKeep n n'

theorem Keeps.refl (s : KState) : Keeps s s := fun _ n h => ⟨n, h, RowKeep.refl n⟩

theorem Keeps.trans {a b c : KState} (h1 : Keeps a b) (h2 : Keeps b c) : Keeps a c := by
  intro k n hn
  obtain ⟨n', hn', r1⟩ := h1 k n hn
  obtain ⟨n'', hn'', r2⟩ := h2 k n' hn'
  exact ⟨n'', hn'', r1.trans r2⟩

theorem keeps_mapNodes (s : KState) (g : Node → Node) (hg : ∀ k n, s.find? k = some n → RowKeep n (g n))
    (hkey : ∀ n, (g n).key = n.key) : Keeps s { s with nodes := s.nodes.map g } := by
  intro k n hn
  refine ⟨g n, ?_, hg k n hn⟩
  rw [find?_mapNodes s g hkey, hn]; rfl

/-- Every key of the work set that has a row belongs to an attached step. -/
def WorkOK (s : KState) (work : List Key) : Prop :=
  ∀ k ∈ work, ∀ n, s.find? k = some n → n.key.kind = .step ∧ n.detached = false

theorem keeps_round (s : KState) (cfg : KConfig) (work : List Key) (first : Bool) (hw : WorkOK s work) :
    Keeps s (s.applyAfterUpdates (s.afterUpdates cfg work first)) := by
  rw [applyAfterUpdates_eq]
  refine keeps_mapNodes s _ ?_ (applyG_key _)
  intro k n hn
  by_cases hwr : n.key ∈ (s.afterUpdates cfg work first).map (·.1)
  · obtain ⟨need, tail, hmem, heq⟩ := applyG_written hwr
    obtain ⟨hkw, n0, hf0, _⟩ := mem_afterUpdates hmem
    rw [find_key hn, hn] at hf0
    cases hf0
    have hatt := hw n.key hkw n (by rw [find_key hn]; exact hn)
    rw [heq]
    exact ⟨rfl, fun h => absurd hatt h, fun _ => rfl⟩
  · rw [applyG_not_written hwr]; exact RowKeep.refl n

theorem workOK_propagate (s : KState) (changed : List Key) : WorkOK s (s.propagateAfter changed) := by
  intro k hk n hn
  obtain ⟨_, n', hn', h1, h2⟩ := mem_propagateAfter.1 hk
  rw [hn] at hn'; cases hn'
  exact ⟨h1, h2⟩

theorem afterLoop_keeps (cfg : KConfig) (fuel : Nat) (s s' : KState) (work : List Key) (first : Bool)
    (hw : WorkOK s work) (h : KState.afterLoop cfg fuel s work first = some s') : Keeps s s' := by
  induction fuel generalizing s work first with
  | zero =>
    unfold KState.afterLoop at h
    split at h
    · simp only [Option.some.injEq] at h; subst h; exact Keeps.refl _
    · cases h
  | succ fuel ih =>
    unfold KState.afterLoop at h
    split at h
    · simp only [Option.some.injEq] at h; subst h; exact Keeps.refl _
    · exact (keeps_round s cfg work first hw).trans (ih _ _ _ (workOK_propagate _ _) h)

/-- **Frame, sharpened**: `_update_meta_after` writes the cached pair of attached steps only and the
flag of steps only. -/
theorem updateMetaAfter_keeps (s s' : KState) (cfg : KConfig) (hk : KeysUnique s)
    (h : s.updateMetaAfter cfg = .ok s') : Keeps s s' := by
  unfold KState.updateMetaAfter at h
  split at h
  · simp only [pure, Except.pure, Except.ok.injEq] at h; subst h; exact Keeps.refl _
  · dsimp only at h
    split at h
    · rename_i st hst
      simp only [pure, Except.pure, Except.ok.injEq] at h; subst h
      have hw : WorkOK s ((s.nodes.filter fun n => n.key.kind = .step ∧ !n.detached ∧ n.checkAfter).map (·.key)) := by
        intro k hk' n hn
        obtain ⟨n0, hn0, rfl⟩ := List.mem_map.1 hk'
        rw [List.mem_filter] at hn0
        rw [find?_of_mem hk hn0.1] at hn
        cases hn
        have := hn0.2
        simp only [Bool.and_eq_true, decide_eq_true_eq, Bool.not_eq_eq_eq_not, Bool.not_true,
          Bool.decide_and, Bool.decide_eq_true] at this
        exact ⟨this.1, this.2.1⟩
      refine (afterLoop_keeps cfg _ s st _ _ hw hst).trans ?_
      rw [modifyWhere_eq]
      refine keeps_mapNodes st _ ?_ ?_
      · intro _ n _
        by_cases hs : n.key.kind = Kind.step
        · simp only [hs, decide_true, if_true]
          exact ⟨rfl, fun _ => ⟨rfl, rfl⟩, fun h => absurd hs h⟩
        · simp only [hs, decide_false, Bool.false_eq_true, if_false]
          exact RowKeep.refl n
      · intro n; split <;> rfl
    · cases h

theorem keeps_flagAll (s : KState) : Keeps s (flagAll s) := by
  unfold flagAll
  refine keeps_mapNodes s _ ?_ ?_
  · intro _ n _
    by_cases hs : n.key.kind = Kind.step
    · rw [if_pos hs]; exact ⟨rfl, fun _ => ⟨rfl, rfl⟩, fun h => absurd hs h⟩
    · rw [if_neg hs]; exact RowKeep.refl n
  · intro n; split <;> rfl

theorem nodes_eq_of_erase (l1 l2 : List Node) (h : l1.map eraseAfter = l2.map eraseAfter)
    (hrow : ∀ a ∈ l1, ∀ b ∈ l2, a.key = b.key → a = b) : l1 = l2 := by
  induction l1 generalizing l2 with
  | nil =>
    cases l2 with
    | nil => rfl
    | cons b l2 => simp at h
  | cons a l1 ih =>
    cases l2 with
    | nil => simp at h
    | cons b l2 =>
      simp only [List.map_cons, List.cons.injEq] at h
      have hab := hrow a List.mem_cons_self b List.mem_cons_self (eraseAfter_key h.1)
      rw [hab, ih l2 h.2 fun x hx y hy => hrow x (List.mem_cons_of_mem _ hx) y (List.mem_cons_of_mem _ hy)]

/-- **Incremental = from scratch, as states.**  Under the flag discipline, on an acyclic table with
unique keys, the flag-driven `_update_meta_after` returns exactly the state that flagging every
step and recomputing returns. -/
theorem updateMetaAfter_eq_recomputeAfter (s s' : KState) (cfg : KConfig) (hac : Acyclic s) (hk : KeysUnique s)
    (hc : CacheInvAfter s cfg) (h : s.updateMetaAfter cfg = .ok s') : recomputeAfter s cfg = .ok s' := by
  obtain ⟨t, ht, hft, hcons⟩ := recomputeAfter_spec s cfg hac hk
  obtain ⟨_, hflag', hfr'⟩ := updateMetaAfter_correct s s' cfg hk hc h
  have huniq := updateMetaAfter_unique_solution_general s s' t cfg hk hc h hft hcons
  have hk' := keysUnique_frame hfr' hk
  have hkt := keysUnique_frame hft hk
  have hkeep' := updateMetaAfter_keeps s s' cfg hk h
  have hfrF := frame_flagAll s
  obtain ⟨_, hflagt, _⟩ := updateMetaAfter_correct (flagAll s) t cfg (keysUnique_frame hfrF hk)
    (cacheInv_flagAll s cfg) ht
  have hkeept : Keeps s t :=
    (keeps_flagAll s).trans (updateMetaAfter_keeps (flagAll s) t cfg (keysUnique_frame hfrF hk) ht)
  have hnodes : s'.nodes = t.nodes := by
    apply nodes_eq_of_erase
    · rw [hfr'.2.2, hft.2.2]
    · intro a ha b hb hab
      obtain ⟨n, hn, _⟩ := find?_frame_some hfr'.symm (find?_of_mem hk' ha)
      obtain ⟨a', ha', ra⟩ := hkeep' _ _ hn
      rw [find?_of_mem hk' ha] at ha'; cases ha'
      obtain ⟨b', hb', rb⟩ := hkeept _ _ hn
      rw [hab, find?_of_mem hkt hb] at hb'; cases hb'
      have hkey : n.key = a.key := (eraseAfter_key ra.1).symm
      have hdet : n.detached = a.detached := (eraseAfter_detached ra.1).symm
      by_cases hs : n.key.kind = .step
      · have hca : a.checkAfter = b.checkAfter := by
          rw [hflag' a ha (hkey ▸ hs), hflagt b hb (hab ▸ hkey ▸ hs)]
        by_cases hd : n.detached = false
        · have := huniq a ha b hb hab.symm (hkey ▸ hs) (hdet ▸ hd)
          exact eq_of_eraseAfter (ra.1.trans rb.1.symm) this.1 this.2 hca
        · have h1 := ra.2.1 (fun hh => hd hh.2)
          have h2 := rb.2.1 (fun hh => hd hh.2)
          exact eq_of_eraseAfter (ra.1.trans rb.1.symm) (h1.1.trans h2.1.symm) (h1.2.trans h2.2.symm) hca
      · have h1 := ra.2.1 (fun hh => hs hh.1)
        have h2 := rb.2.1 (fun hh => hs hh.1)
        exact eq_of_eraseAfter (ra.1.trans rb.1.symm) (h1.1.trans h2.1.symm) (h1.2.trans h2.2.symm)
          ((ra.2.2 hs).trans (rb.2.2 hs).symm)
  rw [ht]
  congr 1
  cases s'; cases t
  simp only [KState.mk.injEq]
  exact ⟨hnodes.symm, hft.1.trans hfr'.1.symm, hft.2.1.trans hfr'.2.1.symm⟩

theorem afterLoop_frame (cfg : KConfig) (fuel : Nat) (a b : KState) (w : List Key) (f : Bool)
    (hab : KState.afterLoop cfg fuel a w f = some b) : AfterFrame a b := by
  induction fuel generalizing a w f with
  | zero =>
    unfold KState.afterLoop at hab
    split at hab
    · simp only [Option.some.injEq] at hab; subst hab; exact AfterFrame.refl _
    · cases hab
  | succ fuel ih =>
    unfold KState.afterLoop at hab
    split at hab
    · simp only [Option.some.injEq] at hab; subst hab; exact AfterFrame.refl _
    · exact (frame_applyAfterUpdates a _).trans (ih _ _ _ hab)

/-- **Frame, unconditionally**: whatever the state, a successful `_update_meta_after` changes nothing
but `_implied_need`, `_tail_time`, `_check_after`. -/
theorem updateMetaAfter_frame (s s' : KState) (cfg : KConfig) (h : s.updateMetaAfter cfg = .ok s') :
    AfterFrame s s' := by
  unfold KState.updateMetaAfter at h
  split at h
  · simp only [pure, Except.pure, Except.ok.injEq] at h; subst h; exact AfterFrame.refl _
  · dsimp only at h
    split at h
    · rename_i st hst
      simp only [pure, Except.pure, Except.ok.injEq] at h; subst h
      refine (afterLoop_frame cfg _ s st _ _ hst).trans ?_
      rw [modifyWhere_eq]
      exact frame_mapNodes st _ (fun n => by split <;> rfl)
    · cases h

/-- The sharpened frame in terms of rows: a row of the result with the key of a row of the start is
that row up to the cached columns, with the cached pair kept unless it is an attached step and the
flag kept unless it is a step. -/
theorem updateMetaAfter_untouched (s s' : KState) (cfg : KConfig) (hk : KeysUnique s)
    (h : s.updateMetaAfter cfg = .ok s') :
    ∀ n ∈ s.nodes, ∀ n' ∈ s'.nodes, n'.key = n.key → RowKeep n n' := by
  intro n hn n' hn' hkey
  obtain ⟨m, hm, r⟩ := updateMetaAfter_keeps s s' cfg hk h _ _ (find?_of_mem hk hn)
  have := find?_of_mem (keysUnique_frame (updateMetaAfter_frame s s' cfg h) hk) hn'
  rw [hkey, hm] at this
  cases this
  exact r


/-! ## Executable forms (for a driver request or an oracle) -/

def afterLocalB (s : KState) (cfg : KConfig) (n : Node) : Bool :=
  decide ((n.impliedNeed, n.tail) = s.afterValues cfg n)

def afterConsistentB (s : KState) (cfg : KConfig) : Bool :=
  s.nodes.all fun n => !(decide (n.key.kind = .step) && !n.detached) || afterLocalB s cfg n

def cacheInvAfterB (s : KState) (cfg : KConfig) : Bool :=
  s.nodes.all fun n => !(decide (n.key.kind = .step) && !n.detached && !n.checkAfter) || afterLocalB s cfg n

theorem afterLocalB_iff (s : KState) (cfg : KConfig) (n : Node) : afterLocalB s cfg n = true ↔ AfterLocal s cfg n := by
  unfold afterLocalB AfterLocal
  exact decide_eq_true_iff

theorem afterConsistentB_iff (s : KState) (cfg : KConfig) : afterConsistentB s cfg = true ↔ AfterConsistent s cfg := by
  unfold afterConsistentB AfterConsistent
  rw [List.all_eq_true]
  constructor
  · intro h n hn hs hd
    have := h n hn
    simp only [hs, hd, decide_true, Bool.not_false, Bool.and_self, Bool.not_true, Bool.false_or] at this
    exact (afterLocalB_iff s cfg n).1 this
  · intro h n hn
    by_cases hc : n.key.kind = .step ∧ n.detached = false
    · simp only [hc.1, hc.2, decide_true, Bool.not_false, Bool.and_self, Bool.not_true, Bool.false_or]
      exact (afterLocalB_iff s cfg n).2 (h n hn hc.1 hc.2)
    · have : (decide (n.key.kind = .step) && !n.detached) = false := by
        cases hd : n.detached with
        | true => simp
        | false =>
          have : ¬ n.key.kind = .step := fun hs => hc ⟨hs, hd⟩
          simp [this]
      rw [this]; rfl

theorem cacheInvAfterB_iff (s : KState) (cfg : KConfig) : cacheInvAfterB s cfg = true ↔ CacheInvAfter s cfg := by
  unfold cacheInvAfterB CacheInvAfter
  rw [List.all_eq_true]
  constructor
  · intro h n hn hs hd hf
    have := h n hn
    simp only [hs, hd, hf, decide_true, Bool.not_false, Bool.and_self, Bool.not_true, Bool.false_or] at this
    exact (afterLocalB_iff s cfg n).1 this
  · intro h n hn
    by_cases hc : n.key.kind = .step ∧ n.detached = false ∧ n.checkAfter = false
    · simp only [hc.1, hc.2.1, hc.2.2, decide_true, Bool.not_false, Bool.and_self, Bool.not_true, Bool.false_or]
      exact (afterLocalB_iff s cfg n).2 (h n hn hc.1 hc.2.1 hc.2.2)
    · have : (decide (n.key.kind = .step) && !n.detached && !n.checkAfter) = false := by
        cases hd : n.detached with
        | true => simp
        | false =>
          cases hf : n.checkAfter with
          | true => simp
          | false =>
            have : ¬ n.key.kind = .step := fun hs => hc ⟨hs, hd, hf⟩
            simp [this]
      rw [this]; rfl

/-! ## Non-vacuity: a three-step example, and why the hypotheses are needed -/

/-- `a → f → b → t`, plus an unrelated optional step `c → g`; `t` is the target of the build.
All three steps are flagged and carry the defaults of a fresh row. -/
def exState : KState :=
  { nodes := [
      { key := rootKey, creator := some rootKey },
      { key := stepKey "a", creator := some rootKey, need := .optional, checkAfter := true },
      { key := fileKey "f", creator := some (stepKey "a"), fstate := .built, fhash := some 1 },
      { key := stepKey "b", creator := some rootKey, need := .optional, checkAfter := true },
      { key := fileKey "t", creator := some (stepKey "b"), fstate := .built, fhash := some 2 },
      { key := stepKey "c", creator := some rootKey, need := .optional, checkAfter := true },
      { key := fileKey "g", creator := some (stepKey "c"), fstate := .built, fhash := some 3 }],
    deps := [
      { src := stepKey "a", snk := fileKey "f" }, { src := fileKey "f", snk := stepKey "b" },
      { src := stepKey "b", snk := fileKey "t" }, { src := stepKey "c", snk := fileKey "g" }] }

def exCfg : KConfig := { targets := ["t"] }

def exCols (s : KState) : List (String × Need × Nat × Bool) :=
  (s.nodes.filter fun n => n.key.kind = .step).map fun n => (n.key.label, n.impliedNeed, n.tail, n.checkAfter)

/-- The hypotheses of `updateMetaAfter_correct`, `updateMetaAfter_no_hang` and
`updateMetaAfter_unique_solution` hold of the example, the run needs two rounds, and the result is
what the closed form says: the producer of the target and its (optional) supplier are TARGET, the
unrelated optional step stays OPTIONAL. -/
example : KeysUnique exState ∧ Acyclic exState ∧ CacheInvAfter exState exCfg ∧
    ((exState.updateMetaAfter exCfg).toOption.map exCols) =
      some [("a", .target, 2, false), ("b", .target, 1, false), ("c", .optional, 1, false)] := by
  refine ⟨by unfold KeysUnique; decide, (acyclicB_iff _).1 (by decide), ?_, by decide⟩
  unfold CacheInvAfter AfterLocal
  decide

/-- The flag discipline is needed: an unflagged stale row survives (this is the shape of the two
stale-`_implied_need` defects), and `_update_meta_after` does not notice. -/
def staleState : KState :=
  { nodes := [
      { key := rootKey, creator := some rootKey },
      { key := stepKey "a", creator := some rootKey, need := .optional, impliedNeed := .plan, checkAfter := false }] }

example : KeysUnique staleState ∧ Acyclic staleState ∧ ¬ CacheInvAfter staleState {} ∧
    staleState.updateMetaAfter {} = .ok staleState ∧ ¬ AfterConsistent staleState {} := by
  refine ⟨by unfold KeysUnique; decide, (acyclicB_iff _).1 (by decide), ?_, rfl, ?_⟩
  · unfold CacheInvAfter AfterLocal; decide
  · unfold AfterConsistent AfterLocal; decide

/-- Acyclicity is needed for termination: on `a → f → b → g → a` the tail times grow for ever (the
SQL loop of `_update_meta_after` would not end), and no assignment satisfies the local equations. -/
def cycState : KState :=
  { nodes := [
      { key := rootKey, creator := some rootKey },
      { key := stepKey "a", creator := some rootKey, checkAfter := true },
      { key := fileKey "f", creator := some (stepKey "a"), fstate := .built, fhash := some 1 },
      { key := stepKey "b", creator := some rootKey, checkAfter := true },
      { key := fileKey "g", creator := some (stepKey "b"), fstate := .built, fhash := some 2 }],
    deps := [
      { src := stepKey "a", snk := fileKey "f" }, { src := fileKey "f", snk := stepKey "b" },
      { src := stepKey "b", snk := fileKey "g" }, { src := fileKey "g", snk := stepKey "a" }] }

example : KeysUnique cycState ∧ CacheInvAfter cycState {} ∧ ¬ Acyclic cycState ∧
    (match cycState.updateMetaAfter {} with | .error .hang => true | _ => false) = true := by
  refine ⟨by unfold KeysUnique; decide, ?_, ?_, by decide⟩
  · unfold CacheInvAfter AfterLocal; decide
  · intro h; exact absurd ((acyclicB_iff _).2 h) (by decide)


end StepupModel.K.MetaAfter
