import StepupModel.K.Scheduler
/-!
# Preservation framework for row-level invariants of the kernel model

`FilesOK s`: every row satisfies the state/hash consistency `HashInv` (I5 of DESIGN 9/C09).
The lemmas here show that each primitive and each propagation routine preserves it; the
statements of the property live in `Props/C09.lean`.
-/
namespace StepupModel.K

def HashInv (st : FileState) (h : Option Nat) : Prop :=
  ((st = .confirmed ∨ st = .built ∨ st = .outdated) → h.isSome) ∧
  ((st = .missing ∨ st = .planned ∨ st = .volatile) → h = none)

def FilesOK (s : KState) : Prop := ∀ n ∈ s.nodes, HashInv n.fstate n.fhash

/-- A monadic step preserves `P` whenever it succeeds. -/
def Preserves (P : KState → Prop) (f : KState → M KState) : Prop :=
  ∀ s s', P s → f s = .ok s' → P s'

theorem preserves_bind {P : KState → Prop} {f g : KState → M KState} (hf : Preserves P f) (hg : Preserves P g)
    (s s' : KState) (hp : P s) (h : (f s >>= g) = .ok s') : P s' := by
  simp only [bind, Except.bind] at h
  cases hx : f s with
  | error e => simp [hx] at h
  | ok s1 => simp only [hx] at h; exact hg s1 s' (hf s s1 hp hx) h

/-- The workhorse for `do` blocks: a successful `x >>= g` where every success of `x` satisfies
`P` and `g` preserves `P`. -/
theorem bind_ok {P : KState → Prop} {x : M KState} {g : KState → M KState} {s' : KState}
    (h : (x >>= g) = .ok s') (hx : ∀ s1, x = .ok s1 → P s1) (hg : Preserves P g) : P s' := by
  simp only [bind, Except.bind] at h
  cases hxx : x with
  | error e => simp [hxx] at h
  | ok s1 => simp only [hxx] at h; exact hg s1 s' (hx s1 hxx) h

theorem preserves_pure {P : KState → Prop} (f : KState → KState) (hf : ∀ s, P s → P (f s)) :
    Preserves P (fun s => pure (f s)) := by
  intro s s' hp h
  simp only [pure, Except.pure, Except.ok.injEq] at h
  subst h; exact hf s hp

theorem foldlM_preserves {α : Type} (P : KState → Prop) (f : KState → α → M KState) (l : List α)
    (hf : ∀ x, Preserves P (fun s => f s x)) : Preserves P (fun s => l.foldlM f s) := by
  induction l with
  | nil => intro s s' hp h; simp [List.foldlM, pure, Except.pure] at h; subst h; exact hp
  | cons x xs ih =>
    intro s s' hp h
    simp only [List.foldlM_cons, bind, Except.bind] at h
    cases hx : f s x with
    | error e => simp [hx] at h
    | ok s1 =>
      simp only [hx] at h
      exact ih s1 s' (hf x s s1 hp hx) h

theorem filesOK_modify (s : KState) (k : Key) (f : Node → Node)
    (hf : ∀ n, HashInv n.fstate n.fhash → HashInv (f n).fstate (f n).fhash) (h : FilesOK s) :
    FilesOK (s.modify k f) := by
  intro n hn
  unfold KState.modify at hn
  simp only [List.mem_map] at hn
  obtain ⟨m, hm, rfl⟩ := hn
  by_cases hk : m.key = k
  · simp only [hk, if_true]; exact hf m (h m hm)
  · simp only [hk, if_false]; exact h m hm

theorem filesOK_modifyWhere (s : KState) (p : Node → Bool) (f : Node → Node)
    (hf : ∀ n, HashInv n.fstate n.fhash → HashInv (f n).fstate (f n).fhash) (h : FilesOK s) :
    FilesOK (s.modifyWhere p f) := by
  intro n hn
  unfold KState.modifyWhere at hn
  simp only [List.mem_map] at hn
  obtain ⟨m, hm, rfl⟩ := hn
  by_cases hk : p m = true
  · simp only [hk, if_true]; exact hf m (h m hm)
  · simp only [hk, if_false]; exact h m hm

theorem filesOK_flagReadySinks (s : KState) (k : Key) (h : FilesOK s) : FilesOK (s.flagReadySinks k) := by
  unfold KState.flagReadySinks
  exact filesOK_modifyWhere s _ _ (fun _ hn => hn) h

theorem mem_of_find? {s : KState} {k : Key} {n : Node} (h : s.find? k = some n) : n ∈ s.nodes :=
  List.mem_of_find?_eq_some h

/-- Row-level: the written row satisfies `HashInv` (restated from the definition of
`fileRowWrite`; the property statement is `Props.C09.fileRowWrite_inv`). -/
theorem fileRowWrite_hashInv (n n' : Node) (st : FileState) (nh : Option (Option Nat))
    (h : fileRowWrite n st nh = .ok n') : HashInv n'.fstate n'.fhash := by
  unfold fileRowWrite at h
  dsimp only at h
  by_cases hcheck : (st = .confirmed ∨ st = .built ∨ st = .outdated) ∧ (pickHash nh n.fhash).isNone
  · rw [if_pos hcheck] at h; cases h
  · by_cases hund : st = .undeclared ∧ (!n.detached) = true
    · rw [if_neg hcheck, if_pos hund] at h; cases h
    · rw [if_neg hcheck, if_neg hund] at h
      simp only [pure, Except.pure, Except.ok.injEq] at h
      subst h
      constructor
      · intro hst
        have hcl : clearsHash n.fstate st = false := by
          rcases hst with rfl | rfl | rfl <;> simp [clearsHash]
        simp only [hcl, Bool.false_eq_true, if_false]
        cases hh : pickHash nh n.fhash with
        | some v => simp
        | none => exact absurd ⟨hst, by simp [hh]⟩ hcheck
      · intro hst
        have hcl : clearsHash n.fstate st = true := by
          rcases hst with rfl | rfl | rfl <;> simp [clearsHash]
        simp [hcl]

theorem writeFile_preserves (k : Key) (st : FileState) (nh : Option (Option Nat)) :
    Preserves FilesOK (fun s => s.writeFile k st nh) := by
  intro s s' hp h
  unfold KState.writeFile at h
  cases hf : s.find? k with
  | none => simp [hf, pure, Except.pure] at h; subst h; exact hp
  | some n =>
    simp only [hf, bind, Except.bind] at h
    cases hw : fileRowWrite n st nh with
    | error e => simp [hw] at h
    | ok n' =>
      simp only [hw, pure, Except.pure, Except.ok.injEq] at h
      have hrow := fileRowWrite_hashInv n n' st nh hw
      have hmod : FilesOK (s.modify k fun _ => n') := filesOK_modify s k _ (fun _ _ => hrow) hp
      subst h
      split
      · exact filesOK_flagReadySinks _ _ hmod
      · exact hmod

theorem setFileState_preserves (k : Key) (st : FileState) :
    Preserves FilesOK (fun s => s.setFileState k st) := writeFile_preserves k st none

theorem writeStepState_preserves (k : Key) (st : StepState) (d : Option Bool) :
    Preserves FilesOK (fun s => s.writeStepState k st d) := by
  intro s s' hp h
  unfold KState.writeStepState at h
  cases hf : s.find? k with
  | none => simp [hf, pure, Except.pure] at h; subst h; exact hp
  | some n =>
    simp only [hf, bind, Except.bind] at h
    cases hw : stepRowWrite n st d with
    | error e => simp [hw] at h
    | ok n' =>
      simp only [hw, pure, Except.pure, Except.ok.injEq] at h
      subst h
      have hn : HashInv n.fstate n.fhash := hp n (mem_of_find? hf)
      have hrow : HashInv n'.fstate n'.fhash := by
        unfold stepRowWrite at hw
        dsimp only at hw
        split at hw
        · cases hw
        · simp only [pure, Except.pure, Except.ok.injEq] at hw
          subst hw
          exact hn
      exact filesOK_modify s k _ (fun _ _ => hrow) hp

theorem setStepState_preserves (k : Key) (st : StepState) (d : Bool) :
    Preserves FilesOK (fun s => s.setStepState k st d) := writeStepState_preserves k st (some d)

/-- `mark_step_pending` (with the `mark_file_outdated` / `mark_consuming_steps_pending` recursion)
preserves state/hash consistency, for every fuel. -/
theorem markStepPending_preserves (fuel : Nat) (k : Key) :
    Preserves FilesOK (fun s => StepupModel.K.markStepPending fuel s k) := by
  induction fuel generalizing k with
  | zero => intro s s' _ h; simp [StepupModel.K.markStepPending] at h
  | succ fuel ih =>
    intro s s' hp h
    unfold StepupModel.K.markStepPending at h
    cases hf : s.find? k with
    | none => simp [hf, pure, Except.pure] at h; subst h; exact hp
    | some n =>
      simp only [hf] at h
      split at h
      · simp only [pure, Except.pure, Except.ok.injEq] at h; subst h; exact hp
      · simp only [bind, Except.bind] at h
        cases hs : s.setStepState k StepState.pending with
        | error e => simp [hs] at h
        | ok s1 =>
          simp only [hs] at h
          have hp1 : FilesOK s1 := setStepState_preserves k .pending false s s1 hp hs
          split at h
          · -- fold over the sink files
            refine foldlM_preserves FilesOK _ (s1.sinksOf k) ?_ s1 s' hp1 h
            intro f st st' hst hstep
            cases hff : st.find? f with
            | none => simp [hff, pure, Except.pure] at hstep; subst hstep; exact hst
            | some fn =>
              simp only [hff] at hstep
              split at hstep
              · cases hso : st.setFileState f FileState.outdated with
                | error e => simp [hso, bind, Except.bind] at hstep
                | ok st1 =>
                  simp only [hso, bind, Except.bind] at hstep
                  have hst1 := setFileState_preserves f .outdated st st1 hst hso
                  exact foldlM_preserves FilesOK _ _ (fun t => ih t) st1 st' hst1 hstep
              · simp only [pure, Except.pure, Except.ok.injEq] at hstep; subst hstep; exact hst
          · simp only [pure, Except.pure, Except.ok.injEq] at h; subst h; exact hp1

theorem markStepPending'_preserves (k : Key) : Preserves FilesOK (fun s => s.markStepPending k) := by
  intro s s' hp h
  exact markStepPending_preserves s.fuel k s s' hp h

theorem markConsumersPending_preserves (f : Key) : Preserves FilesOK (fun s => s.markConsumersPending f) := by
  intro s s' hp h
  unfold KState.markConsumersPending at h
  exact foldlM_preserves FilesOK _ _ (fun t => markStepPending'_preserves t) s s' hp h

theorem markFileOutdated_preserves (f : Key) : Preserves FilesOK (fun s => s.markFileOutdated f) := by
  intro s s' hp h
  unfold KState.markFileOutdated at h
  cases hf : s.find? f with
  | none => simp [hf, pure, Except.pure] at h; subst h; exact hp
  | some n =>
    simp only [hf] at h
    split at h
    · simp only [bind, Except.bind] at h
      cases hs : s.setFileState f FileState.outdated with
      | error e => simp [hs] at h
      | ok s1 =>
        simp only [hs] at h
        exact markConsumersPending_preserves f s1 s' (setFileState_preserves f .outdated s s1 hp hs) h
    · split at h
      · simp only [pure, Except.pure, Except.ok.injEq] at h; subst h; exact hp
      · cases h

theorem pendCreator_preserves (f : Key) : Preserves FilesOK (fun s => s.pendCreator f) := by
  intro s s' hp h
  replace h : s.pendCreator f = .ok s' := h
  unfold KState.pendCreator at h
  cases hc : s.creatorStep f with
  | none => simp [hc, pure, Except.pure] at h; subst h; exact hp
  | some c => simp only [hc] at h; exact markStepPending'_preserves c s s' hp h

theorem handleUpdated_preserves (f : Key) : Preserves FilesOK (fun s => s.handleUpdated f) := by
  intro s s' hp h
  replace h : s.handleUpdated f = .ok s' := h
  unfold KState.handleUpdated at h
  by_cases h1 : s.fileState? f = some .confirmed
  · rw [if_pos h1] at h; exact markConsumersPending_preserves f s s' hp h
  · rw [if_neg h1] at h
    by_cases h2 : s.fileState? f = some .planned ∨ s.fileState? f = some .outdated
    · rw [if_pos h2] at h; exact pendCreator_preserves f s s' hp h
    · rw [if_neg h2] at h
      simp only [pure, Except.pure, Except.ok.injEq] at h; subst h; exact hp

theorem handleDeleted_preserves (f : Key) : Preserves FilesOK (fun s => s.handleDeleted f) := by
  intro s s' hp h
  replace h : s.handleDeleted f = .ok s' := h
  unfold KState.handleDeleted at h
  simp only [bind, Except.bind] at h
  by_cases h1 : s.fileState? f = some .planned
  · rw [if_pos h1] at h
    cases hc : s.pendCreator f with
    | error e => simp [hc] at h
    | ok s1 =>
      simp only [hc] at h
      exact markConsumersPending_preserves f s1 s' (pendCreator_preserves f s s1 hp hc) h
  · rw [if_neg h1] at h
    simp only [pure, Except.pure] at h
    exact markConsumersPending_preserves f s s' hp h

/-- **`update_file_hashes` preserves state/hash consistency of every file row**, for every
cause, every set of paths and hashes, accepted or not. -/
theorem updateFileHashes_preserves (updates : List (String × Option Nat)) (cause : Cause) :
    Preserves FilesOK (fun s => s.updateFileHashes updates cause) := by
  intro s s' hp h
  replace h : s.updateFileHashes updates cause = .ok s' := h
  unfold KState.updateFileHashes at h
  split at h
  · simp only [pure, Except.pure, Except.ok.injEq] at h; subst h; exact hp
  · simp only [bind, Except.bind] at h
    split at h
    · cases h
    · rename_i recs _
      split at h
      · cases h
      · rename_i s1 h1
        have hp1 := foldlM_preserves FilesOK _ recs
          (fun (r : HashRec) => writeFile_preserves r.key r.newState (some r.newHash)) s s1 hp h1
        split at h
        · cases h
        · rename_i s2 h2
          have hp2 := foldlM_preserves FilesOK _ _ (fun (r : HashRec) => handleUpdated_preserves r.key) s1 s2 hp1 h2
          split at h
          · cases h
          · rename_i s3 h3
            have hp3 := foldlM_preserves FilesOK _ _ (fun (r : HashRec) => handleDeleted_preserves r.key) s2 s3 hp2 h3
            exact foldlM_preserves FilesOK _ _ (fun (r : HashRec) => markConsumersPending_preserves r.key) s3 s' hp3 h

end StepupModel.K

namespace StepupModel.K

/-! ### Trellis operations touch no file column -/

theorem filesOK_of_nodes_eq {s s' : KState} (h : s'.nodes = s.nodes) (hp : FilesOK s) : FilesOK s' := by
  intro n hn; rw [h] at hn; exact hp n hn

theorem filesOK_deleteDeps (s : KState) (p : Dep → Bool) (hp : FilesOK s) : FilesOK (s.deleteDeps p) := by
  unfold KState.deleteDeps
  generalize (s.deps.filter p) = gone
  have base : FilesOK ({ s with deps := s.deps.filter fun d => !p d } : KState) := fun n hn => hp n hn
  generalize ({ s with deps := s.deps.filter fun d => !p d } : KState) = s0 at base
  induction gone generalizing s0 with
  | nil => exact base
  | cons d ds ih =>
    simp only [List.foldl_cons]
    apply ih
    unfold KState.flagDepEndpoints
    exact filesOK_modifyWhere _ _ _ (fun _ h => h) base

theorem filesOK_setDetachedRow (s : KState) (k : Key) (d : Bool) (hp : FilesOK s) : FilesOK (s.setDetachedRow k d) := by
  unfold KState.setDetachedRow
  cases hf : s.find? k with
  | none => exact hp
  | some n =>
    simp only
    have h1 : FilesOK (s.modify k fun n => { n with detached := d }) := filesOK_modify s k _ (fun _ h => h) hp
    split
    · exact filesOK_flagReadySinks _ _ h1
    · exact h1

theorem filesOK_setDetachedRec (s : KState) (k : Key) (d : Bool) (hp : FilesOK s) : FilesOK (s.setDetachedRec k d) := by
  unfold KState.setDetachedRec
  generalize s.descendants k = l
  induction l generalizing s with
  | nil => exact hp
  | cons x xs ih => simp only [List.foldl_cons]; exact ih _ (filesOK_setDetachedRow s x d hp)

theorem setCreator_preserves (k : Key) (c : Option Key) (d : Bool) :
    Preserves FilesOK (fun s => s.setCreator k c d) := by
  intro s s' hp h
  replace h : s.setCreator k c d = .ok s' := h
  unfold KState.setCreator at h
  split at h
  · simp only [pure, Except.pure, Except.ok.injEq] at h
    subst h
    exact filesOK_setDetachedRow _ _ _ (filesOK_modify s k _ (fun _ h => h) hp)
  · cases h

theorem flagChecksWithProducts_preserves (k : Key) : Preserves FilesOK (fun s => s.flagChecksWithProducts k) := by
  intro s s' hp h
  replace h : s.flagChecksWithProducts k = .ok s' := h
  unfold KState.flagChecksWithProducts at h
  split at h
  · cases h
  · simp only [pure, Except.pure, Except.ok.injEq] at h
    subst h
    exact filesOK_modifyWhere _ _ _ (fun _ h => h) hp

theorem flagCheckAfterSources_preserves (k : Key) : Preserves FilesOK (fun s => s.flagCheckAfterSources k) := by
  intro s s' hp h
  replace h : s.flagCheckAfterSources k = .ok s' := h
  unfold KState.flagCheckAfterSources at h
  split at h
  · cases h
  · simp only [pure, Except.pure, Except.ok.injEq] at h
    subst h
    exact filesOK_modifyWhere _ _ _ (fun _ h => h) hp

theorem detachCore_preserves (k : Key) (n : Node) : Preserves FilesOK (fun s => s.detachCore k n) := by
  intro s s' hp h
  replace h : s.detachCore k n = .ok s' := h
  unfold KState.detachCore at h
  split at h
  · refine preserves_bind (setCreator_preserves k none true) ?_ s s' hp h
    intro s1 s2 hp1 h1
    simp only [pure, Except.pure, Except.ok.injEq] at h1
    subst h1
    split
    · exact filesOK_setDetachedRec _ _ _ hp1
    · exact hp1
  · simp only [pure, Except.pure, Except.ok.injEq] at h; subst h; exact hp

theorem detachFlags_preserves (k : Key) : Preserves FilesOK (fun s => s.detachFlags k) := by
  intro s s' hp h
  replace h : s.detachFlags k = .ok s' := h
  unfold KState.detachFlags at h
  split at h
  · exact preserves_bind (flagChecksWithProducts_preserves k) (flagCheckAfterSources_preserves k) s s' hp h
  · simp only [pure, Except.pure, Except.ok.injEq] at h; subst h; exact hp

theorem detach_preserves (k : Key) : Preserves FilesOK (fun s => s.detach k) := by
  intro s s' hp h
  replace h : s.detach k = .ok s' := h
  unfold KState.detach at h
  cases hf : s.find? k with
  | none => simp [hf] at h
  | some n =>
    simp only [hf] at h
    exact preserves_bind (detachCore_preserves k n) (detachFlags_preserves k) s s' hp h

theorem filesOK_setHash (s : KState) (k : Key) (h : Nat) (hp : FilesOK s) : FilesOK (s.setHash k h) :=
  filesOK_modify s k _ (fun _ h => h) hp

theorem filesOK_deleteHash (s : KState) (k : Key) (hp : FilesOK s) : FilesOK (s.deleteHash k) := by
  unfold KState.deleteHash
  refine filesOK_modify s k _ ?_ hp
  intro n hn
  split
  · exact hn
  · exact hn

theorem detachCreatedSteps_preserves (k : Key) : Preserves FilesOK (fun s => s.detachCreatedSteps k) := by
  intro s s' hp h
  replace h : s.detachCreatedSteps k = .ok s' := h
  unfold KState.detachCreatedSteps at h
  exact foldlM_preserves FilesOK _ _ (fun (p : Node) => detach_preserves p.key) s s' hp h

theorem detachProductsWhere_preserves (k : Key) (p : Node → Bool) :
    Preserves FilesOK (fun s => s.detachProductsWhere k p) := by
  intro s s' hp h
  replace h : s.detachProductsWhere k p = .ok s' := h
  unfold KState.detachProductsWhere at h
  exact foldlM_preserves FilesOK _ _ (fun (n : Node) => detach_preserves n.key) s s' hp h

end StepupModel.K

namespace StepupModel.K

/-! ### Completion, cleanup and startup requests -/

theorem filesOK_dropDynamicInputs (s : KState) (k : Key) (hp : FilesOK s) : FilesOK (s.dropDynamicInputs k) := by
  unfold KState.dropDynamicInputs KState.flagDynamicSuppliers
  exact filesOK_modify _ _ _ (fun _ h => h) (filesOK_deleteDeps _ _ (filesOK_modifyWhere _ _ _ (fun _ h => h) hp))

theorem dropDynamicSink_preserves (step k : Key) : Preserves FilesOK (fun s => s.dropDynamicSink step k) := by
  intro s s' hp h
  replace h : s.dropDynamicSink step k = .ok s' := h
  unfold KState.dropDynamicSink at h
  exact detach_preserves k _ s' (filesOK_deleteDeps s _ hp) h

theorem outdateBuilt_preserves (k : Key) : Preserves FilesOK (fun s => s.outdateBuilt k) := by
  intro s s' hp h
  replace h : s.outdateBuilt k = .ok s' := h
  unfold KState.outdateBuilt at h
  exact foldlM_preserves FilesOK _ _ (fun (n : Node) => markFileOutdated_preserves n.key) s s' hp h

/-- `Step.reset_for_rerun` preserves state/hash consistency. -/
theorem resetForRerun_preserves (k : Key) : Preserves FilesOK (fun s => s.resetForRerun k) := by
  intro s s' hp h
  replace h : s.resetForRerun k = .ok s' := h
  unfold KState.resetForRerun at h
  dsimp only at h
  refine bind_ok h (fun s2 h2 => ?_) ?_
  · exact foldlM_preserves FilesOK _ _ (fun t => dropDynamicSink_preserves k t) _ s2
      (filesOK_dropDynamicInputs s k hp) h2
  · intro s2 s2' hp2 hh2
    refine bind_ok hh2 (fun s3 h3 => detachCreatedSteps_preserves k s2 s3 hp2 h3) ?_
    intro s3 s3' hp3 hh3
    refine bind_ok hh3 (fun s4 h4 => detachProductsWhere_preserves k _ s3 s4 hp3 h4) ?_
    intro s4 s4' hp4 hh4
    refine bind_ok hh4 (fun s5 h5 => detachProductsWhere_preserves k _ s4 s5 hp4 h5) ?_
    exact outdateBuilt_preserves k

theorem outdateBuiltProducts_preserves (k : Key) : Preserves FilesOK (fun s => s.outdateBuiltProducts k) := by
  intro s s' hp h
  replace h : s.outdateBuiltProducts k = .ok s' := h
  unfold KState.outdateBuiltProducts at h
  exact foldlM_preserves FilesOK _ _ (fun (f : Node) => setFileState_preserves f.key .outdated) s s' hp h

theorem rebuildOutdatedProducts_preserves (k : Key) : Preserves FilesOK (fun s => s.rebuildOutdatedProducts k) := by
  intro s s' hp h
  replace h : s.rebuildOutdatedProducts k = .ok s' := h
  unfold KState.rebuildOutdatedProducts at h
  refine foldlM_preserves FilesOK _ _ (fun (f : Node) => ?_) s s' hp h
  intro st st' hst hh
  simp only at hh
  split at hh
  · exact preserves_bind (setFileState_preserves f.key .built) (markConsumersPending_preserves f.key) st st' hst hh
  · simp only [pure, Except.pure, Except.ok.injEq] at hh; subst hh; exact hst

theorem completeFailure_preserves (cfg : KConfig) (k : Key) (wd : Bool) :
    Preserves FilesOK (fun s => s.completeFailure cfg k wd) := by
  intro s s' hp h
  replace h : s.completeFailure cfg k wd = .ok s' := h
  unfold KState.completeFailure at h
  refine bind_ok h (fun s1 h1 => outdateBuiltProducts_preserves k s s1 hp h1) ?_
  intro s1 s1' hp1 hh1
  refine bind_ok hh1 (fun s2 h2 => ?_) ?_
  · have hb : FilesOK (s1.bumpDeferCount k wd) := by
      unfold KState.bumpDeferCount
      split
      · exact filesOK_modify _ _ _ (fun _ h => h) hp1
      · exact hp1
    unfold KState.writeFailureState at h2
    split at h2
    · exact setStepState_preserves k .pending _ _ s2 hb h2
    · exact setStepState_preserves k .failed false _ s2 hb h2
  · intro s2 s2' hp2 hh2
    refine bind_ok hh2 (fun s3 h3 => ?_) ?_
    · unfold KState.detachCreatedIfFailed at h3
      split at h3
      · exact detachCreatedSteps_preserves k s2 s3 hp2 h3
      · simp only [pure, Except.pure, Except.ok.injEq] at h3; subst h3; exact hp2
    · exact preserves_pure _ (fun s hs => filesOK_deleteHash s k hs)

theorem completeSuccess_preserves (cfg : KConfig) (k : Key) (hh : Nat) : Preserves FilesOK (fun s => s.completeSuccess cfg k hh) := by
  intro s s' hp h
  replace h : s.completeSuccess cfg k hh = .ok s' := h
  unfold KState.completeSuccess at h
  refine bind_ok h (fun s1 h1 => setStepState_preserves k .succeeded false s s1 hp h1) ?_
  intro s1 s1' hp1 hh1
  refine bind_ok hh1 (fun s2 h2 => rebuildOutdatedProducts_preserves k s1 s2 hp1 h2) ?_
  exact preserves_pure _ (fun s hs => filesOK_modify _ _ _ (fun _ h => h) (filesOK_setHash s k hh hs))

/-- `Step.mark_completed` preserves state/hash consistency (both outcomes, with or without a
deferral). -/
theorem markCompleted_preserves (cfg : KConfig) (k : Key) (nh : Option Nat) (wd : Bool) (s s' : KState) (b : Bool)
    (hp : FilesOK s) (h : s.markCompleted cfg k nh wd = .ok (s', b)) : FilesOK s' := by
  unfold KState.markCompleted at h
  cases nh with
  | none =>
    simp only [bind, Except.bind] at h
    cases h1 : s.completeFailure cfg k wd with
    | error e => simp [h1] at h
    | ok s1 =>
      simp only [h1, pure, Except.pure, Except.ok.injEq, Prod.mk.injEq] at h
      obtain ⟨rfl, _⟩ := h
      exact completeFailure_preserves cfg k wd s s1 hp h1
  | some hh =>
    simp only [bind, Except.bind] at h
    cases h1 : s.completeSuccess cfg k hh with
    | error e => simp [h1] at h
    | ok s1 =>
      simp only [h1, pure, Except.pure, Except.ok.injEq, Prod.mk.injEq] at h
      obtain ⟨rfl, _⟩ := h
      exact completeSuccess_preserves cfg k hh s s1 hp h1

theorem filesOK_queueDelete (s : KState) (p : String) (h : Option Nat) (hp : FilesOK s) : FilesOK (s.queueDelete p h) :=
  fun n hn => hp n hn

theorem filesOK_markDir (s : KState) (d : String) (hp : FilesOK s) : FilesOK (s.markDirToBeDeleted d) := by
  unfold KState.markDirToBeDeleted
  split
  · exact hp
  · exact filesOK_queueDelete _ _ _ hp

theorem revertOutput_preserves (f : Key) : Preserves FilesOK (fun s => s.revertOutput f) := by
  intro s s' hp h
  replace h : s.revertOutput f = .ok s' := h
  unfold KState.revertOutput at h
  cases hf : s.find? f with
  | none => simp [hf, pure, Except.pure] at h; subst h; exact hp
  | some fn =>
    simp only [hf] at h
    split at h
    · split at h
      · exact writeFile_preserves f .planned (some none) _ s' (filesOK_markDir _ _ (filesOK_queueDelete _ _ _ hp)) h
      · simp only [pure, Except.pure, Except.ok.injEq] at h; subst h
        exact filesOK_markDir _ _ (filesOK_queueDelete _ _ _ hp)
    · simp only [pure, Except.pure, Except.ok.injEq] at h; subst h; exact hp

/-- `finalize.revert_optional_steps` preserves state/hash consistency: the reset outputs lose
their hash together with their BUILT/OUTDATED state. -/
theorem revertStep_preserves (n : Node) : Preserves FilesOK (fun s => s.revertStep n) := by
  intro s s' hp h
  replace h : s.revertStep n = .ok s' := h
  unfold KState.revertStep at h
  refine bind_ok h (fun a ha => ?_) ?_
  · unfold KState.pendIfNot at ha
    split at ha
    · exact writeStepState_preserves n.key .pending none s a hp ha
    · simp only [pure, Except.pure, Except.ok.injEq] at ha; subst ha; exact hp
  · intro a a' ha hh2
    exact foldlM_preserves FilesOK _ _ (fun f => revertOutput_preserves f) a a' ha hh2

theorem revertOptional_preserves : Preserves FilesOK (fun s => s.revertOptional) := by
  intro s s' hp h
  replace h : s.revertOptional = .ok s' := h
  unfold KState.revertOptional at h
  exact foldlM_preserves FilesOK _ _ (fun (n : Node) => revertStep_preserves n) s s' hp h

/-- `startup.reset_interrupted_steps` preserves state/hash consistency. -/
theorem resetInterrupted_preserves : Preserves FilesOK (fun s => s.resetInterrupted) := by
  intro s s' hp h
  replace h : s.resetInterrupted = .ok s' := h
  unfold KState.resetInterrupted at h
  refine bind_ok h (fun s1 h1 => ?_) ?_
  · exact foldlM_preserves FilesOK _ _ (fun (n : Node) => writeStepState_preserves n.key .failed none) s s1 hp h1
  · intro s1 s1' hp1 hh1
    refine bind_ok hh1 (fun s2 h2 => ?_) ?_
    · exact foldlM_preserves FilesOK _ _ (fun (n : Node) => writeStepState_preserves n.key .pending none) s1 s2 hp1 h2
    · intro s2 s2' hp2 hh2
      exact foldlM_preserves FilesOK _ _ (fun (n : Node) => markStepPending'_preserves n.key) s2 s2' hp2 hh2

theorem rescanEnvVars_preserves (cfg : KConfig) : Preserves FilesOK (fun s => s.rescanEnvVars cfg) := by
  intro s s' hp h
  replace h : s.rescanEnvVars cfg = .ok s' := h
  unfold KState.rescanEnvVars at h
  exact foldlM_preserves FilesOK _ _ (fun (n : Node) => markStepPending'_preserves n.key) s s' hp h

theorem checkConsistency_preserves : Preserves FilesOK (fun s => s.checkConsistency) := by
  intro s s' hp h
  replace h : s.checkConsistency = .ok s' := h
  unfold KState.checkConsistency at h
  exact foldlM_preserves FilesOK (fun (st : KState) (n : Node) => st.markStepPending n.key) _
    (fun n => markStepPending'_preserves n.key) s s' hp h

theorem hold_preserves (k : Key) : Preserves FilesOK (fun s => s.hold k) := by
  intro s s' hp h
  replace h : s.hold k = .ok s' := h
  unfold KState.hold at h
  simp only [bind, Except.bind] at h
  have hp1 : FilesOK (s.modify k fun n => { n with holding := n.holding + 1 }) :=
    filesOK_modify _ _ _ (fun _ h => h) hp
  split at h
  · exact flagChecksWithProducts_preserves k _ s' hp1 h
  · simp only [pure, Except.pure, Except.ok.injEq] at h; subst h; exact hp1

theorem release_preserves (k : Key) : Preserves FilesOK (fun s => s.release k) := by
  intro s s' hp h
  replace h : s.release k = .ok s' := h
  unfold KState.release at h
  cases hf : s.find? k with
  | none => simp [hf, graphErr] at h
  | some n =>
    simp only [hf, bind, Except.bind] at h
    split at h
    · cases h
    · have hp1 : FilesOK (s.modify k fun n => { n with holding := n.holding - 1 }) :=
        filesOK_modify _ _ _ (fun _ h => h) hp
      split at h
      · exact flagChecksWithProducts_preserves k _ s' hp1 h
      · simp only [pure, Except.pure, Except.ok.injEq] at h; subst h; exact hp1

end StepupModel.K

namespace StepupModel.K

/-! ### Scheduler requests -/

theorem updateMetaSafe_preserves : Preserves FilesOK (fun s => s.updateMetaSafe) := by
  intro s s' hp h
  replace h : s.updateMetaSafe = .ok s' := h
  unfold KState.updateMetaSafe at h
  simp only [bind, Except.bind] at h
  split at h
  · simp only [pure, Except.pure, Except.ok.injEq] at h; subst h; exact hp
  · split at h
    · cases h
    · simp only [pure, Except.pure, Except.ok.injEq] at h
      subst h
      refine filesOK_modifyWhere _ _ _ (fun _ h => h) (filesOK_modifyWhere _ _ _ ?_ hp)
      intro n hn
      split
      · exact hn
      · exact hn

theorem filesOK_applyAfterUpdates (s : KState) (u : List (Key × Need × Nat)) (hp : FilesOK s) :
    FilesOK (s.applyAfterUpdates u) := by
  unfold KState.applyAfterUpdates
  refine filesOK_modifyWhere _ _ _ ?_ hp
  intro n hn
  split
  · exact hn
  · exact hn

theorem afterLoop_preserves (cfg : KConfig) (fuel : Nat) (s s' : KState) (work : List Key) (first : Bool)
    (hp : FilesOK s) (h : KState.afterLoop cfg fuel s work first = some s') : FilesOK s' := by
  induction fuel generalizing s work first with
  | zero =>
    unfold KState.afterLoop at h
    split at h
    · simp only [Option.some.injEq] at h; subst h; exact hp
    · cases h
  | succ fuel ih =>
    unfold KState.afterLoop at h
    split at h
    · simp only [Option.some.injEq] at h; subst h; exact hp
    · exact ih _ _ _ (filesOK_applyAfterUpdates s _ hp) h

theorem updateMetaAfter_preserves (cfg : KConfig) : Preserves FilesOK (fun s => s.updateMetaAfter cfg) := by
  intro s s' hp h
  replace h : s.updateMetaAfter cfg = .ok s' := h
  unfold KState.updateMetaAfter at h
  split at h
  · simp only [pure, Except.pure, Except.ok.injEq] at h; subst h; exact hp
  · dsimp only at h
    split at h
    · rename_i st hst
      simp only [pure, Except.pure, Except.ok.injEq] at h
      subst h
      exact filesOK_modifyWhere _ _ _ (fun _ h => h) (afterLoop_preserves cfg _ s st _ _ hp hst)
    · cases h

theorem filesOK_updateMetaReady (s : KState) (hp : FilesOK s) : FilesOK s.updateMetaReady := by
  unfold KState.updateMetaReady
  exact filesOK_modifyWhere _ _ _ (fun _ h => h) hp

theorem updateMeta_preserves (cfg : KConfig) : Preserves FilesOK (fun s => s.updateMeta cfg) := by
  intro s s' hp h
  replace h : s.updateMeta cfg = .ok s' := h
  unfold KState.updateMeta at h
  refine bind_ok h (fun s1 h1 => updateMetaSafe_preserves s s1 hp h1) ?_
  intro s1 s1' hp1 hh1
  refine bind_ok hh1 (fun s2 h2 => updateMetaAfter_preserves cfg s1 s2 hp1 h2) ?_
  exact preserves_pure _ (fun s hs => filesOK_updateMetaReady s hs)

/-- `pop_next_job` preserves state/hash consistency. -/
theorem popNext_preserves (cfg : KConfig) (choice : Option Key) (s s' : KState) (d : Dispatch)
    (hp : FilesOK s) (h : s.popNext cfg choice = .ok (s', d)) : FilesOK s' := by
  unfold KState.popNext at h
  simp only [bind, Except.bind] at h
  cases hu : s.updateMeta cfg with
  | error e => simp [hu] at h
  | ok su =>
    simp only [hu] at h
    have hpu := updateMeta_preserves cfg s su hp hu
    cases choice with
    | none =>
      simp only at h
      split at h
      · simp only [pure, Except.pure, Except.ok.injEq, Prod.mk.injEq] at h
        obtain ⟨rfl, _⟩ := h; exact hpu
      · cases h
    | some k =>
      simp only at h
      split at h
      · cases h
      · rename_i n hn
        split at h
        · cases h
        · split at h
          · cases h
          · cases hj : su.deriveJob k with
            | error e => simp [hj] at h
            | ok run =>
              simp only [hj] at h
              cases hs : su.setStepState k (if n.hasHash = true then StepState.checking else StepState.running) with
              | error e => simp [hs] at h
              | ok s2 =>
                simp only [hs, pure, Except.pure, Except.ok.injEq, Prod.mk.injEq] at h
                obtain ⟨rfl, _⟩ := h
                exact setStepState_preserves k _ false su s2 hpu hs

theorem reconcileTarget_preserves (t : String) : Preserves FilesOK (fun s => s.reconcileTarget t) := by
  intro s s' hp h
  replace h : s.reconcileTarget t = .ok s' := h
  unfold KState.reconcileTarget at h
  cases hf : s.find? (fileKey t) with
  | none => simp [hf, pure, Except.pure] at h; subst h; exact hp
  | some f =>
    simp only [hf] at h
    split at h
    · simp only [pure, Except.pure, Except.ok.injEq] at h; subst h; exact hp
    · split at h
      · split at h
        · simp [graphErr] at h
        · simp only [pure, Except.pure, Except.ok.injEq] at h; subst h; exact hp
      · split at h
        · simp only [pure, Except.pure, Except.ok.injEq] at h; subst h
          exact filesOK_modify _ _ _ (fun _ h => h) hp
        · simp only [pure, Except.pure, Except.ok.injEq] at h; subst h; exact hp

theorem reconcileTargets_preserves (cfg : KConfig) : Preserves FilesOK (fun s => s.reconcileTargets cfg) := by
  intro s s' hp h
  replace h : s.reconcileTargets cfg = .ok s' := h
  unfold KState.reconcileTargets at h
  dsimp only at h
  refine bind_ok h (fun s1 h1 => ?_) ?_
  · have hp0 : FilesOK (s.modifyWhere (fun n => n.key.kind = .step ∧ n.impliedNeed = .target)
        fun n => { n with checkAfter := true }) := filesOK_modifyWhere _ _ _ (fun _ h => h) hp
    exact foldlM_preserves FilesOK (fun st t => st.reconcileTarget t) _ (fun t => reconcileTarget_preserves t) _ s1 hp0 h1
  · refine preserves_pure _ (fun s hs => ?_)
    unfold KState.reconcileTargetDirs
    exact filesOK_modifyWhere _ _ _ (fun _ h => h) hs

end StepupModel.K

namespace StepupModel.K

/-! ### `reattach`, `create` -/

theorem afterLostProduct_preserves (k : Key) : Preserves FilesOK (fun s => s.afterLostProduct k) := by
  intro s s' hp h
  replace h : s.afterLostProduct k = .ok s' := h
  unfold KState.afterLostProduct at h
  split at h
  · simp only [pure, Except.pure, Except.ok.injEq] at h; subst h; exact filesOK_deleteHash _ _ hp
  · simp only [pure, Except.pure, Except.ok.injEq] at h; subst h; exact hp
  · cases h
  · cases h

theorem lostProduct_preserves (old : Option Key) : Preserves FilesOK (fun s => s.lostProduct old) := by
  intro s s' hp h
  replace h : s.lostProduct old = .ok s' := h
  unfold KState.lostProduct at h
  cases old with
  | none => simp only [pure, Except.pure, Except.ok.injEq] at h; subst h; exact hp
  | some oc =>
    simp only at h
    split at h
    · cases h
    · exact afterLostProduct_preserves oc s s' hp h

theorem flagIfStep_preserves (k : Key) : Preserves FilesOK (fun s => s.flagIfStep k) := by
  intro s s' hp h
  replace h : s.flagIfStep k = .ok s' := h
  unfold KState.flagIfStep at h
  split at h
  · exact flagChecksWithProducts_preserves k s s' hp h
  · simp only [pure, Except.pure, Except.ok.injEq] at h; subst h; exact hp

theorem reattachCore_preserves (k c : Key) (n : Node) : Preserves FilesOK (fun s => s.reattachCore k c n) := by
  intro s s' hp h
  replace h : s.reattachCore k c n = .ok s' := h
  unfold KState.reattachCore at h
  dsimp only at h
  refine bind_ok h (fun s1 h1 => setCreator_preserves k (some c) _ s s1 hp h1) ?_
  intro s1 s1' hp1 hh1
  refine bind_ok hh1 (fun s2 h2 => lostProduct_preserves n.creator s1 s2 hp1 h2) ?_
  intro s2 s2' hp2 hh2
  exact flagIfStep_preserves k _ s2' (filesOK_setDetachedRec s2 k _ hp2) hh2

theorem reattach_preserves (k c : Key) : Preserves FilesOK (fun s => s.reattach k c) := by
  intro s s' hp h
  replace h : s.reattach k c = .ok s' := h
  unfold KState.reattach at h
  cases hf : s.find? k with
  | none => simp [hf] at h
  | some n =>
    simp only [hf] at h
    split at h
    · cases h
    · split at h
      · cases h
      · exact reattachCore_preserves k c n s s' hp h

theorem detachProducts_preserves (k : Key) : Preserves FilesOK (fun s => s.detachProducts k) := by
  intro s s' hp h
  replace h : s.detachProducts k = .ok s' := h
  unfold KState.detachProducts at h
  exact foldlM_preserves FilesOK _ _ (fun (p : Node) => detach_preserves p.key) s s' hp h

theorem filesOK_initStepRow (s : KState) (k : Key) (i : StepInit) (hp : FilesOK s) : FilesOK (s.initStepRow k i) := by
  unfold KState.initStepRow
  exact filesOK_modify _ _ _ (fun _ h => h) hp

/-- The states a declaration may ask for (`_DECLARABLE_STATES` plus UNDECLARED for a supplied,
undeclared input): none of them promises a hash. -/
def NoHashState (st : FileState) : Prop := st = .undeclared ∨ st = .unconfirmed ∨ st = .planned ∨ st = .volatile

theorem hashInv_noHash {st : FileState} (h : NoHashState st) : HashInv st none := by
  constructor
  · intro hst; rcases h with rfl | rfl | rfl | rfl <;> rcases hst with h | h | h <;> cases h
  · intro _; rfl

theorem keptState_fresh (s : KState) (k : Key) (st : FileState) : s.keptState k st false = st := by
  unfold KState.keptState
  split <;> simp

theorem writeInitialFile_preserves (k : Key) (state : FileState) (existed : Bool)
    (hfresh : existed = false → NoHashState state) :
    Preserves FilesOK (fun s => s.writeInitialFile k state existed) := by
  intro s s' hp h
  replace h : s.writeInitialFile k state existed = .ok s' := h
  unfold KState.writeInitialFile at h
  split at h
  · exact setFileState_preserves k state s s' hp h
  · rename_i hex
    split at h
    · cases h
    · simp only [pure, Except.pure, Except.ok.injEq] at h
      subst h
      exact filesOK_flagReadySinks _ _
        (filesOK_modify _ _ _ (fun _ _ => hashInv_noHash (hfresh (by simpa using hex))) hp)

theorem initFileRow_preserves (k : Key) (st : FileState) (existed : Bool) (hst : NoHashState st) :
    Preserves FilesOK (fun s => s.initFileRow k st existed) := by
  intro s s' hp h
  replace h : s.initFileRow k st existed = .ok s' := h
  unfold KState.initFileRow at h
  refine bind_ok h (fun s1 h1 => ?_) ?_
  · refine writeInitialFile_preserves k _ existed ?_ s s1 hp h1
    intro hex
    subst hex
    rw [keptState_fresh]
    exact hst
  · intro s1 s1' hp1 hh1
    split at hh1
    · exact markFileOutdated_preserves k s1 s1' hp1 hh1
    · simp only [pure, Except.pure, Except.ok.injEq] at hh1; subst hh1; exact hp1

def InitOK : Init → Prop
  | .file st => NoHashState st
  | _ => True

theorem initRow_preserves (k : Key) (init : Init) (existed : Bool) (hi : InitOK init) :
    Preserves FilesOK (fun s => s.initRow k init existed) := by
  intro s s' hp h
  replace h : s.initRow k init existed = .ok s' := h
  unfold KState.initRow at h
  cases init with
  | root => simp only [pure, Except.pure, Except.ok.injEq] at h; subst h; exact hp
  | tree => simp only [pure, Except.pure, Except.ok.injEq] at h; subst h; exact hp
  | file st => exact initFileRow_preserves k st existed hi s s' hp h
  | step i => simp only [pure, Except.pure, Except.ok.injEq] at h; subst h; exact filesOK_initStepRow _ _ _ hp

theorem recycleCore_preserves (k : Key) (n : Node) (creator : Option Key) (init : Init) (hi : InitOK init) :
    Preserves FilesOK (fun s => s.recycleCore k n creator init) := by
  intro s s' hp h
  replace h : s.recycleCore k n creator init = .ok s' := h
  unfold KState.recycleCore at h
  refine bind_ok h (fun s1 h1 => setCreator_preserves k creator _ s s1 hp h1) ?_
  intro s1 s1' hp1 hh1
  refine bind_ok hh1 (fun s2 h2 => lostProduct_preserves n.creator s1 s2 hp1 h2) ?_
  intro s2 s2' hp2 hh2
  refine bind_ok hh2 (fun s3 h3 => detachProducts_preserves k _ s3 (filesOK_deleteDeps s2 _ hp2) h3) ?_
  exact initRow_preserves k init true hi

theorem filesOK_appendNode (s : KState) (k : Key) (creator : Option Key) (hp : FilesOK s) :
    FilesOK (s.appendNode k creator) := by
  intro n hn
  unfold KState.appendNode at hn
  simp only [List.mem_append, List.mem_singleton] at hn
  rcases hn with hn | rfl
  · exact hp n hn
  · exact hashInv_noHash (Or.inl rfl)

/-- `Trellis.create` (fresh node, or partial recycle of a detached one) preserves state/hash
consistency, for every declarable initial state. -/
theorem create_preserves (k : Key) (creator : Option Key) (init : Init) (hi : InitOK init) :
    Preserves FilesOK (fun s => s.create k creator init) := by
  intro s s' hp h
  replace h : s.create k creator init = .ok s' := h
  unfold KState.create at h
  cases hf : s.find? k with
  | some n =>
    simp only [hf] at h
    split at h
    · cases h
    · split at h
      · cases h
      · exact recycleCore_preserves k n creator init hi s s' hp h
  | none =>
    simp only [hf] at h
    split at h
    · exact initRow_preserves k init false hi _ s' (filesOK_appendNode s k creator hp) h
    · cases h

end StepupModel.K

namespace StepupModel.K

/-! ### Declarations -/

/-- General form of `bind_ok` for any result types. -/
theorem bind_ok_gen {α β : Type} {x : M α} {g : α → M β} {r' : β} (h : (x >>= g) = .ok r')
    (Q : α → Prop) (hx : ∀ a, x = .ok a → Q a) (R : β → Prop) (hg : ∀ a b, Q a → g a = .ok b → R b) : R r' := by
  simp only [bind, Except.bind] at h
  cases hxx : x with
  | error e => simp [hxx] at h
  | ok a => simp only [hxx] at h; exact hg a r' (hx a hxx) h

theorem volatileSinkCheck_preserves (p : String) (st : FileState) :
    Preserves FilesOK (fun s => s.volatileSinkCheck p st) := by
  intro s s' hp h
  replace h : s.volatileSinkCheck p st = .ok s' := h
  unfold KState.volatileSinkCheck at h
  split at h
  · simp [graphErr] at h
  · simp only [pure, Except.pure, Except.ok.injEq] at h; subst h; exact hp

theorem declarable_noHash {st : FileState} (h : Generated.Enums.declarableStates.contains st = true) :
    NoHashState st := by
  cases st <;> simp [NoHashState] <;> revert h <;> decide

theorem declareFile_preserves (cfg : KConfig) (creator : Key) (p : String) (st : FileState) :
    Preserves FilesOK (fun s => s.declareFile cfg creator p st) := by
  intro s s' hp h
  replace h : s.declareFile cfg creator p st = .ok s' := h
  unfold KState.declareFile at h
  refine bind_ok_gen h (fun _ => Generated.Enums.declarableStates.contains st = true) ?_ FilesOK ?_
  · intro _ hg
    unfold KState.declareFileGuard at hg
    by_cases hd : Generated.Enums.declarableStates.contains st = true
    · exact hd
    · rw [if_neg hd] at hg; cases hg
  · intro _ s2 hd hh
    refine bind_ok hh (fun s1 h1 => ?_) (volatileSinkCheck_preserves p st)
    exact create_preserves _ _ (.file st) (declarable_noHash hd) s s1 hp h1

theorem declareAll_preserves (cfg : KConfig) (todo : List (Key × String)) (st : FileState) :
    Preserves FilesOK (fun s => s.declareAll cfg todo st) := by
  intro s s' hp h
  replace h : s.declareAll cfg todo st = .ok s' := h
  unfold KState.declareAll at h
  exact foldlM_preserves FilesOK (fun (acc : KState) (dp : Key × String) => acc.declareFile cfg dp.1 dp.2 st) todo
    (fun dp => declareFile_preserves cfg dp.1 dp.2 st) s s' hp h

theorem declareStaticFiles_preserves (cfg : KConfig) (creator : Key) (paths : List String) (s : KState)
    (r : KState × List String) (hp : FilesOK s) (h : s.declareStaticFiles cfg creator paths = .ok r) : FilesOK r.1 := by
  unfold KState.declareStaticFiles at h
  refine bind_ok_gen h (fun _ => True) (fun _ _ => trivial) (fun r => FilesOK r.1) ?_
  intro todo r1 _ hh
  refine bind_ok_gen hh FilesOK (fun a ha => declareAll_preserves cfg todo _ s a hp ha) (fun r => FilesOK r.1) ?_
  intro a b ha hb
  simp only [pure, Except.pure, Except.ok.injEq] at hb
  subst hb; exact ha

theorem filesOK_handOver (s : KState) (tk : Key) (hs : List Key) (hp : FilesOK s) : FilesOK (s.handOver tk hs) := by
  unfold KState.handOver
  induction hs generalizing s with
  | nil => exact hp
  | cons k ks ih => simp only [List.foldl_cons]; exact ih _ (filesOK_modify _ _ _ (fun _ h => h) hp)

theorem registerTreeBody_preserves (cfg : KConfig) (creator : Key) (path : String) (g : Option (List Key)) (s : KState)
    (r : KState × List String) (hp : FilesOK s) (h : s.registerTreeBody cfg creator path g = .ok r) : FilesOK r.1 := by
  cases g with
  | none =>
    simp only [KState.registerTreeBody, pure, Except.pure, Except.ok.injEq] at h
    subst h; exact hp
  | some hs =>
    simp only [KState.registerTreeBody] at h
    refine bind_ok_gen h FilesOK (fun s1 h1 => create_preserves _ _ .tree trivial s s1 hp h1) (fun r => FilesOK r.1) ?_
    intro s1 r1 hp1 hh
    exact declareStaticFiles_preserves cfg _ _ _ r1 (filesOK_handOver s1 _ hs hp1) hh

theorem registerStaticTree_preserves (cfg : KConfig) (creator : Key) (path : String) (s : KState)
    (r : KState × List String) (hp : FilesOK s) (h : s.registerStaticTree cfg creator path = .ok r) : FilesOK r.1 := by
  unfold KState.registerStaticTree at h
  refine bind_ok_gen h (fun _ => True) (fun _ _ => trivial) (fun r => FilesOK r.1) ?_
  intro _ r1 _ hh
  refine bind_ok_gen hh (fun _ => True) (fun _ _ => trivial) (fun r => FilesOK r.1) ?_
  intro g r2 _ hh2
  exact registerTreeBody_preserves cfg creator _ g s r2 hp hh2

theorem adoptByTree_preserves (cfg : KConfig) (path : String) (t : Key) (s : KState) (r : KState × FileState × Bool)
    (hp : FilesOK s) (h : s.adoptByTree cfg path t = .ok r) : FilesOK r.1 := by
  unfold KState.adoptByTree at h
  refine bind_ok_gen h (fun _ => True) (fun _ _ => trivial) (fun r => FilesOK r.1) ?_
  intro _ r1 _ hh
  refine bind_ok_gen hh FilesOK
    (fun s1 h1 => create_preserves _ _ (.file .unconfirmed) (Or.inr (Or.inl rfl)) s s1 hp h1) (fun r => FilesOK r.1) ?_
  intro s1 r2 hp1 hh2
  simp only [pure, Except.pure, Except.ok.injEq] at hh2
  subst hh2; exact hp1

theorem placeholder_preserves (path : String) (s : KState) (r : KState × FileState × Bool)
    (hp : FilesOK s) (h : s.placeholder path = .ok r) : FilesOK r.1 := by
  unfold KState.placeholder at h
  refine bind_ok_gen h FilesOK
    (fun s1 h1 => create_preserves _ _ (.file .undeclared) (Or.inl rfl) s s1 hp h1) (fun r => FilesOK r.1) ?_
  intro s1 r2 hp1 hh2
  simp only [pure, Except.pure, Except.ok.injEq] at hh2
  subst hh2; exact hp1

theorem resolveWith_preserves (cfg : KConfig) (path : String) (tree : Option Key) (node : Option Node) (s : KState)
    (r : KState × FileState × Bool) (hp : FilesOK s) (h : s.resolveWith cfg path tree node = .ok r) : FilesOK r.1 := by
  cases tree with
  | some t =>
    simp only [KState.resolveWith] at h
    exact adoptByTree_preserves cfg path t s r hp h
  | none =>
    cases node with
    | none =>
      simp only [KState.resolveWith] at h
      split at h
      · simp [bind, Except.bind, throw, throwThe, MonadExceptOf.throw] at h
      · exact placeholder_preserves path s r hp h
    | some n =>
      simp only [KState.resolveWith] at h
      split at h
      · exact placeholder_preserves path s r hp h
      · refine bind_ok_gen h (fun _ => True) (fun _ _ => trivial) (fun r => FilesOK r.1) ?_
        intro _ r1 _ hh
        simp only [pure, Except.pure, Except.ok.injEq] at hh
        subst hh; exact hp

theorem resolveNode_preserves (cfg : KConfig) (path : String) (s : KState) (r : KState × FileState × Bool)
    (hp : FilesOK s) (h : s.resolveNode cfg path = .ok r) : FilesOK r.1 := by
  unfold KState.resolveNode at h
  refine bind_ok_gen h (fun _ => True) (fun _ _ => trivial) (fun r => FilesOK r.1) ?_
  intro tree r1 _ hh
  exact resolveWith_preserves cfg path tree _ s r1 hp hh

/-- Invariant of a monadic fold over any accumulator type. -/
theorem foldlM_inv {σ α : Type} (P : σ → Prop) (f : σ → α → M σ) (l : List α)
    (hf : ∀ a x b, P a → f a x = .ok b → P b) : ∀ a b, P a → l.foldlM f a = .ok b → P b := by
  induction l with
  | nil => intro a b hp h; simp [List.foldlM, pure, Except.pure] at h; subst h; exact hp
  | cons x xs ih =>
    intro a b hp h
    simp only [List.foldlM_cons, bind, Except.bind] at h
    cases hx : f a x with
    | error e => simp [hx] at h
    | ok a1 =>
      simp only [hx] at h
      exact ih a1 b (hf a x a1 hp hx) h

theorem resolveSupply_preserves (cfg : KConfig) (step : Key) (path : String) (rn : Bool) (s : KState)
    (r : KState × Supply) (hp : FilesOK s) (h : s.resolveSupply cfg step path rn = .ok r) : FilesOK r.1 := by
  unfold KState.resolveSupply at h
  refine bind_ok_gen h (fun a => FilesOK a.1) (fun a ha => resolveNode_preserves cfg path s a hp ha)
    (fun r => FilesOK r.1) ?_
  intro a r1 ha hh
  obtain ⟨s1, state, detached⟩ := a
  simp only at hh
  split at hh
  · simp [graphErr, bind, Except.bind] at hh
  · simp only [pure, Except.pure, bind, Except.bind, Except.ok.injEq] at hh
    subst hh; exact ha

theorem resolveAll_preserves (cfg : KConfig) (step : Key) (paths : List String) (rn : Bool) (s : KState)
    (r : KState × List Supply) (hp : FilesOK s) (h : s.resolveAll cfg step paths rn = .ok r) : FilesOK r.1 := by
  unfold KState.resolveAll at h
  refine foldlM_inv (fun (a : KState × List Supply) => FilesOK a.1) _ paths ?_ (s, []) r hp h
  intro a x b ha hb
  refine bind_ok_gen hb (fun c => FilesOK c.1) (fun c hc => resolveSupply_preserves cfg step x rn a.1 c ha hc)
    (fun r => FilesOK r.1) ?_
  intro c d hc hd
  obtain ⟨s', i⟩ := c
  simp only [pure, Except.pure, Except.ok.injEq] at hd
  subst hd; exact hc

theorem filesOK_flagDepEndpoints (s : KState) (a b : Key) (hp : FilesOK s) : FilesOK (s.flagDepEndpoints a b) := by
  unfold KState.flagDepEndpoints
  exact filesOK_modifyWhere _ _ _ (fun _ h => h) hp

theorem insertDep_preserves (a b : Key) : Preserves FilesOK (fun s => s.insertDep a b) := by
  intro s s' hp h
  replace h : s.insertDep a b = .ok s' := h
  unfold KState.insertDep at h
  simp only [bind, Except.bind, pure, Except.pure] at h
  split at h
  · cases h
  · split at h
    · cases h
    · simp only [Except.ok.injEq] at h
      subst h
      exact filesOK_flagDepEndpoints _ a b (filesOK_of_nodes_eq rfl hp)

theorem insertNewEdges_preserves (step : Key) (infos : List Supply) :
    Preserves FilesOK (fun s => s.insertNewEdges step infos) := by
  intro s s' hp h
  replace h : s.insertNewEdges step infos = .ok s' := h
  unfold KState.insertNewEdges at h
  exact foldlM_preserves FilesOK (fun (st : KState) (i : Supply) => st.insertDep i.file step) _
    (fun i => insertDep_preserves i.file step) s s' hp h

theorem supplyFiles_preserves (cfg : KConfig) (step : Key) (paths : List String) (rn : Bool) (s : KState)
    (r : KState × List Supply) (hp : FilesOK s) (h : s.supplyFiles cfg step paths rn = .ok r) : FilesOK r.1 := by
  unfold KState.supplyFiles at h
  refine bind_ok_gen h (fun a => FilesOK a.1) (fun a ha => resolveAll_preserves cfg step paths rn s a hp ha)
    (fun r => FilesOK r.1) ?_
  intro a r1 ha hh
  obtain ⟨s1, infos⟩ := a
  simp only at hh
  split at hh
  · simp [bind, Except.bind, throw, throwThe, MonadExceptOf.throw] at hh
  · simp only [pure, Except.pure, bind, Except.bind] at hh
    refine bind_ok_gen hh FilesOK (fun s2 h2 => insertNewEdges_preserves step infos s1 s2 ha h2) (fun r => FilesOK r.1) ?_
    intro s2 r2 hp2 hh2
    simp only [pure, Except.pure, Except.ok.injEq] at hh2
    subst hh2; exact hp2

theorem addSourceChecked_preserves (a b : Key) : Preserves FilesOK (fun s => s.addSourceChecked a b) := by
  intro s s' hp h
  replace h : s.addSourceChecked a b = .ok s' := h
  unfold KState.addSourceChecked at h
  split at h
  · simp [bind, Except.bind, throw, throwThe, MonadExceptOf.throw] at h
  · simp only [pure, Except.pure, bind, Except.bind] at h
    exact insertDep_preserves b a s s' hp h

theorem declareProduct_preserves (cfg : KConfig) (step : Key) (p : String) (st : FileState) :
    Preserves FilesOK (fun s => s.declareProduct cfg step p st) := by
  intro s s' hp h
  replace h : s.declareProduct cfg step p st = .ok s' := h
  unfold KState.declareProduct at h
  exact bind_ok h (fun s1 h1 => declareFile_preserves cfg step p st s s1 hp h1) (addSourceChecked_preserves _ _)

theorem declareProducts_preserves (cfg : KConfig) (step : Key) (ps : List String) (st : FileState) :
    Preserves FilesOK (fun s => s.declareProducts cfg step ps st) := by
  intro s s' hp h
  replace h : s.declareProducts cfg step ps st = .ok s' := h
  unfold KState.declareProducts at h
  exact foldlM_preserves FilesOK (fun (acc : KState) (p : String) => acc.declareProduct cfg step p st) ps
    (fun p => declareProduct_preserves cfg step p st) s s' hp h

theorem filesOK_setStepExtras (s : KState) (sk : Key) (d : StepDecl) (hp : FilesOK s) : FilesOK (s.setStepExtras sk d) :=
  filesOK_modify _ _ _ (fun _ h => h) hp

theorem afterRecycle_preserves (sk : Key) (d : StepDecl) (n : Node) :
    Preserves FilesOK (fun s => s.afterRecycle sk d n) := by
  intro s s' hp h
  replace h : s.afterRecycle sk d n = .ok s' := h
  unfold KState.afterRecycle at h
  have hp2 : FilesOK (s.modify sk fun n => { n with need := d.need, shell := d.shell }) :=
    filesOK_modify _ _ _ (fun _ h => h) hp
  split at h
  · exact markStepPending'_preserves sk _ s' hp2 h
  · simp only [pure, Except.pure, Except.ok.injEq] at h; subst h; exact hp2

theorem recycleStep_preserves (sk creator : Key) (d : StepDecl) (n : Node) :
    Preserves FilesOK (fun s => s.recycleStep sk creator d n) := by
  intro s s' hp h
  replace h : s.recycleStep sk creator d n = .ok s' := h
  unfold KState.recycleStep at h
  refine bind_ok h (fun s1 h1 => reattach_preserves sk creator s s1 hp h1) ?_
  intro s1 s1' hp1 hh
  refine bind_ok hh (fun s3 h3 => afterRecycle_preserves sk d n s1 s3 hp1 h3) ?_
  intro s3 s3' hp3 h4
  simp only [pure, Except.pure, Except.ok.injEq] at h4
  subst h4
  exact filesOK_setStepExtras _ _ _ hp3

theorem createStep_preserves (cfg : KConfig) (sk creator : Key) (d : StepDecl) (s : KState)
    (r : KState × List String) (hp : FilesOK s) (h : s.createStep cfg sk creator d = .ok r) : FilesOK r.1 := by
  unfold KState.createStep at h
  refine bind_ok_gen h FilesOK (fun s1 h1 => create_preserves _ _ (.step _) trivial s s1 hp h1) (fun r => FilesOK r.1) ?_
  intro s1 r1 hp1 hh
  have hp2 : FilesOK (s1.setStepExtras sk d) := filesOK_setStepExtras _ _ _ hp1
  refine bind_ok_gen hh (fun a => FilesOK a.1) (fun a ha => supplyFiles_preserves cfg sk d.inp true _ a hp2 ha)
    (fun r => FilesOK r.1) ?_
  intro a r2 ha hh2
  obtain ⟨s3, infos⟩ := a
  simp only at hh2
  have hp4 : FilesOK (s3.modify sk fun n => addEnvDeps cfg n d.env) := by
    refine filesOK_modify _ _ _ (fun n h => ?_) ha
    unfold addEnvDeps
    generalize d.env = names
    induction names generalizing n with
    | nil => exact h
    | cons x xs ih => simp only [List.foldl_cons]; exact ih _ h
  refine bind_ok_gen hh2 FilesOK (fun s5 h5 => declareProducts_preserves cfg sk d.out .planned _ s5 hp4 h5)
    (fun r => FilesOK r.1) ?_
  intro s5 r3 hp5 hh3
  refine bind_ok_gen hh3 FilesOK (fun s6 h6 => declareProducts_preserves cfg sk d.vol .volatile _ s6 hp5 h6)
    (fun r => FilesOK r.1) ?_
  intro s6 r4 hp6 hh4
  simp only [pure, Except.pure, Except.ok.injEq] at hh4
  subst hh4; exact hp6

theorem defineStep_preserves (cfg : KConfig) (creator : Key) (d : StepDecl) (s : KState)
    (r : KState × List String) (hp : FilesOK s) (h : s.defineStep cfg creator d = .ok r) : FilesOK r.1 := by
  unfold KState.defineStep at h
  refine bind_ok_gen h (fun _ => True) (fun _ _ => trivial) (fun r => FilesOK r.1) ?_
  intro sk r1 _ hh
  split at hh
  · split at hh
    · refine bind_ok_gen hh FilesOK (fun s1 h1 => recycleStep_preserves sk creator _ _ s s1 hp h1) (fun r => FilesOK r.1) ?_
      intro s1 r2 hp1 hh2
      simp only [pure, Except.pure, Except.ok.injEq] at hh2
      subst hh2; exact hp1
    · refine bind_ok_gen hh (fun _ => True) (fun _ _ => trivial) (fun r => FilesOK r.1) ?_
      intro _ r2 _ hh2
      exact createStep_preserves cfg sk creator _ s r2 hp hh2
  · refine bind_ok_gen hh (fun _ => True) (fun _ _ => trivial) (fun r => FilesOK r.1) ?_
    intro _ r2 _ hh2
    exact createStep_preserves cfg sk creator _ s r2 hp hh2

theorem filesOK_setDynamic (s : KState) (a b : Key) (d : Bool) (hp : FilesOK s) : FilesOK (s.setDynamic a b d) := by
  unfold KState.setDynamic
  refine filesOK_modify _ _ _ (fun n h => ?_) (filesOK_of_nodes_eq rfl hp)
  split <;> exact h

theorem filesOK_markDynamic (s : KState) (edges : List (Key × Key)) (hp : FilesOK s) : FilesOK (s.markDynamic edges) := by
  unfold KState.markDynamic
  induction edges generalizing s with
  | nil => exact hp
  | cons e es ih => simp only [List.foldl_cons]; exact ih _ (filesOK_setDynamic s _ _ _ hp)

theorem filesOK_amendEnv (s : KState) (cfg : KConfig) (step : Key) (env : List String) (hp : FilesOK s) :
    FilesOK (s.amendEnv cfg step env) := by
  unfold KState.amendEnv
  refine filesOK_modify _ _ _ (fun n h => ?_) hp
  induction env generalizing n with
  | nil => exact h
  | cons x xs ih =>
    simp only [List.foldl_cons]
    split
    · exact ih _ h
    · exact ih _ h

theorem amendProducts_preserves (cfg : KConfig) (step : Key) (infos : List Supply) (env out vol : List String)
    (conc : List Key) (s1 : KState) (r : KState × AmendResult) (ha : FilesOK s1)
    (hh : s1.amendProducts cfg step infos env out vol conc = .ok r) : FilesOK r.1 := by
  unfold KState.amendProducts at hh
  have hp2 : FilesOK (s1.amendEnv cfg step env) := filesOK_amendEnv _ _ _ _ ha
  refine bind_ok_gen hh (fun _ => True) (fun _ _ => trivial) (fun r => FilesOK r.1) ?_
  intro out' r2 _ hh2
  refine bind_ok_gen hh2 (fun _ => True) (fun _ _ => trivial) (fun r => FilesOK r.1) ?_
  intro vol' r3 _ hh3
  refine bind_ok_gen hh3 (fun _ => True) (fun _ _ => trivial) (fun r => FilesOK r.1) ?_
  intro _ r4 _ hh4
  refine bind_ok_gen hh4 (fun _ => True) (fun _ _ => trivial) (fun r => FilesOK r.1) ?_
  intro _ r5 _ hh5
  refine bind_ok_gen hh5 FilesOK (fun s3 h3 => declareProducts_preserves cfg step out' .planned _ s3 hp2 h3)
    (fun r => FilesOK r.1) ?_
  intro s3 r6 hp3 hh6
  refine bind_ok_gen hh6 FilesOK (fun s4 h4 => declareProducts_preserves cfg step vol' .volatile _ s4 hp3 h4)
    (fun r => FilesOK r.1) ?_
  intro s4 r7 hp4 hh7
  simp only [pure, Except.pure, Except.ok.injEq] at hh7
  subst hh7
  exact filesOK_markDynamic _ _ hp4

theorem amendStep_preserves (cfg : KConfig) (step : Key) (inp env out vol : List String) (conc : List Key)
    (s : KState) (r : KState × AmendResult) (hp : FilesOK s)
    (h : s.amendStep cfg step inp env out vol conc = .ok r) : FilesOK r.1 := by
  unfold KState.amendStep at h
  refine bind_ok_gen h (fun _ => True) (fun _ _ => trivial) (fun r => FilesOK r.1) ?_
  intro _ r0 _ h0
  refine bind_ok_gen h0 (fun a => FilesOK a.1) (fun a ha => supplyFiles_preserves cfg step _ false s a hp ha)
    (fun r => FilesOK r.1) ?_
  intro a r1 ha hh
  obtain ⟨s1, infos⟩ := a
  exact amendProducts_preserves cfg step infos env out vol conc s1 r1 ha hh

theorem registerNglob_preserves (step : Key) (pattern : String) (found : List String) :
    Preserves FilesOK (fun s => s.registerNglob step pattern found) := by
  intro s s' hp h
  replace h : s.registerNglob step pattern found = .ok s' := h
  unfold KState.registerNglob at h
  refine bind_ok_gen h (fun _ => True) (fun _ _ => trivial) FilesOK ?_
  intro _ r _ hh
  simp only [pure, Except.pure, Except.ok.injEq] at hh
  subst hh
  exact filesOK_modify _ _ _ (fun _ h => h) hp

theorem registerNglobs_preserves (creator : Key) (patterns : List (String × List String)) :
    Preserves FilesOK (fun s => s.registerNglobs creator patterns) := by
  intro s s' hp h
  replace h : s.registerNglobs creator patterns = .ok s' := h
  unfold KState.registerNglobs at h
  exact foldlM_preserves FilesOK (fun (st : KState) (pm : String × List String) => st.registerNglob creator pm.1 pm.2)
    patterns (fun pm => registerNglob_preserves creator pm.1 pm.2) s s' hp h

theorem registerTrees_preserves (cfg : KConfig) (creator : Key) (trees : List String) (s : KState)
    (r : KState × List String) (hp : FilesOK s) (h : s.registerTrees cfg creator trees = .ok r) : FilesOK r.1 := by
  unfold KState.registerTrees at h
  refine foldlM_inv (fun (a : KState × List String) => FilesOK a.1) _ trees ?_ (s, []) r hp h
  intro a x b ha hb
  refine bind_ok_gen hb (fun c => FilesOK c.1) (fun c hc => registerStaticTree_preserves cfg creator x a.1 c ha hc)
    (fun r => FilesOK r.1) ?_
  intro c d hc hd
  obtain ⟨s', chk⟩ := c
  simp only [pure, Except.pure, Except.ok.injEq] at hd
  subst hd; exact hc

theorem declareStaticRequest_preserves (cfg : KConfig) (creator : Key) (trees files : List String)
    (patterns : List (String × List String)) (s : KState) (r : KState × List String) (hp : FilesOK s)
    (h : s.declareStaticRequest cfg creator trees files patterns = .ok r) : FilesOK r.1 := by
  unfold KState.declareStaticRequest at h
  refine bind_ok_gen h (fun a => FilesOK a.1) (fun a ha => registerTrees_preserves cfg creator trees s a hp ha)
    (fun r => FilesOK r.1) ?_
  intro a r1 ha hh
  obtain ⟨s1, chk1⟩ := a
  simp only at hh
  refine bind_ok_gen hh (fun a => FilesOK a.1) (fun a h2 => declareStaticFiles_preserves cfg creator files s1 a ha h2)
    (fun r => FilesOK r.1) ?_
  intro a2 r2 ha2 hh2
  obtain ⟨s2, chk2⟩ := a2
  simp only at hh2
  refine bind_ok_gen hh2 FilesOK (fun s3 h3 => registerNglobs_preserves creator patterns s2 s3 ha2 h3)
    (fun r => FilesOK r.1) ?_
  intro s3 r3 hp3 hh3
  simp only [pure, Except.pure, Except.ok.injEq] at hh3
  subst hh3; exact hp3

end StepupModel.K
