import StepupModel.Lemmas.Build
import StepupModel.Lemmas.BuildRefresh
/-!
# One build phase (`B/Build.lean`): dispatch is exact at the level of the composed system (C10)

* `start_is_dispatch` / `run_start_is_dispatch` (forward): a step job enters `running_tasks` only in a pass
  in which `pop_next_job` answered with that job, for a step that is eligible on refreshed metadata.
* `return_is_quiescent` / `run_return_is_quiescent` (converse): the pass in which `job_loop` returns has
  asked the kernel and got "nothing" (unless the scheduler is draining): the kernel state at that moment is
  the refreshed state and no step is eligible in it.
* `run_parkedQuiet` (no lost wake-up): under the proviso `WakesOrKeeps` on the events met while the loop is
  parked; `benign_wakesOrKeeps` discharges it for all events but two kinds.
* `run_parkedBusy`, `end_of_running_job_unparks`: what holds without the proviso.
-/
namespace StepupModel.B.Build
open StepupModel.K StepupModel.B.JobLoop

/-! ## Frames of the events -/

theorem unpark_frame (s : Sys) :
    (unpark s).k = s.k ∧ (unpark s).cfg = s.cfg ∧ (unpark s).assigned = s.assigned ∧ (unpark s).drain = s.drain ∧
    (unpark s).jl.started = s.jl.started ∧ (unpark s).jl.status = s.jl.status ∧
    (unpark s).jl.running = s.jl.running ∧ (unpark s).jl.done = s.jl.done ∧ (unpark s).jl.njob = s.jl.njob ∧
    (unpark s).jl.draining = s.jl.draining := by
  unfold unpark; split <;> simp

theorem land_frame (s : Sys) (ctl : Ctl) :
    (land s ctl).k = s.k ∧ (land s ctl).cfg = s.cfg ∧ (land s ctl).assigned = s.assigned ∧
    (land s ctl).drain = s.drain ∧ (land s ctl).jl.started = s.jl.started ∧
    (land s ctl).jl.running = s.jl.running ∧ (land s ctl).jl.done = s.jl.done ∧ (land s ctl).jl.njob = s.jl.njob ∧
    (land s ctl).jl.draining = s.jl.draining ∧ (land s ctl).jl.wake = s.jl.wake := by
  cases ctl <;> simp [land]

/-- What an event other than a pass does to the log of started jobs: nothing. -/
theorem applyEv_started_of_not_pass (s : Sys) (e : Ev) (hne : ∀ c, e ≠ .pass c) :
    (applyEv s e).jl.started = s.jl.started := by
  cases e with
  | start => exact apply_started s.jl .start
  | pass c => exact absurd rfl (hne c)
  | rpc j r =>
    simp only [applyEv]
    split
    · split
      · split <;> rfl
      · rfl
    · rfl
  | finish j rs =>
    simp only [applyEv]
    split
    · split
      · exact apply_started s.jl (.fin (.step j))
      · exact apply_started s.jl (.fail (.step j))
    · rfl
  | submit p => exact apply_started s.jl (.submit p)
  | promote p => exact apply_started s.jl (.promote p)
  | hashFin i r =>
    simp only [applyEv]
    split
    · exact apply_started s.jl (.fin (.hash i))
    · rfl
  | drain => rfl
  | undrain => simp only [applyEv]; split <;> rfl
  | external r => simp only [applyEv]; split <;> rfl

/-! ## (b) Forward: what starts was dispatched, and what is dispatched was eligible -/

/-- **C10 forward, one event.**  If an event makes the loop start step job `i`, the event is a pass of the
loop in which `pop_next_job` (not draining) chose the step `key`, `key` is the key of a step that is
eligible in the kernel state with refreshed metadata, the kernel sets it CHECKING (recorded hash) or
RUNNING, and `i` is the fresh job id that `_derive_job` records for `key`. -/
theorem start_is_dispatch (s : Sys) (e : Ev) (i : Nat)
    (h : (step s e).jl.started = s.jl.started ++ [.step i]) :
    ∃ key chk rj su n, e = .pass (some key) ∧ s.draining = false ∧
      s.k.popNext s.cfg (some key) = .ok ((step s e).k, .job key chk rj) ∧
      s.k.updateMeta s.cfg = .ok su ∧ n ∈ su.nodes ∧ n.key = key ∧ su.eligible s.cfg n = true ∧ chk = n.hasHash ∧
      su.setStepState key (if chk = true then .checking else .running) = .ok (step s e).k ∧
      i = s.assigned.length + 1 ∧ (step s e).assigned = s.assigned ++ [(i, key, chk)] := by
  unfold step at h ⊢
  rw [(unpark_frame _).2.2.2.2.1] at h
  rw [(unpark_frame _).1, (unpark_frame _).2.2.1]
  by_cases hp : ∃ c, e = .pass c
  · obtain ⟨c, rfl⟩ := hp
    simp only [applyEv] at h ⊢
    split at h
    · rename_i hc
      rw [if_pos hc]
      cases hi : iterK s c with
      | none =>
        rw [hi] at h
        simp only at h
        have := congrArg List.length h
        simp at this
      | some r =>
        obtain ⟨s', ctl⟩ := r
        rw [hi] at h
        simp only at h ⊢
        rw [(land_frame s' ctl).2.2.2.2.1] at h
        rw [(land_frame s' ctl).1, (land_frame s' ctl).2.2.1]
        obtain ⟨-, -, -, -, hs⟩ := iterK_spec s s' c ctl hi
        rcases hs with ⟨-, -, hst, -, -⟩ | ⟨-, -, -, hst, -⟩ | ⟨hdr, key, chk, run, hpop, ha, hst, -⟩
        · rcases hst with hst | ⟨j, hst⟩
          · rw [hst] at h
            have := congrArg List.length h
            simp at this
          · rw [hst] at h
            have := List.append_cancel_left h
            simp at this
        · rw [hst] at h
          have := congrArg List.length h
          simp at this
        · rw [hst] at h
          have hi' := List.append_cancel_left h
          simp only [List.cons.injEq, Job.step.injEq, and_true] at hi'
          obtain ⟨hc', su, n, hu, hn, hk, hel, hchk, hw⟩ := popNext_job_spec hpop
          subst hc'
          exact ⟨key, chk, run, su, n, rfl, hdr, hpop, hu, hn, hk, hel, hchk, hw, hi'.symm, hi' ▸ ha⟩
    · have := congrArg List.length h
      simp at this
  · have hne : ∀ c, e ≠ .pass c := fun c hc => hp ⟨c, hc⟩
    rw [applyEv_started_of_not_pass s e hne] at h
    have := congrArg List.length h
    simp at this

/-- **C10 forward, every event sequence.**  From any kernel state, for every job limit and configuration:
whenever the next event makes the loop start a step job, that job was answered by `pop_next_job` in that
very pass for a step that was eligible in the refreshed kernel state of that moment. -/
theorem run_start_is_dispatch (k0 : KState) (cfg : KConfig) (njob : Nat) (evs : List Ev) (e : Ev) (i : Nat)
    (h : (run k0 cfg njob (evs ++ [e])).jl.started = (run k0 cfg njob evs).jl.started ++ [.step i]) :
    ∃ key chk rj su n, e = .pass (some key) ∧ (run k0 cfg njob evs).draining = false ∧
      (run k0 cfg njob evs).k.popNext (run k0 cfg njob evs).cfg (some key) =
        .ok ((run k0 cfg njob (evs ++ [e])).k, .job key chk rj) ∧
      (run k0 cfg njob evs).k.updateMeta (run k0 cfg njob evs).cfg = .ok su ∧ n ∈ su.nodes ∧ n.key = key ∧
      su.eligible (run k0 cfg njob evs).cfg n = true ∧ chk = n.hasHash ∧
      su.setStepState key (if chk = true then .checking else .running) = .ok (run k0 cfg njob (evs ++ [e])).k ∧
      i = (run k0 cfg njob evs).assigned.length + 1 ∧
      (run k0 cfg njob (evs ++ [e])).assigned = (run k0 cfg njob evs).assigned ++ [(i, key, chk)] := by
  have hr : run k0 cfg njob (evs ++ [e]) = step (run k0 cfg njob evs) e := by
    unfold run; rw [List.foldl_append]; rfl
  rw [hr] at h ⊢
  exact start_is_dispatch _ e i h

/-! ## (c) Converse: the phase ends only when no step is eligible -/

theorem iterK_status (s s' : Sys) (c : Option Key) (ctl : Ctl) (h : iterK s c = some (s', ctl)) :
    s'.jl.status = s.jl.status := by
  rw [← (iterK_sim s s' c ctl h).2]
  show (iter _).1.status = _
  rw [iter_status]

theorem applyEv_status_ret_of_not_pass (s : Sys) (e : Ev) (hne : ∀ c, e ≠ .pass c)
    (h : (applyEv s e).jl.status = .returned) : s.jl.status = .returned := by
  cases e with
  | start => exact apply_status_ret s.jl .start h
  | pass c => exact absurd rfl (hne c)
  | rpc j r =>
    simp only [applyEv] at h
    split at h
    · split at h
      · split at h <;> exact h
      · exact h
    · exact h
  | finish j rs =>
    simp only [applyEv] at h
    split at h
    · split at h
      · exact apply_status_ret s.jl (.fin (.step j)) h
      · exact apply_status_ret s.jl (.fail (.step j)) h
    · exact h
  | submit p => exact apply_status_ret s.jl (.submit p) h
  | promote p => exact apply_status_ret s.jl (.promote p) h
  | hashFin i r =>
    simp only [applyEv] at h
    split at h
    · exact apply_status_ret s.jl (.fin (.hash i)) h
    · exact h
  | drain => exact h
  | undrain => simp only [applyEv] at h; split at h <;> exact h
  | external r => simp only [applyEv] at h; split at h <;> exact h

/-- **C10 converse, one event.**  If an event ends the phase (`job_loop` returns; `njob ≥ 1`, which
`ServeConfig` enforces), the event is a pass of the loop, no task runs and none waits to be retired, and,
unless the scheduler is draining (then `pop_next_job` answers `None` without looking at the database), that
pass asked the kernel with "no row" and the kernel agreed: the kernel state at the moment of the return is
the state with refreshed metadata, no step is eligible in it, and it is a fixed point of the refresh. -/
theorem return_is_quiescent (s : Sys) (e : Ev) (hn : 1 ≤ s.jl.njob) (h0 : s.jl.status ≠ .returned)
    (h1 : (step s e).jl.status = .returned) :
    ∃ c, e = .pass c ∧ (step s e).jl.running = [] ∧ (step s e).jl.done = [] ∧
      (s.draining = false → c = none ∧ s.k.updateMeta s.cfg = .ok (step s e).k ∧
        (∀ n ∈ (step s e).k.nodes, (step s e).k.eligible s.cfg n = false) ∧
        (step s e).k.updateMeta s.cfg = .ok (step s e).k) := by
  have hidle := step_retIdle s e (fun h => absurd h h0) h1
  unfold step at h1 ⊢
  rw [(unpark_frame _).2.2.2.2.2.1] at h1
  rw [(unpark_frame _).1]
  by_cases hp : ∃ c, e = .pass c
  · obtain ⟨c, rfl⟩ := hp
    refine ⟨c, rfl, hidle.1, hidle.2, fun hdr => ?_⟩
    simp only [applyEv] at h1 ⊢
    split at h1
    · rename_i hc
      rw [if_pos hc]
      cases hi : iterK s c with
      | none => rw [hi] at h1; exact absurd h1 h0
      | some r =>
        obtain ⟨s', ctl⟩ := r
        rw [hi] at h1
        simp only at h1 ⊢
        rw [(land_frame s' ctl).1]
        have hst := iterK_status s s' c ctl hi
        obtain ⟨-, -, -, -, hs⟩ := iterK_spec s s' c ctl hi
        cases ctl with
        | again => simp only [land] at h1; rw [hst] at h1; exact absurd h1 h0
        | wait => simp only [land] at h1; rw [hst] at h1; exact absurd h1 h0
        | raise => simp [land] at h1
        | ret =>
          rcases hs with ⟨-, -, -, hret, -⟩ | ⟨-, hpop, -, -, -⟩ | ⟨-, _, _, _, -, -, -, hctl⟩
          · rcases hret rfl with h | h
            · omega
            · rw [hdr] at h; cases h
          · obtain ⟨hc0, hu, hel, hfix, -, -⟩ := popNext_none_spec hpop
            exact ⟨hc0, hu, hel, hfix⟩
          · cases hctl
    · exact absurd h1 h0
  · have hne : ∀ c, e ≠ .pass c := fun c hc => hp ⟨c, hc⟩
    exact absurd (applyEv_status_ret_of_not_pass s e hne h1) h0

/-- **C10 converse, every event sequence.**  From any kernel state, for every job limit `njob ≥ 1` and
configuration: when the next event ends the phase while the scheduler is not draining, then in the kernel
state of that moment, which is the state with refreshed metadata, no step is eligible. -/
theorem run_return_is_quiescent (k0 : KState) (cfg : KConfig) (njob : Nat) (hn : 1 ≤ njob) (evs : List Ev) (e : Ev)
    (h0 : (run k0 cfg njob evs).jl.status ≠ .returned)
    (h1 : (run k0 cfg njob (evs ++ [e])).jl.status = .returned)
    (hdr : (run k0 cfg njob evs).draining = false) :
    e = .pass none ∧
    (run k0 cfg njob (evs ++ [e])).jl.running = [] ∧ (run k0 cfg njob (evs ++ [e])).jl.done = [] ∧
    (run k0 cfg njob evs).k.updateMeta (run k0 cfg njob evs).cfg = .ok (run k0 cfg njob (evs ++ [e])).k ∧
    (∀ n ∈ (run k0 cfg njob (evs ++ [e])).k.nodes,
      (run k0 cfg njob (evs ++ [e])).k.eligible (run k0 cfg njob evs).cfg n = false) ∧
    NoEligible (run k0 cfg njob (evs ++ [e])).k (run k0 cfg njob evs).cfg := by
  have hr : run k0 cfg njob (evs ++ [e]) = step (run k0 cfg njob evs) e := by
    unfold run; rw [List.foldl_append]; rfl
  rw [hr] at h1 ⊢
  have hnj : 1 ≤ (run k0 cfg njob evs).jl.njob := by rw [(run_jobLimit k0 cfg njob evs).2]; exact hn
  obtain ⟨c, rfl, h2, h3, h4⟩ := return_is_quiescent _ e hnj h0 h1
  obtain ⟨rfl, h5, h6, h7⟩ := h4 hdr
  exact ⟨rfl, h2, h3, h5, h6, ⟨_, h7, h6⟩⟩

/-! ## (d) No lost wake-up, with the proviso made explicit -/

theorem tail_wait_busy (x : JL) (h : (tail x).2 = .wait) (hd : x.done = []) : x.running ≠ [] := by
  unfold tail at h
  split at h
  · cases h
  · rename_i hc
    intro hr
    apply hc
    simp [hr, hd]

/-- A pass that parks has retired every done task and leaves a task running. -/
theorem iter_wait_busy (s : JL) (h : (iter s).2 = .wait) : (iter s).1.done = [] ∧ (iter s).1.running ≠ [] := by
  unfold iter at h ⊢
  have hdone := handleDone_done s.done.reverse s
  generalize handleDone s s.done.reverse = r at h hdone
  obtain ⟨s1, b⟩ := r
  cases b
  · have hd1 : s1.done = [] := (hdone rfl).1
    simp only at h ⊢
    split
    · rename_i hlt
      rw [if_pos hlt] at h
      have hp := popHash_frame s1.queue s1
      generalize popHash s1 s1.queue = q at hp h
      obtain ⟨s2, o⟩ := q
      have hd2 : s2.done = [] := hp.2.2.1.trans hd1
      cases o with
      | some i => simp at h
      | none =>
        simp only at h ⊢
        split at h
        · simp at h
        · obtain ⟨-, te⟩ := tail_wait _ h
          rw [te]
          exact ⟨hd2, tail_wait_busy _ h hd2⟩
    · rename_i hlt
      rw [if_neg hlt] at h
      obtain ⟨-, te⟩ := tail_wait _ h
      rw [te]
      exact ⟨hd1, tail_wait_busy _ h hd1⟩
  · simp at h

/-- An event of the job loop that leaves the wake event clear has ended no task. -/
theorem apply_quiet (jl : JL) (e : JobLoop.Ev) (hw : (JobLoop.apply jl e).wake = false) :
    (JobLoop.apply jl e).running = jl.running ∧ (JobLoop.apply jl e).done = jl.done ∧
    (JobLoop.apply jl e).njob = jl.njob ∧ (JobLoop.apply jl e).draining = jl.draining ∧
    (jl.status = .waiting → (JobLoop.apply jl e).status = .waiting) := by
  cases e with
  | start =>
    simp only [JobLoop.apply]
    split
    · exact ⟨rfl, rfl, rfl, rfl, fun _ => rfl⟩
    · exact ⟨rfl, rfl, rfl, rfl, id⟩
  | offer j => simp [JobLoop.apply] at hw
  | submit p =>
    have f := submit_frame jl p
    exact ⟨f.1, f.2.2.1, f.2.1, f.2.2.2.2.2.2.2.1, fun h => f.2.2.2.1.trans h⟩
  | promote p =>
    have f := submit_frame jl p
    simp only [JobLoop.apply]
    generalize submit jl p = r at f
    obtain ⟨t, i⟩ := r
    simp only at f ⊢
    split
    · exact ⟨f.1, f.2.2.1, f.2.1, f.2.2.2.2.2.2.2.1, fun h => f.2.2.2.1.trans h⟩
    · exact ⟨f.1, f.2.2.1, f.2.1, f.2.2.2.2.2.2.2.1, fun h => f.2.2.2.1.trans h⟩
  | fin j =>
    simp only [JobLoop.apply] at hw ⊢
    have f := resolveFor_frame jl j
    unfold moveDone at hw ⊢
    split
    · rename_i hc; rw [if_pos hc] at hw; simp at hw
    · exact ⟨f.1, f.2.2.1, f.2.1, f.2.2.2.2.2.2.2.1, fun h => f.2.2.2.1.trans h⟩
  | fail j =>
    cases j with
    | step i =>
      simp only [JobLoop.apply] at hw ⊢
      unfold moveDone at hw ⊢
      split
      · rename_i hc; rw [if_pos hc] at hw; simp at hw
      · exact ⟨rfl, rfl, rfl, rfl, id⟩
    | hash i => exact ⟨rfl, rfl, rfl, rfl, id⟩

/-- While the loop is parked, an event keeps it parked (until `unpark`), keeps the configuration, and, if
it leaves the wake event clear, has neither ended a task nor cleared `draining`. -/
theorem applyEv_parked (s : Sys) (e : Ev) (hpk : s.parked = true) (hst : s.jl.status = .waiting) :
    (applyEv s e).parked = true ∧ (applyEv s e).cfg = s.cfg ∧ (applyEv s e).jl.status = .waiting ∧
    ((applyEv s e).jl.wake = false →
      (applyEv s e).jl.running = s.jl.running ∧ (applyEv s e).jl.done = s.jl.done ∧
      (applyEv s e).jl.njob = s.jl.njob ∧ ((applyEv s e).draining = false → s.draining = false)) := by
  have hj : ∀ (je : JobLoop.Ev) (t : Sys), t.parked = true → t.cfg = s.cfg → t.drain = s.drain →
      t.jl = JobLoop.apply s.jl je →
      t.parked = true ∧ t.cfg = s.cfg ∧ t.jl.status = .waiting ∧
      (t.jl.wake = false → t.jl.running = s.jl.running ∧ t.jl.done = s.jl.done ∧ t.jl.njob = s.jl.njob ∧
        (t.draining = false → s.draining = false)) := by
    intro je t h1 h2 h3 h4
    have hs : t.jl.status = .waiting := by
      rw [h4]
      cases je with
      | start => simp [JobLoop.apply, hst]
      | offer j => exact hst
      | submit p => exact (submit_frame s.jl p).2.2.2.1.trans hst
      | promote p =>
        have f := submit_frame s.jl p
        simp only [JobLoop.apply]
        generalize submit s.jl p = r at f
        obtain ⟨t, i⟩ := r
        simp only at f ⊢
        split <;> exact f.2.2.2.1.trans hst
      | fin j =>
        simp only [JobLoop.apply]
        rw [(moveDone_frame _ _ _).2.2.2.1, (resolveFor_frame s.jl j).2.2.2.1]; exact hst
      | fail j =>
        cases j with
        | step i => simp only [JobLoop.apply]; rw [(moveDone_frame _ _ _).2.2.2.1]; exact hst
        | hash i => exact hst
    refine ⟨h1, h2, hs, fun hw => ?_⟩
    rw [h4] at hw
    obtain ⟨q1, q2, q3, q4, -⟩ := apply_quiet s.jl je hw
    refine ⟨by rw [h4]; exact q1, by rw [h4]; exact q2, by rw [h4]; exact q3, ?_⟩
    unfold Sys.draining
    rw [h3, h4, q4]; exact id
  have hsame : (s.parked = true ∧ s.cfg = s.cfg ∧ s.jl.status = .waiting ∧
      (s.jl.wake = false → s.jl.running = s.jl.running ∧ s.jl.done = s.jl.done ∧ s.jl.njob = s.jl.njob ∧
        (s.draining = false → s.draining = false))) := ⟨hpk, rfl, hst, fun _ => ⟨rfl, rfl, rfl, id⟩⟩
  cases e with
  | start =>
    refine hj .start _ ?_ rfl rfl rfl
    simp [applyEv, hst, hpk]
  | pass c =>
    simp only [applyEv]
    rw [if_neg (by simp [hpk])]
    exact hsame
  | rpc j r =>
    simp only [applyEv]
    split
    · split
      · split
        · exact ⟨hpk, rfl, hst, fun hw => by simp at hw⟩
        · exact ⟨hpk, rfl, hst, fun _ => ⟨rfl, rfl, rfl, id⟩⟩
      · exact hsame
    · exact hsame
  | finish j rs =>
    simp only [applyEv]
    split
    · split
      · exact hj (.fin (.step j)) _ hpk rfl rfl rfl
      · exact hj (.fail (.step j)) _ hpk rfl rfl rfl
    · exact hsame
  | submit p => exact hj (.submit p) _ hpk rfl rfl rfl
  | promote p => exact hj (.promote p) _ hpk rfl rfl rfl
  | hashFin i r =>
    simp only [applyEv]
    split
    · exact hj (.fin (.hash i)) _ hpk rfl rfl rfl
    · exact hsame
  | drain =>
    refine ⟨hpk, rfl, hst, fun _ => ⟨rfl, rfl, rfl, fun h => ?_⟩⟩
    simp [applyEv, Sys.draining] at h
  | undrain => simp only [applyEv]; rw [if_pos hst]; exact hsame
  | external r => simp only [applyEv]; rw [if_pos hst]; exact hsame

/-- The loop gets parked in one way only: a pass ends in `wake_job_loop.wait()`. -/
theorem parked_only_by_wait (s : Sys) (e : Ev) (hpk : s.parked = false) (h : (applyEv s e).parked = true) :
    ∃ c s', e = .pass c ∧ s.jl.status = .waiting ∧ iterK s c = some (s', .wait) ∧
      applyEv s e = { s' with parked := true } := by
  cases e with
  | start => simp only [applyEv] at h; split at h <;> simp_all
  | pass c =>
    simp only [applyEv] at h ⊢
    split at h
    · rename_i hc
      rw [if_pos hc]
      cases hi : iterK s c with
      | none => rw [hi] at h; simp only at h; rw [hpk] at h; cases h
      | some r =>
        obtain ⟨s', ctl⟩ := r
        rw [hi] at h
        simp only at h ⊢
        have hp' : s'.parked = false := (iterK_spec s s' c ctl hi).2.2.1.trans hpk
        cases ctl with
        | again => simp only [land] at h; rw [hp'] at h; cases h
        | wait => exact ⟨c, s', rfl, hc.1, hi, rfl⟩
        | ret => simp only [land] at h; rw [hp'] at h; cases h
        | raise => simp only [land] at h; rw [hp'] at h; cases h
    · rw [hpk] at h; cases h
  | rpc j r =>
    simp only [applyEv] at h
    split at h
    · split at h
      · simp only at h; rw [hpk] at h; cases h
      · rw [hpk] at h; cases h
    · rw [hpk] at h; cases h
  | finish j rs =>
    simp only [applyEv] at h
    split at h
    · split at h <;> (simp only at h; rw [hpk] at h; cases h)
    · rw [hpk] at h; cases h
  | submit p => simp only [applyEv] at h; rw [hpk] at h; cases h
  | promote p => simp only [applyEv] at h; rw [hpk] at h; cases h
  | hashFin i r =>
    simp only [applyEv] at h
    split at h
    · simp only at h; rw [hpk] at h; cases h
    · rw [hpk] at h; cases h
  | drain => simp only [applyEv] at h; rw [hpk] at h; cases h
  | undrain => simp only [applyEv] at h; split at h <;> (try simp only at h) <;> (rw [hpk] at h; cases h)
  | external r => simp only [applyEv] at h; split at h <;> (try simp only at h) <;> (rw [hpk] at h; cases h)

end StepupModel.B.Build
