import StepupModel.Lemmas.Stable
/-!
# Instances of `Stable`: four invariants of every history of the kernel model

* `FilesOK` (state/hash consistency of every file row, `Lemmas/Inv.lean`), again, through the
  generic route;
* `DepsKindOK`: every edge links a file with a step or a static tree with a file;
* `KeysNodup` (`Lemmas/Cleanup.lean`): one row per `(kind, label)`;
* `StepRowsOK`: a deferred step is PENDING, a holding step is RUNNING.  This one is stable under
  every write *except* an unguarded `Step.hold` (the code increments `_holding` whatever the state
  of the step): it is an instance of `StableG` for the guard "the step is RUNNING", hence an
  invariant of the histories whose `hold` requests are made on RUNNING steps, and
  `stepRowsOK_not_stable` shows the guard is needed.

Two builders cover the common shapes: `StableG.ofRows` for row-wise predicates and `Stable.ofDeps`
for predicates of the edge list.  No property statements here.
-/
namespace StepupModel.K
set_option linter.unusedSimpArgs false

/-! ## Row-wise predicates -/

/-- `R` holds of every row. -/
def Rows (R : Node → Prop) (s : KState) : Prop := ∀ n ∈ s.nodes, R n

theorem rows_modifyWhere {R : Node → Prop} (s : KState) (p : Node → Bool) (f : Node → Node)
    (hf : ∀ n ∈ s.nodes, p n = true → R n → R (f n)) (h : Rows R s) : Rows R (s.modifyWhere p f) := by
  intro n hn
  unfold KState.modifyWhere at hn
  simp only [List.mem_map] at hn
  obtain ⟨m, hm, rfl⟩ := hn
  by_cases hk : p m = true
  · simp only [hk, if_true]; exact hf m hm hk (h m hm)
  · simp only [hk, if_false]; exact h m hm

theorem rows_modify {R : Node → Prop} (s : KState) (k : Key) (f : Node → Node)
    (hf : ∀ n ∈ s.nodes, n.key = k → R n → R (f n)) (h : Rows R s) : Rows R (s.modify k f) := by
  intro n hn
  unfold KState.modify at hn
  simp only [List.mem_map] at hn
  obtain ⟨m, hm, rfl⟩ := hn
  by_cases hk : m.key = k
  · simp only [hk, if_true]; exact hf m hm hk (h m hm)
  · simp only [hk, if_false]; exact h m hm

/-- The row guard of `hold`: every row of the key satisfies `g`. -/
def RowGuard (g : Node → Prop) (s : KState) (k : Key) : Prop := ∀ n ∈ s.nodes, n.key = k → g n

/-- A row-wise predicate is stable as soon as each kind of row write keeps it on the row it
touches, and a fresh row has it. -/
theorem StableG.ofRows (R : Node → Prop) (g : Node → Prop)
    (hcache : ∀ f, CacheOnly f → ∀ n, R n → R (f n))
    (hdet : ∀ (n : Node) (d : Bool), R n → R { n with detached := d })
    (hcre : ∀ (n : Node) (c : Option Key), R n → R { n with creator := c })
    (hfile : ∀ (n n' : Node) st nh, fileRowWrite n st nh = .ok n' → R n → R n')
    (hfinit : ∀ (n : Node) st, NoHashState st → R n → R { n with fstate := st, fhash := none })
    (hstep : ∀ (n n' : Node) st d, stepRowWrite n st d = .ok n' → R n → R n')
    (hsinit : ∀ (s : KState) (k : Key) (i : StepInit), Rows R s → Rows R (s.initStepRow k i))
    (hset : ∀ (n : Node) (h : Nat), R n → R { n with shash := some h, hasHash := true })
    (hdel : ∀ (n : Node), R n → R { n with shash := none, hasHash := false })
    (hbump : ∀ (n : Node), R n → R { n with deferCount := n.deferCount + 1 })
    (hhold : ∀ (n : Node), g n → R n → R { n with holding := n.holding + 1 })
    (hrel : ∀ (n : Node), R n → R { n with holding := n.holding - 1 })
    (hrec : ∀ (n : Node) (need : Need) (shell : Bool), R n → R { n with need := need, shell := shell })
    (hfresh : ∀ (k : Key) (c : Option Key) (d : Bool), R { key := k, creator := c, detached := d }) :
    StableG (RowGuard g) (Rows R) where
  cache s p f hf hp := rows_modifyWhere s p f (fun n _ _ hn => hcache f hf n hn) hp
  detached s k d hp := rows_modify s k _ (fun n _ _ hn => hdet n d hn) hp
  creator s k c _ _ hp := rows_modify s k _ (fun n _ _ hn => hcre n c hn) hp
  handOverRow s k tk hp := rows_modify s k _ (fun n _ _ hn => hcre n (some tk) hn) hp
  fileWrite s k n n' st nh hf hw hp :=
    rows_modify s k _ (fun _ _ _ _ => hfile n n' st nh hw (hp n (mem_of_find? hf))) hp
  fileInit s k st hst _ hp := rows_modify s k _ (fun n _ _ hn => hfinit n st hst hn) hp
  stepWrite s k n n' st d hf hw hp :=
    rows_modify s k _ (fun _ _ _ _ => hstep n n' st d hw (hp n (mem_of_find? hf))) hp
  stepInit s k i hp := hsinit s k i hp
  setHash s k h hp := rows_modify s k _ (fun n _ _ hn => hset n h hn) hp
  deleteHash s k hp := by
    unfold KState.deleteHash
    refine rows_modify s k _ (fun n _ _ hn => ?_) hp
    split
    · exact hdel n hn
    · exact hn
  bumpDefer s k hp := rows_modify s k _ (fun n _ _ hn => hbump n hn) hp
  hold s k hg hp := rows_modify s k _ (fun n hm hk hn => hhold n (hg n hm hk) hn) hp
  release s k _ _ _ hp := rows_modify s k _ (fun n _ _ hn => hrel n hn) hp
  recycled s k need shell hp := rows_modify s k _ (fun n _ _ hn => hrec n need shell hn) hp
  addDep _ _ _ _ _ hp := hp
  filterDeps _ _ hp := hp
  markDyn _ _ _ _ hp := hp
  appendNode s k c _ _ hp := by
    intro n hn
    unfold KState.appendNode at hn
    simp only [List.mem_append, List.mem_singleton] at hn
    rcases hn with hn | rfl
    · exact hp n hn
    · exact hfresh k c _
  removeNode s k _ hp := fun n hn => hp n (List.mem_filter.1 hn).1
  queueDelete _ _ _ hp := hp
  clearQueue _ hp := hp

/-- The unguarded form: `hold` keeps the row predicate whatever the row. -/
theorem StableG.weaken {G G' : KState → Key → Prop} {P : KState → Prop} (L : StableG G P)
    (h : ∀ s k, G' s k → G s k) : StableG G' P :=
  { L with hold := fun s k hg hp => L.hold s k (h s k hg) hp }

/-! ## (a) State/hash consistency, through the generic route -/

theorem filesOK_eq_rows : FilesOK = Rows (fun n => HashInv n.fstate n.fhash) := rfl

theorem stable_filesOK : Stable FilesOK := by
  rw [filesOK_eq_rows]
  refine StableG.weaken (StableG.ofRows (fun n => HashInv n.fstate n.fhash) (fun _ => True) ?_ ?_ ?_ ?_ ?_ ?_ ?_ ?_ ?_ ?_ ?_ ?_ ?_ ?_)
    (fun _ _ _ _ _ _ => trivial)
  · intro f hf n hn
    have := hf n
    simp only [Node.hard, Prod.mk.injEq] at this
    obtain ⟨_, _, _, h4, h5, _⟩ := this
    rw [h4, h5]; exact hn
  · intro n d hn; exact hn
  · intro n c hn; exact hn
  · intro n n' st nh hw _; exact fileRowWrite_hashInv n n' st nh hw
  · intro n st hst _; exact hashInv_noHash hst
  · intro n n' st d hw hn
    unfold stepRowWrite at hw
    dsimp only at hw
    split at hw
    · cases hw
    · simp only [pure, Except.pure, Except.ok.injEq] at hw
      subst hw
      exact hn
  · intro s k i hp; exact filesOK_initStepRow s k i hp
  · intro n h hn; exact hn
  · intro n hn; exact hn
  · intro n hn; exact hn
  · intro n _ hn; exact hn
  · intro n hn; exact hn
  · intro n need shell hn; exact hn
  · intro k c d; exact hashInv_noHash (Or.inl rfl)

theorem init_filesOK' : FilesOK KState.init := by
  intro n hn
  simp [KState.init] at hn
  subst hn
  exact hashInv_noHash (Or.inl rfl)

/-- State/hash consistency after every history, obtained from the meta-theorem. -/
theorem filesOK_reachable (h : List (KConfig × Req)) : FilesOK (KState.init.run h) :=
  reachable_stable stable_filesOK init_filesOK' h

/-! ## (b) Dependencies link files with steps, static trees with files -/

def DepsKindOK (s : KState) : Prop := ∀ d ∈ s.deps, depKindOk d.src.kind d.snk.kind = true

/-- A predicate of the edge list is stable as soon as the three writes of `dependency` /
`dynamic_dep` keep it. -/
theorem Stable.ofDeps (Q : List Dep → Prop)
    (hadd : ∀ (l : List Dep) (src snk : Key), depKindOk src.kind snk.kind = true → Q l →
      Q (l ++ [({ src := src, snk := snk } : Dep)]))
    (hfilter : ∀ (l : List Dep) (p : Dep → Bool), Q l → Q (l.filter fun d => !p d))
    (hmap : ∀ (l : List Dep) (src snk : Key) (dyn : Bool), Q l →
      Q (l.map fun (d : Dep) => if d.src = src ∧ d.snk = snk then { d with dyn := dyn } else d)) :
    Stable (fun s => Q s.deps) where
  cache _ _ _ _ hp := hp
  detached _ _ _ hp := hp
  creator _ _ _ _ _ hp := hp
  handOverRow _ _ _ hp := hp
  fileWrite _ _ _ _ _ _ _ _ hp := hp
  fileInit _ _ _ _ _ hp := hp
  stepWrite _ _ _ _ _ _ _ _ hp := hp
  stepInit _ _ _ hp := hp
  setHash _ _ _ hp := hp
  deleteHash _ _ hp := hp
  bumpDefer _ _ hp := hp
  hold _ _ _ hp := hp
  release _ _ _ _ _ hp := hp
  recycled _ _ _ _ hp := hp
  addDep s src snk _ hk hp := hadd s.deps src snk hk hp
  filterDeps s p hp := hfilter s.deps p hp
  markDyn s src snk dyn hp := hmap s.deps src snk dyn hp
  appendNode _ _ _ _ _ hp := hp
  removeNode _ _ _ hp := hp
  queueDelete _ _ _ hp := hp
  clearQueue _ hp := hp

theorem stable_depsKindOK : Stable DepsKindOK := by
  refine Stable.ofDeps (fun l => ∀ d ∈ l, depKindOk d.src.kind d.snk.kind = true) ?_ ?_ ?_
  · intro l src snk hk hl d hd
    simp only [List.mem_append, List.mem_singleton] at hd
    rcases hd with hd | rfl
    · exact hl d hd
    · exact hk
  · intro l p hl d hd
    exact hl d (List.mem_filter.1 hd).1
  · intro l src snk dyn hl d hd
    simp only [List.mem_map] at hd
    obtain ⟨e, he, rfl⟩ := hd
    split
    · exact hl e he
    · exact hl e he

theorem init_depsKindOK : DepsKindOK KState.init := by
  intro d hd
  simp [KState.init] at hd

/-- After every history every edge links a file with a step or a static tree with a file. -/
theorem depsKindOK_reachable (h : List (KConfig × Req)) :
    ∀ d ∈ (KState.init.run h).deps, depKindOk d.src.kind d.snk.kind = true :=
  reachable_stable stable_depsKindOK init_depsKindOK h

/-! ## (c) One row per `(kind, label)` -/

/-- `KeysNodup` (of `Lemmas/Cleanup.lean`, stated there on the cleanup columns) in plain terms. -/
theorem keysNodup_iff (s : KState) : KeysNodup s ↔ (s.nodes.map (·.key)).Nodup := by
  unfold KeysNodup KState.cores
  rw [List.map_map]
  exact Iff.rfl

theorem keys_modify (s : KState) (k : Key) (f : Node → Node) (hf : ∀ n ∈ s.nodes, n.key = k → (f n).key = k) :
    (s.modify k f).nodes.map (·.key) = s.nodes.map (·.key) := by
  unfold KState.modify
  simp only [List.map_map]
  apply List.map_congr_left
  intro n hn
  simp only [Function.comp]
  by_cases hk : n.key = k
  · simp only [hk, if_true]; exact hf n hn hk
  · simp only [hk, if_false]

theorem keys_modifyWhere (s : KState) (p : Node → Bool) (f : Node → Node) (hf : ∀ n, (f n).key = n.key) :
    (s.modifyWhere p f).nodes.map (·.key) = s.nodes.map (·.key) := by
  unfold KState.modifyWhere
  simp only [List.map_map]
  apply List.map_congr_left
  intro n _
  simp only [Function.comp]
  split
  · exact hf n
  · rfl

theorem fileRowWrite_key (n n' : Node) (st : FileState) (nh : Option (Option Nat))
    (h : fileRowWrite n st nh = .ok n') : n'.key = n.key := by
  unfold fileRowWrite at h
  dsimp only at h
  split at h
  · cases h
  · split at h
    · cases h
    · simp only [pure, Except.pure, Except.ok.injEq] at h
      subst h; rfl

theorem stepRowWrite_key (n n' : Node) (st : StepState) (d : Option Bool)
    (h : stepRowWrite n st d = .ok n') : n'.key = n.key := by
  unfold stepRowWrite at h
  dsimp only at h
  split at h
  · cases h
  · simp only [pure, Except.pure, Except.ok.injEq] at h
    subst h; rfl

/-- The freshness hypothesis of the `appendNode` leaf (it comes from the `find? k = none` branch of
`Trellis.create`) is what keeps the keys distinct. -/
theorem stable_keysNodup : Stable KeysNodup := by
  have key_eq : ∀ (s s' : KState), s'.nodes.map (·.key) = s.nodes.map (·.key) → KeysNodup s → KeysNodup s' := by
    intro s s' he hp
    rw [keysNodup_iff] at hp ⊢
    rw [he]; exact hp
  have at_k : ∀ (s : KState) (k : Key) (f : Node → Node), (∀ n, (f n).key = n.key) → KeysNodup s →
      KeysNodup (s.modify k f) := by
    intro s k f hf hp
    exact key_eq s _ (keys_modify s k f (fun n _ hk => (hf n).trans hk)) hp
  refine
    { cache := ?_, detached := ?_, creator := ?_, handOverRow := ?_, fileWrite := ?_, fileInit := ?_,
      stepWrite := ?_, stepInit := ?_, setHash := ?_, deleteHash := ?_, bumpDefer := ?_, hold := ?_,
      release := ?_, recycled := ?_, addDep := ?_, filterDeps := ?_, markDyn := ?_, appendNode := ?_,
      removeNode := ?_, queueDelete := ?_, clearQueue := ?_ }
  · intro s p f hf hp
    refine key_eq s _ (keys_modifyWhere s p f (fun n => ?_)) hp
    have := hf n
    simp only [Node.hard, Prod.mk.injEq] at this
    exact this.1
  · intro s k d hp; exact at_k s k _ (fun _ => rfl) hp
  · intro s k c d _ hp; exact at_k s k _ (fun _ => rfl) hp
  · intro s k tk hp; exact at_k s k _ (fun _ => rfl) hp
  · intro s k n n' st nh hf hw hp
    refine key_eq s _ (keys_modify s k _ (fun _ _ _ => ?_)) hp
    exact (fileRowWrite_key n n' st nh hw).trans (find?_mem s k n hf).2
  · intro s k st _ _ hp; exact at_k s k _ (fun _ => rfl) hp
  · intro s k n n' st d hf hw hp
    refine key_eq s _ (keys_modify s k _ (fun _ _ _ => ?_)) hp
    exact (stepRowWrite_key n n' st d hw).trans (find?_mem s k n hf).2
  · intro s k i hp; exact at_k s k _ (fun _ => rfl) hp
  · intro s k h hp; exact at_k s k _ (fun _ => rfl) hp
  · intro s k hp
    refine at_k s k _ (fun n => ?_) hp
    split <;> rfl
  · intro s k hp; exact at_k s k _ (fun _ => rfl) hp
  · intro s k _ hp; exact at_k s k _ (fun _ => rfl) hp
  · intro s k n _ _ hp; exact at_k s k _ (fun _ => rfl) hp
  · intro s k need shell hp; exact at_k s k _ (fun _ => rfl) hp
  · intro s src snk _ _ hp; exact key_eq s _ rfl hp
  · intro s p hp; exact key_eq s _ rfl hp
  · intro s src snk dyn hp; exact key_eq s _ rfl hp
  · intro s k c hfind _ hp
    rw [keysNodup_iff] at hp ⊢
    unfold KState.appendNode
    simp only [List.map_append, List.map_cons, List.map_nil]
    rw [List.nodup_append]
    refine ⟨hp, by simp, ?_⟩
    intro a ha b hb
    simp only [List.mem_singleton] at hb
    subst hb
    intro hab
    subst hab
    obtain ⟨m, hm, hmk⟩ := List.mem_map.1 ha
    have hnone := List.find?_eq_none.1 hfind m hm
    exact hnone (by simpa using hmk)
  · intro s k _ hp
    rw [keysNodup_iff] at hp ⊢
    exact List.Nodup.sublist (List.Sublist.map _ List.filter_sublist) hp
  · intro s path h hp; exact key_eq s _ rfl hp
  · intro s hp; exact key_eq s _ rfl hp

theorem init_keysNodup : KeysNodup KState.init := by
  rw [keysNodup_iff]
  simp [KState.init]

/-- After every history the stored workflow has one row per `(kind, label)`. -/
theorem keysNodup_reachable (h : List (KConfig × Req)) : ((KState.init.run h).nodes.map (·.key)).Nodup :=
  (keysNodup_iff _).1 (reachable_stable stable_keysNodup init_keysNodup h)

/-! ## (d) Deferred steps are PENDING, holding steps are RUNNING -/

/-- Row-level invariant of the `step` table (the definition of `Props.C09.StepRowInv`). -/
def StepRowOK (n : Node) : Prop :=
  (n.deferred = true → n.sstate = .pending) ∧ (0 < n.holding → n.sstate = .running)

def StepRowsOK (s : KState) : Prop := ∀ n ∈ s.nodes, StepRowOK n

/-- Every row of the step is RUNNING: what the caller of `Step.hold` knows (`DirectorHandler.hold`
resolves the step of a job in flight). -/
def HoldOnRunning : KState → Key → Prop := RowGuard (fun n => n.sstate = .running)

theorem stepRowWrite_rowOK (n n' : Node) (st : StepState) (d : Option Bool)
    (h : stepRowWrite n st d = .ok n') : StepRowOK n' := by
  unfold stepRowWrite at h
  dsimp only at h
  by_cases hcheck : (pickDeferred d n.deferred) = true ∧ st ≠ .pending
  · rw [if_pos hcheck] at h
    cases h
  · rw [if_neg hcheck] at h
    simp only [pure, Except.pure, Except.ok.injEq] at h
    subst h
    refine ⟨?_, ?_⟩
    · intro hd
      simp only at hd ⊢
      by_cases hsf : st = .succeeded ∨ st = .failed
      · simp [hsf] at hd
      · simp only [hsf, if_false] at hd
        cases hp : decide (st = .pending) with
        | true => simpa using hp
        | false => exact absurd ⟨hd, by simpa using hp⟩ hcheck
    · intro hh
      simp only at hh ⊢
      by_cases hr : st = .running
      · exact hr
      · simp [hr] at hh

/-- `StepRowsOK` survives every primitive write, `hold` on a RUNNING step included. -/
theorem stable_stepRowsOK : StableG HoldOnRunning StepRowsOK := by
  refine StableG.ofRows StepRowOK (fun n => n.sstate = .running) ?_ ?_ ?_ ?_ ?_ ?_ ?_ ?_ ?_ ?_ ?_ ?_ ?_ ?_
  · intro f hf n hn
    have := hf n
    simp only [Node.hard, Prod.mk.injEq] at this
    obtain ⟨_, _, _, _, _, h6, h7, _, h9, _⟩ := this
    unfold StepRowOK
    rw [h6, h7, h9]; exact hn
  · intro n d hn; exact hn
  · intro n c hn; exact hn
  · intro n n' st nh hw hn
    unfold fileRowWrite at hw
    dsimp only at hw
    split at hw
    · cases hw
    · split at hw
      · cases hw
      · simp only [pure, Except.pure, Except.ok.injEq] at hw
        subst hw; exact hn
  · intro n st _ hn; exact hn
  · intro n n' st d hw _; exact stepRowWrite_rowOK n n' st d hw
  · intro s k i hp
    unfold KState.initStepRow
    refine rows_modify s k _ (fun n _ _ _ => ?_) hp
    exact ⟨(fun h => by cases h), (fun h => absurd h (Nat.lt_irrefl 0))⟩
  · intro n h hn; exact hn
  · intro n hn; exact hn
  · intro n hn; exact hn
  · intro n hg hn; exact ⟨hn.1, fun _ => hg⟩
  · intro n hn
    refine ⟨hn.1, fun h => hn.2 ?_⟩
    have h' : 0 < n.holding - 1 := h
    omega
  · intro n need shell hn; exact ⟨hn.1, hn.2⟩
  · intro k c d; exact ⟨(fun h => by cases h), (fun h => absurd h (Nat.lt_irrefl 0))⟩

theorem init_stepRowsOK : StepRowsOK KState.init := by
  intro n hn
  simp [KState.init] at hn
  subst hn
  exact ⟨(fun h => by cases h), (fun h => absurd h (Nat.lt_irrefl 0))⟩

/-- After every history whose `hold` requests are made on RUNNING steps, every deferred step is
PENDING and every holding step is RUNNING. -/
theorem stepRowsOK_reachable_guarded (h : List (KConfig × Req)) (hg : HoldsGuarded HoldOnRunning KState.init h) :
    StepRowsOK (KState.init.run h) :=
  reachable_stableG stable_stepRowsOK init_stepRowsOK h hg

/-- A PENDING step next to the root: the state on which an unguarded `hold` breaks the invariant. -/
def holdWitness : KState :=
  { nodes := KState.init.nodes ++ [{ key := stepKey "x", creator := some rootKey }] }

/-- The guard is needed: the `hold` write on a PENDING step (the kernel accepts it, only the caller
makes sure the step is RUNNING) leaves a row that is holding without RUNNING. -/
theorem stepRowsOK_not_stable : ¬ Stable StepRowsOK := by
  intro L
  have h1 : StepRowsOK holdWitness := by
    intro n hn
    simp [holdWitness, KState.init] at hn
    rcases hn with rfl | rfl <;>
      exact ⟨(fun h => by cases h), (fun h => absurd h (Nat.lt_irrefl 0))⟩
  have h2 := L.hold holdWitness (stepKey "x") trivial h1
  have hmem : ({ key := stepKey "x", creator := some rootKey, holding := 1 } : Node) ∈
      (holdWitness.modify (stepKey "x") fun n => { n with holding := n.holding + 1 }).nodes := by
    simp [KState.modify, holdWitness, KState.init, rootKey, stepKey]
  have := (h2 _ hmem).2 (by decide)
  cases this

/-- The same at the level of requests: on `holdWitness` (row invariant and distinct keys hold) the
kernel accepts `hold` for the PENDING step, and the state after the request violates the row
invariant.  (`holdWitness` is, up to cache columns, what `define` of a step `x` by the root
reaches from the empty workflow.) -/
theorem hold_request_breaks_stepRowsOK :
    StepRowsOK holdWitness ∧ KeysNodup holdWitness ∧
      ¬ StepRowsOK (holdWitness.step {} (.hold (stepKey "x"))) := by
  refine ⟨?_, ?_, ?_⟩
  · intro n hn
    simp [holdWitness, KState.init] at hn
    rcases hn with rfl | rfl <;>
      exact ⟨(fun h => by cases h), (fun h => absurd h (Nat.lt_irrefl 0))⟩
  · rw [keysNodup_iff]
    simp [holdWitness, KState.init, rootKey, stepKey]
  · intro hall
    have hbad : ((holdWitness.step {} (.hold (stepKey "x"))).nodes.any fun n =>
        decide (0 < n.holding) && decide (n.sstate = .pending)) = true := by decide
    obtain ⟨n, hn, hb⟩ := List.any_eq_true.1 hbad
    simp only [Bool.and_eq_true, decide_eq_true_eq] at hb
    have := (hall n hn).2 hb.1
    rw [hb.2] at this
    cases this

end StepupModel.K
