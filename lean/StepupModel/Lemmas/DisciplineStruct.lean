import StepupModel.Lemmas.DisciplineDetach
/-!
# The flag discipline: the structural side condition of `Node.detach`

`Struct s` is a flag-free invariant of the graph: one row per key; a file with an edge from a step
is owned by that step (when it has a creator at all) and is not in a static state; the creator of
a step is a step or the root; the root is its own creator; dependency rows join a file and a step
(or a tree and a file) that both have a row.  Under `Struct`, the step subtree that
`Step.detach` flags covers everything its flips touch (`covers_of_struct`), so `detach` preserves
the flag discipline (`detach_disc`), except for the raw detach of an output file that still has the
edge from its producer (`FileDetachOK`).
-/
namespace StepupModel.K.Discipline
open StepupModel.K.MetaAfter StepupModel.Lemmas StepupModel.K.Sk
set_option linter.unusedSimpArgs false
set_option linter.unusedVariables false

/-- The flag-free structural invariant. -/
structure Struct (s : KState) : Prop where
  keys : KeysUnique s
  own : ∀ d ∈ s.deps, d.src.kind = .step → ∀ f, s.find? d.snk = some f →
    (∀ c, f.creator = some c → c = d.src) ∧ f.fstate.role? ≠ some .static
  kinds : ∀ n ∈ s.nodes, n.key.kind = .step → ∀ c, n.creator = some c → c.kind = .step ∨ c = rootKey
  root : ∀ n ∈ s.nodes, n.key = rootKey → n.creator = some rootKey
  dkinds : ∀ d ∈ s.deps, depKindOk d.src.kind d.snk.kind = true
  closed : ∀ d ∈ s.deps, (s.find? d.src).isSome = true ∧ (s.find? d.snk).isSome = true
  roots : ∀ n ∈ s.nodes, n.key.kind = .root → n.key = rootKey

/-- What a directly detached file must satisfy: its creator, when a step, has no edge into it any
more (`reset_for_rerun` deletes the edge of an amended output before it detaches the file). -/
def FileDetachOK (s : KState) (k : Key) : Prop :=
  k.kind = .file → ∀ n c, s.find? k = some n → n.creator = some c → c.kind = .step → ¬ Edge s.deps c k

theorem mem_skel {s : KState} {t : Tri} (h : t ∈ s.skel) : ∃ n ∈ s.nodes, n.tri = t := List.mem_map.1 h

theorem skNodup_of_keys {s : KState} (h : KeysUnique s) : Sk.Nodup s.skel := by
  unfold Sk.Nodup KState.skel
  rw [List.map_map]
  exact h

/-- Rows of the skeleton after `setRow k` other than the row of `k` are rows of the old skeleton. -/
theorem mem_setRow_ne {l : List Tri} {k : Key} {c : Option Key} {d : Bool} {t : Tri} (h : t ∈ setRow k c d l)
    (hk : t.1 ≠ k) : t ∈ l := by
  unfold setRow at h
  obtain ⟨u, hu, rfl⟩ := List.mem_map.1 h
  by_cases hu1 : u.1 = k
  · simp only [hu1, if_true] at hk; exact absurd rfl hk
  · simp only [hu1, if_false]; exact hu

theorem mem_setRow_eq {l : List Tri} {k : Key} {c : Option Key} {d : Bool} {t : Tri} (h : t ∈ setRow k c d l)
    (hk : t.1 = k) : t = (k, c, d) := by
  unfold setRow at h
  obtain ⟨u, hu, rfl⟩ := List.mem_map.1 h
  by_cases hu1 : u.1 = k
  · simp only [hu1, if_true]
  · simp only [hu1, if_false] at hk

/-- `setD` keeps keys and creators. -/
theorem mem_setD {l : List Tri} {D : Key → Bool} {d : Bool} {t : Tri} (h : t ∈ l) :
    ∃ d', (t.1, t.2.1, d') ∈ setD D d l := by
  unfold setD
  by_cases hD : D t.1 = true
  · exact ⟨d, List.mem_map.2 ⟨t, h, by simp only [hD, if_true]⟩⟩
  · exact ⟨t.2.2, List.mem_map.2 ⟨t, h, by simp only [hD]; rfl⟩⟩

/-- **Under `Struct`, the flagged subtree covers the flips of `detach`.** -/
theorem covers_of_struct {s s1 : KState} {k : Key} {n : Node} {ks : List Key} (hS : Struct s)
    (hfile : FileDetachOK s k) (hf : s.find? k = some n) (h1 : s.detachCore k n = .ok s1)
    (hks : s1.stepSubtree k = some ks) : Covers s.deps ks (detachFlips s k n) := by
  unfold detachFlips
  unfold KState.detachCore at h1
  by_cases hcr : n.creator.isSome = true
  · rw [if_pos hcr] at h1 ⊢
    simp only [bind, Except.bind] at h1
    cases hsc : s.setCreator k none true with
    | error e => simp [hsc] at h1
    | ok sc =>
      simp only [hsc, pure, Except.pure, Except.ok.injEq] at h1
      obtain ⟨hskc, hallow⟩ := skel_setCreator hsc
      -- `k` is not the root: the CHECKs of the node table refuse the write
      have hkroot : k ≠ rootKey := by
        intro he
        unfold KState.creatorAllowed at hallow
        rw [he] at hallow
        simp [rootKey] at hallow
      -- rows of `s1` carry the keys and creators of `sc`
      have hrows1 : ∀ t ∈ sc.skel, ∃ n1 ∈ s1.nodes, n1.key = t.1 ∧ n1.creator = t.2.1 := by
        intro t ht
        by_cases hdet : (!n.detached) = true
        · rw [if_pos hdet] at h1
          have hsk1 : s1.skel = setD (fun x => (sc.descendants k).contains x) true sc.skel := by
            rw [← h1]; exact skel_setDetachedRec sc k true
          obtain ⟨d', hd'⟩ := mem_setD (D := fun x => (sc.descendants k).contains x) (d := true) ht
          rw [← hsk1] at hd'
          obtain ⟨n1, hn1, he⟩ := mem_skel hd'
          exact ⟨n1, hn1, congrArg (·.1) he, congrArg (·.2.1) he⟩
        · rw [if_neg hdet] at h1
          subst h1
          obtain ⟨n1, hn1, he⟩ := mem_skel ht
          exact ⟨n1, hn1, congrArg (·.1) he, congrArg (·.2.1) he⟩
      -- rows of `sc` other than `k` are rows of `s`
      have hrowsc : ∀ t ∈ sc.skel, t.1 ≠ k → ∃ m ∈ s.nodes, m.key = t.1 ∧ m.creator = t.2.1 := by
        intro t ht hne
        rw [hskc] at ht
        obtain ⟨m, hm, he⟩ := mem_skel (mem_setRow_ne ht hne)
        exact ⟨m, hm, congrArg (·.1) he, congrArg (·.2.1) he⟩
      have hrowk : ∀ t ∈ sc.skel, t.1 = k → t.2.1 = none := by
        intro t ht he
        rw [hskc] at ht
        rw [mem_setRow_eq ht he]
      -- the row of `k` exists in `s1`
      have hk1 : ∃ n1, s1.find? k = some n1 := by
        have : (k, n.creator, n.detached) ∈ s.skel := find?_row hf
        have hsc' : (k, none, true) ∈ sc.skel := by
          rw [hskc]
          unfold setRow
          exact List.mem_map.2 ⟨_, this, by simp⟩
        obtain ⟨n1, hn1, hk', _⟩ := hrows1 _ hsc'
        cases hfind : s1.find? k with
        | some n1' => exact ⟨n1', rfl⟩
        | none =>
          exfalso
          unfold KState.find? at hfind
          have := List.find?_eq_none.1 hfind n1 hn1
          simp only [decide_eq_true_eq] at this
          exact this hk'
      obtain ⟨nk1, hnk1⟩ := hk1
      have hkin : k.kind = .step → k ∈ ks := fun hs => (stepSubtree_spec hks hnk1 hs).1
      have hclosed : k.kind = .step → StepClosed s1 ks := fun hs => (stepSubtree_spec hks hnk1 hs).2
      -- no product chain ends in the root
      have hnoroot : ∀ c d, (rootKey, some c, d) ∈ sc.skel → c = rootKey := by
        intro c d ht
        obtain ⟨m, hm, hmk, hmc⟩ := hrowsc _ ht (fun he => hkroot he.symm)
        have := hS.root m hm hmk
        rw [this] at hmc
        simpa using hmc.symm
      -- every recursive product that is a step is in the flagged subtree
      have hsteps : ∀ x, Desc sc.skel k x → x.kind = .step → x ∈ ks := by
        intro x hx
        induction hx with
        | direct x d hm hne =>
          intro hxs
          obtain ⟨m, hm', hmk, hmc⟩ := hrowsc _ hm hne
          have hkk : k.kind = .step := by
            rcases hS.kinds m hm' (hmk ▸ hxs) k hmc with h | h
            · exact h
            · exact absurd h hkroot
          obtain ⟨n1, hn1, hk1', hc1⟩ := hrows1 _ hm
          have := hclosed hkk n1 hn1 k (hkin hkk) ⟨hk1' ▸ hxs, hc1, hk1' ▸ hne⟩
          rw [hk1'] at this; exact this
        | trans x c d hm hc hne ih =>
          intro hxs
          have hxk : x ≠ k := by
            intro he
            have := hrowk _ hm he
            cases this
          obtain ⟨m, hm', hmk, hmc⟩ := hrowsc _ hm hxk
          have hck : c.kind = .step := by
            rcases hS.kinds m hm' (hmk ▸ hxs) c hmc with h | h
            · exact h
            · exfalso
              subst h
              obtain ⟨c', d', hrow, hne', _⟩ := hc.row
              exact hne' (hnoroot c' d' hrow).symm
          have hcin := ih hck
          have hkk : k.kind = .step := by
            -- the chain from `c` up to `k` consists of steps: `k` itself is one
            clear ih hcin hm hne hxk hm' hmk hmc hxs m
            induction hc with
            | direct y d' hm2 hne2 =>
              obtain ⟨m2, hm2', hmk2, hmc2⟩ := hrowsc _ hm2 hne2
              rcases hS.kinds m2 hm2' (hmk2 ▸ hck) k hmc2 with h | h
              · exact h
              · exact absurd h hkroot
            | trans y c2 d' hm2 hc2 hne2 ih2 =>
              have hyk : y ≠ k := by
                intro he
                have := hrowk _ hm2 he
                cases this
              obtain ⟨m2, hm2', hmk2, hmc2⟩ := hrowsc _ hm2 hyk
              rcases hS.kinds m2 hm2' (hmk2 ▸ hck) c2 hmc2 with h | h
              · exact ih2 h
              · exfalso
                subst h
                obtain ⟨c', d'', hrow, hne', _⟩ := hc2.row
                exact hne' (hnoroot c' d'' hrow).symm
          obtain ⟨n1, hn1, hk1', hc1⟩ := hrows1 _ hm
          have := hclosed hkk n1 hn1 c hcin ⟨hk1' ▸ hxs, hc1, hk1' ▸ hne⟩
          rw [hk1'] at this; exact this
      have hdescL : ∀ x ∈ (if (!n.detached) = true then sc.descendants k else []), Desc sc.skel k x := by
        intro x hx
        by_cases hdet : (!n.detached) = true
        · rw [if_pos hdet] at hx; exact (mem_descendants sc k x).1 hx
        · rw [if_neg hdet] at hx; cases hx
      simp only [hsc]
      refine ⟨?_, ?_⟩
      · intro x hx hxs
        rcases List.mem_cons.1 hx with rfl | hx
        · exact hkin hxs
        · exact hsteps x (hdescL x hx) hxs
      · intro x hx hxf P hP hedge
        obtain ⟨dd, hdd, hsrc, hsnk⟩ := hedge
        rcases List.mem_cons.1 hx with rfl | hx
        · -- the detached node itself is a file: excluded by `FileDetachOK`
          exfalso
          obtain ⟨c, hc⟩ := Option.isSome_iff_exists.1 hcr
          have := (hS.own dd hdd (hsrc ▸ hP) n (hsnk ▸ hf)).1 c hc
          exact hfile hxf n c hf hc (by rw [this, hsrc]; exact hP) ⟨dd, hdd, this.symm, hsnk⟩
        · obtain ⟨c, d, hrow, hne, hcc⟩ := (hdescL x hx).row
          have hxk : x ≠ k := by
            intro he
            have := hrowk _ hrow he
            cases this
          obtain ⟨m, hm, hmk, hmc⟩ := hrowsc _ hrow hxk
          have hfm : s.find? x = some m := by
            have := find?_of_mem hS.keys hm
            rw [hmk] at this; exact this
          have hcP : c = P := by
            have := (hS.own dd hdd (hsrc ▸ hP) m (hsnk ▸ hfm)).1 c hmc
            rw [this, hsrc]
          subst hcP
          rcases hcc with rfl | hcc
          · exact hkin hP
          · exact hsteps c hcc hP
  · rw [if_neg hcr]
    constructor <;> (intro x hx; cases hx)

/-- **`Node.detach` preserves the weak flag discipline under the structural invariant.** -/
theorem detach_wd_struct {F : Key → Prop} {s s' : KState} {cfg : KConfig} {k : Key} (hS : Struct s)
    (hfile : FileDetachOK s k) (h : s.detach k = .ok s') (hc : WD F s cfg) : WD F s' cfg ∧ s'.deps = s.deps :=
  detach_wd h hc fun n s1 ks hf h1 hks => covers_of_struct hS hfile hf h1 hks

theorem detach_disc_struct {s s' : KState} {cfg : KConfig} {k : Key} (hS : Struct s) (hfile : FileDetachOK s k)
    (h : s.detach k = .ok s') (hc : CacheInvAfterW s cfg) : CacheInvAfterW s' cfg :=
  disc_of_wd (detach_wd_struct hS hfile h (wd_of_disc _ hc)).1

end StepupModel.K.Discipline
