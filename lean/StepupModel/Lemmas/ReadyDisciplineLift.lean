import StepupModel.Lemmas.StableInst
import StepupModel.Lemmas.KFrame
/-!
# Predicates that are stable under the primitive writes *with their triggers*

`Lemmas/Stable.lean` splits every primitive write of `K/Prim.lean` into its hard part and the flags
its triggers raise, and asks a stable predicate to survive both halves separately (and every
rewrite of cache columns).  A flag discipline is not of that kind: between the hard write and the
flag the cache is stale, and clearing a flag is not harmless.  `StableR P` lists the primitive
writes *together with* the triggers that flag `_check_ready`; the only free rewrites are those
that leave `key`, `state` (of a file), `detached`, `_ready` and `_check_ready` alone.  Every
composite operation of the kernel model then preserves `P` (the proofs are those of
`Lemmas/Stable.lean` with the leaves taken from this structure), up to `KState.exec`, `step`, `run`.
The instance for the flag discipline of `_ready` is in `Lemmas/ReadyDisciplineBase.lean`.
-/
namespace StepupModel.K
open StepupModel.Lemmas
set_option linter.unusedSimpArgs false
set_option linter.unusedVariables false

/-- The columns that the definition of `_ready` and its flag discipline read. -/
def Node.rhard (n : Node) : Key × FileState × Bool × Bool × Bool :=
  (n.key, n.fstate, n.detached, n.ready, n.checkReady)

/-- A row update that leaves these columns alone. -/
def ReadyNeutral (f : Node → Node) : Prop := ∀ n, (f n).rhard = n.rhard

/-- `Trellis.create` is called with an initialiser of the node's own class: a file key gets a file
initialiser (every call site of the model obeys this). -/
def KindOK (k : Key) : Init → Prop
  | .file _ => True
  | _ => k.kind ≠ .file

theorem kindOK_step {k : Key} {i : StepInit} (h : k.kind = .step) : KindOK k (.step i) := by
  show k.kind ≠ .file
  rw [h]; intro hh; cases hh

/-- What a predicate must survive: the primitive writes with the `_check_ready` triggers applied. -/
structure StableR (P : KState → Prop) : Prop where
  /-- any update that leaves `key`, `fstate`, `detached`, `ready`, `checkReady` alone -/
  cache : ∀ (s : KState) (p : Node → Bool) (f : Node → Node), ReadyNeutral f → P s → P (s.modifyWhere p f)
  /-- `UPDATE node SET detached = ?` with `step_node_check_ready_detached` -/
  setDetachedRow : ∀ (s : KState) (k : Key) (d : Bool), P s → P (s.setDetachedRow k d)
  /-- `UPDATE file SET state = ?[, hash = ?]` with `step_file_check_ready_upd` -/
  writeFile : ∀ (k : Key) (st : FileState) (nh : Option (Option Nat)), Preserves P (fun s => s.writeFile k st nh)
  /-- `INSERT INTO node` + `INSERT INTO file` of a fresh label with `step_file_check_ready_ins` -/
  freshFile : ∀ (s : KState) (k : Key) (c : Option Key) (st : FileState), s.find? k = none →
    s.insertAllowed k c = true → P s →
    P (((s.appendNode k c).modify k fun n => { n with fstate := st, fhash := none }).flagReadySinks k)
  /-- `INSERT INTO node` of a fresh label that is not a file -/
  appendNode : ∀ (s : KState) (k : Key) (c : Option Key), k.kind ≠ .file → s.find? k = none →
    s.insertAllowed k c = true → P s → P (s.appendNode k c)
  /-- `UPDATE step SET state = ?[, deferred = ?]` -/
  stepWrite : ∀ (s : KState) (k : Key) (n n' : Node) (st : StepState) (d : Option Bool),
    s.find? k = some n → stepRowWrite n st d = .ok n' → P s → P (s.modify k fun _ => n')
  /-- `Step.initialize_row` (the new row is flagged) -/
  stepInit : ∀ (s : KState) (k : Key) (i : StepInit), P s → P (s.initStepRow k i)
  /-- `INSERT INTO dependency` with `step_dependency_check_*_ins` -/
  insertDep : ∀ (a b : Key), Preserves P (fun s => s.insertDep a b)
  /-- `DELETE FROM dependency WHERE ...` with `step_dependency_check_*_del` -/
  deleteDeps : ∀ (s : KState) (p : Dep → Bool), P s → P (s.deleteDeps p)
  /-- `INSERT INTO / DELETE FROM dynamic_dep` with `dynamic_dep_check_ready_*` -/
  setDynamic : ∀ (s : KState) (a b : Key) (d : Bool), P s → P (s.setDynamic a b d)
  /-- `DELETE FROM node` of a row that is neither source nor sink of an edge any more -/
  removeNode : ∀ (s : KState) (k : Key), (∀ d ∈ s.deps, d.snk ≠ k) → (∀ d ∈ s.deps, d.src ≠ k) → P s →
    P { s with nodes := s.nodes.filter (·.key ≠ k) }
  /-- the memory-only deletion queue -/
  queue : ∀ (s : KState) (q : List (String × Option Nat)), P s → P { s with toBeDeleted := q }
  /-- `_update_meta_ready` -/
  updateMetaReady : ∀ (s : KState), P s → P s.updateMetaReady

namespace StableR
variable {P : KState → Prop}

/-! ### Derived leaves (named as the fields of `StableG`, so that the composite proofs carry over) -/

theorem cacheAt (L : StableR P) (s : KState) (k : Key) (f : Node → Node) (hf : ReadyNeutral f) (hp : P s) :
    P (s.modify k f) := by
  rw [StableG.modify_eq_modifyWhere]; exact L.cache _ _ _ hf hp

theorem creator (L : StableR P) (s : KState) (k : Key) (c : Option Key) (d : Bool)
    (_h : s.creatorAllowed k c d = true) (hp : P s) : P (s.modify k fun n => { n with creator := c }) :=
  L.cacheAt _ _ _ (fun _ => rfl) hp

theorem handOverRow (L : StableR P) (s : KState) (k tk : Key) (hp : P s) :
    P (s.modify k fun n => { n with creator := some tk }) := L.cacheAt _ _ _ (fun _ => rfl) hp

theorem setHash (L : StableR P) (s : KState) (k : Key) (h : Nat) (hp : P s) : P (s.setHash k h) := by
  unfold KState.setHash
  exact L.cacheAt _ _ _ (fun _ => rfl) hp

theorem deleteHash (L : StableR P) (s : KState) (k : Key) (hp : P s) : P (s.deleteHash k) := by
  unfold KState.deleteHash
  refine L.cacheAt _ _ _ (fun n => ?_) hp
  split <;> rfl

theorem bumpDefer (L : StableR P) (s : KState) (k : Key) (hp : P s) :
    P (s.modify k fun n => { n with deferCount := n.deferCount + 1 }) := L.cacheAt _ _ _ (fun _ => rfl) hp

theorem hold (L : StableR P) (s : KState) (k : Key) (hp : P s) :
    P (s.modify k fun n => { n with holding := n.holding + 1 }) := L.cacheAt _ _ _ (fun _ => rfl) hp

theorem release (L : StableR P) (s : KState) (k : Key) (n : Node) (_hf : s.find? k = some n) (_hne : n.holding ≠ 0)
    (hp : P s) : P (s.modify k fun n => { n with holding := n.holding - 1 }) := L.cacheAt _ _ _ (fun _ => rfl) hp

theorem recycled (L : StableR P) (s : KState) (k : Key) (need : Need) (shell : Bool) (hp : P s) :
    P (s.modify k fun n => { n with need := need, shell := shell }) :=
  L.cacheAt _ _ _ (fun _ => rfl) hp

theorem queueDelete (L : StableR P) (s : KState) (path : String) (h : Option Nat) (hp : P s) :
    P (s.queueDelete path h) := by
  unfold KState.queueDelete
  exact L.queue s _ hp

theorem clearQueue (L : StableR P) (s : KState) (hp : P s) : P { s with toBeDeleted := [] } := L.queue s [] hp

theorem writeFile_preserves (L : StableR P) (k : Key) (st : FileState) (nh : Option (Option Nat)) :
    Preserves P (fun s => s.writeFile k st nh) := L.writeFile k st nh

theorem insertDep_preserves (L : StableR P) (a b : Key) : Preserves P (fun s => s.insertDep a b) := L.insertDep a b

/-! ### Composite operations (as in `Lemmas/Stable.lean`) -/

theorem setFileState_preserves (L : StableR P) (k : Key) (st : FileState) :
    Preserves P (fun s => s.setFileState k st) := L.writeFile_preserves k st none

theorem writeStepState_preserves (L : StableR P) (k : Key) (st : StepState) (d : Option Bool) :
    Preserves P (fun s => s.writeStepState k st d) := by
  intro s s' hp h
  unfold KState.writeStepState at h
  cases hf : s.find? k with
  | none => simp [hf, pure, Except.pure] at h; subst h; exact hp
  | some n =>
    simp only [hf, bind, Except.bind] at h
    cases hw : stepRowWrite n st d with
    | error e => simp [hw] at h
    | ok n' =>
      simp only [hw, pure, Except.pure, Except.ok.injEq] at h
      subst h
      exact L.stepWrite s k n n' st d hf hw hp

theorem setStepState_preserves (L : StableR P) (k : Key) (st : StepState) (d : Bool) :
    Preserves P (fun s => s.setStepState k st d) := L.writeStepState_preserves k st (some d)

/-- `mark_step_pending` (with the `mark_file_outdated` / `mark_consuming_steps_pending` recursion)
preserves every stable predicate, for every fuel. -/
theorem markStepPending_preserves (L : StableR P) (fuel : Nat) (k : Key) :
    Preserves P (fun s => StepupModel.K.markStepPending fuel s k) := by
  induction fuel generalizing k with
  | zero => intro s s' _ h; simp [StepupModel.K.markStepPending] at h
  | succ fuel ih =>
    intro s s' hp h
    unfold StepupModel.K.markStepPending at h
    cases hf : s.find? k with
    | none => simp [hf, pure, Except.pure] at h; subst h; exact hp
    | some n =>
      simp only [hf] at h
      split at h
      · simp only [pure, Except.pure, Except.ok.injEq] at h; subst h; exact hp
      · simp only [bind, Except.bind] at h
        cases hs : s.setStepState k StepState.pending with
        | error e => simp [hs] at h
        | ok s1 =>
          simp only [hs] at h
          have hp1 : P s1 := L.setStepState_preserves k .pending false s s1 hp hs
          split at h
          · -- fold over the sink files
            refine foldlM_preserves P _ (s1.sinksOf k) ?_ s1 s' hp1 h
            intro f st st' hst hstep
            cases hff : st.find? f with
            | none => simp [hff, pure, Except.pure] at hstep; subst hstep; exact hst
            | some fn =>
              simp only [hff] at hstep
              split at hstep
              · cases hso : st.setFileState f FileState.outdated with
                | error e => simp [hso, bind, Except.bind] at hstep
                | ok st1 =>
                  simp only [hso, bind, Except.bind] at hstep
                  have hst1 := L.setFileState_preserves f .outdated st st1 hst hso
                  exact foldlM_preserves P _ _ (fun t => ih t) st1 st' hst1 hstep
              · simp only [pure, Except.pure, Except.ok.injEq] at hstep; subst hstep; exact hst
          · simp only [pure, Except.pure, Except.ok.injEq] at h; subst h; exact hp1

theorem markStepPending'_preserves (L : StableR P) (k : Key) : Preserves P (fun s => s.markStepPending k) := by
  intro s s' hp h
  exact L.markStepPending_preserves s.fuel k s s' hp h

theorem markConsumersPending_preserves (L : StableR P) (f : Key) : Preserves P (fun s => s.markConsumersPending f) := by
  intro s s' hp h
  unfold KState.markConsumersPending at h
  exact foldlM_preserves P _ _ (fun t => L.markStepPending'_preserves t) s s' hp h

theorem markFileOutdated_preserves (L : StableR P) (f : Key) : Preserves P (fun s => s.markFileOutdated f) := by
  intro s s' hp h
  unfold KState.markFileOutdated at h
  cases hf : s.find? f with
  | none => simp [hf, pure, Except.pure] at h; subst h; exact hp
  | some n =>
    simp only [hf] at h
    split at h
    · simp only [bind, Except.bind] at h
      cases hs : s.setFileState f FileState.outdated with
      | error e => simp [hs] at h
      | ok s1 =>
        simp only [hs] at h
        exact L.markConsumersPending_preserves f s1 s' (L.setFileState_preserves f .outdated s s1 hp hs) h
    · split at h
      · simp only [pure, Except.pure, Except.ok.injEq] at h; subst h; exact hp
      · cases h

theorem pendCreator_preserves (L : StableR P) (f : Key) : Preserves P (fun s => s.pendCreator f) := by
  intro s s' hp h
  replace h : s.pendCreator f = .ok s' := h
  unfold KState.pendCreator at h
  cases hc : s.creatorStep f with
  | none => simp [hc, pure, Except.pure] at h; subst h; exact hp
  | some c => simp only [hc] at h; exact L.markStepPending'_preserves c s s' hp h

theorem handleUpdated_preserves (L : StableR P) (f : Key) : Preserves P (fun s => s.handleUpdated f) := by
  intro s s' hp h
  replace h : s.handleUpdated f = .ok s' := h
  unfold KState.handleUpdated at h
  by_cases h1 : s.fileState? f = some .confirmed
  · rw [if_pos h1] at h; exact L.markConsumersPending_preserves f s s' hp h
  · rw [if_neg h1] at h
    by_cases h2 : s.fileState? f = some .planned ∨ s.fileState? f = some .outdated
    · rw [if_pos h2] at h; exact L.pendCreator_preserves f s s' hp h
    · rw [if_neg h2] at h
      simp only [pure, Except.pure, Except.ok.injEq] at h; subst h; exact hp

theorem handleDeleted_preserves (L : StableR P) (f : Key) : Preserves P (fun s => s.handleDeleted f) := by
  intro s s' hp h
  replace h : s.handleDeleted f = .ok s' := h
  unfold KState.handleDeleted at h
  simp only [bind, Except.bind] at h
  by_cases h1 : s.fileState? f = some .planned
  · rw [if_pos h1] at h
    cases hc : s.pendCreator f with
    | error e => simp [hc] at h
    | ok s1 =>
      simp only [hc] at h
      exact L.markConsumersPending_preserves f s1 s' (L.pendCreator_preserves f s s1 hp hc) h
  · rw [if_neg h1] at h
    simp only [pure, Except.pure] at h
    exact L.markConsumersPending_preserves f s s' hp h

/-- **`update_file_hashes` preserves every stable predicate**, for every
cause, every set of paths and hashes, accepted or not. -/
theorem updateFileHashes_preserves (L : StableR P) (updates : List (String × Option Nat)) (cause : Cause) :
    Preserves P (fun s => s.updateFileHashes updates cause) := by
  intro s s' hp h
  replace h : s.updateFileHashes updates cause = .ok s' := h
  unfold KState.updateFileHashes at h
  split at h
  · simp only [pure, Except.pure, Except.ok.injEq] at h; subst h; exact hp
  · simp only [bind, Except.bind] at h
    split at h
    · cases h
    · rename_i recs _
      split at h
      · cases h
      · rename_i s1 h1
        have hp1 := foldlM_preserves P _ recs
          (fun (r : HashRec) => L.writeFile_preserves r.key r.newState (some r.newHash)) s s1 hp h1
        split at h
        · cases h
        · rename_i s2 h2
          have hp2 := foldlM_preserves P _ _ (fun (r : HashRec) => L.handleUpdated_preserves r.key) s1 s2 hp1 h2
          split at h
          · cases h
          · rename_i s3 h3
            have hp3 := foldlM_preserves P _ _ (fun (r : HashRec) => L.handleDeleted_preserves r.key) s2 s3 hp2 h3
            exact foldlM_preserves P _ _ (fun (r : HashRec) => L.markConsumersPending_preserves r.key) s3 s' hp3 h



/-! ### Trellis operations -/

theorem setDetachedRec (L : StableR P) (s : KState) (k : Key) (d : Bool) (hp : P s) : P (s.setDetachedRec k d) := by
  unfold KState.setDetachedRec
  generalize s.descendants k = l
  induction l generalizing s with
  | nil => exact hp
  | cons x xs ih => simp only [List.foldl_cons]; exact ih _ (L.setDetachedRow s x d hp)

theorem setCreator_preserves (L : StableR P) (k : Key) (c : Option Key) (d : Bool) :
    Preserves P (fun s => s.setCreator k c d) := by
  intro s s' hp h
  replace h : s.setCreator k c d = .ok s' := h
  unfold KState.setCreator at h
  split at h
  · rename_i hall
    simp only [pure, Except.pure, Except.ok.injEq] at h
    subst h
    exact L.setDetachedRow _ _ _ (L.creator s k c d hall hp)
  · cases h

theorem flagChecksWithProducts_preserves (L : StableR P) (k : Key) : Preserves P (fun s => s.flagChecksWithProducts k) := by
  intro s s' hp h
  replace h : s.flagChecksWithProducts k = .ok s' := h
  unfold KState.flagChecksWithProducts at h
  split at h
  · cases h
  · simp only [pure, Except.pure, Except.ok.injEq] at h
    subst h
    exact L.cache _ _ _ (fun _ => rfl) hp

theorem flagCheckAfterSources_preserves (L : StableR P) (k : Key) : Preserves P (fun s => s.flagCheckAfterSources k) := by
  intro s s' hp h
  replace h : s.flagCheckAfterSources k = .ok s' := h
  unfold KState.flagCheckAfterSources at h
  split at h
  · cases h
  · simp only [pure, Except.pure, Except.ok.injEq] at h
    subst h
    exact L.cache _ _ _ (fun _ => rfl) hp

theorem detachCore_preserves (L : StableR P) (k : Key) (n : Node) : Preserves P (fun s => s.detachCore k n) := by
  intro s s' hp h
  replace h : s.detachCore k n = .ok s' := h
  unfold KState.detachCore at h
  split at h
  · refine preserves_bind (L.setCreator_preserves k none true) ?_ s s' hp h
    intro s1 s2 hp1 h1
    simp only [pure, Except.pure, Except.ok.injEq] at h1
    subst h1
    split
    · exact L.setDetachedRec _ _ _ hp1
    · exact hp1
  · simp only [pure, Except.pure, Except.ok.injEq] at h; subst h; exact hp

theorem detachFlags_preserves (L : StableR P) (k : Key) : Preserves P (fun s => s.detachFlags k) := by
  intro s s' hp h
  replace h : s.detachFlags k = .ok s' := h
  unfold KState.detachFlags at h
  split at h
  · exact preserves_bind (L.flagChecksWithProducts_preserves k) (L.flagCheckAfterSources_preserves k) s s' hp h
  · simp only [pure, Except.pure, Except.ok.injEq] at h; subst h; exact hp

theorem detach_preserves (L : StableR P) (k : Key) : Preserves P (fun s => s.detach k) := by
  intro s s' hp h
  replace h : s.detach k = .ok s' := h
  unfold KState.detach at h
  cases hf : s.find? k with
  | none => simp [hf] at h
  | some n =>
    simp only [hf] at h
    exact preserves_bind (L.detachCore_preserves k n) (L.detachFlags_preserves k) s s' hp h

theorem detachCreatedSteps_preserves (L : StableR P) (k : Key) : Preserves P (fun s => s.detachCreatedSteps k) := by
  intro s s' hp h
  replace h : s.detachCreatedSteps k = .ok s' := h
  unfold KState.detachCreatedSteps at h
  exact foldlM_preserves P _ _ (fun (p : Node) => L.detach_preserves p.key) s s' hp h

theorem detachProductsWhere_preserves (L : StableR P) (k : Key) (p : Node → Bool) :
    Preserves P (fun s => s.detachProductsWhere k p) := by
  intro s s' hp h
  replace h : s.detachProductsWhere k p = .ok s' := h
  unfold KState.detachProductsWhere at h
  exact foldlM_preserves P _ _ (fun (n : Node) => L.detach_preserves n.key) s s' hp h

/-! ### Completion, cleanup and startup requests -/

theorem dropDynamicInputs (L : StableR P) (s : KState) (k : Key) (hp : P s) : P (s.dropDynamicInputs k) := by
  unfold KState.dropDynamicInputs KState.flagDynamicSuppliers
  exact L.cacheAt _ _ _ (fun _ => rfl) (L.deleteDeps _ _ (L.cache _ _ _ (fun _ => rfl) hp))

theorem dropDynamicSink_preserves (L : StableR P) (step k : Key) : Preserves P (fun s => s.dropDynamicSink step k) := by
  intro s s' hp h
  replace h : s.dropDynamicSink step k = .ok s' := h
  unfold KState.dropDynamicSink at h
  exact L.detach_preserves k _ s' (L.deleteDeps s _ hp) h

theorem outdateBuilt_preserves (L : StableR P) (k : Key) : Preserves P (fun s => s.outdateBuilt k) := by
  intro s s' hp h
  replace h : s.outdateBuilt k = .ok s' := h
  unfold KState.outdateBuilt at h
  exact foldlM_preserves P _ _ (fun (n : Node) => L.markFileOutdated_preserves n.key) s s' hp h

/-- `Step.reset_for_rerun` preserves every stable predicate. -/
theorem resetForRerun_preserves (L : StableR P) (k : Key) : Preserves P (fun s => s.resetForRerun k) := by
  intro s s' hp h
  replace h : s.resetForRerun k = .ok s' := h
  unfold KState.resetForRerun at h
  dsimp only at h
  refine bind_ok h (fun s2 h2 => ?_) ?_
  · exact foldlM_preserves P _ _ (fun t => L.dropDynamicSink_preserves k t) _ s2
      (L.dropDynamicInputs s k hp) h2
  · intro s2 s2' hp2 hh2
    refine bind_ok hh2 (fun s3 h3 => L.detachCreatedSteps_preserves k s2 s3 hp2 h3) ?_
    intro s3 s3' hp3 hh3
    refine bind_ok hh3 (fun s4 h4 => L.detachProductsWhere_preserves k _ s3 s4 hp3 h4) ?_
    intro s4 s4' hp4 hh4
    refine bind_ok hh4 (fun s5 h5 => L.detachProductsWhere_preserves k _ s4 s5 hp4 h5) ?_
    exact L.outdateBuilt_preserves k

theorem outdateBuiltProducts_preserves (L : StableR P) (k : Key) : Preserves P (fun s => s.outdateBuiltProducts k) := by
  intro s s' hp h
  replace h : s.outdateBuiltProducts k = .ok s' := h
  unfold KState.outdateBuiltProducts at h
  exact foldlM_preserves P _ _ (fun (f : Node) => L.setFileState_preserves f.key .outdated) s s' hp h

theorem rebuildOutdatedProducts_preserves (L : StableR P) (k : Key) : Preserves P (fun s => s.rebuildOutdatedProducts k) := by
  intro s s' hp h
  replace h : s.rebuildOutdatedProducts k = .ok s' := h
  unfold KState.rebuildOutdatedProducts at h
  refine foldlM_preserves P _ _ (fun (f : Node) => ?_) s s' hp h
  intro st st' hst hh
  simp only at hh
  split at hh
  · exact preserves_bind (L.setFileState_preserves f.key .built) (L.markConsumersPending_preserves f.key) st st' hst hh
  · simp only [pure, Except.pure, Except.ok.injEq] at hh; subst hh; exact hst

theorem completeFailure_preserves (L : StableR P) (cfg : KConfig) (k : Key) (wd : Bool) :
    Preserves P (fun s => s.completeFailure cfg k wd) := by
  intro s s' hp h
  replace h : s.completeFailure cfg k wd = .ok s' := h
  unfold KState.completeFailure at h
  refine bind_ok h (fun s1 h1 => L.outdateBuiltProducts_preserves k s s1 hp h1) ?_
  intro s1 s1' hp1 hh1
  refine bind_ok hh1 (fun s2 h2 => ?_) ?_
  · have hb : P (s1.bumpDeferCount k wd) := by
      unfold KState.bumpDeferCount
      split
      · exact L.bumpDefer _ _ hp1
      · exact hp1
    unfold KState.writeFailureState at h2
    split at h2
    · exact L.setStepState_preserves k .pending _ _ s2 hb h2
    · exact L.setStepState_preserves k .failed false _ s2 hb h2
  · intro s2 s2' hp2 hh2
    refine bind_ok hh2 (fun s3 h3 => ?_) ?_
    · unfold KState.detachCreatedIfFailed at h3
      split at h3
      · exact L.detachCreatedSteps_preserves k s2 s3 hp2 h3
      · simp only [pure, Except.pure, Except.ok.injEq] at h3; subst h3; exact hp2
    · exact preserves_pure _ (fun s hs => L.deleteHash s k hs)

theorem completeSuccess_preserves (L : StableR P) (cfg : KConfig) (k : Key) (hh : Nat) : Preserves P (fun s => s.completeSuccess cfg k hh) := by
  intro s s' hp h
  replace h : s.completeSuccess cfg k hh = .ok s' := h
  unfold KState.completeSuccess at h
  refine bind_ok h (fun s1 h1 => L.setStepState_preserves k .succeeded false s s1 hp h1) ?_
  intro s1 s1' hp1 hh1
  refine bind_ok hh1 (fun s2 h2 => L.rebuildOutdatedProducts_preserves k s1 s2 hp1 h2) ?_
  exact preserves_pure _ (fun s hs => L.cacheAt _ _ _ (fun _ => rfl) (L.setHash s k hh hs))

/-- `Step.mark_completed` preserves every stable predicate (both outcomes, with or without a
deferral). -/
theorem markCompleted_preserves (L : StableR P) (cfg : KConfig) (k : Key) (nh : Option Nat) (wd : Bool) (s s' : KState) (b : Bool)
    (hp : P s) (h : s.markCompleted cfg k nh wd = .ok (s', b)) : P s' := by
  unfold KState.markCompleted at h
  cases nh with
  | none =>
    simp only [bind, Except.bind] at h
    cases h1 : s.completeFailure cfg k wd with
    | error e => simp [h1] at h
    | ok s1 =>
      simp only [h1, pure, Except.pure, Except.ok.injEq, Prod.mk.injEq] at h
      obtain ⟨rfl, _⟩ := h
      exact L.completeFailure_preserves cfg k wd s s1 hp h1
  | some hh =>
    simp only [bind, Except.bind] at h
    cases h1 : s.completeSuccess cfg k hh with
    | error e => simp [h1] at h
    | ok s1 =>
      simp only [h1, pure, Except.pure, Except.ok.injEq, Prod.mk.injEq] at h
      obtain ⟨rfl, _⟩ := h
      exact L.completeSuccess_preserves cfg k hh s s1 hp h1

theorem markDir (L : StableR P) (s : KState) (d : String) (hp : P s) : P (s.markDirToBeDeleted d) := by
  unfold KState.markDirToBeDeleted
  split
  · exact hp
  · exact L.queueDelete _ _ _ hp

theorem revertOutput_preserves (L : StableR P) (f : Key) : Preserves P (fun s => s.revertOutput f) := by
  intro s s' hp h
  replace h : s.revertOutput f = .ok s' := h
  unfold KState.revertOutput at h
  cases hf : s.find? f with
  | none => simp [hf, pure, Except.pure] at h; subst h; exact hp
  | some fn =>
    simp only [hf] at h
    split at h
    · split at h
      · exact L.writeFile_preserves f .planned (some none) _ s' (L.markDir _ _ (L.queueDelete _ _ _ hp)) h
      · simp only [pure, Except.pure, Except.ok.injEq] at h; subst h
        exact L.markDir _ _ (L.queueDelete _ _ _ hp)
    · simp only [pure, Except.pure, Except.ok.injEq] at h; subst h; exact hp

/-- `finalize.revert_optional_steps` preserves every stable predicate. -/
theorem revertStep_preserves (L : StableR P) (n : Node) : Preserves P (fun s => s.revertStep n) := by
  intro s s' hp h
  replace h : s.revertStep n = .ok s' := h
  unfold KState.revertStep at h
  refine bind_ok h (fun a ha => ?_) ?_
  · unfold KState.pendIfNot at ha
    split at ha
    · exact L.writeStepState_preserves n.key .pending none s a hp ha
    · simp only [pure, Except.pure, Except.ok.injEq] at ha; subst ha; exact hp
  · intro a a' ha hh2
    exact foldlM_preserves P _ _ (fun f => L.revertOutput_preserves f) a a' ha hh2

theorem revertOptional_preserves (L : StableR P) : Preserves P (fun s => s.revertOptional) := by
  intro s s' hp h
  replace h : s.revertOptional = .ok s' := h
  unfold KState.revertOptional at h
  exact foldlM_preserves P _ _ (fun (n : Node) => L.revertStep_preserves n) s s' hp h

/-- `startup.reset_interrupted_steps` preserves every stable predicate. -/
theorem resetInterrupted_preserves (L : StableR P) : Preserves P (fun s => s.resetInterrupted) := by
  intro s s' hp h
  replace h : s.resetInterrupted = .ok s' := h
  unfold KState.resetInterrupted at h
  refine bind_ok h (fun s1 h1 => ?_) ?_
  · exact foldlM_preserves P _ _ (fun (n : Node) => L.writeStepState_preserves n.key .failed none) s s1 hp h1
  · intro s1 s1' hp1 hh1
    refine bind_ok hh1 (fun s2 h2 => ?_) ?_
    · exact foldlM_preserves P _ _ (fun (n : Node) => L.writeStepState_preserves n.key .pending none) s1 s2 hp1 h2
    · intro s2 s2' hp2 hh2
      exact foldlM_preserves P _ _ (fun (n : Node) => L.markStepPending'_preserves n.key) s2 s2' hp2 hh2

theorem rescanEnvVars_preserves (L : StableR P) (cfg : KConfig) : Preserves P (fun s => s.rescanEnvVars cfg) := by
  intro s s' hp h
  replace h : s.rescanEnvVars cfg = .ok s' := h
  unfold KState.rescanEnvVars at h
  exact foldlM_preserves P _ _ (fun (n : Node) => L.markStepPending'_preserves n.key) s s' hp h

theorem checkConsistency_preserves (L : StableR P) : Preserves P (fun s => s.checkConsistency) := by
  intro s s' hp h
  replace h : s.checkConsistency = .ok s' := h
  unfold KState.checkConsistency at h
  exact foldlM_preserves P (fun (st : KState) (n : Node) => st.markStepPending n.key) _
    (fun n => L.markStepPending'_preserves n.key) s s' hp h

theorem hold_preserves (L : StableR P) (k : Key) (s s' : KState) (hp : P s)
    (h : s.hold k = .ok s') : P s' := by
  unfold KState.hold at h
  simp only [bind, Except.bind] at h
  have hp1 : P (s.modify k fun n => { n with holding := n.holding + 1 }) :=
    L.hold _ _ hp
  split at h
  · exact L.flagChecksWithProducts_preserves k _ s' hp1 h
  · simp only [pure, Except.pure, Except.ok.injEq] at h; subst h; exact hp1

theorem release_preserves (L : StableR P) (k : Key) : Preserves P (fun s => s.release k) := by
  intro s s' hp h
  replace h : s.release k = .ok s' := h
  unfold KState.release at h
  cases hf : s.find? k with
  | none => simp [hf, graphErr] at h
  | some n =>
    simp only [hf, bind, Except.bind] at h
    split at h
    · cases h
    · rename_i hne
      have hp1 : P (s.modify k fun n => { n with holding := n.holding - 1 }) :=
        L.release s k n hf hne hp
      split at h
      · exact L.flagChecksWithProducts_preserves k _ s' hp1 h
      · simp only [pure, Except.pure, Except.ok.injEq] at h; subst h; exact hp1

/-! ### Scheduler requests -/

theorem updateMetaSafe_preserves (L : StableR P) : Preserves P (fun s => s.updateMetaSafe) := by
  intro s s' hp h
  replace h : s.updateMetaSafe = .ok s' := h
  unfold KState.updateMetaSafe at h
  simp only [bind, Except.bind] at h
  split at h
  · simp only [pure, Except.pure, Except.ok.injEq] at h; subst h; exact hp
  · split at h
    · cases h
    · simp only [pure, Except.pure, Except.ok.injEq] at h
      subst h
      refine L.cache _ _ _ (fun _ => rfl) (L.cache _ _ _ ?_ hp)
      intro n
      dsimp only
      split <;> rfl

theorem applyAfterUpdates (L : StableR P) (s : KState) (u : List (Key × Need × Nat)) (hp : P s) :
    P (s.applyAfterUpdates u) := by
  unfold KState.applyAfterUpdates
  refine L.cache _ _ _ ?_ hp
  intro n
  dsimp only
  split <;> rfl

theorem afterLoop_preserves (L : StableR P) (cfg : KConfig) (fuel : Nat) (s s' : KState) (work : List Key) (first : Bool)
    (hp : P s) (h : KState.afterLoop cfg fuel s work first = some s') : P s' := by
  induction fuel generalizing s work first with
  | zero =>
    unfold KState.afterLoop at h
    split at h
    · simp only [Option.some.injEq] at h; subst h; exact hp
    · cases h
  | succ fuel ih =>
    unfold KState.afterLoop at h
    split at h
    · simp only [Option.some.injEq] at h; subst h; exact hp
    · exact ih _ _ _ (L.applyAfterUpdates s _ hp) h

theorem updateMetaAfter_preserves (L : StableR P) (cfg : KConfig) : Preserves P (fun s => s.updateMetaAfter cfg) := by
  intro s s' hp h
  replace h : s.updateMetaAfter cfg = .ok s' := h
  unfold KState.updateMetaAfter at h
  split at h
  · simp only [pure, Except.pure, Except.ok.injEq] at h; subst h; exact hp
  · dsimp only at h
    split at h
    · rename_i st hst
      simp only [pure, Except.pure, Except.ok.injEq] at h
      subst h
      exact L.cache _ _ _ (fun _ => rfl) (L.afterLoop_preserves cfg _ s st _ _ hp hst)
    · cases h

theorem updateMeta_preserves (L : StableR P) (cfg : KConfig) : Preserves P (fun s => s.updateMeta cfg) := by
  intro s s' hp h
  replace h : s.updateMeta cfg = .ok s' := h
  unfold KState.updateMeta at h
  refine bind_ok h (fun s1 h1 => L.updateMetaSafe_preserves s s1 hp h1) ?_
  intro s1 s1' hp1 hh1
  refine bind_ok hh1 (fun s2 h2 => L.updateMetaAfter_preserves cfg s1 s2 hp1 h2) ?_
  exact preserves_pure _ (fun s hs => L.updateMetaReady s hs)

/-- `pop_next_job` preserves every stable predicate. -/
theorem popNext_preserves (L : StableR P) (cfg : KConfig) (choice : Option Key) (s s' : KState) (d : Dispatch)
    (hp : P s) (h : s.popNext cfg choice = .ok (s', d)) : P s' := by
  unfold KState.popNext at h
  simp only [bind, Except.bind] at h
  cases hu : s.updateMeta cfg with
  | error e => simp [hu] at h
  | ok su =>
    simp only [hu] at h
    have hpu := L.updateMeta_preserves cfg s su hp hu
    cases choice with
    | none =>
      simp only at h
      split at h
      · simp only [pure, Except.pure, Except.ok.injEq, Prod.mk.injEq] at h
        obtain ⟨rfl, _⟩ := h; exact hpu
      · cases h
    | some k =>
      simp only at h
      split at h
      · cases h
      · rename_i n hn
        split at h
        · cases h
        · split at h
          · cases h
          · cases hj : su.deriveJob k with
            | error e => simp [hj] at h
            | ok run =>
              simp only [hj] at h
              cases hs : su.setStepState k (if n.hasHash = true then StepState.checking else StepState.running) with
              | error e => simp [hs] at h
              | ok s2 =>
                simp only [hs, pure, Except.pure, Except.ok.injEq, Prod.mk.injEq] at h
                obtain ⟨rfl, _⟩ := h
                exact L.setStepState_preserves k _ false su s2 hpu hs

theorem reconcileTarget_preserves (L : StableR P) (t : String) : Preserves P (fun s => s.reconcileTarget t) := by
  intro s s' hp h
  replace h : s.reconcileTarget t = .ok s' := h
  unfold KState.reconcileTarget at h
  cases hf : s.find? (fileKey t) with
  | none => simp [hf, pure, Except.pure] at h; subst h; exact hp
  | some f =>
    simp only [hf] at h
    split at h
    · simp only [pure, Except.pure, Except.ok.injEq] at h; subst h; exact hp
    · split at h
      · split at h
        · simp [graphErr] at h
        · simp only [pure, Except.pure, Except.ok.injEq] at h; subst h; exact hp
      · split at h
        · simp only [pure, Except.pure, Except.ok.injEq] at h; subst h
          exact L.cacheAt _ _ _ (fun _ => rfl) hp
        · simp only [pure, Except.pure, Except.ok.injEq] at h; subst h; exact hp

theorem reconcileTargets_preserves (L : StableR P) (cfg : KConfig) : Preserves P (fun s => s.reconcileTargets cfg) := by
  intro s s' hp h
  replace h : s.reconcileTargets cfg = .ok s' := h
  unfold KState.reconcileTargets at h
  dsimp only at h
  refine bind_ok h (fun s1 h1 => ?_) ?_
  · have hp0 : P (s.modifyWhere (fun n => n.key.kind = .step ∧ n.impliedNeed = .target)
        fun n => { n with checkAfter := true }) := L.cache _ _ _ (fun _ => rfl) hp
    exact foldlM_preserves P (fun st t => st.reconcileTarget t) _ (fun t => L.reconcileTarget_preserves t) _ s1 hp0 h1
  · refine preserves_pure _ (fun s hs => ?_)
    unfold KState.reconcileTargetDirs
    exact L.cache _ _ _ (fun _ => rfl) hs



/-! ### `reattach`, `create` -/

theorem afterLostProduct_preserves (L : StableR P) (k : Key) : Preserves P (fun s => s.afterLostProduct k) := by
  intro s s' hp h
  replace h : s.afterLostProduct k = .ok s' := h
  unfold KState.afterLostProduct at h
  split at h
  · simp only [pure, Except.pure, Except.ok.injEq] at h; subst h; exact L.deleteHash _ _ hp
  · simp only [pure, Except.pure, Except.ok.injEq] at h; subst h; exact hp
  · cases h
  · cases h

theorem lostProduct_preserves (L : StableR P) (old : Option Key) : Preserves P (fun s => s.lostProduct old) := by
  intro s s' hp h
  replace h : s.lostProduct old = .ok s' := h
  unfold KState.lostProduct at h
  cases old with
  | none => simp only [pure, Except.pure, Except.ok.injEq] at h; subst h; exact hp
  | some oc =>
    simp only at h
    split at h
    · cases h
    · exact L.afterLostProduct_preserves oc s s' hp h

theorem flagIfStep_preserves (L : StableR P) (k : Key) : Preserves P (fun s => s.flagIfStep k) := by
  intro s s' hp h
  replace h : s.flagIfStep k = .ok s' := h
  unfold KState.flagIfStep at h
  split at h
  · exact L.flagChecksWithProducts_preserves k s s' hp h
  · simp only [pure, Except.pure, Except.ok.injEq] at h; subst h; exact hp

theorem reattachCore_preserves (L : StableR P) (k c : Key) (n : Node) : Preserves P (fun s => s.reattachCore k c n) := by
  intro s s' hp h
  replace h : s.reattachCore k c n = .ok s' := h
  unfold KState.reattachCore at h
  dsimp only at h
  refine bind_ok h (fun s1 h1 => L.setCreator_preserves k (some c) _ s s1 hp h1) ?_
  intro s1 s1' hp1 hh1
  refine bind_ok hh1 (fun s2 h2 => L.lostProduct_preserves n.creator s1 s2 hp1 h2) ?_
  intro s2 s2' hp2 hh2
  exact L.flagIfStep_preserves k _ s2' (L.setDetachedRec s2 k _ hp2) hh2

theorem reattach_preserves (L : StableR P) (k c : Key) : Preserves P (fun s => s.reattach k c) := by
  intro s s' hp h
  replace h : s.reattach k c = .ok s' := h
  unfold KState.reattach at h
  cases hf : s.find? k with
  | none => simp [hf] at h
  | some n =>
    simp only [hf] at h
    split at h
    · cases h
    · split at h
      · cases h
      · exact L.reattachCore_preserves k c n s s' hp h

theorem detachProducts_preserves (L : StableR P) (k : Key) : Preserves P (fun s => s.detachProducts k) := by
  intro s s' hp h
  replace h : s.detachProducts k = .ok s' := h
  unfold KState.detachProducts at h
  exact foldlM_preserves P _ _ (fun (p : Node) => L.detach_preserves p.key) s s' hp h

/-! ### `create`: the recycle branch and the fresh branch -/

theorem writeInitialFile_recycle_preserves (L : StableR P) (k : Key) (state : FileState) :
    Preserves P (fun s => s.writeInitialFile k state true) := by
  intro s s' hp h
  replace h : s.writeInitialFile k state true = .ok s' := h
  unfold KState.writeInitialFile at h
  rw [if_pos rfl] at h
  exact L.setFileState_preserves k state s s' hp h

theorem initFileRow_recycle_preserves (L : StableR P) (k : Key) (st : FileState) :
    Preserves P (fun s => s.initFileRow k st true) := by
  intro s s' hp h
  replace h : s.initFileRow k st true = .ok s' := h
  unfold KState.initFileRow at h
  refine bind_ok h (fun s1 h1 => L.writeInitialFile_recycle_preserves k _ s s1 hp h1) ?_
  intro s1 s1' hp1 hh1
  split at hh1
  · exact L.markFileOutdated_preserves k s1 s1' hp1 hh1
  · simp only [pure, Except.pure, Except.ok.injEq] at hh1; subst hh1; exact hp1

theorem initRow_recycle_preserves (L : StableR P) (k : Key) (init : Init) :
    Preserves P (fun s => s.initRow k init true) := by
  intro s s' hp h
  replace h : s.initRow k init true = .ok s' := h
  unfold KState.initRow at h
  cases init with
  | root => simp only [pure, Except.pure, Except.ok.injEq] at h; subst h; exact hp
  | tree => simp only [pure, Except.pure, Except.ok.injEq] at h; subst h; exact hp
  | file st => exact L.initFileRow_recycle_preserves k st s s' hp h
  | step i => simp only [pure, Except.pure, Except.ok.injEq] at h; subst h; exact L.stepInit _ _ _ hp

theorem recycleCore_preserves (L : StableR P) (k : Key) (n : Node) (creator : Option Key) (init : Init) :
    Preserves P (fun s => s.recycleCore k n creator init) := by
  intro s s' hp h
  replace h : s.recycleCore k n creator init = .ok s' := h
  unfold KState.recycleCore at h
  refine bind_ok h (fun s1 h1 => L.setCreator_preserves k creator _ s s1 hp h1) ?_
  intro s1 s1' hp1 hh1
  refine bind_ok hh1 (fun s2 h2 => L.lostProduct_preserves n.creator s1 s2 hp1 h2) ?_
  intro s2 s2' hp2 hh2
  refine bind_ok hh2 (fun s3 h3 => L.detachProducts_preserves k _ s3 (L.deleteDeps s2 _ hp2) h3) ?_
  exact L.initRow_recycle_preserves k init

/-- The fresh branch: the new row and (for a file) its `INSERT INTO file` with the trigger that flags
the steps already depending on the label. -/
theorem initRow_fresh (L : StableR P) (s s' : KState) (k : Key) (c : Option Key) (init : Init)
    (hk : KindOK k init) (hf : s.find? k = none) (hins : s.insertAllowed k c = true) (hp : P s)
    (h : (s.appendNode k c).initRow k init false = .ok s') : P s' := by
  unfold KState.initRow at h
  cases init with
  | root => simp only [pure, Except.pure, Except.ok.injEq] at h; subst h; exact L.appendNode s k c hk hf hins hp
  | tree => simp only [pure, Except.pure, Except.ok.injEq] at h; subst h; exact L.appendNode s k c hk hf hins hp
  | step i =>
    simp only [pure, Except.pure, Except.ok.injEq] at h; subst h
    exact L.stepInit _ _ _ (L.appendNode s k c hk hf hins hp)
  | file st =>
    simp only at h
    unfold KState.initFileRow at h
    rw [keptState_fresh] at h
    refine bind_ok h (fun s1 h1 => ?_) ?_
    · unfold KState.writeInitialFile at h1
      rw [if_neg (by simp)] at h1
      split at h1
      · cases h1
      · simp only [pure, Except.pure, Except.ok.injEq] at h1; subst h1
        exact L.freshFile s k c st hf hins hp
    · intro s1 s1' hp1 hh1
      split at hh1
      · exact L.markFileOutdated_preserves k s1 s1' hp1 hh1
      · simp only [pure, Except.pure, Except.ok.injEq] at hh1; subst hh1; exact hp1

/-- `Trellis.create` (fresh node, or partial recycle of a detached one). -/
theorem create_preserves (L : StableR P) (k : Key) (creator : Option Key) (init : Init) (_hi : InitOK init)
    (hk : KindOK k init) : Preserves P (fun s => s.create k creator init) := by
  intro s s' hp h
  replace h : s.create k creator init = .ok s' := h
  unfold KState.create at h
  cases hf : s.find? k with
  | some n =>
    simp only [hf] at h
    split at h
    · cases h
    · split at h
      · cases h
      · exact L.recycleCore_preserves k n creator init s s' hp h
  | none =>
    simp only [hf] at h
    split at h
    · rename_i hins
      exact L.initRow_fresh s s' k creator init hk hf hins hp h
    · cases h

/-! ### Declarations -/


theorem volatileSinkCheck_preserves (_L : StableR P) (p : String) (st : FileState) :
    Preserves P (fun s => s.volatileSinkCheck p st) := by
  intro s s' hp h
  replace h : s.volatileSinkCheck p st = .ok s' := h
  unfold KState.volatileSinkCheck at h
  split at h
  · simp [graphErr] at h
  · simp only [pure, Except.pure, Except.ok.injEq] at h; subst h; exact hp

theorem declareFile_preserves (L : StableR P) (cfg : KConfig) (creator : Key) (p : String) (st : FileState) :
    Preserves P (fun s => s.declareFile cfg creator p st) := by
  intro s s' hp h
  replace h : s.declareFile cfg creator p st = .ok s' := h
  unfold KState.declareFile at h
  refine bind_ok_gen h (fun _ => Generated.Enums.declarableStates.contains st = true) ?_ P ?_
  · intro _ hg
    unfold KState.declareFileGuard at hg
    by_cases hd : Generated.Enums.declarableStates.contains st = true
    · exact hd
    · rw [if_neg hd] at hg; cases hg
  · intro _ s2 hd hh
    refine bind_ok hh (fun s1 h1 => ?_) (L.volatileSinkCheck_preserves p st)
    exact L.create_preserves _ _ (.file st) (declarable_noHash hd) trivial s s1 hp h1

theorem declareAll_preserves (L : StableR P) (cfg : KConfig) (todo : List (Key × String)) (st : FileState) :
    Preserves P (fun s => s.declareAll cfg todo st) := by
  intro s s' hp h
  replace h : s.declareAll cfg todo st = .ok s' := h
  unfold KState.declareAll at h
  exact foldlM_preserves P (fun (acc : KState) (dp : Key × String) => acc.declareFile cfg dp.1 dp.2 st) todo
    (fun dp => L.declareFile_preserves cfg dp.1 dp.2 st) s s' hp h

theorem declareStaticFiles_preserves (L : StableR P) (cfg : KConfig) (creator : Key) (paths : List String) (s : KState)
    (r : KState × List String) (hp : P s) (h : s.declareStaticFiles cfg creator paths = .ok r) : P r.1 := by
  unfold KState.declareStaticFiles at h
  refine bind_ok_gen h (fun _ => True) (fun _ _ => trivial) (fun r => P r.1) ?_
  intro todo r1 _ hh
  refine bind_ok_gen hh P (fun a ha => L.declareAll_preserves cfg todo _ s a hp ha) (fun r => P r.1) ?_
  intro a b ha hb
  simp only [pure, Except.pure, Except.ok.injEq] at hb
  subst hb; exact ha

theorem handOver (L : StableR P) (s : KState) (tk : Key) (hs : List Key) (hp : P s) : P (s.handOver tk hs) := by
  unfold KState.handOver
  induction hs generalizing s with
  | nil => exact hp
  | cons k ks ih => simp only [List.foldl_cons]; exact ih _ (L.handOverRow _ _ _ hp)

theorem registerTreeBody_preserves (L : StableR P) (cfg : KConfig) (creator : Key) (path : String) (g : Option (List Key)) (s : KState)
    (r : KState × List String) (hp : P s) (h : s.registerTreeBody cfg creator path g = .ok r) : P r.1 := by
  cases g with
  | none =>
    simp only [KState.registerTreeBody, pure, Except.pure, Except.ok.injEq] at h
    subst h; exact hp
  | some hs =>
    simp only [KState.registerTreeBody] at h
    refine bind_ok_gen h P (fun s1 h1 => L.create_preserves _ _ .tree trivial (by intro hh; cases hh) s s1 hp h1) (fun r => P r.1) ?_
    intro s1 r1 hp1 hh
    exact L.declareStaticFiles_preserves cfg _ _ _ r1 (L.handOver s1 _ hs hp1) hh

theorem registerStaticTree_preserves (L : StableR P) (cfg : KConfig) (creator : Key) (path : String) (s : KState)
    (r : KState × List String) (hp : P s) (h : s.registerStaticTree cfg creator path = .ok r) : P r.1 := by
  unfold KState.registerStaticTree at h
  refine bind_ok_gen h (fun _ => True) (fun _ _ => trivial) (fun r => P r.1) ?_
  intro _ r1 _ hh
  refine bind_ok_gen hh (fun _ => True) (fun _ _ => trivial) (fun r => P r.1) ?_
  intro g r2 _ hh2
  exact L.registerTreeBody_preserves cfg creator _ g s r2 hp hh2

theorem adoptByTree_preserves (L : StableR P) (cfg : KConfig) (path : String) (t : Key) (s : KState) (r : KState × FileState × Bool)
    (hp : P s) (h : s.adoptByTree cfg path t = .ok r) : P r.1 := by
  unfold KState.adoptByTree at h
  refine bind_ok_gen h (fun _ => True) (fun _ _ => trivial) (fun r => P r.1) ?_
  intro _ r1 _ hh
  refine bind_ok_gen hh P
    (fun s1 h1 => L.create_preserves _ _ (.file .unconfirmed) (Or.inr (Or.inl rfl)) trivial s s1 hp h1) (fun r => P r.1) ?_
  intro s1 r2 hp1 hh2
  simp only [pure, Except.pure, Except.ok.injEq] at hh2
  subst hh2; exact hp1

theorem placeholder_preserves (L : StableR P) (path : String) (s : KState) (r : KState × FileState × Bool)
    (hp : P s) (h : s.placeholder path = .ok r) : P r.1 := by
  unfold KState.placeholder at h
  refine bind_ok_gen h P
    (fun s1 h1 => L.create_preserves _ _ (.file .undeclared) (Or.inl rfl) trivial s s1 hp h1) (fun r => P r.1) ?_
  intro s1 r2 hp1 hh2
  simp only [pure, Except.pure, Except.ok.injEq] at hh2
  subst hh2; exact hp1

theorem resolveWith_preserves (L : StableR P) (cfg : KConfig) (path : String) (tree : Option Key) (node : Option Node) (s : KState)
    (r : KState × FileState × Bool) (hp : P s) (h : s.resolveWith cfg path tree node = .ok r) : P r.1 := by
  cases tree with
  | some t =>
    simp only [KState.resolveWith] at h
    exact L.adoptByTree_preserves cfg path t s r hp h
  | none =>
    cases node with
    | none =>
      simp only [KState.resolveWith] at h
      split at h
      · simp [bind, Except.bind, throw, throwThe, MonadExceptOf.throw] at h
      · exact L.placeholder_preserves path s r hp h
    | some n =>
      simp only [KState.resolveWith] at h
      split at h
      · exact L.placeholder_preserves path s r hp h
      · refine bind_ok_gen h (fun _ => True) (fun _ _ => trivial) (fun r => P r.1) ?_
        intro _ r1 _ hh
        simp only [pure, Except.pure, Except.ok.injEq] at hh
        subst hh; exact hp

theorem resolveNode_preserves (L : StableR P) (cfg : KConfig) (path : String) (s : KState) (r : KState × FileState × Bool)
    (hp : P s) (h : s.resolveNode cfg path = .ok r) : P r.1 := by
  unfold KState.resolveNode at h
  refine bind_ok_gen h (fun _ => True) (fun _ _ => trivial) (fun r => P r.1) ?_
  intro tree r1 _ hh
  exact L.resolveWith_preserves cfg path tree _ s r1 hp hh

theorem resolveSupply_preserves (L : StableR P) (cfg : KConfig) (step : Key) (path : String) (rn : Bool) (s : KState)
    (r : KState × Supply) (hp : P s) (h : s.resolveSupply cfg step path rn = .ok r) : P r.1 := by
  unfold KState.resolveSupply at h
  refine bind_ok_gen h (fun a => P a.1) (fun a ha => L.resolveNode_preserves cfg path s a hp ha)
    (fun r => P r.1) ?_
  intro a r1 ha hh
  obtain ⟨s1, state, detached⟩ := a
  simp only at hh
  split at hh
  · simp [graphErr, bind, Except.bind] at hh
  · simp only [pure, Except.pure, bind, Except.bind, Except.ok.injEq] at hh
    subst hh; exact ha

theorem resolveAll_preserves (L : StableR P) (cfg : KConfig) (step : Key) (paths : List String) (rn : Bool) (s : KState)
    (r : KState × List Supply) (hp : P s) (h : s.resolveAll cfg step paths rn = .ok r) : P r.1 := by
  unfold KState.resolveAll at h
  refine foldlM_inv (fun (a : KState × List Supply) => P a.1) _ paths ?_ (s, []) r hp h
  intro a x b ha hb
  refine bind_ok_gen hb (fun c => P c.1) (fun c hc => L.resolveSupply_preserves cfg step x rn a.1 c ha hc)
    (fun r => P r.1) ?_
  intro c d hc hd
  obtain ⟨s', i⟩ := c
  simp only [pure, Except.pure, Except.ok.injEq] at hd
  subst hd; exact hc



theorem insertNewEdges_preserves (L : StableR P) (step : Key) (infos : List Supply) :
    Preserves P (fun s => s.insertNewEdges step infos) := by
  intro s s' hp h
  replace h : s.insertNewEdges step infos = .ok s' := h
  unfold KState.insertNewEdges at h
  exact foldlM_preserves P (fun (st : KState) (i : Supply) => st.insertDep i.file step) _
    (fun i => L.insertDep_preserves i.file step) s s' hp h

theorem supplyFiles_preserves (L : StableR P) (cfg : KConfig) (step : Key) (paths : List String) (rn : Bool) (s : KState)
    (r : KState × List Supply) (hp : P s) (h : s.supplyFiles cfg step paths rn = .ok r) : P r.1 := by
  unfold KState.supplyFiles at h
  refine bind_ok_gen h (fun a => P a.1) (fun a ha => L.resolveAll_preserves cfg step paths rn s a hp ha)
    (fun r => P r.1) ?_
  intro a r1 ha hh
  obtain ⟨s1, infos⟩ := a
  simp only at hh
  split at hh
  · simp [bind, Except.bind, throw, throwThe, MonadExceptOf.throw] at hh
  · simp only [pure, Except.pure, bind, Except.bind] at hh
    refine bind_ok_gen hh P (fun s2 h2 => L.insertNewEdges_preserves step infos s1 s2 ha h2) (fun r => P r.1) ?_
    intro s2 r2 hp2 hh2
    simp only [pure, Except.pure, Except.ok.injEq] at hh2
    subst hh2; exact hp2

theorem addSourceChecked_preserves (L : StableR P) (a b : Key) : Preserves P (fun s => s.addSourceChecked a b) := by
  intro s s' hp h
  replace h : s.addSourceChecked a b = .ok s' := h
  unfold KState.addSourceChecked at h
  split at h
  · simp [bind, Except.bind, throw, throwThe, MonadExceptOf.throw] at h
  · simp only [pure, Except.pure, bind, Except.bind] at h
    exact L.insertDep_preserves b a s s' hp h

theorem declareProduct_preserves (L : StableR P) (cfg : KConfig) (step : Key) (p : String) (st : FileState) :
    Preserves P (fun s => s.declareProduct cfg step p st) := by
  intro s s' hp h
  replace h : s.declareProduct cfg step p st = .ok s' := h
  unfold KState.declareProduct at h
  exact bind_ok h (fun s1 h1 => L.declareFile_preserves cfg step p st s s1 hp h1) (L.addSourceChecked_preserves _ _)

theorem declareProducts_preserves (L : StableR P) (cfg : KConfig) (step : Key) (ps : List String) (st : FileState) :
    Preserves P (fun s => s.declareProducts cfg step ps st) := by
  intro s s' hp h
  replace h : s.declareProducts cfg step ps st = .ok s' := h
  unfold KState.declareProducts at h
  exact foldlM_preserves P (fun (acc : KState) (p : String) => acc.declareProduct cfg step p st) ps
    (fun p => L.declareProduct_preserves cfg step p st) s s' hp h

theorem setStepExtras (L : StableR P) (s : KState) (sk : Key) (d : StepDecl) (hp : P s) : P (s.setStepExtras sk d) :=
  L.cacheAt _ _ _ (fun _ => rfl) hp

theorem afterRecycle_preserves (L : StableR P) (sk : Key) (d : StepDecl) (n : Node) :
    Preserves P (fun s => s.afterRecycle sk d n) := by
  intro s s' hp h
  replace h : s.afterRecycle sk d n = .ok s' := h
  unfold KState.afterRecycle at h
  have hp2 : P (s.modify sk fun n => { n with need := d.need, shell := d.shell }) :=
    L.recycled _ _ _ _ hp
  split at h
  · exact L.markStepPending'_preserves sk _ s' hp2 h
  · simp only [pure, Except.pure, Except.ok.injEq] at h; subst h; exact hp2

theorem recycleStep_preserves (L : StableR P) (sk creator : Key) (d : StepDecl) (n : Node) :
    Preserves P (fun s => s.recycleStep sk creator d n) := by
  intro s s' hp h
  replace h : s.recycleStep sk creator d n = .ok s' := h
  unfold KState.recycleStep at h
  refine bind_ok h (fun s1 h1 => L.reattach_preserves sk creator s s1 hp h1) ?_
  intro s1 s1' hp1 hh
  refine bind_ok hh (fun s3 h3 => L.afterRecycle_preserves sk d n s1 s3 hp1 h3) ?_
  intro s3 s3' hp3 h4
  simp only [pure, Except.pure, Except.ok.injEq] at h4
  subst h4
  exact L.setStepExtras _ _ _ hp3

theorem createStep_preserves (L : StableR P) (cfg : KConfig) (sk creator : Key) (d : StepDecl) (s : KState)
    (r : KState × List String) (hsk : sk.kind = .step) (hp : P s) (h : s.createStep cfg sk creator d = .ok r) : P r.1 := by
  unfold KState.createStep at h
  refine bind_ok_gen h P (fun s1 h1 => L.create_preserves _ _ (.step _) trivial (kindOK_step hsk) s s1 hp h1) (fun r => P r.1) ?_
  intro s1 r1 hp1 hh
  have hp2 : P (s1.setStepExtras sk d) := L.setStepExtras _ _ _ hp1
  refine bind_ok_gen hh (fun a => P a.1) (fun a ha => L.supplyFiles_preserves cfg sk d.inp true _ a hp2 ha)
    (fun r => P r.1) ?_
  intro a r2 ha hh2
  obtain ⟨s3, infos⟩ := a
  simp only at hh2
  have hp4 : P (s3.modify sk fun n => addEnvDeps cfg n d.env) := by
    refine L.cacheAt _ _ _ (fun n => ?_) ha
    unfold addEnvDeps
    generalize d.env = names
    induction names generalizing n with
    | nil => rfl
    | cons x xs ih => simp only [List.foldl_cons]; exact (ih _).trans rfl
  refine bind_ok_gen hh2 P (fun s5 h5 => L.declareProducts_preserves cfg sk d.out .planned _ s5 hp4 h5)
    (fun r => P r.1) ?_
  intro s5 r3 hp5 hh3
  refine bind_ok_gen hh3 P (fun s6 h6 => L.declareProducts_preserves cfg sk d.vol .volatile _ s6 hp5 h6)
    (fun r => P r.1) ?_
  intro s6 r4 hp6 hh4
  simp only [pure, Except.pure, Except.ok.injEq] at hh4
  subst hh4; exact hp6

theorem defineStep_preserves (L : StableR P) (cfg : KConfig) (creator : Key) (d : StepDecl) (s : KState)
    (r : KState × List String) (hp : P s) (h : s.defineStep cfg creator d = .ok r) : P r.1 := by
  unfold KState.defineStep at h
  refine bind_ok_gen h (fun sk => sk.kind = .step) (fun sk hg => ?_) (fun r => P r.1) ?_
  · obtain ⟨label, _, rfl⟩ := defineGuard_key _ _ _ _ _ hg
    rfl
  intro sk r1 hsk hh
  split at hh
  · split at hh
    · refine bind_ok_gen hh P (fun s1 h1 => L.recycleStep_preserves sk creator _ _ s s1 hp h1) (fun r => P r.1) ?_
      intro s1 r2 hp1 hh2
      simp only [pure, Except.pure, Except.ok.injEq] at hh2
      subst hh2; exact hp1
    · refine bind_ok_gen hh (fun _ => True) (fun _ _ => trivial) (fun r => P r.1) ?_
      intro _ r2 _ hh2
      exact L.createStep_preserves cfg sk creator _ s r2 hsk hp hh2
  · refine bind_ok_gen hh (fun _ => True) (fun _ _ => trivial) (fun r => P r.1) ?_
    intro _ r2 _ hh2
    exact L.createStep_preserves cfg sk creator _ s r2 hsk hp hh2

theorem markDynamic (L : StableR P) (s : KState) (edges : List (Key × Key)) (hp : P s) : P (s.markDynamic edges) := by
  unfold KState.markDynamic
  induction edges generalizing s with
  | nil => exact hp
  | cons e es ih => simp only [List.foldl_cons]; exact ih _ (L.setDynamic s _ _ _ hp)

theorem amendEnv (L : StableR P) (s : KState) (cfg : KConfig) (step : Key) (env : List String) (hp : P s) :
    P (s.amendEnv cfg step env) := by
  unfold KState.amendEnv
  refine L.cacheAt _ _ _ (fun n => ?_) hp
  induction env generalizing n with
  | nil => rfl
  | cons x xs ih =>
    simp only [List.foldl_cons]
    split
    · exact ih _
    · exact (ih _).trans rfl

theorem amendProducts_preserves (L : StableR P) (cfg : KConfig) (step : Key) (infos : List Supply) (env out vol : List String)
    (conc : List Key) (s1 : KState) (r : KState × AmendResult) (ha : P s1)
    (hh : s1.amendProducts cfg step infos env out vol conc = .ok r) : P r.1 := by
  unfold KState.amendProducts at hh
  have hp2 : P (s1.amendEnv cfg step env) := L.amendEnv _ _ _ _ ha
  refine bind_ok_gen hh (fun _ => True) (fun _ _ => trivial) (fun r => P r.1) ?_
  intro out' r2 _ hh2
  refine bind_ok_gen hh2 (fun _ => True) (fun _ _ => trivial) (fun r => P r.1) ?_
  intro vol' r3 _ hh3
  refine bind_ok_gen hh3 (fun _ => True) (fun _ _ => trivial) (fun r => P r.1) ?_
  intro _ r4 _ hh4
  refine bind_ok_gen hh4 (fun _ => True) (fun _ _ => trivial) (fun r => P r.1) ?_
  intro _ r5 _ hh5
  refine bind_ok_gen hh5 P (fun s3 h3 => L.declareProducts_preserves cfg step out' .planned _ s3 hp2 h3)
    (fun r => P r.1) ?_
  intro s3 r6 hp3 hh6
  refine bind_ok_gen hh6 P (fun s4 h4 => L.declareProducts_preserves cfg step vol' .volatile _ s4 hp3 h4)
    (fun r => P r.1) ?_
  intro s4 r7 hp4 hh7
  simp only [pure, Except.pure, Except.ok.injEq] at hh7
  subst hh7
  exact L.markDynamic _ _ hp4

theorem amendStep_preserves (L : StableR P) (cfg : KConfig) (step : Key) (inp env out vol : List String) (conc : List Key)
    (s : KState) (r : KState × AmendResult) (hp : P s)
    (h : s.amendStep cfg step inp env out vol conc = .ok r) : P r.1 := by
  unfold KState.amendStep at h
  refine bind_ok_gen h (fun _ => True) (fun _ _ => trivial) (fun r => P r.1) ?_
  intro _ r0 _ h0
  refine bind_ok_gen h0 (fun a => P a.1) (fun a ha => L.supplyFiles_preserves cfg step _ false s a hp ha)
    (fun r => P r.1) ?_
  intro a r1 ha hh
  obtain ⟨s1, infos⟩ := a
  exact L.amendProducts_preserves cfg step infos env out vol conc s1 r1 ha hh

theorem registerNglob_preserves (L : StableR P) (step : Key) (pattern : String) (found : List String) :
    Preserves P (fun s => s.registerNglob step pattern found) := by
  intro s s' hp h
  replace h : s.registerNglob step pattern found = .ok s' := h
  unfold KState.registerNglob at h
  refine bind_ok_gen h (fun _ => True) (fun _ _ => trivial) P ?_
  intro _ r _ hh
  simp only [pure, Except.pure, Except.ok.injEq] at hh
  subst hh
  exact L.cacheAt _ _ _ (fun _ => rfl) hp

theorem registerNglobs_preserves (L : StableR P) (creator : Key) (patterns : List (String × List String)) :
    Preserves P (fun s => s.registerNglobs creator patterns) := by
  intro s s' hp h
  replace h : s.registerNglobs creator patterns = .ok s' := h
  unfold KState.registerNglobs at h
  exact foldlM_preserves P (fun (st : KState) (pm : String × List String) => st.registerNglob creator pm.1 pm.2)
    patterns (fun pm => L.registerNglob_preserves creator pm.1 pm.2) s s' hp h

theorem registerTrees_preserves (L : StableR P) (cfg : KConfig) (creator : Key) (trees : List String) (s : KState)
    (r : KState × List String) (hp : P s) (h : s.registerTrees cfg creator trees = .ok r) : P r.1 := by
  unfold KState.registerTrees at h
  refine foldlM_inv (fun (a : KState × List String) => P a.1) _ trees ?_ (s, []) r hp h
  intro a x b ha hb
  refine bind_ok_gen hb (fun c => P c.1) (fun c hc => L.registerStaticTree_preserves cfg creator x a.1 c ha hc)
    (fun r => P r.1) ?_
  intro c d hc hd
  obtain ⟨s', chk⟩ := c
  simp only [pure, Except.pure, Except.ok.injEq] at hd
  subst hd; exact hc

theorem declareStaticRequest_preserves (L : StableR P) (cfg : KConfig) (creator : Key) (trees files : List String)
    (patterns : List (String × List String)) (s : KState) (r : KState × List String) (hp : P s)
    (h : s.declareStaticRequest cfg creator trees files patterns = .ok r) : P r.1 := by
  unfold KState.declareStaticRequest at h
  refine bind_ok_gen h (fun a => P a.1) (fun a ha => L.registerTrees_preserves cfg creator trees s a hp ha)
    (fun r => P r.1) ?_
  intro a r1 ha hh
  obtain ⟨s1, chk1⟩ := a
  simp only at hh
  refine bind_ok_gen hh (fun a => P a.1) (fun a h2 => L.declareStaticFiles_preserves cfg creator files s1 a ha h2)
    (fun r => P r.1) ?_
  intro a2 r2 ha2 hh2
  obtain ⟨s2, chk2⟩ := a2
  simp only at hh2
  refine bind_ok_gen hh2 P (fun s3 h3 => L.registerNglobs_preserves creator patterns s2 s3 ha2 h3)
    (fun r => P r.1) ?_
  intro s3 r3 hp3 hh3
  simp only [pure, Except.pure, Except.ok.injEq] at hh3
  subst hh3; exact hp3


/-! ### Cleanup (`for`-loop form, through the loop rules of `Lemmas/ForIn.lean`) -/

theorem beforeDelete_preserves (L : StableR P) (n : Node) : Preserves P (fun s => s.beforeDelete n) := by
  intro s s' hp h
  replace h : s.beforeDelete n = .ok s' := h
  unfold KState.beforeDelete at h
  cases hk : n.key.kind with
  | root => simp [hk] at h
  | st => simp only [hk, pure, Except.pure, Except.ok.injEq] at h; subst h; exact hp
  | step =>
    simp only [hk, pure, Except.pure, Except.ok.injEq] at h; subst h
    exact L.markDir _ _ hp
  | file =>
    simp only [hk, pure, Except.pure, Except.ok.injEq] at h; subst h
    apply L.markDir
    split
    · exact L.queueDelete _ _ _ hp
    · split
      · exact L.queueDelete _ _ _ hp
      · exact hp
    · split
      · exact L.queueDelete _ _ _ hp
      · exact hp
    · exact hp

/-- One deletion of `Trellis.delete_detached`: the incoming edges go first, and a candidate has no
outgoing edge, so the row that is removed is an endpoint of no edge. -/
theorem passBody_preserves (L : StableR P) (n : Node) (b : KState × List Key) (r : ForInStep (KState × List Key))
    (hp : P b.1) (hsrc : ∀ d ∈ b.1.deps, d.src ≠ n.key) (h : passBody n b = .ok r) : P r.value.1 := by
  unfold passBody at h
  simp only at h
  cases hb : (b.1.deleteDeps fun d => decide (d.snk = n.key)).beforeDelete n with
  | error e => simp [hb, bind, Except.bind] at h
  | ok st1 =>
    simp only [hb, bind, Except.bind] at h
    have hp1 : P st1 := L.beforeDelete_preserves n _ st1 (L.deleteDeps b.1 _ hp) hb
    obtain ⟨_, hd, _⟩ := deleteDeps_spec b.1 (fun d => decide (d.snk = n.key))
    obtain ⟨_, hd1, _⟩ := beforeDelete_spec _ _ _ hb
    have hdeps : ∀ d ∈ st1.deps, d.snk ≠ n.key := by
      intro d hd'
      rw [hd1, hd] at hd'
      simpa using (List.mem_filter.1 hd').2
    have hsrc1 : ∀ d ∈ st1.deps, d.src ≠ n.key := by
      intro d hd'
      rw [hd1, hd] at hd'
      exact hsrc d (List.mem_filter.1 hd').1
    have hp2 : P { st1 with nodes := st1.nodes.filter (·.key ≠ n.key) } := L.removeNode st1 n.key hdeps hsrc1 hp1
    cases hcr : n.creator with
    | none => simp only [hcr, pure, Except.pure, Except.ok.injEq] at h; subst h; exact hp2
    | some c => simp only [hcr, pure, Except.pure, Except.ok.injEq] at h; subst h; exact hp2

theorem cands_no_out (s : KState) (n : Node) (hn : n ∈ s.cands) : ∀ d ∈ s.deps, d.src ≠ n.key := by
  unfold KState.cands at hn
  have h2 := (List.mem_filter.1 hn).2
  simp only [decide_eq_true_eq] at h2
  have h3 := h2.2.2
  intro d hd hsrc
  simp only [Bool.not_eq_true', List.any_eq_false, decide_eq_true_eq] at h3
  exact h3 d hd hsrc

theorem deletePass_preserves (L : StableR P) (s : KState) (r : KState × List Key × Bool) (hp : P s)
    (h : s.deletePass = .ok r) : P r.1 := by
  rw [deletePass_eq] at h
  refine bind_ok_gen h (fun a => P a.1) (fun a ha => ?_) (fun r => P r.1) ?_
  · have hI := forIn_except_inv s.cands passBody (fun b => P b.1 ∧ ∀ d ∈ b.1.deps, d ∈ s.deps) (s, []) a
      ⟨hp, fun d hd => hd⟩ ?_ ha
    · exact hI.1
    · intro n hn b r' hb hf
      refine ⟨L.passBody_preserves n b r' hb.1 (fun d hd => cands_no_out s n hn d (hb.2 d hd)) hf, ?_⟩
      obtain ⟨st', cs', hr, _, hdeps, _⟩ := passBody_spec n b r' hf
      subst hr
      intro d hd
      have hd' : d ∈ st'.deps := hd
      rw [hdeps] at hd'
      exact hb.2 d (List.mem_filter.1 hd').1
  · intro a b ha hb
    simp only [pure, Except.pure, Except.ok.injEq] at hb
    subst hb; exact ha



theorem baseBody_preserves (L : StableR P) (x : Nat) (b : KState × List Key) (r : ForInStep (KState × List Key))
    (hp : P b.1) (h : baseBody x b = .ok r) : P r.value.1 := by
  unfold baseBody at h
  refine bind_ok_gen h (fun a => P a.1) (fun a ha => L.deletePass_preserves b.1 a hp ha) (fun r => P r.value.1) ?_
  intro a r' ha hh
  obtain ⟨st', cs, some_⟩ := a
  simp only at hh
  split at hh
  · simp only [pure, Except.pure, Except.ok.injEq] at hh; subst hh; exact ha
  · simp only [pure, Except.pure, Except.ok.injEq] at hh; subst hh; exact ha

theorem lostBody_preserves (L : StableR P) (c : Key) (st : KState) (r : ForInStep KState) (hp : P st)
    (h : lostBody c st = .ok r) : P r.value := by
  unfold lostBody at h
  split at h
  · refine bind_ok_gen h P (fun a ha => L.afterLostProduct_preserves c st a hp ha) (fun r => P r.value) ?_
    intro a r' ha hh
    simp only [pure, Except.pure, Except.ok.injEq] at hh; subst hh; exact ha
  · simp only [pure, Except.pure, Except.ok.injEq] at h; subst h; exact hp

/-- `Trellis.delete_detached` preserves every stable predicate. -/
theorem deleteDetachedBase_preserves (L : StableR P) : Preserves P (fun s => s.deleteDetachedBase) := by
  intro s s' hp h
  replace h : s.deleteDetachedBase = .ok s' := h
  rw [deleteDetachedBase_eq] at h
  refine bind_ok_gen h (fun a => P a.1) (fun a ha => ?_) P ?_
  · refine forIn_except_inv _ baseBody (fun b => P b.1) (s, []) a hp ?_ ha
    intro x _ b r' hb hf
    exact L.baseBody_preserves x b r' hb hf
  · intro a s2 ha hh
    refine bind_ok_gen hh P (fun a2 ha2 => ?_) P ?_
    · refine forIn_except_inv a.2 lostBody P a.1 a2 ha ?_ ha2
      intro c _ b r' hb hf
      exact L.lostBody_preserves c b r' hb hf
    · intro a2 b2 ha2 hb2
      simp only [pure, Except.pure, Except.ok.injEq] at hb2; subst hb2; exact ha2

theorem treeInner_preserves (L : StableR P) (f : Node) (st : KState) (r : ForInStep KState) (hp : P st)
    (h : treeInner f st = .ok r) : P r.value := by
  unfold treeInner at h
  split at h
  · refine bind_ok_gen h P (fun a ha => L.detach_preserves f.key st a hp ha) (fun r => P r.value) ?_
    intro a r' ha hh
    simp only [pure, Except.pure, Except.ok.injEq] at hh; subst hh; exact ha
  · simp only [pure, Except.pure, Except.ok.injEq] at h; subst h; exact hp

theorem treeOuter_preserves (L : StableR P) (t : Node) (st : KState) (r : ForInStep KState) (hp : P st)
    (h : treeOuter t st = .ok r) : P r.value := by
  unfold treeOuter at h
  simp only at h
  refine bind_ok_gen h P (fun a ha => ?_) (fun r => P r.value) ?_
  · refine forIn_except_inv _ treeInner P st a hp ?_ ha
    intro f _ b r' hb hf
    exact L.treeInner_preserves f b r' hb hf
  · intro a r' ha hh
    simp only [pure, Except.pure, Except.ok.injEq] at hh; subst hh; exact ha

/-- `Workflow.delete_detached` preserves every stable predicate. -/
theorem deleteDetached_preserves (L : StableR P) : Preserves P (fun s => s.deleteDetached) := by
  intro s s' hp h
  replace h : s.deleteDetached = .ok s' := h
  rw [deleteDetached_eq] at h
  refine bind_ok h (fun st hst => ?_) L.deleteDetachedBase_preserves
  refine forIn_except_inv _ treeOuter P s st hp ?_ hst
  intro t _ b r' hb hf
  exact L.treeOuter_preserves t b r' hb hf
end StableR

/-- Every kernel request that is accepted maps a state satisfying a predicate of this kind to one. -/
theorem exec_stableR {P : KState → Prop} (L : StableR P) (cfg : KConfig) (r : Req)
    (s : KState) (res : KState × String) (hp : P s) (h : s.exec cfg r = .ok res) : P res.1 := by
  cases r with
  | define c d =>
    simp only [KState.exec] at h
    refine bind_ok_gen h (fun a => P a.1) (fun a ha => L.defineStep_preserves cfg c d s a hp ha) (fun r => P r.1) ?_
    intro a b ha hb; obtain ⟨st, chk⟩ := a
    simp only [pure, Except.pure, Except.ok.injEq] at hb; subst hb; exact ha
  | amend k inp env out vol conc =>
    simp only [KState.exec] at h
    refine bind_ok_gen h (fun a => P a.1) (fun a ha => L.amendStep_preserves cfg k inp env out vol conc s a hp ha)
      (fun r => P r.1) ?_
    intro a b ha hb; obtain ⟨st, chk⟩ := a
    simp only [pure, Except.pure, Except.ok.injEq] at hb; subst hb; exact ha
  | static c ps =>
    simp only [KState.exec] at h
    refine bind_ok_gen h (fun a => P a.1) (fun a ha => L.declareStaticFiles_preserves cfg c ps s a hp ha)
      (fun r => P r.1) ?_
    intro a b ha hb; obtain ⟨st, chk⟩ := a
    simp only [pure, Except.pure, Except.ok.injEq] at hb; subst hb; exact ha
  | tree c p =>
    simp only [KState.exec] at h
    refine bind_ok_gen h (fun a => P a.1) (fun a ha => L.registerStaticTree_preserves cfg c p s a hp ha)
      (fun r => P r.1) ?_
    intro a b ha hb; obtain ⟨st, chk⟩ := a
    simp only [pure, Except.pure, Except.ok.injEq] at hb; subst hb; exact ha
  | declStatic c ts fs ps =>
    simp only [KState.exec] at h
    refine bind_ok_gen h (fun a => P a.1) (fun a ha => L.declareStaticRequest_preserves cfg c ts fs ps s a hp ha)
      (fun r => P r.1) ?_
    intro a b ha hb; obtain ⟨st, chk⟩ := a
    simp only [pure, Except.pure, Except.ok.injEq] at hb; subst hb; exact ha
  | nglob k p ms => exact L.registerNglob_preserves k p ms s _ hp (StableG.unitOut_ok h)
  | hashes u c => exact L.updateFileHashes_preserves u c s _ hp (StableG.unitOut_ok h)
  | pop c =>
    simp only [KState.exec] at h
    refine bind_ok_gen h (fun a => P a.1) (fun a ha => L.popNext_preserves cfg c s a.1 a.2 hp ha) (fun r => P r.1) ?_
    intro a b ha hb; obtain ⟨st, d⟩ := a
    simp only [pure, Except.pure, Except.ok.injEq] at hb; subst hb; exact ha
  | updateMeta => exact L.updateMeta_preserves cfg s _ hp (StableG.unitOut_ok h)
  | resetRerun k => exact L.resetForRerun_preserves k s _ hp (StableG.unitOut_ok h)
  | completed k nh wd =>
    simp only [KState.exec] at h
    refine bind_ok_gen h (fun a => P a.1) (fun a ha => L.markCompleted_preserves cfg k nh wd s a.1 a.2 hp ha)
      (fun r => P r.1) ?_
    intro a b ha hb; obtain ⟨st, d⟩ := a
    simp only [pure, Except.pure, Except.ok.injEq] at hb; subst hb; exact ha
  | setState k stt => exact L.setStepState_preserves k stt false s _ hp (StableG.unitOut_ok h)
  | deleteHash k =>
    have := StableG.unitOut_ok h
    simp only [pure, Except.pure, Except.ok.injEq] at this
    rw [← this]; exact L.deleteHash s k hp
  | markPending k => exact L.markStepPending'_preserves k s _ hp (StableG.unitOut_ok h)
  | hold k => exact L.hold_preserves k s _ hp (StableG.unitOut_ok h)
  | release k => exact L.release_preserves k s _ hp (StableG.unitOut_ok h)
  | detach k => exact L.detach_preserves k s _ hp (StableG.unitOut_ok h)
  | revertOptional => exact L.revertOptional_preserves s _ hp (StableG.unitOut_ok h)
  | deleteDetached => exact L.deleteDetached_preserves s _ hp (StableG.unitOut_ok h)
  | clearQueue =>
    have := StableG.unitOut_ok h
    simp only [pure, Except.pure, Except.ok.injEq] at this
    rw [← this]; exact L.clearQueue s hp
  | resetInterrupted => exact L.resetInterrupted_preserves s _ hp (StableG.unitOut_ok h)
  | rescanEnv => exact L.rescanEnvVars_preserves cfg s _ hp (StableG.unitOut_ok h)
  | reconcile => exact L.reconcileTargets_preserves cfg s _ hp (StableG.unitOut_ok h)
  | checkConsistency => exact L.checkConsistency_preserves s _ hp (StableG.unitOut_ok h)

/-- One transaction, accepted or rolled back. -/
theorem step_stableR {P : KState → Prop} (L : StableR P) (cfg : KConfig) (r : Req) (s : KState) (hp : P s) :
    P (s.step cfg r) := by
  unfold KState.step
  cases h : s.exec cfg r with
  | error e => exact hp
  | ok res => obtain ⟨s', out⟩ := res; exact exec_stableR L cfg r s (s', out) hp h

/-- Every history of accepted and rejected requests, each under its own configuration. -/
theorem run_stableR {P : KState → Prop} (L : StableR P) (h : List (KConfig × Req)) (s : KState) (hp : P s) :
    P (s.run h) := by
  unfold KState.run
  induction h generalizing s with
  | nil => exact hp
  | cons x xs ih =>
    simp only [List.foldl_cons]
    exact ih _ (step_stableR L x.1 x.2 s hp)

theorem reachable_stableR {P : KState → Prop} (L : StableR P) (h0 : P KState.init) (h : List (KConfig × Req)) :
    P (KState.init.run h) := run_stableR L h KState.init h0

end StepupModel.K
