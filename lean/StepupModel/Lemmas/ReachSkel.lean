import StepupModel.K.Types
/-!
# The creator forest on bare `(key, creator, detached)` triples

Everything `Trellis._check_consistency` says about creator links and the `detached` flag is a
statement about the list of `(key, creator, detached)` triples of the node table.  This file is
the list-level mathematics: the local invariant (`Sk.OK`), the set of recursive products
(`Sk.Desc`), the six ways the kernel rewrites the triples (one row, a set of rows, cutting the
products of a row, appending a row, handing rows over, removing rows) and the fact that each of
them keeps the local invariant under the guards the code provides.  No `KState` here; the link to
the model is `Lemmas/ReachDesc.lean`.
-/
namespace StepupModel.K

/-- `(key, creator, detached)` of one row of the `node` table. -/
abbrev Tri := Key × Option Key × Bool

namespace Sk

/-- One row per key. -/
def Nodup (l : List Tri) : Prop := (l.map (·.1)).Nodup

/-- `k` has a row. -/
def Has (l : List Tri) (k : Key) : Prop := ∃ t ∈ l, t.1 = k

/-- `k` has an attached row. -/
def Att (l : List Tri) (k : Key) : Prop := ∃ t ∈ l, t.1 = k ∧ t.2.2 = false

/-- The root row: its own creator, attached. -/
def RootOK (l : List Tri) : Prop := (rootKey, some rootKey, false) ∈ l

/-- The row `t` agrees with its creator: attached exactly when the creator is an attached row. -/
def LocalAt (l : List Tri) (t : Tri) : Prop := t.2.2 = false ↔ ∃ c, t.2.1 = some c ∧ Att l c

/-- Every row but the root agrees with its creator. -/
def Local (l : List Tri) : Prop := ∀ t ∈ l, t.1 ≠ rootKey → LocalAt l t

/-- No dangling creator. -/
def Exist (l : List Tri) : Prop := ∀ t ∈ l, ∀ c, t.2.1 = some c → Has l c

/-- The local invariant of the creator forest. -/
structure OK (l : List Tri) : Prop where
  nodup : Nodup l
  root : RootOK l
  loc : Local l
  exist : Exist l

/-- Recursive products of `k` (self-created rows are not products of themselves). -/
inductive Desc (l : List Tri) (k : Key) : Key → Prop
  | direct (x : Key) (d : Bool) : (x, some k, d) ∈ l → x ≠ k → Desc l k x
  | trans (x c : Key) (d : Bool) : (x, some c, d) ∈ l → Desc l k c → x ≠ c → Desc l k x

/-! ## Basic facts -/

theorem uniq {l : List Tri} (hn : Nodup l) {t u : Tri} (ht : t ∈ l) (hu : u ∈ l) (h : t.1 = u.1) : t = u := by
  unfold Nodup at hn
  induction l with
  | nil => cases ht
  | cons x xs ih =>
    simp only [List.map_cons, List.nodup_cons, List.mem_map, not_exists, not_and] at hn
    simp only [List.mem_cons] at ht hu
    rcases ht with rfl | ht <;> rcases hu with rfl | hu
    · rfl
    · exact absurd h.symm (hn.1 u hu)
    · exact absurd h (hn.1 t ht)
    · exact ih hn.2 ht hu

theorem att_iff_of_mem {l : List Tri} (hn : Nodup l) {t : Tri} (ht : t ∈ l) : Att l t.1 ↔ t.2.2 = false := by
  constructor
  · rintro ⟨u, hu, hk, hd⟩
    have := uniq hn hu ht hk
    subst this; exact hd
  · intro hd; exact ⟨t, ht, rfl, hd⟩

theorem Att.has {l : List Tri} {k : Key} (h : Att l k) : Has l k := by
  obtain ⟨t, ht, hk, _⟩ := h; exact ⟨t, ht, hk⟩

theorem Desc.has {l : List Tri} {k x : Key} (h : Desc l k x) : Has l x := by
  cases h with
  | direct x d hm _ => exact ⟨_, hm, rfl⟩
  | trans x c d hm _ _ => exact ⟨_, hm, rfl⟩

/-- A row that is a recursive product of `k`: its creator is `k` or a recursive product of `k`. -/
theorem Desc.row {l : List Tri} {k x : Key} (h : Desc l k x) :
    ∃ c d, (x, some c, d) ∈ l ∧ x ≠ c ∧ (c = k ∨ Desc l k c) := by
  cases h with
  | direct x d hm hne => exact ⟨k, d, hm, hne, Or.inl rfl⟩
  | trans x c d hm hc hne => exact ⟨c, d, hm, hne, Or.inr hc⟩

theorem Desc.of_row {l : List Tri} {k x c : Key} {d : Bool} (hm : (x, some c, d) ∈ l) (hne : x ≠ c)
    (hc : c = k ∨ Desc l k c) : Desc l k x := by
  rcases hc with rfl | hc
  · exact Desc.direct x d hm hne
  · exact Desc.trans x c d hm hc hne

/-- The root is nobody's product. -/
theorem root_not_desc {l : List Tri} (hn : Nodup l) (hr : RootOK l) (k : Key) : ¬ Desc l k rootKey := by
  intro h
  obtain ⟨c, d, hm, hne, _⟩ := h.row
  have := uniq hn hm hr rfl
  simp only [Prod.mk.injEq, Option.some.injEq] at this
  exact hne this.2.1.symm

/-- The recursive products of a row that is not attached are not attached. -/
theorem desc_not_att {l : List Tri} (hn : Nodup l) (hr : RootOK l) (hl : Local l) {k : Key} (hk : ¬ Att l k)
    {x : Key} (h : Desc l k x) : ¬ Att l x := by
  induction h with
  | direct x d hm hne =>
    have hx : x ≠ rootKey := fun hx => root_not_desc hn hr k (hx ▸ Desc.direct x d hm hne)
    intro ha
    have hd : d = false := (att_iff_of_mem hn hm).1 ha
    obtain ⟨c, hc, hac⟩ := (hl _ hm hx).1 hd
    simp only [Option.some.injEq] at hc
    subst hc; exact hk hac
  | trans x c d hm hc hne ih =>
    have hx : x ≠ rootKey := fun hx => root_not_desc hn hr k (hx ▸ Desc.trans x c d hm hc hne)
    intro ha
    have hd : d = false := (att_iff_of_mem hn hm).1 ha
    obtain ⟨c', hc', hac⟩ := (hl _ hm hx).1 hd
    simp only [Option.some.injEq] at hc'
    subst hc'; exact ih hac

/-! ## The rewrites -/

/-- `UPDATE node SET creator = ?, detached = ? WHERE key = k` -/
def setRow (k : Key) (c : Option Key) (d : Bool) (l : List Tri) : List Tri :=
  l.map fun t => if t.1 = k then (k, c, d) else t

/-- `UPDATE node SET detached = ?` on the rows selected by `D`. -/
def setD (D : Key → Bool) (d : Bool) (l : List Tri) : List Tri :=
  l.map fun t => if D t.1 then (t.1, t.2.1, d) else t

/-- Every product of `k` loses its creator and is detached. -/
def cut (k : Key) (l : List Tri) : List Tri :=
  l.map fun t => if t.2.1 = some k ∧ t.1 ≠ k then (t.1, none, true) else t

/-- The rows selected by `hs` get the creator `tk`. -/
def hand (tk : Key) (hs : List Key) (l : List Tri) : List Tri :=
  l.map fun t => if hs.contains t.1 then (t.1, some tk, t.2.2) else t

theorem keys_map (g : Tri → Tri) (hg : ∀ t, (g t).1 = t.1) (l : List Tri) : (l.map g).map (·.1) = l.map (·.1) := by
  rw [List.map_map]
  apply List.map_congr_left
  intro t _; exact hg t

theorem nodup_map (g : Tri → Tri) (hg : ∀ t, (g t).1 = t.1) {l : List Tri} (hn : Nodup l) : Nodup (l.map g) := by
  unfold Nodup; rw [keys_map g hg]; exact hn

theorem has_map (g : Tri → Tri) (hg : ∀ t, (g t).1 = t.1) (l : List Tri) (k : Key) : Has (l.map g) k ↔ Has l k := by
  unfold Has
  constructor
  · rintro ⟨t, ht, hk⟩
    obtain ⟨u, hu, rfl⟩ := List.mem_map.1 ht
    exact ⟨u, hu, (hg u).symm.trans hk⟩
  · rintro ⟨t, ht, hk⟩
    exact ⟨g t, List.mem_map.2 ⟨t, ht, rfl⟩, (hg t).trans hk⟩

theorem setRow_key (k : Key) (c : Option Key) (d : Bool) (t : Tri) : (if t.1 = k then (k, c, d) else t).1 = t.1 := by
  split
  · rename_i h; exact h.symm
  · rfl

theorem setD_key (D : Key → Bool) (d : Bool) (t : Tri) : (if D t.1 then (t.1, t.2.1, d) else t).1 = t.1 := by
  split <;> rfl

theorem cut_key (k : Key) (t : Tri) : (if t.2.1 = some k ∧ t.1 ≠ k then ((t.1, none, true) : Tri) else t).1 = t.1 := by
  split <;> rfl

theorem hand_key (tk : Key) (hs : List Key) (t : Tri) :
    (if hs.contains t.1 then ((t.1, some tk, t.2.2) : Tri) else t).1 = t.1 := by
  split <;> rfl

/-! ### One row -/

theorem att_setRow_ne {l : List Tri} {k x : Key} (c : Option Key) (d : Bool) (hx : x ≠ k) :
    Att (setRow k c d l) x ↔ Att l x := by
  unfold Att setRow
  constructor
  · rintro ⟨t, ht, hk, hd⟩
    obtain ⟨u, hu, rfl⟩ := List.mem_map.1 ht
    by_cases huk : u.1 = k
    · simp only [huk, if_true] at hk; exact absurd hk.symm hx
    · simp only [huk, if_false] at hk hd; exact ⟨u, hu, hk, hd⟩
  · rintro ⟨t, ht, hk, hd⟩
    refine ⟨t, List.mem_map.2 ⟨t, ht, ?_⟩, hk, hd⟩
    have : ¬ t.1 = k := fun h => hx (hk ▸ h)
    simp [this]

theorem att_setRow_self {l : List Tri} {k : Key} (c : Option Key) (d : Bool) (hk : Has l k) :
    Att (setRow k c d l) k ↔ d = false := by
  unfold Att setRow
  constructor
  · rintro ⟨t, ht, htk, hd⟩
    obtain ⟨u, hu, rfl⟩ := List.mem_map.1 ht
    by_cases huk : u.1 = k
    · rw [if_pos huk] at hd; exact hd
    · rw [if_neg huk] at htk; exact absurd htk huk
  · intro hd
    obtain ⟨u, hu, huk⟩ := hk
    exact ⟨(k, c, d), List.mem_map.2 ⟨u, hu, by simp [huk]⟩, rfl, hd⟩

theorem mem_setRow {l : List Tri} {k : Key} {c : Option Key} {d : Bool} {t : Tri} (ht : t ∈ setRow k c d l) :
    (t = (k, c, d) ∧ Has l k) ∨ (t ∈ l ∧ t.1 ≠ k) := by
  unfold setRow at ht
  obtain ⟨u, hu, rfl⟩ := List.mem_map.1 ht
  by_cases huk : u.1 = k
  · rw [if_pos huk]; exact Or.inl ⟨rfl, u, hu, huk⟩
  · rw [if_neg huk]; exact Or.inr ⟨hu, huk⟩

theorem mem_setRow_of_ne {l : List Tri} {k : Key} (c : Option Key) (d : Bool) {t : Tri} (ht : t ∈ l) (hk : t.1 ≠ k) :
    t ∈ setRow k c d l := by
  unfold setRow
  exact List.mem_map.2 ⟨t, ht, by simp [hk]⟩

theorem mem_setRow_self {l : List Tri} {k : Key} (c : Option Key) (d : Bool) (hk : Has l k) :
    (k, c, d) ∈ setRow k c d l := by
  obtain ⟨u, hu, huk⟩ := hk
  unfold setRow
  exact List.mem_map.2 ⟨u, hu, by simp [huk]⟩

/-! ### A set of rows -/

theorem att_setD {l : List Tri} (D : Key → Bool) (d : Bool) (x : Key) :
    Att (setD D d l) x ↔ (D x = true ∧ Has l x ∧ d = false) ∨ (D x = false ∧ Att l x) := by
  unfold Att setD
  constructor
  · rintro ⟨t, ht, hk, hd⟩
    obtain ⟨u, hu, rfl⟩ := List.mem_map.1 ht
    by_cases hD : D u.1 = true
    · simp only [hD, if_true] at hk hd
      subst hk
      exact Or.inl ⟨hD, ⟨u, hu, rfl⟩, hd⟩
    · simp only [hD] at hk hd
      subst hk
      exact Or.inr ⟨by simpa using hD, u, hu, rfl, hd⟩
  · rintro (⟨hD, ⟨u, hu, huk⟩, hd⟩ | ⟨hD, u, hu, huk, hud⟩)
    · subst huk
      exact ⟨(u.1, u.2.1, d), List.mem_map.2 ⟨u, hu, by simp [hD]⟩, rfl, hd⟩
    · subst huk
      exact ⟨u, List.mem_map.2 ⟨u, hu, by simp [hD]⟩, rfl, hud⟩

/-- **Propagating a flag to the recursive products of `k`.**  The row of `k` carries the flag `d`
already; every row agrees with its creator except, possibly, the rows created by `k` or by a
recursive product of `k` (those are exactly the rows that are overwritten).  Afterwards the whole
table is consistent. -/
theorem ok_setD_desc {l : List Tri} (hn : Nodup l) (hr : RootOK l) (he : Exist l) {k : Key} {ck : Option Key}
    {d : Bool} (hrow : (k, ck, d) ∈ l) (D : Key → Bool) (hD : ∀ x, D x = true ↔ Desc l k x)
    (hw : ∀ t ∈ l, t.1 ≠ rootKey →
      LocalAt l t ∨ ∃ c, t.2.1 = some c ∧ t.1 ≠ c ∧ (c = k ∨ Desc l k c)) :
    OK (setD D d l) := by
  have hDroot : D rootKey = false := by
    cases h : D rootKey with
    | false => rfl
    | true => exact absurd ((hD _).1 h) (root_not_desc hn hr k)
  have hattk : Att (setD D d l) k ↔ d = false := by
    rw [att_setD]
    constructor
    · rintro (⟨_, _, h⟩ | ⟨_, h⟩)
      · exact h
      · exact (att_iff_of_mem hn hrow).1 h
    · intro h
      cases hDk : D k with
      | true => exact Or.inl ⟨rfl, ⟨_, hrow, rfl⟩, h⟩
      | false => exact Or.inr ⟨rfl, _, hrow, rfl, h⟩
  refine ⟨nodup_map _ (setD_key D d) hn, ?_, ?_, ?_⟩
  · -- root
    unfold RootOK setD
    exact List.mem_map.2 ⟨_, hr, by simp [hDroot]⟩
  · -- local
    intro t' ht' hroot
    unfold setD at ht'
    obtain ⟨t, ht, rfl⟩ := List.mem_map.1 ht'
    have hkey : (if D t.1 = true then (t.1, t.2.1, d) else t).1 = t.1 := setD_key D d t
    rw [hkey] at hroot
    by_cases hA : ∃ c, t.2.1 = some c ∧ t.1 ≠ c ∧ (c = k ∨ Desc l k c)
    · obtain ⟨c, hc, hne, hck⟩ := hA
      have hdesc : Desc l k t.1 := Desc.of_row (d := t.2.2) (by rw [← hc]; exact ht) hne hck
      have hDt : D t.1 = true := (hD _).2 hdesc
      simp only [hDt, if_true]
      unfold LocalAt
      simp only [hc, Option.some.injEq, exists_eq_left']
      rcases hck with rfl | hck
      · exact hattk.symm
      · rw [att_setD]
        constructor
        · intro h; exact Or.inl ⟨(hD _).2 hck, hck.has, h⟩
        · rintro (⟨_, _, h⟩ | ⟨h, _⟩)
          · exact h
          · rw [(hD _).2 hck] at h; cases h
    · have hloc : LocalAt l t := by
        rcases hw t ht hroot with h | h
        · exact h
        · exact absurd h hA
      have hDt : D t.1 = false := by
        cases h : D t.1 with
        | false => rfl
        | true =>
          obtain ⟨c, d', hm, hne, hck⟩ := ((hD _).1 h).row
          have := uniq hn hm ht rfl
          have h2 : t.2.1 = some c := by rw [← this]
          exact absurd ⟨c, h2, hne, hck⟩ hA
      simp only [hDt, Bool.false_eq_true, if_false]
      unfold LocalAt at hloc ⊢
      rw [hloc]
      constructor
      · rintro ⟨c, hc, hac⟩
        refine ⟨c, hc, ?_⟩
        by_cases hself : t.1 = c
        · subst hself
          exact ⟨t, List.mem_map.2 ⟨t, ht, by simp [hDt]⟩, rfl, (att_iff_of_mem hn ht).1 hac⟩
        · have hnc : ¬ (c = k ∨ Desc l k c) := fun h => hA ⟨c, hc, hself, h⟩
          rw [att_setD]
          refine Or.inr ⟨?_, hac⟩
          cases h : D c with
          | false => rfl
          | true => exact absurd (Or.inr ((hD _).1 h)) hnc
      · rintro ⟨c, hc, hac⟩
        refine ⟨c, hc, ?_⟩
        by_cases hself : t.1 = c
        · subst hself
          obtain ⟨u, hu, huk, hud⟩ := hac
          obtain ⟨v, hv, rfl⟩ := List.mem_map.1 hu
          have hvk : v.1 = t.1 := (setD_key D d v).symm.trans huk
          have := uniq hn hv ht hvk
          subst this
          simp only [hDt] at hud
          exact ⟨v, hv, rfl, hud⟩
        · have hnc : ¬ (c = k ∨ Desc l k c) := fun h => hA ⟨c, hc, hself, h⟩
          rw [att_setD] at hac
          rcases hac with ⟨h, _, _⟩ | ⟨_, h⟩
          · exact absurd (Or.inr ((hD _).1 h)) hnc
          · exact h
  · -- exist
    intro t' ht' c hc
    unfold setD at ht'
    obtain ⟨t, ht, rfl⟩ := List.mem_map.1 ht'
    have hc' : t.2.1 = some c := by
      by_cases h : D t.1 = true
      · simpa [h] using hc
      · simpa [h] using hc
    exact (has_map _ (setD_key D d) l c).2 (he t ht c hc')

/-! ### One row, then its recursive products (`detach`, `reattach`) -/

/-- What the new creator and flag of the row of `k` have to satisfy: the creator is another row,
and the flag is the one a product of that creator carries. -/
def FitsRow (l : List Tri) (k : Key) (newc : Option Key) (d : Bool) : Prop :=
  (∀ c, newc = some c → c ≠ k ∧ Has l c) ∧ (d = false ↔ ∃ c, newc = some c ∧ Att l c)

theorem localAt_setRow_self {l : List Tri} {k : Key} {newc : Option Key} {d : Bool} (hf : FitsRow l k newc d) :
    LocalAt (setRow k newc d l) (k, newc, d) := by
  unfold LocalAt
  rw [hf.2]
  constructor
  · rintro ⟨c, hc, hac⟩
    exact ⟨c, hc, (att_setRow_ne newc d (hf.1 c hc).1).2 hac⟩
  · rintro ⟨c, hc, hac⟩
    exact ⟨c, hc, (att_setRow_ne newc d (hf.1 c hc).1).1 hac⟩

theorem localAt_setRow_other {l : List Tri} {k : Key} (newc : Option Key) (d : Bool) {t : Tri}
    (hloc : LocalAt l t) (hck : t.2.1 ≠ some k) : LocalAt (setRow k newc d l) t := by
  unfold LocalAt at hloc ⊢
  rw [hloc]
  constructor
  · rintro ⟨c, hc, hac⟩
    have hne : c ≠ k := fun h => hck (by rw [← h]; exact hc)
    exact ⟨c, hc, (att_setRow_ne newc d hne).2 hac⟩
  · rintro ⟨c, hc, hac⟩
    have hne : c ≠ k := fun h => hck (by rw [← h]; exact hc)
    exact ⟨c, hc, (att_setRow_ne newc d hne).1 hac⟩

theorem rootOK_setRow {l : List Tri} (hr : RootOK l) {k : Key} (hk : k ≠ rootKey) (newc : Option Key) (d : Bool) :
    RootOK (setRow k newc d l) :=
  mem_setRow_of_ne newc d hr (fun h => hk h.symm)

theorem exist_setRow {l : List Tri} (he : Exist l) {k : Key} {newc : Option Key} {d : Bool}
    (hf : ∀ c, newc = some c → Has l c) : Exist (setRow k newc d l) := by
  intro t ht c hc
  refine (has_map _ (setRow_key k newc d) l c).2 ?_
  rcases mem_setRow ht with ⟨rfl, _⟩ | ⟨hm, _⟩
  · exact hf c hc
  · exact he t hm c hc

/-- The row of `k` gets a new creator and the flag that goes with it; the flag is then propagated
to the recursive products of `k` (computed after the update of the row). -/
theorem ok_setRow_desc {l : List Tri} (h : OK l) {k : Key} (hk : k ≠ rootKey) (hhas : Has l k)
    {newc : Option Key} {d : Bool} (hf : FitsRow l k newc d) (D : Key → Bool)
    (hD : ∀ x, D x = true ↔ Desc (setRow k newc d l) k x) : OK (setD D d (setRow k newc d l)) := by
  refine ok_setD_desc (nodup_map _ (setRow_key k newc d) h.nodup) (rootOK_setRow h.root hk newc d)
    (exist_setRow h.exist (fun c hc => (hf.1 c hc).2)) (mem_setRow_self newc d hhas) D hD ?_
  intro t ht hroot
  rcases mem_setRow ht with ⟨rfl, _⟩ | ⟨hm, hne⟩
  · exact Or.inl (localAt_setRow_self hf)
  · by_cases hck : t.2.1 = some k
    · exact Or.inr ⟨k, hck, hne, Or.inl rfl⟩
    · exact Or.inl (localAt_setRow_other newc d (h.loc t hm hroot) hck)

/-- The row of `k` gets a new creator; its flag does not change. -/
theorem ok_setRow {l : List Tri} (h : OK l) {k : Key} (hk : k ≠ rootKey) (hhas : Has l k)
    {newc : Option Key} {d : Bool} (hf : FitsRow l k newc d) (hd : Att l k ↔ d = false) :
    OK (setRow k newc d l) := by
  refine ⟨nodup_map _ (setRow_key k newc d) h.nodup, rootOK_setRow h.root hk newc d, ?_,
    exist_setRow h.exist (fun c hc => (hf.1 c hc).2)⟩
  intro t ht hroot
  rcases mem_setRow ht with ⟨rfl, _⟩ | ⟨hm, hne⟩
  · exact localAt_setRow_self hf
  · by_cases hck : t.2.1 = some k
    · have hloc := h.loc t hm hroot
      unfold LocalAt at hloc ⊢
      rw [hloc]
      simp only [hck, Option.some.injEq, exists_eq_left']
      rw [att_setRow_self newc d hhas, hd]
    · exact localAt_setRow_other newc d (h.loc t hm hroot) hck

/-- A detached row is not the root. -/
theorem ne_root_of_detached {l : List Tri} (h : OK l) {k : Key} {ck : Option Key} (hrow : (k, ck, true) ∈ l) :
    k ≠ rootKey := by
  intro hk
  have := uniq h.nodup hrow h.root hk
  simp at this

theorem not_att_of_detached {l : List Tri} (h : OK l) {k : Key} {ck : Option Key} (hrow : (k, ck, true) ∈ l) :
    ¬ Att l k := by
  intro ha
  have := (att_iff_of_mem h.nodup hrow).1 ha
  simp at this

/-! ### Cutting the products of a recycled row (`Trellis.create` on a detached row) -/

theorem att_cut {l : List Tri} {k : Key} (hdet : ∀ t ∈ l, t.2.1 = some k → t.1 ≠ k → t.2.2 = true) (x : Key) :
    Att (cut k l) x ↔ Att l x := by
  unfold Att cut
  constructor
  · rintro ⟨t, ht, hk, hd⟩
    obtain ⟨u, hu, rfl⟩ := List.mem_map.1 ht
    by_cases hc : u.2.1 = some k ∧ u.1 ≠ k
    · rw [if_pos hc] at hd; cases hd
    · rw [if_neg hc] at hk hd; exact ⟨u, hu, hk, hd⟩
  · rintro ⟨t, ht, hk, hd⟩
    refine ⟨t, List.mem_map.2 ⟨t, ht, ?_⟩, hk, hd⟩
    by_cases hc : t.2.1 = some k ∧ t.1 ≠ k
    · have := hdet t ht hc.1 hc.2
      rw [hd] at this; cases this
    · rw [if_neg hc]

/-- **Recycling a detached row**: new creator and flag for the row of `k`, and every product it
had is cut loose.  The flags of all other rows stay as they are. -/
theorem ok_recycle {l : List Tri} (h : OK l) {k : Key} {ck : Option Key} (hrow : (k, ck, true) ∈ l)
    {newc : Option Key} {d : Bool} (hf : FitsRow l k newc d) :
    OK (cut k (setRow k newc d l)) ∧ (∀ x, x ≠ k → (Att (cut k (setRow k newc d l)) x ↔ Att l x)) ∧
      (Att (cut k (setRow k newc d l)) k ↔ d = false) := by
  have hk : k ≠ rootKey := ne_root_of_detached h hrow
  have hnk : ¬ Att l k := not_att_of_detached h hrow
  have hhas : Has l k := ⟨_, hrow, rfl⟩
  have hn1 : Nodup (setRow k newc d l) := nodup_map _ (setRow_key k newc d) h.nodup
  -- the products of `k` are detached, before and after the update of the row
  have hprod : ∀ t ∈ l, t.2.1 = some k → t.1 ≠ k → t.2.2 = true := by
    intro t ht hc hne
    have hroot : t.1 ≠ rootKey := by
      intro hr
      have := uniq h.nodup ht h.root hr
      rw [this] at hc
      simp only [Option.some.injEq] at hc
      exact hne (hr.trans hc)
    cases hd : t.2.2 with
    | true => rfl
    | false =>
      obtain ⟨c, hc', hac⟩ := (h.loc t ht hroot).1 hd
      rw [hc] at hc'
      simp only [Option.some.injEq] at hc'
      subst hc'; exact absurd hac hnk
  have hprod1 : ∀ t ∈ setRow k newc d l, t.2.1 = some k → t.1 ≠ k → t.2.2 = true := by
    intro t ht hc hne
    rcases mem_setRow ht with ⟨rfl, _⟩ | ⟨hm, _⟩
    · exact absurd rfl hne
    · exact hprod t hm hc hne
  have hatt : ∀ x, Att (cut k (setRow k newc d l)) x ↔ Att (setRow k newc d l) x := att_cut hprod1
  have hatt_ne : ∀ x, x ≠ k → (Att (cut k (setRow k newc d l)) x ↔ Att l x) := fun x hx =>
    (hatt x).trans (att_setRow_ne newc d hx)
  have hatt_k : Att (cut k (setRow k newc d l)) k ↔ d = false := (hatt k).trans (att_setRow_self newc d hhas)
  refine ⟨⟨nodup_map _ (cut_key k) hn1, ?_, ?_, ?_⟩, hatt_ne, hatt_k⟩
  · -- root
    unfold RootOK cut
    refine List.mem_map.2 ⟨_, rootOK_setRow h.root hk newc d, ?_⟩
    have : ¬ ((some rootKey : Option Key) = some k ∧ rootKey ≠ k) := by
      rintro ⟨h1, h2⟩
      simp only [Option.some.injEq] at h1
      exact h2 h1
    simp only [this, if_false]
  · -- local
    intro t' ht' hroot
    unfold cut at ht'
    obtain ⟨t, ht, rfl⟩ := List.mem_map.1 ht'
    by_cases hc : t.2.1 = some k ∧ t.1 ≠ k
    · rw [if_pos hc]
      unfold LocalAt
      simp
    · rw [if_neg hc] at hroot ⊢
      rcases mem_setRow ht with ⟨rfl, _⟩ | ⟨hm, hne⟩
      · unfold LocalAt
        show d = false ↔ ∃ c, newc = some c ∧ Att (cut k (setRow k newc d l)) c
        rw [hf.2]
        constructor
        · rintro ⟨c, hc', hac⟩
          exact ⟨c, hc', (hatt_ne c (hf.1 c hc').1).2 hac⟩
        · rintro ⟨c, hc', hac⟩
          exact ⟨c, hc', (hatt_ne c (hf.1 c hc').1).1 hac⟩
      · have hck : t.2.1 ≠ some k := fun h1 => hc ⟨h1, hne⟩
        have hloc := h.loc t hm hroot
        unfold LocalAt at hloc ⊢
        rw [hloc]
        constructor
        · rintro ⟨c, hc', hac⟩
          exact ⟨c, hc', (hatt_ne c (fun h1 => hck (h1 ▸ hc'))).2 hac⟩
        · rintro ⟨c, hc', hac⟩
          exact ⟨c, hc', (hatt_ne c (fun h1 => hck (h1 ▸ hc'))).1 hac⟩
  · -- exist
    intro t' ht' c hc
    unfold cut at ht'
    obtain ⟨t, ht, rfl⟩ := List.mem_map.1 ht'
    refine (has_map _ (cut_key k) _ c).2 ?_
    by_cases hcc : t.2.1 = some k ∧ t.1 ≠ k
    · rw [if_pos hcc] at hc; cases hc
    · rw [if_neg hcc] at hc
      exact exist_setRow h.exist (fun c hc => (hf.1 c hc).2) t ht c hc

/-! ### Appending a fresh row -/

theorem att_append_ne {l : List Tri} {k x : Key} (c : Option Key) (d : Bool) (hx : x ≠ k) :
    Att (l ++ [(k, c, d)]) x ↔ Att l x := by
  unfold Att
  constructor
  · rintro ⟨t, ht, hk, hd⟩
    simp only [List.mem_append, List.mem_singleton] at ht
    rcases ht with ht | rfl
    · exact ⟨t, ht, hk, hd⟩
    · exact absurd hk.symm hx
  · rintro ⟨t, ht, hk, hd⟩
    exact ⟨t, List.mem_append_left _ ht, hk, hd⟩

/-- **A fresh row** with an existing creator (or none) and the flag that goes with it. -/
theorem ok_append {l : List Tri} (h : OK l) {k : Key} (hfresh : ¬ Has l k) {newc : Option Key} {d : Bool}
    (hc : ∀ c, newc = some c → Has l c) (hd : d = false ↔ ∃ c, newc = some c ∧ Att l c) :
    OK (l ++ [(k, newc, d)]) := by
  have hne : ∀ c, Has l c → c ≠ k := fun c hc hck => hfresh (hck ▸ hc)
  refine ⟨?_, ?_, ?_, ?_⟩
  · unfold Nodup
    simp only [List.map_append, List.map_cons, List.map_nil]
    rw [List.nodup_append]
    refine ⟨h.nodup, by simp, ?_⟩
    intro a ha b hb
    simp only [List.mem_singleton] at hb
    subst hb
    intro hab
    subst hab
    obtain ⟨t, ht, htk⟩ := List.mem_map.1 ha
    exact hfresh ⟨t, ht, htk⟩
  · exact List.mem_append_left _ h.root
  · intro t ht hroot
    simp only [List.mem_append, List.mem_singleton] at ht
    rcases ht with ht | rfl
    · have hloc := h.loc t ht hroot
      unfold LocalAt at hloc ⊢
      rw [hloc]
      constructor
      · rintro ⟨c, hc', hac⟩
        exact ⟨c, hc', (att_append_ne newc d (hne c hac.has)).2 hac⟩
      · rintro ⟨c, hc', hac⟩
        exact ⟨c, hc', (att_append_ne newc d (hne c (h.exist t ht c hc'))).1 hac⟩
    · unfold LocalAt
      show d = false ↔ ∃ c, newc = some c ∧ Att (l ++ [(k, newc, d)]) c
      rw [hd]
      constructor
      · rintro ⟨c, hc', hac⟩
        exact ⟨c, hc', (att_append_ne newc d (hne c hac.has)).2 hac⟩
      · rintro ⟨c, hc', hac⟩
        exact ⟨c, hc', (att_append_ne newc d (hne c (hc c hc'))).1 hac⟩
  · intro t ht c hc'
    simp only [List.mem_append, List.mem_singleton] at ht
    rcases ht with ht | rfl
    · obtain ⟨u, hu, huk⟩ := h.exist t ht c hc'
      exact ⟨u, List.mem_append_left _ hu, huk⟩
    · obtain ⟨u, hu, huk⟩ := hc c hc'
      exact ⟨u, List.mem_append_left _ hu, huk⟩

/-! ### Handing rows over to a static tree -/

theorem att_hand {l : List Tri} (tk : Key) (hs : List Key) (x : Key) : Att (hand tk hs l) x ↔ Att l x := by
  unfold Att hand
  constructor
  · rintro ⟨t, ht, hk, hd⟩
    obtain ⟨u, hu, rfl⟩ := List.mem_map.1 ht
    by_cases hc : hs.contains u.1 = true
    · rw [if_pos hc] at hk hd; exact ⟨u, hu, hk, hd⟩
    · rw [if_neg hc] at hk hd; exact ⟨u, hu, hk, hd⟩
  · rintro ⟨t, ht, hk, hd⟩
    by_cases hc : hs.contains t.1 = true
    · exact ⟨(t.1, some tk, t.2.2), List.mem_map.2 ⟨t, ht, by rw [if_pos hc]⟩, hk, hd⟩
    · exact ⟨t, List.mem_map.2 ⟨t, ht, by rw [if_neg hc]⟩, hk, hd⟩

/-- **Attached rows change hands**: the new creator `tk` is an attached row. -/
theorem ok_hand {l : List Tri} (h : OK l) {tk : Key} (htk : Att l tk) {hs : List Key}
    (hroot : ¬ rootKey ∈ hs) (hatt : ∀ t ∈ l, t.1 ∈ hs → t.2.2 = false) : OK (hand tk hs l) := by
  refine ⟨nodup_map _ (hand_key tk hs) h.nodup, ?_, ?_, ?_⟩
  · unfold RootOK hand
    refine List.mem_map.2 ⟨_, h.root, ?_⟩
    have : hs.contains rootKey = false := by
      cases hc : hs.contains rootKey with
      | false => rfl
      | true => exact absurd (List.contains_iff_mem.1 hc) hroot
    simp only [this, Bool.false_eq_true, if_false]
  · intro t' ht' hr
    unfold hand at ht'
    obtain ⟨t, ht, rfl⟩ := List.mem_map.1 ht'
    by_cases hc : hs.contains t.1 = true
    · rw [if_pos hc]
      unfold LocalAt
      simp only [Option.some.injEq, exists_eq_left']
      rw [att_hand]
      have := hatt t ht (List.contains_iff_mem.1 hc)
      simp only [this, true_iff]
      exact htk
    · rw [if_neg hc] at hr ⊢
      have hloc := h.loc t ht hr
      unfold LocalAt at hloc ⊢
      rw [hloc]
      constructor
      · rintro ⟨c, hc', hac⟩; exact ⟨c, hc', (att_hand tk hs c).2 hac⟩
      · rintro ⟨c, hc', hac⟩; exact ⟨c, hc', (att_hand tk hs c).1 hac⟩
  · intro t' ht' c hc
    unfold hand at ht'
    obtain ⟨t, ht, rfl⟩ := List.mem_map.1 ht'
    refine (has_map _ (hand_key tk hs) l c).2 ?_
    by_cases hcc : hs.contains t.1 = true
    · rw [if_pos hcc] at hc
      simp only [Option.some.injEq] at hc
      subst hc; exact htk.has
    · rw [if_neg hcc] at hc
      exact h.exist t ht c hc

/-! ### Removing detached rows without products -/

/-- **Deleting rows**: every deleted row is detached and has no product. -/
theorem ok_filter {l : List Tri} (h : OK l) (D : Key → Bool)
    (hdet : ∀ t ∈ l, D t.1 = true → t.2.2 = true)
    (hleaf : ∀ t ∈ l, D t.1 = true → ∀ u ∈ l, u.2.1 = some t.1 → u.1 = t.1) :
    OK (l.filter fun t => !D t.1) := by
  have hatt : ∀ x, Att (l.filter fun t => !D t.1) x ↔ Att l x := by
    intro x
    unfold Att
    constructor
    · rintro ⟨t, ht, hk, hd⟩
      exact ⟨t, (List.mem_filter.1 ht).1, hk, hd⟩
    · rintro ⟨t, ht, hk, hd⟩
      refine ⟨t, List.mem_filter.2 ⟨ht, ?_⟩, hk, hd⟩
      cases hD : D t.1 with
      | false => rfl
      | true =>
        have := hdet t ht hD
        rw [hd] at this; cases this
  refine ⟨?_, ?_, ?_, ?_⟩
  · unfold Nodup
    exact List.Nodup.sublist (List.Sublist.map _ List.filter_sublist) h.nodup
  · refine List.mem_filter.2 ⟨h.root, ?_⟩
    cases hD : D rootKey with
    | false => rfl
    | true =>
      have := hdet _ h.root hD
      cases this
  · intro t ht hr
    have hm := (List.mem_filter.1 ht).1
    have hloc := h.loc t hm hr
    unfold LocalAt at hloc ⊢
    rw [hloc]
    constructor
    · rintro ⟨c, hc', hac⟩; exact ⟨c, hc', (hatt c).2 hac⟩
    · rintro ⟨c, hc', hac⟩; exact ⟨c, hc', (hatt c).1 hac⟩
  · intro t ht c hc
    obtain ⟨hm, hDt⟩ := List.mem_filter.1 ht
    obtain ⟨u, hu, huk⟩ := h.exist t hm c hc
    cases hD : D u.1 with
    | false => exact ⟨u, List.mem_filter.2 ⟨hu, by simp [hD]⟩, huk⟩
    | true =>
      have := hleaf u hu hD t hm (by rw [huk]; exact hc)
      rw [← this] at hD
      rw [hD] at hDt
      cases hDt

end Sk
end StepupModel.K
