import StepupModel.K.Scheduler
/-!
# `_update_meta_safe`: the refresh of `_safe` / `_safe_ignoring_hold` is correct

Everything lives in `namespace StepupModel.K.MetaSafe`; the pipeline (`_update_meta`, `pop_next_job`)
and the reachable states are in `Lemmas/MetaSafeReach.lean`.  Imports the model only.

* The model, restated: `stepCreator` (the `LEFT JOIN creator_step` of the seed), `seedRow`, `prodRow`,
  `expandRows`, `allRows` (the rows of the CTE `trace`), `bestRow` (`MAX(depth)`), `writeBack`;
  `updateMetaSafe_eq` is the unfolding of `KState.updateMetaSafe` in these terms.
* Definitions: `SafeLocal`, `SafeNHLocal` (the local equations), `BothLocal`, `SafeConsistent` (all
  steps), `KeysUnique`, `NoSelfStep`, `AncOrSelf`, `Touched` (flagged or below a flagged step),
  `CacheInvSafe` (flag discipline, first form: every unflagged step is locally correct),
  `CacheInvSafeW` (weakest form: every step that is not `Touched` is locally correct), `SafeFrame`,
  `StepLink`, `StepCreatorWF` (acyclic step-creator links, ALL steps), `safeSpec`, `safeNHSpec`.
* `Derives`, `allRows_iff`: when the recursion ends its rows are exactly the derivable ones
  (`go_sound`, `go_complete`); `derives_unique`: one row per node and depth; `hasRow_iff_touched`.
* `writeBack_touched`: a recomputed row is locally correct afterwards whatever was cached (this is where
  `MAX(depth)` is used: the deepest row of a step is the child of the deepest row of its creator);
  `writeBack_untouched`: other rows and their creators keep their pairs.
* **`updateMetaSafe_correct_iff`**: the refresh establishes all local equations exactly when
  `CacheInvSafeW` held before (so that discipline is the weakest possible);
  **`updateMetaSafe_correct`**, `updateMetaSafe_correct'`, **`updateMetaSafe_flags`**,
  **`updateMetaSafe_frame`**, `updateMetaSafe_keeps`, `updateMetaSafe_nonstep`.
* `ups_bound` (a creator chain has at most `#rows` members), `safeSpec_local`,
  **`safeConsistent_unique`** (local equations + acyclic links: the cached pair is the specification),
  **`safeSpec_iff`** (the specification in words, fuel-free).
* **`updateMetaSafe_no_hang`** (termination within `#rows + 1` rounds), **`updateMetaSafe_spec`**,
  **`updateMetaSafe_eq_spec`** (incremental = from scratch).
* `structView` / `safeView`, `SameStruct` / `SameSafe`: what the specification / the local equations read.
* `eligible_safe`, **`eligible_creators`**: what `SELECT_NEXT_STEP` may rely on.
* Executable forms (`safeConsistentB`, `cacheInvSafeB`, `cacheInvSafeWB`, `rankedB`) and the repaired
  defect on the model: `updateMetaSafeMin` (`MIN(depth)`), `defectWitness`, `defectWitness_duplicates`,
  **`defectWitness_max`**, **`defectWitness_min`**.

`CacheInvSafeW` is a hypothesis throughout: that the writers of the model flag every step whose
local equation they may break (or an ancestor of it) is a separate invariant.
-/
namespace StepupModel.K.MetaSafe

/-- The step creator of a row, as the seed of `FILL_SAFE_UPDATE` joins it. -/
def stepCreator (s : KState) (n : Node) : Option Node :=
  match n.creator with
  | some c => if c.kind = Kind.step then s.find? c else none
  | none => none

def localSafe (s : KState) (n : Node) : Bool :=
  match stepCreator s n with
  | some c => c.safe && c.sstate.active && c.holding == 0
  | none => true

def localSafeNH (s : KState) (n : Node) : Bool :=
  match stepCreator s n with
  | some c => c.safeNH && c.sstate.active
  | none => true

def SafeLocal (s : KState) (n : Node) : Prop := n.safe = localSafe s n
def SafeNHLocal (s : KState) (n : Node) : Prop := n.safeNH = localSafeNH s n

def flagged (s : KState) : List Node := s.nodes.filter fun n => n.key.kind = .step ∧ n.checkSafe

def seedRow (s : KState) (n : Node) : SafeRow :=
  { key := n.key, safe := localSafe s n, chain := localSafe s n && n.sstate.active && n.holding == 0,
    safeNH := localSafeNH s n, chainNH := localSafeNH s n && n.sstate.active }

def prodRow (r : SafeRow) (p : Node) : SafeRow :=
  { key := p.key, safe := r.chain, chain := r.chain && p.sstate.active && p.holding == 0,
    safeNH := r.chainNH, chainNH := r.chainNH && p.sstate.active, depth := r.depth + 1 }

def stepProducts (s : KState) (k : Key) : List Node :=
  s.nodes.filter fun p => p.key.kind = .step ∧ p.creator = some k ∧ p.key ≠ k

def expandRows (s : KState) (rows : List SafeRow) : List SafeRow :=
  rows.flatMap fun r => (stepProducts s r.key).map (prodRow r)

def pick (best : Option SafeRow) (r : SafeRow) : Option SafeRow :=
  match best with
  | none => some r
  | some b => if b.depth < r.depth then some r else some b

def bestRow (rows : List SafeRow) (k : Key) : Option SafeRow :=
  (rows.filter (·.key = k)).foldl pick none

def setBest (rows : List SafeRow) (n : Node) : Node :=
  match bestRow rows n.key with
  | some r => { n with safe := r.safe, safeNH := r.safeNH }
  | none => n

def applyRows (rows : List SafeRow) (n : Node) : Node :=
  if rows.any (·.key = n.key) then setBest rows n else n

def clearFlag (n : Node) : Node :=
  if (decide (n.key.kind = Kind.step)) = true then { n with checkSafe := false } else n

def allRows (s : KState) : Option (List SafeRow) :=
  KState.updateMetaSafe.go (expandRows s) (s.nodes.length + 1) ((flagged s).map (seedRow s)) ((flagged s).map (seedRow s))

def writeBack (s : KState) (rows : List SafeRow) : KState :=
  { s with nodes := s.nodes.map fun n => clearFlag (applyRows rows n) }

theorem writeBack_eq (s : KState) (rows : List SafeRow) :
    (s.modifyWhere (fun n => rows.any (·.key = n.key)) (setBest rows)).modifyWhere (fun n => n.key.kind = .step)
      (fun n => { n with checkSafe := false }) = writeBack s rows := by
  unfold writeBack KState.modifyWhere
  simp only [List.map_map]
  rfl

theorem updateMetaSafe_eq (s : KState) :
    s.updateMetaSafe =
      if (flagged s).isEmpty then pure s
      else match allRows s with
        | none => throw .hang
        | some rows => pure (writeBack s rows) := by
  have h : s.updateMetaSafe =
      if (flagged s).isEmpty then pure s
      else match allRows s with
        | none => throw .hang
        | some rows => pure ((s.modifyWhere (fun n => rows.any (·.key = n.key)) (setBest rows)).modifyWhere (fun n => n.key.kind = .step)
      (fun n => { n with checkSafe := false })) := rfl
  rw [h]
  simp only [writeBack_eq]


/-! ## Basics -/

/-- One row per key. -/
def KeysUnique (s : KState) : Prop := (s.nodes.map (·.key)).Nodup

/-- No step is its own creator (the CHECK `creator != i` of the `node` table). -/
def NoSelfStep (s : KState) : Prop := ∀ n ∈ s.nodes, n.key.kind = .step → n.creator ≠ some n.key

theorem find_key {s : KState} {k : Key} {n : Node} (h : s.find? k = some n) : n.key = k := by
  have := List.find?_some h
  simpa using this

theorem find_mem {s : KState} {k : Key} {n : Node} (h : s.find? k = some n) : n ∈ s.nodes :=
  List.mem_of_find?_eq_some h

theorem find?_list_of_mem {l : List Node} (hn : (l.map (·.key)).Nodup) {n : Node} (h : n ∈ l) :
    l.find? (·.key = n.key) = some n := by
  induction l with
  | nil => cases h
  | cons a l ih =>
    simp only [List.map_cons, List.nodup_cons] at hn
    by_cases ha : a.key = n.key
    · rw [List.find?_cons_of_pos (by simpa using ha)]
      rcases List.mem_cons.1 h with rfl | h'
      · rfl
      · exact absurd (ha ▸ List.mem_map.2 ⟨n, h', rfl⟩) hn.1
    · rw [List.find?_cons_of_neg (by simpa using ha)]
      rcases List.mem_cons.1 h with rfl | h'
      · exact absurd rfl ha
      · exact ih hn.2 h'

theorem find?_of_mem {s : KState} (hk : KeysUnique s) {n : Node} (h : n ∈ s.nodes) : s.find? n.key = some n :=
  find?_list_of_mem hk h

theorem node_uniq {s : KState} (hk : KeysUnique s) {n m : Node} (hn : n ∈ s.nodes) (hm : m ∈ s.nodes)
    (h : n.key = m.key) : n = m := by
  have h1 := find?_of_mem hk hn
  have h2 := find?_of_mem hk hm
  rw [h, h2] at h1
  exact (Option.some.inj h1).symm

/-- What `stepCreator` returns: the row of the creator key, which is a step key. -/
theorem stepCreator_some {s : KState} {n c : Node} (h : stepCreator s n = some c) :
    c ∈ s.nodes ∧ c.key.kind = .step ∧ n.creator = some c.key := by
  unfold stepCreator at h
  cases hc : n.creator with
  | none => simp [hc] at h
  | some ck =>
    simp only [hc] at h
    by_cases hk : ck.kind = Kind.step
    · rw [if_pos hk] at h
      have := find_key h
      exact ⟨find_mem h, by rw [this]; exact hk, by rw [this]⟩
    · rw [if_neg hk] at h; cases h

theorem stepCreator_of {s : KState} (hk : KeysUnique s) {n c : Node} (hc : c ∈ s.nodes) (hs : c.key.kind = .step)
    (h : n.creator = some c.key) : stepCreator s n = some c := by
  unfold stepCreator
  simp only [h, hs, if_true]
  exact find?_of_mem hk hc

theorem mem_flagged {s : KState} {n : Node} :
    n ∈ flagged s ↔ n ∈ s.nodes ∧ n.key.kind = .step ∧ n.checkSafe = true := by
  unfold flagged
  simp only [List.mem_filter, decide_eq_true_eq]

theorem mem_stepProducts {s : KState} {k : Key} {p : Node} :
    p ∈ stepProducts s k ↔ p ∈ s.nodes ∧ p.key.kind = .step ∧ p.creator = some k ∧ p.key ≠ k := by
  unfold stepProducts
  simp only [List.mem_filter, decide_eq_true_eq]

theorem mem_expandRows {s : KState} {rows : List SafeRow} {q : SafeRow} :
    q ∈ expandRows s rows ↔ ∃ r ∈ rows, ∃ p ∈ stepProducts s r.key, q = prodRow r p := by
  unfold expandRows
  simp only [List.mem_flatMap, List.mem_map]
  constructor
  · rintro ⟨r, hr, p, hp, rfl⟩; exact ⟨r, hr, p, hp, rfl⟩
  · rintro ⟨r, hr, p, hp, rfl⟩; exact ⟨r, hr, p, hp, rfl⟩

/-! ## The rows of `trace`: exactly the derivable ones -/

/-- The rows of the recursive CTE `trace`: a seed per flagged step, a product row per row and step
product of its node. -/
inductive Derives (s : KState) : SafeRow → Prop
  | seed (n : Node) : n ∈ flagged s → Derives s (seedRow s n)
  | prod (r : SafeRow) (p : Node) : Derives s r → p ∈ stepProducts s r.key → Derives s (prodRow r p)

abbrev go (s : KState) := KState.updateMetaSafe.go (expandRows s)

theorem go_zero (s : KState) (fr acc : List SafeRow) :
    go s 0 fr acc = if fr.isEmpty then some acc else none := rfl

theorem go_succ (s : KState) (fuel : Nat) (fr acc : List SafeRow) :
    go s (fuel + 1) fr acc = if fr.isEmpty then some acc else go s fuel (expandRows s fr) (acc ++ expandRows s fr) := rfl

/-- Soundness of the walk: a property of the start rows that `expand` keeps holds of all rows. -/
theorem go_sound (s : KState) (P : SafeRow → Prop)
    (hP : ∀ r p, P r → p ∈ stepProducts s r.key → P (prodRow r p)) :
    ∀ (fuel : Nat) (fr acc rows : List SafeRow), (∀ r ∈ fr, P r) → (∀ r ∈ acc, P r) →
      go s fuel fr acc = some rows → ∀ r ∈ rows, P r := by
  intro fuel
  induction fuel with
  | zero =>
    intro fr acc rows _ hacc h
    rw [go_zero] at h
    split at h
    · cases h; exact hacc
    · cases h
  | succ fuel ih =>
    intro fr acc rows hfr hacc h
    rw [go_succ] at h
    split at h
    · cases h; exact hacc
    · have hnext : ∀ r ∈ expandRows s fr, P r := by
        intro q hq
        obtain ⟨r, hr, p, hp, rfl⟩ := mem_expandRows.1 hq
        exact hP r p (hfr r hr) hp
      refine ih _ _ rows hnext ?_ h
      intro r hr
      rcases List.mem_append.1 hr with h1 | h1
      · exact hacc r h1
      · exact hnext r h1

/-- Completeness of the walk: the result contains the accumulator and is closed under `expand`. -/
theorem go_complete (s : KState) :
    ∀ (fuel : Nat) (fr acc rows : List SafeRow),
      (∀ r ∈ acc, r ∈ fr ∨ ∀ p ∈ stepProducts s r.key, prodRow r p ∈ acc) →
      go s fuel fr acc = some rows →
      (∀ r ∈ acc, r ∈ rows) ∧ ∀ r ∈ rows, ∀ p ∈ stepProducts s r.key, prodRow r p ∈ rows := by
  intro fuel
  induction fuel with
  | zero =>
    intro fr acc rows hinv h
    rw [go_zero] at h
    split at h
    · rename_i he
      cases h
      have hnil : fr = [] := List.isEmpty_iff.1 he
      refine ⟨fun r hr => hr, fun r hr => ?_⟩
      rcases hinv r hr with h1 | h1
      · rw [hnil] at h1; cases h1
      · exact h1
    · cases h
  | succ fuel ih =>
    intro fr acc rows hinv h
    rw [go_succ] at h
    split at h
    · rename_i he
      cases h
      have hnil : fr = [] := List.isEmpty_iff.1 he
      refine ⟨fun r hr => hr, fun r hr => ?_⟩
      rcases hinv r hr with h1 | h1
      · rw [hnil] at h1; cases h1
      · exact h1
    · have hinv' : ∀ r ∈ acc ++ expandRows s fr, r ∈ expandRows s fr ∨
          ∀ p ∈ stepProducts s r.key, prodRow r p ∈ acc ++ expandRows s fr := by
        intro r hr
        rcases List.mem_append.1 hr with h1 | h1
        · rcases hinv r h1 with h2 | h2
          · exact .inr fun p hp => List.mem_append.2 (.inr (mem_expandRows.2 ⟨r, h2, p, hp, rfl⟩))
          · exact .inr fun p hp => List.mem_append.2 (.inl (h2 p hp))
        · exact .inl h1
      obtain ⟨h1, h2⟩ := ih _ _ rows hinv' h
      exact ⟨fun r hr => h1 r (List.mem_append.2 (.inl hr)), h2⟩

/-- **The rows of `trace`.**  When the recursion ends, its rows are exactly the derivable ones. -/
theorem allRows_iff {s : KState} {rows : List SafeRow} (h : allRows s = some rows) (r : SafeRow) :
    r ∈ rows ↔ Derives s r := by
  unfold allRows at h
  constructor
  · intro hr
    refine go_sound s (Derives s) (fun r p hd hp => Derives.prod r p hd hp) _ _ _ rows ?_ ?_ h r hr
    · intro q hq
      obtain ⟨n, hn, rfl⟩ := List.mem_map.1 hq
      exact Derives.seed n hn
    · intro q hq
      obtain ⟨n, hn, rfl⟩ := List.mem_map.1 hq
      exact Derives.seed n hn
  · intro hd
    obtain ⟨h1, h2⟩ := go_complete s _ _ _ rows (fun r hr => .inl hr) h
    induction hd with
    | seed n hn => exact h1 _ (List.mem_map.2 ⟨n, hn, rfl⟩)
    | prod r p _ hp ih => exact h2 r ih p hp

/-! ## `MAX(depth)` -/

theorem foldl_pick_some (l : List SafeRow) (b0 : SafeRow) :
    ∃ b, l.foldl pick (some b0) = some b ∧ (b = b0 ∨ b ∈ l) ∧ b0.depth ≤ b.depth ∧ ∀ r ∈ l, r.depth ≤ b.depth := by
  induction l generalizing b0 with
  | nil => exact ⟨b0, rfl, .inl rfl, Nat.le_refl _, fun r hr => by cases hr⟩
  | cons a l ih =>
    simp only [List.foldl_cons, pick]
    by_cases h : b0.depth < a.depth
    · rw [if_pos h]
      obtain ⟨b, hb, hm, hd, hall⟩ := ih a
      refine ⟨b, hb, ?_, by omega, ?_⟩
      · rcases hm with rfl | hm
        · exact .inr List.mem_cons_self
        · exact .inr (List.mem_cons_of_mem _ hm)
      · intro r hr
        rcases List.mem_cons.1 hr with rfl | hr
        · exact hd
        · exact hall r hr
    · rw [if_neg h]
      obtain ⟨b, hb, hm, hd, hall⟩ := ih b0
      refine ⟨b, hb, ?_, hd, ?_⟩
      · rcases hm with rfl | hm
        · exact .inl rfl
        · exact .inr (List.mem_cons_of_mem _ hm)
      · intro r hr
        rcases List.mem_cons.1 hr with rfl | hr
        · omega
        · exact hall r hr

/-- No row for the key: nothing is selected. -/
theorem bestRow_none {rows : List SafeRow} {k : Key} (h : ∀ r ∈ rows, r.key ≠ k) : bestRow rows k = none := by
  unfold bestRow
  have : rows.filter (fun r => decide (r.key = k)) = [] := by
    rw [List.filter_eq_nil_iff]
    intro r hr
    simpa using h r hr
  rw [this]; rfl

/-- Some row for the key: the selected one is a row for the key of maximal depth. -/
theorem bestRow_some {rows : List SafeRow} {k : Key} {r0 : SafeRow} (h0 : r0 ∈ rows) (hk0 : r0.key = k) :
    ∃ b, bestRow rows k = some b ∧ b ∈ rows ∧ b.key = k ∧ ∀ r ∈ rows, r.key = k → r.depth ≤ b.depth := by
  unfold bestRow
  have hmem : ∀ r, r ∈ rows.filter (fun r => decide (r.key = k)) ↔ r ∈ rows ∧ r.key = k := by
    intro r; simp only [List.mem_filter, decide_eq_true_eq]
  cases hl : rows.filter (fun r => decide (r.key = k)) with
  | nil =>
    have := (hmem r0).2 ⟨h0, hk0⟩
    rw [hl] at this; cases this
  | cons a l =>
    simp only [List.foldl_cons, pick]
    obtain ⟨b, hb, hm, hd, hall⟩ := foldl_pick_some l a
    have hb' : b ∈ a :: l := by
      rcases hm with rfl | hm
      · exact List.mem_cons_self
      · exact List.mem_cons_of_mem _ hm
    rw [← hl] at hb'
    refine ⟨b, hb, ((hmem b).1 hb').1, ((hmem b).1 hb').2, ?_⟩
    intro r hr hrk
    have : r ∈ a :: l := by rw [← hl]; exact (hmem r).2 ⟨hr, hrk⟩
    rcases List.mem_cons.1 this with rfl | h1
    · exact hd
    · exact hall r h1

theorem bestRow_mem {rows : List SafeRow} {k : Key} {b : SafeRow} (h : bestRow rows k = some b) :
    b ∈ rows ∧ b.key = k ∧ ∀ r ∈ rows, r.key = k → r.depth ≤ b.depth := by
  by_cases hex : ∃ r ∈ rows, r.key = k
  · obtain ⟨r0, h0, hk0⟩ := hex
    obtain ⟨b', hb', h1, h2, h3⟩ := bestRow_some h0 hk0
    rw [h] at hb'
    cases hb'
    exact ⟨h1, h2, h3⟩
  · have := bestRow_none (rows := rows) (k := k) (fun r hr hk => hex ⟨r, hr, hk⟩)
    rw [this] at h; cases h

/-! ## What a derivable row says -/

theorem seedRow_key (s : KState) (n : Node) : (seedRow s n).key = n.key := rfl
theorem seedRow_depth (s : KState) (n : Node) : (seedRow s n).depth = 0 := rfl
theorem prodRow_key (r : SafeRow) (p : Node) : (prodRow r p).key = p.key := rfl
theorem prodRow_depth (r : SafeRow) (p : Node) : (prodRow r p).depth = r.depth + 1 := rfl

/-- A derivable row belongs to a step row of the table, and its `chain` values are its `safe`
values with the own state (and hold counter) of that step folded in. -/
theorem derives_node {s : KState} {r : SafeRow} (h : Derives s r) :
    ∃ c ∈ s.nodes, c.key = r.key ∧ c.key.kind = .step ∧
      r.chain = (r.safe && c.sstate.active && c.holding == 0) ∧ r.chainNH = (r.safeNH && c.sstate.active) := by
  cases h with
  | seed n hn =>
    obtain ⟨h1, h2, _⟩ := mem_flagged.1 hn
    exact ⟨n, h1, rfl, h2, rfl, rfl⟩
  | prod r p _ hp =>
    obtain ⟨h1, h2, _⟩ := mem_stepProducts.1 hp
    exact ⟨p, h1, rfl, h2, rfl, rfl⟩

/-- One row per node and depth: the derivation through a given number of creator links is unique. -/
theorem derives_unique {s : KState} (hk : KeysUnique s) {r1 r2 : SafeRow} (h1 : Derives s r1) (h2 : Derives s r2)
    (hkey : r1.key = r2.key) (hd : r1.depth = r2.depth) : r1 = r2 := by
  induction h1 generalizing r2 with
  | seed n hn =>
    cases h2 with
    | seed m hm =>
      have : n = m := node_uniq hk (mem_flagged.1 hn).1 (mem_flagged.1 hm).1 hkey
      rw [this]
    | prod r p _ _ => simp only [seedRow_depth, prodRow_depth] at hd; omega
  | prod r p hr hp ih =>
    cases h2 with
    | seed m hm => simp only [seedRow_depth, prodRow_depth] at hd; omega
    | prod r' p' hr' hp' =>
      obtain ⟨a1, _, a3, _⟩ := mem_stepProducts.1 hp
      obtain ⟨b1, _, b3, _⟩ := mem_stepProducts.1 hp'
      have hpp : p = p' := node_uniq hk a1 b1 hkey
      subst hpp
      rw [a3] at b3
      have hkk : r.key = r'.key := Option.some.inj b3
      simp only [prodRow_depth] at hd
      have := ih hr' hkk (by omega)
      rw [this]

/-! ## The new rows -/

/-- The row written by one refresh. -/
def G (rows : List SafeRow) (n : Node) : Node := clearFlag (applyRows rows n)

theorem setBest_key (rows : List SafeRow) (n : Node) : (setBest rows n).key = n.key := by
  unfold setBest; split <;> rfl

theorem applyRows_key (rows : List SafeRow) (n : Node) : (applyRows rows n).key = n.key := by
  unfold applyRows; split
  · exact setBest_key rows n
  · rfl

theorem clearFlag_key (n : Node) : (clearFlag n).key = n.key := by
  unfold clearFlag; split <;> rfl

theorem G_key (rows : List SafeRow) (n : Node) : (G rows n).key = n.key := by
  unfold G; rw [clearFlag_key, applyRows_key]

theorem clearFlag_creator (n : Node) : (clearFlag n).creator = n.creator := by
  unfold clearFlag; split <;> rfl
theorem clearFlag_safe (n : Node) : (clearFlag n).safe = n.safe := by
  unfold clearFlag; split <;> rfl
theorem clearFlag_safeNH (n : Node) : (clearFlag n).safeNH = n.safeNH := by
  unfold clearFlag; split <;> rfl
theorem clearFlag_sstate (n : Node) : (clearFlag n).sstate = n.sstate := by
  unfold clearFlag; split <;> rfl
theorem clearFlag_holding (n : Node) : (clearFlag n).holding = n.holding := by
  unfold clearFlag; split <;> rfl

theorem setBest_creator (rows : List SafeRow) (n : Node) : (setBest rows n).creator = n.creator := by
  unfold setBest; split <;> rfl
theorem setBest_sstate (rows : List SafeRow) (n : Node) : (setBest rows n).sstate = n.sstate := by
  unfold setBest; split <;> rfl
theorem setBest_holding (rows : List SafeRow) (n : Node) : (setBest rows n).holding = n.holding := by
  unfold setBest; split <;> rfl

theorem applyRows_creator (rows : List SafeRow) (n : Node) : (applyRows rows n).creator = n.creator := by
  unfold applyRows; split
  · exact setBest_creator rows n
  · rfl
theorem applyRows_sstate (rows : List SafeRow) (n : Node) : (applyRows rows n).sstate = n.sstate := by
  unfold applyRows; split
  · exact setBest_sstate rows n
  · rfl
theorem applyRows_holding (rows : List SafeRow) (n : Node) : (applyRows rows n).holding = n.holding := by
  unfold applyRows; split
  · exact setBest_holding rows n
  · rfl

theorem G_creator (rows : List SafeRow) (n : Node) : (G rows n).creator = n.creator := by
  unfold G; rw [clearFlag_creator, applyRows_creator]
theorem G_sstate (rows : List SafeRow) (n : Node) : (G rows n).sstate = n.sstate := by
  unfold G; rw [clearFlag_sstate, applyRows_sstate]
theorem G_holding (rows : List SafeRow) (n : Node) : (G rows n).holding = n.holding := by
  unfold G; rw [clearFlag_holding, applyRows_holding]
theorem G_safe (rows : List SafeRow) (n : Node) : (G rows n).safe = (applyRows rows n).safe := by
  unfold G; rw [clearFlag_safe]
theorem G_safeNH (rows : List SafeRow) (n : Node) : (G rows n).safeNH = (applyRows rows n).safeNH := by
  unfold G; rw [clearFlag_safeNH]

/-- A node without a row keeps its row. -/
theorem applyRows_norow {rows : List SafeRow} {n : Node} (h : ∀ r ∈ rows, r.key ≠ n.key) : applyRows rows n = n := by
  unfold applyRows
  have : (rows.any fun r => decide (r.key = n.key)) = false := by
    rw [List.any_eq_false]
    intro r hr
    simpa using h r hr
  rw [this]; rfl

/-- A node with a row gets the values of the deepest one. -/
theorem applyRows_row {rows : List SafeRow} {n : Node} {r0 : SafeRow} (h0 : r0 ∈ rows) (hk0 : r0.key = n.key) :
    ∃ b, b ∈ rows ∧ b.key = n.key ∧ (∀ r ∈ rows, r.key = n.key → r.depth ≤ b.depth) ∧
      (applyRows rows n).safe = b.safe ∧ (applyRows rows n).safeNH = b.safeNH := by
  obtain ⟨b, hb, h1, h2, h3⟩ := bestRow_some h0 hk0
  refine ⟨b, h1, h2, h3, ?_⟩
  unfold applyRows
  have : (rows.any fun r => decide (r.key = n.key)) = true := by
    rw [List.any_eq_true]
    exact ⟨r0, h0, by simpa using hk0⟩
  rw [this]
  simp only [if_true]
  unfold setBest
  rw [hb]
  exact ⟨rfl, rfl⟩

theorem find?_map_key (l : List Node) (g : Node → Node) (hg : ∀ n, (g n).key = n.key) (k : Key) :
    (l.map g).find? (fun n => decide (n.key = k)) = (l.find? (fun n => decide (n.key = k))).map g := by
  induction l with
  | nil => rfl
  | cons a l ih =>
    simp only [List.map_cons, List.find?_cons, hg]
    split
    · rfl
    · exact ih

theorem find?_writeBack (s : KState) (rows : List SafeRow) (k : Key) :
    (writeBack s rows).find? k = (s.find? k).map (G rows) := by
  unfold KState.find? writeBack
  exact find?_map_key s.nodes (G rows) (G_key rows) k

theorem stepCreator_writeBack (s : KState) (rows : List SafeRow) (n : Node) :
    stepCreator (writeBack s rows) (G rows n) = (stepCreator s n).map (G rows) := by
  unfold stepCreator
  rw [G_creator]
  cases n.creator with
  | none => rfl
  | some c =>
    simp only
    split
    · exact find?_writeBack s rows c
    · rfl

theorem localSafe_writeBack (s : KState) (rows : List SafeRow) (n : Node) :
    localSafe (writeBack s rows) (G rows n) =
      match stepCreator s n with
      | some c => (applyRows rows c).safe && c.sstate.active && c.holding == 0
      | none => true := by
  unfold localSafe
  rw [stepCreator_writeBack]
  cases stepCreator s n with
  | none => rfl
  | some c => simp only [Option.map_some, G_safe, G_sstate, G_holding]

theorem localSafeNH_writeBack (s : KState) (rows : List SafeRow) (n : Node) :
    localSafeNH (writeBack s rows) (G rows n) =
      match stepCreator s n with
      | some c => (applyRows rows c).safeNH && c.sstate.active
      | none => true := by
  unfold localSafeNH
  rw [stepCreator_writeBack]
  cases stepCreator s n with
  | none => rfl
  | some c => simp only [Option.map_some, G_safeNH, G_sstate]

/-! ## Which rows a refresh recomputes -/

/-- `a` is `n` itself or one of its recursive step creators. -/
inductive AncOrSelf (s : KState) : Node → Node → Prop
  | refl (n : Node) : AncOrSelf s n n
  | up {a c n : Node} : stepCreator s n = some c → AncOrSelf s a c → AncOrSelf s a n

/-- The step is flagged or below a flagged step: exactly the rows that `FILL_SAFE_UPDATE` lists. -/
def Touched (s : KState) (n : Node) : Prop := ∃ a ∈ flagged s, AncOrSelf s a n

/-- `trace` has a row for the node. -/
def HasRow (s : KState) (n : Node) : Prop := ∃ r, Derives s r ∧ r.key = n.key

theorem mem_products_of_creator {s : KState} (hs : NoSelfStep s) {n c : Node} (hn : n ∈ s.nodes)
    (hst : n.key.kind = .step) (hc : stepCreator s n = some c) : n ∈ stepProducts s c.key := by
  obtain ⟨_, _, h3⟩ := stepCreator_some hc
  refine mem_stepProducts.2 ⟨hn, hst, h3, ?_⟩
  intro he
  exact hs n hn hst (by rw [h3, he])

theorem hasRow_of_creator {s : KState} (hs : NoSelfStep s) {n c : Node} (hn : n ∈ s.nodes)
    (hst : n.key.kind = .step) (hc : stepCreator s n = some c) (h : HasRow s c) : HasRow s n := by
  obtain ⟨r, hr, hk⟩ := h
  have hp := mem_products_of_creator hs hn hst hc
  rw [← hk] at hp
  exact ⟨prodRow r n, Derives.prod r n hr hp, rfl⟩

theorem touched_of_hasRow {s : KState} (hk : KeysUnique s) {r : SafeRow} (h : Derives s r) :
    ∀ n ∈ s.nodes, n.key = r.key → Touched s n := by
  induction h with
  | seed m hm =>
    intro n hn hkey
    have : n = m := node_uniq hk hn (mem_flagged.1 hm).1 hkey
    rw [this]
    exact ⟨m, hm, AncOrSelf.refl m⟩
  | prod r p hr hp ih =>
    intro n hn hkey
    obtain ⟨p1, _, p3, _⟩ := mem_stepProducts.1 hp
    have : n = p := node_uniq hk hn p1 hkey
    rw [this]
    obtain ⟨c, hc, hck, hcs, _⟩ := derives_node hr
    obtain ⟨a, ha, hanc⟩ := ih c hc hck
    have hsc : stepCreator s p = some c := stepCreator_of hk hc hcs (by rw [hck]; exact p3)
    exact ⟨a, ha, AncOrSelf.up hsc hanc⟩

theorem hasRow_of_anc {s : KState} (hs : NoSelfStep s) {a n : Node} (h : AncOrSelf s a n) (ha : a ∈ flagged s)
    (hn : n ∈ s.nodes) (hst : n.key.kind = .step) : HasRow s n := by
  induction h with
  | refl => exact ⟨seedRow s _, Derives.seed _ ha, rfl⟩
  | up hc _ ih =>
    obtain ⟨c1, c2, _⟩ := stepCreator_some hc
    exact hasRow_of_creator hs hn hst hc (ih c1 c2)

/-- `trace` has a row for a step exactly when the step is flagged or below a flagged step. -/
theorem hasRow_iff_touched {s : KState} (hk : KeysUnique s) (hs : NoSelfStep s) {n : Node} (hn : n ∈ s.nodes)
    (hst : n.key.kind = .step) : HasRow s n ↔ Touched s n := by
  constructor
  · rintro ⟨r, hr, hkey⟩
    exact touched_of_hasRow hk hr n hn hkey.symm
  · rintro ⟨a, ha, hanc⟩
    exact hasRow_of_anc hs hanc ha hn hst

/-! ## The flag discipline -/

/-- Both local equations of one step. -/
def BothLocal (s : KState) (n : Node) : Prop := SafeLocal s n ∧ SafeNHLocal s n

/-- Every step satisfies its local equations. -/
def SafeConsistent (s : KState) : Prop := ∀ n ∈ s.nodes, n.key.kind = .step → BothLocal s n

/-- The flag discipline, first form: a step whose cached pair may be stale is flagged. -/
def CacheInvSafe (s : KState) : Prop :=
  ∀ n ∈ s.nodes, n.key.kind = .step → n.checkSafe = false → BothLocal s n

/-- The flag discipline, weakest form: a step whose cached pair may be stale is flagged or below a
flagged step (the cached pair of a step below a flagged one is never read). -/
def CacheInvSafeW (s : KState) : Prop :=
  ∀ n ∈ s.nodes, n.key.kind = .step → ¬ Touched s n → BothLocal s n

theorem CacheInvSafe.weak {s : KState} (h : CacheInvSafe s) : CacheInvSafeW s := by
  intro n hn hst ht
  refine h n hn hst ?_
  cases hf : n.checkSafe with
  | false => rfl
  | true => exact absurd ⟨n, mem_flagged.2 ⟨hn, hst, hf⟩, AncOrSelf.refl n⟩ ht

/-! ## One refresh, row by row -/

theorem bothLocal_writeBack_iff (s : KState) (rows : List SafeRow) (n : Node) :
    BothLocal (writeBack s rows) (G rows n) ↔
      ((applyRows rows n).safe = (match stepCreator s n with
        | some c => (applyRows rows c).safe && c.sstate.active && c.holding == 0
        | none => true)) ∧
      ((applyRows rows n).safeNH = (match stepCreator s n with
        | some c => (applyRows rows c).safeNH && c.sstate.active
        | none => true)) := by
  unfold BothLocal SafeLocal SafeNHLocal
  rw [localSafe_writeBack, localSafeNH_writeBack, G_safe, G_safeNH]

/-- A row that is recomputed satisfies its local equations afterwards, whatever was cached. -/
theorem writeBack_touched {s : KState} (hk : KeysUnique s) (hs : NoSelfStep s) {rows : List SafeRow}
    (hrows : ∀ r, r ∈ rows ↔ Derives s r) {n : Node} (hn : n ∈ s.nodes) (hst : n.key.kind = .step)
    (h : HasRow s n) : BothLocal (writeBack s rows) (G rows n) := by
  rw [bothLocal_writeBack_iff]
  obtain ⟨r0, hr0, hk0⟩ := h
  obtain ⟨b, hb, hbk, hmax, e1, e2⟩ := applyRows_row ((hrows r0).2 hr0) hk0
  rw [e1, e2]
  have hdb := (hrows b).1 hb
  cases hdb with
  | seed m hm =>
    have hmn : m = n := node_uniq hk (mem_flagged.1 hm).1 hn hbk
    subst hmn
    cases hc : stepCreator s m with
    | none => simp only [seedRow, localSafe, localSafeNH, hc, and_self]
    | some c =>
      have hno : ∀ r ∈ rows, r.key ≠ c.key := by
        intro r hr hrk
        have hp := mem_products_of_creator hs hn hst hc
        rw [← hrk] at hp
        have hd := Derives.prod r m ((hrows r).1 hr) hp
        have := hmax _ ((hrows _).2 hd) rfl
        simp only [prodRow_depth, seedRow_depth] at this
        omega
      simp only [applyRows_norow hno, seedRow, localSafe, localSafeNH, hc, and_self]
  | prod r p hr hp =>
    obtain ⟨p1, _, p3, _⟩ := mem_stepProducts.1 hp
    have hpn : p = n := node_uniq hk p1 hn hbk
    subst hpn
    obtain ⟨c, hc, hck, hcs, hch, hchNH⟩ := derives_node hr
    have hsc : stepCreator s p = some c := stepCreator_of hk hc hcs (by rw [hck]; exact p3)
    obtain ⟨bc, hbc, hbck, hmaxc, f1, f2⟩ := applyRows_row ((hrows r).2 hr) hck.symm
    have hdbc := (hrows bc).1 hbc
    have hp' : p ∈ stepProducts s bc.key := by rw [hbck, hck]; exact hp
    have hd := Derives.prod bc p hdbc hp'
    have h1 := hmax _ ((hrows _).2 hd) rfl
    have h2 := hmaxc r ((hrows r).2 hr) hck.symm
    simp only [prodRow_depth] at h1
    have heq : bc = r := derives_unique hk hdbc hr (by rw [hbck, hck]) (by omega)
    subst heq
    rw [hsc]
    simp only [f1, f2]
    exact ⟨hch, hchNH⟩

/-- A row that is not recomputed and its creator keep their cached pairs. -/
theorem writeBack_untouched {s : KState} (hs : NoSelfStep s) {rows : List SafeRow}
    (hrows : ∀ r, r ∈ rows ↔ Derives s r) {n : Node} (hn : n ∈ s.nodes) (hst : n.key.kind = .step)
    (h : ¬ HasRow s n) : (BothLocal (writeBack s rows) (G rows n) ↔ BothLocal s n) := by
  rw [bothLocal_writeBack_iff]
  have hno : ∀ r ∈ rows, r.key ≠ n.key := fun r hr hrk => h ⟨r, (hrows r).1 hr, hrk⟩
  rw [applyRows_norow hno]
  unfold BothLocal SafeLocal SafeNHLocal localSafe localSafeNH
  cases hc : stepCreator s n with
  | none => exact Iff.rfl
  | some c =>
    have hnoc : ∀ r ∈ rows, r.key ≠ c.key := by
      intro r hr hrk
      exact h (hasRow_of_creator hs hn hst hc ⟨r, (hrows r).1 hr, hrk⟩)
    simp only [applyRows_norow hnoc]

/-! ## `_update_meta_safe` -/

theorem mem_writeBack {s : KState} {rows : List SafeRow} {n' : Node} :
    n' ∈ (writeBack s rows).nodes ↔ ∃ n ∈ s.nodes, n' = G rows n := by
  unfold writeBack
  simp only [List.mem_map]
  constructor
  · rintro ⟨n, hn, rfl⟩; exact ⟨n, hn, rfl⟩
  · rintro ⟨n, hn, rfl⟩; exact ⟨n, hn, rfl⟩

/-- The two ways `_update_meta_safe` ends without an error: nothing is flagged and nothing is
written, or the rows of `trace` are written back. -/
theorem updateMetaSafe_cases {s s' : KState} (h : s.updateMetaSafe = .ok s') :
    (flagged s = [] ∧ s' = s) ∨ (∃ rows, allRows s = some rows ∧ s' = writeBack s rows) := by
  rw [updateMetaSafe_eq] at h
  split at h
  · rename_i he
    left
    refine ⟨List.isEmpty_iff.1 he, ?_⟩
    cases h; rfl
  · split at h
    · cases h
    · rename_i rows hr
      right
      refine ⟨rows, hr, ?_⟩
      cases h; rfl

/-- The row without the three columns that `_update_meta_safe` writes. -/
def eraseSafe (n : Node) : Node := { n with safe := false, safeNH := false, checkSafe := false }

/-- `s'` differs from `s` at most in `_safe`, `_safe_ignoring_hold`, `_check_safe` of its rows (same
rows in the same order, same dependency table, same deletion queue). -/
def SafeFrame (s s' : KState) : Prop :=
  s'.deps = s.deps ∧ s'.toBeDeleted = s.toBeDeleted ∧ s'.nodes.map eraseSafe = s.nodes.map eraseSafe

theorem SafeFrame.refl (s : KState) : SafeFrame s s := ⟨rfl, rfl, rfl⟩

theorem eraseSafe_G (rows : List SafeRow) (n : Node) : eraseSafe (G rows n) = eraseSafe n := by
  unfold G clearFlag applyRows setBest eraseSafe
  split <;> split <;> (try split) <;> rfl

theorem frame_writeBack (s : KState) (rows : List SafeRow) : SafeFrame s (writeBack s rows) := by
  refine ⟨rfl, rfl, ?_⟩
  unfold writeBack
  simp only [List.map_map]
  apply List.map_congr_left
  intro n _
  exact eraseSafe_G rows n

/-- **Frame.**  `_update_meta_safe` changes nothing but the three columns it owns. -/
theorem updateMetaSafe_frame {s s' : KState} (h : s.updateMetaSafe = .ok s') : SafeFrame s s' := by
  rcases updateMetaSafe_cases h with ⟨_, rfl⟩ | ⟨rows, _, rfl⟩
  · exact SafeFrame.refl _
  · exact frame_writeBack s rows

theorem G_checkSafe {rows : List SafeRow} {n : Node} (h : n.key.kind = .step) : (G rows n).checkSafe = false := by
  unfold G clearFlag
  rw [applyRows_key]
  simp only [h, decide_true, if_true]

/-- **Flags.**  After `_update_meta_safe` no step is flagged. -/
theorem updateMetaSafe_flags {s s' : KState} (h : s.updateMetaSafe = .ok s') :
    ∀ n ∈ s'.nodes, n.key.kind = .step → n.checkSafe = false := by
  rcases updateMetaSafe_cases h with ⟨he, rfl⟩ | ⟨rows, _, rfl⟩
  · intro n hn hst
    cases hf : n.checkSafe with
    | false => rfl
    | true =>
      have := mem_flagged.2 ⟨hn, hst, hf⟩
      rw [he] at this; cases this
  · intro n' hn' hst
    obtain ⟨n, hn, rfl⟩ := mem_writeBack.1 hn'
    rw [G_key] at hst
    exact G_checkSafe hst

/-- **Correctness, with the weakest discipline.**  On a table with one row per key and no step that is
its own creator, a refresh that ends establishes both local equations of every step exactly when the
cached pairs of the steps it does not recompute (not flagged, not below a flagged step) satisfied
theirs before. -/
theorem updateMetaSafe_correct_iff {s s' : KState} (hk : KeysUnique s) (hs : NoSelfStep s)
    (h : s.updateMetaSafe = .ok s') : SafeConsistent s' ↔ CacheInvSafeW s := by
  rcases updateMetaSafe_cases h with ⟨he, rfl⟩ | ⟨rows, hr, rfl⟩
  · constructor
    · intro hc n hn hst _; exact hc n hn hst
    · intro hc n hn hst
      refine hc n hn hst ?_
      rintro ⟨a, ha, _⟩
      rw [he] at ha; cases ha
  · have hrows := allRows_iff hr
    constructor
    · intro hc n hn hst ht
      have hnr : ¬ HasRow s n := fun hh => ht ((hasRow_iff_touched hk hs hn hst).1 hh)
      have := hc (G rows n) (mem_writeBack.2 ⟨n, hn, rfl⟩) (by rw [G_key]; exact hst)
      exact (writeBack_untouched hs hrows hn hst hnr).1 this
    · intro hc n' hn' hst
      obtain ⟨n, hn, rfl⟩ := mem_writeBack.1 hn'
      rw [G_key] at hst
      by_cases hh : HasRow s n
      · exact writeBack_touched hk hs hrows hn hst hh
      · have ht : ¬ Touched s n := fun ht => hh ((hasRow_iff_touched hk hs hn hst).2 ht)
        exact (writeBack_untouched hs hrows hn hst hh).2 (hc n hn hst ht)

/-- **Correctness.**  Under the flag discipline (weakest form) every step satisfies both local
equations after the refresh. -/
theorem updateMetaSafe_correct {s s' : KState} (hk : KeysUnique s) (hs : NoSelfStep s) (hc : CacheInvSafeW s)
    (h : s.updateMetaSafe = .ok s') : SafeConsistent s' :=
  (updateMetaSafe_correct_iff hk hs h).2 hc

/-- The same under the first form of the discipline (every unflagged step is locally correct). -/
theorem updateMetaSafe_correct' {s s' : KState} (hk : KeysUnique s) (hs : NoSelfStep s) (hc : CacheInvSafe s)
    (h : s.updateMetaSafe = .ok s') : SafeConsistent s' :=
  updateMetaSafe_correct hk hs hc.weak h

/-- A step that is neither flagged nor below a flagged step keeps its cached pair. -/
theorem updateMetaSafe_keeps {s s' : KState} (hk : KeysUnique s) (hs : NoSelfStep s)
    (h : s.updateMetaSafe = .ok s') {n : Node} (hn : n ∈ s.nodes) (hst : n.key.kind = .step) (ht : ¬ Touched s n) :
    ∃ n' ∈ s'.nodes, n'.key = n.key ∧ n'.safe = n.safe ∧ n'.safeNH = n.safeNH := by
  rcases updateMetaSafe_cases h with ⟨_, rfl⟩ | ⟨rows, hr, rfl⟩
  · exact ⟨n, hn, rfl, rfl, rfl⟩
  · have hrows := allRows_iff hr
    refine ⟨G rows n, mem_writeBack.2 ⟨n, hn, rfl⟩, G_key rows n, ?_⟩
    have hno : ∀ r ∈ rows, r.key ≠ n.key := fun r hr' hrk =>
      ht ((hasRow_iff_touched hk hs hn hst).1 ⟨r, (hrows r).1 hr', hrk⟩)
    rw [G_safe, G_safeNH, applyRows_norow hno]
    exact ⟨rfl, rfl⟩

/-- Rows that are not steps are not written at all. -/
theorem updateMetaSafe_nonstep {s s' : KState} (h : s.updateMetaSafe = .ok s') {n : Node}
    (hn : n ∈ s.nodes) (hst : n.key.kind ≠ .step) : n ∈ s'.nodes := by
  rcases updateMetaSafe_cases h with ⟨_, rfl⟩ | ⟨rows, hr, rfl⟩
  · exact hn
  · have hrows := allRows_iff hr
    have hno : ∀ r ∈ rows, r.key ≠ n.key := by
      intro r hr' hrk
      obtain ⟨c, _, hck, hcs, _⟩ := derives_node ((hrows r).1 hr')
      rw [hck, hrk] at hcs
      exact hst hcs
    refine mem_writeBack.2 ⟨n, hn, ?_⟩
    unfold G clearFlag
    rw [applyRows_norow hno]
    simp only [hst, decide_false, Bool.false_eq_true, if_false]

/-! ## Specification from scratch, acyclic creator links -/

/-- `c` is the step creator of the step `k`. -/
def StepLink (s : KState) (c k : Key) : Prop :=
  ∃ n cn, n ∈ s.nodes ∧ n.key = k ∧ k.kind = .step ∧ stepCreator s n = some cn ∧ cn.key = c

/-- The step-creates-step links have no cycle (ALL steps, attached or not). -/
def StepCreatorWF (s : KState) : Prop := WellFounded (StepLink s)

theorem wf_irrefl {α : Type} {r : α → α → Prop} (h : WellFounded r) (a : α) : ¬ r a a := by
  refine h.induction (C := fun x => ¬ r x x) a ?_
  intro x ih hxx
  exact ih x hxx hxx

theorem noSelfStep_of_wf {s : KState} (h : StepCreatorWF s) : NoSelfStep s := by
  intro n hn hst hc
  cases hf : s.find? n.key with
  | none =>
    have := List.find?_eq_none.1 hf n hn
    simp at this
  | some n' =>
    have hsc : stepCreator s n = some n' := by
      unfold stepCreator
      simp only [hc, hst, if_true]
      exact hf
    exact wf_irrefl h n.key ⟨n, n', hn, rfl, hst, hsc, find_key hf⟩

/-- The first `fuel` recursive step creators of a row, nearest first. -/
def ups (s : KState) : Nat → Node → List Node
  | 0, _ => []
  | fuel + 1, n =>
    match stepCreator s n with
    | some c => c :: ups s fuel c
    | none => []

/-- `_safe` from scratch: walk up the creator links. -/
def safeSpecAux (s : KState) : Nat → Node → Bool
  | 0, _ => true
  | fuel + 1, n =>
    match stepCreator s n with
    | some c => safeSpecAux s fuel c && c.sstate.active && c.holding == 0
    | none => true

/-- `_safe_ignoring_hold` from scratch. -/
def safeNHSpecAux (s : KState) : Nat → Node → Bool
  | 0, _ => true
  | fuel + 1, n =>
    match stepCreator s n with
    | some c => safeNHSpecAux s fuel c && c.sstate.active
    | none => true

/-- **Specification of `_safe`**: every recursive step creator is RUNNING or SUCCEEDED and holds
nothing (a chain of creators has at most `#rows` members). -/
def safeSpec (s : KState) (n : Node) : Bool := safeSpecAux s s.nodes.length n

/-- **Specification of `_safe_ignoring_hold`**: every recursive step creator is RUNNING or SUCCEEDED. -/
def safeNHSpec (s : KState) (n : Node) : Bool := safeNHSpecAux s s.nodes.length n

theorem safeSpecAux_ups (s : KState) (fuel : Nat) (n : Node) :
    safeSpecAux s fuel n = (ups s fuel n).all fun c => c.sstate.active && c.holding == 0 := by
  induction fuel generalizing n with
  | zero => rfl
  | succ f ih =>
    unfold safeSpecAux ups
    cases stepCreator s n with
    | none => rfl
    | some c =>
      simp only [List.all_cons, ih c]
      cases c.sstate.active <;> cases (c.holding == 0) <;> simp

theorem safeNHSpecAux_ups (s : KState) (fuel : Nat) (n : Node) :
    safeNHSpecAux s fuel n = (ups s fuel n).all fun c => c.sstate.active := by
  induction fuel generalizing n with
  | zero => rfl
  | succ f ih =>
    unfold safeNHSpecAux ups
    cases stepCreator s n with
    | none => rfl
    | some c =>
      simp only [List.all_cons, ih c]
      cases c.sstate.active <;> simp

theorem ups_length_le (s : KState) (fuel : Nat) (n : Node) : (ups s fuel n).length ≤ fuel := by
  induction fuel generalizing n with
  | zero => exact Nat.le_refl _
  | succ f ih =>
    unfold ups
    cases stepCreator s n with
    | none => exact Nat.zero_le _
    | some c => simp only [List.length_cons]; have := ih c; omega

/-- Once the chain has ended, more fuel changes nothing. -/
theorem ups_stable (s : KState) : ∀ (f : Nat) (n : Node), (ups s f n).length < f → ∀ g, f ≤ g → ups s g n = ups s f n := by
  intro f
  induction f with
  | zero => intro n h; cases h
  | succ f ih =>
    intro n h g hg
    obtain ⟨g', rfl⟩ : ∃ g', g = g' + 1 := ⟨g - 1, by omega⟩
    unfold ups at h ⊢
    cases hc : stepCreator s n with
    | none => rfl
    | some c =>
      simp only [hc, List.length_cons] at h
      simp only
      rw [ih c (by omega) g' (by omega)]

theorem ups_links {s : KState} : ∀ (f : Nat) (n : Node), n ∈ s.nodes → n.key.kind = .step →
    ∀ a ∈ ups s f n, Relation.TransGen (StepLink s) a.key n.key ∧ a ∈ s.nodes := by
  intro f
  induction f with
  | zero => intro n _ _ a ha; cases ha
  | succ f ih =>
    intro n hn hst a ha
    unfold ups at ha
    cases hc : stepCreator s n with
    | none => simp only [hc] at ha; cases ha
    | some c =>
      simp only [hc] at ha
      obtain ⟨c1, c2, _⟩ := stepCreator_some hc
      have hl : StepLink s c.key n.key := ⟨n, c, hn, rfl, hst, hc, rfl⟩
      rcases List.mem_cons.1 ha with rfl | ha'
      · exact ⟨.single hl, c1⟩
      · obtain ⟨h1, h2⟩ := ih c c1 c2 a ha'
        exact ⟨.tail h1 hl, h2⟩

theorem ups_chain {s : KState} : ∀ (f : Nat) (n : Node), n ∈ s.nodes → n.key.kind = .step →
    (n.key :: (ups s f n).map (·.key)).Pairwise fun a b => Relation.TransGen (StepLink s) b a := by
  intro f
  induction f with
  | zero =>
    intro n _ _
    simp [ups]
  | succ f ih =>
    intro n hn hst
    rw [List.pairwise_cons]
    constructor
    · intro b hb
      obtain ⟨a, ha, rfl⟩ := List.mem_map.1 hb
      exact (ups_links (f + 1) n hn hst a ha).1
    · unfold ups
      cases hc : stepCreator s n with
      | none => simp
      | some c =>
        obtain ⟨c1, c2, _⟩ := stepCreator_some hc
        exact ih c c1 c2

theorem length_le_of_nodup_subset {l l' : List Key} (hn : l.Nodup) (hs : ∀ x ∈ l, x ∈ l') :
    l.length ≤ l'.length := by
  induction l generalizing l' with
  | nil => exact Nat.zero_le _
  | cons a t ih =>
    rw [List.nodup_cons] at hn
    have ha : a ∈ l' := hs a List.mem_cons_self
    have ht : ∀ x ∈ t, x ∈ l'.erase a := by
      intro x hx
      have hne : x ≠ a := fun h => hn.1 (h ▸ hx)
      exact (List.mem_erase_of_ne hne).2 (hs x (List.mem_cons_of_mem _ hx))
    have h1 := ih hn.2 ht
    rw [List.length_erase_of_mem ha] at h1
    have h2 : 0 < l'.length := List.length_pos_of_mem ha
    simp only [List.length_cons]
    omega

/-- **Chains are short.**  With acyclic step-creator links a step and its recursive step creators
are different rows: there are at most `#rows` of them. -/
theorem ups_bound {s : KState} (hwf : StepCreatorWF s) (f : Nat) {n : Node} (hn : n ∈ s.nodes)
    (hst : n.key.kind = .step) : (ups s f n).length + 1 ≤ s.nodes.length := by
  have hch := ups_chain f n hn hst
  have hnd : (n.key :: (ups s f n).map (·.key)).Nodup := by
    refine List.Pairwise.imp ?_ hch
    intro a b hab he
    exact wf_irrefl hwf.transGen a (he ▸ hab)
  have hsub : ∀ x ∈ n.key :: (ups s f n).map (·.key), x ∈ s.nodes.map (·.key) := by
    intro x hx
    rcases List.mem_cons.1 hx with rfl | hx
    · exact List.mem_map.2 ⟨n, hn, rfl⟩
    · obtain ⟨a, ha, rfl⟩ := List.mem_map.1 hx
      exact List.mem_map.2 ⟨a, (ups_links f n hn hst a ha).2, rfl⟩
  have := length_le_of_nodup_subset hnd hsub
  simpa using this

theorem ups_succ_eq {s : KState} (hwf : StepCreatorWF s) {n : Node} (hn : n ∈ s.nodes) (hst : n.key.kind = .step) :
    ups s (s.nodes.length + 1) n = ups s s.nodes.length n := by
  have := ups_bound hwf s.nodes.length hn hst
  exact ups_stable s _ n (by omega) _ (by omega)

/-- The specification satisfies the local equation. -/
theorem safeSpec_local {s : KState} (hwf : StepCreatorWF s) {n : Node} (hn : n ∈ s.nodes) (hst : n.key.kind = .step) :
    safeSpec s n = match stepCreator s n with
      | some c => safeSpec s c && c.sstate.active && c.holding == 0
      | none => true := by
  have h1 : safeSpec s n = safeSpecAux s (s.nodes.length + 1) n := by
    unfold safeSpec
    rw [safeSpecAux_ups, safeSpecAux_ups, ups_succ_eq hwf hn hst]
  rw [h1]
  rfl

theorem safeNHSpec_local {s : KState} (hwf : StepCreatorWF s) {n : Node} (hn : n ∈ s.nodes) (hst : n.key.kind = .step) :
    safeNHSpec s n = match stepCreator s n with
      | some c => safeNHSpec s c && c.sstate.active
      | none => true := by
  have h1 : safeNHSpec s n = safeNHSpecAux s (s.nodes.length + 1) n := by
    unfold safeNHSpec
    rw [safeNHSpecAux_ups, safeNHSpecAux_ups, ups_succ_eq hwf hn hst]
  rw [h1]
  rfl

/-- Induction along the step-creator links. -/
theorem stepCreator_induction {s : KState} (hwf : StepCreatorWF s) (P : Node → Prop)
    (step : ∀ n ∈ s.nodes, n.key.kind = .step → (∀ c, stepCreator s n = some c → P c) → P n) :
    ∀ n ∈ s.nodes, n.key.kind = .step → P n := by
  have key : ∀ k : Key, ∀ n ∈ s.nodes, n.key = k → n.key.kind = .step → P n := by
    intro k
    refine hwf.induction (C := fun k => ∀ n ∈ s.nodes, n.key = k → n.key.kind = .step → P n) k ?_
    intro k ih n hn hk hst
    refine step n hn hst ?_
    intro c hc
    obtain ⟨c1, c2, _⟩ := stepCreator_some hc
    exact ih c.key ⟨n, c, hn, hk, hk ▸ hst, hc, rfl⟩ c c1 rfl c2
  intro n hn hst
  exact key n.key n hn rfl hst

/-- **Uniqueness.**  With acyclic step-creator links the local equations have one solution: the
cached pair of every step is the value of the specification. -/
theorem safeConsistent_unique {s : KState} (hwf : StepCreatorWF s) (hc : SafeConsistent s) :
    ∀ n ∈ s.nodes, n.key.kind = .step → n.safe = safeSpec s n ∧ n.safeNH = safeNHSpec s n := by
  refine stepCreator_induction hwf _ ?_
  intro n hn hst ih
  obtain ⟨h1, h2⟩ := hc n hn hst
  unfold SafeLocal localSafe at h1
  unfold SafeNHLocal localSafeNH at h2
  rw [h1, h2, safeSpec_local hwf hn hst, safeNHSpec_local hwf hn hst]
  cases hsc : stepCreator s n with
  | none => exact ⟨rfl, rfl⟩
  | some c =>
    obtain ⟨e1, e2⟩ := ih c hsc
    simp only [e1, e2, and_self]

/-- `a` is a recursive step creator of `n`. -/
def StrictAnc (s : KState) (a n : Node) : Prop := ∃ c, stepCreator s n = some c ∧ AncOrSelf s a c

/-- The specification says what its name says, whatever the fuel. -/
theorem safeSpec_iff {s : KState} (hwf : StepCreatorWF s) :
    ∀ n ∈ s.nodes, n.key.kind = .step →
      ((safeSpec s n = true ↔ ∀ a, StrictAnc s a n → a.sstate.active = true ∧ a.holding = 0) ∧
       (safeNHSpec s n = true ↔ ∀ a, StrictAnc s a n → a.sstate.active = true)) := by
  refine stepCreator_induction hwf _ ?_
  intro n hn hst ih
  rw [safeSpec_local hwf hn hst, safeNHSpec_local hwf hn hst]
  cases hsc : stepCreator s n with
  | none =>
    refine ⟨⟨fun _ a ha => ?_, fun _ => rfl⟩, ⟨fun _ a ha => ?_, fun _ => rfl⟩⟩
    · obtain ⟨c, hc, _⟩ := ha; rw [hsc] at hc; cases hc
    · obtain ⟨c, hc, _⟩ := ha; rw [hsc] at hc; cases hc
  | some c =>
    obtain ⟨i1, i2⟩ := ih c hsc
    simp only [Bool.and_eq_true, beq_iff_eq]
    constructor
    · constructor
      · rintro ⟨⟨h1, h2⟩, h3⟩ a ⟨c', hc', hanc⟩
        rw [hsc] at hc'; cases hc'
        cases hanc with
        | refl => exact ⟨h2, h3⟩
        | up hcc hanc' => exact i1.1 h1 a ⟨_, hcc, hanc'⟩
      · intro h
        have hc := h c ⟨c, hsc, AncOrSelf.refl c⟩
        refine ⟨⟨i1.2 ?_, hc.1⟩, hc.2⟩
        rintro a ⟨c', hc', hanc⟩
        exact h a ⟨c, hsc, AncOrSelf.up hc' hanc⟩
    · constructor
      · rintro ⟨h1, h2⟩ a ⟨c', hc', hanc⟩
        rw [hsc] at hc'; cases hc'
        cases hanc with
        | refl => exact h2
        | up hcc hanc' => exact i2.1 h1 a ⟨_, hcc, hanc'⟩
      · intro h
        refine ⟨i2.2 ?_, h c ⟨c, hsc, AncOrSelf.refl c⟩⟩
        rintro a ⟨c', hc', hanc⟩
        exact h a ⟨c, hsc, AncOrSelf.up hc' hanc⟩

/-! ## Termination -/

/-- A row of depth `d` belongs to a step with at least `d` recursive step creators. -/
theorem derives_depth {s : KState} (hk : KeysUnique s) {r : SafeRow} (h : Derives s r) :
    ∃ n ∈ s.nodes, n.key = r.key ∧ n.key.kind = .step ∧ (ups s r.depth n).length = r.depth := by
  induction h with
  | seed n hn =>
    obtain ⟨h1, h2, _⟩ := mem_flagged.1 hn
    exact ⟨n, h1, rfl, h2, rfl⟩
  | prod r p _ hp ih =>
    obtain ⟨p1, p2, p3, _⟩ := mem_stepProducts.1 hp
    obtain ⟨c, hc, hck, hcs, hlen⟩ := ih
    have hsc : stepCreator s p = some c := stepCreator_of hk hc hcs (by rw [hck]; exact p3)
    refine ⟨p, p1, rfl, p2, ?_⟩
    show (ups s (r.depth + 1) p).length = r.depth + 1
    unfold ups
    simp only [hsc, List.length_cons, hlen]

theorem derives_depth_bound {s : KState} (hk : KeysUnique s) (hwf : StepCreatorWF s) {r : SafeRow} (h : Derives s r) :
    r.depth + 1 ≤ s.nodes.length := by
  obtain ⟨n, hn, _, hst, hlen⟩ := derives_depth hk h
  have := ups_bound hwf r.depth hn hst
  omega

theorem go_terminates {s : KState} (hk : KeysUnique s) (hwf : StepCreatorWF s) :
    ∀ (fuel : Nat) (fr acc : List SafeRow) (d : Nat), (∀ r ∈ fr, Derives s r ∧ r.depth = d) →
      s.nodes.length ≤ d + fuel → ∃ rows, go s fuel fr acc = some rows := by
  intro fuel
  induction fuel with
  | zero =>
    intro fr acc d hfr hd
    rw [go_zero]
    cases fr with
    | nil => exact ⟨acc, rfl⟩
    | cons r t =>
      obtain ⟨h1, h2⟩ := hfr r List.mem_cons_self
      have := derives_depth_bound hk hwf h1
      omega
  | succ fuel ih =>
    intro fr acc d hfr hd
    rw [go_succ]
    split
    · exact ⟨acc, rfl⟩
    · refine ih _ _ (d + 1) ?_ (by omega)
      intro q hq
      obtain ⟨r, hr, p, hp, rfl⟩ := mem_expandRows.1 hq
      obtain ⟨h1, h2⟩ := hfr r hr
      exact ⟨Derives.prod r p h1 hp, by rw [prodRow_depth, h2]⟩

/-- **Termination.**  With one row per key and acyclic step-creator links `_update_meta_safe` never
hangs: the recursion of `FILL_SAFE_UPDATE` ends within `#rows + 1` rounds. -/
theorem updateMetaSafe_no_hang {s : KState} (hk : KeysUnique s) (hwf : StepCreatorWF s) :
    ∃ s', s.updateMetaSafe = .ok s' := by
  rw [updateMetaSafe_eq]
  split
  · exact ⟨s, rfl⟩
  · have : ∃ rows, allRows s = some rows := by
      unfold allRows
      refine go_terminates hk hwf _ _ _ 0 ?_ (by omega)
      intro q hq
      obtain ⟨n, hn, rfl⟩ := List.mem_map.1 hq
      exact ⟨Derives.seed n hn, rfl⟩
    obtain ⟨rows, hr⟩ := this
    rw [hr]
    exact ⟨writeBack s rows, rfl⟩

/-- **Everything together.**  One row per key, acyclic step-creator links, the flag discipline in
its weakest form: the refresh ends, changes only its three columns, clears all flags, and afterwards
the cached pair of every step is the value of the specification. -/
theorem updateMetaSafe_spec {s : KState} (hk : KeysUnique s) (hwf : StepCreatorWF s) (hc : CacheInvSafeW s) :
    ∃ s', s.updateMetaSafe = .ok s' ∧ SafeFrame s s' ∧
      (∀ n ∈ s'.nodes, n.key.kind = .step → n.checkSafe = false ∧ SafeLocal s' n ∧ SafeNHLocal s' n) := by
  obtain ⟨s', h⟩ := updateMetaSafe_no_hang hk hwf
  have hcons := updateMetaSafe_correct hk (noSelfStep_of_wf hwf) hc h
  refine ⟨s', h, updateMetaSafe_frame h, ?_⟩
  intro n hn hst
  exact ⟨updateMetaSafe_flags h n hn hst, hcons n hn hst⟩

/-! ## States that agree on what the safe columns depend on -/

/-- What the specification reads of a row. -/
def structView (n : Node) : Key × Option Key × StepState × Nat := (n.key, n.creator, n.sstate, n.holding)

/-- What the local equations read of a row. -/
def safeView (n : Node) : Key × Option Key × StepState × Nat × Bool × Bool :=
  (n.key, n.creator, n.sstate, n.holding, n.safe, n.safeNH)

/-- Same rows in the same order up to the columns outside `structView`. -/
def SameStruct (s s' : KState) : Prop := s'.nodes.map structView = s.nodes.map structView

/-- Same rows in the same order up to the columns outside `safeView`. -/
def SameSafe (s s' : KState) : Prop := s'.nodes.map safeView = s.nodes.map safeView

theorem structView_of_safeView {n m : Node} (h : safeView n = safeView m) : structView n = structView m := by
  unfold safeView at h
  unfold structView
  simp only [Prod.mk.injEq] at h ⊢
  exact ⟨h.1, h.2.1, h.2.2.1, h.2.2.2.1⟩

theorem map_eq_of_pointwise {α β γ : Type} (v : α → β) (w : α → γ) (hw : ∀ a b, v a = v b → w a = w b) :
    ∀ (l l' : List α), l'.map v = l.map v → l'.map w = l.map w := by
  intro l
  induction l with
  | nil =>
    intro l' h
    cases l' with
    | nil => rfl
    | cons a t => cases h
  | cons a t ih =>
    intro l' h
    cases l' with
    | nil => cases h
    | cons b u =>
      simp only [List.map_cons, List.cons.injEq] at h ⊢
      exact ⟨hw _ _ h.1, ih u h.2⟩

theorem SameSafe.struct {s s' : KState} (h : SameSafe s s') : SameStruct s s' :=
  map_eq_of_pointwise safeView structView (fun _ _ => structView_of_safeView) _ _ h

theorem SameStruct.symm {s s' : KState} (h : SameStruct s s') : SameStruct s' s := Eq.symm h
theorem SameSafe.symm {s s' : KState} (h : SameSafe s s') : SameSafe s' s := Eq.symm h
theorem SameStruct.trans {a b c : KState} (h1 : SameStruct a b) (h2 : SameStruct b c) : SameStruct a c :=
  Eq.trans h2 h1
theorem SameSafe.trans {a b c : KState} (h1 : SameSafe a b) (h2 : SameSafe b c) : SameSafe a c :=
  Eq.trans h2 h1

theorem SafeFrame.struct {s s' : KState} (h : SafeFrame s s') : SameStruct s s' :=
  map_eq_of_pointwise eraseSafe structView (fun a b hab => by
    have h1 := congrArg Node.key hab
    have h2 := congrArg Node.creator hab
    have h3 := congrArg Node.sstate hab
    have h4 := congrArg Node.holding hab
    unfold structView
    simp only [eraseSafe] at h1 h2 h3 h4
    rw [h1, h2, h3, h4]) _ _ h.2.2

theorem mem_of_map_eq {α β : Type} (v : α → β) {l l' : List α} (h : l'.map v = l.map v) {a : α} (ha : a ∈ l') :
    ∃ b ∈ l, v a = v b := by
  have : v a ∈ l.map v := h ▸ List.mem_map.2 ⟨a, ha, rfl⟩
  obtain ⟨b, hb, e⟩ := List.mem_map.1 this
  exact ⟨b, hb, e.symm⟩

theorem find?_view {β : Type} (v : Node → β) (hv : ∀ a b, v a = v b → a.key = b.key) (k : Key) :
    ∀ (l l' : List Node), l'.map v = l.map v →
      (l'.find? fun n => decide (n.key = k)).map v = (l.find? fun n => decide (n.key = k)).map v := by
  intro l
  induction l with
  | nil =>
    intro l' h
    cases l' with
    | nil => rfl
    | cons a t => cases h
  | cons a t ih =>
    intro l' h
    cases l' with
    | nil => cases h
    | cons b u =>
      simp only [List.map_cons, List.cons.injEq] at h
      have hk := hv _ _ h.1
      simp only [List.find?_cons, hk]
      split
      · simp only [Option.map_some, h.1]
      · exact ih u h.2

theorem structView_key {a b : Node} (h : structView a = structView b) : a.key = b.key := by
  unfold structView at h; simp only [Prod.mk.injEq] at h; exact h.1
theorem structView_creator {a b : Node} (h : structView a = structView b) : a.creator = b.creator := by
  unfold structView at h; simp only [Prod.mk.injEq] at h; exact h.2.1
theorem structView_sstate {a b : Node} (h : structView a = structView b) : a.sstate = b.sstate := by
  unfold structView at h; simp only [Prod.mk.injEq] at h; exact h.2.2.1
theorem structView_holding {a b : Node} (h : structView a = structView b) : a.holding = b.holding := by
  unfold structView at h; simp only [Prod.mk.injEq] at h; exact h.2.2.2
theorem safeView_safe {a b : Node} (h : safeView a = safeView b) : a.safe = b.safe := by
  unfold safeView at h; simp only [Prod.mk.injEq] at h; exact h.2.2.2.2.1
theorem safeView_safeNH {a b : Node} (h : safeView a = safeView b) : a.safeNH = b.safeNH := by
  unfold safeView at h; simp only [Prod.mk.injEq] at h; exact h.2.2.2.2.2

/-- The step creators of corresponding rows correspond. -/
theorem stepCreator_view {β : Type} (v : Node → β) (hv : ∀ a b, v a = v b → structView a = structView b)
    {s s' : KState} (h : s'.nodes.map v = s.nodes.map v) {n n' : Node} (hn : v n' = v n) :
    (stepCreator s' n').map v = (stepCreator s n).map v := by
  unfold stepCreator
  rw [structView_creator (hv _ _ hn)]
  cases n.creator with
  | none => rfl
  | some c =>
    simp only
    split
    · exact find?_view v (fun a b hab => structView_key (hv a b hab)) c _ _ h
    · rfl

theorem stepCreator_view_some {β : Type} (v : Node → β) (hv : ∀ a b, v a = v b → structView a = structView b)
    {s s' : KState} (h : s'.nodes.map v = s.nodes.map v) {n n' c' : Node} (hn : v n' = v n)
    (hc : stepCreator s' n' = some c') : ∃ c, stepCreator s n = some c ∧ v c' = v c := by
  have := stepCreator_view v hv h hn
  rw [hc] at this
  cases hsc : stepCreator s n with
  | none => rw [hsc] at this; cases this
  | some c =>
    rw [hsc] at this
    exact ⟨c, rfl, Option.some.inj this⟩

theorem stepCreator_view_none {β : Type} (v : Node → β) (hv : ∀ a b, v a = v b → structView a = structView b)
    {s s' : KState} (h : s'.nodes.map v = s.nodes.map v) {n n' : Node} (hn : v n' = v n)
    (hc : stepCreator s' n' = none) : stepCreator s n = none := by
  have := stepCreator_view v hv h hn
  rw [hc] at this
  cases hsc : stepCreator s n with
  | none => rfl
  | some c => rw [hsc] at this; cases this

theorem stepLink_struct {s s' : KState} (h : SameStruct s s') {c k : Key} (hl : StepLink s' c k) : StepLink s c k := by
  obtain ⟨n', cn', hn', hk, hst, hsc, hck⟩ := hl
  obtain ⟨n, hn, e⟩ := mem_of_map_eq structView h hn'
  obtain ⟨cn, hcn, e2⟩ := stepCreator_view_some structView (fun _ _ x => x) h e hsc
  exact ⟨n, cn, hn, by rw [← structView_key e]; exact hk, hst, hcn, by rw [← structView_key e2]; exact hck⟩

/-- Acyclicity of the step-creator links is a property of the `structView`. -/
theorem stepCreatorWF_struct {s s' : KState} (h : SameStruct s s') (hwf : StepCreatorWF s) : StepCreatorWF s' :=
  Subrelation.wf (fun {_ _} hl => stepLink_struct h hl) hwf

theorem keysUnique_struct {s s' : KState} (h : SameStruct s s') (hk : KeysUnique s) : KeysUnique s' := by
  unfold KeysUnique at *
  have := map_eq_of_pointwise structView (·.key) (fun _ _ => structView_key) _ _ h
  rw [this]; exact hk

theorem safeSpecAux_struct {s s' : KState} (h : SameStruct s s') :
    ∀ (f : Nat) (n n' : Node), structView n' = structView n →
      safeSpecAux s' f n' = safeSpecAux s f n ∧ safeNHSpecAux s' f n' = safeNHSpecAux s f n := by
  intro f
  induction f with
  | zero => intro n n' _; exact ⟨rfl, rfl⟩
  | succ f ih =>
    intro n n' e
    unfold safeSpecAux safeNHSpecAux
    cases hsc : stepCreator s' n' with
    | none =>
      rw [stepCreator_view_none structView (fun _ _ x => x) h e hsc]
      exact ⟨rfl, rfl⟩
    | some c' =>
      obtain ⟨c, hc, e2⟩ := stepCreator_view_some structView (fun _ _ x => x) h e hsc
      rw [hc]
      simp only
      obtain ⟨i1, i2⟩ := ih c c' e2
      rw [i1, i2, structView_sstate e2, structView_holding e2]
      exact ⟨rfl, rfl⟩

/-- The specification is a function of the `structView`. -/
theorem safeSpec_struct {s s' : KState} (h : SameStruct s s') {n n' : Node} (e : structView n' = structView n) :
    safeSpec s' n' = safeSpec s n ∧ safeNHSpec s' n' = safeNHSpec s n := by
  unfold safeSpec safeNHSpec
  have hl : s'.nodes.length = s.nodes.length := by
    have := congrArg List.length h
    simpa using this
  rw [hl]
  exact safeSpecAux_struct h _ n n' e

/-- The local equations are a property of the `safeView`. -/
theorem bothLocal_safe {s s' : KState} (h : SameSafe s s') {n n' : Node} (e : safeView n' = safeView n)
    (hb : BothLocal s n) : BothLocal s' n' := by
  unfold BothLocal SafeLocal SafeNHLocal localSafe localSafeNH at *
  rw [safeView_safe e, safeView_safeNH e]
  cases hsc : stepCreator s' n' with
  | none =>
    rw [stepCreator_view_none safeView (fun _ _ => structView_of_safeView) h e hsc] at hb
    exact hb
  | some c' =>
    obtain ⟨c, hc, e2⟩ := stepCreator_view_some safeView (fun _ _ => structView_of_safeView) h e hsc
    rw [hc] at hb
    simp only at hb ⊢
    have e3 := structView_of_safeView e2
    rw [safeView_safe e2, safeView_safeNH e2, structView_sstate e3, structView_holding e3]
    exact hb

theorem safeConsistent_safe {s s' : KState} (h : SameSafe s s') (hc : SafeConsistent s) : SafeConsistent s' := by
  intro n' hn' hst
  obtain ⟨n, hn, e⟩ := mem_of_map_eq safeView h hn'
  have hk := structView_key (structView_of_safeView e)
  exact bothLocal_safe h e (hc n hn (by rw [← hk]; exact hst))

/-! ## The refresh computes the specification -/

/-- **Incremental = from scratch.**  One row per key, acyclic step-creator links, the flag discipline
in its weakest form: after the refresh the cached pair of every step is the value of the
specification, computed on the state before (the refresh does not write what the specification reads)
or after. -/
theorem updateMetaSafe_eq_spec {s s' : KState} (hk : KeysUnique s) (hwf : StepCreatorWF s) (hc : CacheInvSafeW s)
    (h : s.updateMetaSafe = .ok s') :
    (∀ n' ∈ s'.nodes, n'.key.kind = .step → n'.safe = safeSpec s' n' ∧ n'.safeNH = safeNHSpec s' n') ∧
    (∀ n' ∈ s'.nodes, n'.key.kind = .step → ∃ n ∈ s.nodes, n.key = n'.key ∧
      n'.safe = safeSpec s n ∧ n'.safeNH = safeNHSpec s n) := by
  have hst := (updateMetaSafe_frame h).struct
  have hcons := updateMetaSafe_correct hk (noSelfStep_of_wf hwf) hc h
  have huniq := safeConsistent_unique (stepCreatorWF_struct hst hwf) hcons
  refine ⟨huniq, ?_⟩
  intro n' hn' hs
  obtain ⟨n, hn, e⟩ := mem_of_map_eq structView hst hn'
  obtain ⟨u1, u2⟩ := huniq n' hn' hs
  obtain ⟨e1, e2⟩ := safeSpec_struct hst e
  exact ⟨n, hn, (structView_key e).symm, by rw [u1, e1], by rw [u2, e2]⟩

/-! ## Dispatch -/

open StepupModel.Generated in
/-- The WHERE clause of `SELECT_NEXT_STEP` wants `_safe`, or a hash and `_safe_ignoring_hold`. -/
theorem eligible_safe {s : KState} {cfg : KConfig} {n : Node} (h : s.eligible cfg n = true) :
    n.key.kind = .step ∧ (n.safe = true ∨ (n.hasHash = true ∧ n.safeNH = true)) := by
  unfold KState.eligible at h
  simp only [Bool.and_eq_true, decide_eq_true_eq] at h
  obtain ⟨⟨⟨⟨hk, hrow⟩, _⟩, _⟩, _⟩ := h
  refine ⟨hk, ?_⟩
  revert hrow
  generalize n.sstate = a; generalize n.safe = b; generalize n.hasHash = c; generalize n.safeNH = d
  generalize n.deferred = e; generalize n.impliedNeed = f; generalize n.ready = g
  cases b
  · cases c
    · cases a <;> cases d <;> cases e <;> cases f <;> cases g <;> decide
    · cases d
      · cases a <;> cases e <;> cases f <;> cases g <;> decide
      · intro _; exact .inr ⟨rfl, rfl⟩
  · intro _; exact .inl rfl

/-- **What dispatch may rely on.**  In a state whose steps satisfy the local equations (e.g. after a
refresh under the flag discipline) with acyclic step-creator links, a step that `SELECT_NEXT_STEP`
accepts has every recursive step creator RUNNING or SUCCEEDED and holding nothing, or it has a
recorded hash (it is only checked, not run) and every recursive step creator is RUNNING or SUCCEEDED. -/
theorem eligible_creators {s : KState} {cfg : KConfig} (hwf : StepCreatorWF s) (hc : SafeConsistent s)
    {n : Node} (hn : n ∈ s.nodes) (h : s.eligible cfg n = true) :
    (∀ a, StrictAnc s a n → a.sstate.active = true ∧ a.holding = 0) ∨
    (n.hasHash = true ∧ ∀ a, StrictAnc s a n → a.sstate.active = true) := by
  obtain ⟨hst, hs⟩ := eligible_safe h
  obtain ⟨u1, u2⟩ := safeConsistent_unique hwf hc n hn hst
  obtain ⟨i1, i2⟩ := safeSpec_iff hwf n hn hst
  rcases hs with hs | ⟨hh, hs⟩
  · exact .inl (i1.1 (u1 ▸ hs))
  · exact .inr ⟨hh, i2.1 (u2 ▸ hs)⟩

/-! ## Executable forms -/

def bothLocalB (s : KState) (n : Node) : Bool := n.safe == localSafe s n && n.safeNH == localSafeNH s n

theorem bothLocalB_iff {s : KState} {n : Node} : bothLocalB s n = true ↔ BothLocal s n := by
  unfold bothLocalB BothLocal SafeLocal SafeNHLocal
  simp only [Bool.and_eq_true, beq_iff_eq]

def safeConsistentB (s : KState) : Bool :=
  s.nodes.all fun n => !decide (n.key.kind = .step) || bothLocalB s n

theorem safeConsistentB_iff {s : KState} : safeConsistentB s = true ↔ SafeConsistent s := by
  unfold safeConsistentB SafeConsistent
  simp only [List.all_eq_true, Bool.or_eq_true, Bool.not_eq_true', decide_eq_false_iff_not, bothLocalB_iff]
  constructor
  · intro h n hn hst
    rcases h n hn with h1 | h1
    · exact absurd hst h1
    · exact h1
  · intro h n hn
    by_cases hst : n.key.kind = .step
    · exact .inr (h n hn hst)
    · exact .inl hst

def cacheInvSafeB (s : KState) : Bool :=
  s.nodes.all fun n => !decide (n.key.kind = .step) || n.checkSafe || bothLocalB s n

theorem cacheInvSafeB_iff {s : KState} : cacheInvSafeB s = true ↔ CacheInvSafe s := by
  unfold cacheInvSafeB CacheInvSafe
  simp only [List.all_eq_true, Bool.or_eq_true, Bool.not_eq_true', decide_eq_false_iff_not, bothLocalB_iff]
  constructor
  · intro h n hn hst hf
    rcases h n hn with (h1 | h1) | h1
    · exact absurd hst h1
    · rw [hf] at h1; cases h1
    · exact h1
  · intro h n hn
    by_cases hst : n.key.kind = .step
    · cases hf : n.checkSafe with
      | true => exact .inl (.inr rfl)
      | false => exact .inr (h n hn hst hf)
    · exact .inl (.inl hst)

/-- The weakest discipline, decided with the rows of `trace` (when the recursion ends). -/
def cacheInvSafeWB (s : KState) : Bool :=
  match allRows s with
  | some rows => s.nodes.all fun n => !decide (n.key.kind = .step) || rows.any (·.key = n.key) || bothLocalB s n
  | none => false

theorem cacheInvSafeWB_sound {s : KState} (hk : KeysUnique s) (hs : NoSelfStep s) (h : cacheInvSafeWB s = true) :
    CacheInvSafeW s := by
  unfold cacheInvSafeWB at h
  cases hr : allRows s with
  | none => rw [hr] at h; cases h
  | some rows =>
    rw [hr] at h
    have hrows := allRows_iff hr
    simp only [List.all_eq_true, Bool.or_eq_true, Bool.not_eq_true', decide_eq_false_iff_not, bothLocalB_iff,
      List.any_eq_true, decide_eq_true_eq] at h
    intro n hn hst ht
    rcases h n hn with (h1 | ⟨r, hr', hrk⟩) | h1
    · exact absurd hst h1
    · exact absurd ((hasRow_iff_touched hk hs hn hst).1 ⟨r, (hrows r).1 hr', hrk⟩) ht
    · exact h1

/-- A rank that drops along every step-creator link. -/
def rankedB (s : KState) (rank : Key → Nat) : Bool :=
  s.nodes.all fun n =>
    match stepCreator s n with
    | some c => decide (rank c.key < rank n.key)
    | none => true

theorem stepCreatorWF_of_rank {s : KState} (rank : Key → Nat) (h : rankedB s rank = true) : StepCreatorWF s := by
  refine Subrelation.wf ?_ (InvImage.wf rank Nat.lt_wfRel.wf)
  intro c k hl
  obtain ⟨n, cn, hn, hk, _, hsc, hck⟩ := hl
  unfold rankedB at h
  have := List.all_eq_true.1 h n hn
  rw [hsc] at this
  simp only [decide_eq_true_eq] at this
  show rank c < rank k
  rw [← hk, ← hck]; exact this

/-! ## The repaired defect, on the model

`FILL_SAFE_UPDATE` once resolved duplicate rows with `MIN(depth)`.  The variant below differs from
the model in that choice only. -/

def pickMin (best : Option SafeRow) (r : SafeRow) : Option SafeRow :=
  match best with
  | none => some r
  | some b => if r.depth < b.depth then some r else some b

def bestRowMin (rows : List SafeRow) (k : Key) : Option SafeRow :=
  (rows.filter (·.key = k)).foldl pickMin none

def applyRowsMin (rows : List SafeRow) (n : Node) : Node :=
  if rows.any (·.key = n.key) then
    match bestRowMin rows n.key with
    | some r => { n with safe := r.safe, safeNH := r.safeNH }
    | none => n
  else n

/-- `_update_meta_safe` with `MIN(depth)` in place of `MAX(depth)`. -/
def updateMetaSafeMin (s : KState) : M KState :=
  if (flagged s).isEmpty then pure s
  else match allRows s with
    | none => throw .hang
    | some rows => pure { s with nodes := s.nodes.map fun n => clearFlag (applyRowsMin rows n) }

/-- `a` (RUNNING again, hence flagged) creates `b` (SUCCEEDED, not flagged, `_safe = 0` cached from
the time when `a` was not active) creates `c` (flagged in the same refresh). -/
def defectWitness : KState :=
  { nodes := [
      { key := rootKey, creator := some rootKey },
      { key := stepKey "a", creator := some rootKey, sstate := .running, checkSafe := true, safe := true, safeNH := true },
      { key := stepKey "b", creator := some (stepKey "a"), sstate := .succeeded, safe := false, safeNH := false },
      { key := stepKey "c", creator := some (stepKey "b"), sstate := .pending, checkSafe := true, safe := false,
        safeNH := false }] }

def witnessRank (k : Key) : Nat :=
  if k = stepKey "a" then 0 else if k = stepKey "b" then 1 else 2

theorem defectWitness_keys : KeysUnique defectWitness := by
  unfold KeysUnique; decide

theorem defectWitness_wf : StepCreatorWF defectWitness :=
  stepCreatorWF_of_rank witnessRank (by decide)

/-- The witness obeys the flag discipline in its weakest form, not in the first form: `b` is
neither flagged nor locally correct, but it is below the flagged `a`.  (That is the state the trigger
`step_flag_check_safe` leaves: a state change flags the step itself, not its products.) -/
theorem defectWitness_discipline : CacheInvSafeW defectWitness ∧ ¬ CacheInvSafe defectWitness :=
  ⟨cacheInvSafeWB_sound defectWitness_keys (noSelfStep_of_wf defectWitness_wf) (by decide),
    fun h => absurd (cacheInvSafeB_iff.2 h) (by decide)⟩

/-- `trace` has two rows for `c`: its own seed (depth 0, from the stale cache of `b`) and the row
derived from the seed of `a` (depth 2). -/
theorem defectWitness_duplicates :
    (allRows defectWitness).map (fun rows => (rows.filter (·.key = stepKey "c")).map fun r => (r.depth, r.safe, r.safeNH)) =
      some [(0, false, false), (2, true, true)] := by decide

/-- With `MAX(depth)` (the model, the repaired code) all local equations hold afterwards ... -/
theorem defectWitness_max :
    ∃ s', defectWitness.updateMetaSafe = .ok s' ∧ SafeConsistent s' ∧
      s'.nodes.map (fun n => (n.safe, n.safeNH, n.checkSafe)) =
        [(false, false, false), (true, true, false), (true, true, false), (true, true, false)] := by
  have h : (match defectWitness.updateMetaSafe with
      | .ok s' => safeConsistentB s' && decide (s'.nodes.map (fun n => (n.safe, n.safeNH, n.checkSafe)) =
          [(false, false, false), (true, true, false), (true, true, false), (true, true, false)])
      | .error _ => false) = true := by decide
  cases hr : defectWitness.updateMetaSafe with
  | error e => rw [hr] at h; cases h
  | ok s' =>
    rw [hr] at h
    simp only [Bool.and_eq_true, decide_eq_true_eq] at h
    exact ⟨s', rfl, safeConsistentB_iff.1 h.1, h.2⟩

/-- ... with `MIN(depth)` the step `c` keeps the value derived from the stale cache of `b`: `_safe = 0`
although its only step creators `b` and `a` are SUCCEEDED and RUNNING and hold nothing, and no flag is
left to repair it. -/
theorem defectWitness_min :
    ∃ s', updateMetaSafeMin defectWitness = .ok s' ∧ ¬ SafeConsistent s' ∧
      (∀ n ∈ s'.nodes, n.checkSafe = false) ∧
      s'.nodes.map (fun n => (n.safe, n.safeNH)) = [(false, false), (true, true), (true, true), (false, false)] := by
  have h : (match updateMetaSafeMin defectWitness with
      | .ok s' => !safeConsistentB s' && s'.nodes.all (fun n => !n.checkSafe) &&
          decide (s'.nodes.map (fun n => (n.safe, n.safeNH)) = [(false, false), (true, true), (true, true), (false, false)])
      | .error _ => false) = true := by decide
  cases hr : updateMetaSafeMin defectWitness with
  | error e => rw [hr] at h; cases h
  | ok s' =>
    rw [hr] at h
    simp only [Bool.and_eq_true, decide_eq_true_eq, Bool.not_eq_true', List.all_eq_true] at h
    refine ⟨s', rfl, ?_, fun n hn => h.1.2 n hn, h.2⟩
    intro hc
    have := safeConsistentB_iff.2 hc
    rw [h.1.1] at this; cases this

/-! Non-vacuity: the hypotheses of the main theorems are met by a state with work to do. -/

example : ∃ s', defectWitness.updateMetaSafe = .ok s' ∧ SafeFrame defectWitness s' ∧
    (∀ n ∈ s'.nodes, n.key.kind = .step → n.checkSafe = false ∧ SafeLocal s' n ∧ SafeNHLocal s' n) :=
  updateMetaSafe_spec defectWitness_keys defectWitness_wf defectWitness_discipline.1

example : (flagged defectWitness).length = 2 := by decide

end StepupModel.K.MetaSafe
