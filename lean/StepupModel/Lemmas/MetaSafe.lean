import StepupModel.K.Scheduler
namespace StepupModel.K.MetaSafe

/-- The step creator of a row, as the seed of `FILL_SAFE_UPDATE` joins it. -/
def stepCreator (s : KState) (n : Node) : Option Node :=
  match n.creator with
  | some c => if c.kind = Kind.step then s.find? c else none
  | none => none

def localSafe (s : KState) (n : Node) : Bool :=
  match stepCreator s n with
  | some c => c.safe && c.sstate.active && c.holding == 0
  | none => true

def localSafeNH (s : KState) (n : Node) : Bool :=
  match stepCreator s n with
  | some c => c.safeNH && c.sstate.active
  | none => true

def SafeLocal (s : KState) (n : Node) : Prop := n.safe = localSafe s n
def SafeNHLocal (s : KState) (n : Node) : Prop := n.safeNH = localSafeNH s n

def flagged (s : KState) : List Node := s.nodes.filter fun n => n.key.kind = .step ∧ n.checkSafe

def seedRow (s : KState) (n : Node) : SafeRow :=
  { key := n.key, safe := localSafe s n, chain := localSafe s n && n.sstate.active && n.holding == 0,
    safeNH := localSafeNH s n, chainNH := localSafeNH s n && n.sstate.active }

def prodRow (r : SafeRow) (p : Node) : SafeRow :=
  { key := p.key, safe := r.chain, chain := r.chain && p.sstate.active && p.holding == 0,
    safeNH := r.chainNH, chainNH := r.chainNH && p.sstate.active, depth := r.depth + 1 }

def stepProducts (s : KState) (k : Key) : List Node :=
  s.nodes.filter fun p => p.key.kind = .step ∧ p.creator = some k ∧ p.key ≠ k

def expandRows (s : KState) (rows : List SafeRow) : List SafeRow :=
  rows.flatMap fun r => (stepProducts s r.key).map (prodRow r)

def pick (best : Option SafeRow) (r : SafeRow) : Option SafeRow :=
  match best with
  | none => some r
  | some b => if b.depth < r.depth then some r else some b

def bestRow (rows : List SafeRow) (k : Key) : Option SafeRow :=
  (rows.filter (·.key = k)).foldl pick none

def setBest (rows : List SafeRow) (n : Node) : Node :=
  match bestRow rows n.key with
  | some r => { n with safe := r.safe, safeNH := r.safeNH }
  | none => n

def applyRows (rows : List SafeRow) (n : Node) : Node :=
  if rows.any (·.key = n.key) then setBest rows n else n

def clearFlag (n : Node) : Node :=
  if (decide (n.key.kind = Kind.step)) = true then { n with checkSafe := false } else n

def allRows (s : KState) : Option (List SafeRow) :=
  KState.updateMetaSafe.go (expandRows s) (s.nodes.length + 1) ((flagged s).map (seedRow s)) ((flagged s).map (seedRow s))

def writeBack (s : KState) (rows : List SafeRow) : KState :=
  { s with nodes := s.nodes.map fun n => clearFlag (applyRows rows n) }

theorem writeBack_eq (s : KState) (rows : List SafeRow) :
    (s.modifyWhere (fun n => rows.any (·.key = n.key)) (setBest rows)).modifyWhere (fun n => n.key.kind = .step)
      (fun n => { n with checkSafe := false }) = writeBack s rows := by
  unfold writeBack KState.modifyWhere
  simp only [List.map_map]
  rfl

theorem updateMetaSafe_eq (s : KState) :
    s.updateMetaSafe =
      if (flagged s).isEmpty then pure s
      else match allRows s with
        | none => throw .hang
        | some rows => pure (writeBack s rows) := by
  have h : s.updateMetaSafe =
      if (flagged s).isEmpty then pure s
      else match allRows s with
        | none => throw .hang
        | some rows => pure ((s.modifyWhere (fun n => rows.any (·.key = n.key)) (setBest rows)).modifyWhere (fun n => n.key.kind = .step)
      (fun n => { n with checkSafe := false })) := rfl
  rw [h]
  simp only [writeBack_eq]


/-! ## Basics -/

/-- One row per key. -/
def KeysUnique (s : KState) : Prop := (s.nodes.map (·.key)).Nodup

/-- No step is its own creator (the CHECK `creator != i` of the `node` table). -/
def NoSelfStep (s : KState) : Prop := ∀ n ∈ s.nodes, n.key.kind = .step → n.creator ≠ some n.key

theorem find_key {s : KState} {k : Key} {n : Node} (h : s.find? k = some n) : n.key = k := by
  have := List.find?_some h
  simpa using this

theorem find_mem {s : KState} {k : Key} {n : Node} (h : s.find? k = some n) : n ∈ s.nodes :=
  List.mem_of_find?_eq_some h

theorem find?_list_of_mem {l : List Node} (hn : (l.map (·.key)).Nodup) {n : Node} (h : n ∈ l) :
    l.find? (·.key = n.key) = some n := by
  induction l with
  | nil => cases h
  | cons a l ih =>
    simp only [List.map_cons, List.nodup_cons] at hn
    by_cases ha : a.key = n.key
    · rw [List.find?_cons_of_pos (by simpa using ha)]
      rcases List.mem_cons.1 h with rfl | h'
      · rfl
      · exact absurd (ha ▸ List.mem_map.2 ⟨n, h', rfl⟩) hn.1
    · rw [List.find?_cons_of_neg (by simpa using ha)]
      rcases List.mem_cons.1 h with rfl | h'
      · exact absurd rfl ha
      · exact ih hn.2 h'

theorem find?_of_mem {s : KState} (hk : KeysUnique s) {n : Node} (h : n ∈ s.nodes) : s.find? n.key = some n :=
  find?_list_of_mem hk h

theorem node_uniq {s : KState} (hk : KeysUnique s) {n m : Node} (hn : n ∈ s.nodes) (hm : m ∈ s.nodes)
    (h : n.key = m.key) : n = m := by
  have h1 := find?_of_mem hk hn
  have h2 := find?_of_mem hk hm
  rw [h, h2] at h1
  exact (Option.some.inj h1).symm

/-- What `stepCreator` returns: the row of the creator key, which is a step key. -/
theorem stepCreator_some {s : KState} {n c : Node} (h : stepCreator s n = some c) :
    c ∈ s.nodes ∧ c.key.kind = .step ∧ n.creator = some c.key := by
  unfold stepCreator at h
  cases hc : n.creator with
  | none => simp [hc] at h
  | some ck =>
    simp only [hc] at h
    by_cases hk : ck.kind = Kind.step
    · rw [if_pos hk] at h
      have := find_key h
      exact ⟨find_mem h, by rw [this]; exact hk, by rw [this]⟩
    · rw [if_neg hk] at h; cases h

theorem stepCreator_of {s : KState} (hk : KeysUnique s) {n c : Node} (hc : c ∈ s.nodes) (hs : c.key.kind = .step)
    (h : n.creator = some c.key) : stepCreator s n = some c := by
  unfold stepCreator
  simp only [h, hs, if_true]
  exact find?_of_mem hk hc

theorem mem_flagged {s : KState} {n : Node} :
    n ∈ flagged s ↔ n ∈ s.nodes ∧ n.key.kind = .step ∧ n.checkSafe = true := by
  unfold flagged
  simp only [List.mem_filter, decide_eq_true_eq]

theorem mem_stepProducts {s : KState} {k : Key} {p : Node} :
    p ∈ stepProducts s k ↔ p ∈ s.nodes ∧ p.key.kind = .step ∧ p.creator = some k ∧ p.key ≠ k := by
  unfold stepProducts
  simp only [List.mem_filter, decide_eq_true_eq]

theorem mem_expandRows {s : KState} {rows : List SafeRow} {q : SafeRow} :
    q ∈ expandRows s rows ↔ ∃ r ∈ rows, ∃ p ∈ stepProducts s r.key, q = prodRow r p := by
  unfold expandRows
  simp only [List.mem_flatMap, List.mem_map]
  constructor
  · rintro ⟨r, hr, p, hp, rfl⟩; exact ⟨r, hr, p, hp, rfl⟩
  · rintro ⟨r, hr, p, hp, rfl⟩; exact ⟨r, hr, p, hp, rfl⟩

/-! ## The rows of `trace`: exactly the derivable ones -/

/-- The rows of the recursive CTE `trace`: a seed per flagged step, a product row per row and step
product of its node. -/
inductive Derives (s : KState) : SafeRow → Prop
  | seed (n : Node) : n ∈ flagged s → Derives s (seedRow s n)
  | prod (r : SafeRow) (p : Node) : Derives s r → p ∈ stepProducts s r.key → Derives s (prodRow r p)

abbrev go (s : KState) := KState.updateMetaSafe.go (expandRows s)

theorem go_zero (s : KState) (fr acc : List SafeRow) :
    go s 0 fr acc = if fr.isEmpty then some acc else none := rfl

theorem go_succ (s : KState) (fuel : Nat) (fr acc : List SafeRow) :
    go s (fuel + 1) fr acc = if fr.isEmpty then some acc else go s fuel (expandRows s fr) (acc ++ expandRows s fr) := rfl

/-- Soundness of the walk: a property of the start rows that `expand` keeps holds of all rows. -/
theorem go_sound (s : KState) (P : SafeRow → Prop)
    (hP : ∀ r p, P r → p ∈ stepProducts s r.key → P (prodRow r p)) :
    ∀ (fuel : Nat) (fr acc rows : List SafeRow), (∀ r ∈ fr, P r) → (∀ r ∈ acc, P r) →
      go s fuel fr acc = some rows → ∀ r ∈ rows, P r := by
  intro fuel
  induction fuel with
  | zero =>
    intro fr acc rows _ hacc h
    rw [go_zero] at h
    split at h
    · cases h; exact hacc
    · cases h
  | succ fuel ih =>
    intro fr acc rows hfr hacc h
    rw [go_succ] at h
    split at h
    · cases h; exact hacc
    · have hnext : ∀ r ∈ expandRows s fr, P r := by
        intro q hq
        obtain ⟨r, hr, p, hp, rfl⟩ := mem_expandRows.1 hq
        exact hP r p (hfr r hr) hp
      refine ih _ _ rows hnext ?_ h
      intro r hr
      rcases List.mem_append.1 hr with h1 | h1
      · exact hacc r h1
      · exact hnext r h1

/-- Completeness of the walk: the result contains the accumulator and is closed under `expand`. -/
theorem go_complete (s : KState) :
    ∀ (fuel : Nat) (fr acc rows : List SafeRow),
      (∀ r ∈ acc, r ∈ fr ∨ ∀ p ∈ stepProducts s r.key, prodRow r p ∈ acc) →
      go s fuel fr acc = some rows →
      (∀ r ∈ acc, r ∈ rows) ∧ ∀ r ∈ rows, ∀ p ∈ stepProducts s r.key, prodRow r p ∈ rows := by
  intro fuel
  induction fuel with
  | zero =>
    intro fr acc rows hinv h
    rw [go_zero] at h
    split at h
    · rename_i he
      cases h
      have hnil : fr = [] := List.isEmpty_iff.1 he
      refine ⟨fun r hr => hr, fun r hr => ?_⟩
      rcases hinv r hr with h1 | h1
      · rw [hnil] at h1; cases h1
      · exact h1
    · cases h
  | succ fuel ih =>
    intro fr acc rows hinv h
    rw [go_succ] at h
    split at h
    · rename_i he
      cases h
      have hnil : fr = [] := List.isEmpty_iff.1 he
      refine ⟨fun r hr => hr, fun r hr => ?_⟩
      rcases hinv r hr with h1 | h1
      · rw [hnil] at h1; cases h1
      · exact h1
    · have hinv' : ∀ r ∈ acc ++ expandRows s fr, r ∈ expandRows s fr ∨
          ∀ p ∈ stepProducts s r.key, prodRow r p ∈ acc ++ expandRows s fr := by
        intro r hr
        rcases List.mem_append.1 hr with h1 | h1
        · rcases hinv r h1 with h2 | h2
          · exact .inr fun p hp => List.mem_append.2 (.inr (mem_expandRows.2 ⟨r, h2, p, hp, rfl⟩))
          · exact .inr fun p hp => List.mem_append.2 (.inl (h2 p hp))
        · exact .inl h1
      obtain ⟨h1, h2⟩ := ih _ _ rows hinv' h
      exact ⟨fun r hr => h1 r (List.mem_append.2 (.inl hr)), h2⟩

/-- **The rows of `trace`.**  When the recursion ends, its rows are exactly the derivable ones. -/
theorem allRows_iff {s : KState} {rows : List SafeRow} (h : allRows s = some rows) (r : SafeRow) :
    r ∈ rows ↔ Derives s r := by
  unfold allRows at h
  constructor
  · intro hr
    refine go_sound s (Derives s) (fun r p hd hp => Derives.prod r p hd hp) _ _ _ rows ?_ ?_ h r hr
    · intro q hq
      obtain ⟨n, hn, rfl⟩ := List.mem_map.1 hq
      exact Derives.seed n hn
    · intro q hq
      obtain ⟨n, hn, rfl⟩ := List.mem_map.1 hq
      exact Derives.seed n hn
  · intro hd
    obtain ⟨h1, h2⟩ := go_complete s _ _ _ rows (fun r hr => .inl hr) h
    induction hd with
    | seed n hn => exact h1 _ (List.mem_map.2 ⟨n, hn, rfl⟩)
    | prod r p _ hp ih => exact h2 r ih p hp

/-! ## `MAX(depth)` -/

theorem foldl_pick_some (l : List SafeRow) (b0 : SafeRow) :
    ∃ b, l.foldl pick (some b0) = some b ∧ (b = b0 ∨ b ∈ l) ∧ b0.depth ≤ b.depth ∧ ∀ r ∈ l, r.depth ≤ b.depth := by
  induction l generalizing b0 with
  | nil => exact ⟨b0, rfl, .inl rfl, Nat.le_refl _, fun r hr => by cases hr⟩
  | cons a l ih =>
    simp only [List.foldl_cons, pick]
    by_cases h : b0.depth < a.depth
    · rw [if_pos h]
      obtain ⟨b, hb, hm, hd, hall⟩ := ih a
      refine ⟨b, hb, ?_, by omega, ?_⟩
      · rcases hm with rfl | hm
        · exact .inr List.mem_cons_self
        · exact .inr (List.mem_cons_of_mem _ hm)
      · intro r hr
        rcases List.mem_cons.1 hr with rfl | hr
        · exact hd
        · exact hall r hr
    · rw [if_neg h]
      obtain ⟨b, hb, hm, hd, hall⟩ := ih b0
      refine ⟨b, hb, ?_, hd, ?_⟩
      · rcases hm with rfl | hm
        · exact .inl rfl
        · exact .inr (List.mem_cons_of_mem _ hm)
      · intro r hr
        rcases List.mem_cons.1 hr with rfl | hr
        · omega
        · exact hall r hr

/-- No row for the key: nothing is selected. -/
theorem bestRow_none {rows : List SafeRow} {k : Key} (h : ∀ r ∈ rows, r.key ≠ k) : bestRow rows k = none := by
  unfold bestRow
  have : rows.filter (fun r => decide (r.key = k)) = [] := by
    rw [List.filter_eq_nil_iff]
    intro r hr
    simpa using h r hr
  rw [this]; rfl

/-- Some row for the key: the selected one is a row for the key of maximal depth. -/
theorem bestRow_some {rows : List SafeRow} {k : Key} {r0 : SafeRow} (h0 : r0 ∈ rows) (hk0 : r0.key = k) :
    ∃ b, bestRow rows k = some b ∧ b ∈ rows ∧ b.key = k ∧ ∀ r ∈ rows, r.key = k → r.depth ≤ b.depth := by
  unfold bestRow
  have hmem : ∀ r, r ∈ rows.filter (fun r => decide (r.key = k)) ↔ r ∈ rows ∧ r.key = k := by
    intro r; simp only [List.mem_filter, decide_eq_true_eq]
  cases hl : rows.filter (fun r => decide (r.key = k)) with
  | nil =>
    have := (hmem r0).2 ⟨h0, hk0⟩
    rw [hl] at this; cases this
  | cons a l =>
    simp only [List.foldl_cons, pick]
    obtain ⟨b, hb, hm, hd, hall⟩ := foldl_pick_some l a
    have hb' : b ∈ a :: l := by
      rcases hm with rfl | hm
      · exact List.mem_cons_self
      · exact List.mem_cons_of_mem _ hm
    rw [← hl] at hb'
    refine ⟨b, hb, ((hmem b).1 hb').1, ((hmem b).1 hb').2, ?_⟩
    intro r hr hrk
    have : r ∈ a :: l := by rw [← hl]; exact (hmem r).2 ⟨hr, hrk⟩
    rcases List.mem_cons.1 this with rfl | h1
    · exact hd
    · exact hall r h1

theorem bestRow_mem {rows : List SafeRow} {k : Key} {b : SafeRow} (h : bestRow rows k = some b) :
    b ∈ rows ∧ b.key = k ∧ ∀ r ∈ rows, r.key = k → r.depth ≤ b.depth := by
  by_cases hex : ∃ r ∈ rows, r.key = k
  · obtain ⟨r0, h0, hk0⟩ := hex
    obtain ⟨b', hb', h1, h2, h3⟩ := bestRow_some h0 hk0
    rw [h] at hb'
    cases hb'
    exact ⟨h1, h2, h3⟩
  · have := bestRow_none (rows := rows) (k := k) (fun r hr hk => hex ⟨r, hr, hk⟩)
    rw [this] at h; cases h

/-! ## What a derivable row says -/

theorem seedRow_key (s : KState) (n : Node) : (seedRow s n).key = n.key := rfl
theorem seedRow_depth (s : KState) (n : Node) : (seedRow s n).depth = 0 := rfl
theorem prodRow_key (r : SafeRow) (p : Node) : (prodRow r p).key = p.key := rfl
theorem prodRow_depth (r : SafeRow) (p : Node) : (prodRow r p).depth = r.depth + 1 := rfl

/-- A derivable row belongs to a step row of the table, and its `chain` values are its `safe`
values with the own state (and hold counter) of that step folded in. -/
theorem derives_node {s : KState} {r : SafeRow} (h : Derives s r) :
    ∃ c ∈ s.nodes, c.key = r.key ∧ c.key.kind = .step ∧
      r.chain = (r.safe && c.sstate.active && c.holding == 0) ∧ r.chainNH = (r.safeNH && c.sstate.active) := by
  cases h with
  | seed n hn =>
    obtain ⟨h1, h2, _⟩ := mem_flagged.1 hn
    exact ⟨n, h1, rfl, h2, rfl, rfl⟩
  | prod r p _ hp =>
    obtain ⟨h1, h2, _⟩ := mem_stepProducts.1 hp
    exact ⟨p, h1, rfl, h2, rfl, rfl⟩

/-- One row per node and depth: the derivation through a given number of creator links is unique. -/
theorem derives_unique {s : KState} (hk : KeysUnique s) {r1 r2 : SafeRow} (h1 : Derives s r1) (h2 : Derives s r2)
    (hkey : r1.key = r2.key) (hd : r1.depth = r2.depth) : r1 = r2 := by
  induction h1 generalizing r2 with
  | seed n hn =>
    cases h2 with
    | seed m hm =>
      have : n = m := node_uniq hk (mem_flagged.1 hn).1 (mem_flagged.1 hm).1 hkey
      rw [this]
    | prod r p _ _ => simp only [seedRow_depth, prodRow_depth] at hd; omega
  | prod r p hr hp ih =>
    cases h2 with
    | seed m hm => simp only [seedRow_depth, prodRow_depth] at hd; omega
    | prod r' p' hr' hp' =>
      obtain ⟨a1, _, a3, _⟩ := mem_stepProducts.1 hp
      obtain ⟨b1, _, b3, _⟩ := mem_stepProducts.1 hp'
      have hpp : p = p' := node_uniq hk a1 b1 hkey
      subst hpp
      rw [a3] at b3
      have hkk : r.key = r'.key := Option.some.inj b3
      simp only [prodRow_depth] at hd
      have := ih hr' hkk (by omega)
      rw [this]

/-! ## The new rows -/

/-- The row written by one refresh. -/
def G (rows : List SafeRow) (n : Node) : Node := clearFlag (applyRows rows n)

theorem setBest_key (rows : List SafeRow) (n : Node) : (setBest rows n).key = n.key := by
  unfold setBest; split <;> rfl

theorem applyRows_key (rows : List SafeRow) (n : Node) : (applyRows rows n).key = n.key := by
  unfold applyRows; split
  · exact setBest_key rows n
  · rfl

theorem clearFlag_key (n : Node) : (clearFlag n).key = n.key := by
  unfold clearFlag; split <;> rfl

theorem G_key (rows : List SafeRow) (n : Node) : (G rows n).key = n.key := by
  unfold G; rw [clearFlag_key, applyRows_key]

theorem clearFlag_creator (n : Node) : (clearFlag n).creator = n.creator := by
  unfold clearFlag; split <;> rfl
theorem clearFlag_safe (n : Node) : (clearFlag n).safe = n.safe := by
  unfold clearFlag; split <;> rfl
theorem clearFlag_safeNH (n : Node) : (clearFlag n).safeNH = n.safeNH := by
  unfold clearFlag; split <;> rfl
theorem clearFlag_sstate (n : Node) : (clearFlag n).sstate = n.sstate := by
  unfold clearFlag; split <;> rfl
theorem clearFlag_holding (n : Node) : (clearFlag n).holding = n.holding := by
  unfold clearFlag; split <;> rfl

theorem setBest_creator (rows : List SafeRow) (n : Node) : (setBest rows n).creator = n.creator := by
  unfold setBest; split <;> rfl
theorem setBest_sstate (rows : List SafeRow) (n : Node) : (setBest rows n).sstate = n.sstate := by
  unfold setBest; split <;> rfl
theorem setBest_holding (rows : List SafeRow) (n : Node) : (setBest rows n).holding = n.holding := by
  unfold setBest; split <;> rfl

theorem applyRows_creator (rows : List SafeRow) (n : Node) : (applyRows rows n).creator = n.creator := by
  unfold applyRows; split
  · exact setBest_creator rows n
  · rfl
theorem applyRows_sstate (rows : List SafeRow) (n : Node) : (applyRows rows n).sstate = n.sstate := by
  unfold applyRows; split
  · exact setBest_sstate rows n
  · rfl
theorem applyRows_holding (rows : List SafeRow) (n : Node) : (applyRows rows n).holding = n.holding := by
  unfold applyRows; split
  · exact setBest_holding rows n
  · rfl

theorem G_creator (rows : List SafeRow) (n : Node) : (G rows n).creator = n.creator := by
  unfold G; rw [clearFlag_creator, applyRows_creator]
theorem G_sstate (rows : List SafeRow) (n : Node) : (G rows n).sstate = n.sstate := by
  unfold G; rw [clearFlag_sstate, applyRows_sstate]
theorem G_holding (rows : List SafeRow) (n : Node) : (G rows n).holding = n.holding := by
  unfold G; rw [clearFlag_holding, applyRows_holding]
theorem G_safe (rows : List SafeRow) (n : Node) : (G rows n).safe = (applyRows rows n).safe := by
  unfold G; rw [clearFlag_safe]
theorem G_safeNH (rows : List SafeRow) (n : Node) : (G rows n).safeNH = (applyRows rows n).safeNH := by
  unfold G; rw [clearFlag_safeNH]

/-- A node without a row keeps its row. -/
theorem applyRows_norow {rows : List SafeRow} {n : Node} (h : ∀ r ∈ rows, r.key ≠ n.key) : applyRows rows n = n := by
  unfold applyRows
  have : (rows.any fun r => decide (r.key = n.key)) = false := by
    rw [List.any_eq_false]
    intro r hr
    simpa using h r hr
  rw [this]; rfl

/-- A node with a row gets the values of the deepest one. -/
theorem applyRows_row {rows : List SafeRow} {n : Node} {r0 : SafeRow} (h0 : r0 ∈ rows) (hk0 : r0.key = n.key) :
    ∃ b, b ∈ rows ∧ b.key = n.key ∧ (∀ r ∈ rows, r.key = n.key → r.depth ≤ b.depth) ∧
      (applyRows rows n).safe = b.safe ∧ (applyRows rows n).safeNH = b.safeNH := by
  obtain ⟨b, hb, h1, h2, h3⟩ := bestRow_some h0 hk0
  refine ⟨b, h1, h2, h3, ?_⟩
  unfold applyRows
  have : (rows.any fun r => decide (r.key = n.key)) = true := by
    rw [List.any_eq_true]
    exact ⟨r0, h0, by simpa using hk0⟩
  rw [this]
  simp only [if_true]
  unfold setBest
  rw [hb]
  exact ⟨rfl, rfl⟩

theorem find?_map_key (l : List Node) (g : Node → Node) (hg : ∀ n, (g n).key = n.key) (k : Key) :
    (l.map g).find? (fun n => decide (n.key = k)) = (l.find? (fun n => decide (n.key = k))).map g := by
  induction l with
  | nil => rfl
  | cons a l ih =>
    simp only [List.map_cons, List.find?_cons, hg]
    split
    · rfl
    · exact ih

theorem find?_writeBack (s : KState) (rows : List SafeRow) (k : Key) :
    (writeBack s rows).find? k = (s.find? k).map (G rows) := by
  unfold KState.find? writeBack
  exact find?_map_key s.nodes (G rows) (G_key rows) k

theorem stepCreator_writeBack (s : KState) (rows : List SafeRow) (n : Node) :
    stepCreator (writeBack s rows) (G rows n) = (stepCreator s n).map (G rows) := by
  unfold stepCreator
  rw [G_creator]
  cases n.creator with
  | none => rfl
  | some c =>
    simp only
    split
    · exact find?_writeBack s rows c
    · rfl

theorem localSafe_writeBack (s : KState) (rows : List SafeRow) (n : Node) :
    localSafe (writeBack s rows) (G rows n) =
      match stepCreator s n with
      | some c => (applyRows rows c).safe && c.sstate.active && c.holding == 0
      | none => true := by
  unfold localSafe
  rw [stepCreator_writeBack]
  cases stepCreator s n with
  | none => rfl
  | some c => simp only [Option.map_some, G_safe, G_sstate, G_holding]

theorem localSafeNH_writeBack (s : KState) (rows : List SafeRow) (n : Node) :
    localSafeNH (writeBack s rows) (G rows n) =
      match stepCreator s n with
      | some c => (applyRows rows c).safeNH && c.sstate.active
      | none => true := by
  unfold localSafeNH
  rw [stepCreator_writeBack]
  cases stepCreator s n with
  | none => rfl
  | some c => simp only [Option.map_some, G_safeNH, G_sstate]

/-! ## Which rows a refresh recomputes -/

/-- `a` is `n` itself or one of its recursive step creators. -/
inductive AncOrSelf (s : KState) : Node → Node → Prop
  | refl (n : Node) : AncOrSelf s n n
  | up {a c n : Node} : stepCreator s n = some c → AncOrSelf s a c → AncOrSelf s a n

/-- The step is flagged or below a flagged step: exactly the rows that `FILL_SAFE_UPDATE` lists. -/
def Touched (s : KState) (n : Node) : Prop := ∃ a ∈ flagged s, AncOrSelf s a n

/-- `trace` has a row for the node. -/
def HasRow (s : KState) (n : Node) : Prop := ∃ r, Derives s r ∧ r.key = n.key

theorem mem_products_of_creator {s : KState} (hs : NoSelfStep s) {n c : Node} (hn : n ∈ s.nodes)
    (hst : n.key.kind = .step) (hc : stepCreator s n = some c) : n ∈ stepProducts s c.key := by
  obtain ⟨_, _, h3⟩ := stepCreator_some hc
  refine mem_stepProducts.2 ⟨hn, hst, h3, ?_⟩
  intro he
  exact hs n hn hst (by rw [h3, he])

theorem hasRow_of_creator {s : KState} (hs : NoSelfStep s) {n c : Node} (hn : n ∈ s.nodes)
    (hst : n.key.kind = .step) (hc : stepCreator s n = some c) (h : HasRow s c) : HasRow s n := by
  obtain ⟨r, hr, hk⟩ := h
  have hp := mem_products_of_creator hs hn hst hc
  rw [← hk] at hp
  exact ⟨prodRow r n, Derives.prod r n hr hp, rfl⟩

theorem touched_of_hasRow {s : KState} (hk : KeysUnique s) {r : SafeRow} (h : Derives s r) :
    ∀ n ∈ s.nodes, n.key = r.key → Touched s n := by
  induction h with
  | seed m hm =>
    intro n hn hkey
    have : n = m := node_uniq hk hn (mem_flagged.1 hm).1 hkey
    rw [this]
    exact ⟨m, hm, AncOrSelf.refl m⟩
  | prod r p hr hp ih =>
    intro n hn hkey
    obtain ⟨p1, _, p3, _⟩ := mem_stepProducts.1 hp
    have : n = p := node_uniq hk hn p1 hkey
    rw [this]
    obtain ⟨c, hc, hck, hcs, _⟩ := derives_node hr
    obtain ⟨a, ha, hanc⟩ := ih c hc hck
    have hsc : stepCreator s p = some c := stepCreator_of hk hc hcs (by rw [hck]; exact p3)
    exact ⟨a, ha, AncOrSelf.up hsc hanc⟩

theorem hasRow_of_anc {s : KState} (hs : NoSelfStep s) {a n : Node} (h : AncOrSelf s a n) (ha : a ∈ flagged s)
    (hn : n ∈ s.nodes) (hst : n.key.kind = .step) : HasRow s n := by
  induction h with
  | refl => exact ⟨seedRow s _, Derives.seed _ ha, rfl⟩
  | up hc _ ih =>
    obtain ⟨c1, c2, _⟩ := stepCreator_some hc
    exact hasRow_of_creator hs hn hst hc (ih c1 c2)

/-- `trace` has a row for a step exactly when the step is flagged or below a flagged step. -/
theorem hasRow_iff_touched {s : KState} (hk : KeysUnique s) (hs : NoSelfStep s) {n : Node} (hn : n ∈ s.nodes)
    (hst : n.key.kind = .step) : HasRow s n ↔ Touched s n := by
  constructor
  · rintro ⟨r, hr, hkey⟩
    exact touched_of_hasRow hk hr n hn hkey.symm
  · rintro ⟨a, ha, hanc⟩
    exact hasRow_of_anc hs hanc ha hn hst

/-! ## The flag discipline -/

/-- Both local equations of one step. -/
def BothLocal (s : KState) (n : Node) : Prop := SafeLocal s n ∧ SafeNHLocal s n

/-- Every step satisfies its local equations. -/
def SafeConsistent (s : KState) : Prop := ∀ n ∈ s.nodes, n.key.kind = .step → BothLocal s n

/-- The flag discipline, first form: a step whose cached pair may be stale is flagged. -/
def CacheInvSafe (s : KState) : Prop :=
  ∀ n ∈ s.nodes, n.key.kind = .step → n.checkSafe = false → BothLocal s n

/-- The flag discipline, weakest form: a step whose cached pair may be stale is flagged or below a
flagged step (the cached pair of a step below a flagged one is never read). -/
def CacheInvSafeW (s : KState) : Prop :=
  ∀ n ∈ s.nodes, n.key.kind = .step → ¬ Touched s n → BothLocal s n

theorem CacheInvSafe.weak {s : KState} (h : CacheInvSafe s) : CacheInvSafeW s := by
  intro n hn hst ht
  refine h n hn hst ?_
  cases hf : n.checkSafe with
  | false => rfl
  | true => exact absurd ⟨n, mem_flagged.2 ⟨hn, hst, hf⟩, AncOrSelf.refl n⟩ ht

/-! ## One refresh, row by row -/

theorem bothLocal_writeBack_iff (s : KState) (rows : List SafeRow) (n : Node) :
    BothLocal (writeBack s rows) (G rows n) ↔
      ((applyRows rows n).safe = (match stepCreator s n with
        | some c => (applyRows rows c).safe && c.sstate.active && c.holding == 0
        | none => true)) ∧
      ((applyRows rows n).safeNH = (match stepCreator s n with
        | some c => (applyRows rows c).safeNH && c.sstate.active
        | none => true)) := by
  unfold BothLocal SafeLocal SafeNHLocal
  rw [localSafe_writeBack, localSafeNH_writeBack, G_safe, G_safeNH]

/-- A row that is recomputed satisfies its local equations afterwards, whatever was cached. -/
theorem writeBack_touched {s : KState} (hk : KeysUnique s) (hs : NoSelfStep s) {rows : List SafeRow}
    (hrows : ∀ r, r ∈ rows ↔ Derives s r) {n : Node} (hn : n ∈ s.nodes) (hst : n.key.kind = .step)
    (h : HasRow s n) : BothLocal (writeBack s rows) (G rows n) := by
  rw [bothLocal_writeBack_iff]
  obtain ⟨r0, hr0, hk0⟩ := h
  obtain ⟨b, hb, hbk, hmax, e1, e2⟩ := applyRows_row ((hrows r0).2 hr0) hk0
  rw [e1, e2]
  have hdb := (hrows b).1 hb
  cases hdb with
  | seed m hm =>
    have hmn : m = n := node_uniq hk (mem_flagged.1 hm).1 hn hbk
    subst hmn
    cases hc : stepCreator s m with
    | none => simp only [seedRow, localSafe, localSafeNH, hc, and_self]
    | some c =>
      have hno : ∀ r ∈ rows, r.key ≠ c.key := by
        intro r hr hrk
        have hp := mem_products_of_creator hs hn hst hc
        rw [← hrk] at hp
        have hd := Derives.prod r m ((hrows r).1 hr) hp
        have := hmax _ ((hrows _).2 hd) rfl
        simp only [prodRow_depth, seedRow_depth] at this
        omega
      simp only [applyRows_norow hno, seedRow, localSafe, localSafeNH, hc, and_self]
  | prod r p hr hp =>
    obtain ⟨p1, _, p3, _⟩ := mem_stepProducts.1 hp
    have hpn : p = n := node_uniq hk p1 hn hbk
    subst hpn
    obtain ⟨c, hc, hck, hcs, hch, hchNH⟩ := derives_node hr
    have hsc : stepCreator s p = some c := stepCreator_of hk hc hcs (by rw [hck]; exact p3)
    obtain ⟨bc, hbc, hbck, hmaxc, f1, f2⟩ := applyRows_row ((hrows r).2 hr) hck.symm
    have hdbc := (hrows bc).1 hbc
    have hp' : p ∈ stepProducts s bc.key := by rw [hbck, hck]; exact hp
    have hd := Derives.prod bc p hdbc hp'
    have h1 := hmax _ ((hrows _).2 hd) rfl
    have h2 := hmaxc r ((hrows r).2 hr) hck.symm
    simp only [prodRow_depth] at h1
    have heq : bc = r := derives_unique hk hdbc hr (by rw [hbck, hck]) (by omega)
    subst heq
    rw [hsc]
    simp only [f1, f2]
    exact ⟨hch, hchNH⟩

/-- A row that is not recomputed and its creator keep their cached pairs. -/
theorem writeBack_untouched {s : KState} (hs : NoSelfStep s) {rows : List SafeRow}
    (hrows : ∀ r, r ∈ rows ↔ Derives s r) {n : Node} (hn : n ∈ s.nodes) (hst : n.key.kind = .step)
    (h : ¬ HasRow s n) : (BothLocal (writeBack s rows) (G rows n) ↔ BothLocal s n) := by
  rw [bothLocal_writeBack_iff]
  have hno : ∀ r ∈ rows, r.key ≠ n.key := fun r hr hrk => h ⟨r, (hrows r).1 hr, hrk⟩
  rw [applyRows_norow hno]
  unfold BothLocal SafeLocal SafeNHLocal localSafe localSafeNH
  cases hc : stepCreator s n with
  | none => exact Iff.rfl
  | some c =>
    have hnoc : ∀ r ∈ rows, r.key ≠ c.key := by
      intro r hr hrk
      exact h (hasRow_of_creator hs hn hst hc ⟨r, (hrows r).1 hr, hrk⟩)
    simp only [applyRows_norow hnoc]

end StepupModel.K.MetaSafe
