import StepupModel.Lemmas.OwnershipEdgeBase
/-!
# C08 (O5), third part: "the edge creator -> product exists" over request histories

`exec_EK`: **every** accepted request (all 24 kinds) keeps the invariant `EK NoX` of
`Lemmas/OwnershipEdgeBase.lean`, the one side condition of `ReqOKE` granted (judged on the state in which the
request is issued): `reset_for_rerun k` on a key of kind *file* must not meet a row of `k` in a product state
whose edge from its creator is dynamic (`ResetOK`; `Step.reset_for_rerun` is a method of steps: on a step, a
static tree or the root the condition is void).  Every other request is unconditional: raw `detach` of anything,
`define`/`amend`/`declare_static`/`register_static_tree` with their recycling branches, hash updates, `completed`,
`delete_detached`, ...  The condition is needed: `Lemmas/OwnershipEdgeWitness.lean`.

`creatorProduces_after_every_history` is the statement over histories of accepted and rejected requests under
changing configurations; `productsOwned_after_every_history` assembles clause (O5) of
`koracles.ownership_invariants` from its three parts.  No property statements here.
-/
namespace StepupModel.K.OwnE
open StepupModel.K.MetaAfter StepupModel.K.Discipline StepupModel.Lemmas StepupModel.K.Ever
set_option linter.unusedSimpArgs false
set_option linter.unusedVariables false

/-- The invariant of the histories. -/
abbrev InvE (s : KState) : Prop := EK NoX s

theorem invE_init : InvE KState.init := by
  refine ⟨fun f hf hk => ?_, init_keysNodup⟩
  simp only [KState.init, List.mem_singleton] at hf
  subst hf
  cases hk

/-! ## `register_static_tree` -/

/-- The plain `UPDATE node SET creator` on a row that is in no product state. -/
theorem EdgeInv.handOverRow {X : Key → Prop} {s : KState} (h : EdgeInv X s) (k tk : Key)
    (hk : ∀ m ∈ s.nodes, m.key = k → ¬ IsProduct m.fstate) :
    EdgeInv X (s.modify k fun n => { n with creator := some tk }) := by
  refine h.mono ?_ (fun d hd1 _ _ _ _ _ _ _ => ⟨d, hd1, rfl, rfl⟩)
  intro f' hf' _ _ hp c hc
  obtain ⟨m, hm, rfl⟩ := mem_modify hf'
  by_cases hmk : m.key = k
  · rw [if_pos hmk] at hp
    exact absurd hp (hk m hm hmk)
  · rw [if_neg hmk] at hp hc ⊢
    exact ⟨m, hm, rfl, hp, hc⟩

theorem handOver_E {X : Key → Prop} (tk : Key) (hs : List Key) :
    ∀ s : KState, EdgeInv X s → (∀ k ∈ hs, ∀ m ∈ s.nodes, m.key = k → ¬ IsProduct m.fstate) →
      EdgeInv X (s.handOver tk hs) := by
  unfold KState.handOver
  induction hs with
  | nil => intro s h _; exact h
  | cons k ks ih =>
    intro s h hst
    simp only [List.foldl_cons]
    refine ih _ (h.handOverRow k tk (hst k List.mem_cons_self)) ?_
    intro q hq m' hm' hmq
    obtain ⟨m, hm, rfl⟩ := mem_modify hm'
    by_cases hmk : m.key = k
    · rw [if_pos hmk] at hmq ⊢
      exact hst q (List.mem_cons_of_mem _ hq) m hm hmq
    · rw [if_neg hmk] at hmq ⊢
      exact hst q (List.mem_cons_of_mem _ hq) m hm hmq

/-- **`register_static_tree` keeps the invariant**: the files handed over to the new tree are STATIC. -/
theorem registerStaticTree_EK (cfg : KConfig) (creator : Key) (path : String)
    (s : KState) (r : KState × List String) (hp : InvE s) (h : s.registerStaticTree cfg creator path = .ok r) :
    InvE r.1 := by
  have T := topEK
  unfold KState.registerStaticTree at h
  refine bind_ok_gen h (fun _ => True) (fun _ _ => trivial) (fun r => InvE r.1) ?_
  intro _ r1 _ hh
  refine bind_ok_gen hh (fun g => ∀ hs, g = some hs → s.treeGuard creator (addSlash path) = .ok (some hs))
    (fun g hg hs he => he ▸ hg) (fun r => InvE r.1) ?_
  intro g r2 hg hh2
  cases g with
  | none =>
    simp only [KState.registerTreeBody, pure, Except.pure, Except.ok.injEq] at hh2
    subst hh2; exact hp
  | some hs =>
    simp only [KState.registerTreeBody] at hh2
    have hstat := treeGuard_static (hg hs rfl)
    refine bind_ok_gen hh2 (fun s1 => InvE s1 ∧ Keep (treeKey (addSlash path)) s s1) (fun s1 h1 => ?_)
      (fun r => InvE r.1) ?_
    · exact ⟨T.mid.leaf.create_preserves _ _ .tree (fun st he => by cases he) (fun he => by cases he) s s1 hp h1,
        create_keep hp.keys h1⟩
    · intro s1 r3 hp1 hh3
      refine T.declareStaticFiles_preserves cfg _ _ _ r3
        ⟨handOver_E _ hs s1 hp1.1.1 ?_, stable_keysNodup.handOver s1 _ hs hp1.1.2⟩ hh3
      intro k hk m hm hmk hprod
      obtain ⟨n, hn, hnk, hkind, hrole⟩ := hstat k hk
      have hne : k ≠ treeKey (addSlash path) := by
        intro he
        have : n.key.kind = Kind.st := by rw [hnk, he]; rfl
        rw [hkind] at this; cases this
      have hrel := hp1.2.find k hne
      have hfm : s1.find? k = some m := hmk ▸ find?_of_mem hp1.1.keys hm
      rw [← hnk, find?_of_mem hp.keys hn, hnk, hfm] at hrel
      have : m.fstate.role? = some .static := hrel.2.1.trans hrole
      unfold IsProduct at hprod
      rw [this] at hprod
      rcases hprod with h | h <;> cases h

theorem registerTrees_EK (cfg : KConfig) (creator : Key) (trees : List String)
    (s : KState) (r : KState × List String) (hp : InvE s) (h : s.registerTrees cfg creator trees = .ok r) :
    InvE r.1 := by
  unfold KState.registerTrees at h
  refine foldlM_inv (fun (a : KState × List String) => InvE a.1) _ trees ?_ (s, []) r hp h
  intro a x b ha hb
  refine bind_ok_gen hb (fun c => InvE c.1) (fun c hc => registerStaticTree_EK cfg creator x a.1 c ha hc)
    (fun r => InvE r.1) ?_
  intro c d hc hd
  obtain ⟨s', chk⟩ := c
  simp only [pure, Except.pure, Except.ok.injEq] at hd
  subst hd; exact hc

theorem declareStaticRequest_EK (cfg : KConfig) (creator : Key)
    (trees files : List String) (patterns : List (String × List String)) (s : KState) (r : KState × List String)
    (hp : InvE s) (h : s.declareStaticRequest cfg creator trees files patterns = .ok r) : InvE r.1 := by
  have T := topEK
  unfold KState.declareStaticRequest at h
  refine bind_ok_gen h (fun a => InvE a.1) (fun a ha => registerTrees_EK cfg creator trees s a hp ha)
    (fun r => InvE r.1) ?_
  intro a r1 ha hh
  obtain ⟨s1, chk1⟩ := a
  simp only at hh
  refine bind_ok_gen hh (fun a => InvE a.1) (fun a h2 => T.declareStaticFiles_preserves cfg creator files s1 a ha h2)
    (fun r => InvE r.1) ?_
  intro a2 r2 ha2 hh2
  obtain ⟨s2, chk2⟩ := a2
  simp only at hh2
  refine bind_ok_gen hh2 InvE (fun s3 h3 => T.mid.leaf.registerNglobs_preserves creator patterns s2 s3 ha2 h3)
    (fun r => InvE r.1) ?_
  intro s3 r3 hp3 hh3
  simp only [pure, Except.pure, Except.ok.injEq] at hh3
  subst hh3; exact hp3

/-! ## `define_step` -/

/-- The creation branch of `define_step`. -/
theorem createStep_EK (cfg : KConfig) (sk creator : Key) (d : StepDecl) (hk : sk.kind ≠ .file) (s : KState)
    (r : KState × List String) (hp : InvE s) (h : s.createStep cfg sk creator d = .ok r) : InvE r.1 := by
  have T := topEK
  have L := T.mid.leaf
  unfold KState.createStep at h
  refine bind_ok_gen h InvE (fun s1 h1 => ?_) (fun r => InvE r.1) ?_
  · exact L.create_preserves sk (some creator) (.step _) (fun st he => by cases he) hk s s1 hp h1
  · intro s1 r1 hp1 hh
    have hp2 : InvE (s1.setStepExtras sk d) := L.setStepExtras _ _ _ hp1
    refine bind_ok_gen hh (fun a => InvE a.1) (fun a ha => T.supplyFiles_preserves cfg sk d.inp true _ a hp2 ha)
      (fun r => InvE r.1) ?_
    intro a r2 ha hh2
    obtain ⟨s3, infos⟩ := a
    simp only at hh2
    have hp4 : InvE (s3.modify sk fun n => addEnvDeps cfg n d.env) := by
      refine L.cacheAt _ _ _ (fun n => ?_) ha
      unfold addEnvDeps
      generalize d.env = names
      induction names generalizing n with
      | nil => rfl
      | cons x xs ih => simp only [List.foldl_cons]; exact (ih _).trans rfl
    refine bind_ok_gen hh2 InvE
      (fun s5 h5 => T.declareProducts_preserves cfg sk d.out .planned (.inl rfl) _ s5 hp4 h5)
      (fun r => InvE r.1) ?_
    intro s5 r3 hp5 hh3
    refine bind_ok_gen hh3 InvE
      (fun s6 h6 => T.declareProducts_preserves cfg sk d.vol .volatile (.inr rfl) _ s6 hp5 h6)
      (fun r => InvE r.1) ?_
    intro s6 r4 hp6 hh4
    simp only [pure, Except.pure, Except.ok.injEq] at hh4
    subst hh4; exact hp6

/-- `Workflow.define_step`: the recycle short cut re-attaches a subtree whose products kept their edges. -/
theorem defineStep_EK (cfg : KConfig) (creator : Key) (d : StepDecl) (s : KState)
    (r : KState × List String) (hp : InvE s) (h : s.defineStep cfg creator d = .ok r) : InvE r.1 := by
  have T := topEK
  unfold KState.defineStep at h
  refine bind_ok_gen h (fun sk => sk.kind ≠ .file) (fun sk hsk => ?_) (fun r => InvE r.1) ?_
  · obtain ⟨label, _, rfl⟩ := defineGuard_key s cfg creator _ sk hsk
    intro he; cases he
  · intro sk r1 hk hh
    split at hh
    · split at hh
      · refine bind_ok_gen hh InvE (fun s1 h1 => T.recycleStep_preserves sk creator _ _ hk s s1 hp h1) (fun r => InvE r.1) ?_
        intro s1 r2 hp1 hh2
        simp only [pure, Except.pure, Except.ok.injEq] at hh2
        subst hh2; exact hp1
      · refine bind_ok_gen hh (fun _ => True) (fun _ _ => trivial) (fun r => InvE r.1) ?_
        intro _ r2 _ hh2
        exact createStep_EK cfg sk creator _ hk s r2 hp hh2
    · refine bind_ok_gen hh (fun _ => True) (fun _ _ => trivial) (fun r => InvE r.1) ?_
      intro _ r2 _ hh2
      exact createStep_EK cfg sk creator _ hk s r2 hp hh2

/-! ## `reset_for_rerun` -/

/-- "Every row of `k` has no creator" goes along structural changes (a creator is kept or cut). -/
theorem cut_of_structRel {s s' : KState} {k : Key} (hr : StructRel s s')
    (h : ∀ n ∈ s.nodes, n.key = k → n.creator = none) : ∀ n ∈ s'.nodes, n.key = k → n.creator = none := by
  intro n' hn' hk
  obtain ⟨n, hn, h1, _, h3⟩ := forall₂_mem_right hr.rows n' hn'
  rcases h3 with h3 | h3
  · rw [h3]; exact h n hn (h1 ▸ hk)
  · exact h3.1

/-- **`Node.detach` cuts the creator link** of the node. -/
theorem detach_cuts {s s' : KState} {k : Key} (hku : KeysUnique s) (h : s.detach k = .ok s') :
    ∀ n ∈ s'.nodes, n.key = k → n.creator = none := by
  unfold KState.detach at h
  cases hf : s.find? k with
  | none => simp [hf] at h
  | some n =>
    simp only [hf, bind, Except.bind] at h
    cases h1 : s.detachCore k n with
    | error e => simp [h1] at h
    | ok s1 =>
      simp only [h1] at h
      refine cut_of_structRel (detachFlags_rel h).struct ?_
      unfold KState.detachCore at h1
      split at h1
      · simp only [bind, Except.bind] at h1
        cases hsc : s.setCreator k none true with
        | error e => simp [hsc] at h1
        | ok sc =>
          simp only [hsc, pure, Except.pure, Except.ok.injEq] at h1
          have hcut : ∀ m ∈ sc.nodes, m.key = k → m.creator = none := by
            unfold KState.setCreator at hsc
            split at hsc
            · simp only [pure, Except.pure, Except.ok.injEq] at hsc
              subst hsc
              refine cut_of_structRel (structRel_setDetachedRow _ k true) ?_
              intro m' hm' hmk
              obtain ⟨m, hm, rfl⟩ := mem_modify hm'
              by_cases hmk' : m.key = k
              · rw [if_pos hmk']
              · rw [if_neg hmk'] at hmk; exact absurd hmk hmk'
            · cases hsc
          subst h1
          split
          · exact cut_of_structRel (structRel_setDetachedRec sc k true) hcut
          · exact hcut
      · rename_i hnone
        simp only [pure, Except.pure, Except.ok.injEq] at h1
        subst h1
        intro m hm hmk
        have : s.find? k = some m := hmk ▸ find?_of_mem hku hm
        rw [hf] at this
        cases this
        cases hc : n.creator with
        | none => rfl
        | some c => rw [hc] at hnone; exact absurd rfl hnone

/-- One amended output: the edge is deleted, then the file is detached and has no creator any more. -/
theorem dropDynamicSink_EK (step k : Key) : Preserves InvE (fun s => s.dropDynamicSink step k) := by
  intro s s' hp h
  replace h : s.dropDynamicSink step k = .ok s' := h
  unfold KState.dropDynamicSink at h
  let X : Key → Prop := fun x => x = k
  have hp0 : EK X s := hp.weaken fun _ hx => hx.elim
  have hp1 : EK X (s.deleteDeps fun d => d.src = step ∧ d.snk = k) :=
    hp0.deleteDeps_exempt _ (fun d _ hd => (of_decide_eq_true hd).2)
  have hp2 : EK X s' := (leafEK X).detach_preserves k _ s' hp1 h
  refine ⟨hp2.1.unexempt ?_, hp2.2⟩
  intro f hf _ hxk _ _ c hc
  rw [detach_cuts hp1.keys h f hf hxk] at hc
  cases hc

/-- The side condition of `reset_for_rerun k`: void unless `k` is a key of kind file; then no row of `k` in a
product state is the sink of a *dynamic* edge from its creator (`drop_dynamic_inputs` deletes the dynamic edges
INTO `k`). -/
def ResetOK (s : KState) (k : Key) : Prop :=
  k.kind = .file → ∀ f ∈ s.nodes, f.key = k → IsProduct f.fstate → ∀ c, f.creator = some c →
    ∀ d ∈ s.deps, d.src = c → d.snk = k → d.dyn = false

instance (s : KState) (k : Key) : Decidable (ResetOK s k) := by unfold ResetOK; exact inferInstance

/-- On anything that is not a file the condition is void. -/
theorem resetOK_of_kind (s : KState) {k : Key} (hk : k.kind ≠ .file) : ResetOK s k := fun h => absurd h hk

theorem dropDynamicInputs_EK (s : KState) (k : Key) (hp : InvE s) (hk : ResetOK s k) : InvE (s.dropDynamicInputs k) := by
  have L := leafEK NoX
  unfold KState.dropDynamicInputs
  refine L.cacheAt _ _ _ (fun _ => rfl) ?_
  have hp1 : InvE (s.flagDynamicSuppliers k) := by
    unfold KState.flagDynamicSuppliers
    exact L.cache _ _ _ (fun _ => rfl) hp
  refine hp1.deleteDeps_of _ ?_
  intro d hd hpd f' hf' hkind _ hprod hcr hsnk
  have hpd' := of_decide_eq_true hpd
  -- the row of the unflagged state
  unfold KState.flagDynamicSuppliers at hf'
  obtain ⟨f, hf, rfl⟩ := mem_modifyWhere hf'
  have hkey : (if (decide (f.key.kind = .step ∧
      (s.deps.any fun d => d.src = f.key ∧ s.deps.any fun e => e.snk = k ∧ e.dyn ∧ e.src = d.snk) = true)) = true
      then { f with checkAfter := true } else f).key = f.key := by split <;> rfl
  have hfk : f.key = k := by rw [← hpd'.1, hsnk]; exact hkey.symm
  have hdyn := hk (hfk ▸ hkey ▸ hkind) f hf hfk (by revert hprod; split <;> exact id) d.src
    (by revert hcr; split <;> exact id) d hd rfl hpd'.1
  rw [hpd'.2] at hdyn
  cases hdyn

/-- `Step.reset_for_rerun`, its side condition granted. -/
theorem resetForRerun_EK (k : Key) (s s' : KState) (hp : InvE s) (hk : ResetOK s k)
    (h : s.resetForRerun k = .ok s') : InvE s' := by
  have L := leafEK NoX
  unfold KState.resetForRerun at h
  dsimp only at h
  refine bind_ok h (fun s2 h2 => ?_) ?_
  · exact foldlM_preserves _ _ _ (fun t => dropDynamicSink_EK k t) _ s2 (dropDynamicInputs_EK s k hp hk) h2
  · intro s2 s2' hp2 hh2
    refine bind_ok hh2 (fun s3 h3 => L.detachCreatedSteps_preserves k s2 s3 hp2 h3) ?_
    intro s3 s3' hp3 hh3
    refine bind_ok hh3 (fun s4 h4 => L.detachProductsWhere_preserves k _ s3 s4 hp3 h4) ?_
    intro s4 s4' hp4 hh4
    refine bind_ok hh4 (fun s5 h5 => L.detachProductsWhere_preserves k _ s4 s5 hp4 h5) ?_
    exact EK.of_soft (fun s0 => outdateBuilt_soft k)

/-! ## `mark_completed`, `delete_detached` -/

theorem completeFailure_EK (cfg : KConfig) (k : Key) (wd : Bool) :
    Preserves InvE (fun s => s.completeFailure cfg k wd) := by
  have L := leafEK NoX
  intro s s' hp h
  replace h : s.completeFailure cfg k wd = .ok s' := h
  unfold KState.completeFailure at h
  refine bind_ok h (fun s1 h1 => EK.of_soft (fun s0 => outdateBuiltProducts_soft k) s s1 hp h1) ?_
  intro s1 s1' hp1 hh1
  refine bind_ok hh1 (fun s2 h2 => ?_) ?_
  · have hb : InvE (s1.bumpDeferCount k wd) := by
      unfold KState.bumpDeferCount
      split
      · exact L.bumpDefer _ _ hp1
      · exact hp1
    unfold KState.writeFailureState at h2
    split at h2
    · exact L.setStepState_preserves k .pending _ _ s2 hb h2
    · exact L.setStepState_preserves k .failed false _ s2 hb h2
  · intro s2 s2' hp2 hh2
    refine bind_ok hh2 (fun s3 h3 => ?_) ?_
    · unfold KState.detachCreatedIfFailed at h3
      split at h3
      · exact L.detachCreatedSteps_preserves k s2 s3 hp2 h3
      · simp only [pure, Except.pure, Except.ok.injEq] at h3; subst h3; exact hp2
    · exact preserves_pure _ (fun s hs => L.deleteHash s k hs)

/-- `Trellis.delete_detached`: a deleted node takes the edges INTO it along, nothing else. -/
theorem deleteDetachedBase_EK : Preserves InvE (fun s => s.deleteDetachedBase) := by
  intro s s' hp h
  replace h : s.deleteDetachedBase = .ok s' := h
  obtain ⟨D, spec⟩ := deleteDetachedBase_spec s s' h
  refine ⟨?_, StableG.deleteDetachedBase_preserves stable_keysNodup s s' hp.2 h⟩
  have hrow : ∀ f' ∈ s'.nodes, ∃ f ∈ s.nodes, f.key = f'.key ∧ f.creator = f'.creator ∧ f.fstate = f'.fstate ∧
      D.contains f'.key = false := by
    intro f' hf'
    have hc : f'.core ∈ s'.cores := List.mem_map.2 ⟨f', hf', rfl⟩
    rw [spec.cores] at hc
    obtain ⟨hc1, hc2⟩ := List.mem_filter.1 hc
    obtain ⟨f, hf, hcore⟩ := List.mem_map.1 hc1
    have h1 : f.key = f'.key := congrArg (·.1) hcore
    have h2 : f.creator = f'.creator := congrArg (·.2.1) hcore
    have h4 : f.fstate = f'.fstate := congrArg (·.2.2.2.1) hcore
    refine ⟨f, hf, h1, h2, h4, ?_⟩
    simpa using hc2
  intro f' hf' hkind hx hprod c hc
  obtain ⟨f, hf, h1, h2, h4, hD⟩ := hrow f' hf'
  obtain ⟨d, hd, hsrc, hsnk⟩ := hp.1 f hf (h1 ▸ hkind) hx (h4 ▸ hprod) c (h2 ▸ hc)
  refine ⟨d, ?_, hsrc, hsnk.trans h1⟩
  rw [spec.deps]
  refine List.mem_filter.2 ⟨hd, ?_⟩
  rw [hsnk, h1, hD]; rfl

/-! ## Requests -/

/-- The side conditions: only `reset_for_rerun` has one, and only on a key of kind file. -/
def ReqOKE (s : KState) : Req → Prop
  | .resetRerun k => ResetOK s k
  | _ => True

/-- **Every accepted request keeps the invariant**, its side condition granted. -/
theorem exec_EK (cfg : KConfig) (r : Req) (s : KState) (res : KState × String) (hr : ReqOKE s r)
    (hp : InvE s) (h : s.exec cfg r = .ok res) : InvE res.1 := by
  have T := topEK
  have L := T.mid.leaf
  cases r with
  | define c d =>
    simp only [KState.exec] at h
    refine bind_ok_gen h (fun a => InvE a.1) (fun a ha => defineStep_EK cfg c d s a hp ha) (fun r => InvE r.1) ?_
    intro a b ha hb; obtain ⟨st, chk⟩ := a
    simp only [pure, Except.pure, Except.ok.injEq] at hb; subst hb; exact ha
  | amend k inp env out vol conc =>
    simp only [KState.exec] at h
    refine bind_ok_gen h (fun a => InvE a.1) (fun a ha => T.amendStep_preserves cfg k inp env out vol conc s a hp ha)
      (fun r => InvE r.1) ?_
    intro a b ha hb; obtain ⟨st, chk⟩ := a
    simp only [pure, Except.pure, Except.ok.injEq] at hb; subst hb; exact ha
  | static c ps =>
    simp only [KState.exec] at h
    refine bind_ok_gen h (fun a => InvE a.1) (fun a ha => T.declareStaticFiles_preserves cfg c ps s a hp ha)
      (fun r => InvE r.1) ?_
    intro a b ha hb; obtain ⟨st, chk⟩ := a
    simp only [pure, Except.pure, Except.ok.injEq] at hb; subst hb; exact ha
  | tree c p =>
    simp only [KState.exec] at h
    refine bind_ok_gen h (fun a => InvE a.1) (fun a ha => registerStaticTree_EK cfg c p s a hp ha)
      (fun r => InvE r.1) ?_
    intro a b ha hb; obtain ⟨st, chk⟩ := a
    simp only [pure, Except.pure, Except.ok.injEq] at hb; subst hb; exact ha
  | declStatic c ts fs ps =>
    simp only [KState.exec] at h
    refine bind_ok_gen h (fun a => InvE a.1) (fun a ha => declareStaticRequest_EK cfg c ts fs ps s a hp ha)
      (fun r => InvE r.1) ?_
    intro a b ha hb; obtain ⟨st, chk⟩ := a
    simp only [pure, Except.pure, Except.ok.injEq] at hb; subst hb; exact ha
  | hashes u c => exact EK.of_soft (fun s0 => updateFileHashes_soft u c) s _ hp (StableG.unitOut_ok h)
  | nglob k p ms => exact L.registerNglob_preserves k p ms s _ hp (StableG.unitOut_ok h)
  | pop c =>
    simp only [KState.exec] at h
    refine bind_ok_gen h (fun a => InvE a.1) (fun a ha => L.popNext_preserves cfg c s a.1 a.2 hp ha) (fun r => InvE r.1) ?_
    intro a b ha hb; obtain ⟨st, d⟩ := a
    simp only [pure, Except.pure, Except.ok.injEq] at hb; subst hb; exact ha
  | updateMeta => exact L.updateMeta_preserves cfg s _ hp (StableG.unitOut_ok h)
  | resetRerun k => exact resetForRerun_EK k s _ hp hr (StableG.unitOut_ok h)
  | completed k nh wd =>
    simp only [KState.exec, KState.markCompleted] at h
    cases nh with
    | none =>
      simp only [bind, Except.bind] at h
      cases hcf : s.completeFailure cfg k wd with
      | error e => simp [hcf] at h
      | ok st =>
        simp only [hcf, pure, Except.pure, Except.ok.injEq] at h
        subst h
        exact completeFailure_EK cfg k wd s st hp hcf
    | some hh =>
      simp only [bind, Except.bind] at h
      cases hcs : s.completeSuccess cfg k hh with
      | error e => simp [hcs] at h
      | ok st =>
        simp only [hcs, pure, Except.pure, Except.ok.injEq] at h
        subst h
        exact EK.of_soft (fun s0 => completeSuccess_soft cfg k hh) s st hp hcs
  | setState k stt => exact L.setStepState_preserves k stt false s _ hp (StableG.unitOut_ok h)
  | deleteHash k =>
    have := StableG.unitOut_ok h
    simp only [pure, Except.pure, Except.ok.injEq] at this
    rw [← this]; exact L.deleteHash s k hp
  | markPending k => exact T.mid.markStepPending'_preserves k s _ hp (StableG.unitOut_ok h)
  | hold k => exact L.hold_preserves k s _ hp (StableG.unitOut_ok h)
  | release k => exact L.release_preserves k s _ hp (StableG.unitOut_ok h)
  | detach k => exact L.detach_preserves k s _ hp (StableG.unitOut_ok h)
  | revertOptional => exact EK.of_soft (fun s0 => revertOptional_soft) s _ hp (StableG.unitOut_ok h)
  | deleteDetached => exact L.deleteDetached_preserves deleteDetachedBase_EK s _ hp (StableG.unitOut_ok h)
  | clearQueue =>
    have := StableG.unitOut_ok h
    simp only [pure, Except.pure, Except.ok.injEq] at this
    rw [← this]; exact L.clearQueue s hp
  | resetInterrupted => exact EK.of_soft (fun s0 => resetInterrupted_soft) s _ hp (StableG.unitOut_ok h)
  | rescanEnv => exact EK.of_soft (fun s0 => rescanEnvVars_soft cfg) s _ hp (StableG.unitOut_ok h)
  | reconcile => exact L.reconcileTargets_preserves cfg s _ hp (StableG.unitOut_ok h)
  | checkConsistency => exact EK.of_soft (fun s0 => checkConsistency_soft) s _ hp (StableG.unitOut_ok h)

/-- One transaction (accepted, or rejected and rolled back). -/
theorem step_EK (cfg : KConfig) (r : Req) (s : KState) (hr : ReqOKE s r) (hp : InvE s) : InvE (s.step cfg r) := by
  unfold KState.step
  cases h : s.exec cfg r with
  | error e => exact hp
  | ok res => obtain ⟨s', out⟩ := res; exact exec_EK cfg r s (s', out) hr hp h

/-- **The guard on a history**: every `reset_for_rerun` satisfies `ResetOK` on the state it is issued in. -/
def HistOKE : KState → List (KConfig × Req) → Prop
  | _, [] => True
  | s, cr :: rest => ReqOKE s cr.2 ∧ HistOKE (s.step cr.1 cr.2) rest

theorem run_EK (h : List (KConfig × Req)) (s : KState) (hp : InvE s) (hh : HistOKE s h) : InvE (s.run h) := by
  unfold KState.run
  induction h generalizing s with
  | nil => exact hp
  | cons x xs ih =>
    simp only [List.foldl_cons]
    obtain ⟨hr, hrest⟩ := hh
    exact ih _ (step_EK x.1 x.2 s hr hp) hrest

theorem reachable_EK (h : List (KConfig × Req)) (hh : HistOKE KState.init h) : InvE (KState.init.run h) :=
  run_EK h KState.init invE_init hh

/-- Explicit sufficient condition for the guard: `reset_for_rerun` is never addressed to a key of kind file
(`Step.reset_for_rerun` is a method of `Step`; the scheduler calls it on the step it has just popped). -/
def ResetsNoFile (h : List (KConfig × Req)) : Prop := ∀ cr ∈ h, ∀ k, cr.2 = .resetRerun k → k.kind ≠ .file

theorem histOKE_of_resetsNoFile (h : List (KConfig × Req)) (hn : ResetsNoFile h) : ∀ s, HistOKE s h := by
  induction h with
  | nil => intro s; trivial
  | cons x xs ih =>
    intro s
    refine ⟨?_, ih (fun cr hcr => hn cr (List.mem_cons_of_mem _ hcr)) _⟩
    cases hx : x.2 with
    | resetRerun k => exact resetOK_of_kind s (hn x List.mem_cons_self k hx)
    | _ => trivial

/-! ## The oracle's clause -/

open StepupModel.K.Own in
/-- The third part of (O5) from the invariant and `UNIQUE(source, sink)`. -/
theorem creatorProduces_of_EK {s : KState} (hp : InvE s) (hu : DepsUnique s) : CreatorProduces s := by
  refine creatorProduces_of_exists hu ?_
  intro f hf hk _ hprod c hc
  obtain ⟨d, hd, hsrc, hsnk⟩ := hp.1 f hf hk (fun hx => hx) hprod c hc
  unfold KState.hasDep
  rw [List.any_eq_true]
  exact ⟨d, hd, by simp [hsrc, hsnk]⟩

open StepupModel.K.Own in
/-- **The creator of an attached product has exactly one edge into it, after every history** (accepted and
rejected requests, changing configurations) whose `reset_for_rerun` requests satisfy `ResetOK`. -/
theorem creatorProduces_after_every_history (h : List (KConfig × Req)) (hg : HistOKE KState.init h) :
    CreatorProduces (KState.init.run h) :=
  creatorProduces_of_EK (reachable_EK h hg) (depsUnique_after_every_history h)

open StepupModel.K.Own in
/-- **(O5) after every history**: an attached product with an existing creator is created by a step, and its only
step source is its creator.  The three guards are those of the three parts: no `amend` addressed to a static
tree (`Ever.AmendsSteps`), the guard of I4 (`SuccOut.HistOKS`, the price of reading "no other producer" off
that invariant), `reset_for_rerun` not on a file with a dynamic creator edge (`HistOKE`). -/
theorem productsOwned_after_every_history (h : List (KConfig × Req)) (ha : AmendsSteps h)
    (hs : SuccOut.HistOKS KState.init h) (hg : HistOKE KState.init h) : ProductsOwned (KState.init.run h) :=
  productsOwned_of_parts (productByStep_after_every_history h ha) (producersAreCreator_after_every_history h hs)
    (creatorProduces_after_every_history h hg)

open StepupModel.K.Own in
/-- The same with the plain-words form of the third guard. -/
theorem productsOwned_after_every_history' (h : List (KConfig × Req)) (ha : AmendsSteps h)
    (hs : SuccOut.HistOKS KState.init h) (hn : ResetsNoFile h) : ProductsOwned (KState.init.run h) :=
  productsOwned_after_every_history h ha hs (histOKE_of_resetsNoFile h hn _)

#print axioms exec_EK
#print axioms creatorProduces_after_every_history
#print axioms productsOwned_after_every_history
#print axioms productsOwned_after_every_history'

end StepupModel.K.OwnE
