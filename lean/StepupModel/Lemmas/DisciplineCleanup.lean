import StepupModel.Lemmas.DisciplineAmend
/-!
# The flag discipline through `delete_detached`

`Workflow.delete_detached` detaches the unused files of the attached static trees (`Node.detach` of
files whose creator is a tree: no step has an edge into them) and then removes, pass by pass, the
detached rows without products and without outgoing dependency rows.  Removing such a row deletes its
incoming dependency rows first (the trigger flags their sources); the row itself is read by no local
equation, because it is detached.
-/
namespace StepupModel.K.Discipline
open StepupModel.K.MetaAfter StepupModel.Lemmas StepupModel.K.Sk
set_option linter.unusedSimpArgs false
set_option linter.unusedVariables false

/-! ## Removing a row -/

theorem struct_remove {s : KState} {k : Key} (hS : Struct s) (hdeps : ∀ d ∈ s.deps, d.snk ≠ k ∧ d.src ≠ k) :
    Struct ({ s with nodes := s.nodes.filter (·.key ≠ k) } : KState) := by
  have hrc := rowChange_remove s k
  have hmem : ∀ n ∈ ({ s with nodes := s.nodes.filter (·.key ≠ k) } : KState).nodes, n ∈ s.nodes :=
    fun n hn => (List.mem_filter.1 hn).1
  refine ⟨?_, ?_, fun n hn => hS.kinds n (hmem n hn), fun n hn => hS.root n (hmem n hn), hS.dkinds, ?_,
    fun n hn => hS.roots n (hmem n hn)⟩
  · have := hS.keys
    unfold KeysUnique at *
    exact List.Nodup.sublist (List.Sublist.map _ List.filter_sublist) this
  · intro d hd hsrc f hf
    rw [hrc.find d.snk (hdeps d hd).1] at hf
    exact hS.own d hd hsrc f hf
  · intro d hd
    rw [hrc.find d.src (hdeps d hd).2, hrc.find d.snk (hdeps d hd).1]
    exact hS.closed d hd

theorem disc_remove {s : KState} {cfg : KConfig} {k : Key} (hc : CacheInvAfterW s cfg) (hdeps : ∀ d ∈ s.deps, d.snk ≠ k) :
    CacheInvAfterW ({ s with nodes := s.nodes.filter (·.key ≠ k) } : KState) cfg := by
  have h1 := wd_rowChange (F := fun _ => False) (cfg := cfg) (rowChange_remove s k) (wd_of_disc _ hc)
  refine disc_of_wd (wd_drop ?_ h1)
  intro n hn _ _ ht
  have hnk : n.key ≠ k := by simpa using (List.mem_filter.1 hn).2
  rcases ht with ht | ⟨_, dp, hdm, _, hsnk⟩ | ⟨_, f, _, dp, hdm, _, hsnk⟩
  · exact absurd ht hnk
  · exact absurd hsnk (hdeps dp hdm)
  · exact absurd hsnk (hdeps dp hdm)

theorem softRel_of_eq {s s' : KState} (hn : s'.nodes = s.nodes) (hd : s'.deps = s.deps) : SoftRel s s' :=
  ⟨hd, by rw [hn]; exact forall₂_refl SoftRow.refl _⟩

/-! ## One pass of `Trellis.delete_detached` -/

/-- Rows and dependency rows only disappear; `detached` does not change. -/
def Sub (s0 t : KState) : Prop :=
  (∀ m ∈ t.nodes, ∃ m0 ∈ s0.nodes, m0.key = m.key ∧ m0.detached = m.detached) ∧ (∀ d ∈ t.deps, d ∈ s0.deps)

theorem Sub.refl (s : KState) : Sub s s := ⟨fun m hm => ⟨m, hm, rfl, rfl⟩, fun _ h => h⟩

theorem passBody_inv {cfg : KConfig} {s0 : KState} (hk0 : KeysUnique s0) {n : Node} (hn : n ∈ s0.cands)
    (b : KState × List Key) (r : ForInStep (KState × List Key))
    (hI : CacheInvAfterW b.1 cfg ∧ Struct b.1 ∧ Sub s0 b.1) (h : passBody n b = .ok r) :
    CacheInvAfterW r.value.1 cfg ∧ Struct r.value.1 ∧ Sub s0 r.value.1 := by
  obtain ⟨hw, hS, hsub⟩ := hI
  unfold KState.cands at hn
  obtain ⟨hnm, hnc⟩ := List.mem_filter.1 hn
  simp only [decide_eq_true_eq, Bool.decide_and, Bool.and_eq_true, Bool.not_eq_eq_eq_not, Bool.not_true] at hnc
  have hndet : n.detached = true := hnc.1
  have hnosrc : ∀ d ∈ s0.deps, d.src ≠ n.key := by
    intro d hd he
    have := hnc.2.2
    rw [List.any_eq_false] at this
    exact absurd (by simpa using he) (this d hd)
  unfold passBody at h
  simp only at h
  -- the incoming dependency rows
  have hw1 : CacheInvAfterW (b.1.deleteDeps fun d => decide (d.snk = n.key)) cfg := by
    refine disc_of_wd (wd_deleteDeps _ (wd_of_disc _ hw) ?_)
    intro x hx _ _ ⟨d, hdm, hp, ⟨m, hm, hmk, hmd⟩, _⟩
    exfalso
    simp only [decide_eq_true_eq] at hp
    obtain ⟨m0, hm0, hk0', hd0⟩ := hsub.1 m (find_mem hm)
    have : m0 = n := by
      have h1 := find?_of_mem hk0 hm0
      have h2 := find?_of_mem hk0 hnm
      rw [hk0', find_key hm, hp] at h1
      rw [h1] at h2; cases h2; rfl
    rw [this, hndet, hmd] at hd0; cases hd0
  have hrel1 := structRel_deleteDeps b.1 fun d => decide (d.snk = n.key)
  have hS1 := struct_of_rel hrel1 hS
  have hsub1 : Sub s0 (b.1.deleteDeps fun d => decide (d.snk = n.key)) := by
    obtain ⟨hsr, _⟩ := flagFold_spec (b.1.deps.filter fun d => decide (d.snk = n.key))
      ({ b.1 with deps := b.1.deps.filter fun d => !decide (d.snk = n.key) } : KState)
    refine ⟨?_, fun d hd => hsub.2 d (hrel1.deps d hd)⟩
    intro m hm
    unfold KState.deleteDeps at hm
    obtain ⟨m1, hm1, hr⟩ := forall₂_mem_right hsr.rows m hm
    obtain ⟨m0, hm0, hk', hd'⟩ := hsub.1 m1 hm1
    exact ⟨m0, hm0, hk'.trans hr.1.symm, hd'.trans hr.2.1.symm⟩
  cases hb : (b.1.deleteDeps fun d => decide (d.snk = n.key)).beforeDelete n with
  | error e => simp [hb, bind, Except.bind] at h
  | ok st1 =>
    simp only [hb, bind, Except.bind] at h
    obtain ⟨hn1, hd1, _⟩ := beforeDelete_spec _ _ _ hb
    have hr1 := softRel_of_eq hn1 hd1
    have hw2 := cacheInvW_soft cfg hr1 hw1
    have hS2 := struct_of_rel hr1.struct hS1
    have hdeps2 : ∀ d ∈ st1.deps, d.snk ≠ n.key ∧ d.src ≠ n.key := by
      intro d hd
      rw [hd1, deps_deleteDeps] at hd
      obtain ⟨hdm, hp⟩ := List.mem_filter.1 hd
      exact ⟨by simpa using hp, hnosrc d (hsub.2 d hdm)⟩
    have hw3 := disc_remove (k := n.key) hw2 fun d hd => (hdeps2 d hd).1
    have hS3 := struct_remove (k := n.key) hS2 hdeps2
    have hsub3 : Sub s0 ({ st1 with nodes := st1.nodes.filter (·.key ≠ n.key) } : KState) := by
      refine ⟨fun m hm => ?_, fun d hd => ?_⟩
      · have hm' : m ∈ st1.nodes := (List.mem_filter.1 hm).1
        rw [hn1] at hm'
        exact hsub1.1 m hm'
      · have hd' : d ∈ st1.deps := hd
        rw [hd1] at hd'
        exact hsub1.2 d hd'
    cases hcr : n.creator with
    | none => simp only [hcr, pure, Except.pure, Except.ok.injEq] at h; subst h; exact ⟨hw3, hS3, hsub3⟩
    | some c => simp only [hcr, pure, Except.pure, Except.ok.injEq] at h; subst h; exact ⟨hw3, hS3, hsub3⟩

theorem deletePass_ds {cfg : KConfig} {s : KState} {r : KState × List Key × Bool} (hw : CacheInvAfterW s cfg)
    (hS : Struct s) (h : s.deletePass = .ok r) : CacheInvAfterW r.1 cfg ∧ Struct r.1 := by
  rw [deletePass_eq] at h
  refine bind_ok_gen h (fun a => CacheInvAfterW a.1 cfg ∧ Struct a.1 ∧ Sub s a.1) (fun a ha => ?_)
    (fun r => CacheInvAfterW r.1 cfg ∧ Struct r.1) ?_
  · refine forIn_except_inv s.cands passBody (fun b => CacheInvAfterW b.1 cfg ∧ Struct b.1 ∧ Sub s b.1) (s, []) a
      ⟨hw, hS, Sub.refl s⟩ ?_ ha
    intro n hn b r' hb hf
    exact passBody_inv hS.keys hn b r' hb hf
  · intro a b ha hb
    simp only [pure, Except.pure, Except.ok.injEq] at hb
    subst hb; exact ⟨ha.1, ha.2.1⟩

theorem deleteDetachedBase_ds {cfg : KConfig} {s s' : KState} (hw : CacheInvAfterW s cfg) (hS : Struct s)
    (h : s.deleteDetachedBase = .ok s') : CacheInvAfterW s' cfg ∧ Struct s' := by
  rw [deleteDetachedBase_eq] at h
  refine bind_ok_gen h (fun a => CacheInvAfterW a.1 cfg ∧ Struct a.1) (fun a ha => ?_)
    (fun t => CacheInvAfterW t cfg ∧ Struct t) ?_
  · refine forIn_except_inv _ baseBody (fun b => CacheInvAfterW b.1 cfg ∧ Struct b.1) (s, []) a ⟨hw, hS⟩ ?_ ha
    intro x _ b r' hb hf
    unfold baseBody at hf
    refine bind_ok_gen hf (fun a => CacheInvAfterW a.1 cfg ∧ Struct a.1) (fun a ha' => deletePass_ds hb.1 hb.2 ha')
      (fun r => CacheInvAfterW r.value.1 cfg ∧ Struct r.value.1) ?_
    intro a' r'' ha' hh
    obtain ⟨st', cs, some_⟩ := a'
    simp only at hh
    split at hh
    · simp only [pure, Except.pure, Except.ok.injEq] at hh; subst hh; exact ha'
    · simp only [pure, Except.pure, Except.ok.injEq] at hh; subst hh; exact ha'
  · intro a s2 ha hh
    refine bind_ok_gen hh (fun t => CacheInvAfterW t cfg ∧ Struct t) (fun a2 ha2 => ?_)
      (fun t => CacheInvAfterW t cfg ∧ Struct t) ?_
    · refine forIn_except_inv a.2 lostBody (fun t => CacheInvAfterW t cfg ∧ Struct t) a.1 a2 ha ?_ ha2
      intro c _ b r' hb hf
      unfold lostBody at hf
      split at hf
      · refine bind_ok_gen hf (fun t => CacheInvAfterW t cfg ∧ Struct t) (fun t ht => ?_)
          (fun r => CacheInvAfterW r.value cfg ∧ Struct r.value) ?_
        · have hr : SoftRel b t := by
            unfold KState.afterLostProduct at ht
            split at ht
            · simp only [pure, Except.pure, Except.ok.injEq] at ht; subst ht
              exact (deleteHash_soft b c (SP.refl hb.2.keys)).2
            · simp only [pure, Except.pure, Except.ok.injEq] at ht; subst ht; exact SoftRel.refl b
            · cases ht
            · cases ht
          exact ⟨cacheInvW_soft cfg hr hb.1, struct_of_rel hr.struct hb.2⟩
        · intro t r'' ht hh'
          simp only [pure, Except.pure, Except.ok.injEq] at hh'; subst hh'; exact ht
      · simp only [pure, Except.pure, Except.ok.injEq] at hf; subst hf; exact hb
    · intro a2 b2 ha2 hb2
      simp only [pure, Except.pure, Except.ok.injEq] at hb2; subst hb2; exact ha2

/-! ## The unused files of the static trees -/

theorem treeOuter_rinv {cfg : KConfig} {s0 : KState} {t : Node} (ht : t.key.kind = .st) (st : KState)
    (r : ForInStep KState) (hI : RInv cfg s0 st) (h : treeOuter t st = .ok r) : RInv cfg s0 r.value := by
  unfold treeOuter at h
  simp only at h
  refine bind_ok_gen h (fun a => RInv cfg s0 a) (fun a ha => ?_) (fun r => RInv cfg s0 r.value) ?_
  · have hI' : RInv cfg st st := hI.rebase
    have : RInv cfg st a := by
      refine forIn_except_inv _ treeInner (fun u => RInv cfg st u) st a hI' ?_ ha
      intro f hf b r' hb hfb
      unfold treeInner at hfb
      split at hfb
      · refine bind_ok_gen hfb (fun u => RInv cfg st u) (fun u hu => ?_) (fun r => RInv cfg st r.value) ?_
        · refine hb.detach ?_ hu
          -- the creator of `f`, when it still has one, is the tree
          intro _ n' c hf' hc' hck _
          rw [List.mem_mergeSort] at hf
          unfold KState.products at hf
          obtain ⟨hfm, hfc⟩ := List.mem_filter.1 hf
          simp only [decide_eq_true_eq, Bool.decide_and, Bool.and_eq_true] at hfc
          have hrel := hb.rel.find? f.key
          rw [find?_of_mem hI.st.keys hfm, hf'] at hrel
          rcases hrel.2.2 with hx | hx
          · rw [hx, hfc.1] at hc'
            cases hc'
            rw [ht] at hck; cases hck
          · rw [hx.1] at hc'; cases hc'
        · intro u r'' hu hh
          simp only [pure, Except.pure, Except.ok.injEq] at hh; subst hh; exact hu
      · simp only [pure, Except.pure, Except.ok.injEq] at hfb; subst hfb; exact hb
    exact ⟨this.st, this.disc, hI.rel.trans this.rel⟩
  · intro a r' ha hh
    simp only [pure, Except.pure, Except.ok.injEq] at hh; subst hh; exact ha

/-- **`Workflow.delete_detached` preserves the flag discipline**, the structural invariant and the creator
forest. -/
theorem deleteDetached_ti {cfg : KConfig} {s s' : KState} (h : TI cfg s) (hc : s.deleteDetached = .ok s') : TI cfg s' := by
  have hfo : Forest s' :=
    (forest_iff s').2 (SkStable.deleteDetached_preserves skStable_ok s s' ((forest_iff s).1 h.fo) hc)
  rw [deleteDetached_eq] at hc
  have hds : CacheInvAfterW s' cfg ∧ Struct s' := by
    refine bind_ok_gen hc (fun st => RInv cfg s st) (fun st h1 => ?_) (fun t => CacheInvAfterW t cfg ∧ Struct t) ?_
    · refine forIn_except_inv _ treeOuter (fun u => RInv cfg s u) s st ⟨h.st, h.disc, StructRel.refl s⟩ ?_ h1
      intro t ht b r' hb hf
      have htk : t.key.kind = .st := by
        have := (List.mem_filter.1 ht).2
        simp only [decide_eq_true_eq, Bool.decide_and, Bool.and_eq_true] at this
        exact this.1
      exact treeOuter_rinv htk b r' hb hf
    · intro st t hr hc'
      exact deleteDetachedBase_ds hr.disc hr.st hc'
  exact ⟨hds.1, hds.2, hfo⟩

end StepupModel.K.Discipline
