import StepupModel.Lemmas.OwnershipBase
/-!
# C08 ownership invariants: the rewrites of the creator forest, each under the guard its call site provides

`OwnL P` lists the operations of the kernel model that write `creator` or `detached` or the set of rows, each
with what is known where the model calls it:

* `detach`, one pass of `delete_detached`: attach nothing (monotone);
* `Trellis.create` of a step row, or with no creator: no attached file or tree row appears;
* `Trellis.create` of a file row for a creator: `FileFits` (a tree declares below itself, anything else declares
  where no attached tree is: what `_declare_file` and `_resolve_supply_file` check);
* `Trellis.create` of a tree row with the hand-over: the guards of `register_static_tree` (`treeGuard`);
* `Node.reattach` of a step (`try_recycle`): `RecycleClean`, **the side condition**: (O1) and (O4) hold of the
  rows that are attached or recursive products of the recycled step.  This is the F21 mechanism: the code
  re-attaches the product subtree without this check.

`ownL` is the instance for the invariant `Own` of `Lemmas/OwnershipBase.lean`.  No property statements here.
-/
namespace StepupModel.K.Own
open StepupModel.K StepupModel.Lemmas StepupModel.K.Sk
set_option linter.unusedSimpArgs false
set_option linter.unusedVariables false

/-! ## The guards -/

/-- No attached static tree lies above the path. -/
def NoTreeAbove (s : KState) (p : String) : Prop :=
  ∀ t ∈ s.nodes, t.key.kind = .st → t.detached = false → p.startsWith t.key.label = false

/-- What is known when a file row is created for a creator: a tree declares a path below itself; any other
node declares a path that lies under no attached tree. -/
def FileFits (s : KState) (p : String) (c : Key) : Prop :=
  (c.kind = .st → p.startsWith c.label = true) ∧ (c.kind ≠ .st → NoTreeAbove s p)

/-- The rows that are attached after the step `sk` has been recycled below an attached creator: the attached
rows, the step itself and its recursive products. -/
def recycled (s : KState) (sk : Key) (n : Node) : Bool :=
  !n.detached || n.key == sk || (s.descendants sk).contains n.key

/-- **The side condition of a recycling `define`**: (O1) and (O4) hold of the rows that will be attached. -/
def RecycleClean (s : KState) (sk : Key) : Prop :=
  TreesDisjointOn (recycled s sk) s ∧ TreeOwnsBeneathOn (recycled s sk) s

instance (s : KState) (sk : Key) : Decidable (RecycleClean s sk) := by unfold RecycleClean; exact inferInstance

/-- The leaves (see the header). -/
structure OwnL (P : KState → Prop) : Prop where
  toFrame : FrameL P
  detach_preserves : ∀ (k : Key), Preserves P (fun s => s.detach k)
  deletePass_preserves : ∀ (s : KState) (r : KState × List Key × Bool), P s → s.deletePass = .ok r → P r.1
  createFree : ∀ (k : Key) (creator : Option Key) (init : Init), InitOK init → (k.kind = .step ∨ creator = none) →
    Preserves P (fun s => s.create k creator init)
  createFile : ∀ (p : String) (c : Key) (st : FileState), NoHashState st → ∀ (s s' : KState), P s → FileFits s p c →
    s.create (fileKey p) (some c) (.file st) = .ok s' → P s'
  treeCreateHandOver : ∀ {s s1 : KState} {creator : Key} {path : String} {hs : List Key}, P s →
    s.treeGuard creator path = .ok (some hs) → s.create (treeKey path) (some creator) .tree = .ok s1 →
    P (s1.handOver (treeKey path) hs)
  reattachStep : ∀ (k c : Key) (s s' : KState), P s → k.kind = .step → (s.isDetached c = false → RecycleClean s k) →
    s.reattach k c = .ok s' → P s'

/-! ## The frame -/

theorem own_of_skel {s s' : KState} (h : s'.skel = s.skel) (hp : Own s) : Own s' := by
  unfold Own at *; rw [h]; exact hp

theorem own_frame : FrameL Own where
  cache s p f hf hp := own_of_skel ((frameL_skel s.skel hp.1.nodup).cache s p f hf rfl) hp
  fileWrite s k n n' st nh hf hw hp := own_of_skel ((frameL_skel s.skel hp.1.nodup).fileWrite s k n n' st nh hf hw rfl) hp
  fileInit s k st h1 h2 hp := own_of_skel ((frameL_skel s.skel hp.1.nodup).fileInit s k st h1 h2 rfl) hp
  stepWrite s k n n' st d hf hw hp := own_of_skel ((frameL_skel s.skel hp.1.nodup).stepWrite s k n n' st d hf hw rfl) hp
  stepInit s k i hp := own_of_skel ((frameL_skel s.skel hp.1.nodup).stepInit s k i rfl) hp
  setHash s k h hp := own_of_skel ((frameL_skel s.skel hp.1.nodup).setHash s k h rfl) hp
  deleteHash s k hp := own_of_skel ((frameL_skel s.skel hp.1.nodup).deleteHash s k rfl) hp
  bumpDefer s k hp := own_of_skel ((frameL_skel s.skel hp.1.nodup).bumpDefer s k rfl) hp
  hold s k hp := own_of_skel ((frameL_skel s.skel hp.1.nodup).hold s k rfl) hp
  release s k n hf hne hp := own_of_skel ((frameL_skel s.skel hp.1.nodup).release s k n hf hne rfl) hp
  recycled s k need shell hp := own_of_skel ((frameL_skel s.skel hp.1.nodup).recycled s k need shell rfl) hp
  addDep s src snk h1 h2 hp := hp
  filterDeps s p hp := hp
  markDyn s src snk dyn hp := hp
  queueDelete s path h hp := hp
  clearQueue s hp := hp

/-! ## `detach`, `delete_detached` -/

theorem own_detach (k : Key) : Preserves Own (fun s => s.detach k) := by
  intro s s' hp h
  replace h : s.detach k = .ok s' := h
  have hok' : Sk.OK s'.skel := SkStable.detach_preserves skStable_ok k s s' hp.1 h
  refine ownSk_mono hok' ?_ hp
  unfold KState.detach at h
  cases hf : s.find? k with
  | none => simp [hf] at h
  | some n =>
    simp only [hf] at h
    cases h1 : s.detachCore k n with
    | error e => simp [h1, bind, Except.bind] at h
    | ok s1 =>
      simp only [h1, bind, Except.bind] at h
      have hok1 : Sk.OK s1.skel := SkStable.detachCore_pq skStable_ok k n s s1 hf hp.1 h1
      rw [SkStable.detachFlags_skel k hok1.nodup h]
      rcases SkStable.detachCore_skel hf h1 with ⟨_, h2⟩ | ⟨ck, _, _, h2⟩ | ⟨ck, D, _, _, _, _, h2⟩
      · rw [h2]; exact AttSub.refl _
      · rw [h2]; exact attSub_setRow_det _ _ _
      · rw [h2]; exact (attSub_setD_det _ _).trans (attSub_setRow_det _ _ _)

theorem own_deletePass (s : KState) (r : KState × List Key × Bool) (hp : Own s) (h : s.deletePass = .ok r) :
    Own r.1 := by
  have hok' : Sk.OK r.1.skel := SkStable.deletePass_preserves skStable_ok s r hp.1 h
  obtain ⟨s', cs, b⟩ := r
  refine ownSk_mono hok' ?_ hp
  show AttSub s'.skel s.skel
  rw [skel_deletePass h]
  exact attSub_filter _ _

/-! ## `Trellis.create` -/

/-- The attached rows after `Trellis.create`: rows that were there, or the created row. -/
theorem createSpec_rows {l l' : List Tri} {k : Key} {creator : Option Key} {d : Bool}
    (h : SkStable.CreateSpec l l' k creator d) : ∀ t ∈ l', t.2.2 = false → t ∈ l ∨ t = (k, creator, d) := by
  obtain ⟨_, _, h3⟩ := h
  intro t ht hd
  rcases h3 with ⟨_, rfl⟩ | ⟨ck, _, _, rfl⟩
  · rcases List.mem_append.1 ht with h1 | h1
    · exact .inl h1
    · exact .inr (List.mem_singleton.1 h1)
  · unfold cut at ht
    obtain ⟨u, hu, rfl⟩ := List.mem_map.1 ht
    by_cases hc : u.2.1 = some k ∧ u.1 ≠ k
    · rw [if_pos hc] at hd; cases hd
    · rw [if_neg hc]
      rcases mem_setRow hu with ⟨rfl, _⟩ | ⟨hm, _⟩
      · exact .inr rfl
      · exact .inl hm

theorem own_createFree (k : Key) (creator : Option Key) (init : Init) (hi : InitOK init)
    (hk : k.kind = .step ∨ creator = none) : Preserves Own (fun s => s.create k creator init) := by
  intro s s' hp h
  replace h : s.create k creator init = .ok s' := h
  have hok' : Sk.OK s'.skel := SkStable.create_preserves skStable_ok k creator init hi s s' hp.1 h
  have hspec := SkStable.create_skel skStable_ok hi hp.1 h
  refine ownSk_mono hok' ?_ hp
  intro t ht hkind hd
  rcases createSpec_rows hspec t ht hd with h1 | rfl
  · exact h1
  · exfalso
    rcases hk with hk | hk
    · rcases hkind with h2 | h2 <;> · simp only at h2; rw [hk] at h2; cases h2
    · obtain ⟨c, hc, _⟩ := hspec.1.1 hd
      rw [hk] at hc; cases hc

theorem own_createFile (p : String) (c : Key) (st : FileState) (hst : NoHashState st) (s s' : KState) (hp : Own s)
    (hfit : FileFits s p c) (h : s.create (fileKey p) (some c) (.file st) = .ok s') : Own s' := by
  have hok' : Sk.OK s'.skel := SkStable.create_preserves skStable_ok _ _ (.file st) hst s s' hp.1 h
  have hspec := SkStable.create_skel skStable_ok (init := .file st) hst hp.1 h
  have hrows := createSpec_rows hspec
  -- the attached tree rows were there
  have htree : ∀ u ∈ s'.skel, u.1.kind = .st → u.2.2 = false → u ∈ s.skel := by
    intro u hu huk hud
    rcases hrows u hu hud with h1 | rfl
    · exact h1
    · cases huk
  refine ⟨hok', ?_, ?_⟩
  · intro a ha b hb hka haa hkb hab hne
    exact hp.2.1 a (htree a ha hka haa) b (htree b hb hkb hab) hka haa hkb hab hne
  · intro f hf hk hfa c' hc' hex
    obtain ⟨u, hu, huk, hua, hup⟩ := hex
    have hu' := htree u hu huk hua
    rcases hrows f hf hfa with h1 | rfl
    · exact hp.2.2 f h1 hk hfa c' hc' ⟨u, hu', huk, hua, hup⟩
    · simp only [Option.some.injEq] at hc'
      subst hc'
      obtain ⟨n, hn, rfl⟩ := mem_skel.1 hu'
      by_cases hck : c.kind = .st
      · exact ⟨hck, hfit.1 hck⟩
      · have := hfit.2 hck n hn huk hua
        rw [show (fileKey p).label = p from rfl] at hup
        rw [show n.tri.1.label = n.key.label from rfl] at hup
        rw [this] at hup; cases hup

/-! ## `register_static_tree`: the tree row and the hand-over -/

theorem owningTree_none {s : KState} {p : String} (h : s.owningTree p = .ok none) : NoTreeAbove s p := by
  unfold KState.owningTree at h
  simp only at h
  split at h
  · rename_i heq
    intro t ht hk hd
    cases hpre : p.startsWith t.key.label with
    | false => rfl
    | true =>
      have : t ∈ s.nodes.filter fun n => decide (n.key.kind = .st ∧ (!n.detached) = true ∧
          p.startsWith n.key.label = true) := by
        rw [List.mem_filter]; exact ⟨ht, by simp [hk, hd, hpre]⟩
      rw [heq] at this; cases this
  · simp [pure, Except.pure] at h
  · simp [graphErr, throw, throwThe, MonadExceptOf.throw] at h

theorem mapM_ok_all {α β : Type} (f : α → M β) (l : List α) (r : List β) (h : l.mapM f = .ok r) :
    ∀ x ∈ l, ∃ y ∈ r, f x = .ok y := by
  induction l generalizing r with
  | nil => intro x hx; cases hx
  | cons a as ih =>
    rw [List.mapM_cons] at h
    simp only [bind, Except.bind] at h
    cases ha : f a with
    | error e => simp [ha] at h
    | ok b =>
      simp only [ha] at h
      cases has : List.mapM f as with
      | error e => simp [has] at h
      | ok bs =>
        simp only [has, pure, Except.pure, Except.ok.injEq] at h
        subst h
        intro x hx
        simp only [List.mem_cons] at hx
        rcases hx with rfl | hx
        · exact ⟨b, List.mem_cons_self, ha⟩
        · obtain ⟨y, hy, hfy⟩ := ih bs has x hx
          exact ⟨y, List.mem_cons_of_mem _ hy, hfy⟩

/-- What the guards of `register_static_tree` establish besides `SkStable.treeGuard_spec`: no attached tree
above or below the path, and the hand-over list is the set of attached files below the path. -/
theorem treeGuard_spec2 {s : KState} {creator : Key} {path : String} {hs : List Key}
    (h : s.treeGuard creator path = .ok (some hs)) :
    NoTreeAbove s path ∧
    (∀ t ∈ s.nodes, t.key.kind = .st → t.detached = false → t.key.label.startsWith path = false) ∧
    (∀ n ∈ s.nodes, n.key.kind = .file → n.detached = false → n.key.label.startsWith path = true → n.key ∈ hs) ∧
    (∀ k ∈ hs, ∃ n ∈ s.nodes, n.key = k ∧ n.key.label.startsWith path = true) := by
  unfold KState.treeGuard at h
  simp only [bind, Except.bind] at h
  cases ho : s.owningTree path with
  | error e => simp [ho] at h
  | ok ot =>
    simp only [ho] at h
    cases ot with
    | some t =>
      dsimp only at h
      split at h
      · simp [pure, Except.pure] at h
      · split at h
        · simp [graphErr] at h
        · simp [graphErr] at h
    | none =>
      dsimp only at h
      split at h
      · simp [graphErr] at h
      · rename_i hbelow
        cases hm : (List.mapM
                (fun (n : Node) =>
                  if n.fstate.role? ≠ some FileRole.static then (graphErr "tree contains product" : M Key)
                  else if n.creator ≠ some creator then graphErr "tree contains file of other creator" else pure n.key)
                ((List.filter
              (fun n => decide (n.key.kind = Kind.file ∧ (!n.detached) = true ∧ n.key.label.startsWith path = true))
              s.nodes).mergeSort fun a b => decide (a.key.label ≤ b.key.label))) with
        | error e => rw [hm] at h; simp at h
        | ok hs' =>
          rw [hm] at h
          simp only [pure, Except.pure, Except.ok.injEq, Option.some.injEq] at h
          subst h
          refine ⟨owningTree_none ho, ?_, ?_, ?_⟩
          · intro t ht hk hd
            cases hpre : t.key.label.startsWith path with
            | false => rfl
            | true =>
              exfalso; apply hbelow
              rw [List.any_eq_true]
              exact ⟨t, ht, by simp [hk, hd, hpre]⟩
          · intro n hn hk hd hpre
            have hmem : n ∈ (List.filter
              (fun n => decide (n.key.kind = Kind.file ∧ (!n.detached) = true ∧ n.key.label.startsWith path = true))
              s.nodes).mergeSort fun a b => decide (a.key.label ≤ b.key.label) := by
              rw [List.mem_mergeSort, List.mem_filter]; exact ⟨hn, by simp [hk, hd, hpre]⟩
            obtain ⟨y, hy, hfy⟩ := mapM_ok_all _ _ _ hm n hmem
            split at hfy
            · simp [graphErr] at hfy
            · split at hfy
              · simp [graphErr] at hfy
              · simp only [pure, Except.pure, Except.ok.injEq] at hfy
                rw [hfy]; exact hy
          · intro k hk
            obtain ⟨n, hn, hfn⟩ := SkStable.mapM_ok_mem _ _ _ hm k hk
            rw [List.mem_mergeSort, List.mem_filter] at hn
            obtain ⟨hn1, hn2⟩ := hn
            simp only [decide_eq_true_eq, Bool.not_eq_true'] at hn2
            split at hfn
            · simp [graphErr] at hfn
            · split at hfn
              · simp [graphErr] at hfn
              · simp only [pure, Except.pure, Except.ok.injEq] at hfn
                exact ⟨n, hn1, hfn, hn2.2.2⟩

theorem own_treeCreateHandOver {s s1 : KState} {creator : Key} {path : String} {hs : List Key} (hp : Own s)
    (hg : s.treeGuard creator path = .ok (some hs))
    (h1 : s.create (treeKey path) (some creator) .tree = .ok s1) : Own (s1.handOver (treeKey path) hs) := by
  have hok' : Sk.OK (s1.handOver (treeKey path) hs).skel := SkStable.treeCreateHandOver_pq skStable_ok hp.1 hg h1
  have hspec := SkStable.create_skel skStable_ok (init := .tree) trivial hp.1 h1
  have hrows := createSpec_rows hspec
  obtain ⟨habove, hbelow, hall, hunder⟩ := treeGuard_spec2 hg
  have hfilek := SkStable.treeGuard_spec hg
  -- rows after the hand-over
  have hhand : ∀ t' ∈ (s1.handOver (treeKey path) hs).skel, ∃ t ∈ s1.skel,
      t' = if hs.contains t.1 then (t.1, some (treeKey path), t.2.2) else t := by
    intro t' ht'
    rw [skel_handOver] at ht'
    unfold hand at ht'
    obtain ⟨t, ht, rfl⟩ := List.mem_map.1 ht'
    exact ⟨t, ht, rfl⟩
  have hskind : ∀ k ∈ hs, k.kind = .file := by
    intro k hk
    obtain ⟨n, _, hnk, hkind, _⟩ := hfilek k hk
    rw [← hnk]; exact hkind
  -- an attached tree row afterwards: an old one, or the new tree
  have htree : ∀ u ∈ (s1.handOver (treeKey path) hs).skel, u.1.kind = .st → u.2.2 = false →
      u ∈ s.skel ∨ u.1 = treeKey path := by
    intro u hu huk hud
    obtain ⟨t, ht, rfl⟩ := hhand u hu
    by_cases hc : hs.contains t.1 = true
    · rw [if_pos hc] at huk
      have := hskind t.1 (by simpa using hc)
      simp only at huk; rw [this] at huk; cases huk
    · rw [if_neg hc] at hud huk ⊢
      rcases hrows t ht hud with h2 | rfl
      · exact .inl h2
      · exact .inr rfl
  -- an attached file row afterwards
  have hfile : ∀ f ∈ (s1.handOver (treeKey path) hs).skel, f.1.kind = .file → f.2.2 = false →
      (f.1 ∈ hs ∧ f.2.1 = some (treeKey path)) ∨ (f.1 ∉ hs ∧ f ∈ s.skel) := by
    intro f hf hfk hfd
    obtain ⟨t, ht, rfl⟩ := hhand f hf
    by_cases hc : hs.contains t.1 = true
    · rw [if_pos hc]; exact .inl ⟨by simpa using hc, rfl⟩
    · rw [if_neg hc] at hfd hfk ⊢
      refine .inr ⟨by simpa using hc, ?_⟩
      rcases hrows t ht hfd with h2 | rfl
      · exact h2
      · cases hfk
  have hnode : ∀ u ∈ s.skel, ∃ n ∈ s.nodes, n.tri = u := fun u hu => mem_skel.1 hu
  refine ⟨hok', ?_, ?_⟩
  · intro a ha b hb hka haa hkb hab hne
    rcases htree a ha hka haa with h2 | h2 <;> rcases htree b hb hkb hab with h3 | h3
    · exact hp.2.1 a h2 b h3 hka haa hkb hab hne
    · obtain ⟨n, hn, rfl⟩ := hnode a h2
      rw [h3]; exact habove n hn hka haa
    · obtain ⟨n, hn, rfl⟩ := hnode b h3
      rw [h2]; exact hbelow n hn hkb hab
    · exact absurd (h2.trans h3.symm) hne
  · intro f hf hk hfa c hc hex
    rcases hfile f hf hk hfa with ⟨hin, hcr⟩ | ⟨hnin, hfs⟩
    · rw [hcr] at hc
      simp only [Option.some.injEq] at hc
      subst hc
      obtain ⟨n, _, hnk, hpre⟩ := hunder f.1 hin
      exact ⟨rfl, by rw [← hnk]; exact hpre⟩
    · obtain ⟨u, hu, huk, hua, hup⟩ := hex
      rcases htree u hu huk hua with h2 | h2
      · exact hp.2.2 f hfs hk hfa c hc ⟨u, h2, huk, hua, hup⟩
      · exfalso
        obtain ⟨n, hn, rfl⟩ := hnode f hfs
        rw [h2] at hup
        exact hnin (hall n hn hk hfa hup)

/-! ## `Node.reattach` of a step -/

/-- A recursive product after the row of `k` has been rewritten is `k` or was one before. -/
theorem desc_setRow {l : List Tri} {k : Key} {c : Option Key} {d : Bool} {x : Key}
    (h : Desc (setRow k c d l) k x) : x = k ∨ Desc l k x := by
  induction h with
  | direct x d' hm hne =>
    rcases mem_setRow hm with ⟨he, _⟩ | ⟨hm', _⟩
    · exact absurd (congrArg Prod.fst he) hne
    · exact .inr (Desc.direct x d' hm' hne)
  | trans x c' d' hm hc hne ih =>
    by_cases hxk : x = k
    · exact .inl hxk
    · rcases mem_setRow hm with ⟨he, _⟩ | ⟨hm', _⟩
      · exact absurd (congrArg Prod.fst he) hxk
      · rcases ih with rfl | ih
        · exact .inr (Desc.direct x d' hm' hne)
        · exact .inr (Desc.trans x c' d' hm' ih hne)

/-- The creator forest after `Node.reattach`. -/
theorem reattach_skel {s s' : KState} {k c : Key} (hok : Sk.OK s.skel) (h : s.reattach k c = .ok s') :
    ∃ D : Key → Bool, (∀ x, D x = true → Desc (setRow k (some c) (s.isDetached c) s.skel) k x) ∧
      s'.skel = setD D (s.isDetached c) (setRow k (some c) (s.isDetached c) s.skel) := by
  have hn := hok.nodup
  unfold KState.reattach at h
  cases hf : s.find? k with
  | none => simp [hf] at h
  | some n =>
    simp only [hf] at h
    split at h
    · cases h
    · split at h
      · cases h
      · unfold KState.reattachCore at h
        dsimp only at h
        cases h1 : s.setCreator k (some c) (s.isDetached c) with
        | error e => simp [h1, bind, Except.bind] at h
        | ok s1 =>
          simp only [h1, bind, Except.bind] at h
          obtain ⟨hs1, hall⟩ := skel_setCreator h1
          have hn1 : Sk.Nodup s1.skel := by rw [hs1]; exact nodup_map _ (setRow_key _ _ _) hn
          cases h2 : s1.lostProduct n.creator with
          | error e => simp [h2] at h
          | ok s2 =>
            simp only [h2] at h
            have hs2 : s2.skel = setRow k (some c) (s.isDetached c) s.skel :=
              (SkStable.lostProduct_skel _ hn1 h2).trans hs1
            have hn3 : Sk.Nodup (s2.setDetachedRec k (s.isDetached c)).skel := by
              rw [skel_setDetachedRec]
              exact nodup_map _ (setD_key _ _) (by rw [hs2]; exact nodup_map _ (setRow_key _ _ _) hn)
            refine ⟨fun x => (s2.descendants k).contains x, ?_, ?_⟩
            · intro x hx
              rw [descendants_contains, hs2] at hx; exact hx
            · rw [SkStable.flagIfStep_skel k hn3 h, skel_setDetachedRec, hs2]

theorem own_reattachStep (k c : Key) (s s' : KState) (hp : Own s) (hk : k.kind = .step)
    (hg : s.isDetached c = false → RecycleClean s k) (h : s.reattach k c = .ok s') : Own s' := by
  have hok' : Sk.OK s'.skel := SkStable.reattach_preserves skStable_ok k c s s' hp.1 h
  obtain ⟨D, hD, hs'⟩ := reattach_skel hp.1 h
  cases hd : s.isDetached c with
  | true =>
    rw [hd] at hs'
    refine ownSk_mono hok' ?_ hp
    rw [hs']
    exact (attSub_setD_det _ _).trans (attSub_setRow_det _ _ _)
  | false =>
    rw [hd] at hs' hD
    obtain ⟨hdisj, htob⟩ := hg hd
    -- every attached file or tree row afterwards is a row of the state before that the guard speaks about
    have hrow : ∀ t' ∈ s'.skel, (t'.1.kind = .st ∨ t'.1.kind = .file) → t'.2.2 = false →
        ∃ n ∈ s.nodes, n.key = t'.1 ∧ n.creator = t'.2.1 ∧ recycled s k n = true := by
      intro t' ht' hkind hd'
      rw [hs'] at ht'
      unfold setD at ht'
      obtain ⟨t1, ht1, rfl⟩ := List.mem_map.1 ht'
      have hkey : (if D t1.1 = true then (t1.1, t1.2.1, false) else t1).1 = t1.1 := setD_key D false t1
      have hcre : (if D t1.1 = true then (t1.1, t1.2.1, false) else t1).2.1 = t1.2.1 := by split <;> rfl
      rw [hkey] at hkind
      rcases mem_setRow ht1 with ⟨rfl, _⟩ | ⟨hm, hne⟩
      · exfalso; rcases hkind with h2 | h2 <;> · simp only at h2; rw [hk] at h2; cases h2
      · obtain ⟨n, hn, rfl⟩ := mem_skel.1 hm
        refine ⟨n, hn, hkey.symm, hcre.symm, ?_⟩
        unfold recycled
        by_cases hDt : D n.tri.1 = true
        · rcases desc_setRow (hD _ hDt) with h3 | h3
          · exact absurd h3 hne
          · have : (s.descendants k).contains n.key = true := (descendants_contains s k n.key).2 h3
            rw [this]; simp
        · rw [if_neg hDt] at hd'
          have : n.detached = false := hd'
          rw [this]; simp
    refine ⟨hok', ?_, ?_⟩
    · intro a ha b hb hka haa hkb hab hne
      obtain ⟨na, hna, hka', _, hra⟩ := hrow a ha (.inl hka) haa
      obtain ⟨nb, hnb, hkb', _, hrb⟩ := hrow b hb (.inl hkb) hab
      have := hdisj na hna nb hnb (hka' ▸ hka) hra (hkb' ▸ hkb) hrb (by rw [hka', hkb']; exact hne)
      rw [hka', hkb'] at this; exact this
    · intro f hf hfk hfa c' hc' hex
      obtain ⟨u, hu, huk, hua, hup⟩ := hex
      obtain ⟨nf, hnf, hkf', hcf, hrf⟩ := hrow f hf (.inr hfk) hfa
      obtain ⟨nu, hnu, hku', _, hru⟩ := hrow u hu (.inl huk) hua
      obtain ⟨t, _, htk, _, htp, htc⟩ := htob nf hnf (hkf' ▸ hfk) hrf c' (hcf.trans hc')
        ⟨nu, hnu, hku' ▸ huk, hru, by rw [hkf', hku']; exact hup⟩
      rw [hkf'] at htp
      exact ⟨htc ▸ htk, by rw [← htc]; exact htp⟩

/-- **The instance**: the invariant `Own` survives every rewrite of the creator forest under the guards above. -/
theorem ownL : OwnL Own where
  toFrame := own_frame
  detach_preserves := own_detach
  deletePass_preserves := own_deletePass
  createFree := own_createFree
  createFile := own_createFile
  treeCreateHandOver := own_treeCreateHandOver
  reattachStep := own_reattachStep

end StepupModel.K.Own
