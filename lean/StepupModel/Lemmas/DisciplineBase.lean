import StepupModel.Lemmas.MetaAfterW
import StepupModel.Lemmas.StableInst
/-!
# The flag discipline of `_update_meta_after`: soft writes

`CacheInvAfterW` (the weak flag discipline, `Lemmas/MetaAfterW.lean`) is the hypothesis of the
worklist theorems.  This file starts the proof that the writers of the model maintain it.

A *soft* change of a state keeps the dependency table and rewrites rows so that, row by row
(`SoftRow`): key, creator and `detached` stay, a file keeps its role (more than
`REGULAR_OUTPUT_WHERE` reads of the state: the VOLATILE border), `_check_after` is only ever raised, and the declared need
and the cached pair change only on rows that end up flagged.  `SoftRel` is reflexive and transitive,
and `cacheInvW_soft` shows that a soft change preserves the weak discipline.
-/
namespace StepupModel.K.Discipline
open StepupModel.K.MetaAfter

/-! ## Related lists -/

/-- Two lists of the same length whose entries are related one by one. -/
inductive All₂ {α : Type} (R : α → α → Prop) : List α → List α → Prop
  | nil : All₂ R [] []
  | cons {a b : α} {l l' : List α} : R a b → All₂ R l l' → All₂ R (a :: l) (b :: l')

theorem forall₂_refl {α : Type} {R : α → α → Prop} (h : ∀ x, R x x) : ∀ l : List α, All₂ R l l
  | [] => .nil
  | x :: l => .cons (h x) (forall₂_refl h l)

theorem forall₂_trans {α : Type} {R : α → α → Prop} (h : ∀ x y z, R x y → R y z → R x z) :
    ∀ {a b c : List α}, All₂ R a b → All₂ R b c → All₂ R a c
  | _, _, _, .nil, .nil => .nil
  | _, _, _, .cons h1 t1, .cons h2 t2 => .cons (h _ _ _ h1 h2) (forall₂_trans h t1 t2)

theorem forall₂_map {α : Type} {R : α → α → Prop} (g : α → α) :
    ∀ l : List α, (∀ x ∈ l, R x (g x)) → All₂ R l (l.map g)
  | [], _ => .nil
  | x :: l, h => .cons (h x List.mem_cons_self) (forall₂_map g l fun y hy => h y (List.mem_cons_of_mem _ hy))

theorem forall₂_mem_right {α : Type} {R : α → α → Prop} :
    ∀ {l l' : List α}, All₂ R l l' → ∀ y ∈ l', ∃ x ∈ l, R x y
  | _, _, .nil, y, hy => by cases hy
  | _, _, .cons (a := a) (b := b) h t, y, hy => by
    rcases List.mem_cons.1 hy with rfl | hy
    · exact ⟨a, List.mem_cons_self, h⟩
    · obtain ⟨x, hx, hr⟩ := forall₂_mem_right t y hy
      exact ⟨x, List.mem_cons_of_mem _ hx, hr⟩

theorem forall₂_mem_left {α : Type} {R : α → α → Prop} :
    ∀ {l l' : List α}, All₂ R l l' → ∀ x ∈ l, ∃ y ∈ l', R x y
  | _, _, .nil, y, hy => by cases hy
  | _, _, .cons (a := a) (b := b) h t, x, hx => by
    rcases List.mem_cons.1 hx with rfl | hx
    · exact ⟨b, List.mem_cons_self, h⟩
    · obtain ⟨y, hy, hr⟩ := forall₂_mem_left t x hx
      exact ⟨y, List.mem_cons_of_mem _ hy, hr⟩

/-- Two options related by `R` (both absent, or both present and related). -/
def OptRel {α : Type} (R : α → α → Prop) : Option α → Option α → Prop
  | some a, some b => R a b
  | none, none => True
  | _, _ => False

theorem forall₂_filterMap {α β : Type} {R : β → β → Prop} {f g : α → Option β} :
    ∀ (l : List α), (∀ x ∈ l, OptRel R (f x) (g x)) → All₂ R (l.filterMap f) (l.filterMap g)
  | [], _ => .nil
  | x :: l, h => by
    have ht := forall₂_filterMap l fun y hy => h y (List.mem_cons_of_mem _ hy)
    have hx := h x List.mem_cons_self
    simp only [List.filterMap_cons]
    cases hf : f x <;> cases hg : g x <;> rw [hf, hg] at hx
    · exact ht
    · exact hx.elim
    · exact hx.elim
    · exact .cons hx ht

/-! ## Soft rows -/

/-- What a row may do without disturbing the weak discipline. -/
def SoftRow (n n' : Node) : Prop :=
  n'.key = n.key ∧ n'.detached = n.detached ∧ (n'.creator = n.creator ∧ n'.fstate.role? = n.fstate.role?) ∧
  (n.checkAfter = true → n'.checkAfter = true) ∧
  (n'.checkAfter = true ∨ (n'.need = n.need ∧ n'.impliedNeed = n.impliedNeed ∧ n'.tail = n.tail))

theorem volatile_iff_of_role {a b : FileState} (h : a.role? = b.role?) : a = .volatile ↔ b = .volatile := by
  cases a <;> cases b <;> simp_all [FileState.role?]

theorem SoftRow.volatile {n n' : Node} (h : SoftRow n n') : n'.fstate = .volatile ↔ n.fstate = .volatile :=
  volatile_iff_of_role h.2.2.1.2

theorem SoftRow.refl (n : Node) : SoftRow n n := ⟨rfl, rfl, ⟨rfl, rfl⟩, id, .inr ⟨rfl, rfl, rfl⟩⟩

theorem SoftRow.trans (a b c : Node) (h1 : SoftRow a b) (h2 : SoftRow b c) : SoftRow a c := by
  obtain ⟨k1, d1, v1, f1, t1⟩ := h1
  obtain ⟨k2, d2, v2, f2, t2⟩ := h2
  refine ⟨k2.trans k1, d2.trans d1, ⟨v2.1.trans v1.1, v2.2.trans v1.2⟩, fun h => f2 (f1 h), ?_⟩
  rcases t2 with h | ⟨x2, y2, z2⟩
  · exact .inl h
  · rcases t1 with h | ⟨x1, y1, z1⟩
    · exact .inl (f2 h)
    · exact .inr ⟨x2.trans x1, y2.trans y1, z2.trans z1⟩

/-- A row function all of whose changes are soft. -/
def SoftFn (f : Node → Node) : Prop := ∀ n, SoftRow n (f n)

theorem SoftFn.ite {f : Node → Node} (hf : SoftFn f) (p : Node → Bool) : SoftFn fun n => if p n then f n else n := by
  intro n
  by_cases hp : p n = true
  · simp only [hp, if_true]; exact hf n
  · simp only [hp]; exact SoftRow.refl n

/-- A neutral row function (of `Lemmas/MetaAfter.lean`) that keeps the creator is soft. -/
theorem softFn_of_neutral {f : Node → Node} (hf : AfterNeutral f) (hc : ∀ n, (f n).creator = n.creator) : SoftFn f := by
  intro n
  obtain ⟨hv, h1, h2, h3⟩ := hf n
  refine ⟨view_key hv, view_detached hv, ⟨hc n, by rw [view_fstate hv]⟩, fun h => by rw [h3]; exact h,
    .inr ⟨view_need hv, h1, h2⟩⟩

/-! ## Soft changes of a state -/

/-- Same dependency table, rows related one by one by `SoftRow` (the deletion queue is free). -/
structure SoftRel (s s' : KState) : Prop where
  deps : s'.deps = s.deps
  rows : All₂ SoftRow s.nodes s'.nodes

theorem SoftRel.refl (s : KState) : SoftRel s s := ⟨rfl, forall₂_refl SoftRow.refl _⟩

theorem SoftRel.trans {a b c : KState} (h1 : SoftRel a b) (h2 : SoftRel b c) : SoftRel a c :=
  ⟨h2.deps.trans h1.deps, forall₂_trans SoftRow.trans h1.rows h2.rows⟩

theorem softRel_mapNodes (s : KState) (g : Node → Node) (hg : ∀ n ∈ s.nodes, SoftRow n (g n)) :
    SoftRel s { s with nodes := s.nodes.map g } := ⟨rfl, forall₂_map g _ hg⟩

theorem softRel_modifyWhere (s : KState) (p : Node → Bool) {f : Node → Node} (hf : SoftFn f) :
    SoftRel s (s.modifyWhere p f) := by
  rw [modifyWhere_eq]
  exact softRel_mapNodes s _ fun n _ => hf.ite p n

theorem softRel_modify (s : KState) (k : Key) {f : Node → Node} (hf : SoftFn f) : SoftRel s (s.modify k f) := by
  unfold KState.modify
  exact softRel_mapNodes s _ fun n _ => by
    by_cases h : n.key = k
    · simp only [h, if_true]; exact hf n
    · simp only [h, if_false]; exact SoftRow.refl n

theorem softRel_queue (s : KState) (q : List (String × Option Nat)) : SoftRel s { s with toBeDeleted := q } :=
  ⟨rfl, forall₂_refl SoftRow.refl _⟩

theorem keys_of_rows : ∀ {l l' : List Node}, All₂ SoftRow l l' → l'.map (·.key) = l.map (·.key)
  | _, _, .nil => rfl
  | _, _, .cons h t => by simp only [List.map_cons, h.1, keys_of_rows t]

theorem SoftRel.keysUnique {s s' : KState} (h : SoftRel s s') (hk : KeysUnique s) : KeysUnique s' := by
  unfold KeysUnique at *
  rw [keys_of_rows h.rows]; exact hk

theorem find?_rows (k : Key) : ∀ {l l' : List Node}, All₂ SoftRow l l' →
    OptRel SoftRow (l.find? (·.key = k)) (l'.find? (·.key = k))
  | _, _, .nil => trivial
  | _, _, .cons (a := a) (b := b) h t => by
    simp only [List.find?_cons, h.1]
    by_cases hk : a.key = k
    · simp only [hk, decide_true]; exact h
    · simp only [hk, decide_false]; exact find?_rows k t

theorem SoftRel.find? {s s' : KState} (h : SoftRel s s') (k : Key) : OptRel SoftRow (s.find? k) (s'.find? k) :=
  find?_rows k h.rows

theorem lookupRegularOutput_eq (st : FileState) (d : Bool) :
    lookupRegularOutput st d = (!d && decide (st ≠ .volatile)) := by
  cases st <;> cases d <;> decide

theorem SoftRel.regularOutputs {s s' : KState} (h : SoftRel s s') (k : Key) :
    s'.regularOutputs k = s.regularOutputs k := by
  unfold KState.regularOutputs KState.sinksOf
  rw [h.deps]
  apply filterMap_congr'
  intro c _
  have := h.find? c
  revert this
  cases s.find? c <;> cases s'.find? c <;> intro this
  · rfl
  · exact this.elim
  · exact this.elim
  · rename_i n n'
    have hv := SoftRow.volatile this
    obtain ⟨hk, hd, _, _, _⟩ := this
    simp only [hk, hd, lookupRegularOutput_eq]
    have : decide (n'.fstate ≠ .volatile) = decide (n.fstate ≠ .volatile) := by
      by_cases hx : n.fstate = .volatile
      · simp [hx, hv.2 hx]
      · have : ¬ n'.fstate = .volatile := fun hy => hx (hv.1 hy)
        simp [hx, this]
    rw [this]

theorem SoftRel.consumerSteps {s s' : KState} (h : SoftRel s s') (k : Key) :
    All₂ SoftRow (s.consumerSteps k) (s'.consumerSteps k) := by
  unfold KState.consumerSteps KState.sinksOf
  rw [h.deps]
  apply forall₂_filterMap
  intro c _
  have := h.find? c
  revert this
  cases s.find? c <;> cases s'.find? c <;> intro this
  · trivial
  · exact this.elim
  · exact this.elim
  · rename_i n n'
    obtain ⟨hk, hd, _⟩ := id this
    simp only [hk, hd]
    by_cases hc : n.key.kind = Kind.step ∧ (!n.detached) = true
    · simp only [hc, and_self, if_true]; exact this
    · simp only [hc, if_false]; trivial

theorem pairs_of_rows : ∀ {l l' : List Node}, All₂ SoftRow l l' → (∀ m ∈ l', m.checkAfter = false) →
    (l'.map fun m => (m.impliedNeed, m.tail)) = l.map fun m => (m.impliedNeed, m.tail)
  | _, _, .nil, _ => rfl
  | _, _, .cons (a := a) (b := b) h t, hu => by
    have hb := hu b List.mem_cons_self
    rcases h.2.2.2.2 with hf | ⟨_, h1, h2⟩
    · rw [hb] at hf; cases hf
    · simp only [List.map_cons, h1, h2, pairs_of_rows t fun m hm => hu m (List.mem_cons_of_mem _ hm)]

/-- **A soft change preserves the weak flag discipline.** -/
theorem cacheInvW_soft {s s' : KState} (cfg : KConfig) (h : SoftRel s s') (hc : CacheInvAfterW s cfg) :
    CacheInvAfterW s' cfg := by
  intro n' hn' hstep hatt hflag
  obtain ⟨n, hn, hk, hd, _, hmono, htr⟩ := forall₂_mem_right h.rows n' hn'
  have hcons := h.consumerSteps n.key
  have hflag0 : n.checkAfter = false := by
    cases hx : n.checkAfter with
    | false => rfl
    | true => rw [hmono hx] at hflag; cases hflag
  rw [hk]
  by_cases hex : ∃ m ∈ s'.consumerSteps n.key, m.checkAfter = true
  · exact .inr hex
  · left
    have hall : ∀ m ∈ s'.consumerSteps n.key, m.checkAfter = false := by
      intro m hm
      cases hx : m.checkAfter with
      | false => rfl
      | true => exact absurd ⟨m, hm, hx⟩ hex
    rcases htr with hf | ⟨hneed, himp, htail⟩
    · rw [hflag] at hf; cases hf
    · rcases hc n hn (hk ▸ hstep) (hd ▸ hatt) hflag0 with hloc | ⟨m, hm, hmf⟩
      · unfold AfterLocal at hloc ⊢
        rw [afterValues_eq_core] at hloc ⊢
        rw [hk, hneed, himp, htail, h.regularOutputs]
        unfold consumerPairs
        rw [pairs_of_rows hcons hall]
        exact hloc
      · obtain ⟨m', hm', hr⟩ := forall₂_mem_left hcons m hm
        have := hall m' hm'
        rw [hr.2.2.2.1 hmf] at this; cases this

end StepupModel.K.Discipline

