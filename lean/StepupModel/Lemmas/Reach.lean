import StepupModel.Lemmas.ReachLift
import StepupModel.Lemmas.ReachWF
/-!
# C09, first clause: a node is detached exactly when it is not reachable from the root

`Trellis._check_consistency` checks a *local* invariant of the creator links: (i) the root is
attached (and its own creator), (ii) an attached node other than the root has a creator that
exists and is attached, (iii) a detached node has no creator, a creator that does not exist, or a
detached creator.  This file

* defines that invariant on the kernel model (`CreatorOK`), reachability through creator links
  (`Reach`) and shows `attached_iff_reach`: under `CreatorOK`, one row per key and well-founded
  creator links among attached nodes (`AttachedWF`, which is necessary too:
  `attachedWF_of_reach`), a node is attached exactly when it is reachable from the root;
* shows that the local invariant (with its companions: one row per key, no dangling creator:
  `Forest`) and the well-foundedness (`ForestWF`) are kept by every accepted request of the kernel
  model, hence hold after every history (`forest_reachable`, `forestWF_reachable`), so that the
  clause holds after every history (`detached_iff_not_reach_reachable`).  `detach` of the root is
  not an exception: the CHECKs of the `node` table reject it (`detach_root_rejected`).

The work is done on the list of `(key, creator, detached)` triples: `Lemmas/ReachSkel.lean` (the
mathematics), `Lemmas/ReachDesc.lean` (the recursive walk of `RECURSIVELY_SET_DETACHED` is exact),
`Lemmas/ReachFrame.lean` (operations that do not write these columns), `Lemmas/ReachLift.lean` (the
lift through every composite operation).
-/
namespace StepupModel.K
open StepupModel.Lemmas Sk
set_option linter.unusedSimpArgs false

/-! ## The local invariant is stable -/

theorem fitsRow_none (l : List Tri) (k : Key) : FitsRow l k none true := by
  refine ⟨fun c hc => (by cases hc), ?_⟩
  constructor
  · intro h; cases h
  · rintro ⟨c, hc, _⟩; cases hc

theorem fitsRow_some {l : List Tri} {k c : Key} {d : Bool} (hck : c ≠ k) (hhas : Has l c) (hd : d = false ↔ Att l c) :
    FitsRow l k (some c) d := by
  refine ⟨fun c' hc' => ?_, ?_⟩
  · simp only [Option.some.injEq] at hc'
    subst hc'; exact ⟨hck, hhas⟩
  · simp only [Option.some.injEq, exists_eq_left']
    exact hd

/-- The local invariant of the creator forest survives the seven rewrites of the kernel. -/
theorem skStable_ok : SkStable Sk.OK where
  ok _ h := h
  detachAtt l k ck D hq hk hrow hD := ok_setRow_desc hq hk ⟨_, hrow, rfl⟩ (fitsRow_none l k) D hD
  detachDet l k ck hq hrow := by
    refine ok_setRow hq (ne_root_of_detached hq hrow) ⟨_, hrow, rfl⟩ (fitsRow_none l k) ?_
    constructor
    · intro h; exact absurd h (not_att_of_detached hq hrow)
    · intro h; cases h
  reattach l k ck c d D hq hrow hck hhas _ hd hD :=
    ok_setRow_desc hq (ne_root_of_detached hq hrow) ⟨_, hrow, rfl⟩ (fitsRow_some hck hhas hd) D hD
  recycle l k ck newc d hq hrow hfits _ := (ok_recycle hq hrow hfits).1
  append l k newc d hq hfresh hk hd := ok_append hq hfresh (fun c hc => (hk c hc).1) hd
  hand l tk hs hq htk _ hfile hatt := by
    refine ok_hand hq htk ?_ hatt
    intro hr
    have := hfile _ hr
    cases this
  filter l D hq hdet hleaf := ok_filter hq D hdet hleaf

theorem init_skOK : Sk.OK KState.init.skel := by
  have e : KState.init.skel = [(rootKey, some rootKey, false)] := rfl
  rw [e]
  refine ⟨?_, ?_, ?_, ?_⟩
  · unfold Sk.Nodup; simp
  · exact List.mem_singleton.2 rfl
  · intro t ht hr
    simp only [List.mem_singleton] at ht
    subst ht; exact absurd rfl hr
  · intro t ht c hc
    simp only [List.mem_singleton] at ht
    subst ht
    simp only [Option.some.injEq] at hc
    subst hc
    exact ⟨_, List.mem_singleton.2 rfl, rfl⟩

/-! ## The invariant of `Trellis._check_consistency`, on the model -/

/-- (i) the root exists, is attached and is its own creator. -/
def RootAttached (s : KState) : Prop :=
  ∃ r, s.find? rootKey = some r ∧ r.detached = false ∧ r.creator = some rootKey

/-- The local invariant of the creator links: (i) the root is attached; (ii) an attached node other
than the root has a creator that exists and is attached; (iii) the creator of a detached node, if
it has one and that one exists, is detached. -/
def CreatorOK (s : KState) : Prop :=
  RootAttached s ∧
  (∀ n ∈ s.nodes, n.key ≠ rootKey → n.detached = false →
    ∃ c cn, n.creator = some c ∧ s.find? c = some cn ∧ cn.detached = false) ∧
  (∀ n ∈ s.nodes, n.detached = true → ∀ c, n.creator = some c → ∀ cn, s.find? c = some cn → cn.detached = true)

/-- No dangling creator (the foreign key `node.creator`). -/
def CreatorsExist (s : KState) : Prop := ∀ n ∈ s.nodes, ∀ c, n.creator = some c → s.has c = true

/-- Reachable from the root through creator links. -/
inductive Reach (s : KState) : Key → Prop
  | root : Reach s rootKey
  | step (k c : Key) (n : Node) : s.find? k = some n → n.creator = some c → Reach s c → Reach s k

/-- The creator links among attached nodes have no cycle: "`c` is the creator of the attached,
non-root node `k`" is a well-founded relation. -/
def AttachedWF (s : KState) : Prop :=
  WellFounded fun c k => k ≠ rootKey ∧ ∃ n, s.find? k = some n ∧ n.detached = false ∧ n.creator = some c

theorem find?_self {s : KState} (hk : KeysNodup s) {n : Node} (hn : n ∈ s.nodes) : s.find? n.key = some n := by
  have hnd := (skNodup_iff s).2 hk
  cases hf : s.find? n.key with
  | none => exact absurd ⟨n.tri, mem_skel_of_mem hn, rfl⟩ ((find?_none_iff s n.key).1 hf)
  | some m =>
    have hm := find?_mem s n.key m hf
    rw [nodes_uniq s hnd hm.1 hn hm.2]

/-- A node reachable from the root is attached. -/
theorem reach_attached {s : KState} (hc : CreatorOK s) {k : Key} (h : Reach s k) :
    ∃ n, s.find? k = some n ∧ n.detached = false := by
  induction h with
  | root =>
    obtain ⟨r, hr, hd, _⟩ := hc.1
    exact ⟨r, hr, hd⟩
  | step k c n hf hcr _ ih =>
    obtain ⟨cn, hcn, hcd⟩ := ih
    refine ⟨n, hf, ?_⟩
    cases hd : n.detached with
    | false => rfl
    | true =>
      have := hc.2.2 n (find?_mem s k n hf).1 hd c hcr cn hcn
      rw [hcd] at this; cases this

/-- With well-founded creator links, an attached node is reachable from the root. -/
theorem attached_reach {s : KState} (hc : CreatorOK s) (hwf : AttachedWF s) (k : Key) :
    (∃ n, s.find? k = some n ∧ n.detached = false) → Reach s k := by
  refine hwf.induction (C := fun k => (∃ n, s.find? k = some n ∧ n.detached = false) → Reach s k) k ?_
  intro k ih ⟨n, hf, hd⟩
  by_cases hk : k = rootKey
  · rw [hk]; exact Reach.root
  · have hm := find?_mem s k n hf
    obtain ⟨c, cn, hcr, hcn, hcd⟩ := hc.2.1 n hm.1 (by rw [hm.2]; exact hk) hd
    exact Reach.step k c n hf hcr (ih c ⟨hk, n, hf, hd, hcr⟩ ⟨cn, hcn, hcd⟩)

/-- **C09, first clause.**  Under the local invariant of `_check_consistency`, one row per key and
well-founded creator links among attached nodes, a node is attached exactly when it is reachable
from the root through creator links (so: detached exactly when it is not). -/
theorem attached_iff_reach (s : KState) (hk : KeysNodup s) (hc : CreatorOK s) (hwf : AttachedWF s) :
    ∀ n ∈ s.nodes, (n.detached = false ↔ Reach s n.key) := by
  intro n hn
  have hf := find?_self hk hn
  constructor
  · intro hd; exact attached_reach hc hwf n.key ⟨n, hf, hd⟩
  · intro hr
    obtain ⟨m, hm, hd⟩ := reach_attached hc hr
    rw [hf] at hm
    simp only [Option.some.injEq] at hm
    rw [hm]; exact hd

theorem detached_iff_not_reach (s : KState) (hk : KeysNodup s) (hc : CreatorOK s) (hwf : AttachedWF s) :
    ∀ n ∈ s.nodes, (n.detached = true ↔ ¬ Reach s n.key) := by
  intro n hn
  rw [← attached_iff_reach s hk hc hwf n hn]
  cases n.detached <;> simp

/-- The well-foundedness hypothesis of `attached_iff_reach` is the weakest possible: it follows
from its conclusion. -/
theorem attachedWF_of_reach (s : KState)
    (h : ∀ k n, s.find? k = some n → n.detached = false → Reach s k) : AttachedWF s := by
  have hacc : ∀ k, Reach s k →
      Acc (fun c k => k ≠ rootKey ∧ ∃ n, s.find? k = some n ∧ n.detached = false ∧ n.creator = some c) k := by
    intro k hr
    induction hr with
    | root => exact Acc.intro _ (fun c hR => absurd rfl hR.1)
    | step k c n hf hcr _ ih =>
      refine Acc.intro _ (fun c' hR => ?_)
      obtain ⟨_, n', hf', _, hcr'⟩ := hR
      rw [hf] at hf'
      simp only [Option.some.injEq] at hf'
      subst hf'
      rw [hcr] at hcr'
      simp only [Option.some.injEq] at hcr'
      subst hcr'; exact ih
  refine WellFounded.intro (fun k => Acc.intro k (fun c hR => ?_))
  obtain ⟨_, n, hf, hd, _⟩ := id hR
  exact (hacc k (h k n hf hd)).inv hR

/-! ## `CreatorOK` and the list-level invariant -/

/-- `CreatorOK` with one row per key and no dangling creator is the list-level invariant `Sk.OK` of
the creator forest. -/
theorem skOK_iff (s : KState) : Sk.OK s.skel ↔ (KeysNodup s ∧ CreatorsExist s ∧ CreatorOK s) := by
  constructor
  · intro h
    have hn := h.nodup
    refine ⟨(skNodup_iff s).1 hn, ?_, ?_, ?_, ?_⟩
    · intro n hm c hc
      rw [has_iff_skel]
      exact h.exist _ (mem_skel_of_mem hm) c hc
    · obtain ⟨r, hr, h1, h2⟩ := find?_of_row hn h.root
      exact ⟨r, hr, h2, h1⟩
    · intro n hm hroot hd
      obtain ⟨c, hc, hac⟩ := (h.loc _ (mem_skel_of_mem hm) hroot).1 hd
      obtain ⟨t, ht, htk, htd⟩ := hac
      obtain ⟨tk, tc, td⟩ := t
      simp only at htk htd
      subst htk htd
      obtain ⟨cn, hcn, _, hcd⟩ := find?_of_row hn ht
      exact ⟨tk, cn, hc, hcn, hcd⟩
    · intro n hm hd c hc cn hcn
      cases hcd : cn.detached with
      | true => rfl
      | false =>
        exfalso
        have hroot : n.key ≠ rootKey := by
          intro hr
          have := Sk.uniq hn (mem_skel_of_mem hm) h.root hr
          simp only [Node.tri, Prod.mk.injEq] at this
          rw [this.2.2] at hd; cases hd
        have hatt : Att s.skel c := ⟨_, find?_row hcn, rfl, hcd⟩
        have := (h.loc _ (mem_skel_of_mem hm) hroot).2 ⟨c, hc, hatt⟩
        have hd' : n.detached = false := this
        rw [hd] at hd'; cases hd'
  · rintro ⟨hk, he, hroot, hii, hiii⟩
    have hn := (skNodup_iff s).2 hk
    refine ⟨hn, ?_, ?_, ?_⟩
    · obtain ⟨r, hr, h1, h2⟩ := hroot
      have := find?_row hr
      rw [h1, h2] at this; exact this
    · intro t ht hr
      obtain ⟨n, hm, rfl⟩ := List.mem_map.1 ht
      unfold LocalAt
      show n.detached = false ↔ ∃ c, n.creator = some c ∧ Att s.skel c
      constructor
      · intro hd
        obtain ⟨c, cn, hc, hcn, hcd⟩ := hii n hm hr hd
        exact ⟨c, hc, _, find?_row hcn, rfl, hcd⟩
      · rintro ⟨c, hc, hac⟩
        cases hd : n.detached with
        | false => rfl
        | true =>
          have hdet := (isDetached_false_iff hn c).2 hac
          unfold KState.isDetached at hdet
          cases hcn : s.find? c with
          | none => simp [hcn] at hdet
          | some cn =>
            simp only [hcn] at hdet
            have := hiii n hm hd c hc cn hcn
            rw [hdet] at this; cases this
    · intro t ht c hc
      obtain ⟨n, hm, rfl⟩ := List.mem_map.1 ht
      exact (has_iff_skel s c).1 (he n hm c hc)

/-! ## The invariant through requests and histories -/

/-- The local invariant with its companions: one row per key, no dangling creator. -/
def Forest (s : KState) : Prop := KeysNodup s ∧ CreatorsExist s ∧ CreatorOK s

theorem forest_iff (s : KState) : Forest s ↔ PQ Sk.OK s := (skOK_iff s).symm

theorem init_forest : Forest KState.init := (forest_iff _).2 init_skOK

/-- Every accepted request keeps the local invariant (with its companions). -/
theorem exec_forest (cfg : KConfig) (r : Req) (s : KState) (res : KState × String)
    (hp : Forest s) (h : s.exec cfg r = .ok res) : Forest res.1 :=
  (forest_iff _).2 (exec_skStable skStable_ok cfg r s res ((forest_iff _).1 hp) h)

theorem exec_creatorOK (cfg : KConfig) (r : Req) (s : KState) (res : KState × String)
    (hk : KeysNodup s) (he : CreatorsExist s) (hc : CreatorOK s)
    (h : s.exec cfg r = .ok res) : CreatorOK res.1 :=
  (exec_forest cfg r s res ⟨hk, he, hc⟩ h).2.2

theorem step_forest (cfg : KConfig) (r : Req) (s : KState) (hp : Forest s) : Forest (s.step cfg r) :=
  (forest_iff _).2 (step_skStable skStable_ok cfg r s ((forest_iff _).1 hp))

theorem step_creatorOK (cfg : KConfig) (r : Req) (s : KState)
    (hk : KeysNodup s) (he : CreatorsExist s) (hc : CreatorOK s) : CreatorOK (s.step cfg r) :=
  (step_forest cfg r s ⟨hk, he, hc⟩).2.2

theorem run_forest (h : List (KConfig × Req)) (s : KState) (hp : Forest s) : Forest (s.run h) :=
  (forest_iff _).2 (run_skStable skStable_ok h s ((forest_iff _).1 hp))

theorem run_creatorOK (h : List (KConfig × Req)) (s : KState)
    (hk : KeysNodup s) (he : CreatorsExist s) (hc : CreatorOK s) : CreatorOK (s.run h) :=
  (run_forest h s ⟨hk, he, hc⟩).2.2

/-- After every history of accepted and rejected requests: the local invariant of
`_check_consistency`, one row per key, no dangling creator. -/
theorem forest_reachable (h : List (KConfig × Req)) : Forest (KState.init.run h) :=
  run_forest h KState.init init_forest

theorem creatorOK_reachable (h : List (KConfig × Req)) : CreatorOK (KState.init.run h) :=
  (forest_reachable h).2.2

/-- `Node.detach` of the root is rejected: the CHECKs of the `node` table (`kind != 'root' OR
creator IS i`, `kind != 'root' OR NOT detached`) refuse the write. -/
theorem detach_root_rejected (s : KState) (hr : RootAttached s) : ∃ e, s.detach rootKey = .error e := by
  obtain ⟨r, hf, _, hc⟩ := hr
  have hall : s.creatorAllowed rootKey none true = false := by
    unfold KState.creatorAllowed
    rw [if_pos (show rootKey.kind = Kind.root from rfl)]
    simp
  refine ⟨.integrity, ?_⟩
  unfold KState.detach
  simp only [hf]
  unfold KState.detachCore
  simp only [hc, Option.isSome_some, if_true]
  unfold KState.setCreator
  simp [hall, bind, Except.bind, throw, throwThe, MonadExceptOf.throw]

/-- As a request it leaves the state as it is. -/
theorem detach_root_request_noop (s : KState) (cfg : KConfig) (hr : RootAttached s) :
    s.step cfg (.detach rootKey) = s := by
  obtain ⟨e, he⟩ := detach_root_rejected s hr
  unfold KState.step
  simp [KState.exec, unitOut, he, bind, Except.bind]

/-! ## The operations that write `creator` / `detached`, one by one -/

/-- `Node.detach` (+ `Step.detach`). -/
theorem detach_forest (k : Key) : Preserves Forest (fun s => s.detach k) :=
  fun s s' hp h => (forest_iff _).2 (skStable_ok.detach_preserves k s s' ((forest_iff _).1 hp) h)

/-- `Node.reattach` (+ `Step.reattach`). -/
theorem reattach_forest (k c : Key) : Preserves Forest (fun s => s.reattach k c) :=
  fun s s' hp h => (forest_iff _).2 (skStable_ok.reattach_preserves k c s s' ((forest_iff _).1 hp) h)

/-- `Trellis.create`, fresh or recycling. -/
theorem create_forest (k : Key) (creator : Option Key) (init : Init) (hi : InitOK init) :
    Preserves Forest (fun s => s.create k creator init) :=
  fun s s' hp h => (forest_iff _).2 (skStable_ok.create_preserves k creator init hi s s' ((forest_iff _).1 hp) h)

/-- `register_static_tree`: the tree node and the hand-over of the files of its creator. -/
theorem registerStaticTree_forest (cfg : KConfig) (creator : Key) (path : String) (s : KState)
    (r : KState × List String) (hp : Forest s) (h : s.registerStaticTree cfg creator path = .ok r) : Forest r.1 :=
  (forest_iff _).2 (skStable_ok.registerStaticTree_preserves cfg creator path s r ((forest_iff _).1 hp) h)

/-- One pass of `Trellis.delete_detached`, and the whole cleanup. -/
theorem deletePass_forest (s : KState) (r : KState × List Key × Bool) (hp : Forest s) (h : s.deletePass = .ok r) :
    Forest r.1 :=
  (forest_iff _).2 (skStable_ok.deletePass_preserves s r ((forest_iff _).1 hp) h)

theorem deleteDetached_forest : Preserves Forest (fun s => s.deleteDetached) :=
  fun s s' hp h => (forest_iff _).2 (skStable_ok.deleteDetached_preserves s s' ((forest_iff _).1 hp) h)

/-- `RECURSIVELY_SET_DETACHED` writes the flag of exactly the recursive products of `k`: every row
whose key is a recursive product gets the flag `d`, no other column and no other row changes. -/
theorem setDetachedRec_spec (s : KState) (k : Key) (d : Bool) :
    ∃ D : Key → Bool, (∀ x, D x = true ↔ Sk.Desc s.skel k x) ∧
      (s.setDetachedRec k d).skel = s.skel.map fun t => if D t.1 then (t.1, t.2.1, d) else t :=
  ⟨fun x => (s.descendants k).contains x, fun x => descendants_contains s k x, skel_setDetachedRec s k d⟩


/-! ## The global half: creator links among attached nodes stay well-founded -/

/-- The local invariant, "every attached row reaches the root", and "no row is created by a
file". -/
def Sk.Tree (l : List Tri) : Prop := Sk.OK l ∧ Sk.AR l ∧ Sk.NFC l

theorem skStable_tree : SkStable Sk.Tree where
  ok _ h := h.1
  detachAtt l k ck D hq hk hrow hD :=
    ⟨skStable_ok.detachAtt l k ck D hq.1 hk hrow hD, ar_detachAtt hq.1 hq.2.1 D hD ⟨_, hrow, rfl⟩,
      nfc_setD (nfc_setRow hq.2.2 (fun c hc => by cases hc)) D true⟩
  detachDet l k ck hq hrow :=
    ⟨skStable_ok.detachDet l k ck hq.1 hrow, ar_detachDet hq.1 hq.2.1 hrow,
      nfc_setRow hq.2.2 (fun c hc => by cases hc)⟩
  reattach l k ck c d D hq hrow hck hhas hkind hd hD := by
    refine ⟨skStable_ok.reattach l k ck c d D hq.1 hrow hck hhas hkind hd hD, ar_reattach hq.1 hq.2.1 hrow hd D hD,
      nfc_setD (nfc_setRow hq.2.2 ?_) D d⟩
    intro c' hc'
    simp only [Option.some.injEq] at hc'
    subst hc'; exact kindOk_not_file hkind
  recycle l k ck newc d hq hrow hfits hkind :=
    ⟨skStable_ok.recycle l k ck newc d hq.1 hrow hfits hkind, ar_recycle hq.1 hq.2.1 hrow hfits,
      nfc_cut (nfc_setRow hq.2.2 (fun c hc => kindOk_not_file (hkind c hc))) k⟩
  append l k newc d hq hfresh hk hd :=
    ⟨skStable_ok.append l k newc d hq.1 hfresh hk hd, ar_append hq.1 hq.2.1 hfresh hd,
      nfc_append hq.2.2 (fun c hc => kindOk_not_file (hk c hc).2)⟩
  hand l tk hs hq htk hkind hfile hatt :=
    ⟨skStable_ok.hand l tk hs hq.1 htk hkind hfile hatt, ar_hand hq.1 hq.2.1 hq.2.2 htk hkind hfile,
      nfc_hand hq.2.2 hkind hs⟩
  filter l D hq hdet hleaf :=
    ⟨skStable_ok.filter l D hq.1 hdet hleaf, ar_filter hq.1 hq.2.1 D hdet, nfc_filter hq.2.2 _⟩

theorem init_tree : Sk.Tree KState.init.skel := by
  refine ⟨init_skOK, ?_, ?_⟩
  · have e : KState.init.skel = [(rootKey, some rootKey, false)] := rfl
    intro x hx
    obtain ⟨t, ht, htx, _⟩ := hx
    rw [e] at ht
    simp only [List.mem_singleton] at ht
    subst ht
    rw [← htx]; exact Sk.Reach.root
  · have e : KState.init.skel = [(rootKey, some rootKey, false)] := rfl
    intro t ht c hc
    rw [e] at ht
    simp only [List.mem_singleton] at ht
    subst ht
    simp only [Option.some.injEq] at hc
    subst hc
    intro h; cases h

/-- No node is created by a file (the creator-kind triggers of the `node` table). -/
def NoFileCreator (s : KState) : Prop := ∀ n ∈ s.nodes, ∀ c, n.creator = some c → c.kind ≠ .file

theorem nfc_iff (s : KState) : Sk.NFC s.skel ↔ NoFileCreator s := by
  constructor
  · intro h n hn c hc
    exact h _ (mem_skel_of_mem hn) c hc
  · intro h t ht c hc
    obtain ⟨n, hn, rfl⟩ := List.mem_map.1 ht
    exact h n hn c hc

theorem reach_of_skReach {s : KState} (hn : Sk.Nodup s.skel) {k : Key} (h : Sk.Reach s.skel k) : Reach s k := by
  induction h with
  | root => exact Reach.root
  | step x c d hm _ ih =>
    obtain ⟨n, hf, hc, _⟩ := find?_of_row hn hm
    exact Reach.step x c n hf hc ih

/-- Under the local invariant, the list-level "every attached row reaches the root" is the
well-foundedness hypothesis of `attached_iff_reach`. -/
theorem ar_iff_attachedWF {s : KState} (h : Sk.OK s.skel) : Sk.AR s.skel ↔ AttachedWF s := by
  constructor
  · intro har
    refine attachedWF_of_reach s ?_
    intro k n hf hd
    exact reach_of_skReach h.nodup (har k ⟨_, find?_row hf, rfl, hd⟩)
  · intro hwf
    rw [ar_iff_wf h]
    refine Subrelation.wf ?_ hwf
    intro c x hR
    obtain ⟨n, hf, hc, hd⟩ := find?_of_row h.nodup hR.2
    exact ⟨hR.1, n, hf, hd, hc⟩

/-- The whole invariant: the local one with its companions, well-founded creator links among
attached nodes, no node created by a file. -/
def ForestWF (s : KState) : Prop := Forest s ∧ AttachedWF s ∧ NoFileCreator s

theorem forestWF_iff (s : KState) : ForestWF s ↔ PQ Sk.Tree s := by
  unfold ForestWF Sk.Tree
  constructor
  · rintro ⟨h1, h2, h3⟩
    have hpq : Sk.OK s.skel := (forest_iff s).1 h1
    exact ⟨hpq, (ar_iff_attachedWF hpq).2 h2, (nfc_iff s).2 h3⟩
  · rintro ⟨h2, h3, h4⟩
    exact ⟨(forest_iff s).2 h2, (ar_iff_attachedWF h2).1 h3, (nfc_iff s).1 h4⟩

theorem init_forestWF : ForestWF KState.init := (forestWF_iff _).2 init_tree

/-- Every accepted request keeps the whole invariant. -/
theorem exec_forestWF (cfg : KConfig) (r : Req) (s : KState) (res : KState × String)
    (hp : ForestWF s) (h : s.exec cfg r = .ok res) : ForestWF res.1 :=
  (forestWF_iff _).2 (exec_skStable skStable_tree cfg r s res ((forestWF_iff _).1 hp) h)

theorem step_forestWF (cfg : KConfig) (r : Req) (s : KState) (hp : ForestWF s) : ForestWF (s.step cfg r) :=
  (forestWF_iff _).2 (step_skStable skStable_tree cfg r s ((forestWF_iff _).1 hp))

theorem run_forestWF (h : List (KConfig × Req)) (s : KState) (hp : ForestWF s) : ForestWF (s.run h) :=
  (forestWF_iff _).2 (run_skStable skStable_tree h s ((forestWF_iff _).1 hp))

/-- After every history: the local invariant, well-founded creator links among attached nodes, no
node created by a file. -/
theorem forestWF_reachable (h : List (KConfig × Req)) : ForestWF (KState.init.run h) :=
  run_forestWF h KState.init init_forestWF

theorem attachedWF_reachable (h : List (KConfig × Req)) : AttachedWF (KState.init.run h) :=
  (forestWF_reachable h).2.1

/-- **C09, first clause, after every history of accepted and rejected requests**: a node is marked
detached exactly when it is not reachable from the root through creator links. -/
theorem detached_iff_not_reach_reachable (h : List (KConfig × Req)) :
    ∀ n ∈ (KState.init.run h).nodes, (n.detached = true ↔ ¬ Reach (KState.init.run h) n.key) := by
  obtain ⟨hf, hwf, _⟩ := forestWF_reachable h
  exact detached_iff_not_reach _ hf.1 hf.2.2 hwf

theorem attached_iff_reach_reachable (h : List (KConfig × Req)) :
    ∀ n ∈ (KState.init.run h).nodes, (n.detached = false ↔ Reach (KState.init.run h) n.key) := by
  obtain ⟨hf, hwf, _⟩ := forestWF_reachable h
  exact attached_iff_reach _ hf.1 hf.2.2 hwf

/-! Non-vacuity: the hypotheses of the main theorems are met by the empty workflow, and the
history theorems have no hypothesis left. -/

example : Forest KState.init ∧ ForestWF KState.init := ⟨init_forest, init_forestWF⟩

example : AttachedWF KState.init := init_forestWF.2.1

example : RootAttached KState.init := init_forest.2.2.1

end StepupModel.K
