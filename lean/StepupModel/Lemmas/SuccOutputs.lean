import StepupModel.Lemmas.SuccOutputsTop
import StepupModel.Lemmas.SuccOutputsHashes
import StepupModel.Lemmas.SuccOutputsTree
import StepupModel.Lemmas.Reach
/-!
# I4 "every attached output of a SUCCEEDED step is BUILT or VOLATILE" over request histories

`exec_JK`: **every** accepted request (all 24 kinds) keeps the invariant `JK` of `Lemmas/SuccOutputsBase.lean`,
the side conditions of `ReqOKS` granted (each judged on the state in which the request is issued):

* `set_state(k, SUCCEEDED)` needs the outputs of `k` finished (`SetSucceededOK`);
* `completed(k, new_hash)` needs the outputs of `k` hashed: none PLANNED (`CompletedOK`);
* `reset_for_rerun(k)` and `amend(k, ...)` need `k` not SUCCEEDED.

Every other request is unconditional (raw `detach` of an output file, `update_file_hashes` with any cause,
`mark_pending`, `completed` without a hash, ... included).  Each of the four conditions is needed:
`Lemmas/SuccOutputsWitness.lean`.  `succOutputs_after_every_history` is the statement over histories of
accepted and rejected requests under changing configurations; `succOutputsOK_of_JK` derives the oracle's form
of I4 from the invariant and the creator forest.  No property statements here.
-/
namespace StepupModel.K.SuccOut
open StepupModel.K.MetaAfter StepupModel.K.Discipline StepupModel.Lemmas StepupModel.K.Ever
set_option linter.unusedSimpArgs false
set_option linter.unusedVariables false

/-- The invariant of the histories. -/
abbrev Inv4 (s : KState) : Prop := JK All NoW NoN s

/-- **The oracle's statement follows from the invariant** and the local invariant of the creator links
(an attached node has a creator). -/
theorem succOutputsOK_of_JK {s : KState} (hp : Inv4 s) (hc : CreatorOK s) : SuccOutputsOK s := by
  intro n hn hkind hsucc d hd hsrc f hf hfk hfile hdet
  have hku := hp.keys
  have hfind : s.find? d.snk = some f := hfk ▸ find?_of_mem hku hf
  obtain ⟨f', hf', hown, _, hdone⟩ := hp.1.1 d hd (hfk ▸ hfile) trivial
  rw [hfind] at hf'; cases hf'
  have hroot : f.key ≠ rootKey := by
    intro h; rw [h] at hfile; cases hfile
  obtain ⟨c, _, hcr, _, _⟩ := hc.2.1 f hf hroot hdet
  rcases hown with ho | ho
  · rw [ho] at hcr; cases hcr
  · refine hdone ho (fun h => h) ⟨hsrc ▸ hkind, ?_⟩
    unfold KState.sstateOf
    rw [hsrc, find?_of_mem hku hn]
    simp only [Option.map_some, hsucc]

theorem inv4_init : Inv4 KState.init := by
  refine ⟨⟨fun d hd => ?_, fun _ h => h.elim⟩, init_keysNodup⟩
  simp [KState.init] at hd

/-! ## Requests -/

/-- `Step.reset_for_rerun` of a step that is not SUCCEEDED. -/
theorem resetForRerun_JK (k : Key) (s s' : KState) (hp : Inv4 s) (hk : ¬ Succ s k)
    (h : s.resetForRerun k = .ok s') : Inv4 s' := by
  let N1 : Key → Prop := fun q => NoN q ∨ q = k
  have hp1 : JK All NoW N1 s := ⟨hp.1.addN _ (fun q hq => hq ▸ hk), hp.2⟩
  have L := leafJK All NoW N1
  suffices JK All NoW N1 s' from this.weaken (fun _ h => h) (fun _ _ h => h) (fun _ h => .inl h)
  unfold KState.resetForRerun at h
  dsimp only at h
  refine bind_ok h (fun s2 h2 => ?_) ?_
  · exact foldlM_preserves _ _ _ (fun t => L.dropDynamicSink_preserves k t) _ s2
      (L.dropDynamicInputs s k hp1) h2
  · intro s2 s2' hp2 hh2
    refine bind_ok hh2 (fun s3 h3 => L.detachCreatedSteps_preserves k s2 s3 hp2 h3) ?_
    intro s3 s3' hp3 hh3
    refine bind_ok hh3 (fun s4 h4 => L.detachProductsWhere_preserves k _ s3 s4 hp3 h4) ?_
    intro s4 s4' hp4 hh4
    refine bind_ok hh4 (fun s5 h5 => L.detachProductsWhere_preserves k _ s4 s5 hp4 h5) ?_
    exact outdateBuilt_JK k (.inr rfl)

/-- `finalize.revert_optional_steps`. -/
theorem revertOptional_JK (s s' : KState) (hp : Inv4 s) (h : s.revertOptional = .ok s') : Inv4 s' := by
  -- the steps that are not SUCCEEDED at the start stay so
  let N0 : Key → Prop := fun q => NoN q ∨ ¬ Succ s q
  have hp0 : JK All NoW N0 s := ⟨hp.1.addN _ (fun q hq => hq), hp.2⟩
  suffices JK All NoW N0 s' from this.weaken (fun _ h => h) (fun _ _ h => h) (fun _ h => .inl h)
  unfold KState.revertOptional at h
  refine foldlM_mem (JK All NoW N0) (fun st (n : Node) => st.revertStep n) _ (fun st n st' hn hst hw => ?_) s s' hp0 h
  refine revertStep_JK n (fun hpend => .inr fun hs => ?_) st st' hst hw
  have hmem := (List.mem_filter.1 hn).1
  have := hs.2
  unfold KState.sstateOf at this
  rw [find?_of_mem hp.keys hmem] at this
  simp only [Option.map_some, Option.some.injEq] at this
  rw [hpend] at this; cases this

/-! ## The declaring requests -/

theorem topJK (N : Key → Prop) : Top N (JK All NoW N) :=
  ⟨midJK All NoW N, fun p creator st hst => createFile_JK (fileKey p) rfl creator st hst,
    fun cfg step p st hst hD => declareProduct_JK cfg step p st hst hD⟩

/-- The creation branch of `define_step`: the step row is PENDING when its products are declared. -/
theorem createStep_JK (cfg : KConfig) (sk creator : Key) (d : StepDecl) (hk : sk.kind ≠ .file) (s : KState)
    (r : KState × List String) (hp : Inv4 s) (h : s.createStep cfg sk creator d = .ok r) : Inv4 r.1 := by
  let N1 : Key → Prop := fun q => NoN q ∨ q = sk
  have T := topJK N1
  have L := T.mid.leaf
  suffices JK All NoW N1 r.1 from this.weaken (fun _ h => h) (fun _ _ h => h) (fun _ h => .inl h)
  unfold KState.createStep at h
  refine bind_ok_gen h (JK All NoW N1) (fun s1 h1 => ?_) (fun r => JK All NoW N1 r.1) ?_
  · have h0 := (leafJK All NoW NoN).create_preserves sk (some creator) (.step _) (fun st he => by cases he) hk s s1 hp h1
    exact ⟨h0.1.addN _ (fun q hq => hq ▸ create_step_not_succ h1), h0.2⟩
  · intro s1 r1 hp1 hh
    have hp2 : JK All NoW N1 (s1.setStepExtras sk d) := L.setStepExtras _ _ _ hp1
    refine bind_ok_gen hh (fun a => JK All NoW N1 a.1) (fun a ha => T.supplyFiles_preserves cfg sk d.inp true _ a hp2 ha)
      (fun r => JK All NoW N1 r.1) ?_
    intro a r2 ha hh2
    obtain ⟨s3, infos⟩ := a
    simp only at hh2
    have hp4 : JK All NoW N1 (s3.modify sk fun n => addEnvDeps cfg n d.env) := by
      refine L.cacheAt _ _ _ (fun n => ?_) ha
      unfold addEnvDeps
      generalize d.env = names
      induction names generalizing n with
      | nil => rfl
      | cons x xs ih => simp only [List.foldl_cons]; exact (ih _).trans rfl
    refine bind_ok_gen hh2 (JK All NoW N1)
      (fun s5 h5 => T.declareProducts_preserves cfg sk d.out .planned (.inl rfl) (.inl (.inr rfl)) _ s5 hp4 h5)
      (fun r => JK All NoW N1 r.1) ?_
    intro s5 r3 hp5 hh3
    refine bind_ok_gen hh3 (JK All NoW N1)
      (fun s6 h6 => T.declareProducts_preserves cfg sk d.vol .volatile (.inr rfl) (.inr rfl) _ s6 hp5 h6)
      (fun r => JK All NoW N1 r.1) ?_
    intro s6 r4 hp6 hh4
    simp only [pure, Except.pure, Except.ok.injEq] at hh4
    subst hh4; exact hp6

/-- `Workflow.define_step`. -/
theorem defineStep_JK (cfg : KConfig) (creator : Key) (d : StepDecl) (s : KState)
    (r : KState × List String) (hp : Inv4 s) (h : s.defineStep cfg creator d = .ok r) : Inv4 r.1 := by
  have T := topJK NoN
  unfold KState.defineStep at h
  refine bind_ok_gen h (fun sk => sk.kind ≠ .file) (fun sk hsk => ?_) (fun r => Inv4 r.1) ?_
  · obtain ⟨label, _, rfl⟩ := defineGuard_key s cfg creator _ sk hsk
    intro he; cases he
  · intro sk r1 hk hh
    split at hh
    · split at hh
      · refine bind_ok_gen hh Inv4 (fun s1 h1 => T.recycleStep_preserves sk creator _ _ hk s s1 hp h1) (fun r => Inv4 r.1) ?_
        intro s1 r2 hp1 hh2
        simp only [pure, Except.pure, Except.ok.injEq] at hh2
        subst hh2; exact hp1
      · refine bind_ok_gen hh (fun _ => True) (fun _ _ => trivial) (fun r => Inv4 r.1) ?_
        intro _ r2 _ hh2
        exact createStep_JK cfg sk creator _ hk s r2 hp hh2
    · refine bind_ok_gen hh (fun _ => True) (fun _ _ => trivial) (fun r => Inv4 r.1) ?_
      intro _ r2 _ hh2
      exact createStep_JK cfg sk creator _ hk s r2 hp hh2

/-- `Workflow.amend_step` of a step that is not SUCCEEDED. -/
theorem amendStep_JK (cfg : KConfig) (step : Key) (inp env out vol : List String) (conc : List Key) (s : KState)
    (r : KState × AmendResult) (hp : Inv4 s) (hk : ¬ Succ s step)
    (h : s.amendStep cfg step inp env out vol conc = .ok r) : Inv4 r.1 := by
  let N1 : Key → Prop := fun q => NoN q ∨ q = step
  have hp1 : JK All NoW N1 s := ⟨hp.1.addN _ (fun q hq => hq ▸ hk), hp.2⟩
  exact ((topJK N1).amendStep_preserves cfg step inp env out vol conc (.inr rfl) s r hp1 h).weaken
    (fun _ h => h) (fun _ _ h => h) (fun _ h => .inl h)

/-- The side conditions (see the header). -/
def ReqOKS (s : KState) : Req → Prop
  | .setState k st => st = .succeeded → SetSucceededOK s k
  | .completed k (some _) _ => CompletedOK s k
  | .resetRerun k => ¬ Succ s k
  | .amend k .. => ¬ Succ s k
  | _ => True

theorem unitOut_ok'' {x : M KState} {res : KState × String} (h : unitOut x = .ok res) : x = .ok res.1 :=
  StableG.unitOut_ok h

/-- **Every accepted request keeps the invariant**, its side condition granted. -/
theorem exec_JK (cfg : KConfig) (r : Req) (s : KState) (res : KState × String) (hr : ReqOKS s r)
    (hp : Inv4 s) (h : s.exec cfg r = .ok res) : Inv4 res.1 := by
  have M := midJK All NoW NoN
  have L := M.leaf
  cases r with
  | define c d =>
    simp only [KState.exec] at h
    refine bind_ok_gen h (fun a => Inv4 a.1) (fun a ha => defineStep_JK cfg c d s a hp ha) (fun r => Inv4 r.1) ?_
    intro a b ha hb; obtain ⟨st, chk⟩ := a
    simp only [pure, Except.pure, Except.ok.injEq] at hb; subst hb; exact ha
  | amend k inp env out vol conc =>
    simp only [KState.exec] at h
    refine bind_ok_gen h (fun a => Inv4 a.1) (fun a ha => amendStep_JK cfg k inp env out vol conc s a hp hr ha)
      (fun r => Inv4 r.1) ?_
    intro a b ha hb; obtain ⟨st, chk⟩ := a
    simp only [pure, Except.pure, Except.ok.injEq] at hb; subst hb; exact ha
  | static c ps =>
    simp only [KState.exec] at h
    refine bind_ok_gen h (fun a => Inv4 a.1) (fun a ha => (topJK NoN).declareStaticFiles_preserves cfg c ps s a hp ha)
      (fun r => Inv4 r.1) ?_
    intro a b ha hb; obtain ⟨st, chk⟩ := a
    simp only [pure, Except.pure, Except.ok.injEq] at hb; subst hb; exact ha
  | tree c p =>
    simp only [KState.exec] at h
    refine bind_ok_gen h (fun a => Inv4 a.1) (fun a ha => registerStaticTree_JK (topJK NoN) cfg c p s a hp ha)
      (fun r => Inv4 r.1) ?_
    intro a b ha hb; obtain ⟨st, chk⟩ := a
    simp only [pure, Except.pure, Except.ok.injEq] at hb; subst hb; exact ha
  | declStatic c ts fs ps =>
    simp only [KState.exec] at h
    refine bind_ok_gen h (fun a => Inv4 a.1) (fun a ha => declareStaticRequest_JK (topJK NoN) cfg c ts fs ps s a hp ha)
      (fun r => Inv4 r.1) ?_
    intro a b ha hb; obtain ⟨st, chk⟩ := a
    simp only [pure, Except.pure, Except.ok.injEq] at hb; subst hb; exact ha
  | hashes u c => exact updateFileHashes_JK u c s _ hp (unitOut_ok'' h)
  | nglob k p ms => exact L.registerNglob_preserves k p ms s _ hp (unitOut_ok'' h)
  | pop c =>
    simp only [KState.exec] at h
    refine bind_ok_gen h (fun a => Inv4 a.1) (fun a ha => L.popNext_preserves cfg c s a.1 a.2 hp ha) (fun r => Inv4 r.1) ?_
    intro a b ha hb; obtain ⟨st, d⟩ := a
    simp only [pure, Except.pure, Except.ok.injEq] at hb; subst hb; exact ha
  | updateMeta => exact L.updateMeta_preserves cfg s _ hp (unitOut_ok'' h)
  | resetRerun k => exact resetForRerun_JK k s _ hp hr (unitOut_ok'' h)
  | completed k nh wd =>
    simp only [KState.exec, KState.markCompleted] at h
    cases nh with
    | none =>
      simp only [bind, Except.bind] at h
      cases hcf : s.completeFailure cfg k wd with
      | error e => simp [hcf] at h
      | ok st =>
        simp only [hcf, pure, Except.pure, Except.ok.injEq] at h
        subst h
        exact completeFailure_JK cfg k wd s st hp hcf
    | some hh =>
      simp only [bind, Except.bind] at h
      cases hcs : s.completeSuccess cfg k hh with
      | error e => simp [hcs] at h
      | ok st =>
        simp only [hcs, pure, Except.pure, Except.ok.injEq] at h
        subst h
        exact completeSuccess_JK cfg k hh s st hp hr hcs
  | setState k stt => exact setStepState_JK hp hr (unitOut_ok'' h)
  | deleteHash k =>
    have := unitOut_ok'' h
    simp only [pure, Except.pure, Except.ok.injEq] at this
    rw [← this]; exact L.deleteHash s k hp
  | markPending k => exact M.markStepPending'_preserves k s _ hp (unitOut_ok'' h)
  | hold k => exact L.hold_preserves k s _ hp (unitOut_ok'' h)
  | release k => exact L.release_preserves k s _ hp (unitOut_ok'' h)
  | detach k => exact L.detach_preserves k s _ hp (unitOut_ok'' h)
  | revertOptional => exact revertOptional_JK s _ hp (unitOut_ok'' h)
  | deleteDetached => exact L.deleteDetached_preserves s _ hp (unitOut_ok'' h)
  | clearQueue =>
    have := unitOut_ok'' h
    simp only [pure, Except.pure, Except.ok.injEq] at this
    rw [← this]; exact L.clearQueue s hp
  | resetInterrupted => exact M.resetInterrupted_preserves s _ hp (unitOut_ok'' h)
  | rescanEnv => exact M.rescanEnvVars_preserves cfg s _ hp (unitOut_ok'' h)
  | reconcile => exact L.reconcileTargets_preserves cfg s _ hp (unitOut_ok'' h)
  | checkConsistency => exact M.checkConsistency_preserves s _ hp (unitOut_ok'' h)

/-- One transaction (accepted, or rejected and rolled back). -/
theorem step_JK (cfg : KConfig) (r : Req) (s : KState) (hr : ReqOKS s r) (hp : Inv4 s) :
    Inv4 (s.step cfg r) := by
  unfold KState.step
  cases h : s.exec cfg r with
  | error e => exact hp
  | ok res => obtain ⟨s', out⟩ := res; exact exec_JK cfg r s (s', out) hr hp h

/-- **The guard on a history**: every request satisfies its side condition (`ReqOKS`: only `set_state SUCCEEDED`,
`completed` with a hash, `reset_for_rerun` and `amend` have one) on the state it is issued in. -/
def HistOKS : KState → List (KConfig × Req) → Prop
  | _, [] => True
  | s, cr :: rest => ReqOKS s cr.2 ∧ HistOKS (s.step cr.1 cr.2) rest

theorem run_JK (h : List (KConfig × Req)) (s : KState) (hp : Inv4 s) (hh : HistOKS s h) : Inv4 (s.run h) := by
  unfold KState.run
  induction h generalizing s with
  | nil => exact hp
  | cons x xs ih =>
    simp only [List.foldl_cons]
    obtain ⟨hr, hrest⟩ := hh
    exact ih _ (step_JK x.1 x.2 s hr hp) hrest

theorem reachable_JK (h : List (KConfig × Req)) (hh : HistOKS KState.init h) : Inv4 (KState.init.run h) :=
  run_JK h KState.init inv4_init hh

/-- **I4 after every guarded history** (accepted and rejected requests, changing configurations). -/
theorem succOutputs_after_every_history (h : List (KConfig × Req)) (hg : HistOKS KState.init h) :
    SuccOutputsOK (KState.init.run h) :=
  succOutputsOK_of_JK (reachable_JK h hg) (creatorOK_reachable h)

/-- The same for the computed form of the oracle. -/
theorem succOutputsOKB_after_every_history (h : List (KConfig × Req)) (hg : HistOKS KState.init h) :
    succOutputsOKB (KState.init.run h) = true :=
  (succOutputsOKB_iff _).2 (succOutputs_after_every_history h hg)

/-- A history that sets no step SUCCEEDED by `set_state`, and whose `completed`, `reset_for_rerun` and `amend`
requests come in the order of the director: explicit sufficient conditions for the guard. -/
theorem histOKS_nil (s : KState) : HistOKS s [] := trivial

/-- Non-vacuity of the guard: the requests without a side condition can be appended freely. -/
theorem histOKS_cons_free (s : KState) (cfg : KConfig) (r : Req) (rest : List (KConfig × Req))
    (hr : ReqOKS s r) (h : HistOKS (s.step cfg r) rest) : HistOKS s ((cfg, r) :: rest) := ⟨hr, h⟩

end StepupModel.K.SuccOut
