import StepupModel.Lemmas.EverOutputBase
/-!
# Product rows and their declarations: `Trellis.create`

`create_inv`: `Trellis.create k creator init` keeps the invariant `Inv O All A` when the requested
initial state of a file row is allowed: a product state only for a label of `A` and an owner that is a
step or a tree, UNDECLARED only without creator.  No property statements here.
-/
namespace StepupModel.K.Ever
open StepupModel.K.MetaAfter StepupModel.K.Discipline StepupModel.Lemmas
set_option linter.unusedSimpArgs false
set_option linter.unusedVariables false

/-- The clauses of the invariant on one row. -/
def RowGood (O : Key → Prop) (A : String → Prop) (n : Node) : Prop :=
  n.key.kind = .file →
    (IsProduct n.fstate → A n.key.label ∧ ∀ c, n.creator = some c → O c) ∧
    (n.fstate = .undeclared → n.detached = true ∧ n.creator = none)

/-- Rewriting the rows of the exempted key into good rows gives the full invariant. -/
theorem inv_modify_row {O : Key → Prop} {A : String → Prop} {t : KState} {k : Key} (hI : Inv O (fun x => x ≠ k) A t) (g : Node → Node)
    (hg : ∀ n ∈ t.nodes, n.key = k → (g n).key = k ∧ RowGood O A (g n)) : Inv O All A (t.modify k g) := by
  have hmem : ∀ n' ∈ (t.modify k g).nodes, (n' ∈ t.nodes ∧ n'.key ≠ k) ∨ (n'.key = k ∧ RowGood O A n') := by
    intro n' hn'
    unfold KState.modify at hn'
    obtain ⟨n, hn, rfl⟩ := List.mem_map.1 hn'
    by_cases h : n.key = k
    · rw [if_pos h]; exact .inr (hg n hn h)
    · rw [if_neg h]; exact .inl ⟨hn, h⟩
  refine ⟨?_, ?_, ?_, ?_⟩
  · unfold KeysUnique KState.modify
    have : (t.nodes.map fun n => if n.key = k then g n else n).map (·.key) = t.nodes.map (·.key) := by
      rw [List.map_map]
      apply List.map_congr_left
      intro n hn
      simp only [Function.comp]
      by_cases h : n.key = k
      · rw [if_pos h, (hg n hn h).1, h]
      · rw [if_neg h]
    simp only
    rw [this]; exact hI.keys
  · intro n' hn' hkind hp
    rcases hmem n' hn' with ⟨hn, hne⟩ | ⟨_, hr⟩
    · exact hI.prod n' hn hkind hp
    · exact ((hr hkind).1 hp).1
  · intro n' hn' hkind _ hp c hc
    rcases hmem n' hn' with ⟨hn, hne⟩ | ⟨_, hr⟩
    · exact hI.own n' hn hkind hne hp c hc
    · exact ((hr hkind).1 hp).2 c hc
  · intro n' hn' hkind _ hu
    rcases hmem n' hn' with ⟨hn, hne⟩ | ⟨_, hr⟩
    · exact hI.und n' hn hkind hne hu
    · exact (hr hkind).2 hu

theorem fileRowWrite_row {n n' : Node} {st : FileState} {nh : Option (Option Nat)} (h : fileRowWrite n st nh = .ok n') :
    n'.key = n.key ∧ n'.creator = n.creator ∧ n'.detached = n.detached ∧ n'.fstate = st ∧
      (st = .undeclared → n.detached = true) := by
  unfold fileRowWrite at h
  simp only at h
  split at h
  · cases h
  · split at h
    · cases h
    · rename_i hu
      simp only [pure, Except.pure, Except.ok.injEq] at h
      subst h
      refine ⟨rfl, rfl, rfl, rfl, fun hst => ?_⟩
      cases hd : n.detached with
      | true => rfl
      | false => exact absurd ⟨hst, by simp [hd]⟩ hu

/-- The upsert of `File.initialize_row` on the exempted key. -/
theorem writeInitialFile_inv {O : Key → Prop} {A : String → Prop} {t t1 : KState} {k : Key} {creator : Option Key} {st : FileState}
    {existed : Bool} (hI : Inv O (fun x => x ≠ k) A t)
    (hcr : ∀ nk ∈ t.nodes, nk.key = k → nk.creator = creator ∨ nk.creator = none)
    (hp : IsProduct st → A k.label ∧ ∀ c, creator = some c → O c)
    (hu : st = .undeclared → creator = none)
    (h : t.writeInitialFile k st existed = .ok t1) : Inv O All A t1 := by
  have good : ∀ n ∈ t.nodes, n.key = k → ∀ n' : Node, n'.key = n.key → n'.creator = n.creator → n'.fstate = st →
      (st = .undeclared → n'.detached = true) → RowGood O A n' := by
    intro n hn hnk n' h1 h2 h3 h4 hkind
    have hc := hcr n hn hnk
    refine ⟨fun hprod => ?_, fun hund => ?_⟩
    · rw [h3] at hprod
      rw [h1, hnk]
      refine ⟨(hp hprod).1, fun c hcc => ?_⟩
      rw [h2] at hcc
      rcases hc with hc | hc
      · exact (hp hprod).2 c (hc ▸ hcc)
      · rw [hc] at hcc; cases hcc
    · rw [h3] at hund
      refine ⟨h4 hund, ?_⟩
      rw [h2]
      rcases hc with hc | hc
      · rw [hc]; exact hu hund
      · exact hc
  unfold KState.writeInitialFile at h
  split at h
  · unfold KState.setFileState KState.writeFile at h
    cases hfk : t.find? k with
    | none =>
      simp only [hfk, pure, Except.pure, Except.ok.injEq] at h
      subst h
      refine ⟨hI.keys, hI.prod, fun n hn hkind _ => hI.own n hn hkind ?_, fun n hn hkind _ => hI.und n hn hkind ?_⟩
      · intro he
        have := find?_of_mem hI.keys hn
        rw [he, hfk] at this; cases this
      · intro he
        have := find?_of_mem hI.keys hn
        rw [he, hfk] at this; cases this
    | some m =>
      simp only [hfk, bind, Except.bind] at h
      cases hwr : fileRowWrite m st none with
      | error e => simp [hwr] at h
      | ok m' =>
        simp only [hwr, pure, Except.pure, Except.ok.injEq] at h
        obtain ⟨r1, r2, r3, r4, r5⟩ := fileRowWrite_row hwr
        have hmk : m.key = k := find_key hfk
        have hmm : m ∈ t.nodes := find_mem hfk
        have hm : Inv O All A (t.modify k fun _ => m') := by
          refine inv_modify_row hI _ fun n hn hnk => ⟨r1.trans hmk, ?_⟩
          exact good m hmm hmk m' r1 r2 r4 (fun hst => by rw [r3]; exact r5 hst)
        subst h
        split
        · exact hm.soft (flagReadySinks_soft' _ k)
        · exact hm
  · split at h
    · cases h
    · rename_i hg
      simp only [pure, Except.pure, Except.ok.injEq] at h
      subst h
      refine Inv.soft ?_ (flagReadySinks_soft' _ k)
      refine inv_modify_row hI _ fun n hn hnk => ⟨hnk, ?_⟩
      refine good n hn hnk _ rfl rfl rfl fun hst => ?_
      show n.detached = true
      cases hd : n.detached with
      | true => rfl
      | false =>
        exfalso
        apply hg
        refine ⟨hst, ?_⟩
        unfold KState.isDetached
        have := find?_of_mem hI.keys hn
        rw [hnk] at this
        rw [this]
        simp [hd]

/-- `File.initialize_row` on the exempted key (a recycled BUILT/OUTDATED row keeps its state). -/
theorem initFileRow_inv {O : Key → Prop} {A : String → Prop} {t t' : KState} {k : Key} {creator : Option Key} {st : FileState}
    {existed : Bool} (hI : Inv O (fun x => x ≠ k) A t) (hkind : k.kind = .file)
    (hcr : ∀ nk ∈ t.nodes, nk.key = k → nk.creator = creator ∨ nk.creator = none)
    (hp : IsProduct st → A k.label ∧ ∀ c, creator = some c → O c)
    (hu : st = .undeclared → creator = none)
    (h : t.initFileRow k st existed = .ok t') : Inv O All A t' := by
  have hkept : (IsProduct (t.keptState k st existed) → A k.label ∧ ∀ c, creator = some c → O c) ∧
      (t.keptState k st existed = .undeclared → creator = none) := by
    unfold KState.keptState
    cases hfk : t.find? k with
    | none => exact ⟨hp, hu⟩
    | some m =>
      simp only [Option.map_some]
      split
      · rename_i hc
        obtain ⟨_, hst, ho⟩ := hc
        refine ⟨fun hprod => ⟨?_, fun c hcc => ?_⟩, fun hund => ?_⟩
        · have := hI.prod m (find_mem hfk) (by rw [find_key hfk]; exact hkind) hprod
          rw [find_key hfk] at this; exact this
        · rcases hst with hst | hst
          · rw [hu hst] at hcc; cases hcc
          · exact (hp (by rw [hst]; exact .inl rfl)).2 c hcc
        · rcases ho with ho | ho <;> rw [ho] at hund <;> cases hund
      · exact ⟨hp, hu⟩
  unfold KState.initFileRow at h
  simp only [bind, Except.bind] at h
  cases h1 : t.writeInitialFile k (t.keptState k st existed) existed with
  | error e => simp [h1] at h
  | ok t1 =>
    simp only [h1] at h
    have i1 := writeInitialFile_inv hI hcr hkept.1 hkept.2 h1
    split at h
    · exact Inv.of_soft (fun s0 => markFileOutdated_soft k) t1 t' i1 h
    · simp only [pure, Except.pure, Except.ok.injEq] at h; subst h; exact i1

/-- What `create` may be asked for a key: a file gets a file initialisation, whose state is a product
state only for a label of `A` and an owning step or tree, and UNDECLARED only without creator; the other
initialisations are for keys that are no files. -/
def InitAllowed (O : Key → Prop) (A : String → Prop) (k : Key) (creator : Option Key) : Init → Prop
  | .file st => k.kind = .file ∧ (IsProduct st → A k.label ∧ ∀ c, creator = some c → O c) ∧
      (st = .undeclared → creator = none)
  | _ => k.kind ≠ .file

theorem initRow_inv {O : Key → Prop} {A : String → Prop} {t t' : KState} {k : Key} {creator : Option Key} {init : Init}
    {existed : Bool} (hI : Inv O (fun x => x ≠ k) A t)
    (hcr : ∀ nk ∈ t.nodes, nk.key = k → nk.creator = creator ∨ nk.creator = none)
    (ha : InitAllowed O A k creator init) (h : t.initRow k init existed = .ok t') : Inv O All A t' := by
  have hnf : k.kind ≠ .file → Inv O All A t := fun hk =>
    hI.mono (fun x hx _ he => by rw [he] at hx; exact hk hx) (fun _ hp => hp)
  unfold KState.initRow at h
  cases init with
  | root => simp only [pure, Except.pure, Except.ok.injEq] at h; subst h; exact hnf ha
  | tree => simp only [pure, Except.pure, Except.ok.injEq] at h; subst h; exact hnf ha
  | step i =>
    simp only [pure, Except.pure, Except.ok.injEq] at h; subst h
    have ha' : k.kind ≠ .file := ha
    unfold KState.initStepRow
    refine (hnf ha').keep (keepX_modify All t k _ (fun _ => rfl) fun n hn hnk hkind => ?_)
      (keysUnique_modify k _ (fun _ hn => hn) hI.keys)
    exact absurd (hnk ▸ hkind) ha'
  | file st =>
    obtain ⟨hk, hp, hu⟩ := ha
    exact initFileRow_inv hI hk hcr hp hu h

theorem not_mem_of_find_none {s : KState} (hk : KeysUnique s) {k : Key} (hf : s.find? k = none) :
    ∀ n ∈ s.nodes, n.key ≠ k := by
  intro n hn he
  have := find?_of_mem hk hn
  rw [he, hf] at this; cases this

theorem inv_exempt {O : Key → Prop} {A : String → Prop} {s : KState} (k : Key) (h : Inv O All A s) : Inv O (fun x => x ≠ k) A s :=
  h.mono (fun _ _ _ => trivial) (fun _ hp => hp)

/-- **`Trellis.create`** (fresh row or recycled row) keeps the invariant for an allowed initialisation. -/
theorem create_inv {O : Key → Prop} {A : String → Prop} {k : Key} {creator : Option Key} {init : Init}
    (ha : InitAllowed O A k creator init) : Preserves (Inv O All A) (fun s => s.create k creator init) := by
  intro s s' hI h
  replace h : s.create k creator init = .ok s' := h
  unfold KState.create at h
  cases hf : s.find? k with
  | some n =>
    simp only [hf] at h
    split at h
    · cases h
    · split at h
      · cases h
      · unfold KState.recycleCore at h
        simp only [bind, Except.bind] at h
        cases h1 : s.setCreator k creator (s.creatorDetached creator) with
        | error e => simp [h1] at h
        | ok s1 =>
          simp only [h1] at h
          cases h2 : s1.lostProduct n.creator with
          | error e => simp [h2] at h
          | ok s2 =>
            simp only [h2] at h
            cases h3 : (s2.deleteDeps fun dp => dp.snk = k).detachProducts k with
            | error e => simp [h3] at h
            | ok s3 =>
              simp only [h3] at h
              have i1 := setCreator_inv (inv_exempt k hI) (fun _ hne => hne rfl) h1
              have i2 := lostProduct_inv n.creator s1 s2 i1 h2
              have i3a := deleteDeps_inv (fun dp => dp.snk = k) i2
              have r3 : StructRel (s2.deleteDeps fun dp => dp.snk = k) s3 := by
                unfold KState.detachProducts at h3
                exact structRel_foldl_detach _ _ _ h3
              have i3 : Inv O (fun x => x ≠ k) A s3 := by
                unfold KState.detachProducts at h3
                exact foldlM_detach_inv _ _ _ i3a h3
              have hcr : ∀ nk ∈ s3.nodes, nk.key = k → nk.creator = creator ∨ nk.creator = none := by
                unfold KState.setCreator at h1
                split at h1
                · simp only [pure, Except.pure, Except.ok.injEq] at h1
                  subst h1
                  have r : StructRel (s.modify k fun n => { n with creator := creator }) s3 :=
                    (structRel_setDetachedRow _ k _).trans ((lostProduct_rel h2).struct.trans
                      ((structRel_deleteDeps s2 _).trans r3))
                  intro nk hnk hkk
                  obtain ⟨n0, hn0, hrow⟩ := forall₂_mem_right r.rows nk hnk
                  have hn0k : n0.key = k := hrow.1 ▸ hkk
                  have hn0c : n0.creator = creator := by
                    unfold KState.modify at hn0
                    obtain ⟨m, hm, rfl⟩ := List.mem_map.1 hn0
                    by_cases hmk : m.key = k
                    · rw [if_pos hmk]
                    · rw [if_neg hmk] at hn0k; exact absurd hn0k hmk
                  rcases hrow.2.2 with hc | hc
                  · exact .inl (hc.trans hn0c)
                  · exact .inr hc.1
                · cases h1
              exact initRow_inv i3 hcr ha h
  | none =>
    simp only [hf] at h
    split at h
    · rename_i hins
      have hkA := ku_of_kn (stable_keysNodup.appendNode s k creator hf hins (kn_of_ku hI.keys))
      have hne := not_mem_of_find_none hI.keys hf
      have hmem : ∀ m ∈ (s.appendNode k creator).nodes, m ∈ s.nodes ∨
          m = ({ key := k, creator := creator, detached := s.creatorDetached creator } : Node) := by
        intro m hm
        unfold KState.appendNode at hm
        simp only [List.mem_append, List.mem_singleton] at hm
        exact hm
      have iA : Inv O (fun x => x ≠ k) A (s.appendNode k creator) := by
        refine ⟨hkA, ?_, ?_, ?_⟩
        · intro m hm hkind hp
          rcases hmem m hm with hm | rfl
          · exact hI.prod m hm hkind hp
          · exact absurd hp (by show ¬ IsProduct FileState.undeclared; decide)
        · intro m hm hkind hx hp
          rcases hmem m hm with hm | rfl
          · exact hI.own m hm hkind trivial hp
          · exact absurd rfl hx
        · intro m hm hkind hx hu
          rcases hmem m hm with hm | rfl
          · exact hI.und m hm hkind trivial hu
          · exact absurd rfl hx
      have hcr : ∀ nk ∈ (s.appendNode k creator).nodes, nk.key = k → nk.creator = creator ∨ nk.creator = none := by
        intro nk hnk hkk
        rcases hmem nk hnk with hm | rfl
        · exact absurd hkk (hne nk hm)
        · exact .inl rfl
      exact initRow_inv iA hcr ha h
    · cases h

end StepupModel.K.Ever
