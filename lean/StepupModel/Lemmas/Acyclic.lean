import StepupModel.Lemmas.StableC
/-!
# C09, clause "dependencies are acyclic", for every history

* Graph part (`Lemmas/SinkClosure.lean`): `Path`, `AcyclicDeps`, `mem_sinkClosure_iff`
  (`RECURSE_SINKS` lists exactly the start node and what it reaches), `acyclic_append`,
  `notDownstream_append`.
* Lifting (`Lemmas/StableC.lean`): the raw `INSERT INTO dependency` leaf of `Lemmas/Stable.lean`
  does not carry the cycle check, and acyclicity is *not* stable under it (`acyclic_not_stable`
  below), so `Stable.ofDeps` cannot be used; more than that, a predicate that is stable in the sense
  of `Lemmas/Stable.lean` holds after *any* kind-correct, duplicate-free insertion, so no such
  predicate can imply acyclicity.  `StableCG` is the same list of leaves with the check
  as a hypothesis of the insertion leaf; the only functions of the model that call `insertDep` are
  `addSourceChecked` (from `declareProduct`) and `insertNewEdges` (from `supplyFiles`), and both are
  shown to call it under the check.  Everything else is the proof of `Lemmas/Stable.lean` unchanged.
* Here: `Acyclic` is stable in that sense (`stableC_acyclic`: a checked insertion by
  `acyclic_append`, deletions and `dynamic` marks by `acyclic_of_subedges`), hence an invariant of
  every request and every history (`exec_acyclic`, `step_acyclic`, `run_acyclic`,
  `acyclic_reachable`).  No function of the model breaks the chain.
-/
namespace StepupModel.K
open StepupModel.Lemmas

/-- **C09, clause "dependencies are acyclic"**: no node reaches itself along dependency edges. -/
def Acyclic (s : KState) : Prop := ∀ k, ¬ Path s.deps k k

theorem acyclic_iff (s : KState) : Acyclic s ↔ AcyclicDeps s.deps := Iff.rfl

/-- A predicate of the edge list is stable under the checked writes as soon as the checked
insertion, deletions and `dynamic` marks keep it (`Stable.ofDeps` with the cycle check). -/
theorem StableC.ofDeps (Q : List Dep → Prop)
    (hadd : ∀ (l : List Dep) (src snk : Key), NotDownstream l snk src → depKindOk src.kind snk.kind = true → Q l →
      Q (l ++ [({ src := src, snk := snk } : Dep)]))
    (hfilter : ∀ (l : List Dep) (p : Dep → Bool), Q l → Q (l.filter fun d => !p d))
    (hmap : ∀ (l : List Dep) (src snk : Key) (dyn : Bool), Q l →
      Q (l.map fun (d : Dep) => if d.src = src ∧ d.snk = snk then { d with dyn := dyn } else d)) :
    StableC (fun s => Q s.deps) where
  cache _ _ _ _ hp := hp
  detached _ _ _ hp := hp
  creator _ _ _ _ _ hp := hp
  handOverRow _ _ _ hp := hp
  fileWrite _ _ _ _ _ _ _ _ hp := hp
  fileInit _ _ _ _ _ hp := hp
  stepWrite _ _ _ _ _ _ _ _ hp := hp
  stepInit _ _ _ hp := hp
  setHash _ _ _ hp := hp
  deleteHash _ _ hp := hp
  bumpDefer _ _ hp := hp
  hold _ _ _ hp := hp
  release _ _ _ _ _ hp := hp
  recycled _ _ _ _ hp := hp
  addDep s src snk hc _ hk hp := hadd s.deps src snk ((notDownstream_iff s.deps snk src).2 hc) hk hp
  filterDeps s p hp := hfilter s.deps p hp
  markDyn s src snk dyn hp := hmap s.deps src snk dyn hp
  appendNode _ _ _ _ _ hp := hp
  removeNode _ _ _ hp := hp
  queueDelete _ _ _ hp := hp
  clearQueue _ hp := hp

/-- **Acyclicity survives every primitive write, insertions under the cycle check.** -/
theorem stableC_acyclic : StableC Acyclic := by
  refine StableC.ofDeps AcyclicDeps ?_ ?_ ?_
  · intro l src snk hc _ hl
    exact acyclic_append l src snk false hl hc
  · intro l p hl
    exact acyclic_of_subedges (fun d hd => ⟨d, (List.mem_filter.1 hd).1, rfl, rfl⟩) hl
  · intro l src snk dyn hl
    refine acyclic_of_subedges (fun d hd => ?_) hl
    obtain ⟨e, he, rfl⟩ := List.mem_map.1 hd
    refine ⟨e, he, ?_⟩
    split <;> exact ⟨rfl, rfl⟩

theorem init_acyclic : Acyclic KState.init := by
  intro k p
  have hno : ∀ {a b : Key}, ¬ Edge KState.init.deps a b := by
    intro a b e
    obtain ⟨d, hd, _⟩ := e
    simp [KState.init] at hd
  cases p with
  | single e => exact hno e
  | cons e _ => exact hno e

/-! ## The two places where the code inserts an edge -/

/-- `INSERT INTO dependency` on a state on which the cycle check passes. -/
theorem insertDep_acyclic (src snk : Key) (s s' : KState) (hp : Acyclic s)
    (hc : (s.sinkClosure snk).contains src = false) (h : s.insertDep src snk = .ok s') : Acyclic s' :=
  stableC_acyclic.insertDep_preserves src snk s s' hc hp h

/-- `Node.add_source` with `check_sources_acyclic` (`file.add_source(step)` for every product). -/
theorem addSourceChecked_acyclic (snk src : Key) (s s' : KState) (hp : Acyclic s)
    (h : s.addSourceChecked snk src = .ok s') : Acyclic s' :=
  stableC_acyclic.addSourceChecked_preserves snk src s s' hp h

/-- The insertions of `Workflow._supply_files`, when none of the new inputs is a recursive sink of
`step` *on the state before the first insertion*. -/
theorem insertNewEdges_acyclic (step : Key) (infos : List Supply) (s s' : KState) (hp : Acyclic s)
    (hc : ∀ i ∈ infos.filter (·.newRel), (s.sinkClosure step).contains i.file = false)
    (h : s.insertNewEdges step infos = .ok s') : Acyclic s' :=
  stableC_acyclic.insertNewEdges_preserves step infos s s' hc hp h

/-- `Workflow._supply_files` (its own check is the hypothesis of `insertNewEdges_acyclic`). -/
theorem supplyFiles_acyclic (cfg : KConfig) (step : Key) (paths : List String) (rn : Bool) (s : KState)
    (r : KState × List Supply) (hp : Acyclic s) (h : s.supplyFiles cfg step paths rn = .ok r) : Acyclic r.1 :=
  stableC_acyclic.supplyFiles_preserves cfg step paths rn s r hp h

theorem defineStep_acyclic (cfg : KConfig) (creator : Key) (d : StepDecl) (s : KState) (r : KState × List String)
    (hp : Acyclic s) (h : s.defineStep cfg creator d = .ok r) : Acyclic r.1 :=
  stableC_acyclic.defineStep_preserves cfg creator d s r hp h

theorem amendStep_acyclic (cfg : KConfig) (step : Key) (inp env out vol : List String) (conc : List Key)
    (s : KState) (r : KState × AmendResult) (hp : Acyclic s)
    (h : s.amendStep cfg step inp env out vol conc = .ok r) : Acyclic r.1 :=
  stableC_acyclic.amendStep_preserves cfg step inp env out vol conc s r hp h

/-! ## Requests and histories -/

/-- Every accepted request maps an acyclic dependency table to an acyclic one. -/
theorem exec_acyclic (cfg : KConfig) (r : Req) (s : KState) (res : KState × String) (hp : Acyclic s)
    (h : s.exec cfg r = .ok res) : Acyclic res.1 :=
  exec_stableC stableC_acyclic cfg r s res hp h

/-- One transaction, accepted or rolled back. -/
theorem step_acyclic (cfg : KConfig) (r : Req) (s : KState) (hp : Acyclic s) : Acyclic (s.step cfg r) :=
  step_stableC stableC_acyclic cfg r s hp

theorem run_acyclic (h : List (KConfig × Req)) (s : KState) (hp : Acyclic s) : Acyclic (s.run h) :=
  run_stableC stableC_acyclic h s hp

/-- **After every history of accepted and rejected requests the dependency table is acyclic.** -/
theorem acyclic_reachable (h : List (KConfig × Req)) : Acyclic (KState.init.run h) :=
  reachable_stableC stableC_acyclic init_acyclic h

/-! ## An executable form -/

theorem Path.head {deps : List Dep} {a b : Key} (p : Path deps a b) :
    ∃ x, Edge deps a x ∧ (x = b ∨ Path deps x b) := by
  cases p with
  | single e => exact ⟨b, e, .inl rfl⟩
  | cons e q => exact ⟨_, e, .inr q⟩

/-- No edge whose source is a recursive sink of its sink (what `check_sources_acyclic` would find
if it were run on every row). -/
def KState.acyclicB (s : KState) : Bool := s.deps.all fun d => !(s.sinkClosure d.snk).contains d.src

theorem acyclicB_iff (s : KState) : s.acyclicB = true ↔ Acyclic s := by
  unfold KState.acyclicB
  rw [List.all_eq_true]
  constructor
  · intro h k p
    obtain ⟨x, ⟨d, hd, h1, h2⟩, hx⟩ := p.head
    have := h d hd
    simp only [Bool.not_eq_true', List.contains_eq_mem, decide_eq_false_iff_not] at this
    apply this
    rw [mem_sinkClosure_iff, h1, h2]
    rcases hx with hx | hx
    · exact .inl hx.symm
    · exact .inr hx
  · intro h d hd
    simp only [Bool.not_eq_true', List.contains_eq_mem, decide_eq_false_iff_not]
    intro hm
    have e : Edge s.deps d.src d.snk := ⟨d, hd, rfl, rfl⟩
    rcases (mem_sinkClosure_iff s d.snk d.src).1 hm with hm | hm
    · rw [hm] at e; exact h _ (.single e)
    · exact h _ (.cons e hm)

/-- In particular: no edge from a node to itself, and no pair of opposite edges. -/
theorem Acyclic.no_loop {s : KState} (h : Acyclic s) : ∀ d ∈ s.deps, d.src ≠ d.snk := by
  intro d hd heq
  have e : Edge s.deps d.src d.snk := ⟨d, hd, rfl, rfl⟩
  rw [← heq] at e
  exact h _ (.single e)

theorem Acyclic.no_two_cycle {s : KState} (h : Acyclic s) :
    ∀ d ∈ s.deps, ∀ e ∈ s.deps, ¬ (e.src = d.snk ∧ e.snk = d.src) := by
  intro d hd e he hh
  exact h d.src (.cons ⟨d, hd, rfl, rfl⟩ (.single ⟨e, he, hh.1, hh.2⟩))

/-! ## Why the unchecked leaf is not enough -/

/-- A file that is an input of a step. -/
def cycleWitness : KState :=
  { KState.init with deps := [{ src := fileKey "f", snk := stepKey "x" }] }

example : Acyclic cycleWitness ∧ cycleWitness.deps ≠ [] := ⟨(acyclicB_iff _).1 (by decide), by decide⟩

/-- The schema alone (UNIQUE and the kind trigger) accepts the opposite edge: acyclicity is not
stable under the unchecked `INSERT INTO dependency`, the cycle check of the Python code is what
keeps it. -/
theorem acyclic_not_stable : ¬ Stable Acyclic := by
  intro L
  have h1 : Acyclic cycleWitness := (acyclicB_iff _).1 (by decide)
  have h2 := L.addDep cycleWitness (stepKey "x") (fileKey "f") (by decide) (by decide) h1
  exact absurd ((acyclicB_iff _).2 h2) (by decide)

end StepupModel.K
